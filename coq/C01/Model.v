(** C01: Deferred callback chains vs. a sequential (recursive) interpreter.
    The model of the code is TwLib.DeferredK ([step]/[iter]/[runCallbacks]: the iterative _runCallbacks loop
    with its explicit chain stack).  This file gives the Spec: the documented chaining rules as a *recursive*
    interpreter [SRun] (what Deferred._runCallbacks/_continue were before the loop was made iterative):

      run d:  if d is paused: stop.  Otherwise take d's next callback pair;
        - an ordinary pair: call the callback (or the errback if the current result is a Failure) with the
          current result; its return value / raised exception is the new result.  If that is a Deferred x that
          has a plain result and is not paused, take x's result (x keeps None).  If x has no result yet, waits
          itself, or is paused: pause d, remember d in x's callbacks (a continuation), stop.
          Otherwise go on with d's next pair;
        - a continuation of a waiting Deferred c: give c the current result (d keeps None), unpause c,
          *run c recursively*, then go on with d's next pair.
    [action_of] is "what one callback application does"; [SRun] is the recursion around it. *)
From Coq Require Import List Arith ZArith Bool.
From TwLib Require Export DeferredK.
Import ListNotations.

Inductive action :=
| AMissing                                  (* no such Deferred *)
| APaused                                   (* paused: nothing runs *)
| ADone (h1 : heap)                         (* no callbacks left *)
| ACont (c : nat) (h1 : heap)               (* continuation: result handed to c, c unpaused *)
| ACall (evs : list ev) (h1 : heap)         (* a callback ran; d goes on *)
| AWait (evs : list ev) (h1 : heap).        (* a callback ran and returned a Deferred d must wait for *)

Definition action_of (h : heap) (d : nat) : action :=
  match get h d with
  | None => AMissing
  | Some D =>
      if negb (Z.eqb (paused D) 0) then APaused
      else
        match cbs D with
        | [] => ADone (upd h d (set_chained None))
        | item :: more =>
            let h0 := upd h d (fun D => set_cbs more (set_chained None D)) in
            let r := cur_result D in
            match item with
            | Cont c =>
                let h1 := upd h0 c (set_res (Some r)) in
                let h2 := upd h1 d (set_res (Some VNone)) in
                ACont c (upd h2 c (fun C => set_paused (paused C - 1)%Z C))
            | Pair k cb eb =>
                let side := if is_fail r then eb else cb in
                let r' := match side with Some b => apply_beh b r | None => r end in
                let evs := match side with Some _ => [ERun d k r] | None => [] end in
                let h1 := upd h0 d (set_res (Some r')) in
                match r' with
                | VDef x =>
                    match get h1 x with
                    | None => ACall evs h1
                    | Some X =>
                        if waiting X
                        then
                          let h2 := upd h1 d (fun D => set_chained (Some x) (set_paused (paused D + 1)%Z D)) in
                          AWait evs (upd h2 x (fun X => set_cbs (cbs X ++ [Cont d]) X))
                        else
                          let h2 := upd h1 x (set_res (Some VNone)) in
                          ACall evs (upd h2 d (set_res (res X)))
                    end
                | _ => ACall evs h1
                end
            end
        end
  end.

(** the recursive interpreter, as a big-step relation: [SRun h d h' l] = running d's callbacks in heap h ends
    in heap h' having made the callback calls l *)
Inductive SRun : heap -> nat -> heap -> list ev -> Prop :=
| SR_missing h d : action_of h d = AMissing -> SRun h d h []
| SR_paused h d : action_of h d = APaused -> SRun h d h []
| SR_done h d h1 : action_of h d = ADone h1 -> SRun h d h1 []
| SR_cont h d c h1 h2 h3 l1 l2 :
    action_of h d = ACont c h1 -> SRun h1 c h2 l1 -> SRun h2 d h3 l2 -> SRun h d h3 (l1 ++ l2)
| SR_call h d evs h1 h2 l :
    action_of h d = ACall evs h1 -> SRun h1 d h2 l -> SRun h d h2 (evs ++ l)
| SR_wait h d evs h1 : action_of h d = AWait evs h1 -> SRun h d h1 evs.

(** running a stack of Deferreds one after the other, top first *)
Inductive SRunChain : heap -> list nat -> heap -> list ev -> Prop :=
| SC_nil h : SRunChain h [] h []
| SC_cons h c rest h1 h2 l1 l2 :
    SRun h c h1 l1 -> SRunChain h1 rest h2 l2 -> SRunChain h (c :: rest) h2 (l1 ++ l2).

(** ---- ghost readings of the call log ---- *)
Definition run_ids (l : list ev) : list nat :=
  flat_map (fun e => match e with ERun _ k _ => [k] | _ => [] end) l.
Definition run_ids_of (d : nat) (l : list ev) : list nat :=
  flat_map (fun e => match e with ERun x k _ => if Nat.eqb x d then [k] else [] | _ => [] end) l.
Definition pending_ids (D : dfr) : list nat :=
  flat_map (fun e => match e with Pair k _ _ => [k] | Cont _ => [] end) (cbs D).
Definition all_pending (h : heap) : list nat := flat_map pending_ids h.

(** the F1 program: d1's callback returns the unfired d0; a callback is added to d0; d1 is paused by the user;
    d0 fires *)
Definition f1_program : program :=
  ([CNone; CNone],
   [OAdd 1 (Some (BRet (VDef 0))) None; OCallback 1 0; OAdd 0 (Some BPass) None; OPause 1; OCallback 0 5]).
