(** C01 proofs: the iterative loop (with the repair) computes exactly what the recursive interpreter predicts. *)
From Coq Require Import List Arith ZArith Bool Lia.
From TwLib Require Import DeferredK DeferredKFacts.
From C01 Require Import Model.
Import ListNotations.

(** the loop body is "apply [action_of] to the top of the stack, then manage the stack" *)
Lemma step_action fx h d rest :
  step fx h (d :: rest) =
  Some (match action_of h d with
        | AMissing => (h, rest, [])
        | APaused => (h, if fx then rest else [], [])
        | ADone h1 => (h1, rest, [])
        | ACont c h1 => (h1, c :: d :: rest, [])
        | ACall evs h1 => (h1, d :: rest, evs)
        | AWait evs h1 => (h1, rest, evs)
        end).
Proof.
  unfold step, action_of. destruct (get h d) as [D|]; [|reflexivity].
  destruct (negb (paused D =? 0)%Z); [reflexivity|].
  destruct (cbs D) as [|item more]; [reflexivity|].
  destruct item as [k cb eb|c]; [|reflexivity].
  set (side := if is_fail (cur_result D) then eb else cb).
  destruct (match side with Some b => apply_beh b (cur_result D) | None => cur_result D end) as [| z | e | x];
    try reflexivity.
  match goal with |- context [get ?hh x] => destruct (get hh x) as [X|] end; [|reflexivity].
  destruct (waiting X); reflexivity.
Qed.

(** ---- refinement ---- *)
Lemma iter_refines fuel : forall h ch h' l,
  iter true fuel h ch = Some (h', l) -> SRunChain h ch h' l.
Proof.
  induction fuel as [|f IH]; intros h ch h' l H.
  - cbn [iter] in H. destruct ch as [|d rest].
    + cbn in H. inversion H; subst. constructor.
    + rewrite step_action in H. destruct (action_of h d); discriminate.
  - cbn [iter] in H. destruct ch as [|d rest].
    + cbn in H. inversion H; subst. constructor.
    + rewrite step_action in H.
      destruct (action_of h d) as [| |h1|c h1|evs h1|evs h1] eqn:A;
        match type of H with match iter true f ?hh ?cc with _ => _ end = _ =>
          destruct (iter true f hh cc) as [[h2 l2]|] eqn:I; [|discriminate] end;
        inversion H; subst; apply IH in I.
      * refine (SC_cons _ _ _ _ _ [] _ _ I). apply SR_missing; exact A.
      * refine (SC_cons _ _ _ _ _ [] _ _ I). apply SR_paused; exact A.
      * refine (SC_cons _ _ _ _ _ [] _ _ I). apply SR_done; exact A.
      * cbn [app]. inversion I as [|? ? ? ha ? la lrest Rc Irest]; subst.
        inversion Irest as [|? ? ? hb ? lb lc Rd Ic]; subst.
        rewrite app_assoc. econstructor; [eapply SR_cont; eauto|exact Ic].
      * inversion I as [|? ? ? ha ? la lb Rd Ic]; subst.
        rewrite app_assoc. econstructor; [eapply SR_call; eauto|exact Ic].
      * econstructor; [apply SR_wait; exact A|exact I].
Qed.

Lemma runCallbacks_refines h d :
  SRun h d (fst (runCallbacks true h d)) (snd (runCallbacks true h d)).
Proof.
  pose proof (runCallbacks_iter true h d) as R. destruct (runCallbacks true h d) as [h' l]. cbn [fst snd].
  apply iter_refines in R. inversion R as [|? ? ? h1 ? l1 l2 Rd Rn]; subst.
  inversion Rn; subst. rewrite app_nil_r. exact Rd.
Qed.

(** the interpreter is a function: at most one outcome *)
Lemma SRun_deterministic h d h1 l1 :
  SRun h d h1 l1 -> forall h2 l2, SRun h d h2 l2 -> h1 = h2 /\ l1 = l2.
Proof.
  induction 1 as [h d A|h d A|h d h1 A|h d c h1 h2 h3 l1 l2 A R1 IH1 R2 IH2|h d evs h1 h2 l A R IH|h d evs h1 A];
    intros h2' l2' R'; inversion R'; subst;
    try (match goal with A1 : action_of ?h ?d = _, A2 : action_of ?h ?d = _ |- _ =>
           rewrite A1 in A2; try discriminate; inversion A2; subst end);
    auto.
  - clear R1 R2. edestruct IH1 as [E1 E2]; [eassumption|]. subst.
    edestruct IH2 as [E1 E2]; [eassumption|]. subst. auto.
  - clear R. edestruct IH as [E1 E2]; [eassumption|]. subst. auto.
Qed.

Theorem refines_spec h d h' l : SRun h d h' l <-> runCallbacks true h d = (h', l).
Proof.
  split.
  - intros R. destruct (SRun_deterministic _ _ _ _ (runCallbacks_refines h d) _ _ R) as [E1 E2].
    destruct (runCallbacks true h d); cbn in *; congruence.
  - intros E. pose proof (runCallbacks_refines h d) as R. rewrite E in R. exact R.
Qed.

(** the interpreter always has an outcome (it terminates on every heap) *)
Lemma SRun_total h d : exists h' l, SRun h d h' l.
Proof. eexists _, _. apply runCallbacks_refines. Qed.

(** ---- the pinned loop ([return] when the top of the stack is paused) does not refine the interpreter ---- *)
Definition f1_heap : heap := heap_of (fst (run_program false (fst f1_program, removelast (snd f1_program)))).

Lemma f1_pinned :
  map pending_ids (heap_of (fst (run_program false f1_program))) = [[1]; []]
  /\ run_ids (concat (snd (run_program false f1_program))) = [0].
Proof. vm_compute. split; reflexivity. Qed.

Lemma f1_repaired :
  map pending_ids (heap_of (fst (run_program true f1_program))) = [[]; []]
  /\ run_ids (concat (snd (run_program true f1_program))) = [0; 1].
Proof. vm_compute. split; reflexivity. Qed.

Lemma pinned_refuted :
  exists h d, ~ SRun h d (fst (runCallbacks false h d)) (snd (runCallbacks false h d)).
Proof.
  (* the heap just before d0.callback(5) in the F1 program, with d0 marked fired *)
  exists (upd f1_heap 0 (fun D => set_res (Some (VInt 5)) (set_called true D))), 0.
  intros R. apply refines_spec in R. revert R. vm_compute. discriminate.
Qed.
