(** C01: printer used by the correspondence check only. *)
From Coq Require Import List Arith ZArith Bool String.
From TwLib Require Import Show DeferredK DeferredKShow DeferredKR DeferredKRShow.
Import ListNotations.

(** the model of the repaired loop (fixes/C01-paused-chainee-strands-outer.patch) *)
Definition run_show (p : program) : string := show_program true p.
(** the model of the pinned loop, used to recognise the recorded defect F1 *)
Definition run_show_pinned (p : program) : string := show_program false p.

(** the script-free kernel program as a program of the re-entrant kernel *)
Definition embed_beh (b : option beh) : option rbeh := match b with Some x => Some (RB [] x) | None => None end.
Definition embed_op (o : op) : rop :=
  match o with
  | OAdd d cb eb => ROAdd d (embed_beh cb) (embed_beh eb)
  | OCallback d z => ROCallback d z
  | OErrback d e => ROErrback d e
  | OPause d => ROPause d
  | OUnpause d => ROUnpause d
  | OCancel d => ROCancel d
  end.
Definition embed (p : program) : rprogram := (fst p, map embed_op (snd p)).

(** programs whose callbacks run kernel operations (scripts) are evaluated on the re-entrant kernel DeferredKR;
    script-free ones on DeferredK, and when the flag is set ALSO on DeferredKR: the two kernels must agree *)
Definition show_any (c : (bool * program) + rprogram) : string :=
  match c with
  | inl (both, p) =>
      let a := run_show p in
      if both then (if String.eqb a (show_rprogram (embed p)) then a else "KERNELS-DISAGREE:" ++ show_rprogram (embed p))
      else a
  | inr p => show_rprogram p
  end.
