(** C01: printer used by the correspondence check only. *)
From Coq Require Import List Arith ZArith Bool String.
From TwLib Require Import Show DeferredK DeferredKShow.
Import ListNotations.

(** the model of the repaired loop (fixes/C01-paused-chainee-strands-outer.patch) *)
Definition run_show (p : program) : string := show_program true p.
(** the model of the pinned loop, used to recognise the recorded defect F1 *)
Definition run_show_pinned (p : program) : string := show_program false p.
