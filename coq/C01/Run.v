(** C01: printer used by the correspondence check only. *)
From Coq Require Import List Arith ZArith Bool String.
From TwLib Require Import Show DeferredK DeferredKShow DeferredKR DeferredKRShow.
Import ListNotations.

(** the model of the repaired loop (fixes/C01-paused-chainee-strands-outer.patch) *)
Definition run_show (p : program) : string := show_program true p.
(** the model of the pinned loop, used to recognise the recorded defect F1 *)
Definition run_show_pinned (p : program) : string := show_program false p.

(** programs whose callbacks run kernel operations (scripts) are evaluated on the re-entrant kernel DeferredKR *)
Definition show_any (c : program + rprogram) : string :=
  match c with inl p => run_show p | inr p => show_rprogram p end.
