(** C01 property theorems.  [runCallbacks true] is the iterative _runCallbacks loop of defer.py with its explicit
    chain stack (repaired as in fixes/C01-paused-chainee-strands-outer.patch); [SRun] is the recursive
    interpreter of the documented chaining rules (C01.Model).  All statements are for EVERY heap: any number
    of Deferreds in any state (fired or not, paused any number of times, waiting on each other in any shape,
    even cyclic), any callback behaviours — so in particular for every state reachable by a program. *)
From Coq Require Import List Arith ZArith Bool.
From TwLib Require Import DeferredK DeferredKFacts.
From C01 Require Import Model Proofs Order.
From TwLib Require Import DeferredKR.
From C01 Require Import ModelR ProofsR.
Import ListNotations.

(** the loop computes an outcome the interpreter predicts: same final heap (results, pending callbacks, pause
    counts of every Deferred), same sequence of callback calls with the same arguments *)
Theorem runCallbacks_refines_spec : forall h d,
  SRun h d (fst (runCallbacks true h d)) (snd (runCallbacks true h d)).
Proof. exact runCallbacks_refines. Qed.
Print Assumptions runCallbacks_refines_spec.

(** the interpreter predicts exactly one outcome, so the two coincide *)
Theorem spec_is_deterministic : forall h d h1 l1 h2 l2,
  SRun h d h1 l1 -> SRun h d h2 l2 -> h1 = h2 /\ l1 = l2.
Proof. intros h d h1 l1 h2 l2 R1 R2. exact (SRun_deterministic h d h1 l1 R1 h2 l2 R2). Qed.
Print Assumptions spec_is_deterministic.

Theorem runCallbacks_iff_spec : forall h d h' l,
  SRun h d h' l <-> runCallbacks true h d = (h', l).
Proof. exact refines_spec. Qed.
Print Assumptions runCallbacks_iff_spec.

(** with any stack of Deferreds (as left by nested continuations) and any sufficient fuel, the loop is the
    interpreter applied to the stack from the top down *)
Theorem loop_with_stack_refines_spec : forall fuel h chain h' l,
  iter true fuel h chain = Some (h', l) -> SRunChain h chain h' l.
Proof. exact iter_refines. Qed.
Print Assumptions loop_with_stack_refines_spec.

(** both terminate on every heap *)
Theorem spec_and_loop_terminate : forall h d,
  (exists h' l, SRun h d h' l) /\ iter true (measure h [d]) h [d] = Some (runCallbacks true h d).
Proof. intros h d. split; [apply SRun_total | apply runCallbacks_iter]. Qed.
Print Assumptions spec_and_loop_terminate.

(** the pinned loop ([if current.paused: return]) does NOT refine the interpreter: finding F1 *)
Theorem runCallbacks_pinned_refines_spec_refuted :
  exists h d, ~ SRun h d (fst (runCallbacks false h d)) (snd (runCallbacks false h d)).
Proof. exact pinned_refuted. Qed.
Print Assumptions runCallbacks_pinned_refines_spec_refuted.

(** the F1 program: under the pinned loop callback 1 (added to d0 after d1 started waiting on it) never runs
    and stays pending although d0 has fired and is not paused; under the repaired loop it runs *)
Theorem f1_program_outcomes :
  (map pending_ids (heap_of (fst (run_program false f1_program))) = [[1]; []]
   /\ run_ids (concat (snd (run_program false f1_program))) = [0])
  /\ (map pending_ids (heap_of (fst (run_program true f1_program))) = [[]; []]
      /\ run_ids (concat (snd (run_program true f1_program))) = [0; 1]).
Proof. split; [exact f1_pinned | exact f1_repaired]. Qed.
Print Assumptions f1_program_outcomes.

(** FIFO within one run of the loop, for every heap: each Deferred's queue of user callbacks loses a prefix, and
    the callbacks of that Deferred that were called are a subsequence of that prefix, in queue order (a callback
    leaves the queue uncalled only when the pair had no function on the side taken: pass-through) *)
Theorem loop_runs_callbacks_in_queue_order : forall h d x,
  exists rem,
    pending_at h x = rem ++ pending_at (fst (runCallbacks true h d)) x
    /\ Sub (run_ids_of x (snd (runCallbacks true h d))) rem.
Proof. intros h d x. exact (runCallbacks_Q h d x). Qed.
Print Assumptions loop_runs_callbacks_in_queue_order.

(** for EVERY program (any Deferreds, cancellers, operations incl. pause/unpause/cancel, any length) and every
    Deferred x: the ids of the add-operations on x, in program order, split into a prefix [rem] and exactly the
    callbacks still pending on x at the end; the callbacks of x that ran, in the order they ran, are a
    subsequence of [rem]: added order is run order, nothing runs that was not added, nothing pending has run *)
Theorem callbacks_in_added_order : forall cs ops x,
  let r := run_program true (cs, ops) in
  exists rem,
    added_ids (length cs) x ops 0 = rem ++ pending_at (heap_of (fst r)) x
    /\ Sub (run_ids_of x (concat (snd r))) rem.
Proof. exact program_order. Qed.
Print Assumptions callbacks_in_added_order.

Theorem each_callback_at_most_once : forall cs ops x,
  NoDup (run_ids_of x (concat (snd (run_program true (cs, ops))))).
Proof. exact program_at_most_once. Qed.
Print Assumptions each_callback_at_most_once.

(** ---- re-entrant callbacks (scripts of kernel operations executed inside a callback; kernel TwLib.DeferredKR,
    Spec C01.ModelR) ---- *)

(** the iterative loop with re-entrant scripts computes what the recursive interpreter with the same scripts
    computes: whenever the loop finishes within its fuel, the interpreter (same fuel) gives the same final state —
    results, pending callbacks, pause counts, guards — and the same sequence of callback calls with the same
    arguments, for every heap, every stack of Deferreds and every script *)
Theorem reentrant_loop_refines_spec : forall fuel chk s chain r,
  walk_from fuel chk s chain = Some r -> srun_chain fuel chk s chain = Some r.
Proof. exact walk_refines. Qed.
Print Assumptions reentrant_loop_refines_spec.

Theorem reentrant_runCallbacks_refines_spec : forall fuel s d r,
  walk fuel s [d] = Some r -> srun fuel true s d = Some r.
Proof. exact walk_refines_srun. Qed.
Print Assumptions reentrant_runCallbacks_refines_spec.

(** the interpreter's outcome does not depend on the fuel once it is enough (so "the" predicted outcome exists) *)
Theorem reentrant_spec_fuel_monotone : forall f f' chk s d r,
  f <= f' -> srun f chk s d = Some r -> srun f' chk s d = Some r.
Proof. intros f f' chk s d r. exact (srun_mono f f' chk s d r). Qed.
Print Assumptions reentrant_spec_fuel_monotone.

(** whole programs with re-entrant callbacks (all six top-level operations, any scripts) *)
Theorem reentrant_programs_refine_spec : forall fuel s ops r,
  run_r fuel s ops = Some r -> spec_run fuel s ops = Some r.
Proof. exact program_refines. Qed.
Print Assumptions reentrant_programs_refine_spec.
