(** C01, second part: callbacks leave a Deferred's queue from the front, and the ones that are called are
    called in queue order — during one run of the loop ([Q]) and over whole programs. *)
From Coq Require Import List Arith ZArith Bool Lia.
From TwLib Require Import DeferredK DeferredKFacts.
From C01 Require Import Model Proofs.
Import ListNotations.

(** subsequence *)
Inductive Sub {A} : list A -> list A -> Prop :=
| Sub_nil l : Sub [] l
| Sub_skip a l1 l2 : Sub l1 l2 -> Sub l1 (a :: l2)
| Sub_take a l1 l2 : Sub l1 l2 -> Sub (a :: l1) (a :: l2).

Lemma Sub_refl {A} (l : list A) : Sub l l.
Proof. induction l; [apply Sub_nil | apply Sub_take; assumption]. Qed.

Lemma Sub_app_skip {A} (p c d : list A) : Sub c d -> Sub c (p ++ d).
Proof. intros H. induction p; cbn; [exact H|apply Sub_skip; exact IHp]. Qed.

Lemma Sub_app {A} (a b c d : list A) : Sub a b -> Sub c d -> Sub (a ++ c) (b ++ d).
Proof.
  intros H1 H2. induction H1; cbn.
  - apply Sub_app_skip, H2.
  - apply Sub_skip; exact IHSub.
  - apply Sub_take; exact IHSub.
Qed.

Lemma Sub_In {A} (l1 l2 : list A) : Sub l1 l2 -> forall a, In a l1 -> In a l2.
Proof. induction 1; intros b Hb; cbn in *; [contradiction| right; auto | destruct Hb; [left|right]; auto]. Qed.

Lemma Sub_NoDup {A} (l1 l2 : list A) : Sub l1 l2 -> NoDup l2 -> NoDup l1.
Proof.
  induction 1; intros N.
  - constructor.
  - inversion N; subst. auto.
  - inversion N; subst. constructor; [|auto]. intros Hin. apply H2. eapply Sub_In; eauto.
Qed.

(** pending user callbacks of Deferred x *)
Definition pending_at (h : heap) (x : nat) : list nat :=
  match get h x with Some D => pending_ids D | None => [] end.

Lemma pending_at_upd h i f x :
  pending_at (upd h i f) x =
  if Nat.eqb i x then match get h x with Some D => pending_ids (f D) | None => [] end else pending_at h x.
Proof. unfold pending_at. rewrite get_upd. destruct (Nat.eqb i x); [destruct (get h x)|]; reflexivity. Qed.

Lemma pending_at_upd_keep h i f x :
  (forall D, pending_ids (f D) = pending_ids D) -> pending_at (upd h i f) x = pending_at h x.
Proof.
  intros Hf. rewrite pending_at_upd. destruct (Nat.eqb i x); [|reflexivity].
  unfold pending_at. destruct (get h x); [apply Hf|reflexivity].
Qed.

Lemma pending_push X c : pending_ids (set_cbs (cbs X ++ [Cont c]) X) = pending_ids X.
Proof. unfold pending_ids. cbn. rewrite flat_map_app. cbn. apply app_nil_r. Qed.

Lemma run_ids_of_app x l1 l2 : run_ids_of x (l1 ++ l2) = run_ids_of x l1 ++ run_ids_of x l2.
Proof. unfold run_ids_of. apply flat_map_app. Qed.

(** [Q h h' l]: going from h to h' while logging l, every Deferred's queue lost a prefix [rem], and the
    callbacks of that Deferred that were called are a subsequence of [rem], in order *)
Definition Q (h h' : heap) (l : list ev) : Prop :=
  forall x, exists rem, pending_at h x = rem ++ pending_at h' x /\ Sub (run_ids_of x l) rem.

Lemma Q_same h h' : (forall x, pending_at h' x = pending_at h x) -> Q h h' [].
Proof. intros E x. exists []. rewrite E. split; [reflexivity|constructor]. Qed.

Lemma Q_trans h1 h2 h3 l1 l2 : Q h1 h2 l1 -> Q h2 h3 l2 -> Q h1 h3 (l1 ++ l2).
Proof.
  intros A B x. destruct (A x) as [r1 [E1 S1]]. destruct (B x) as [r2 [E2 S2]].
  exists (r1 ++ r2). split; [rewrite E1, E2, app_assoc; reflexivity|].
  rewrite run_ids_of_app. apply Sub_app; assumption.
Qed.

Lemma Q_norun h h' e l : (forall x, run_ids_of x [e] = []) -> Q h h' l -> Q h h' (e :: l).
Proof.
  intros He A x. destruct (A x) as [r [E S]]. exists r. split; [exact E|].
  change (e :: l) with ([e] ++ l). rewrite run_ids_of_app, He. exact S.
Qed.

Definition act_out (h : heap) (a : action) : heap * list ev :=
  match a with
  | AMissing | APaused => (h, [])
  | ADone h1 | ACont _ h1 => (h1, [])
  | ACall evs h1 | AWait evs h1 => (h1, evs)
  end.

Ltac strip :=
  repeat (rewrite pending_at_upd_keep by (intros ?; first [reflexivity | apply pending_push])).

Lemma action_queue h d : Q h (fst (act_out h (action_of h d))) (snd (act_out h (action_of h d))).
Proof.
  unfold action_of. destruct (get h d) as [D|] eqn:HD; [|apply Q_same; reflexivity].
  destruct (negb (paused D =? 0)%Z); [apply Q_same; reflexivity|].
  destruct (cbs D) as [|item more] eqn:HC.
  { cbn. apply Q_same. intros x. strip. reflexivity. }
  assert (POP : forall x, pending_at (upd h d (fun D0 => set_cbs more (set_chained None D0))) x
                          = if Nat.eqb d x then flat_map (fun e => match e with Pair k _ _ => [k] | Cont _ => [] end) more
                            else pending_at h x).
  { intros x. rewrite pending_at_upd. destruct (Nat.eqb_spec d x) as [->|]; [rewrite HD|]; reflexivity. }
  assert (OLD : forall x, pending_at h x =
                          if Nat.eqb d x then flat_map (fun e => match e with Pair k _ _ => [k] | Cont _ => [] end) (item :: more)
                          else pending_at h x).
  { intros x. destruct (Nat.eqb_spec d x) as [<-|]; [|reflexivity]. unfold pending_at, pending_ids. rewrite HD, HC. reflexivity. }
  destruct item as [k cb eb|c].
  - set (side := if is_fail (cur_result D) then eb else cb).
    set (evs := match side with Some _ => [ERun d k (cur_result D)] | None => [] end).
    assert (Hq : forall h1, (forall x, pending_at h1 x = pending_at (upd h d (fun D0 => set_cbs more (set_chained None D0))) x) ->
                            Q h h1 evs).
    { intros h1 E x. rewrite E, POP, (OLD x). destruct (Nat.eqb_spec d x) as [<-|Hne].
      - exists [k]. split; [reflexivity|]. subst evs. destruct side; cbn; [rewrite Nat.eqb_refl|]; constructor; constructor.
      - exists []. split; [reflexivity|]. subst evs. destruct side; cbn; [rewrite (proj2 (Nat.eqb_neq d x)) by exact Hne|]; constructor. }
    destruct (match side with Some b => apply_beh b (cur_result D) | None => cur_result D end) as [| z | e | y];
      try (cbn [act_out fst snd]; apply Hq; intros x; strip; reflexivity).
    match goal with |- context [get ?hh y] => destruct (get hh y) as [Y|] end;
      [|cbn [act_out fst snd]; apply Hq; intros x; strip; reflexivity].
    destruct (waiting Y); cbn [act_out fst snd]; apply Hq; intros x; strip; reflexivity.
  - cbn [act_out fst snd]. intros x. exists []. split; [|constructor]. strip. rewrite POP, (OLD x).
    destruct (Nat.eqb d x); reflexivity.
Qed.

Lemma SRun_Q h d h' l : SRun h d h' l -> Q h h' l.
Proof.
  induction 1 as [h d A|h d A|h d h1 A|h d c h1 h2 h3 l1 l2 A R1 IH1 R2 IH2|h d evs h1 h2 l A R IH|h d evs h1 A];
    pose proof (action_queue h d) as AQ; rewrite A in AQ; cbn [act_out fst snd] in AQ; auto.
  - change (l1 ++ l2) with ([] ++ (l1 ++ l2)). eapply Q_trans; [exact AQ|]. eapply Q_trans; eauto.
  - eapply Q_trans; eauto.
Qed.

Lemma runCallbacks_Q h d : Q h (fst (runCallbacks true h d)) (snd (runCallbacks true h d)).
Proof. apply SRun_Q with (d := d), runCallbacks_refines. Qed.

(** ---- whole programs ---- *)
Lemma fire_Q h d v s : Q h (fst (fire true h d v s)) (snd (fire true h d v s)).
Proof.
  unfold fire. destruct (get h d) as [D|]; [|apply Q_same; reflexivity].
  destruct (called D); [destruct (suppress D)|]; cbn [fst snd].
  - apply Q_norun; [reflexivity|]. apply Q_same. intros x. strip. reflexivity.
  - apply Q_norun; [reflexivity|]. apply Q_same. reflexivity.
  - pose proof (runCallbacks_Q (upd h d (fun D0 => set_res (Some v) (set_called true D0))) d) as R.
    destruct (runCallbacks true _ d) as [h2 l]. cbn [fst snd] in *.
    apply Q_norun; [reflexivity|]. change l with ([] ++ l). eapply Q_trans; [|exact R].
    apply Q_same. intros x. strip. reflexivity.
Qed.

Lemma cancel_Q fuel : forall h d, Q h (fst (cancel true fuel h d)) (snd (cancel true fuel h d)).
Proof.
  induction fuel as [|f IH]; intros h d; cbn [cancel].
  - cbn. apply Q_norun; [reflexivity|]. apply Q_same. reflexivity.
  - destruct (get h d) as [D|]; [|apply Q_same; reflexivity].
    destruct (called D).
    + destruct (res D) as [[| | |r]|]; try (apply Q_same; reflexivity). apply IH.
    + destruct (canc D).
      * pose proof (fire_Q (upd h d (set_suppress true)) d (VFail cancelled_error) ByCancel) as F.
        destruct (fire true _ d _ ByCancel) as [h2 l]. cbn [fst snd] in *.
        apply Q_norun; [reflexivity|]. change l with ([] ++ l). eapply Q_trans; [|exact F].
        apply Q_same. intros x. strip. reflexivity.
      * pose proof (fire_Q h d (VFail cancelled_error) ByCancel) as F.
        destruct (fire true h d _ ByCancel) as [h2 l]. cbn [fst snd] in *. apply Q_norun; [reflexivity|exact F].
      * pose proof (fire_Q h d (VInt z) ByCanceller) as F.
        destruct (fire true h d _ ByCanceller) as [h2 l]. cbn [fst snd] in *. apply Q_norun; [reflexivity|exact F].
      * pose proof (fire_Q h d (VFail e) ByCanceller) as F.
        destruct (fire true h d _ ByCanceller) as [h2 l]. cbn [fst snd] in *. apply Q_norun; [reflexivity|exact F].
      * cbn. apply Q_norun; [reflexivity|]. apply Q_norun; [reflexivity|]. apply Q_same. reflexivity.
Qed.

(** ids given to the add-operations on Deferred x, in program order ([n] Deferreds exist; numbering starts at k) *)
Fixpoint added_ids (n x : nat) (ops : list op) (k : nat) : list nat :=
  match ops with
  | [] => []
  | OAdd d _ _ :: r =>
      if Nat.ltb d n then (if Nat.eqb d x then [k] else []) ++ added_ids n x r (S k) else added_ids n x r k
  | _ :: r => added_ids n x r k
  end.

Definition added_one (n x : nat) (o : op) (k : nat) : list nat := added_ids n x [o] k.
Definition next_after (n : nat) (o : op) (k : nat) : nat :=
  match o with OAdd d _ _ => if Nat.ltb d n then S k else k | _ => k end.

Lemma get_ltb h d : (exists D, get h d = Some D) <-> Nat.ltb d (length h) = true.
Proof.
  rewrite Nat.ltb_lt. split; [intros [D HD]; eapply get_some_lt; eauto | apply get_lt_some].
Qed.

Lemma exec_order s o :
  let r := exec true s o in
  length (heap_of (fst r)) = length (heap_of s)
  /\ next_k (fst r) = next_after (length (heap_of s)) o (next_k s)
  /\ forall x, exists rem,
       pending_at (heap_of s) x ++ added_one (length (heap_of s)) x o (next_k s)
       = rem ++ pending_at (heap_of (fst r)) x
       /\ Sub (run_ids_of x (snd r)) rem.
Proof.
  destruct s as [h k]. cbn [heap_of next_k].
  assert (GEN : forall h' l, Q h h' l -> sframe h h' ->
                 length h' = length h /\ forall x, exists rem, pending_at h x ++ [] = rem ++ pending_at h' x
                                                               /\ Sub (run_ids_of x l) rem).
  { intros h' l q F. split; [apply sframe_length, F|]. intros x. destruct (q x) as [rem [E S]].
    exists rem. rewrite app_nil_r. auto. }
  destruct o as [d cb eb|d z|d e|d|d|d]; unfold exec; cbn [heap_of next_k next_after added_one added_ids].
  - destruct (get h d) as [D|] eqn:HD.
    + assert (L : Nat.ltb d (length h) = true) by (apply get_ltb; eauto). rewrite L.
      set (h1 := upd h d (fun D0 => set_cbs (cbs D0 ++ [Pair k cb eb]) D0)).
      assert (P1 : forall x, pending_at h1 x = pending_at h x ++ (if Nat.eqb d x then [k] else [])).
      { intros x. subst h1. rewrite pending_at_upd. destruct (Nat.eqb_spec d x) as [<-|].
        - unfold pending_at. rewrite HD. unfold pending_ids. cbn. rewrite flat_map_app. reflexivity.
        - rewrite app_nil_r. reflexivity. }
      destruct (called D).
      * pose proof (runCallbacks_Q h1 d) as R. pose proof (runCallbacks_frame true h1 d) as F.
        destruct (runCallbacks true h1 d) as [h2 l]. cbn [fst snd heap_of next_k] in *.
        destruct (F _ _ eq_refl) as [F' _]. split; [rewrite (sframe_length _ _ F'); subst h1; apply upd_length|].
        split; [reflexivity|]. intros x. destruct (R x) as [rem [E S]]. exists rem.
        rewrite app_nil_r, <- P1. auto.
      * cbn [fst snd heap_of next_k]. split; [subst h1; apply upd_length|]. split; [reflexivity|].
        intros x. exists []. rewrite app_nil_r, P1. split; [reflexivity|constructor].
    + assert (L : Nat.ltb d (length h) = false).
      { destruct (Nat.ltb d (length h)) eqn:E; [|reflexivity]. apply get_ltb in E. destruct E; congruence. }
      rewrite L. cbn [fst snd heap_of next_k]. split; [reflexivity|]. split; [reflexivity|].
      intros x. exists []. rewrite app_nil_r. split; [reflexivity|constructor].
  - pose proof (fire_Q h d (VInt z) ByUser) as q. destruct (fire true h d (VInt z) ByUser) as [h2 l] eqn:HF.
    cbn [fst snd heap_of next_k] in *.
    assert (F : sframe h h2 \/ length h2 = length h).
    { right. revert HF. unfold fire. destruct (get h d) as [D|]; [|intros E; inversion E; reflexivity].
      destruct (called D); [destruct (suppress D)|]; try (intros E; inversion E; subst; try apply upd_length; reflexivity).
      destruct (runCallbacks true _ d) as [h3 l3] eqn:HR. intros E; inversion E; subst.
      destruct (runCallbacks_frame _ _ _ _ _ HR) as [F' _]. rewrite (sframe_length _ _ F'). apply upd_length. }
    split; [destruct F as [F|F]; [apply sframe_length, F|exact F]|]. split; [reflexivity|].
    intros x. destruct (q x) as [rem [E S]]. exists rem. rewrite app_nil_r. auto.
  - pose proof (fire_Q h d (VFail e) ByUser) as q. destruct (fire true h d (VFail e) ByUser) as [h2 l] eqn:HF.
    cbn [fst snd heap_of next_k] in *.
    assert (F : length h2 = length h).
    { revert HF. unfold fire. destruct (get h d) as [D|]; [|intros E; inversion E; reflexivity].
      destruct (called D); [destruct (suppress D)|]; try (intros E; inversion E; subst; try apply upd_length; reflexivity).
      destruct (runCallbacks true _ d) as [h3 l3] eqn:HR. intros E; inversion E; subst.
      destruct (runCallbacks_frame _ _ _ _ _ HR) as [F' _]. rewrite (sframe_length _ _ F'). apply upd_length. }
    split; [exact F|]. split; [reflexivity|].
    intros x. destruct (q x) as [rem [E S]]. exists rem. rewrite app_nil_r. auto.
  - cbn [fst snd heap_of next_k]. split; [apply upd_length|]. split; [reflexivity|].
    intros x. exists []. rewrite app_nil_r. strip. split; [reflexivity|constructor].
  - destruct (get h d) as [D|] eqn:HD.
    + set (h1 := upd h d (fun D0 => set_paused (paused D0 - 1)%Z D0)).
      destruct ((paused D - 1 =? 0)%Z && called D).
      * pose proof (runCallbacks_Q h1 d) as R. pose proof (runCallbacks_frame true h1 d) as F.
        destruct (runCallbacks true h1 d) as [h2 l]. cbn [fst snd heap_of next_k] in *.
        destruct (F _ _ eq_refl) as [F' _]. split; [rewrite (sframe_length _ _ F'); subst h1; apply upd_length|].
        split; [reflexivity|]. intros x. destruct (R x) as [rem [E S]]. exists rem.
        rewrite app_nil_r, <- E. subst h1. strip. auto.
      * cbn [fst snd heap_of next_k]. split; [subst h1; apply upd_length|]. split; [reflexivity|].
        intros x. exists []. rewrite app_nil_r. subst h1. strip. split; [reflexivity|constructor].
    + cbn [fst snd heap_of next_k]. split; [reflexivity|]. split; [reflexivity|].
      intros x. exists []. rewrite app_nil_r. split; [reflexivity|constructor].
  - assert (F : length (fst (cancel true (S (length h)) h d)) = length h).
    { generalize (S (length h)) as fuel. intros fuel. revert d. induction fuel as [|f IH]; intros d; cbn [cancel]; [reflexivity|].
      destruct (get h d) as [D|]; [|reflexivity]. destruct (called D).
      - destruct (res D) as [[| | |r]|]; try reflexivity. apply IH.
      - assert (FL : forall h0 v s, length h0 = length h -> length (fst (fire true h0 d v s)) = length h).
        { intros h0 v s L0. unfold fire. destruct (get h0 d) as [D0|]; [|exact L0].
          destruct (called D0); [destruct (suppress D0)|]; cbn [fst]; try (rewrite upd_length); try exact L0.
          destruct (runCallbacks true _ d) as [h3 l3] eqn:HR. cbn [fst].
          destruct (runCallbacks_frame _ _ _ _ _ HR) as [F' _]. rewrite (sframe_length _ _ F'), upd_length. exact L0. }
        destruct (canc D).
        + specialize (FL (upd h d (set_suppress true)) (VFail cancelled_error) ByCancel (upd_length _ _ _)).
          destruct (fire true _ d _ ByCancel); exact FL.
        + specialize (FL h (VFail cancelled_error) ByCancel eq_refl). destruct (fire true h d _ ByCancel); exact FL.
        + specialize (FL h (VInt z) ByCanceller eq_refl). destruct (fire true h d _ ByCanceller); exact FL.
        + specialize (FL h (VFail e) ByCanceller eq_refl). destruct (fire true h d _ ByCanceller); exact FL.
        + reflexivity. }
    pose proof (cancel_Q (S (length h)) h d) as q.
    destruct (cancel true (S (length h)) h d) as [h2 l]. cbn [fst snd heap_of next_k] in *.
    split; [exact F|]. split; [reflexivity|].
    intros x. destruct (q x) as [rem [E S]]. exists rem. rewrite app_nil_r. auto.
Qed.

Lemma added_ids_cons n x o r k :
  added_ids n x (o :: r) k = added_one n x o k ++ added_ids n x r (next_after n o k).
Proof.
  unfold added_one. destruct o; cbn [added_ids next_after]; try reflexivity.
  destruct (Nat.ltb d n); [rewrite app_nil_r|]; reflexivity.
Qed.

Lemma run_order ops : forall s (A R : nat -> list nat),
  (forall x, exists rem, A x = rem ++ pending_at (heap_of s) x /\ Sub (R x) rem) ->
  let r := run true s ops in
  forall x, exists rem,
    A x ++ added_ids (length (heap_of s)) x ops (next_k s) = rem ++ pending_at (heap_of (fst r)) x
    /\ Sub (R x ++ run_ids_of x (concat (snd r))) rem.
Proof.
  induction ops as [|o r IH]; intros s A R INV; cbn [run].
  - cbn. intros x. destruct (INV x) as [rem [E S]]. exists rem. rewrite !app_nil_r. auto.
  - destruct (exec_order s o) as [L [NK ORD]].
    destruct (exec true s o) as [s1 l] eqn:HE. cbn [fst snd] in *.
    specialize (IH s1 (fun x => A x ++ added_one (length (heap_of s)) x o (next_k s))
                   (fun x => R x ++ run_ids_of x l)).
    destruct (run true s1 r) as [s2 ls] eqn:HR. cbn [fst snd] in *.
    intros x. destruct (IH) with (x := x) as [rem [E S]].
    { intros y. destruct (INV y) as [r0 [E0 S0]]. destruct (ORD y) as [r1 [E1 S1]].
      exists (r0 ++ r1). split; [rewrite E0, <- !app_assoc, E1; reflexivity | apply Sub_app; assumption]. }
    exists rem. cbn [concat]. rewrite added_ids_cons, run_ids_of_app, !app_assoc.
    rewrite L, NK in E. split; [exact E|exact S].
Qed.

Lemma added_ids_bounds n x ops : forall k, NoDup (added_ids n x ops k) /\ forall j, In j (added_ids n x ops k) -> k <= j.
Proof.
  induction ops as [|o r IH]; intros k; cbn [added_ids]; [split; [constructor|contradiction]|].
  destruct o; try apply IH.
  destruct (Nat.ltb d n); [|apply IH].
  destruct (IH (S k)) as [N B]. destruct (Nat.eqb d x); cbn [app].
  - split; [constructor; [intros Hin; apply B in Hin; lia|exact N]|].
    intros j [<-|Hj]; [lia|apply B in Hj; lia].
  - split; [exact N|]. intros j Hj. apply B in Hj. lia.
Qed.

Theorem program_order cs ops x :
  let r := run_program true (cs, ops) in
  exists rem,
    added_ids (length cs) x ops 0 = rem ++ pending_at (heap_of (fst r)) x
    /\ Sub (run_ids_of x (concat (snd r))) rem.
Proof.
  unfold run_program. cbn [fst snd].
  pose proof (run_order ops (init cs) (fun _ => []) (fun _ => [])) as H.
  cbn [init heap_of next_k] in H. rewrite map_length in H. cbn [app] in H. apply H.
  intros y. exists []. split; [|constructor]. cbn. unfold pending_at, get.
  rewrite nth_error_map. destruct (nth_error cs y); reflexivity.
Qed.

Theorem program_at_most_once cs ops x :
  NoDup (run_ids_of x (concat (snd (run_program true (cs, ops))))).
Proof.
  destruct (program_order cs ops x) as [rem [E S]].
  apply (Sub_NoDup _ _ S). destruct (added_ids_bounds (length cs) x ops 0) as [N _].
  rewrite E in N. clear E S. revert N. generalize (pending_at (heap_of (fst (run_program true (cs, ops)))) x).
  intros p. induction rem as [|a rem IH]; cbn; intros N; [constructor|].
  inversion N; subst. constructor; [|auto]. intros Hin. apply H1. apply in_or_app. left; exact Hin.
Qed.
