(** C55: the property instances for the regenerated [Gen.prog] (reflection: run the checker, apply soundness). *)
From Coq Require Import List NArith Bool.
From C55 Require Import Model Gen Proofs.
Import ListNotations.
Open Scope N_scope.

Lemma formatEvent_ok : forall o,
  exec prog [] None (Call fn_formatEvent []) o -> forall k, o <> ORaise k.
Proof. apply never_escapes_sound_lemma with (fuel := 400%nat). vm_compute. reflexivity. Qed.

Lemma eventAsText_ok : forall (tb ts sy : bool) o,
  exec prog [] None
       (Call fn_eventAsText [(fl_includeTraceback, tb); (fl_includeTimestamp, ts); (fl_includeSystem, sy)]) o ->
  forall k, o <> ORaise k.
Proof.
  intros tb ts sy. apply never_escapes_sound_lemma with (fuel := 400%nat).
  destruct tb, ts, sy; vm_compute; reflexivity.
Qed.

Lemma classic_ok : forall o,
  exec prog [] None (Call fn_formatEventAsClassicLogText []) o -> forall k, o <> ORaise k.
Proof. apply never_escapes_sound_lemma with (fuel := 400%nat). vm_compute. reflexivity. Qed.

Lemma inner_ok : forall o,
  (exec prog [] None (Call fn_u_formatEvent []) o \/ exec prog [] None (Call fn_formatUnformattableEvent []) o) ->
  forall k, o <> ORaise k.
Proof.
  intros o [H|H]; revert o H; apply never_escapes_sound_lemma with (fuel := 400%nat); vm_compute; reflexivity.
Qed.

Lemma log_safeFormat_ok : forall o k,
  exec prog [] None (Call fn_log_u_safeFormat []) o -> o = ORaise k -> k = KKbd.
Proof.
  intros o k He ->. destruct k; [exfalso|reflexivity|exfalso].
  - apply (only_kinds_sound 400 prog [] (Call fn_log_u_safeFormat []) KExc) with (o := ORaise KExc);
      [vm_compute; reflexivity|exact He|reflexivity].
  - apply (only_kinds_sound 400 prog [] (Call fn_log_u_safeFormat []) KBase) with (o := ORaise KBase);
      [vm_compute; reflexivity|exact He|reflexivity].
Qed.

(** non-vacuity: the regenerated program has behaviours (the entry point can complete normally), and
    the semantics does distinguish handlers: the same checker rejects [eventAsText] as soon as a
    handler of the timestamp / system / traceback parts is weakened (see [except_exception_is_not_enough]). *)
Example eventAsText_can_complete :
  existsb (res_eqb (ONormal, [], [])) (runs 400 prog [] None (Call fn_eventAsText []) [] []) = true.
Proof. vm_compute. reflexivity. Qed.
