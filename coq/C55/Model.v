(** C55 — exception skeletons of the log text-formatting functions.

    [Gen.v] (regenerated from /repo on every run by translate/c55.py) contains, for every function on
    the formatting path, its *exception skeleton*: the control structure that matters for "can an
    exception leave this function" — sequencing, data-dependent branches, flag-dependent branches
    (the boolean keyword parameters of [eventAsText]), loops, [try/except] with the class each
    handler catches, explicit [raise], [return], calls between the listed functions — with every other
    operation reduced to one of two atoms:

      [MayRaise site]   anything that can run foreign code or fail on foreign data (str/repr/format of a
                        value, attribute access, a call of an unknown callable, vformat, ...).  In the
                        semantics below an *adversary* decides whether it completes or raises, and which
                        kind of exception it raises.
      [Total site]      an operation from the audited whitelist (see translate/skeleton.py and
                        design.d/C55.md) that cannot raise whatever the values are.

    This file: syntax, the relational semantics [exec] (every behaviour for every adversary), the
    executable over-approximation [esc] (the set of exception kinds that may leave a skeleton), and
    the executable, script-driven semantics [runs] used by the correspondence check.  No proofs. *)
From Coq Require Import List NArith Bool.
Import ListNotations.

(** Exception kinds the adversary can raise: a subclass of [Exception]; [KeyboardInterrupt];
    any other [BaseException] that is not an [Exception] (SystemExit, GeneratorExit, user classes). *)
Inductive kind := KExc | KKbd | KBase.

(** What an [except] clause names. *)
Inductive catch :=
| CatchAll        (* except BaseException / bare except *)
| CatchExc        (* except Exception *)
| CatchKbd        (* except KeyboardInterrupt *)
| CatchSomeExc    (* except <a proper subclass of Exception>: may or may not match a KExc *)
| CatchSomeBase.  (* except <another BaseException subclass, e.g. SystemExit>: may or may not match a KBase *)

(** the clause certainly catches / possibly catches an exception of kind k *)
Definition must (c : catch) (k : kind) : bool :=
  match c, k with
  | CatchAll, _ => true
  | CatchExc, KExc => true
  | CatchKbd, KKbd => true
  | _, _ => false
  end.
Definition may (c : catch) (k : kind) : bool :=
  match c, k with
  | CatchAll, _ => true
  | CatchExc, KExc => true
  | CatchKbd, KKbd => true
  | CatchSomeExc, KExc => true
  | CatchSomeBase, KBase => true
  | _, _ => false
  end.

Inductive skel :=
| Skip
| Total (site : N)
| MayRaise (site : N)
| RaiseNew (site : N) (k : kind)        (* raise SomeClass(...) *)
| Reraise (site : N)                    (* bare raise *)
| Return
| Seq (a b : skel)
| Choice (a b : skel)                   (* branch on data *)
| IfFlag (flag : N) (a b : skel)        (* branch on a boolean keyword parameter *)
| Loop (body : skel)                    (* zero or more iterations *)
| Try (body : skel) (hs : handlers)
| Call (f : N) (flags : list (N * bool))
with handlers :=
| HNil
| HCons (c : catch) (hid : N) (h : skel) (rest : handlers).

(** a program: function id -> (default values of its boolean keyword parameters, body) *)
Definition flags := list (N * bool).
Definition prog := list (N * (flags * skel)).

Fixpoint lookup {A} (x : N) (l : list (N * A)) : option A :=
  match l with
  | [] => None
  | (y, v) :: r => if N.eqb x y then Some v else lookup x r
  end.

Inductive outcome := ONormal | OReturn | ORaise (k : kind).

Definition is_normal (o : outcome) : bool := match o with ONormal => true | _ => false end.
(** what the caller of a function sees *)
Definition callret (o : outcome) : outcome := match o with ORaise k => ORaise k | _ => ONormal end.
(** the exception a bare [raise] re-raises (RuntimeError when there is none) *)
Definition reraised (cur : option kind) : kind := match cur with Some k => k | None => KExc end.

(** ---------------------------------------------------------------------------------------------
    Relational semantics: [exec p env cur s o] — under SOME behaviour of the adversary (and some
    resolution of the data-dependent branches), skeleton [s] run in program [p] with flag
    environment [env] while handling exception [cur] ends with outcome [o].  A statement
    "forall o, exec ... o -> ..." therefore quantifies over every adversary. *)
Inductive exec (p : prog) : flags -> option kind -> skel -> outcome -> Prop :=
| E_Skip : forall env cur, exec p env cur Skip ONormal
| E_Total : forall env cur s, exec p env cur (Total s) ONormal
| E_MayOk : forall env cur s, exec p env cur (MayRaise s) ONormal
| E_MayRaise : forall env cur s k, exec p env cur (MayRaise s) (ORaise k)
| E_RaiseNew : forall env cur s k, exec p env cur (RaiseNew s k) (ORaise k)
| E_Reraise : forall env cur s, exec p env cur (Reraise s) (ORaise (reraised cur))
| E_Return : forall env cur, exec p env cur Return OReturn
| E_SeqN : forall env cur a b o, exec p env cur a ONormal -> exec p env cur b o -> exec p env cur (Seq a b) o
| E_SeqX : forall env cur a b o, exec p env cur a o -> is_normal o = false -> exec p env cur (Seq a b) o
| E_ChoiceL : forall env cur a b o, exec p env cur a o -> exec p env cur (Choice a b) o
| E_ChoiceR : forall env cur a b o, exec p env cur b o -> exec p env cur (Choice a b) o
| E_FlagT : forall env cur f a b o, lookup f env <> Some false -> exec p env cur a o -> exec p env cur (IfFlag f a b) o
| E_FlagF : forall env cur f a b o, lookup f env <> Some true -> exec p env cur b o -> exec p env cur (IfFlag f a b) o
| E_Loop0 : forall env cur b, exec p env cur (Loop b) ONormal
| E_LoopN : forall env cur b o, exec p env cur b ONormal -> exec p env cur (Loop b) o -> exec p env cur (Loop b) o
| E_LoopX : forall env cur b o, exec p env cur b o -> is_normal o = false -> exec p env cur (Loop b) o
| E_TryOk : forall env cur b hs o, exec p env cur b o -> (forall k, o <> ORaise k) -> exec p env cur (Try b hs) o
| E_TryH : forall env cur b hs k o, exec p env cur b (ORaise k) -> exech p env k hs o -> exec p env cur (Try b hs) o
| E_Call : forall env cur f fl defs body o,
    lookup f p = Some (defs, body) -> exec p (fl ++ defs) cur body o -> exec p env cur (Call f fl) (callret o)
(** [exech p env k hs o]: exception [k] reaches the handler list [hs] *)
with exech (p : prog) : flags -> kind -> handlers -> outcome -> Prop :=
| H_Nil : forall env k, exech p env k HNil (ORaise k)
| H_Take : forall env k c hid h r o, may c k = true -> exec p env (Some k) h o -> exech p env k (HCons c hid h r) o
| H_Skip : forall env k c hid h r o, must c k = false -> exech p env k r o -> exech p env k (HCons c hid h r) o.

(** ---------------------------------------------------------------------------------------------
    The checker: an over-approximation of the set of exception kinds that can leave a skeleton. *)
Record kset := KS { ks_exc : bool; ks_kbd : bool; ks_base : bool }.
Definition kempty := KS false false false.
Definition ktop := KS true true true.
Definition ksingle (k : kind) : kset :=
  match k with KExc => KS true false false | KKbd => KS false true false | KBase => KS false false true end.
Definition kunion (a b : kset) : kset :=
  KS (ks_exc a || ks_exc b) (ks_kbd a || ks_kbd b) (ks_base a || ks_base b).
Definition kin (k : kind) (s : kset) : bool :=
  match k with KExc => ks_exc s | KKbd => ks_kbd s | KBase => ks_base s end.
Definition kis_empty (s : kset) : bool := negb (ks_exc s || ks_kbd s || ks_base s).

(** fuel decreases at every step; running out of fuel answers "anything may escape" (safe side) *)
Fixpoint esc (fuel : nat) (p : prog) (env : flags) (cur : option kind) (s : skel) : kset :=
  match fuel with
  | O => ktop
  | S f =>
    match s with
    | Skip | Total _ | Return => kempty
    | MayRaise _ => ktop
    | RaiseNew _ k => ksingle k
    | Reraise _ => ksingle (reraised cur)
    | Seq a b | Choice a b => kunion (esc f p env cur a) (esc f p env cur b)
    | IfFlag fl a b =>
        match lookup fl env with
        | Some true => esc f p env cur a
        | Some false => esc f p env cur b
        | None => kunion (esc f p env cur a) (esc f p env cur b)
        end
    | Loop b => esc f p env cur b
    | Try b hs =>
        let kb := esc f p env cur b in
        kunion (if ks_exc kb then esch f p env KExc hs else kempty)
          (kunion (if ks_kbd kb then esch f p env KKbd hs else kempty)
                  (if ks_base kb then esch f p env KBase hs else kempty))
    | Call g fl =>
        match lookup g p with
        | Some (defs, body) => esc f p (fl ++ defs) cur body
        | None => ktop
        end
    end
  end
with esch (fuel : nat) (p : prog) (env : flags) (k : kind) (hs : handlers) : kset :=
  match fuel with
  | O => ktop
  | S f =>
    match hs with
    | HNil => ksingle k
    | HCons c _ h r =>
        if must c k then esc f p env (Some k) h
        else if may c k then kunion (esc f p env (Some k) h) (esch f p env k r)
        else esch f p env k r
    end
  end.

Definition never_escapes (fuel : nat) (p : prog) (env : flags) (s : skel) : bool :=
  kis_empty (esc fuel p env None s).

(** ---------------------------------------------------------------------------------------------
    Executable, script-driven semantics for the correspondence check.  A script is the list of
    (site, kind) at which the real run saw an exception *originate* inside a listed function (at a
    MayRaise or raise site), in order.  [runs] returns every (outcome, unconsumed script, handlers
    entered — most recent first) the skeleton can produce when exactly these sites raise; an atom
    raises iff the next script entry names its site.  Out of fuel = no behaviour. *)
Definition script := list (N * kind).
Definition res := (outcome * script * list N)%type.

Definition kind_eqb (a b : kind) : bool :=
  match a, b with KExc, KExc | KKbd, KKbd | KBase, KBase => true | _, _ => false end.
Definition outcome_eqb (a b : outcome) : bool :=
  match a, b with
  | ONormal, ONormal | OReturn, OReturn => true
  | ORaise x, ORaise y => kind_eqb x y
  | _, _ => false
  end.
Fixpoint script_eqb (a b : script) : bool :=
  match a, b with
  | [], [] => true
  | (s, k) :: x, (s', k') :: y => N.eqb s s' && kind_eqb k k' && script_eqb x y
  | _, _ => false
  end.
Fixpoint nlist_eqb (a b : list N) : bool :=
  match a, b with
  | [], [] => true
  | x :: r, y :: r' => N.eqb x y && nlist_eqb r r'
  | _, _ => false
  end.
Definition res_eqb (a b : res) : bool :=
  let '(o, s, h) := a in let '(o', s', h') := b in
  outcome_eqb o o' && script_eqb s s' && nlist_eqb h h'.

Fixpoint add_res (x : res) (l : list res) : list res :=
  match l with
  | [] => [x]
  | y :: r => if res_eqb x y then l else y :: add_res x r
  end.
Definition union_res (a b : list res) : list res := fold_right add_res b a.

(** continue from every normal result of [rs] with [k]; other results pass through *)
Definition bind_normal (rs : list res) (k : script -> list N -> list res) : list res :=
  fold_right (fun r acc =>
    let '(o, sc, ht) := r in
    if is_normal o then union_res (k sc ht) acc else add_res r acc) [] rs.

(** an atom that raises iff the script says so *)
Definition atom (site : N) (fixedk : option kind) (sc : script) (ht : list N) (can_pass : bool) : list res :=
  let pass := if can_pass then [(ONormal, sc, ht)] else [] in
  match sc with
  | (s, k) :: rest =>
      if N.eqb s site && match fixedk with Some k' => kind_eqb k k' | None => true end
      then add_res (ORaise k, rest, ht) pass else pass
  | [] => pass
  end.

Fixpoint runs (fuel : nat) (p : prog) (env : flags) (cur : option kind) (s : skel)
              (sc : script) (ht : list N) : list res :=
  match fuel with
  | O => []
  | S f =>
    match s with
    | Skip | Total _ => [(ONormal, sc, ht)]
    | MayRaise site => atom site None sc ht true
    | RaiseNew site k => atom site (Some k) sc ht false
    | Reraise _ => [(ORaise (reraised cur), sc, ht)]   (* CPython reports no new 'exception' event for a bare raise *)
    | Return => [(OReturn, sc, ht)]
    | Seq a b => bind_normal (runs f p env cur a sc ht) (fun sc' ht' => runs f p env cur b sc' ht')
    | Choice a b => union_res (runs f p env cur a sc ht) (runs f p env cur b sc ht)
    | IfFlag fl a b =>
        match lookup fl env with
        | Some true => runs f p env cur a sc ht
        | Some false => runs f p env cur b sc ht
        | None => union_res (runs f p env cur a sc ht) (runs f p env cur b sc ht)
        end
    | Loop b =>
        add_res (ONormal, sc, ht)
          (bind_normal (runs f p env cur b sc ht) (fun sc' ht' => runs f p env cur (Loop b) sc' ht'))
    | Try b hs =>
        fold_right (fun r acc =>
          let '(o, sc', ht') := r in
          match o with
          | ORaise k => union_res (runsh f p env k hs sc' ht') acc
          | _ => add_res r acc
          end) [] (runs f p env cur b sc ht)
    | Call g fl =>
        match lookup g p with
        | Some (defs, body) =>
            fold_right (fun r acc => let '(o, sc', ht') := r in add_res (callret o, sc', ht') acc) []
                       (runs f p (fl ++ defs) cur body sc ht)
        | None => []
        end
    end
  end
with runsh (fuel : nat) (p : prog) (env : flags) (k : kind) (hs : handlers)
           (sc : script) (ht : list N) : list res :=
  match fuel with
  | O => []
  | S f =>
    match hs with
    | HNil => [(ORaise k, sc, ht)]
    | HCons c hid h r =>
        union_res (if may c k then runs f p env (Some k) h sc (hid :: ht) else [])
                  (if must c k then [] else runsh f p env k r sc ht)
    end
  end.
