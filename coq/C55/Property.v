(** C55 property theorems.  [Gen.prog] is regenerated from the current source on every run; the
    statements quantify over every behaviour of the adversary ([exec] is the relational semantics of
    coq/C55/Model.v: every MayRaise atom may complete or raise any kind of exception). *)
From Coq Require Import List NArith Bool.
From C55 Require Import Model Gen Proofs GenProofs.
Import ListNotations.
Open Scope N_scope.

(** the checker is sound for every program, flag environment and skeleton *)
Theorem never_escapes_sound : forall fuel p env s,
  never_escapes fuel p env s = true ->
  forall o, exec p env None s o -> forall k, o <> ORaise k.
Proof. exact never_escapes_sound_lemma. Qed.
Print Assumptions never_escapes_sound.

(** the executable semantics evaluated by the correspondence check only produces [exec] behaviours *)
Theorem script_runs_are_behaviours : forall fuel p env cur s sc ht o sc' ht',
  In (o, sc', ht') (runs fuel p env cur s sc ht) -> exec p env cur s o.
Proof. exact runs_sound. Qed.
Print Assumptions script_runs_are_behaviours.

Theorem formatEvent_never_raises : forall o,
  exec prog [] None (Call fn_formatEvent []) o -> forall k, o <> ORaise k.
Proof. exact formatEvent_ok. Qed.
Print Assumptions formatEvent_never_raises.

(** for every combination of includeTraceback / includeTimestamp / includeSystem *)
Theorem eventAsText_never_raises : forall (tb ts sy : bool) o,
  exec prog [] None
       (Call fn_eventAsText [(fl_includeTraceback, tb); (fl_includeTimestamp, ts); (fl_includeSystem, sy)]) o ->
  forall k, o <> ORaise k.
Proof. exact eventAsText_ok. Qed.
Print Assumptions eventAsText_never_raises.

Theorem formatEventAsClassicLogText_never_raises : forall o,
  exec prog [] None (Call fn_formatEventAsClassicLogText []) o -> forall k, o <> ORaise k.
Proof. exact classic_ok. Qed.
Print Assumptions formatEventAsClassicLogText_never_raises.

(** the two inner layers on their own: [_formatEvent] and its fallback [formatUnformattableEvent] *)
Theorem inner_formatEvent_never_raises : forall o,
  (exec prog [] None (Call fn_u_formatEvent []) o \/ exec prog [] None (Call fn_formatUnformattableEvent []) o) ->
  forall k, o <> ORaise k.
Proof. exact inner_ok. Qed.
Print Assumptions inner_formatEvent_never_raises.

(** python/log.py _safeFormat: nothing but the KeyboardInterrupt it re-raises on purpose can leave it *)
Theorem log_safeFormat_raises_only_KeyboardInterrupt : forall o k,
  exec prog [] None (Call fn_log_u_safeFormat []) o -> o = ORaise k -> k = KKbd.
Proof. exact log_safeFormat_ok. Qed.
Print Assumptions log_safeFormat_raises_only_KeyboardInterrupt.
