(** C55: printer used by the correspondence check only.
    A case = (entry function id, flag bindings of the call, script of raising sites observed on the real run).
    Output: every complete behaviour of the skeleton under that script (script fully consumed), as
    "<outcome>|<handlers entered, in order>" separated by ";".  The harness checks that what the real code
    did is one of them (real behaviours must be contained in the model's behaviours). *)
From Coq Require Import List NArith Bool String.
From TwLib Require Import Show.
From C55 Require Import Model Gen.
Import ListNotations.
Local Open Scope string_scope.

Definition show_kind (k : kind) : string := match k with KExc => "E" | KKbd => "K" | KBase => "B" end.
Definition show_outcome (o : outcome) : string :=
  match o with ONormal => "ret" | OReturn => "ret" | ORaise k => "raise:" ++ show_kind k end.
Definition show_res (r : res) : string :=
  let '(o, _, ht) := r in show_outcome o ++ "|" ++ String.concat "," (map show_N (rev ht)).

Definition complete (r : res) : bool := match r with (_, [], _) => true | _ => false end.

Fixpoint dedup (l : list string) : list string :=
  match l with
  | [] => []
  | x :: r => if existsb (String.eqb x) r then dedup r else x :: dedup r
  end.

Definition run_show (c : N * flags * script) : string :=
  let '(f, fl, sc) := c in
  String.concat ";" (dedup (map show_res (filter complete (runs 400 prog [] None (Call f fl) sc [])))).
