(** C55 proofs: soundness of the checker [esc] w.r.t. the adversarial semantics [exec], and soundness of
    the executable script semantics [runs] (every result it returns is an [exec] behaviour). *)
From Coq Require Import List NArith Bool Lia.
From C55 Require Import Model.
Import ListNotations.

Scheme exec_mind := Minimality for exec Sort Prop
  with exech_mind := Minimality for exech Sort Prop.
Combined Scheme exec_exech_ind from exec_mind, exech_mind.

Lemma kin_union : forall k a b, kin k (kunion a b) = kin k a || kin k b.
Proof. intros [] [] []; reflexivity. Qed.

Lemma kin_single : forall k, kin k (ksingle k) = true.
Proof. intros []; reflexivity. Qed.

Lemma kin_top : forall k, kin k ktop = true.
Proof. intros []; reflexivity. Qed.

Lemma kis_empty_kin : forall s k, kis_empty s = true -> kin k s = false.
Proof. intros [[] [] []] []; cbn; intros H; try reflexivity; discriminate. Qed.

Lemma must_may : forall c k, must c k = true -> may c k = true.
Proof. intros [] []; cbn; auto. Qed.

(** the three-way case split of the [Try] clause of [esc] *)
Lemma kin_try : forall k k' kb (F : kind -> kset),
  kin k' kb = true -> kin k (F k') = true ->
  kin k (kunion (if ks_exc kb then F KExc else kempty)
          (kunion (if ks_kbd kb then F KKbd else kempty)
                  (if ks_base kb then F KBase else kempty))) = true.
Proof.
  intros k k' kb F Hin HF. rewrite !kin_union.
  destruct k'; cbn in Hin; rewrite Hin; rewrite HF; rewrite ?orb_true_r; reflexivity.
Qed.

Lemma esc_sound_mutual : forall p,
  (forall env cur s o, exec p env cur s o ->
     forall k, o = ORaise k -> forall fuel, kin k (esc fuel p env cur s) = true)
  /\ (forall env k0 hs o, exech p env k0 hs o ->
     forall k, o = ORaise k -> forall fuel, kin k (esch fuel p env k0 hs) = true).
Proof.
  intro p. apply exec_exech_ind.
  - (* Skip *) intros; discriminate.
  - intros; discriminate.
  - intros; discriminate.
  - (* MayRaise *) intros env cur s k k' Hk [|f]; cbn; apply kin_top.
  - (* RaiseNew *) intros env cur s k k' Hk [|f]; cbn; [apply kin_top|]. injection Hk as <-. apply kin_single.
  - (* Reraise *) intros env cur s k' Hk [|f]; cbn; [apply kin_top|]. injection Hk as <-. apply kin_single.
  - intros; discriminate.
  - (* SeqN *) intros env cur a b o _ _ _ IHb k Hk [|f]; cbn; [apply kin_top|].
    rewrite kin_union, (IHb k Hk f). apply orb_true_r.
  - (* SeqX *) intros env cur a b o _ IHa _ k Hk [|f]; cbn; [apply kin_top|].
    rewrite kin_union, (IHa k Hk f). reflexivity.
  - (* ChoiceL *) intros env cur a b o _ IHa k Hk [|f]; cbn; [apply kin_top|].
    rewrite kin_union, (IHa k Hk f). reflexivity.
  - (* ChoiceR *) intros env cur a b o _ IHb k Hk [|f]; cbn; [apply kin_top|].
    rewrite kin_union, (IHb k Hk f). apply orb_true_r.
  - (* FlagT *) intros env cur fl a b o Hfl _ IHa k Hk [|f]; cbn; [apply kin_top|].
    destruct (lookup fl env) as [[|]|] eqn:E.
    + apply IHa; assumption.
    + exfalso; apply Hfl; reflexivity.
    + rewrite kin_union, (IHa k Hk f). reflexivity.
  - (* FlagF *) intros env cur fl a b o Hfl _ IHb k Hk [|f]; cbn; [apply kin_top|].
    destruct (lookup fl env) as [[|]|] eqn:E.
    + exfalso; apply Hfl; reflexivity.
    + apply IHb; assumption.
    + rewrite kin_union, (IHb k Hk f). apply orb_true_r.
  - (* Loop0 *) intros; discriminate.
  - (* LoopN *) intros env cur b o _ _ _ IHl k Hk fuel.
    (* the loop's own bound is the body's bound at one fuel less; use the IH on the remaining loop *)
    specialize (IHl k Hk fuel). exact IHl.
  - (* LoopX *) intros env cur b o _ IHb _ k Hk [|f]; cbn; [apply kin_top|]. apply IHb; assumption.
  - (* TryOk *) intros env cur b hs o _ _ Hno k Hk. exfalso. apply (Hno k Hk).
  - (* TryH *) intros env cur b hs k0 o _ IHb _ IHh k Hk [|f]; cbn; [apply kin_top|].
    apply kin_try with (k' := k0) (F := fun x => esch f p env x hs).
    + apply IHb; reflexivity.
    + apply IHh; assumption.
  - (* Call *) intros env cur g fl defs body o Hl _ IHb k Hk [|f]; cbn; [apply kin_top|].
    rewrite Hl. apply IHb. destruct o; cbn in Hk; try discriminate. assumption.
  - (* H_Nil *) intros env k0 k Hk [|f]; cbn; [apply kin_top|]. injection Hk as <-. apply kin_single.
  - (* H_Take *) intros env k0 c hid h r o Hmay _ IHh k Hk [|f]; cbn; [apply kin_top|].
    destruct (must c k0).
    + apply IHh; assumption.
    + rewrite Hmay, kin_union, (IHh k Hk f). reflexivity.
  - (* H_Skip *) intros env k0 c hid h r o Hmust _ IHr k Hk [|f]; cbn; [apply kin_top|].
    rewrite Hmust. destruct (may c k0).
    + rewrite kin_union, (IHr k Hk f). apply orb_true_r.
    + apply IHr; assumption.
Qed.

(** every kind of exception that some adversary can make leave [s] is in [esc s] *)
Theorem esc_sound : forall p env cur s k fuel,
  exec p env cur s (ORaise k) -> kin k (esc fuel p env cur s) = true.
Proof. intros p env cur s k fuel H. exact (proj1 (esc_sound_mutual p) env cur s _ H k eq_refl fuel). Qed.

Theorem never_escapes_sound_lemma : forall fuel p env s,
  never_escapes fuel p env s = true ->
  forall o, exec p env None s o -> forall k, o <> ORaise k.
Proof.
  intros fuel p env s Hne o He k ->.
  pose proof (esc_sound _ _ _ _ _ fuel He) as Hin.
  unfold never_escapes in Hne. rewrite (kis_empty_kin _ k Hne) in Hin. discriminate.
Qed.

(** "at most these kinds": used for python/log.py [_safeFormat], which re-raises KeyboardInterrupt on purpose *)
Theorem only_kinds_sound : forall fuel p env s k,
  kin k (esc fuel p env None s) = false -> forall o, exec p env None s o -> o <> ORaise k.
Proof.
  intros fuel p env s k Hk o He ->. rewrite (esc_sound _ _ _ _ _ fuel He) in Hk. discriminate.
Qed.

(** ---------------------------------------------------------------------------------------------
    [runs] only returns behaviours of [exec]. *)

Lemma in_add_res : forall x y l, In x (add_res y l) -> x = y \/ In x l.
Proof.
  intros x y l. induction l as [|z r IH]; cbn.
  - intros [<-|[]]; auto.
  - destruct (res_eqb y z).
    + intros H; right; exact H.
    + intros [<-|H]; [right; left; reflexivity|]. destruct (IH H) as [->|H']; auto.
Qed.

Lemma in_union_res : forall x a b, In x (union_res a b) -> In x a \/ In x b.
Proof.
  intros x a b. induction a as [|y r IH]; cbn.
  - auto.
  - intros H. apply in_add_res in H. destruct H as [->|H]; [left; left; reflexivity|].
    destruct (IH H); auto.
Qed.

Lemma in_bind_normal : forall x rs k,
  In x (bind_normal rs k) ->
  (exists sc ht, In (ONormal, sc, ht) rs /\ In x (k sc ht)) \/ (In x rs /\ is_normal (fst (fst x)) = false).
Proof.
  intros x rs k. induction rs as [|[[o sc] ht] r IH]; cbn.
  - intros [].
  - destruct (is_normal o) eqn:En.
    + intros H. apply in_union_res in H. destruct H as [H|H].
      * left. exists sc, ht. destruct o; try discriminate. split; [left; reflexivity|exact H].
      * destruct (IH H) as [(sc' & ht' & Hin & Hk)|[Hin Hn]].
        -- left. exists sc', ht'. split; [right; exact Hin|exact Hk].
        -- right. split; [right; exact Hin|exact Hn].
    + intros H. apply in_add_res in H. destruct H as [->|H].
      * right. split; [left; reflexivity|exact En].
      * destruct (IH H) as [(sc' & ht' & Hin & Hk)|[Hin Hn]].
        -- left. exists sc', ht'. split; [right; exact Hin|exact Hk].
        -- right. split; [right; exact Hin|exact Hn].
Qed.

Lemma in_atom : forall x site fk sc ht cp,
  In x (atom site fk sc ht cp) ->
  (cp = true /\ x = (ONormal, sc, ht))
  \/ (exists k rest, sc = (site, k) :: rest /\ x = (ORaise k, rest, ht)
        /\ match fk with Some k' => k = k' | None => True end).
Proof.
  intros x site fk sc ht cp. unfold atom.
  assert (Hpass : In x (if cp then [(ONormal, sc, ht)] else []) -> cp = true /\ x = (ONormal, sc, ht)).
  { destruct cp; cbn; [intros [<-|[]]; auto|intros []]. }
  destruct sc as [|[s k] rest]; [intros H; left; auto|].
  destruct (N.eqb s site && match fk with Some k' => kind_eqb k k' | None => true end) eqn:E.
  - intros H. apply in_add_res in H. destruct H as [->|H]; [|left; auto].
    right. apply andb_prop in E. destruct E as [Es Ek]. apply N.eqb_eq in Es. subst s.
    exists k, rest. split; [reflexivity|split; [reflexivity|]].
    destruct fk as [k'|]; [|exact I]. destruct k, k'; try discriminate; reflexivity.
  - intros H; left; auto.
Qed.

Lemma runs_sound_mutual : forall fuel p,
  (forall env cur s sc ht o sc' ht', In (o, sc', ht') (runs fuel p env cur s sc ht) -> exec p env cur s o)
  /\ (forall env k hs sc ht o sc' ht', In (o, sc', ht') (runsh fuel p env k hs sc ht) -> exech p env k hs o).
Proof.
  induction fuel as [|f IH]; intro p.
  - split; intros; cbn in *; contradiction.
  - destruct (IH p) as [IHr IHh]. split.
    + intros env cur s sc ht o sc' ht' Hin. destruct s; cbn in Hin.
      * destruct Hin as [E|[]]. injection E as <- _ _. constructor.
      * destruct Hin as [E|[]]. injection E as <- _ _. constructor.
      * apply in_atom in Hin. destruct Hin as [[_ E]|(k & rest & _ & E & _)]; injection E as -> _ _; constructor.
      * apply in_atom in Hin. destruct Hin as [[E _]|(k' & rest & _ & E & Hk)]; [discriminate|].
        injection E as -> _ _. subst k'. constructor.
      * destruct Hin as [E|[]]. injection E as <- _ _. constructor.
      * destruct Hin as [E|[]]. injection E as <- _ _. constructor.
      * apply in_bind_normal in Hin. destruct Hin as [(sc1 & ht1 & Ha & Hb)|[Ha Hn]].
        -- eapply E_SeqN; [eapply IHr; exact Ha|eapply IHr; exact Hb].
        -- cbn in Hn. eapply E_SeqX; [eapply IHr; exact Ha|exact Hn].
      * apply in_union_res in Hin. destruct Hin as [H|H].
        -- apply E_ChoiceL. eapply IHr; exact H.
        -- apply E_ChoiceR. eapply IHr; exact H.
      * destruct (lookup flag env) as [[|]|] eqn:El.
        -- apply E_FlagT; [rewrite El; discriminate|eapply IHr; exact Hin].
        -- apply E_FlagF; [rewrite El; discriminate|eapply IHr; exact Hin].
        -- apply in_union_res in Hin. destruct Hin as [H|H].
           ++ apply E_FlagT; [rewrite El; discriminate|eapply IHr; exact H].
           ++ apply E_FlagF; [rewrite El; discriminate|eapply IHr; exact H].
      * apply in_add_res in Hin. destruct Hin as [E|Hin].
        -- injection E as -> _ _. constructor.
        -- apply in_bind_normal in Hin. destruct Hin as [(sc1 & ht1 & Ha & Hb)|[Ha Hn]].
           ++ eapply E_LoopN; [eapply IHr; exact Ha|eapply IHr; exact Hb].
           ++ cbn in Hn. eapply E_LoopX; [eapply IHr; exact Ha|exact Hn].
      * (* Try *)
        revert Hin. generalize (IHr env cur s sc ht). generalize (runs f p env cur s sc ht) as rs.
        induction rs as [|[[o1 sc1] ht1] r IHrs]; cbn; intros Hall Hin; [contradiction|].
        destruct o1 as [| |k1].
        -- apply in_add_res in Hin. destruct Hin as [E|Hin].
           ++ injection E as -> _ _. apply E_TryOk; [eapply Hall; left; reflexivity|intros k; discriminate].
           ++ apply IHrs; [intros; eapply Hall; right; eassumption|exact Hin].
        -- apply in_add_res in Hin. destruct Hin as [E|Hin].
           ++ injection E as -> _ _. apply E_TryOk; [eapply Hall; left; reflexivity|intros k; discriminate].
           ++ apply IHrs; [intros; eapply Hall; right; eassumption|exact Hin].
        -- apply in_union_res in Hin. destruct Hin as [Hin|Hin].
           ++ eapply E_TryH; [eapply Hall; left; reflexivity|eapply IHh; exact Hin].
           ++ apply IHrs; [intros; eapply Hall; right; eassumption|exact Hin].
      * (* Call *)
        destruct (lookup f0 p) as [[defs body]|] eqn:El; [|contradiction].
        revert Hin. generalize (IHr (flags ++ defs) cur body sc ht).
        generalize (runs f p (flags ++ defs) cur body sc ht) as rs.
        induction rs as [|[[o1 sc1] ht1] r IHrs]; cbn; intros Hall Hin; [contradiction|].
        apply in_add_res in Hin. destruct Hin as [E|Hin].
        -- injection E as -> _ _. eapply E_Call; [exact El|eapply Hall; left; reflexivity].
        -- apply IHrs; [intros; eapply Hall; right; eassumption|exact Hin].
    + intros env k hs sc ht o sc' ht' Hin. destruct hs as [|c hid h r]; cbn in Hin.
      * destruct Hin as [E|[]]. injection E as <- _ _. constructor.
      * apply in_union_res in Hin. destruct Hin as [Hin|Hin].
        -- destruct (may c k) eqn:Em; [|contradiction]. apply H_Take; [exact Em|eapply IHr; exact Hin].
        -- destruct (must c k) eqn:Em; [contradiction|]. apply H_Skip; [exact Em|eapply IHh; exact Hin].
Qed.

Theorem runs_sound : forall fuel p env cur s sc ht o sc' ht',
  In (o, sc', ht') (runs fuel p env cur s sc ht) -> exec p env cur s o.
Proof. intros fuel p. exact (proj1 (runs_sound_mutual fuel p)). Qed.

(** the semantics is not vacuous: an [except Exception] does not stop a non-Exception BaseException *)
Lemma except_exception_is_not_enough :
  exec [] [] None (Try (MayRaise 0) (HCons CatchExc 0 Skip HNil)) (ORaise KBase)
  /\ never_escapes 10 [] [] (Try (MayRaise 0) (HCons CatchExc 0 Skip HNil)) = false
  /\ never_escapes 10 [] [] (Try (MayRaise 0) (HCons CatchAll 0 Skip HNil)) = true.
Proof.
  split; [|split; reflexivity].
  apply E_TryH with (k := KBase); [apply E_MayRaise|]. apply H_Skip; [reflexivity|apply H_Nil].
Qed.
