(** C52: printers used by the correspondence check only. *)
From Coq Require Import List NArith Bool String.
From TwLib Require Import Show Fs.
From C52 Require Import Model.
Import ListNotations.
Local Open Scope string_scope.

Definition show_node (n : option node) : string :=
  match n with
  | None => "-"
  | Some (File c) => "f" ++ show_hex c
  | Some Dir => "d"
  | Some (Link t) => "l" ++ show_hex t
  end.

(** the state restricted to the names the case talks about, in the case's order *)
Definition show_state (names : list path) (s : fs) : string :=
  String.concat "," (map (fun n => show_node (lookup s n)) names).

Definition show_step (st : step) : string :=
  match st with
  | SCreat p => "c:" ++ show_hex p
  | SCreatX p => "x:" ++ show_hex p
  | SAppend p b => "a:" ++ show_hex p ++ ":" ++ show_hex [b]
  | SUnlink p => "u:" ++ show_hex p
  | SRename a b => "r:" ++ show_hex a ++ ":" ++ show_hex b
  | SMkdir p => "m:" ++ show_hex p
  | SRmdir p => "rd:" ++ show_hex p
  | SSymlink t p => "s:" ++ show_hex t ++ ":" ++ show_hex p
  end.

(** (names to print, initial state, target, history) ->
    "S:" the atomic steps of the history, "C:" the state after every prefix of them *)
Definition run_show (c : list path * fs * path * list op) : string :=
  let '(names, s, target, ops) := c in
  let l := progs target ops in
  "S:" ++ String.concat ";" (map show_step l)
  ++ "|C:" ++ String.concat ";" (map (fun pre => show_state names (run s pre)) (prefixes l)).
