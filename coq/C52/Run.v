(** C52: printers used by the correspondence check only. *)
From Coq Require Import List NArith Bool String.
From TwLib Require Import Show Fs.
From C52 Require Import Model.
Import ListNotations.
Local Open Scope string_scope.

Definition show_node (n : option node) : string :=
  match n with
  | None => "-"
  | Some (File c) => "f" ++ show_hex c
  | Some Dir => "d"
  | Some (Link t) => "l" ++ show_hex t
  end.

(** the state restricted to the names the case talks about, in the case's order *)
Definition show_state (names : list path) (s : fs) : string :=
  String.concat "," (map (fun n => show_node (lookup s n)) names).

Definition show_step (st : step) : string :=
  match st with
  | SCreat p => "c:" ++ show_hex p
  | SCreatX p => "x:" ++ show_hex p
  | SAppend p b => "a:" ++ show_hex p ++ ":" ++ show_hex [b]
  | SUnlink p => "u:" ++ show_hex p
  | SRename a b => "r:" ++ show_hex a ++ ":" ++ show_hex b
  | SMkdir p => "m:" ++ show_hex p
  | SRmdir p => "rd:" ++ show_hex p
  | SSymlink t p => "s:" ++ show_hex t ++ ":" ++ show_hex p
  end.

(** "S:" the atomic steps, "C:" the state after every prefix of them *)
Definition show_run (names : list path) (s : fs) (l : list step) : string :=
  "S:" ++ String.concat ";" (map show_step l)
  ++ "|C:" ++ String.concat ";" (map (fun pre => show_state names (run s pre)) (prefixes l)).

Inductive case :=
| CRepl (names : list path) (s : fs) (target : path) (ops : list op)   (* a history of replacements *)
| CMove (names : list path) (s : fs) (src dst tD tS : path)             (* one cross-device moveTo *)
| CFault (names : list path) (s : fs) (target : path) (o : op) (j : nat) (* write stores j bytes, then OSError *)
| CMoveFault (names : list path) (s : fs) (src dst tD : path) (j : nat).

Definition run_show (c : case) : string :=
  match c with
  | CRepl names s target ops => show_run names s (progs target ops)
  | CMove names s src dst tD tS => show_run names s (move_prog s src dst tD tS)
  | CFault names s target o j => show_run names s (prog_fault target o j)
  | CMoveFault names s src dst tD j => show_run names s (move_fault s src dst tD j)
  end.
