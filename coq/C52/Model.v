(** C52: atomic file replacement.
      FilePath.setContent (src/twisted/python/filepath.py):
          sib = self.temporarySibling(ext)          # unpredictable sibling name, requireCreate()
          with sib.open("w") as f: f.write(content) # os.open(O_CREAT|O_EXCL|O_RDWR) + write + close
          os.rename(sib.path, self.path)
      sob.Persistent.save (src/twisted/persisted/sob.py):
          with open(name-2.ext, "wb") as f: dumpFunc(self.original, f)   # O_CREAT|O_TRUNC + writes + close
          os.rename(name-2.ext, name.ext)
    Both are the same program over TwLib.Fs steps, differing in how the temporary is created.
    A write() is one [SAppend] per byte, so "crash after any prefix of the steps" includes a partial
    write of every length.  (POSIX branch; the win32 remove-then-rename branch is not modelled.) *)
From Coq Require Import List NArith Bool.
From TwLib Require Import Fs.
Import ListNotations.

Inductive kind :=
| Exclusive      (* setContent: the temporary must not exist (O_EXCL) *)
| Truncating.    (* Persistent.save: an existing temporary is truncated *)

Record op := mkop { okind : kind; otmp : path; odata : list N }.

Definition creat (k : kind) (p : path) : step :=
  match k with Exclusive => SCreatX p | Truncating => SCreat p end.

(** one replacement of [target] *)
Definition prog (target : path) (o : op) : list step :=
  creat (okind o) (otmp o) :: write_steps (otmp o) (odata o) ++ [SRename (otmp o) target].

(** a history of replacements of the same target *)
Definition progs (target : path) (ops : list op) : list step := flat_map (prog target) ops.

(** what the target holds after the replacements [done] all completed *)
Definition last_content (s : fs) (target : path) (done : list op) : option (list N) :=
  match rev done with
  | [] => read s target
  | o :: _ => Some (odata o)
  end.

(** ---- FilePath.moveTo when os.rename answers EXDEV (source and destination on different file systems)
      secsib = destination.temporarySibling(); self.copyTo(secsib)      # O_EXCL create + copy
      secsib.moveTo(destination)                                        # rename, same file system: atomic
      mysecsib = self.temporarySibling(); self.moveTo(mysecsib)         # rename the source aside
      mysecsib.remove()
    (regular files; the refused first rename changes nothing and is not a step).  The two directories
    share the flat namespace; [tD] / [tS] are the temporaries next to the destination / the source. *)
Definition move_prog (s : fs) (src dst tD tS : path) : list step :=
  match read s src with
  | Some c => SCreatX tD :: write_steps tD c ++ [SRename tD dst; SRename src tS; SUnlink tS]
  | None => []
  end.

(** ---- operating-system faults while the temporary is written (EFBIG / ENOSPC / quota: write(2) stores only
    the first [j] bytes, the buffered writer's retry or close() then raises OSError and the operation ends
    WITHOUT renaming): the steps of such a run.  [j >= length data] is the run that wrote everything and
    died before the rename. *)
Definition prog_fault (target : path) (o : op) (j : nat) : list step :=
  creat (okind o) (otmp o) :: write_steps (otmp o) (firstn j (odata o)).

Definition move_fault (s : fs) (src dst tD : path) (j : nat) : list step :=
  match read s src with
  | Some c => SCreatX tD :: write_steps tD (firstn j c)
  | None => []
  end.
