(** C52 proofs. *)
From Coq Require Import List NArith Bool Arith Lia.
From TwLib Require Import Fs.
From C52 Require Import Model.
Import ListNotations.

Lemma app_split_cases : forall {A} (l1 l2 pre suf : list A),
  l1 ++ l2 = pre ++ suf ->
  (exists m, l1 = pre ++ m /\ suf = m ++ l2) \/ (exists m, pre = l1 ++ m /\ l2 = m ++ suf).
Proof.
  induction l1 as [|x l1 IH]; intros l2 pre suf H.
  - right. exists pre. now split.
  - destruct pre as [|y pre].
    + left. exists (x :: l1). now split.
    + cbn in H. injection H as <- H. destruct (IH l2 pre suf H) as [[m [-> ->]] | [m [-> ->]]].
      * left. now exists m.
      * right. now exists m.
Qed.

Lemma read_lookup_eq : forall s1 s2 p, lookup s1 p = lookup s2 p -> read s1 p = read s2 p.
Proof. intros s1 s2 p H. unfold read. now rewrite H. Qed.

(** creating the temporary: afterwards it is an empty file, nothing else changed *)
Lemma apply_creat : forall k s tmp s1,
  apply s (creat k tmp) = Some s1 ->
  lookup s1 tmp = Some (File []) /\ forall q, q <> tmp -> lookup s1 q = lookup s q.
Proof.
  intros k s tmp s1 H. destruct k; cbn in H.
  - destruct (lookup s tmp); inversion H; subst. split; [apply lookup_update_eq|].
    intros q Hq. apply lookup_update_neq. congruence.
  - destruct (lookup s tmp) as [[| |]|]; inversion H; subst; (split; [apply lookup_update_eq|]);
      intros q Hq; apply lookup_update_neq; congruence.
Qed.

Lemma creat_touches : forall k tmp, touches (creat k tmp) = [tmp].
Proof. now destruct k. Qed.

(** the steps before the rename never touch the target *)
Lemma head_frame : forall o target,
  otmp o <> target ->
  Forall (fun st => ~ In target (touches st)) (creat (okind o) (otmp o) :: write_steps (otmp o) (odata o)).
Proof.
  intros o target H. constructor.
  - rewrite creat_touches. cbn. intros [E|[]]. congruence.
  - apply write_steps_touch. congruence.
Qed.

Lemma Forall_prefix : forall {A} (P : A -> Prop) pre m, Forall P (pre ++ m) -> Forall P pre.
Proof. intros A P pre m H. apply Forall_app in H. tauto. Qed.

(** a complete, successful replacement *)
Lemma run_prog_full : forall s target o,
  otmp o <> target ->
  let s' := run s (prog target o) in
  (run_ok s (prog target o) = true ->
     read s' target = Some (odata o) /\ lookup s' (otmp o) = None)
  /\ (read s' target = read s target \/ read s' target = Some (odata o)).
Proof.
  intros s target o Hne. unfold prog. cbn zeta. cbn [run run_ok].
  destruct (apply s (creat (okind o) (otmp o))) as [s1|] eqn:E1.
  2:{ split; [discriminate | now left]. }
  destruct (apply_creat _ _ _ _ E1) as [L1 F1].
  destruct (run_write_steps (odata o) s1 (otmp o) [] L1) as (W1 & W2 & W3). cbn [app] in W2.
  rewrite run_ok_app, run_app, W1 by assumption. cbn [andb].
  set (s2 := run s1 (write_steps (otmp o) (odata o))) in *.
  assert (T2 : lookup s2 target = lookup s target).
  { rewrite (W3 target) by congruence. apply F1. congruence. }
  cbn [run run_ok apply]. rewrite W2.
  assert (Eq : path_eqb (otmp o) target = false) by now apply path_eqb_neq.
  rewrite Eq.
  assert (Good : forall s3, s3 = update (remove s2 (otmp o)) target (File (odata o)) ->
            read s3 target = Some (odata o) /\ lookup s3 (otmp o) = None).
  { intros s3 ->. split.
    - unfold read. now rewrite lookup_update_eq.
    - rewrite lookup_update_neq by congruence. apply lookup_remove_eq. }
  destruct (lookup s2 target) as [[c| |t]|] eqn:Lt.
  - split; [intros _; now apply Good | right; now apply Good].
  - split; [discriminate|]. left. apply read_lookup_eq. congruence.
  - split; [intros _; now apply Good | right; now apply Good].
  - split; [intros _; now apply Good | right; now apply Good].
Qed.

(** T1: old or new at every crash point of one replacement *)
Lemma old_or_new : forall s target o pre suf,
  otmp o <> target -> prog target o = pre ++ suf ->
  read (run s pre) target = read s target \/ read (run s pre) target = Some (odata o).
Proof.
  intros s target o pre suf Hne H. unfold prog in H.
  change (creat (okind o) (otmp o) :: write_steps (otmp o) (odata o) ++ [SRename (otmp o) target])
    with ((creat (okind o) (otmp o) :: write_steps (otmp o) (odata o)) ++ [SRename (otmp o) target]) in H.
  destruct (app_split_cases _ _ _ _ H) as [[m [E _]] | [m [E1 E2]]].
  - (* before the rename: only the temporary was touched *)
    left. apply read_lookup_eq. apply run_frame.
    apply (Forall_prefix _ pre m). rewrite <- E. now apply head_frame.
  - (* the rename is (or is not yet) included *)
    destruct m as [|x m].
    + left. rewrite app_nil_r in E1. subst pre. apply read_lookup_eq. apply run_frame. now apply head_frame.
    + assert (m = [] /\ x = SRename (otmp o) target) as [-> ->].
      { destruct m; cbn in E2; inversion E2. now split. }
      subst pre. exact (proj2 (run_prog_full s target o Hne)).
Qed.

Lemma progs_snoc : forall target done o, progs target (done ++ [o]) = progs target done ++ prog target o.
Proof. intros. unfold progs. rewrite flat_map_app. cbn. now rewrite app_nil_r. Qed.

(** after a history of completed replacements the target holds the last one's content *)
Lemma completed_history : forall target done s,
  Forall (fun o => otmp o <> target) done ->
  run_ok s (progs target done) = true ->
  read (run s (progs target done)) target = last_content s target done.
Proof.
  intros target done. induction done as [|o done IH] using rev_ind; intros s HF Hok.
  - reflexivity.
  - rewrite progs_snoc in *. rewrite run_ok_app in Hok. apply andb_true_iff in Hok as [Ok1 Ok2].
    rewrite run_app by assumption. apply Forall_app in HF as [_ HF]. inversion HF as [|? ? Hne _]; subst.
    unfold last_content. rewrite rev_unit.
    exact (proj1 (proj1 (run_prog_full _ target o Hne) Ok2)).
Qed.

(** T2: after any completed history, a crash inside the next replacement leaves the last completed
    content or the new one *)
Lemma history_old_or_new : forall s target done cur pre suf,
  Forall (fun o => otmp o <> target) (done ++ [cur]) ->
  run_ok s (progs target done) = true ->
  prog target cur = pre ++ suf ->
  read (run s (progs target done ++ pre)) target = last_content s target done
  \/ read (run s (progs target done ++ pre)) target = Some (odata cur).
Proof.
  intros s target done cur pre suf HF Hok H.
  apply Forall_app in HF as [HF1 HF2]. inversion HF2 as [|? ? Hne _]; subst.
  rewrite run_app by assumption.
  rewrite <- (completed_history target done s HF1 Hok).
  now apply old_or_new with suf.
Qed.

(** crash anywhere in a whole history: the target holds the original or one of the written contents *)
Lemma history_in_contents : forall target ops s pre suf,
  Forall (fun o => otmp o <> target) ops ->
  progs target ops = pre ++ suf ->
  In (read (run s pre) target) (read s target :: map (fun o => Some (odata o)) ops).
Proof.
  intros target ops. induction ops as [|o ops IH]; intros s pre suf HF H.
  - cbn in H. destruct pre; [|discriminate]. now left.
  - inversion HF as [|? ? Hne HF']; subst. cbn [progs flat_map] in H.
    destruct (app_split_cases _ _ _ _ H) as [[m [E _]] | [m [E1 E2]]].
    + destruct (old_or_new s target o pre m Hne E) as [-> | ->]; [now left | right; now left].
    + subst pre. destruct (run_ok s (prog target o)) eqn:Ok.
      * rewrite run_app by assumption. fold (progs target ops) in E2.
        destruct (IH (run s (prog target o)) m suf HF' E2) as [E|E].
        -- rewrite <- E. rewrite (proj1 (proj1 (run_prog_full s target o Hne) Ok)). right. now left.
        -- right. right. exact E.
      * (* the replacement failed part-way: the exception ends the history *)
        assert (St : run s (prog target o ++ m) = run s (prog target o)).
        { clear - Ok. revert s Ok. induction (prog target o) as [|st l IHl]; intros s Ok; [discriminate|].
          cbn in *. destruct (apply s st); [now apply IHl | reflexivity]. }
        rewrite St. destruct (proj2 (run_prog_full s target o Hne)) as [-> | ->]; [now left | right; now left].
Qed.

(** T4: nothing but the target and the temporaries is ever modified *)
Lemma prog_touches : forall target o st, In st (prog target o) -> forall q, In q (touches st) -> q = target \/ q = otmp o.
Proof.
  intros target o st H q Hq. unfold prog in H. destruct H as [<-|H].
  - rewrite creat_touches in Hq. destruct Hq as [<-|[]]. now right.
  - apply in_app_or in H as [H|[<-|[]]].
    + unfold write_steps in H. apply in_map_iff in H as (b & <- & _). destruct Hq as [<-|[]]. now right.
    + destruct Hq as [<-|[<-|[]]]; [now right | now left].
Qed.

Lemma only_temporaries : forall target ops s pre suf q,
  progs target ops = pre ++ suf -> q <> target -> ~ In q (map otmp ops) ->
  lookup (run s pre) q = lookup s q.
Proof.
  intros target ops s pre suf q H Hq Hn. apply run_frame. apply Forall_forall. intros st Hst Hin.
  assert (Hst' : In st (progs target ops)) by (rewrite H; apply in_or_app; now left).
  unfold progs in Hst'. apply in_flat_map in Hst' as (o & Ho & Hso).
  destruct (prog_touches target o st Hso q Hin) as [-> | ->]; [now apply Hq|].
  apply Hn. apply in_map_iff. now exists o.
Qed.

(** a non-trivial instance: replacing an existing file, the temporary left over from an earlier crash *)
Example ex_history :
  let s := [([116]%N, File [1;2]%N); ([117]%N, File [9]%N)] in
  let o1 := mkop Truncating [117]%N [3;4;5]%N in
  let o2 := mkop Exclusive [118]%N [6]%N in
  run_ok s (progs [116]%N [o1; o2]) = true
  /\ read (run s (progs [116]%N [o1; o2])) [116]%N = Some [6]%N
  /\ map (fun pre => read (run s pre) [116]%N) (prefixes (prog [116]%N o1))
     = [Some [1;2]; Some [1;2]; Some [1;2]; Some [1;2]; Some [1;2]; Some [3;4;5]]%N.
Proof. repeat split; vm_compute; reflexivity. Qed.

Lemma completed_replacement : forall s target o,
  otmp o <> target -> run_ok s (prog target o) = true ->
  read (run s (prog target o)) target = Some (odata o) /\ lookup (run s (prog target o)) (otmp o) = None.
Proof. intros s target o H. exact (proj1 (run_prog_full s target o H)). Qed.
