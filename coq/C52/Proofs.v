(** C52 proofs. *)
From Coq Require Import List NArith Bool Arith Lia.
From TwLib Require Import Fs.
From C52 Require Import Model.
Import ListNotations.

Lemma app_split_cases : forall {A} (l1 l2 pre suf : list A),
  l1 ++ l2 = pre ++ suf ->
  (exists m, l1 = pre ++ m /\ suf = m ++ l2) \/ (exists m, pre = l1 ++ m /\ l2 = m ++ suf).
Proof.
  induction l1 as [|x l1 IH]; intros l2 pre suf H.
  - right. exists pre. now split.
  - destruct pre as [|y pre].
    + left. exists (x :: l1). now split.
    + cbn in H. injection H as <- H. destruct (IH l2 pre suf H) as [[m [-> ->]] | [m [-> ->]]].
      * left. now exists m.
      * right. now exists m.
Qed.

Lemma read_lookup_eq : forall s1 s2 p, lookup s1 p = lookup s2 p -> read s1 p = read s2 p.
Proof. intros s1 s2 p H. unfold read. now rewrite H. Qed.

(** creating the temporary: afterwards it is an empty file, nothing else changed *)
Lemma apply_creat : forall k s tmp s1,
  apply s (creat k tmp) = Some s1 ->
  lookup s1 tmp = Some (File []) /\ forall q, q <> tmp -> lookup s1 q = lookup s q.
Proof.
  intros k s tmp s1 H. destruct k; cbn in H.
  - destruct (lookup s tmp); inversion H; subst. split; [apply lookup_update_eq|].
    intros q Hq. apply lookup_update_neq. congruence.
  - destruct (lookup s tmp) as [[| |]|]; inversion H; subst; (split; [apply lookup_update_eq|]);
      intros q Hq; apply lookup_update_neq; congruence.
Qed.

Lemma creat_touches : forall k tmp, touches (creat k tmp) = [tmp].
Proof. now destruct k. Qed.

(** the steps before the rename never touch the target *)
Lemma head_frame : forall o target,
  otmp o <> target ->
  Forall (fun st => ~ In target (touches st)) (creat (okind o) (otmp o) :: write_steps (otmp o) (odata o)).
Proof.
  intros o target H. constructor.
  - rewrite creat_touches. cbn. intros [E|[]]. congruence.
  - apply write_steps_touch. congruence.
Qed.

Lemma Forall_prefix : forall {A} (P : A -> Prop) pre m, Forall P (pre ++ m) -> Forall P pre.
Proof. intros A P pre m H. apply Forall_app in H. tauto. Qed.

(** a complete, successful replacement *)
Lemma run_prog_full : forall s target o,
  otmp o <> target ->
  let s' := run s (prog target o) in
  (run_ok s (prog target o) = true ->
     read s' target = Some (odata o) /\ lookup s' (otmp o) = None)
  /\ (read s' target = read s target \/ read s' target = Some (odata o)).
Proof.
  intros s target o Hne. unfold prog. cbn zeta. cbn [run run_ok].
  destruct (apply s (creat (okind o) (otmp o))) as [s1|] eqn:E1.
  2:{ split; [discriminate | now left]. }
  destruct (apply_creat _ _ _ _ E1) as [L1 F1].
  destruct (run_write_steps (odata o) s1 (otmp o) [] L1) as (W1 & W2 & W3). cbn [app] in W2.
  rewrite run_ok_app, run_app, W1 by assumption. cbn [andb].
  set (s2 := run s1 (write_steps (otmp o) (odata o))) in *.
  assert (T2 : lookup s2 target = lookup s target).
  { rewrite (W3 target) by congruence. apply F1. congruence. }
  cbn [run run_ok apply]. rewrite W2.
  assert (Eq : path_eqb (otmp o) target = false) by now apply path_eqb_neq.
  rewrite Eq.
  assert (Good : forall s3, s3 = update (remove s2 (otmp o)) target (File (odata o)) ->
            read s3 target = Some (odata o) /\ lookup s3 (otmp o) = None).
  { intros s3 ->. split.
    - unfold read. now rewrite lookup_update_eq.
    - rewrite lookup_update_neq by congruence. apply lookup_remove_eq. }
  destruct (lookup s2 target) as [[c| |t]|] eqn:Lt.
  - split; [intros _; now apply Good | right; now apply Good].
  - split; [discriminate|]. left. apply read_lookup_eq. congruence.
  - split; [intros _; now apply Good | right; now apply Good].
  - split; [intros _; now apply Good | right; now apply Good].
Qed.

(** T1: old or new at every crash point of one replacement *)
Lemma old_or_new : forall s target o pre suf,
  otmp o <> target -> prog target o = pre ++ suf ->
  read (run s pre) target = read s target \/ read (run s pre) target = Some (odata o).
Proof.
  intros s target o pre suf Hne H. unfold prog in H.
  change (creat (okind o) (otmp o) :: write_steps (otmp o) (odata o) ++ [SRename (otmp o) target])
    with ((creat (okind o) (otmp o) :: write_steps (otmp o) (odata o)) ++ [SRename (otmp o) target]) in H.
  destruct (app_split_cases _ _ _ _ H) as [[m [E _]] | [m [E1 E2]]].
  - (* before the rename: only the temporary was touched *)
    left. apply read_lookup_eq. apply run_frame.
    apply (Forall_prefix _ pre m). rewrite <- E. now apply head_frame.
  - (* the rename is (or is not yet) included *)
    destruct m as [|x m].
    + left. rewrite app_nil_r in E1. subst pre. apply read_lookup_eq. apply run_frame. now apply head_frame.
    + assert (m = [] /\ x = SRename (otmp o) target) as [-> ->].
      { destruct m; cbn in E2; inversion E2. now split. }
      subst pre. exact (proj2 (run_prog_full s target o Hne)).
Qed.

Lemma progs_snoc : forall target done o, progs target (done ++ [o]) = progs target done ++ prog target o.
Proof. intros. unfold progs. rewrite flat_map_app. cbn. now rewrite app_nil_r. Qed.

(** after a history of completed replacements the target holds the last one's content *)
Lemma completed_history : forall target done s,
  Forall (fun o => otmp o <> target) done ->
  run_ok s (progs target done) = true ->
  read (run s (progs target done)) target = last_content s target done.
Proof.
  intros target done. induction done as [|o done IH] using rev_ind; intros s HF Hok.
  - reflexivity.
  - rewrite progs_snoc in *. rewrite run_ok_app in Hok. apply andb_true_iff in Hok as [Ok1 Ok2].
    rewrite run_app by assumption. apply Forall_app in HF as [_ HF]. inversion HF as [|? ? Hne _]; subst.
    unfold last_content. rewrite rev_unit.
    exact (proj1 (proj1 (run_prog_full _ target o Hne) Ok2)).
Qed.

(** T2: after any completed history, a crash inside the next replacement leaves the last completed
    content or the new one *)
Lemma history_old_or_new : forall s target done cur pre suf,
  Forall (fun o => otmp o <> target) (done ++ [cur]) ->
  run_ok s (progs target done) = true ->
  prog target cur = pre ++ suf ->
  read (run s (progs target done ++ pre)) target = last_content s target done
  \/ read (run s (progs target done ++ pre)) target = Some (odata cur).
Proof.
  intros s target done cur pre suf HF Hok H.
  apply Forall_app in HF as [HF1 HF2]. inversion HF2 as [|? ? Hne _]; subst.
  rewrite run_app by assumption.
  rewrite <- (completed_history target done s HF1 Hok).
  now apply old_or_new with suf.
Qed.

(** crash anywhere in a whole history: the target holds the original or one of the written contents *)
Lemma history_in_contents : forall target ops s pre suf,
  Forall (fun o => otmp o <> target) ops ->
  progs target ops = pre ++ suf ->
  In (read (run s pre) target) (read s target :: map (fun o => Some (odata o)) ops).
Proof.
  intros target ops. induction ops as [|o ops IH]; intros s pre suf HF H.
  - cbn in H. destruct pre; [|discriminate]. now left.
  - inversion HF as [|? ? Hne HF']; subst. cbn [progs flat_map] in H.
    destruct (app_split_cases _ _ _ _ H) as [[m [E _]] | [m [E1 E2]]].
    + destruct (old_or_new s target o pre m Hne E) as [-> | ->]; [now left | right; now left].
    + subst pre. destruct (run_ok s (prog target o)) eqn:Ok.
      * rewrite run_app by assumption. fold (progs target ops) in E2.
        destruct (IH (run s (prog target o)) m suf HF' E2) as [E|E].
        -- rewrite <- E. rewrite (proj1 (proj1 (run_prog_full s target o Hne) Ok)). right. now left.
        -- right. right. exact E.
      * (* the replacement failed part-way: the exception ends the history *)
        assert (St : run s (prog target o ++ m) = run s (prog target o)).
        { clear - Ok. revert s Ok. induction (prog target o) as [|st l IHl]; intros s Ok; [discriminate|].
          cbn in *. destruct (apply s st); [now apply IHl | reflexivity]. }
        rewrite St. destruct (proj2 (run_prog_full s target o Hne)) as [-> | ->]; [now left | right; now left].
Qed.

(** T4: nothing but the target and the temporaries is ever modified *)
Lemma prog_touches : forall target o st, In st (prog target o) -> forall q, In q (touches st) -> q = target \/ q = otmp o.
Proof.
  intros target o st H q Hq. unfold prog in H. destruct H as [<-|H].
  - rewrite creat_touches in Hq. destruct Hq as [<-|[]]. now right.
  - apply in_app_or in H as [H|[<-|[]]].
    + unfold write_steps in H. apply in_map_iff in H as (b & <- & _). destruct Hq as [<-|[]]. now right.
    + destruct Hq as [<-|[<-|[]]]; [now right | now left].
Qed.

Lemma only_temporaries : forall target ops s pre suf q,
  progs target ops = pre ++ suf -> q <> target -> ~ In q (map otmp ops) ->
  lookup (run s pre) q = lookup s q.
Proof.
  intros target ops s pre suf q H Hq Hn. apply run_frame. apply Forall_forall. intros st Hst Hin.
  assert (Hst' : In st (progs target ops)) by (rewrite H; apply in_or_app; now left).
  unfold progs in Hst'. apply in_flat_map in Hst' as (o & Ho & Hso).
  destruct (prog_touches target o st Hso q Hin) as [-> | ->]; [now apply Hq|].
  apply Hn. apply in_map_iff. now exists o.
Qed.

(** a non-trivial instance: replacing an existing file, the temporary left over from an earlier crash *)
Example ex_history :
  let s := [([116]%N, File [1;2]%N); ([117]%N, File [9]%N)] in
  let o1 := mkop Truncating [117]%N [3;4;5]%N in
  let o2 := mkop Exclusive [118]%N [6]%N in
  run_ok s (progs [116]%N [o1; o2]) = true
  /\ read (run s (progs [116]%N [o1; o2])) [116]%N = Some [6]%N
  /\ map (fun pre => read (run s pre) [116]%N) (prefixes (prog [116]%N o1))
     = [Some [1;2]; Some [1;2]; Some [1;2]; Some [1;2]; Some [1;2]; Some [3;4;5]]%N.
Proof. repeat split; vm_compute; reflexivity. Qed.

Lemma completed_replacement : forall s target o,
  otmp o <> target -> run_ok s (prog target o) = true ->
  read (run s (prog target o)) target = Some (odata o) /\ lookup (run s (prog target o)) (otmp o) = None.
Proof. intros s target o H. exact (proj1 (run_prog_full s target o H)). Qed.

(** ---- moveTo across file systems ---- *)
Lemma run_app_fail : forall l1 l2 s, run_ok s l1 = false -> run s (l1 ++ l2) = run s l1.
Proof.
  induction l1 as [|st l1 IH]; intros l2 s H; [discriminate|].
  cbn in *. destruct (apply s st); [now apply IH | reflexivity].
Qed.

Lemma move_head_frame : forall tD c q, q <> tD ->
  Forall (fun st => ~ In q (touches st)) (SCreatX tD :: write_steps tD c).
Proof.
  intros tD c q H. constructor; [cbn; intros [E|[]]; congruence | now apply write_steps_touch].
Qed.

Lemma move_head_run : forall s tD c,
  let h := SCreatX tD :: write_steps tD c in
  (forall q, q <> tD -> lookup (run s h) q = lookup s q)
  /\ (run_ok s h = true -> lookup (run s h) tD = Some (File c)).
Proof.
  intros s tD c h. split.
  - intros q Hq. apply run_frame. now apply move_head_frame.
  - subst h. cbn [run run_ok apply]. destruct (lookup s tD) eqn:E; [discriminate|]. intros _.
    destruct (run_write_steps c (update s tD (File [])) tD []) as (_ & W2 & _); [apply lookup_update_eq|].
    exact W2.
Qed.

(** the state after each prefix of the three closing steps, from a state where [tD] holds the copy *)
Lemma move_tail : forall s2 src dst tD tS c m suf,
  src <> dst -> tD <> src -> tD <> dst -> tS <> dst -> tS <> tD -> tS <> src ->
  lookup s2 tD = Some (File c) -> lookup s2 src = Some (File c) ->
  [SRename tD dst; SRename src tS; SUnlink tS] = m ++ suf ->
  (read (run s2 m) dst = read s2 dst \/ read (run s2 m) dst = Some c)
  /\ (read (run s2 m) src = Some c \/ read (run s2 m) dst = Some c).
Proof.
  intros s2 src dst tD tS c m suf N1 N2 N3 N4 N5 N6 LD LS E.
  assert (Rs : read s2 src = Some c) by (unfold read; now rewrite LS).
  destruct m as [|a m]; [cbn; auto|]. cbn in E. injection E as <- E.
  cbn [run apply]. rewrite LD.
  assert (Ne : path_eqb tD dst = false) by now apply path_eqb_neq. rewrite Ne.
  (* the rename onto the destination: refused only when a directory is in the way *)
  assert (Step1 : forall s3, s3 = update (remove s2 tD) dst (File c) ->
            (read (run s3 m) dst = read s2 dst \/ read (run s3 m) dst = Some c)
            /\ (read (run s3 m) src = Some c \/ read (run s3 m) dst = Some c)).
  { intros s3 ->. set (s3 := update (remove s2 tD) dst (File c)).
    assert (D3 : lookup s3 dst = Some (File c)) by apply lookup_update_eq.
    assert (S3 : lookup s3 src = Some (File c)).
    { unfold s3. rewrite lookup_update_neq by congruence. rewrite lookup_remove_neq by congruence. exact LS. }
    assert (Rd : forall s', lookup s' dst = Some (File c) -> read s' dst = Some c)
      by (intros s' H; unfold read; now rewrite H).
    destruct m as [|b m]; [cbn; split; right; now apply Rd|].
    cbn in E. injection E as <- E. cbn [run apply]. rewrite S3.
    assert (Ne2 : path_eqb src tS = false) by (apply path_eqb_neq; congruence). rewrite Ne2.
    assert (Step2 : forall s4, s4 = update (remove s3 src) tS (File c) ->
              (read (run s4 m) dst = read s2 dst \/ read (run s4 m) dst = Some c)
              /\ (read (run s4 m) src = Some c \/ read (run s4 m) dst = Some c)).
    { intros s4 ->. set (s4 := update (remove s3 src) tS (File c)).
      assert (D4 : lookup s4 dst = Some (File c)).
      { unfold s4. rewrite lookup_update_neq by assumption. rewrite lookup_remove_neq by assumption. exact D3. }
      destruct m as [|u m]; [cbn; split; right; now apply Rd|].
      cbn in E. injection E as <- E. assert (m = []) as -> by (destruct m; [reflexivity | discriminate]).
      assert (A : apply s4 (SUnlink tS) = Some (remove s4 tS)) by (cbn [apply]; unfold s4; now rewrite lookup_update_eq).
      cbn [run]. rewrite A.
      split; right; apply Rd; rewrite lookup_remove_neq by assumption; exact D4. }
    destruct (lookup s3 tS) as [[x| |t]|]; try (now apply Step2).
    (* a directory sits at the source-side temporary: refused, the source is still in place *)
    cbn [run]. split; right; now apply Rd. }
  destruct (lookup s2 dst) as [[x| |t]|] eqn:LDst; try (now apply Step1).
  cbn [run]. split; [now left | left; exact Rs].
Qed.

Lemma move_crash : forall s src dst tD tS c pre suf,
  src <> dst -> tD <> src -> tD <> dst -> tS <> dst -> tS <> tD -> tS <> src ->
  read s src = Some c ->
  move_prog s src dst tD tS = pre ++ suf ->
  (read (run s pre) dst = read s dst \/ read (run s pre) dst = Some c)
  /\ (read (run s pre) src = Some c \/ read (run s pre) dst = Some c).
Proof.
  intros s src dst tD tS c pre suf N1 N2 N3 N4 N5 N6 Rs E. unfold move_prog in E. rewrite Rs in E.
  change (SCreatX tD :: write_steps tD c ++ [SRename tD dst; SRename src tS; SUnlink tS])
    with ((SCreatX tD :: write_steps tD c) ++ [SRename tD dst; SRename src tS; SUnlink tS]) in E.
  assert (Ls : lookup s src = Some (File c)).
  { unfold read in Rs. destruct (lookup s src) as [[x| |t]|]; inversion Rs; reflexivity. }
  destruct (app_split_cases _ _ _ _ E) as [[m [E1 _]] | [m [E1 E2]]].
  - (* still copying: only the destination-side temporary is touched *)
    assert (F : forall q, q <> tD -> lookup (run s pre) q = lookup s q).
    { intros q Hq. apply run_frame. apply (Forall_prefix _ pre m). rewrite <- E1. now apply move_head_frame. }
    split; left; [|rewrite <- Rs]; apply read_lookup_eq; apply F; congruence.
  - subst pre. destruct (move_head_run s tD c) as [F H].
    destruct (run_ok s (SCreatX tD :: write_steps tD c)) eqn:Ok.
    + rewrite run_app by assumption.
      set (s2 := run s (SCreatX tD :: write_steps tD c)) in *.
      assert (Rd : read s2 dst = read s dst) by (apply read_lookup_eq; apply F; congruence).
      rewrite <- Rd.
      apply move_tail with tD tS suf; auto. rewrite F by congruence. exact Ls.
    + rewrite run_app_fail by assumption.
      split; left; [|rewrite <- Rs]; apply read_lookup_eq; apply F; congruence.
Qed.

Lemma rename_result : forall s a b n s', lookup s a = Some n -> a <> b ->
  apply s (SRename a b) = Some s' -> s' = update (remove s a) b n.
Proof.
  intros s a b n s' L Ne H. cbn in H. rewrite L in H.
  assert (E : path_eqb a b = false) by now apply path_eqb_neq. rewrite E in H.
  destruct (lookup s b) as [[x| |t]|]; destruct n; inversion H; reflexivity.
Qed.

Lemma unlink_result : forall s p s', apply s (SUnlink p) = Some s' -> s' = remove s p.
Proof. intros s p s' H. cbn in H. destruct (lookup s p) as [[x| |t]|]; inversion H; reflexivity. Qed.

Lemma move_complete : forall s src dst tD tS c,
  src <> dst -> tD <> src -> tD <> dst -> tS <> dst -> tS <> tD -> tS <> src ->
  read s src = Some c ->
  run_ok s (move_prog s src dst tD tS) = true ->
  let s' := run s (move_prog s src dst tD tS) in
  read s' dst = Some c /\ lookup s' src = None /\ lookup s' tD = None /\ lookup s' tS = None.
Proof.
  intros s src dst tD tS c N1 N2 N3 N4 N5 N6 Rs Ok. unfold move_prog in *. rewrite Rs in *. cbn zeta.
  change (SCreatX tD :: write_steps tD c ++ [SRename tD dst; SRename src tS; SUnlink tS])
    with ((SCreatX tD :: write_steps tD c) ++ [SRename tD dst; SRename src tS; SUnlink tS]) in *.
  rewrite run_ok_app in Ok. apply andb_true_iff in Ok as [Ok1 Ok2].
  rewrite run_app by assumption.
  destruct (move_head_run s tD c) as [F H]. specialize (H Ok1).
  set (s2 := run s (SCreatX tD :: write_steps tD c)) in *.
  assert (Ls : lookup s2 src = Some (File c)).
  { rewrite F by congruence. unfold read in Rs. destruct (lookup s src) as [[x| |t]|]; inversion Rs; reflexivity. }
  cbn [run run_ok] in *.
  destruct (apply s2 (SRename tD dst)) as [s3|] eqn:A1; [|discriminate].
  destruct (apply s3 (SRename src tS)) as [s4|] eqn:A2; [|discriminate].
  destruct (apply s4 (SUnlink tS)) as [s5|] eqn:A3; [|discriminate].
  apply (rename_result s2 tD dst (File c)) in A1; [|assumption|assumption]. subst s3.
  assert (S3 : lookup (update (remove s2 tD) dst (File c)) src = Some (File c)).
  { rewrite lookup_update_neq by congruence. rewrite lookup_remove_neq by congruence. exact Ls. }
  apply (rename_result _ src tS (File c)) in A2; [|assumption|congruence]. subst s4.
  apply unlink_result in A3. subst s5.
  repeat split.
  - unfold read. rewrite lookup_remove_neq by assumption. rewrite lookup_update_neq by assumption.
    rewrite lookup_remove_neq by assumption. now rewrite lookup_update_eq.
  - rewrite lookup_remove_neq by assumption. rewrite lookup_update_neq by assumption. apply lookup_remove_eq.
  - rewrite lookup_remove_neq by assumption. rewrite lookup_update_neq by assumption.
    rewrite lookup_remove_neq by congruence. rewrite lookup_update_neq by congruence. apply lookup_remove_eq.
  - apply lookup_remove_eq.
Qed.

Lemma move_frame : forall s src dst tD tS pre suf q,
  move_prog s src dst tD tS = pre ++ suf -> q <> src -> q <> dst -> q <> tD -> q <> tS ->
  lookup (run s pre) q = lookup s q.
Proof.
  intros s src dst tD tS pre suf q E Q1 Q2 Q3 Q4. apply run_frame. apply (Forall_prefix _ pre suf). rewrite <- E.
  unfold move_prog. destruct (read s src) as [c|]; [|constructor].
  constructor; [cbn; intros [X|[]]; congruence|].
  apply Forall_app. split; [now apply write_steps_touch|].
  repeat constructor; cbn; intuition congruence.
Qed.

(** ---- faults while writing the temporary ---- *)
Lemma fault_untouched : forall s target o j pre suf,
  otmp o <> target -> prog_fault target o j = pre ++ suf ->
  read (run s pre) target = read s target.
Proof.
  intros s target o j pre suf Hne E. apply read_lookup_eq. apply run_frame.
  apply (Forall_prefix _ pre suf). rewrite <- E. unfold prog_fault.
  exact (head_frame (mkop (okind o) (otmp o) (firstn j (odata o))) target Hne).
Qed.

(** the rename is the last step, and the state it is applied to holds the COMPLETE data in the temporary *)
Lemma rename_after_full_write : forall s target o,
  let head := creat (okind o) (otmp o) :: write_steps (otmp o) (odata o) in
  prog target o = head ++ [SRename (otmp o) target]
  /\ (run_ok s head = true -> lookup (run s head) (otmp o) = Some (File (odata o))).
Proof.
  intros s target o head. split; [reflexivity|]. subst head. cbn [run run_ok].
  destruct (apply s (creat (okind o) (otmp o))) as [s1|] eqn:E1; [|discriminate]. intros _.
  destruct (apply_creat _ _ _ _ E1) as [L1 _].
  destruct (run_write_steps (odata o) s1 (otmp o) [] L1) as (_ & W2 & _). exact W2.
Qed.

(** a fault at any byte of the write, and a crash at any point of the faulty run: old content, never a prefix *)
Lemma fault_prefix_of_prog : forall target o j,
  exists rest, creat (okind o) (otmp o) :: write_steps (otmp o) (odata o) = prog_fault target o j ++ rest.
Proof.
  intros target o j. unfold prog_fault. exists (write_steps (otmp o) (skipn j (odata o))).
  cbn [app]. f_equal. unfold write_steps. rewrite <- map_app. now rewrite firstn_skipn.
Qed.

Lemma move_fault_untouched : forall s src dst tD j pre suf,
  tD <> src -> tD <> dst -> move_fault s src dst tD j = pre ++ suf ->
  read (run s pre) dst = read s dst /\ read (run s pre) src = read s src.
Proof.
  intros s src dst tD j pre suf N1 N2 E.
  assert (F : forall q, q <> tD -> lookup (run s pre) q = lookup s q).
  { intros q Hq. apply run_frame. apply (Forall_prefix _ pre suf). rewrite <- E. unfold move_fault.
    destruct (read s src) as [c|]; [|constructor]. now apply move_head_frame. }
  split; apply read_lookup_eq; apply F; congruence.
Qed.
