(** C52 property theorems (nothing else lives here; each is closed by [exact]).

    [prog target o] is the step list of one FilePath.setContent ([Exclusive]) or
    sob.Persistent.save ([Truncating]) replacing [target] with [odata o] through the temporary
    [otmp o]; a crash leaves the file system in [run s pre] for a prefix [pre] of the steps, where a
    write is one step per byte.  [read s p] is the content of the regular file at [p], if any.
    All statements hold for EVERY initial file system [s] (whatever exists at the temporary or the
    target), every content and every crash point; a step the kernel refuses ends the operation. *)
From Coq Require Import List NArith Bool.
From TwLib Require Import Fs.
From C52 Require Import Model Proofs.
Import ListNotations.

Theorem target_is_old_or_new_at_every_crash_point : forall s target o pre suf,
  otmp o <> target -> prog target o = pre ++ suf ->
  read (run s pre) target = read s target \/ read (run s pre) target = Some (odata o).
Proof. exact old_or_new. Qed.
Print Assumptions target_is_old_or_new_at_every_crash_point.

(** histories: after any number of completed replacements, a crash anywhere inside the next one
    leaves the content of the last completed one (the original if none) or the new content *)
Theorem target_is_last_completed_or_new_after_any_history : forall s target done cur pre suf,
  Forall (fun o => otmp o <> target) (done ++ [cur]) ->
  run_ok s (progs target done) = true ->
  prog target cur = pre ++ suf ->
  read (run s (progs target done ++ pre)) target = last_content s target done
  \/ read (run s (progs target done ++ pre)) target = Some (odata cur).
Proof. exact history_old_or_new. Qed.
Print Assumptions target_is_last_completed_or_new_after_any_history.

(** ... and with failing operations included: at every prefix of every history the target holds the
    original content or one of the contents written, never anything else *)
Theorem target_never_holds_a_partial_content : forall target ops s pre suf,
  Forall (fun o => otmp o <> target) ops ->
  progs target ops = pre ++ suf ->
  In (read (run s pre) target) (read s target :: map (fun o => Some (odata o)) ops).
Proof. exact history_in_contents. Qed.
Print Assumptions target_never_holds_a_partial_content.

(** a replacement that runs to completion installs the new content and leaves no temporary *)
Theorem completed_replacement_installs_new_content : forall s target o,
  otmp o <> target -> run_ok s (prog target o) = true ->
  read (run s (prog target o)) target = Some (odata o) /\ lookup (run s (prog target o)) (otmp o) = None.
Proof. exact completed_replacement. Qed.
Print Assumptions completed_replacement_installs_new_content.

(** only the target and the temporaries are ever modified, at every crash point *)
Theorem only_temporaries_left_behind : forall target ops s pre suf q,
  progs target ops = pre ++ suf -> q <> target -> ~ In q (map otmp ops) ->
  lookup (run s pre) q = lookup s q.
Proof. exact only_temporaries. Qed.
Print Assumptions only_temporaries_left_behind.

(** ---- FilePath.moveTo between file systems (os.rename answers EXDEV: copy to a temporary next to the
    destination, rename it into place, rename the source aside, remove it).  [src], [dst] and the two
    temporaries are distinct names; [c] is the source's content.  At EVERY crash point (partial copies
    of every length included): the destination holds its old content or the complete new one, and the
    content is never lost — it is still at the source or already at the destination. *)
Theorem cross_device_move_is_old_or_new_and_never_loses_the_content : forall s src dst tD tS c pre suf,
  src <> dst -> tD <> src -> tD <> dst -> tS <> dst -> tS <> tD -> tS <> src ->
  read s src = Some c ->
  move_prog s src dst tD tS = pre ++ suf ->
  (read (run s pre) dst = read s dst \/ read (run s pre) dst = Some c)
  /\ (read (run s pre) src = Some c \/ read (run s pre) dst = Some c).
Proof. exact move_crash. Qed.
Print Assumptions cross_device_move_is_old_or_new_and_never_loses_the_content.

Theorem completed_cross_device_move : forall s src dst tD tS c,
  src <> dst -> tD <> src -> tD <> dst -> tS <> dst -> tS <> tD -> tS <> src ->
  read s src = Some c ->
  run_ok s (move_prog s src dst tD tS) = true ->
  let s' := run s (move_prog s src dst tD tS) in
  read s' dst = Some c /\ lookup s' src = None /\ lookup s' tD = None /\ lookup s' tS = None.
Proof. exact move_complete. Qed.
Print Assumptions completed_cross_device_move.

Theorem cross_device_move_touches_nothing_else : forall s src dst tD tS pre suf q,
  move_prog s src dst tD tS = pre ++ suf -> q <> src -> q <> dst -> q <> tD -> q <> tS ->
  lookup (run s pre) q = lookup s q.
Proof. exact move_frame. Qed.
Print Assumptions cross_device_move_touches_nothing_else.

(** ---- operating-system faults (short write, then EFBIG/ENOSPC): [prog_fault target o j] is the run in
    which write(2) stored only the first j bytes and the operation then raised.  At every crash point of
    such a run, for every j, the target still holds its old content — never a prefix of the new one. *)
Theorem fault_while_writing_leaves_the_target_untouched : forall s target o j pre suf,
  otmp o <> target -> prog_fault target o j = pre ++ suf ->
  read (run s pre) target = read s target.
Proof. exact fault_untouched. Qed.
Print Assumptions fault_while_writing_leaves_the_target_untouched.

(** the rename is the program's last step and it is only reached in a state whose temporary holds the
    complete new content (so a run that could not write everything never renames) *)
Theorem rename_is_reached_only_after_the_full_write : forall s target o,
  let head := creat (okind o) (otmp o) :: write_steps (otmp o) (odata o) in
  prog target o = head ++ [SRename (otmp o) target]
  /\ (run_ok s head = true -> lookup (run s head) (otmp o) = Some (File (odata o))).
Proof. exact rename_after_full_write. Qed.
Print Assumptions rename_is_reached_only_after_the_full_write.

(** the same fault during the copy of a cross-device move: source and destination both untouched *)
Theorem fault_during_cross_device_copy_keeps_source_and_destination : forall s src dst tD j pre suf,
  tD <> src -> tD <> dst -> move_fault s src dst tD j = pre ++ suf ->
  read (run s pre) dst = read s dst /\ read (run s pre) src = read s src.
Proof. exact move_fault_untouched. Qed.
Print Assumptions fault_during_cross_device_copy_keeps_source_and_destination.
