(** C10 proofs.  Part 1: the boundary arithmetic of _scheduleFrom.  Part 2: the control invariant of
    LoopingCall over all histories that never call start() while a Deferred returned by f is unfired
    (the exact guard; without it the statements are false, see restart_refuted).  Part 3: withCount. *)
From Coq Require Import List Arith ZArith Bool Lia ZifyBool.
From C10 Require Import Model.
Import ListNotations.
Local Open Scope Z_scope.
Ltac Zify.zify_post_hook ::= Z.to_euclidean_division_equations.

(** ---- Part 1: arithmetic ---- *)
Lemma next_time_zero : forall st0 w, next_time st0 0 w = w.
Proof. reflexivity. Qed.

Lemma next_time_spec : forall st0 i w, 0 < i ->
  let t := next_time st0 i w in
  t = st0 + ((w - st0) / i + 1) * i /\ w < t /\ t <= w + i /\ (t - st0) mod i = 0.
Proof.
  intros st0 i w Hi t. unfold t, next_time.
  destruct (i =? 0) eqn:Ez; [apply Z.eqb_eq in Ez; lia|].
  assert (E : w + (i - (w - st0) mod i) = st0 + ((w - st0) / i + 1) * i) by nia.
  rewrite E. split; [reflexivity|]. split; [nia|]. split; [nia|].
  replace (st0 + ((w - st0) / i + 1) * i - st0) with (((w - st0) / i + 1) * i) by lia.
  apply Z.mod_mul. lia.
Qed.

(** ---- Part 2: control ---- *)
Definition done_of (e : ev) : list nat := match e with EDone g _ => [g] | _ => [] end.
Definition done_gens (l : list ev) : list nat := flat_map done_of l.

Definition good_ev (e : ev) : Prop :=
  match e with
  | ECall _ _ ov => ov = false
  | ESkip => True
  | ESched w st0 i t => (0 < i /\ t = st0 + ((w - st0) / i + 1) * i /\ w < t /\ t <= w + i) \/ (i = 0 /\ t = w)
  | EDoubleFire => False
  | _ => True
  end.

Record dinv (s : st) : Prop := mkD {
  d_nd : NoDup (dfired s);
  d_lt : forall g, In g (dfired s) -> (g < dgen s)%nat;
  d_cur : forall g, dcur s = Some g -> (g < dgen s)%nat /\ ~ In g (dfired s);
  d_all : forall g, (g < dgen s)%nat -> In g (dfired s) \/ dcur s = Some g;
  d_log : done_gens (log s) = dfired s
}.

Record Core (s : st) : Prop := mkCore {
  c_int : 0 <= interval s;
  c_d : dinv s;
  c_log : Forall good_ev (log s)
}.

(** between operations the loop is in one of three phases *)
Definition idle (s : st) : Prop :=
  running s = false /\ pend s = [] /\ call s = None /\ waiting s = [] /\ dcur s = None.
Definition scheduled (s : st) : Prop :=
  exists id t g, running s = true /\ pend s = [(id, t)] /\ call s = Some id /\ waiting s = [] /\ dcur s = Some g.
Definition awaiting (s : st) : Prop :=
  exists w g, pend s = [] /\ call s = None /\ waiting s = [w] /\ dcur s = Some g.
Definition phase (s : st) : Prop := idle s \/ scheduled s \/ awaiting s.

(** inside __call__, before f returns *)
Definition mid (s : st) : Prop :=
  running s = true /\ pend s = [] /\ call s = None /\ waiting s = [] /\ exists g, dcur s = Some g.

Definition Inv (s : st) : Prop := Core s /\ phase s.

Lemma Inv_init : Inv init.
Proof.
  split.
  - split; cbn; [lia | | constructor]. split; cbn; try constructor; intros; try tauto; try discriminate; lia.
  - left. repeat split.
Qed.

Lemma Core_emit : forall e s, good_ev e -> done_of e = [] -> Core s -> Core (emit e s).
Proof.
  intros e s Hg Hd [H1 [D1 D2 D3 D4 D5] H3]. split; cbn; auto.
  split; cbn; auto. unfold done_gens in *. cbn. rewrite Hd. exact D5.
Qed.

Lemma Core_same : forall s s',
  interval s' = interval s -> dfired s' = dfired s -> dcur s' = dcur s -> dgen s' = dgen s -> log s' = log s ->
  Core s -> Core s'.
Proof.
  intros s s' E1 E2 E3 E4 E5 [H1 [D1 D2 D3 D4 D5] H3].
  split; [rewrite E1; exact H1 | | rewrite E5; exact H3].
  split; rewrite ?E2, ?E3, ?E4, ?E5; auto.
Qed.

Lemma Core_set_epoch : forall st0 s, Core s -> Core (set_epoch st0 s).
Proof.
  intros st0 s [H1 [D1 D2 D3 D4 D5] H3]. split; cbn; auto; [|constructor; [exact I | exact H3]].
  split; cbn; auto.
Qed.

Lemma Core_schedule : forall w s, Core s -> Core (schedule w s).
Proof.
  intros w s H. unfold schedule. apply Core_emit.
  - cbn. pose proof (c_int _ H) as Hi. destruct (Z.eq_dec (interval s) 0) as [E0|E0].
    + right. rewrite E0. split; reflexivity.
    + left. assert (Hp : 0 < interval s) by lia.
      destruct (next_time_spec (start s) (interval s) w Hp) as [A [B [C _]]]. auto.
  - reflexivity.
  - eapply Core_same; [| | | | |exact H]; reflexivity.
Qed.

Lemma Core_fire : forall ok s g, Core s -> dcur s = Some g -> Core (fire_deferred ok s) /\ dcur (fire_deferred ok s) = None.
Proof.
  intros ok s g [H1 [D1 D2 D3 D4 D5] H3] Hg. unfold fire_deferred. rewrite Hg.
  destruct (D3 g Hg) as [Hlt Hnin].
  assert (Hex : existsb (Nat.eqb g) (dfired s) = false).
  { destruct (existsb (Nat.eqb g) (dfired s)) eqn:E; [|reflexivity]. apply existsb_exists in E.
    destruct E as [x [Hx Ex]]. apply Nat.eqb_eq in Ex. subst. contradiction. }
  rewrite Hex. split; [|reflexivity]. split; cbn; auto.
  - split; cbn.
    + constructor; assumption.
    + intros g' [<-|Hin]; auto.
    + intros g' Hd. discriminate.
    + intros g' Hlt'. destruct (D4 g' Hlt') as [Hin|Hc]; [left; right; exact Hin|].
      rewrite Hg in Hc. inversion Hc. left. left. reflexivity.
    + unfold done_gens in *. cbn. rewrite D5. reflexivity.
  - constructor; [exact I | exact H3].
Qed.

(** cb / eb / stop from inside or after f *)
Lemma cb_running : forall s, Core s -> mid s -> Inv (cb s).
Proof.
  intros s H [M1 [M2 [M3 [M4 [g M5]]]]]. unfold cb. rewrite M1. split; [apply Core_schedule; exact H|].
  right. left. unfold scheduled, schedule. cbn. rewrite M2. cbn. exists (nextid s), (next_time (start s) (interval s) (now s)), g.
  repeat split; auto.
Qed.

Lemma cb_stopped : forall s g, Core s ->
  running s = false -> pend s = [] -> call s = None -> waiting s = [] -> dcur s = Some g -> Inv (cb s).
Proof.
  intros s g H M1 M2 M3 M4 M5. unfold cb. rewrite M1.
  destruct (Core_fire true s g H M5) as [HC Hd]. split; [exact HC|].
  left. unfold idle. unfold fire_deferred in *. rewrite M5 in *. cbn in *. repeat split; auto.
Qed.

Lemma eb_any : forall s g, Core s ->
  pend s = [] -> call s = None -> waiting s = [] -> dcur s = Some g -> Inv (eb s).
Proof.
  intros s g H M2 M3 M4 M5. unfold eb.
  assert (HC : Core (set_running false s)) by (eapply Core_same; [| | | | |exact H]; reflexivity).
  destruct (Core_fire false (set_running false s) g HC M5) as [HC' Hd]. split; [exact HC'|].
  left. unfold idle. unfold fire_deferred in *. cbn in *. rewrite M5 in *. cbn in *. repeat split; auto.
Qed.

Section WithBeh.
  Variable beh : nat -> fbeh.
  (** second guard: f never does stop() + start() itself (known finding restart-inside-call) *)
  Hypothesis no_restart : forall k, beh k <> FRestartRet.
  Variable with_count : bool.

  Lemma run_f_mid : forall s, Core s -> mid s -> Inv (run_f beh s).
  Proof.
    intros s H [M1 [M2 [M3 [M4 [g M5]]]]]. unfold run_f.
    set (s1 := emit (ECall (ncalls s) (now s) (has_waiting s))
                 (mkSt (now s) (started s) (start s) (interval s) (runAtStart s) (running s) (pend s) (nextid s)
                       (call s) (waiting s) (dgen s) (dcur s) (dfired s) (realLast s) (S (ncalls s)) (wasreset s) (log s))).
    assert (HC : Core s1).
    { unfold s1. apply Core_emit; [cbn; unfold has_waiting; rewrite M4; reflexivity | reflexivity|].
      eapply Core_same; [| | | | |exact H]; reflexivity. }
    assert (Hm : mid s1) by (unfold mid, s1; cbn; repeat split; eauto).
    destruct (beh (ncalls s)) eqn:Eb; [| | | | | |exfalso; exact (no_restart _ Eb)].
    - apply cb_running; assumption.
    - apply (eb_any s1 g); auto.
    - split; [eapply Core_same; [| | | | |exact HC]; reflexivity|].
      right. right. exists (dgen s1), g. cbn. rewrite M4. repeat split; auto.
    - unfold do_stop. cbn [running s1 emit]. rewrite M1. cbn [call s1 emit]. rewrite M3.
      apply (cb_stopped _ g); cbn; auto. eapply Core_same; [| | | | |exact HC]; reflexivity.
    - unfold do_stop. cbn [running s1 emit]. rewrite M1. cbn [call s1 emit]. rewrite M3.
      split; [eapply Core_same; [| | | | |exact HC]; reflexivity|].
      right. right. exists (dgen s), g. cbn. rewrite M4. repeat split; auto.
    - unfold do_reset. cbn [running s1 emit]. rewrite M1. cbn [call s1 emit]. rewrite M3.
      apply cb_running; assumption.
  Qed.

  Lemma invoke_mid : forall s, Core s ->
    running s = true -> pend s = [] -> waiting s = [] -> (exists g, dcur s = Some g) -> Inv (invoke beh with_count s).
  Proof.
    intros s H M1 M2 M4 [g M5]. unfold invoke.
    set (s1 := set_clock (pend s) (nextid s) None s).
    assert (HC : Core s1) by (eapply Core_same; [| | | | |exact H]; reflexivity).
    assert (Hm : mid s1) by (unfold mid, s1; cbn; repeat split; eauto).
    destruct (with_count && (interval s1 =? 0))%bool.
    { apply run_f_mid.
      + apply Core_emit; [exact I | reflexivity|]. eapply Core_same; [| | | | |exact HC]; reflexivity.
      + unfold mid in *. cbn in *. exact Hm. }
    destruct with_count; [|apply run_f_mid; assumption].
    match goal with |- context [if ?c then _ else _] => destruct c end.
    - apply run_f_mid.
      + apply Core_emit; [exact I | reflexivity|]. eapply Core_same; [| | | | |exact HC]; reflexivity.
      + unfold mid in *. cbn in *. exact Hm.
    - apply cb_running.
      + apply Core_emit; [exact I | reflexivity | exact HC].
      + unfold mid in *. cbn in *. exact Hm.
  Qed.

  (** the exact guard: start() is never called while a Deferred returned by f is unfired *)
  Definition restart_ok (s : st) (o : op) : Prop :=
    match o with Start _ _ => waiting s = [] | _ => True end.

  Lemma Inv_step : forall s o, Inv s -> restart_ok s o -> Inv (step beh with_count s o).
  Proof.
    intros s o [HC Hp] Hok. destruct o as [i b|a|ok| |]; cbn [step].
    - (* start *)
      cbn in Hok.
      destruct (running s || (i <? 0)) eqn:E.
      { split; [apply Core_emit; auto; exact I|]. destruct Hp as [Hp|[Hp|Hp]].
        - left. unfold idle in *. cbn. exact Hp.
        - right. left. unfold scheduled in *. cbn. exact Hp.
        - right. right. unfold awaiting in *. cbn. exact Hp. }
      apply orb_false_iff in E. destruct E as [Er Ei]. apply Z.ltb_ge in Ei.
      destruct Hp as [Hp|[Hp|Hp]].
      + destruct Hp as [P1 [P2 [P3 [P4 P5]]]].
        set (s1 := begin_loop i b s).
        assert (HC1 : Core s1).
        { destruct HC as [H1 [D1 D2 D3 D4 D5] H3]. split; cbn; auto; [|constructor; [exact I | exact H3]].
          split; cbn; auto.
          - intros g Hin. specialize (D2 g Hin). lia.
          - intros g Hg. inversion Hg; subst. split; [lia|]. intros Hin. specialize (D2 _ Hin). lia.
          - intros g Hlt. destruct (Nat.eq_dec g (dgen s)) as [->|Hne]; [right; reflexivity|].
            destruct (D4 g ltac:(lia)) as [Hin|Hc]; [left; exact Hin|]. rewrite P5 in Hc. discriminate. }
        destruct b.
        * apply invoke_mid; cbn; eauto.
        * split; [apply Core_schedule; exact HC1|].
          right. left. unfold scheduled, schedule. cbn. rewrite P2. cbn.
          exists (nextid s), (next_time (now s) i (now s)), (dgen s). repeat split; auto.
      + destruct Hp as [id [t [g [P1 _]]]]. congruence.
      + destruct Hp as [w [g [_ [_ [P4 _]]]]]. congruence.
    - (* advance *)
      unfold fire_due. cbn [set_now now pend].
      destruct Hp as [Hp|[Hp|Hp]].
      + destruct Hp as [P1 [P2 [P3 [P4 P5]]]]. rewrite P2. cbn.
        split; [eapply Core_same; [| | | | |exact HC]; reflexivity|]. left. unfold idle. cbn. auto.
      + destruct Hp as [id [t [g [P1 [P2 [P3 [P4 P5]]]]]]]. rewrite P2. cbn [due_prefix snd].
        destruct (t <=? now s + a).
        * cbn [fold_left fst]. apply invoke_mid; cbn; eauto.
          { eapply Core_same; [| | | | |exact HC]; reflexivity. }
          { rewrite P2. cbn. rewrite Nat.eqb_refl. reflexivity. }
        * cbn. split; [eapply Core_same; [| | | | |exact HC]; reflexivity|].
          right. left. exists id, t, g. cbn. auto.
      + destruct Hp as [w [g [P2 [P3 [P4 P5]]]]]. rewrite P2. cbn.
        split; [eapply Core_same; [| | | | |exact HC]; reflexivity|]. right. right. exists w, g. cbn. auto.
    - (* fire *)
      destruct Hp as [Hp|[Hp|Hp]].
      + destruct Hp as [P1 [P2 [P3 [P4 P5]]]]. rewrite P4.
        split; [apply Core_emit; auto; exact I|]. left. unfold idle. cbn. auto.
      + destruct Hp as [id [t [g [P1 [P2 [P3 [P4 P5]]]]]]]. rewrite P4.
        split; [apply Core_emit; auto; exact I|]. right. left. exists id, t, g. cbn. auto.
      + destruct Hp as [w [g [P2 [P3 [P4 P5]]]]]. rewrite P4.
        assert (HC1 : Core (set_waiting [] s)) by (eapply Core_same; [| | | | |exact HC]; reflexivity).
        destruct ok.
        * destruct (running s) eqn:Er.
          { apply cb_running; [exact HC1|]. unfold mid. cbn. repeat split; eauto. }
          { apply (cb_stopped _ g); cbn; auto. }
        * apply (eb_any _ g); cbn; auto.
    - (* stop *)
      unfold do_stop. destruct Hp as [Hp|[Hp|Hp]].
      + destruct Hp as [P1 [P2 [P3 [P4 P5]]]]. rewrite P1.
        split; [apply Core_emit; auto; exact I|]. left. unfold idle. cbn. auto.
      + destruct Hp as [id [t [g [P1 [P2 [P3 [P4 P5]]]]]]]. rewrite P1, P3.
        set (s1 := set_clock (remove_call id (pend s)) (nextid s) None (set_running false s)).
        assert (HC1 : Core s1) by (eapply Core_same; [| | | | |exact HC]; reflexivity).
        destruct (Core_fire true s1 g HC1 P5) as [HC2 Hd]. split; [exact HC2|].
        left. unfold idle, fire_deferred in *. cbn in *. rewrite P5 in *. cbn in *. rewrite P2. cbn.
        rewrite Nat.eqb_refl. repeat split; auto.
      + destruct Hp as [w [g [P2 [P3 [P4 P5]]]]]. destruct (running s) eqn:Er.
        * rewrite P3. split; [eapply Core_same; [| | | | |exact HC]; reflexivity|].
          right. right. exists w, g. cbn. auto.
        * split; [apply Core_emit; auto; exact I|]. right. right. exists w, g. cbn. auto.
    - (* reset *)
      unfold do_reset. destruct Hp as [Hp|[Hp|Hp]].
      + destruct Hp as [P1 [P2 [P3 [P4 P5]]]]. rewrite P1.
        split; [apply Core_emit; auto; exact I|]. left. unfold idle. cbn. auto.
      + destruct Hp as [id [t [g [P1 [P2 [P3 [P4 P5]]]]]]]. rewrite P1, P3.
        split.
        * apply Core_schedule. apply Core_set_epoch. eapply Core_same; [| | | | |exact HC]; reflexivity.
        * right. left. unfold scheduled, schedule. cbn. rewrite P2. cbn. rewrite Nat.eqb_refl. cbn.
          eexists _, _, g. repeat split; eauto.
      + destruct Hp as [w [g [P2 [P3 [P4 P5]]]]]. destruct (running s) eqn:Er.
        * rewrite P3. split; [exact HC|]. right. right. exists w, g. auto.
        * split; [apply Core_emit; auto; exact I|]. right. right. exists w, g. cbn. auto.
  Qed.

  Lemma Inv_snap : forall s, Inv s -> Inv (snap s).
  Proof.
    intros s [HC Hp]. unfold snap. split; [apply Core_emit; auto; exact I|].
    destruct Hp as [Hp|[Hp|Hp]]; [left | right; left | right; right]; exact Hp.
  Qed.

  (** histories that respect the guard *)
  Fixpoint run_ok (s : st) (ops : list op) : Prop :=
    match ops with
    | [] => True
    | o :: r => restart_ok s o /\ run_ok (snap (step beh with_count s o)) r
    end.

  Lemma Inv_run : forall ops s, Inv s -> run_ok s ops -> Inv (run beh with_count s ops).
  Proof.
    induction ops as [|o r IH]; cbn; intros s H Hok; [exact H|].
    destruct Hok as [H1 H2]. apply IH; [|exact H2]. apply Inv_snap. apply Inv_step; assumption.
  Qed.

  Lemma reach_Inv : forall ops, run_ok init ops -> Inv (run beh with_count init ops).
  Proof. intros. apply Inv_run; [apply Inv_init | assumption]. Qed.

  (** ---- statements exported by Property.v ---- *)
  Lemma reach_no_overlap : forall ops, run_ok init ops ->
    forall k n ov, In (ECall k n ov) (log (run beh with_count init ops)) -> ov = false.
  Proof.
    intros ops Hok k n ov Hin. destruct (reach_Inv ops Hok) as [[_ _ Hl] _].
    rewrite Forall_forall in Hl. exact (Hl _ Hin).
  Qed.

  Lemma reach_sched : forall ops, run_ok init ops ->
    forall w st0 i t, In (ESched w st0 i t) (log (run beh with_count init ops)) ->
    (0 < i /\ t = st0 + ((w - st0) / i + 1) * i /\ w < t /\ t <= w + i) \/ (i = 0 /\ t = w).
  Proof.
    intros ops Hok w st0 i t Hin. destruct (reach_Inv ops Hok) as [[_ _ Hl] _].
    rewrite Forall_forall in Hl. exact (Hl _ Hin).
  Qed.

  Lemma reach_deferred : forall ops, run_ok init ops ->
    let s := run beh with_count init ops in
    NoDup (done_gens (log s)) /\ ~ In EDoubleFire (log s)
    /\ (running s = false -> waiting s = [] -> forall g, (g < dgen s)%nat -> In g (done_gens (log s))).
  Proof.
    intros ops Hok s. destruct (reach_Inv ops Hok) as [[_ [D1 D2 D3 D4 D5] Hl] Hp]. fold s in D1, D2, D3, D4, D5, Hl, Hp.
    split; [rewrite D5; exact D1|]. split.
    - intros Hin. rewrite Forall_forall in Hl. exact (Hl _ Hin).
    - intros Hr Hw g Hlt. rewrite D5. destruct (D4 g Hlt) as [Hin|Hc]; [exact Hin|].
      destruct Hp as [Hp|[Hp|Hp]].
      + destruct Hp as [_ [_ [_ [_ P5]]]]. congruence.
      + destruct Hp as [id [t [g' [P1 _]]]]. congruence.
      + destruct Hp as [w [g' [_ [_ [P4 _]]]]]. congruence.
  Qed.

  (** when self._deferred is None -- in particular at the moment a start() Deferred has just fired, which is the
      last action of stop() / cb / eb -- the loop is idle: a start() issued by that Deferred's callback finds
      exactly the state a start() issued afterwards by the test program finds *)
  Lemma reach_done_idle : forall ops, run_ok init ops ->
    let s := run beh with_count init ops in dcur s = None -> idle s.
  Proof.
    intros ops Hok s Hd. destruct (reach_Inv ops Hok) as [_ Hp]. fold s in Hp.
    destruct Hp as [Hp|[Hp|Hp]]; [exact Hp| |].
    - destruct Hp as [id [t [g [_ [_ [_ [_ P5]]]]]]]. congruence.
    - destruct Hp as [w [g [_ [_ [_ P5]]]]]. congruence.
  Qed.

  (** once the loop is over (stopped or failed, nothing outstanding) nothing is scheduled and f is not
      called again by any operation other than a new start() *)
  Lemma reach_quiet : forall ops, run_ok init ops ->
    let s := run beh with_count init ops in
    running s = false -> waiting s = [] ->
    pend s = [] /\ forall o, (forall i b, o <> Start i b) -> ncalls (step beh with_count s o) = ncalls s.
  Proof.
    intros ops Hok s Hr Hw. destruct (reach_Inv ops Hok) as [_ Hp]. fold s in Hp.
    assert (Hi : idle s).
    { destruct Hp as [Hp|[Hp|Hp]]; [exact Hp| |].
      - destruct Hp as [id [t [g' [P1 _]]]]. congruence.
      - destruct Hp as [w [g' [_ [_ [P4 _]]]]]. congruence. }
    destruct Hi as [P1 [P2 [P3 [P4 P5]]]]. split; [exact P2|].
    intros o Hns. destruct o as [i b|a|ok| |]; cbn [step].
    - exfalso. apply (Hns i b). reflexivity.
    - unfold fire_due. cbn. rewrite P2. reflexivity.
    - rewrite P4. reflexivity.
    - unfold do_stop. rewrite P1. reflexivity.
    - unfold do_reset. rewrite P1. reflexivity.
  Qed.
End WithBeh.

(** ---- the guard is needed: start() on a stopped loop whose last invocation's Deferred is unfired ---- *)
Definition restart_ops : list op := [Start 1 true; Stop; Start 1 true; Fire true; Fire true; Advance 1].
Definition restart_beh (k : nat) : fbeh := match k with 0%nat | 1%nat => FDefer | _ => FRet end.

Lemma restart_witness :
  let s := run restart_beh false init restart_ops in
  In (ECall 1 0 true) (log s)                 (* f called while the first call's Deferred is unfired *)
  /\ ~ In 0%nat (done_gens (log s))           (* the first start() Deferred has not fired ... *)
  /\ dcur s = Some 1%nat /\ waiting s = []    (* ... and nothing refers to it any more *)
  /\ map snd (pend s) = [2; 2].               (* two timer chains now run side by side *)
Proof. vm_compute. split; [do 10 right; left; reflexivity|]. split; [tauto|]. repeat split. Qed.

Ltac sst := cbn [now started start interval runAtStart running pend nextid call waiting dgen dcur dfired realLast
                  ncalls wasreset log emit set_running set_clock set_waiting set_now set_epoch set_last].

(** ---- Part 3: withCount ---- *)
Definition count_of (e : ev) : list Z := match e with ECount n => [n] | _ => [] end.
Definition csum (l : list ev) : Z := fold_right Z.add 0 (flat_map count_of l).
Definition count_ok (e : ev) : Prop := match e with ECount n => 1 <= n | ESkip => False | _ => True end.

(** counts passed since the current epoch began (the last start()/reset()), and the base recorded there *)
Fixpoint esum (l : list ev) : Z :=
  match l with
  | [] => 0
  | EEpoch _ :: _ => 0
  | ECount n :: r => n + esum r
  | _ :: r => esum r
  end.
Fixpoint ebase (l : list ev) : Z :=
  match l with
  | [] => 0
  | EEpoch b :: _ => b
  | _ :: r => ebase r
  end.

Definition quiet (e : ev) : bool := match e with ECount _ | EEpoch _ => false | _ => true end.

Lemma quiet_cons : forall e l, quiet e = true ->
  esum (e :: l) = esum l /\ ebase (e :: l) = ebase l /\ csum (e :: l) = csum l.
Proof. intros e l H. destruct e; try discriminate; repeat split. Qed.

Lemma csum_count : forall n l, csum (ECount n :: l) = n + csum l.
Proof. reflexivity. Qed.

Record CI (s : st) : Prop := mkCI {
  ci_last : forall l, realLast s = Some l -> l <= now s;
  ci_start : started s = true -> start s <= now s;
  ci_law : started s = true -> 0 < interval s ->
           esum (log s) = lastidx s - ebase (log s)
           /\ (forall id t, In (id, t) (pend s) -> lastidx s < (t - start s) / interval s);
  ci_ok : Forall count_ok (log s);
  ci_first : wasreset s = false -> started s = true ->
             ebase (log s) = (if runAtStart s then -1 else 0) /\ (forall l, realLast s = Some l -> start s <= l);
  ci_ns : started s = false -> realLast s = None
}.

Lemma CI_frame : forall s s',
  log s' = log s -> started s' = started s -> wasreset s' = wasreset s -> start s' = start s -> now s' = now s ->
  interval s' = interval s -> runAtStart s' = runAtStart s -> realLast s' = realLast s -> dgen s' = dgen s ->
  (forall x, In x (pend s') -> In x (pend s)) ->
  CI s -> CI s'.
Proof.
  intros s s' E1 E2 E3 E4 E5 E6 E7 E8 E9 Hsub [A B C D E F].
  split; unfold lastidx in *; rewrite ?E1, ?E2, ?E3, ?E4, ?E5, ?E6, ?E7, ?E8, ?E9; auto.
  intros Hs Hi. destruct (C Hs Hi) as [C1 C2]. split; [exact C1|].
  intros id t Hin. apply (C2 id t). apply Hsub. exact Hin.
Qed.

Lemma CI_emit : forall e s, quiet e = true -> count_ok e -> CI s -> CI (emit e s).
Proof.
  intros e s Hq Hok [A B C D E F]. destruct (quiet_cons e (log s) Hq) as [Q1 [Q2 Q3]].
  split; unfold lastidx in *; sst; rewrite ?Q1, ?Q2, ?Q3; auto.
Qed.

Lemma remove_call_sub : forall i l x, In x (remove_call i l) -> In x l.
Proof.
  intros i l. induction l as [|y r IH]; cbn; intros x H; [exact H|].
  destruct (Nat.eqb (fst y) i); [right; exact H|]. destruct H as [H|H]; [left; exact H | right; apply IH; exact H].
Qed.

Lemma insert_call_in : forall x l y, In y (insert_call x l) -> y = x \/ In y l.
Proof.
  intros x l. induction l as [|z r IH]; cbn; intros y H.
  - destruct H as [H|[]]; auto.
  - destruct (snd z <=? snd x); cbn in H.
    + destruct H as [H|H]; [right; left; exact H|]. destruct (IH _ H); auto.
    + destruct H as [H|[H|H]]; auto.
Qed.

Lemma quot_le_div : forall l st0 w i, 0 < i -> l <= w -> st0 <= w -> Z.quot (l - st0) i <= (w - st0) / i.
Proof.
  intros l st0 w i Hi Hl Hs. destruct (Z_le_gt_dec st0 l) as [Hge|Hlt].
  - rewrite Z.quot_div_nonneg by lia. apply Z.div_le_mono; lia.
  - assert (H0 : 0 <= (w - st0) / i) by (apply Z.div_pos; lia).
    replace (l - st0) with (- (st0 - l)) by lia. rewrite Z.quot_opp_l by lia.
    assert (0 <= Z.quot (st0 - l) i) by (apply Z.quot_pos; lia). lia.
Qed.

Lemma lastidx_le_now : forall s, 0 < interval s -> start s <= now s ->
  (forall l, realLast s = Some l -> l <= now s) -> lastidx s <= (now s - start s) / interval s.
Proof.
  intros s Hi Hn Hl. unfold lastidx, lastidx_at. destruct (realLast s) as [l|].
  - apply quot_le_div; auto.
  - assert (0 <= (now s - start s) / interval s) by (apply Z.div_pos; lia). destruct (runAtStart s); lia.
Qed.

(** _scheduleFrom(now) on a started loop *)
Lemma CI_schedule : forall s, started s = true -> CI s -> CI (schedule (now s) s).
Proof.
  intros s Hst H. unfold schedule. apply CI_emit; [reflexivity | exact I|].
  destruct H as [A B C D E F]. split; unfold lastidx in *; sst; auto.
  intros _ Hi. destruct (C Hst Hi) as [C1 C2]. split; [exact C1|].
  intros id t Hin. apply insert_call_in in Hin. destruct Hin as [Hin|Hin]; [|apply (C2 id t); exact Hin].
  inversion Hin; subst.
  destruct (next_time_spec (start s) (interval s) (now s) Hi) as [En _]. cbn in En. rewrite En.
  replace (start s + ((now s - start s) / interval s + 1) * interval s - start s)
    with (((now s - start s) / interval s + 1) * interval s) by lia.
  rewrite Z.div_mul by lia.
  pose proof (lastidx_le_now s Hi (B Hst) A) as Hle. unfold lastidx in Hle. lia.
Qed.

Lemma CI_fire : forall ok s, CI s -> CI (fire_deferred ok s).
Proof.
  intros ok s H. unfold fire_deferred. destruct (dcur s) as [g|]; [|apply CI_emit; auto; exact I].
  set (e := if existsb (Nat.eqb g) (dfired s) then EDoubleFire else EDone g ok).
  assert (Hq : quiet e = true) by (unfold e; destruct (existsb _ _); reflexivity).
  assert (Hok : count_ok e) by (unfold e; destruct (existsb _ _); exact I).
  destruct (quiet_cons e (log s) Hq) as [Q1 [Q2 Q3]].
  destruct H as [A B C D E F]. split; unfold lastidx in *; sst; rewrite ?Q1, ?Q2, ?Q3; auto.
Qed.

Lemma CI_cb : forall s, started s = true -> CI s -> CI (cb s).
Proof. intros s Hst H. unfold cb. destruct (running s); [apply CI_schedule | apply CI_fire]; assumption. Qed.

Lemma CI_eb : forall s, CI s -> CI (eb s).
Proof.
  intros s H. unfold eb. apply CI_fire. eapply CI_frame; [| | | | | | | | | |exact H]; try reflexivity. auto.
Qed.

Lemma CI_do_stop : forall s, CI s -> CI (do_stop s).
Proof.
  intros s H. unfold do_stop. destruct (running s); [|apply CI_emit; auto; exact I].
  destruct (call s).
  - apply CI_fire. eapply CI_frame; [| | | | | | | | | |exact H]; try reflexivity. cbn. apply remove_call_sub.
  - eapply CI_frame; [| | | | | | | | | |exact H]; try reflexivity. auto.
Qed.

(** reset(): a new epoch begins; the counts start again from the base recorded in EEpoch *)
Lemma CI_do_reset : forall s, started s = true ->
  (forall i, call s = Some i -> remove_call i (pend s) = []) -> CI s -> CI (do_reset s).
Proof.
  intros s Hst Hone H. unfold do_reset. destruct (running s); [|apply CI_emit; auto; exact I].
  destruct (call s) as [i|] eqn:Ec; [|exact H].
  apply (CI_schedule (set_epoch (now s) (set_clock (remove_call i (pend s)) (nextid s) None s))); [exact Hst|].
  specialize (Hone i eq_refl).
  destruct H as [A B C D E F]. apply mkCI; unfold lastidx in *; sst.
  - exact A.
  - intros _. lia.
  - intros _ Hi. cbn [esum ebase]. split; [lia|]. rewrite Hone. intros id t [].
  - constructor; [exact I | exact D].
  - intros; discriminate.
  - intros Hs. congruence.
Qed.

Lemma do_stop_frame : forall s, interval (do_stop s) = interval s /\ started (do_stop s) = started s.
Proof.
  intros s. unfold do_stop. destruct (running s); [destruct (call s)|]; try (split; reflexivity).
  unfold fire_deferred. destruct (dcur _); split; reflexivity.
Qed.

Lemma do_reset_frame : forall s, started (do_reset s) = started s.
Proof. intros s. unfold do_reset. destruct (running s); [destruct (call s)|]; reflexivity. Qed.

Section Counts.
  Variable beh : nat -> fbeh.
  Hypothesis no_restart : forall k, beh k <> FRestartRet.

  (** f is called from inside __call__ (self.call is None there) *)
  Lemma CI_run_f : forall s, started s = true -> call s = None -> CI s -> CI (run_f beh s).
  Proof.
    intros s Hst Hc H. unfold run_f.
    set (s1 := emit _ _).
    assert (H1 : CI s1).
    { unfold s1. apply CI_emit; [reflexivity | exact I|].
      eapply CI_frame; [| | | | | | | | | |exact H]; try reflexivity. auto. }
    assert (Hst1 : started s1 = true) by exact Hst.
    assert (Hc1 : call s1 = None) by exact Hc.
    destruct (beh (ncalls s)) eqn:Eb; [| | | | | |exfalso; exact (no_restart _ Eb)].
    - apply CI_cb; assumption.
    - apply CI_eb; assumption.
    - eapply CI_frame; [| | | | | | | | | |exact H1]; try reflexivity. auto.
    - apply CI_cb; [rewrite (proj2 (do_stop_frame s1)); exact Hst1 | apply CI_do_stop; exact H1].
    - pose proof (CI_do_stop s1 H1) as H2.
      eapply CI_frame; [| | | | | | | | | |exact H2]; try reflexivity. auto.
    - apply CI_cb; [rewrite do_reset_frame; exact Hst1|].
      apply CI_do_reset; [exact Hst1 | rewrite Hc1; intros i Hi; discriminate | exact H1].
  Qed.

  (** __call__, when nothing else is pending and a boundary has been passed since the last counted call
      (or this is the immediate first call) *)
  Lemma CI_invoke : forall wc s, 0 <= interval s -> started s = true -> pend s = [] -> CI s ->
    (0 < interval s -> lastidx s < (now s - start s) / interval s) ->
    CI (invoke beh wc s).
  Proof.
    intros wc s Hi0 Hst Hp H Hdue. unfold invoke.
    set (s1 := set_clock (pend s) (nextid s) None s).
    assert (H1 : CI s1) by (eapply CI_frame; [| | | | | | | | | |exact H]; try reflexivity; auto).
    destruct H as [A B C D E F]. pose proof (B Hst) as Hn.
    assert (Hcounted : forall n, 1 <= n ->
              (0 < interval s -> n = (now s - start s) / interval s - lastidx s) ->
              CI (emit (ECount n) (set_last (now s1) s1))).
    { intros n Hn1 Hlaw. apply mkCI; unfold lastidx in *; subst s1; sst.
      - intros l Hl. inversion Hl; subst. lia.
      - exact B.
      - intros _ Hi. cbn [esum ebase lastidx_at]. rewrite Hp. destruct (C Hst Hi) as [C1 _].
        rewrite (Z.quot_div_nonneg (now s - start s) (interval s)) by lia.
        specialize (Hlaw Hi). split; [lia|]. intros id t [].
      - constructor; [exact Hn1 | exact D].
      - intros Hw Hs. destruct (E Hw Hs) as [E1 E3]. cbn [ebase].
        split; [exact E1|]. intros l Hl. inversion Hl; subst. exact Hn.
      - intros Hs. congruence. }
    destruct (wc && (interval s1 =? 0))%bool eqn:Ez.
    { apply andb_true_iff in Ez. destruct Ez as [_ Ez]. apply Z.eqb_eq in Ez. cbn in Ez.
      apply CI_run_f; [exact Hst | reflexivity|]. apply Hcounted; [lia | intros Hi; lia]. }
    destruct wc; [|apply CI_run_f; [exact Hst | reflexivity | exact H1]].
    cbn [andb] in Ez. apply Z.eqb_neq in Ez. cbn in Ez.
    assert (Hi : 0 < interval s) by lia.
    assert (Ecount : interval_of s1 (now s1)
                     - interval_of s1 (match realLast s1 with
                                       | Some l => l
                                       | None => if runAtStart s1 then start s1 - interval s1 else start s1
                                       end)
                     = (now s - start s) / interval s - lastidx s).
    { unfold interval_of, lastidx, lastidx_at. cbn.
      rewrite (Z.quot_div_nonneg (now s - start s) (interval s)) by lia.
      destruct (realLast s) as [l|] eqn:El; [reflexivity|].
      destruct (runAtStart s).
      + replace (start s - interval s - start s) with (- interval s) by lia.
        rewrite Z.quot_opp_l by lia. rewrite Z.quot_same by lia. reflexivity.
      + replace (start s - start s) with 0 by lia. rewrite Z.quot_0_l by lia. reflexivity. }
    rewrite Ecount. specialize (Hdue Hi).
    destruct (0 <? (now s - start s) / interval s - lastidx s) eqn:Ec.
    - apply Z.ltb_lt in Ec. apply CI_run_f; [exact Hst | reflexivity|]. apply Hcounted; [lia | auto].
    - (* count <= 0 cannot happen: a boundary has been passed *)
      apply Z.ltb_ge in Ec. exfalso. lia.
  Qed.
End Counts.

Section Counts2.
  Variable beh : nat -> fbeh.
  Hypothesis no_restart : forall k, beh k <> FRestartRet.

  Definition nonneg_adv (o : op) : Prop := match o with Advance a => 0 <= a | _ => True end.

  (** [started] and [dgen] are only ever changed by start() *)
  Lemma started_fire : forall ok x, started (fire_deferred ok x) = started x.
  Proof. intros. unfold fire_deferred. destruct (dcur x); reflexivity. Qed.
  Lemma started_cb : forall x, started (cb x) = started x.
  Proof. intros. unfold cb, schedule. destruct (running x); [reflexivity | apply started_fire]. Qed.
  Lemma started_eb : forall x, started (eb x) = started x.
  Proof. intros. unfold eb. rewrite started_fire. reflexivity. Qed.
  Lemma started_run_f : forall x, started (run_f beh x) = started x.
  Proof.
    intros. unfold run_f. destruct (beh (ncalls x)) eqn:Eb; cbn; [| | | | | |exfalso; exact (no_restart _ Eb)].
    - rewrite started_cb. reflexivity.
    - rewrite started_eb. reflexivity.
    - reflexivity.
    - rewrite started_cb, (proj2 (do_stop_frame _)). reflexivity.
    - rewrite (proj2 (do_stop_frame _)). reflexivity.
    - rewrite started_cb, do_reset_frame. reflexivity.
  Qed.
  Lemma started_invoke : forall wc x, started (invoke beh wc x) = started x.
  Proof.
    intros. unfold invoke. destruct (wc && _)%bool; [rewrite started_run_f; reflexivity|].
    destruct wc; [|rewrite started_run_f; reflexivity].
    match goal with |- context [if ?c then _ else _] => destruct c end;
      [rewrite started_run_f | rewrite started_cb]; reflexivity.
  Qed.

  (** never started => nothing is running, outstanding or pending *)
  Definition NS (s : st) : Prop := started s = false -> running s = false /\ waiting s = [] /\ pend s = [].

  Lemma NS_step : forall wc s o, NS s -> NS (step beh wc s o).
  Proof.
    intros wc s o H. destruct o as [i b|a|ok| |]; cbn [step].
    - destruct (running s || (i <? 0)); [exact H|]. intros Hx. exfalso. revert Hx.
      destruct b; [rewrite started_invoke | unfold schedule]; cbn; discriminate.
    - intros Hx. unfold fire_due in *. cbn [set_now now pend] in *.
      destruct (started s) eqn:Es.
      + exfalso. revert Hx.
        assert (G : forall (dl : list (nat * Z)) x, started x = true ->
                    started (fold_left (fun acc (y : nat * Z) =>
                                          invoke beh wc (set_clock (remove_call (fst y) (pend acc)) (nextid acc) (call acc) acc))
                                       dl x) = true).
        { induction dl as [|y r IH]; cbn [fold_left]; intros x Hxs; [exact Hxs|]. apply IH. rewrite started_invoke. exact Hxs. }
        rewrite (G (due_prefix (now s + a) (pend s)) (set_now (now s + a) s) Es). discriminate.
      + destruct (H Es) as [H1 [H2 H3]]. rewrite H3. cbn. auto.
    - destruct (started s) eqn:Es.
      + intros Hx. exfalso. revert Hx. destruct (waiting s); cbn; [congruence|].
        destruct ok; [rewrite started_cb | rewrite started_eb]; cbn; congruence.
      + destruct (H Es) as [H1 [H2 H3]]. rewrite H2. cbn. intros _. auto.
    - destruct (started s) eqn:Es.
      + intros Hx. rewrite (proj2 (do_stop_frame s)) in Hx. congruence.
      + destruct (H Es) as [H1 [H2 H3]]. unfold do_stop. rewrite H1. cbn. intros _. auto.
    - destruct (started s) eqn:Es.
      + intros Hx. rewrite do_reset_frame in Hx. congruence.
      + destruct (H Es) as [H1 [H2 H3]]. unfold do_reset. rewrite H1. cbn. intros _. auto.
  Qed.

  Lemma CI_step : forall wc s o, Inv s -> NS s -> CI s -> restart_ok s o -> nonneg_adv o -> CI (step beh wc s o).
  Proof.
    intros wc s o [HC Hp] Hns H Hok Hnn. pose proof (c_int _ HC) as Hi0.
    assert (Hrs : running s = true -> started s = true).
    { intros Hr. destruct (started s) eqn:Es; [reflexivity|]. destruct (Hns Es) as [Hr' _]. congruence. }
    destruct o as [i b|a|ok| |]; cbn [step].
    - (* start *)
      destruct (running s || (i <? 0)) eqn:E; [apply CI_emit; auto; exact I|].
      apply orb_false_iff in E. destruct E as [Er Ei]. apply Z.ltb_ge in Ei.
      assert (Hidle : pend s = []).
      { destruct Hp as [Hp|[Hp|Hp]].
        - destruct Hp as [_ [P2 _]]. exact P2.
        - destruct Hp as [id [t [g [P1 _]]]]. congruence.
        - destruct Hp as [w [g [P2 _]]]. exact P2. }
      set (s1 := begin_loop i b s).
      destruct H as [A B C D E F].
      assert (H1 : CI s1).
      { apply mkCI; unfold lastidx, s1, begin_loop; sst.
        - intros l Hl. discriminate.
        - intros _. lia.
        - intros _ Hi. cbn [esum ebase]. rewrite Hidle. split; [lia|]. intros id t [].
        - constructor; [exact I | exact D].
        - intros _ _. cbn [ebase lastidx_at]. split; [reflexivity|]. intros l Hl. discriminate.
        - intros; discriminate. }
      destruct b.
      + apply CI_invoke; auto.
        intros Hi. unfold lastidx, lastidx_at, s1, begin_loop. cbn.
        replace (now s - now s) with 0 by lia. unfold s1, begin_loop in Hi. cbn in Hi. rewrite Z.div_0_l by lia. lia.
      + apply (CI_schedule s1); [reflexivity | exact H1].
    - (* advance *)
      unfold fire_due. cbn [set_now now pend]. cbn in Hnn.
      assert (H1 : CI (set_now (now s + a) s)).
      { destruct H as [A B C D E F]. apply mkCI; unfold lastidx in *; sst; auto.
        - intros l Hl. specialize (A l Hl). lia.
        - intros Hs. specialize (B Hs). lia. }
      destruct Hp as [Hp|[Hp|Hp]].
      + destruct Hp as [P1 [P2 _]]. rewrite P2. cbn. exact H1.
      + destruct Hp as [id [t [g [P1 [P2 [P3 [P4 P5]]]]]]]. rewrite P2. cbn [due_prefix snd].
        pose proof (Hrs P1) as Hst.
        destruct (t <=? now s + a) eqn:Edue; [|cbn; exact H1].
        apply Z.leb_le in Edue. cbn [fold_left fst].
        apply CI_invoke; cbn; auto.
        * rewrite P2. cbn. rewrite Nat.eqb_refl. reflexivity.
        * eapply CI_frame; [| | | | | | | | | |exact H1]; try reflexivity. cbn. intros x Hx. eapply remove_call_sub. exact Hx.
        * intros Hi. destruct H as [A B C D E F]. destruct (C Hst Hi) as [_ C2]. specialize (B Hst).
          unfold lastidx in *. cbn.
          assert (Hc : lastidx_at (start s) (interval s) (runAtStart s) (realLast s) < (t - start s) / interval s)
            by (apply (C2 id t); rewrite P2; left; reflexivity).
          assert (Hm : (t - start s) / interval s <= (now s + a - start s) / interval s) by (apply Z.div_le_mono; lia).
          lia.
      + destruct Hp as [w [g [P2 _]]]. rewrite P2. cbn. exact H1.
    - (* fire *)
      destruct (waiting s) as [|w0 w] eqn:Ew; [apply CI_emit; auto; exact I|].
      assert (Hst : started s = true).
      { destruct (started s) eqn:Es; [reflexivity|]. destruct (Hns Es) as [_ [Hw0 _]]. congruence. }
      assert (H1 : CI (set_waiting w s)) by (eapply CI_frame; [| | | | | | | | | |exact H]; try reflexivity; auto).
      destruct ok; [apply CI_cb; assumption | apply CI_eb; exact H1].
    - apply CI_do_stop; exact H.
    - (* reset *)
      destruct (running s) eqn:Er; [|unfold do_reset; rewrite Er; apply CI_emit; auto; exact I].
      apply CI_do_reset; [apply Hrs; reflexivity | | exact H].
      intros i Hc. destruct Hp as [Hp|[Hp|Hp]].
      + destruct Hp as [_ [P2 _]]. rewrite P2. reflexivity.
      + destruct Hp as [id [t [g [P1 [P2 [P3 _]]]]]]. rewrite P2. rewrite P3 in Hc. inversion Hc; subst.
        cbn. rewrite Nat.eqb_refl. reflexivity.
      + destruct Hp as [w [g [P2 _]]]. rewrite P2. reflexivity.
  Qed.

  Lemma CI_snap : forall s, CI s -> CI (snap s).
  Proof. intros s H. unfold snap. apply CI_emit; [reflexivity | exact I | exact H]. Qed.

  Lemma CI_init : CI init.
  Proof. apply mkCI; cbn; intros; try discriminate; try lia; auto. Qed.

  Lemma counts_run : forall wc ops s, Inv s -> NS s -> CI s -> run_ok beh wc s ops -> Forall nonneg_adv ops ->
    CI (run beh wc s ops).
  Proof.
    intros wc ops. induction ops as [|o r IH]; cbn; intros s HI Hns H Hok Hnn; [exact H|].
    destruct Hok as [Hok1 Hok2]. inversion Hnn; subst.
    apply IH; auto.
    - apply Inv_snap. apply Inv_step; assumption.
    - apply (NS_step wc s o Hns).
    - apply CI_snap. apply CI_step; assumption.
  Qed.

  Lemma reach_CI : forall wc ops, run_ok beh wc init ops -> Forall nonneg_adv ops -> CI (run beh wc init ops).
  Proof.
    intros wc ops Hok Hnn. apply counts_run; auto.
    - apply Inv_init.
    - intros _. cbn. auto.
    - apply CI_init.
  Qed.

  (** per epoch (since the last start()/reset()): the counts passed sum to the interval index of the last
      counted call minus the base recorded when the epoch began *)
  Lemma reach_counts_epoch : forall wc ops, run_ok beh wc init ops -> Forall nonneg_adv ops ->
    let s := run beh wc init ops in
    started s = true -> 0 < interval s -> esum (log s) = lastidx s - ebase (log s).
  Proof. intros wc ops Hok Hnn s Hs Hi. apply (ci_law _ (reach_CI wc ops Hok Hnn) Hs Hi). Qed.

  (** countCallable is never skipped and every count is >= 1 (restart and reset() included) *)
  Lemma reach_counts_ok : forall wc ops, run_ok beh wc init ops -> Forall nonneg_adv ops ->
    Forall count_ok (log (run beh wc init ops)).
  Proof. intros wc ops Hok Hnn. apply (ci_ok _ (reach_CI wc ops Hok Hnn)). Qed.

  (** the simple form: no reset() since the last start(): the counts passed since that start() sum to the
      boundaries start + j*interval up to the last call *)
  Lemma reach_counts : forall wc ops, run_ok beh wc init ops -> Forall nonneg_adv ops ->
    let s := run beh wc init ops in
    started s = true -> wasreset s = false -> 0 < interval s ->
    esum (log s) = match realLast s with
                   | Some l => (l - start s) / interval s + (if runAtStart s then 1 else 0)
                   | None => 0
                   end.
  Proof.
    intros wc ops Hok Hnn s Es Hw Hi. pose proof (reach_CI wc ops Hok Hnn) as H. fold s in H.
    destruct (ci_first _ H Hw Es) as [E1 E3]. destruct (ci_law _ H Es Hi) as [L _].
    rewrite L, E1. unfold lastidx, lastidx_at. destruct (realLast s) as [l|] eqn:El.
    - specialize (E3 l eq_refl). rewrite Z.quot_div_nonneg by lia. destruct (runAtStart s); lia.
    - destruct (runAtStart s); lia.
  Qed.

  (** ---- the first tick of a now=False loop, and "one call per advance" ---- *)
  (** start(interval, now=False) on an idle loop schedules exactly one call, for now + interval *)
  Lemma first_tick_scheduled : forall wc s i, idle s -> 0 < i ->
    pend (step beh wc s (Start i false)) = [(nextid s, now s + i)]
    /\ ncalls (step beh wc s (Start i false)) = ncalls s.
  Proof.
    clear no_restart.
    intros wc s i [P1 [P2 _]] Hi. cbn [step]. rewrite P1. cbn [orb].
    replace (i <? 0) with false by (symmetry; apply Z.ltb_ge; lia).
    unfold schedule. cbn. rewrite P2. cbn.
    destruct (next_time_spec (now s) i (now s) Hi) as [E _]. cbn in E. rewrite E.
    replace (now s - now s) with 0 by lia. rewrite Z.div_0_l by lia. split; [f_equal; f_equal; lia | reflexivity].
  Qed.

  (** with one call scheduled for t: an advance that does not reach t does nothing but move the clock; an
      advance that reaches t enters __call__ exactly once, at the new clock value *)
  Lemma advance_before_due : forall wc s id t a, pend s = [(id, t)] -> now s + a < t ->
    step beh wc s (Advance a) = set_now (now s + a) s.
  Proof.
    clear no_restart.
    intros wc s id t a P2 Hlt. cbn [step]. unfold fire_due. cbn [set_now now pend]. rewrite P2. cbn [due_prefix snd].
    replace (t <=? now s + a) with false by (symmetry; apply Z.leb_gt; lia). reflexivity.
  Qed.

  Lemma advance_when_due : forall wc s id t a, pend s = [(id, t)] -> t <= now s + a ->
    step beh wc s (Advance a) = invoke beh wc (set_clock [] (nextid s) (call s) (set_now (now s + a) s)).
  Proof.
    clear no_restart.
    intros wc s id t a P2 Hle. cbn [step]. unfold fire_due. cbn [set_now now pend]. rewrite P2. cbn [due_prefix snd].
    replace (t <=? now s + a) with true by (symmetry; apply Z.leb_le; lia).
    cbn [fold_left fst pend nextid call set_now]. rewrite P2. cbn. rewrite Nat.eqb_refl. reflexivity.
  Qed.

  (** f is called at most once per advance (also with interval 0: the call scheduled by cb waits for the
      next advance) *)
  Lemma ncalls_cb : forall x, ncalls (cb x) = ncalls x.
  Proof. intros. unfold cb, schedule, fire_deferred. destruct (running x); [reflexivity|]. destruct (dcur x); reflexivity. Qed.
  Lemma ncalls_eb : forall x, ncalls (eb x) = ncalls x.
  Proof. intros. unfold eb, fire_deferred. cbn. destruct (dcur x); reflexivity. Qed.
  Lemma ncalls_stop : forall x, ncalls (do_stop x) = ncalls x.
  Proof.
    intros. unfold do_stop. destruct (running x); [destruct (call x)|]; try reflexivity.
    unfold fire_deferred. cbn. destruct (dcur x); reflexivity.
  Qed.
  Lemma ncalls_reset : forall x, ncalls (do_reset x) = ncalls x.
  Proof. intros. unfold do_reset. destruct (running x); [destruct (call x)|]; reflexivity. Qed.
  Lemma ncalls_run_f : forall x, ncalls (run_f beh x) = S (ncalls x).
  Proof.
    intros. unfold run_f. destruct (beh (ncalls x)) eqn:Eb; cbn; [| | | | | |exfalso; exact (no_restart _ Eb)].
    - rewrite ncalls_cb. reflexivity.
    - rewrite ncalls_eb. reflexivity.
    - reflexivity.
    - rewrite ncalls_cb, ncalls_stop. reflexivity.
    - rewrite ncalls_stop. reflexivity.
    - rewrite ncalls_cb, ncalls_reset. reflexivity.
  Qed.
  Lemma ncalls_invoke : forall wc x, (ncalls (invoke beh wc x) <= S (ncalls x))%nat.
  Proof.
    intros. unfold invoke. destruct (wc && _)%bool; [rewrite ncalls_run_f; cbn; lia|].
    destruct wc; [|rewrite ncalls_run_f; cbn; lia].
    match goal with |- context [if ?c then _ else _] => destruct c end;
      [rewrite ncalls_run_f | rewrite ncalls_cb]; cbn; lia.
  Qed.

  Lemma one_call_per_advance : forall wc ops a, run_ok beh wc init ops ->
    let s := run beh wc init ops in
    (ncalls (step beh wc s (Advance a)) <= S (ncalls s))%nat.
  Proof.
    intros wc ops a Hok s. destruct (reach_Inv beh no_restart wc ops Hok) as [_ Hp]. fold s in Hp.
    cbn [step]. unfold fire_due. cbn [set_now now pend].
    destruct Hp as [Hp|[Hp|Hp]].
    - destruct Hp as [_ [P2 _]]. rewrite P2. cbn. lia.
    - destruct Hp as [id [t [g [_ [P2 _]]]]]. rewrite P2. cbn [due_prefix snd].
      destruct (t <=? now s + a); cbn [fold_left]; [|cbn; lia].
      eapply Nat.le_trans; [apply ncalls_invoke|]. cbn. lia.
    - destruct Hp as [w [g [P2 _]]]. rewrite P2. cbn. lia.
  Qed.
End Counts2.

(** the unguarded statements are false of the current code *)
Lemma overlap_refuted : exists beh wc ops k n, In (ECall k n true) (log (run beh wc init ops)).
Proof.
  exists restart_beh, false, restart_ops, 1%nat, 0. apply restart_witness.
Qed.

Lemma deferred_refuted : exists beh wc ops,
  let s := run beh wc init ops in
  (0 < dgen s)%nat /\ waiting s = [] /\ dcur s <> Some 0%nat /\ ~ In 0%nat (done_gens (log s)).
Proof.
  exists restart_beh, false, restart_ops. vm_compute. repeat split; try lia; try discriminate; tauto.
Qed.

(** the second guard is needed as well: stop() + start(now=False) from inside f *)
Definition inside_beh (k : nat) : fbeh := match k with 1%nat => FRestartRet | _ => FRet end.

Lemma restart_inside_refuted :
  let s1 := run inside_beh false init [Start 2 true; Advance 2] in
  let s2 := run inside_beh false init [Start 2 true; Advance 2; Advance 2; Stop] in
  let s3 := step inside_beh false s2 (Advance 2) in
  map snd (pend s1) = [4; 4]                              (* two calls of the same loop are pending *)
  /\ (running s2 = false /\ waiting s2 = [] /\ pend s2 <> []     (* the loop is over but a call is still scheduled *)
      /\ ~ In 0%nat (done_gens (log s2)) /\ dcur s2 = None)         (* and the first start() Deferred never fired *)
  /\ ncalls s3 = S (ncalls s2).                           (* f is called after stop() *)
Proof. vm_compute. repeat split; try discriminate. intros [H|[]]. discriminate. Qed.

(** a non-trivial guarded history: immediate first call, latency over two boundaries, multi-interval jump,
    stop from outside; counts 1, 1, 5 sum to the 7 boundaries 0,4,...,24 *)
Definition ex_beh (k : nat) : fbeh := match k with 1%nat => FDefer | _ => FRet end.
Definition ex_ops : list op := [Start 4 true; Advance 5; Advance 6; Fire true; Advance 13; Advance 1; Stop].

Example ex_guard : run_ok ex_beh true init ex_ops /\ Forall nonneg_adv ex_ops.
Proof. split; [cbn; tauto | repeat constructor; cbn; lia]. Qed.

Example ex_counts :
  let s := run ex_beh true init ex_ops in
  flat_map count_of (rev (log s)) = [1; 1; 5] /\ realLast s = Some 24 /\ wasreset s = false
  /\ done_gens (log s) = [0%nat] /\ pend s = [] /\ running s = false.
Proof. vm_compute. repeat split. Qed.

(** reset() with withCount: the last counted call was at 4 (its Deferred fired at 21), reset() at 22 starts a
    new epoch whose base is -4 (four whole intervals between 4 and 22 carry over): the counts 5, 1 of the new
    epoch sum to 6 = index 2 of the last call (31 = 22 + 2*4 + 1) minus the base *)
Definition ex_beh2 (k : nat) : fbeh := match k with 1%nat => FDefer | _ => FRet end.
Definition ex_ops2 : list op := [Start 4 true; Advance 4; Advance 17; Fire true; Advance 1; Reset; Advance 4; Advance 5].
Example ex_epoch :
  let s := run ex_beh2 true init ex_ops2 in
  run_ok ex_beh2 true init ex_ops2 /\ flat_map count_of (rev (log s)) = [1; 1; 5; 1]
  /\ esum (log s) = 6 /\ ebase (log s) = -4 /\ lastidx s = 2 /\ start s = 22 /\ realLast s = Some 31
  /\ map snd (pend s) = [34].
Proof. split; [cbn; tauto|]. vm_compute. repeat split. Qed.

(** interval 0 on a reactor-like clock: one call per advance, count always 1 *)
Example ex_interval0 :
  let s := run (fun _ => FRet) true init [Start 0 true; Advance 0; Advance 5; Advance 0; Stop] in
  flat_map count_of (rev (log s)) = [1; 1; 1; 1] /\ ncalls s = 4%nat /\ pend s = [] /\ done_gens (log s) = [0%nat].
Proof. vm_compute. repeat split. Qed.
