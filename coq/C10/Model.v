(** C10: task.LoopingCall (src/twisted/internet/task.py) on a task.Clock that is used only by the loop.
    Integer time (dyadic rationals scaled by 2^k); interval >= 0.  The clock runs, at each advance, the calls
    that are due when the advance starts; what they schedule waits for the next advance even if its time is
    already reached.  That is the reactor's behaviour (C08: a call scheduled during an iteration does not run in
    it); for interval > 0 it is also task.Clock's, because the loop always reschedules strictly later.  With
    interval = 0 (call ASAP) task.Clock.advance would never return; the reactor calls f once per iteration.

    f's behaviour at its k-th invocation is given by a table [beh k]; a returned Deferred is fired
    later by the test program ([Fire]).  [with_count] wraps f in the skipped-intervals counter of
    LoopingCall.withCount.  The model follows the code literally, including start() on a stopped
    loop whose last invocation is not over (its Deferred is still pending, or start() is called from
    inside f after stop(); see the ..._refuted lemmas in Proofs.v): the clock may then hold several
    DelayedCalls of the same loop, so it is modelled as the sorted list of C09.
    One repaired behaviour is modelled (fixes/C10-start-resets-count.patch): start() resets
    _realLastTime, so that the counting of withCount starts afresh with every start(). *)
From Coq Require Import List Arith ZArith Bool.
Import ListNotations.
Local Open Scope Z_scope.

Inductive fbeh :=
| FRet            (* returns a plain value *)
| FRaise          (* raises *)
| FDefer          (* returns an unfired Deferred *)
| FStopRet        (* calls self.stop() and returns *)
| FStopDefer      (* calls self.stop() and returns an unfired Deferred *)
| FResetRet       (* calls self.reset() and returns *)
| FRestartRet.    (* calls self.stop(); self.start(self.interval, now=False) and returns *)

Inductive op :=
| Start (interval : Z) (nowflag : bool)
| Advance (a : Z)
| Fire (ok : bool)          (* fire the oldest unfired Deferred returned by f *)
| Stop
| Reset.

Inductive ev :=
| ECall (k : nat) (now : Z) (overlap : bool)   (* k-th invocation of f (or of the counter); overlap = a Deferred
                                                  returned by an earlier invocation is still unfired *)
| ECount (n : Z)                                (* withCount: countCallable(n) is called *)
| ESkip                                         (* withCount: count <= 0, countCallable is not called *)
| ESched (when st0 i t : Z)                     (* callLater for time t, computed at [when] with starttime st0, interval i *)
| EDone (gen : nat) (ok : bool)                 (* the Deferred returned by the gen-th start() fired *)
| EDoubleFire                                   (* a start() Deferred fired twice (AlreadyCalledError): never happens *)
| EAssert                                       (* AssertionError / ValueError from start / stop / reset *)
| ENoFire                                       (* Fire with nothing outstanding: harness no-op *)
| EEpoch (base : Z)                             (* ghost: start()/reset() set a new starttime; base = interval index,
                                                   relative to it, of the last counted call (see [lastidx]) *)
| EState (running : bool) (pending : list Z).   (* lc.running, times of the clock's pending calls *)

Record st := mkSt {
  now : Z;
  started : bool;                (* start() has been called at least once *)
  start : Z;                     (* starttime *)
  interval : Z;
  runAtStart : bool;
  running : bool;
  pend : list (nat * Z);         (* Clock.calls: (id, time), sorted by time, stable *)
  nextid : nat;
  call : option nat;             (* self.call: id of the DelayedCall it refers to *)
  waiting : list nat;            (* unfired Deferreds returned by f, oldest first (ghost: generation) *)
  dgen : nat;                    (* number of start() calls so far *)
  dcur : option nat;             (* self._deferred: which start() Deferred it holds *)
  dfired : list nat;             (* generations whose start() Deferred has fired *)
  realLast : option Z;           (* _realLastTime *)
  ncalls : nat;
  wasreset : bool;               (* ghost: reset() moved starttime since the last start() *)
  log : list ev
}.

Definition init : st := mkSt 0 false 0 1 false false [] 0 None [] 0 None [] None 0 false [].

(** setters *)
Definition emit (e : ev) (s : st) : st :=
  mkSt (now s) (started s) (start s) (interval s) (runAtStart s) (running s) (pend s) (nextid s) (call s)
       (waiting s) (dgen s) (dcur s) (dfired s) (realLast s) (ncalls s) (wasreset s) (e :: log s).
Definition set_running (b : bool) (s : st) : st :=
  mkSt (now s) (started s) (start s) (interval s) (runAtStart s) b (pend s) (nextid s) (call s)
       (waiting s) (dgen s) (dcur s) (dfired s) (realLast s) (ncalls s) (wasreset s) (log s).
Definition set_clock (p : list (nat * Z)) (n : nat) (c : option nat) (s : st) : st :=
  mkSt (now s) (started s) (start s) (interval s) (runAtStart s) (running s) p n c
       (waiting s) (dgen s) (dcur s) (dfired s) (realLast s) (ncalls s) (wasreset s) (log s).
Definition set_waiting (w : list nat) (s : st) : st :=
  mkSt (now s) (started s) (start s) (interval s) (runAtStart s) (running s) (pend s) (nextid s) (call s)
       w (dgen s) (dcur s) (dfired s) (realLast s) (ncalls s) (wasreset s) (log s).
Definition set_now (t : Z) (s : st) : st :=
  mkSt t (started s) (start s) (interval s) (runAtStart s) (running s) (pend s) (nextid s) (call s)
       (waiting s) (dgen s) (dcur s) (dfired s) (realLast s) (ncalls s) (wasreset s) (log s).
(** _intervalOf(t) = int((t - starttime) / interval): truncation toward zero; index of the last counted call
    (before the first one: -1 for a now=True loop, whose immediate call counts the boundary at starttime; else 0) *)
Definition lastidx_at (st0 i : Z) (ras : bool) (rl : option Z) : Z :=
  match rl with
  | Some l => Z.quot (l - st0) i
  | None => if ras then -1 else 0
  end.

Definition set_epoch (st0 : Z) (s : st) : st :=      (* reset(): starttime := now *)
  mkSt (now s) (started s) st0 (interval s) (runAtStart s) (running s) (pend s) (nextid s) (call s)
       (waiting s) (dgen s) (dcur s) (dfired s) (realLast s) (ncalls s) true
       (EEpoch (lastidx_at st0 (interval s) (runAtStart s) (realLast s)) :: log s).
Definition set_last (l : Z) (s : st) : st :=
  mkSt (now s) (started s) (start s) (interval s) (runAtStart s) (running s) (pend s) (nextid s) (call s)
       (waiting s) (dgen s) (dcur s) (dfired s) (Some l) (ncalls s) (wasreset s) (log s).

(** Clock.callLater: append + stable sort = insert after the calls that are not later *)
Fixpoint insert_call (x : nat * Z) (l : list (nat * Z)) : list (nat * Z) :=
  match l with
  | [] => [x]
  | y :: r => if snd y <=? snd x then y :: insert_call x r else x :: l
  end.

Fixpoint remove_call (i : nat) (l : list (nat * Z)) : list (nat * Z) :=
  match l with
  | [] => []
  | y :: r => if Nat.eqb (fst y) i then r else y :: remove_call i r
  end.

(** _scheduleFrom(when): when + howLong, howLong = interval - ((when - starttime) % interval) *)
Definition next_time (st0 i when : Z) : Z :=
  if i =? 0 then when                       (* interval 0: howLong() = 0, as soon as possible *)
  else when + (i - (when - st0) mod i).

Definition schedule (when : Z) (s : st) : st :=
  let t := next_time (start s) (interval s) when in
  emit (ESched when (start s) (interval s) t)
       (set_clock (insert_call (nextid s, t) (pend s)) (S (nextid s)) (Some (nextid s)) s).

(** d, self._deferred = self._deferred, None; d.callback(self) / d.errback(failure) *)
Definition fire_deferred (ok : bool) (s : st) : st :=
  match dcur s with
  | None => emit EAssert s
  | Some g =>
      mkSt (now s) (started s) (start s) (interval s) (runAtStart s) (running s) (pend s) (nextid s) (call s)
           (waiting s) (dgen s) None (g :: dfired s) (realLast s) (ncalls s) (wasreset s)
           ((if existsb (Nat.eqb g) (dfired s) then EDoubleFire else EDone g ok) :: log s)
  end.

(** cb / eb of __call__ *)
Definition cb (s : st) : st := if running s then schedule (now s) s else fire_deferred true s.
Definition eb (s : st) : st := fire_deferred false (set_running false s).

(** stop() *)
Definition do_stop (s : st) : st :=
  if running s then
    match call s with
    | Some i => fire_deferred true (set_clock (remove_call i (pend s)) (nextid s) None (set_running false s))
    | None => set_running false s
    end
  else emit EAssert s.

(** reset() *)
Definition do_reset (s : st) : st :=
  if running s then
    match call s with
    | Some i => schedule (now s) (set_epoch (now s) (set_clock (remove_call i (pend s)) (nextid s) None s))
    | None => s
    end
  else emit EAssert s.

Definition interval_of (s : st) (t : Z) : Z := Z.quot (t - start s) (interval s).
Definition lastidx (s : st) : Z := lastidx_at (start s) (interval s) (runAtStart s) (realLast s).

(** start(): the assignments up to and including self._realLastTime = None (repaired behaviour) *)
Definition begin_loop (i : Z) (nowflag : bool) (s : st) : st :=
  mkSt (now s) true (now s) i nowflag true (pend s) (nextid s) (call s) (waiting s) (S (dgen s))
       (Some (dgen s)) (dfired s) None (ncalls s) false
       (EEpoch (lastidx_at (now s) i nowflag None) :: log s).

(** start(i, now=False) *)
Definition start_later (i : Z) (s : st) : st :=
  if running s || (i <? 0) then emit EAssert s          (* AssertionError / ValueError *)
  else let s1 := begin_loop i false s in schedule (now s1) s1.

Definition has_waiting (s : st) : bool := match waiting s with [] => false | _ => true end.

Section Loop.
  Variable beh : nat -> fbeh.
  Variable with_count : bool.

  (** f is really called: the k-th call (k counts calls of f, not of the counter) *)
  Definition run_f (s0 : st) : st :=
    let k := ncalls s0 in
    let s := emit (ECall k (now s0) (has_waiting s0))
               (mkSt (now s0) (started s0) (start s0) (interval s0) (runAtStart s0) (running s0) (pend s0) (nextid s0)
                     (call s0) (waiting s0) (dgen s0) (dcur s0) (dfired s0) (realLast s0) (S k) (wasreset s0) (log s0)) in
    match beh k with
    | FRet => cb s
    | FRaise => eb s
    | FDefer => set_waiting (waiting s ++ [dgen s]) s
    | FStopRet => cb (do_stop s)
    | FStopDefer => let s1 := do_stop s in set_waiting (waiting s1 ++ [dgen s1]) s1
    | FResetRet => cb (do_reset s)
    | FRestartRet => cb (start_later (interval s) (do_stop s))
    end.

  (** LoopingCall.__call__ (self.call = None; maybeDeferred(self.f); addCallback(cb); addErrback(eb)) *)
  Definition invoke (s : st) : st :=
    let s1 := set_clock (pend s) (nextid s) None s in
    if with_count && (interval s1 =? 0) then      (* if self.interval == 0: count is always 1 *)
      run_f (emit (ECount 1) (set_last (now s1) s1))
    else if with_count then
      let last := match realLast s1 with
                  | Some l => l
                  | None => if runAtStart s1 then start s1 - interval s1 else start s1
                  end in
      let count := interval_of s1 (now s1) - interval_of s1 last in
      if 0 <? count then run_f (emit (ECount count) (set_last (now s1) s1))
      else cb (emit ESkip s1)
    else run_f s1.

  (** Clock.advance: the calls that are due when the clock is moved run in list order; whatever
      they schedule is strictly later (interval > 0) and nothing pending is cancelled from inside f *)
  Fixpoint due_prefix (t : Z) (l : list (nat * Z)) : list (nat * Z) :=
    match l with
    | y :: r => if snd y <=? t then y :: due_prefix t r else []
    | [] => []
    end.

  Definition fire_due (s : st) : st :=
    fold_left (fun acc y => invoke (set_clock (remove_call (fst y) (pend acc)) (nextid acc) (call acc) acc))
              (due_prefix (now s) (pend s)) s.

  Definition step (s : st) (o : op) : st :=
    match o with
    | Start i nowflag =>
        if running s || (i <? 0) then emit EAssert s        (* AssertionError / ValueError *)
        else
          let s1 := begin_loop i nowflag s in
          if nowflag then invoke s1 else schedule (now s1) s1
    | Advance a => fire_due (set_now (now s + a) s)
    | Fire ok =>
        match waiting s with
        | [] => emit ENoFire s
        | _ :: w => if ok then cb (set_waiting w s) else eb (set_waiting w s)
        end
    | Stop => do_stop s
    | Reset => do_reset s
    end.

  Definition snap (s : st) : st := emit (EState (running s) (map snd (pend s))) s.

  Definition run (s : st) (ops : list op) : st := fold_left (fun acc o => snap (step acc o)) ops s.
End Loop.
