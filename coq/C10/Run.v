(** C10: printer used only by the correspondence check. *)
From Coq Require Import List Arith ZArith Bool String.
From TwLib Require Import Show TimersShow.
From C10 Require Import Model.
Import ListNotations.
Local Open Scope string_scope.

Definition show_ev (e : ev) : list string :=
  match e with
  | ECall k n ov => ["c" ++ show_nat k ++ "@" ++ show_Z n ++ (if ov then "!" else "")]
  | ECount n => ["n" ++ show_Z n]
  | ESkip => []
  | ESched _ _ _ _ => []
  | EDone g ok => ["d" ++ show_nat g ++ (if ok then "+" else "-")]
  | EDoubleFire => ["DOUBLE"]
  | EAssert => ["XA"]
  | ENoFire => ["NF"]
  | EEpoch _ => []
  | EState r p => ["[r" ++ (if r then "1" else "0") ++ ";" ++ String.concat "," (map show_Z p) ++ "]"]
  end.

Definition behs (l : list fbeh) (k : nat) : fbeh := nth k l FRet.

(** case = (withCount?, behaviours of f by invocation, ops) *)
Definition run_show (c : bool * list fbeh * list op) : string :=
  let '(wc, bl, ops) := c in
  let s := run (behs bl) wc init ops in
  digest (String.concat " " (flat_map show_ev (rev (log s)))).
