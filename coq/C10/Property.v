(** C10 property theorems.  [beh k] = what the k-th call of f does (return / raise / return an unfired
    Deferred / call stop() or reset() first); [wc] = LoopingCall.withCount; histories [ops] of start / advance /
    fire-the-oldest-Deferred / stop / reset from the fresh loop.  Integer time (dyadic rationals scaled by 2^k);
    interval >= 0 (0 = as fast as possible, on a clock that runs a newly scheduled call in its next iteration).

    Guards: [run_ok] — start() is never called while a Deferred returned by f is still unfired — and
    [forall k, beh k <> FRestartRet] — f does not itself call stop() and then start().  Both say: start() is not
    called before the previous run of the loop is over.  Without them the control statements are FALSE of the
    current code (theorems ..._refuted; known findings "restart-while-deferred-pending" and
    "restart-inside-call"), so they are proved as ..._partial under exactly these guards.
    The model contains one repaired behaviour: start() resets _realLastTime (fixes/C10-start-resets-count.patch). *)
From Coq Require Import List Arith ZArith Bool.
From C10 Require Import Model Proofs.
Import ListNotations.
Local Open Scope Z_scope.

(** _scheduleFrom: the next call is due at the first boundary start + j*interval strictly after [when]
    (no drift: always on the grid of the current starttime), for every start, interval > 0 and when *)
Theorem next_is_first_boundary_strictly_after : forall st0 i w, 0 < i ->
  let t := next_time st0 i w in
  t = st0 + ((w - st0) / i + 1) * i /\ w < t /\ t <= w + i /\ (t - st0) mod i = 0.
Proof. exact next_time_spec. Qed.
Print Assumptions next_is_first_boundary_strictly_after.

(** every call the loop ever schedules (ESched w st0 i t: scheduled at time w, when the previous invocation
    completed, resp. at start()/reset()) is for the first boundary of the current epoch strictly after w; with
    interval 0 it is for w itself (as soon as possible).  FULL statement: the same without [run_ok]. *)
Theorem every_call_scheduled_at_first_boundary_after_completion_partial : forall beh, (forall k, beh k <> FRestartRet) -> forall wc ops,
  run_ok beh wc init ops ->
  forall w st0 i t, In (ESched w st0 i t) (log (run beh wc init ops)) ->
  (0 < i /\ t = st0 + ((w - st0) / i + 1) * i /\ w < t /\ t <= w + i) \/ (i = 0 /\ t = w).
Proof. exact reach_sched. Qed.
Print Assumptions every_call_scheduled_at_first_boundary_after_completion_partial.

(** start(interval, now=False) on an idle loop: f is not called and exactly one call is scheduled, for
    now + interval; an advance that does not reach a scheduled call only moves the clock; an advance that
    reaches it enters __call__ exactly once, at the new clock value (the first tick is neither early nor
    skipped) *)
Theorem first_tick_of_a_now_false_loop : forall beh wc s i, idle s -> 0 < i ->
  pend (step beh wc s (Start i false)) = [(nextid s, now s + i)]
  /\ ncalls (step beh wc s (Start i false)) = ncalls s.
Proof. exact first_tick_scheduled. Qed.
Print Assumptions first_tick_of_a_now_false_loop.

Theorem advance_short_of_the_next_call_does_nothing : forall beh wc s id t a,
  pend s = [(id, t)] -> now s + a < t -> step beh wc s (Advance a) = set_now (now s + a) s.
Proof. exact advance_before_due. Qed.
Print Assumptions advance_short_of_the_next_call_does_nothing.

Theorem advance_reaching_the_next_call_calls_once : forall beh wc s id t a,
  pend s = [(id, t)] -> t <= now s + a ->
  step beh wc s (Advance a) = invoke beh wc (set_clock [] (nextid s) (call s) (set_now (now s + a) s)).
Proof. exact advance_when_due. Qed.
Print Assumptions advance_reaching_the_next_call_calls_once.

(** f is called at most once per advance of the clock, also with interval 0 on a reactor-like clock *)
Theorem at_most_one_call_per_advance_partial : forall beh, (forall k, beh k <> FRestartRet) -> forall wc ops a, run_ok beh wc init ops ->
  let s := run beh wc init ops in (ncalls (step beh wc s (Advance a)) <= S (ncalls s))%nat.
Proof. exact one_call_per_advance. Qed.
Print Assumptions at_most_one_call_per_advance_partial.

(** f is never called while a Deferred returned by an earlier call is unfired.
    FULL statement: forall beh wc ops k n ov, In (ECall k n ov) (log (run beh wc init ops)) -> ov = false. *)
Theorem no_overlap_partial : forall beh, (forall k, beh k <> FRestartRet) -> forall wc ops, run_ok beh wc init ops ->
  forall k n ov, In (ECall k n ov) (log (run beh wc init ops)) -> ov = false.
Proof. exact reach_no_overlap. Qed.
Print Assumptions no_overlap_partial.

Theorem no_overlap_refuted : exists beh wc ops k n, In (ECall k n true) (log (run beh wc init ops)).
Proof. exact overlap_refuted. Qed.
Print Assumptions no_overlap_refuted.

(** each start() Deferred fires at most once, and once the loop is over (stopped or failed, no Deferred of f
    outstanding) every start() Deferred has fired.
    FULL statement: the same without [run_ok]. *)
Theorem start_deferred_fires_exactly_once_partial : forall beh, (forall k, beh k <> FRestartRet) -> forall wc ops, run_ok beh wc init ops ->
  let s := run beh wc init ops in
  NoDup (done_gens (log s)) /\ ~ In EDoubleFire (log s)
  /\ (running s = false -> waiting s = [] -> forall g, (g < dgen s)%nat -> In g (done_gens (log s))).
Proof. exact reach_deferred. Qed.
Print Assumptions start_deferred_fires_exactly_once_partial.

Theorem start_deferred_fires_exactly_once_refuted : exists beh wc ops,
  let s := run beh wc init ops in
  (0 < dgen s)%nat /\ waiting s = [] /\ dcur s <> Some 0%nat /\ ~ In 0%nat (done_gens (log s)).
Proof. exact deferred_refuted. Qed.
Print Assumptions start_deferred_fires_exactly_once_refuted.

(** whenever self._deferred is None -- in particular when a start() Deferred has just fired, the last action of
    stop() / cb / eb -- the loop is idle (not running, nothing scheduled, self.call None, no Deferred of f
    outstanding): a start() made synchronously by that Deferred's callback finds the state of a fresh start() *)
Theorem loop_is_idle_when_its_start_deferred_has_fired_partial : forall beh, (forall k, beh k <> FRestartRet) -> forall wc ops,
  run_ok beh wc init ops ->
  let s := run beh wc init ops in dcur s = None -> idle s.
Proof. exact reach_done_idle. Qed.
Print Assumptions loop_is_idle_when_its_start_deferred_has_fired_partial.

(** after stop() or a failure (loop not running, nothing outstanding) nothing is scheduled and no operation
    other than a new start() calls f *)
Theorem no_call_after_stop_or_failure_partial : forall beh, (forall k, beh k <> FRestartRet) -> forall wc ops, run_ok beh wc init ops ->
  let s := run beh wc init ops in
  running s = false -> waiting s = [] ->
  pend s = [] /\ forall o, (forall i b, o <> Start i b) -> ncalls (step beh wc s o) = ncalls s.
Proof. exact reach_quiet. Qed.
Print Assumptions no_call_after_stop_or_failure_partial.

(** withCount, per epoch (an epoch begins at start() and at every effective reset(), which set starttime):
    the counts passed since the epoch began sum to the interval index of the last counted call minus the base
    recorded when the epoch began (EEpoch: the index, relative to the new starttime, of the last counted call
    before it, i.e. minus the whole intervals between that call and the new starttime; -1 / 0 for a fresh
    now=True / now=False loop).  Clock monotone, interval > 0. *)
Theorem counts_sum_per_epoch_partial : forall beh, (forall k, beh k <> FRestartRet) -> forall wc ops,
  run_ok beh wc init ops -> Forall nonneg_adv ops ->
  let s := run beh wc init ops in
  started s = true -> 0 < interval s -> esum (log s) = lastidx s - ebase (log s).
Proof. exact reach_counts_epoch. Qed.
Print Assumptions counts_sum_per_epoch_partial.

(** countCallable is never skipped and every count is >= 1, across stop()/start() and reset() (repaired
    start(): before the fix the immediate call of a second start(now=True) made less than one interval after
    the last counted call was silently skipped, and a later restart got an inflated first count) *)
Theorem counts_positive_and_never_skipped_partial : forall beh, (forall k, beh k <> FRestartRet) -> forall wc ops,
  run_ok beh wc init ops -> Forall nonneg_adv ops -> Forall count_ok (log (run beh wc init ops)).
Proof. exact reach_counts_ok. Qed.
Print Assumptions counts_positive_and_never_skipped_partial.

(** the simple form (no reset() since the last start()): the counts passed since that start() sum to the number
    of boundaries start + j*interval up to the last call (j >= 0 when started with now=True, else j >= 1) *)
Theorem counts_sum_to_boundaries_elapsed_partial : forall beh, (forall k, beh k <> FRestartRet) -> forall wc ops,
  run_ok beh wc init ops -> Forall nonneg_adv ops ->
  let s := run beh wc init ops in
  started s = true -> wasreset s = false -> 0 < interval s ->
  esum (log s) = match realLast s with
                 | Some l => (l - start s) / interval s + (if runAtStart s then 1 else 0)
                 | None => 0
                 end.
Proof. exact reach_counts. Qed.
Print Assumptions counts_sum_to_boundaries_elapsed_partial.

(** f calling stop() and start(now=False) itself: two calls of the loop pending, the first start() Deferred
    lost, f called after a later stop() *)
Theorem restart_inside_call_refuted :
  let s1 := run inside_beh false init [Start 2 true; Advance 2] in
  let s2 := run inside_beh false init [Start 2 true; Advance 2; Advance 2; Stop] in
  let s3 := step inside_beh false s2 (Advance 2) in
  map snd (pend s1) = [4; 4]
  /\ (running s2 = false /\ waiting s2 = [] /\ pend s2 <> [] /\ ~ In 0%nat (done_gens (log s2)) /\ dcur s2 = None)
  /\ ncalls s3 = S (ncalls s2).
Proof. exact restart_inside_refuted. Qed.
Print Assumptions restart_inside_call_refuted.
