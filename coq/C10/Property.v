(** C10 property theorems.  [beh k] = what the k-th call of f does (return / raise / return an unfired
    Deferred / call stop() or reset() first); [wc] = LoopingCall.withCount; histories [ops] of start / advance /
    fire-the-oldest-Deferred / stop / reset from the fresh loop.  Integer time (dyadic rationals scaled by 2^k).

    Guard [run_ok]: start() is never called while a Deferred returned by f is still unfired.  Without the
    guard the control statements are FALSE of the current code (theorems ..._refuted; known finding
    "restart-while-deferred-pending"), so they are proved as ..._partial under exactly that guard. *)
From Coq Require Import List Arith ZArith Bool.
From C10 Require Import Model Proofs.
Import ListNotations.
Local Open Scope Z_scope.

(** _scheduleFrom: the next call is due at the first boundary start + j*interval strictly after [when]
    (no drift: always on the grid of the current starttime), for every start, interval > 0 and when *)
Theorem next_is_first_boundary_strictly_after : forall st0 i w, 0 < i ->
  let t := next_time st0 i w in
  t = st0 + ((w - st0) / i + 1) * i /\ w < t /\ t <= w + i /\ (t - st0) mod i = 0.
Proof. exact next_time_spec. Qed.
Print Assumptions next_is_first_boundary_strictly_after.

(** every call the loop ever schedules (ESched w st0 i t: scheduled at time w, when the previous invocation
    completed, resp. at start()/reset()) is for the first boundary of the current epoch strictly after w.
    FULL statement: the same without [run_ok]. *)
Theorem every_call_scheduled_at_first_boundary_after_completion_partial : forall beh wc ops,
  run_ok beh wc init ops ->
  forall w st0 i t, In (ESched w st0 i t) (log (run beh wc init ops)) ->
  0 < i /\ t = st0 + ((w - st0) / i + 1) * i /\ w < t /\ t <= w + i.
Proof. exact reach_sched. Qed.
Print Assumptions every_call_scheduled_at_first_boundary_after_completion_partial.

(** f is never called while a Deferred returned by an earlier call is unfired.
    FULL statement: forall beh wc ops k n ov, In (ECall k n ov) (log (run beh wc init ops)) -> ov = false. *)
Theorem no_overlap_partial : forall beh wc ops, run_ok beh wc init ops ->
  forall k n ov, In (ECall k n ov) (log (run beh wc init ops)) -> ov = false.
Proof. exact reach_no_overlap. Qed.
Print Assumptions no_overlap_partial.

Theorem no_overlap_refuted : exists beh wc ops k n, In (ECall k n true) (log (run beh wc init ops)).
Proof. exact overlap_refuted. Qed.
Print Assumptions no_overlap_refuted.

(** each start() Deferred fires at most once, and once the loop is over (stopped or failed, no Deferred of f
    outstanding) every start() Deferred has fired.
    FULL statement: the same without [run_ok]. *)
Theorem start_deferred_fires_exactly_once_partial : forall beh wc ops, run_ok beh wc init ops ->
  let s := run beh wc init ops in
  NoDup (done_gens (log s)) /\ ~ In EDoubleFire (log s)
  /\ (running s = false -> waiting s = [] -> forall g, (g < dgen s)%nat -> In g (done_gens (log s))).
Proof. exact reach_deferred. Qed.
Print Assumptions start_deferred_fires_exactly_once_partial.

Theorem start_deferred_fires_exactly_once_refuted : exists beh wc ops,
  let s := run beh wc init ops in
  (0 < dgen s)%nat /\ waiting s = [] /\ dcur s <> Some 0%nat /\ ~ In 0%nat (done_gens (log s)).
Proof. exact deferred_refuted. Qed.
Print Assumptions start_deferred_fires_exactly_once_refuted.

(** after stop() or a failure (loop not running, nothing outstanding) nothing is scheduled and no operation
    other than a new start() calls f *)
Theorem no_call_after_stop_or_failure_partial : forall beh wc ops, run_ok beh wc init ops ->
  let s := run beh wc init ops in
  running s = false -> waiting s = [] ->
  pend s = [] /\ forall o, (forall i b, o <> Start i b) -> ncalls (step beh wc s o) = ncalls s.
Proof. exact reach_quiet. Qed.
Print Assumptions no_call_after_stop_or_failure_partial.

(** withCount: as long as the epoch was not changed by reset() or a second start(), and the clock never
    goes back, countCallable is never skipped, every count is >= 1, and the counts sum to the number of
    boundaries start + j*interval up to the last call (j >= 0 when started with now=True, else j >= 1) *)
Theorem counts_sum_to_boundaries_elapsed_partial : forall beh wc ops,
  run_ok beh wc init ops -> Forall nonneg_adv ops ->
  let s := run beh wc init ops in
  wasreset s = false ->
  Forall count_ok (log s)
  /\ csum (log s) = match realLast s with
                    | Some l => (l - start s) / interval s + (if runAtStart s then 1 else 0)
                    | None => 0
                    end.
Proof. exact reach_counts. Qed.
Print Assumptions counts_sum_to_boundaries_elapsed_partial.
