(** C12 proofs.  Passive triggers (they return None / a Deferred / raise but do not add or remove
    triggers while the event fires) over arbitrary registration histories: exact characterisation
    of fireEvent and _continueFiring.  Arbitrary (re-entrant) triggers: nothing runs while the
    firing is suspended on a Deferred. *)
From Coq Require Import List Arith Bool Lia.
From TwLib Require Import PyListIter.
From C12 Require Import Model.
Import ListNotations.

Section Proofs.
  Variable bodies : list body.
  Variable fuel : nat.
  Notation body_of := (body_of bodies).
  Notation call := (call bodies).

  Definition passive_id (id : nat) : Prop := acts (body_of id) = [].
  Definition returned (l : list nat) : list nat :=
    flat_map (fun id => match fin (body_of id) with RDef j => [j] | _ => [] end) l.
  Definition runs (ph : phase) (w : nat) (l : list nat) : list ev := rev (map (fun id => ERun ph id w) l).

  Lemma call_passive ph id w s : passive_id id -> call ph id w s = (emit (ERun ph id w) s, fin (body_of id)).
  Proof. unfold passive_id, Model.call. intros ->. reflexivity. Qed.

  Lemma runs_cons ph w id l : runs ph w (id :: l) = runs ph w l ++ [ERun ph id w].
  Proof. reflexivity. Qed.

  (** `while self.before:` with passive triggers: every trigger of the list is called exactly once, in list
      (= registration) order, whatever it returns or raises; the list ends empty; the Deferreds returned are
      collected in order *)
  Lemma before_loop_passive : forall l f acc s,
    before s = l -> length l <= f -> (forall id, In id l -> passive_id id) ->
    before_loop bodies f acc s =
      (mkS [] (during s) (after s) (finished s ++ l) (inbefore s) (waiting s) (fired s) (oof s)
           (runs PBefore (length (waiting s)) l ++ out s),
       acc ++ returned l).
  Proof.
    induction l as [|id l IH]; intros f acc s Hb Hf Hp.
    - destruct f; cbn; rewrite Hb; cbn; rewrite !app_nil_r; destruct s; cbn in *; subst; reflexivity.
    - destruct f as [|f]; [cbn in Hf; lia|]. cbn [before_loop]. rewrite Hb.
      rewrite call_passive by (apply Hp; left; reflexivity).
      erewrite IH; [|reflexivity|cbn in Hf; lia|intros x Hx; apply Hp; right; exact Hx].
      rewrite runs_cons. f_equal.
      + cbn. rewrite <- !app_assoc. reflexivity.
      + unfold returned. cbn [flat_map]. destruct (fin (body_of id)); cbn; rewrite <- ?app_assoc; reflexivity.
  Qed.

  Lemma phase_loop_passive ph : ph <> PBefore -> forall l f s,
    get ph s = l -> length l <= f -> (forall id, In id l -> passive_id id) ->
    out (phase_loop bodies ph f s) = runs ph (length (waiting s)) l ++ out s
    /\ get ph (phase_loop bodies ph f s) = []
    /\ (forall ph', ph' <> ph -> get ph' (phase_loop bodies ph f s) = get ph' s)
    /\ waiting (phase_loop bodies ph f s) = waiting s /\ oof (phase_loop bodies ph f s) = oof s
    /\ inbefore (phase_loop bodies ph f s) = inbefore s /\ fired (phase_loop bodies ph f s) = fired s.
  Proof.
    intros Hph. induction l as [|id l IH]; intros f s Hg Hf Hp.
    - destruct f; cbn; rewrite Hg; cbn; repeat split; auto.
    - destruct f as [|f]; [cbn in Hf; lia|]. cbn [phase_loop]. rewrite Hg.
      rewrite call_passive by (apply Hp; left; reflexivity).
      assert (Hg' : get ph (emit (ERun ph id (length (waiting s))) (put ph l s)) = l) by (destruct ph; reflexivity).
      destruct (IH f _ Hg') as (A & B & C & D & E & F & G); [cbn in Hf; lia | intros x Hx; apply Hp; right; exact Hx|].
      rewrite A, B, D, E, F, G. split.
      + rewrite runs_cons, <- app_assoc. destruct ph; reflexivity.
      + split; [reflexivity|]. split; [|destruct ph; repeat split; reflexivity].
        intros ph' Hne. rewrite (C ph' Hne). destruct ph, ph'; try reflexivity; congruence.
  Qed.

  (** _continueFiring with passive triggers: the during-triggers, then the after-triggers, each exactly once in
      registration order; both lists end empty, state BASE *)
  Lemma continue_passive s :
    length (during s) <= fuel -> length (after s) <= fuel ->
    (forall id, In id (during s ++ after s) -> passive_id id) ->
    let s' := continue_firing bodies fuel s in
    out s' = runs PAfter (length (waiting s)) (after s) ++ runs PDuring (length (waiting s)) (during s) ++ out s
    /\ during s' = [] /\ after s' = [] /\ before s' = before s /\ inbefore s' = false /\ oof s' = oof s
    /\ waiting s' = waiting s.
  Proof.
    intros Hd Ha Hp. unfold continue_firing.
    set (s1 := set_finished [] (set_inbefore false s)).
    destruct (phase_loop_passive PDuring ltac:(discriminate) (during s) fuel s1 eq_refl Hd) as (A & B & C & D & E & F & G).
    { intros id Hin. apply Hp. apply in_or_app. left. exact Hin. }
    set (s2 := phase_loop bodies PDuring fuel s1) in *.
    assert (Ha2 : get PAfter s2 = after s) by (rewrite (C PAfter); [reflexivity | discriminate]).
    destruct (phase_loop_passive PAfter ltac:(discriminate) (after s) fuel s2 Ha2 Ha) as (A' & B' & C' & D' & E' & F' & G').
    { intros id Hin. apply Hp. apply in_or_app. right. exact Hin. }
    pose proof (C' PDuring ltac:(discriminate)) as X1. pose proof (C' PBefore ltac:(discriminate)) as X2.
    pose proof (C PBefore ltac:(discriminate)) as X3. cbn [get] in X1, X2, X3, B, B'.
    cbn zeta. rewrite A', D, A, B', X1, B, X2, X3, F', F, E', E, D', D. repeat split.
  Qed.

  (** fireEvent with passive triggers, from a state where no firing is suspended *)
  Lemma fire_passive s :
    waiting s = [] ->
    length (before s) <= fuel -> length (during s) <= fuel -> length (after s) <= fuel ->
    (forall id, In id (before s ++ during s ++ after s) -> passive_id id) ->
    let owed := filter (fun j => negb (mem j (fired s))) (returned (before s)) in
    let s' := fire_event bodies fuel s in
    before s' = [] /\ oof s' = oof s /\ waiting s' = owed /\
    match owed with
    | [] => out s' = runs PAfter 0 (after s) ++ runs PDuring 0 (during s) ++ runs PBefore 0 (before s) ++ out s
            /\ during s' = [] /\ after s' = [] /\ inbefore s' = false
    | _ => out s' = runs PBefore 0 (before s) ++ out s
            /\ during s' = during s /\ after s' = after s /\ inbefore s' = true
    end.
  Proof.
    intros Hw Hb Hd Ha Hp. unfold fire_event.
    rewrite (before_loop_passive (before s) fuel [] (set_finished [] (set_inbefore true s)) eq_refl Hb).
    2:{ intros id Hin. apply Hp. apply in_or_app. left. exact Hin. }
    cbn [app waiting fired during after finished inbefore oof out set_finished set_inbefore]. rewrite Hw. cbn [length].
    set (s2 := mkS _ _ _ _ _ _ _ _ _).
    change (fired s2) with (fired s).
    destruct (filter (fun j => negb (mem j (fired s))) (returned (before s))) as [|j w] eqn:Ef; cbn zeta.
    - destruct (continue_passive s2) as (A & B & C & D & E & F & G); try assumption.
      { intros id Hin. apply Hp. apply in_or_app. right. exact Hin. }
      rewrite A, B, C, D, E, F, G. cbn. repeat split.
    - cbn. repeat split.
  Qed.

  (** ---- arbitrary triggers: while a firing is suspended on unfired Deferreds nothing is called ---- *)
  Definition norun (l : list ev) : Prop := forall ph id w, ~ In (ERun ph id w) l.

  Lemma put_out ph v s : out (put ph v s) = out s.
  Proof. destruct ph; reflexivity. Qed.

  Lemma remove_trigger_norun ph id s s1 :
    remove_trigger ph id s = Some s1 -> exists l, out s1 = l ++ out s /\ norun l.
  Proof.
    unfold remove_trigger, remove_base. intros H.
    assert (G : forall s', (if mem id (get ph s) then Some (emit (ERemoved ph id) (put ph (remove_first id (get ph s)) s)) else None) = Some s' ->
                           exists l, out s' = l ++ out s /\ norun l).
    { intros s' X. destruct (mem id (get ph s)); inversion X; subst. exists [ERemoved ph id]. cbn. rewrite put_out.
      split; [reflexivity | intros ? ? ? [Y | []]; discriminate]. }
    destruct ph; try (apply G; exact H).
    destruct (inbefore s); [|apply G; exact H].
    destruct (mem id (finished s)); [|apply G; exact H].
    inversion H; subst. exists [EWarn]. split; [reflexivity|]. intros ? ? ? [X | []]. discriminate.
  Qed.

  Lemma suspended_step_runs_nothing s o :
    waiting s <> [] ->
    (forall j, o = FireD j -> mem j (fired s) = true \/ filter (fun x => negb (Nat.eqb x j)) (waiting s) <> []) ->
    exists l, out (step bodies fuel s o) = l ++ out s /\ norun l /\ waiting (step bodies fuel s o) <> [].
  Proof.
    intros Hw Hj. unfold step. destruct o as [ph id | ph id | | j].
    - exists [EAdded ph id; EOp]. unfold add_trigger. cbn [out emit]. rewrite put_out. split; [reflexivity|].
      split; [intros ? ? ? [X | [X | []]]; discriminate | destruct ph; exact Hw].
    - destruct (remove_trigger ph id (emit EOp s)) as [s1|] eqn:E.
      + destruct (remove_trigger_norun _ _ _ _ E) as (l & El & Hl). exists (l ++ [EOp]). rewrite El, <- app_assoc.
        split; [reflexivity|]. split.
        * intros ph' id' w X. apply in_app_or in X. destruct X as [X | [X | []]]; [exact (Hl _ _ _ X) | discriminate].
        * unfold remove_trigger, remove_base in E.
          assert (W : waiting s1 = waiting s).
          { destruct ph; cbn in E;
              repeat match type of E with
                     | (if ?c then _ else _) = _ => destruct c
                     | Some _ = Some _ => inversion E; subst; reflexivity
                     | None = Some _ => discriminate
                     end. }
          rewrite W. exact Hw.
      + exists [EValueError; EOp]. split; [reflexivity|]. split; [|exact Hw].
        intros ? ? ? [X | [X | []]]; discriminate.
    - cbn [waiting emit]. destruct (waiting s) eqn:Ew; [congruence|]. exists [EOp].
      split; [reflexivity|]. split; [intros ? ? ? [X | []]; discriminate | cbn; rewrite Ew; discriminate].
    - unfold fire_deferred. cbn [fired emit waiting]. destruct (Hj j eq_refl) as [Hm | Hf].
      + rewrite Hm. exists [EOp]. split; [reflexivity|]. split; [intros ? ? ? [X | []]; discriminate | exact Hw].
      + destruct (mem j (fired s)).
        * exists [EOp]. split; [reflexivity|]. split; [intros ? ? ? [X | []]; discriminate | exact Hw].
        * cbn [waiting set_fired emit before during after finished inbefore fired oof out]. destruct (waiting s) as [|x w] eqn:Ew; [congruence|].
          destruct (filter (fun x0 => negb (Nat.eqb x0 j)) (x :: w)) as [|y w'] eqn:Ef; [congruence|].
          exists [EOp]. split; [reflexivity|]. split; [intros ? ? ? [X | []]; discriminate | cbn; discriminate].
  Qed.
End Proofs.

(** a non-trivial instance: two Deferred-returning before-triggers and a raising one, fired in the
    "wrong" order, a registration and a removal while suspended *)
Definition sample_bodies : list body :=
  [mkB [] (RDef 0); mkB [] RRaise; mkB [] (RDef 1); mkB [] RNone; mkB [] RNone].
Definition sample_history : list op :=
  [Add PDuring 3; Add PBefore 0; Add PAfter 4; Add PBefore 1; Add PBefore 2; Fire; Add PDuring 4; Remove PBefore 0;
   FireD 1; Remove PAfter 4; FireD 0].

Lemma sample_history_trace :
  filter (fun e => match e with ERun _ _ _ => true | EWarn => true | _ => false end)
         (trace (run sample_bodies 50 init sample_history))
  = [ERun PBefore 0 0; ERun PBefore 1 0; ERun PBefore 2 0; EWarn; ERun PDuring 3 0; ERun PDuring 4 0].
Proof. vm_compute. reflexivity. Qed.
