(** C12 proofs, second file: exactly-once ACCOUNTING for arbitrary triggers — also triggers that add and remove
    triggers of the event while it fires, raise, or exhaust the fuel.  Registrations are identified as the code
    identifies them (equal handles = same phase and callable), so the law is about counts: for every phase and
    trigger,   #registered = #still listed + #run + #removed   at every point of every history. *)
From Coq Require Import List Arith Bool Lia.
From TwLib Require Import PyListIter.
From C12 Require Import Model.
Import ListNotations.

Definition phase_eqb (a b : phase) : bool :=
  match a, b with PBefore, PBefore | PDuring, PDuring | PAfter, PAfter => true | _, _ => false end.
Lemma phase_eqb_refl a : phase_eqb a a = true. Proof. destruct a; reflexivity. Qed.
Lemma phase_eqb_eq a b : phase_eqb a b = true -> a = b. Proof. destruct a, b; cbn; congruence. Qed.

Definition is_added (ph : phase) (id : nat) (e : ev) : bool :=
  match e with EAdded p i => phase_eqb p ph && Nat.eqb i id | _ => false end.
Definition is_run (ph : phase) (id : nat) (e : ev) : bool :=
  match e with ERun p i _ => phase_eqb p ph && Nat.eqb i id | _ => false end.
Definition is_removed (ph : phase) (id : nat) (e : ev) : bool :=
  match e with ERemoved p i => phase_eqb p ph && Nat.eqb i id | _ => false end.
Definition cnt (f : ev -> bool) (o : list ev) : nat := length (filter f o).
Definition occ (id : nat) (l : list nat) : nat := length (filter (Nat.eqb id) l).

(** [d]: registrations popped from a list whose call has not been logged yet *)
Definition cons_d (d : phase -> nat -> nat) (s : st) : Prop :=
  forall ph id, cnt (is_added ph id) (out s)
                = occ id (get ph s) + cnt (is_run ph id) (out s) + cnt (is_removed ph id) (out s) + d ph id.
Definition d0 : phase -> nat -> nat := fun _ _ => 0.
Definition d1 (ph0 : phase) (id0 : nat) : phase -> nat -> nat :=
  fun ph id => if phase_eqb ph0 ph && Nat.eqb id0 id then 1 else 0.

Lemma get_put_same ph v s : get ph (put ph v s) = v. Proof. destruct ph; reflexivity. Qed.
Lemma get_put_other ph ph' v s : ph' <> ph -> get ph' (put ph v s) = get ph' s.
Proof. destruct ph, ph'; try reflexivity; congruence. Qed.
Lemma out_put ph v s : out (put ph v s) = out s. Proof. destruct ph; reflexivity. Qed.
Lemma get_emit ph e s : get ph (emit e s) = get ph s. Proof. destruct ph; reflexivity. Qed.

Lemma occ_app id a b : occ id (a ++ b) = occ id a + occ id b.
Proof. unfold occ. rewrite filter_app, app_length. reflexivity. Qed.

Lemma occ_remove_first_same id l : mem id l = true -> S (occ id (remove_first id l)) = occ id l.
Proof.
  unfold occ, mem. induction l as [|x l IH]; cbn; [discriminate|].
  destruct (Nat.eqb_spec id x) as [-> | Hne]; cbn.
  - intros _. reflexivity.
  - intros H. destruct (Nat.eqb_spec id x); [contradiction|]. apply IH. exact H.
Qed.
Lemma occ_remove_first_other id id' l : id' <> id -> occ id' (remove_first id l) = occ id' l.
Proof.
  intros Hne. unfold occ. induction l as [|x l IH]; cbn; [reflexivity|].
  destruct (Nat.eqb_spec id x) as [-> | Hx]; cbn.
  - destruct (Nat.eqb_spec id' x); [contradiction | reflexivity].
  - destruct (Nat.eqb id' x); cbn; rewrite IH; reflexivity.
Qed.

Lemma phase_id_dec ph id ph' id' :
  (phase_eqb ph' ph && Nat.eqb id' id = true /\ ph' = ph /\ id' = id) \/ (phase_eqb ph' ph && Nat.eqb id' id = false /\ (ph' <> ph \/ id' <> id)).
Proof.
  destruct (phase_eqb ph' ph) eqn:E1; destruct (Nat.eqb_spec id' id) as [E2 | E2]; cbn.
  - left. split; [reflexivity|]. split; [apply phase_eqb_eq; exact E1 | exact E2].
  - right. split; [reflexivity | right; exact E2].
  - right. split; [reflexivity|]. left. intros ->. rewrite phase_eqb_refl in E1. discriminate.
  - right. split; [reflexivity | right; exact E2].
Qed.

Lemma add_trigger_cons d ph id s : cons_d d s -> cons_d d (add_trigger ph id s).
Proof.
  intros H ph' id'. specialize (H ph' id'). unfold add_trigger, cnt in *. rewrite get_emit. cbn [out emit filter is_added is_run is_removed].
  rewrite out_put. destruct (phase_id_dec ph' id' ph id) as [(E & Ea & Eb) | (E & Hne)]; [subst ph' id'|]; rewrite E; cbn [length].
  - rewrite get_put_same, occ_app. unfold occ at 2. cbn. rewrite Nat.eqb_refl. cbn. lia.
  - destruct (phase_eqb ph ph') eqn:Ep.
    + apply phase_eqb_eq in Ep. subst ph'. rewrite get_put_same, occ_app. unfold occ at 2. cbn.
      destruct (Nat.eqb_spec id' id) as [-> | Hi]; [destruct Hne; congruence|]. cbn. lia.
    + rewrite get_put_other; [exact H|]. intros ->. rewrite phase_eqb_refl in Ep. discriminate.
Qed.

Lemma remove_base_cons d ph id s s1 : remove_base ph id s = Some s1 -> cons_d d s -> cons_d d s1.
Proof.
  unfold remove_base. destruct (mem id (get ph s)) eqn:Em; [|discriminate]. intros X. injection X as <-.
  intros H ph' id'. specialize (H ph' id'). unfold cnt in *. rewrite get_emit. cbn [out emit filter is_added is_run is_removed].
  rewrite out_put. destruct (phase_id_dec ph' id' ph id) as [(E & Ea & Eb) | (E & Hne)]; [subst ph' id'|]; rewrite E; cbn [length].
  - rewrite get_put_same. pose proof (occ_remove_first_same id (get ph s) Em). lia.
  - destruct (phase_eqb ph ph') eqn:Ep.
    + apply phase_eqb_eq in Ep. subst ph'. rewrite get_put_same.
      rewrite occ_remove_first_other; [exact H|]. destruct Hne; congruence.
    + rewrite get_put_other; [exact H|]. intros ->. rewrite phase_eqb_refl in Ep. discriminate.
Qed.

Lemma remove_trigger_cons d ph id s s1 : remove_trigger ph id s = Some s1 -> cons_d d s -> cons_d d s1.
Proof.
  unfold remove_trigger. destruct ph; try apply remove_base_cons.
  destruct (inbefore s); [|apply remove_base_cons]. destruct (mem id (finished s)); [|apply remove_base_cons].
  intros X. inversion X; subst. intros H ph' id'. exact (H ph' id').
Qed.

Section WithBodies.
  Variable bodies : list body.

  Lemma run_acts_cons d l : forall s, cons_d d s -> cons_d d (fst (run_acts l s)).
  Proof.
    induction l as [|a l IH]; intros s H; [exact H|]. destruct a as [ph id | ph id]; cbn [run_acts].
    - apply IH. apply add_trigger_cons. exact H.
    - destruct (remove_trigger ph id s) as [s1|] eqn:E; [apply IH; eapply remove_trigger_cons; eauto | exact H].
  Qed.

  (** the call itself is logged: the popped registration becomes a run *)
  Lemma call_cons ph id w s : cons_d (d1 ph id) s -> cons_d d0 (fst (call bodies ph id w s)).
  Proof.
    intros H. unfold call.
    assert (H1 : cons_d d0 (emit (ERun ph id w) s)).
    { intros ph' id'. specialize (H ph' id'). unfold cnt, d0, d1 in *. cbn [out emit filter is_added is_run is_removed get].
      assert (G : get ph' (emit (ERun ph id w) s) = get ph' s) by (destruct ph'; reflexivity). rewrite G.
      destruct (phase_eqb ph ph' && Nat.eqb id id'); cbn [length]; lia. }
    pose proof (run_acts_cons d0 (acts (body_of bodies id)) _ H1) as H2.
    destruct (run_acts (acts (body_of bodies id)) (emit (ERun ph id w) s)) as [s1 ok]. exact H2.
  Qed.

  Lemma pop_cons ph id r s : get ph s = id :: r -> cons_d d0 s -> cons_d (d1 ph id) (put ph r s).
  Proof.
    intros Hg H ph' id'. specialize (H ph' id'). unfold d0, d1 in *. rewrite out_put.
    destruct (phase_id_dec ph' id' ph id) as [(E & Ea & Eb) | (E & Hne)]; rewrite E.
    - subst. rewrite get_put_same. rewrite Hg in H. unfold occ in *. cbn in H. rewrite Nat.eqb_refl in H. cbn in H. lia.
    - destruct (phase_eqb ph ph') eqn:Ep.
      + apply phase_eqb_eq in Ep. subst ph'. rewrite get_put_same. rewrite Hg in H. unfold occ in *. cbn in H.
        destruct (Nat.eqb_spec id' id) as [Ei | Hi]; [destruct Hne; congruence|]. cbn in H. lia.
      + rewrite get_put_other; [lia|]. intros ->. rewrite phase_eqb_refl in Ep. discriminate.
  Qed.

  Lemma cons_same d s s' : (forall ph, get ph s' = get ph s) -> out s' = out s -> cons_d d s -> cons_d d s'.
  Proof. intros Hg Ho H ph id. rewrite Hg, Ho. apply H. Qed.

  Lemma before_loop_cons : forall fuel acc s, cons_d d0 s -> cons_d d0 (fst (before_loop bodies fuel acc s)).
  Proof.
    induction fuel as [|f IH]; intros acc s H; cbn [before_loop].
    - cbn [fst]. destruct (before s); [exact H|]. eapply cons_same; [| |exact H]; [intros ph; destruct ph|]; reflexivity.
    - destruct (before s) as [|id r] eqn:Eb; [exact H|].
      assert (H1 : cons_d (d1 PBefore id) (set_finished (finished s ++ [id]) (set_before r s))).
      { eapply cons_same; [| |apply (pop_cons PBefore id r s Eb H)]; [intros ph; destruct ph|]; reflexivity. }
      pose proof (call_cons PBefore id (length (waiting (set_finished (finished s ++ [id]) (set_before r s)))) _ H1) as H2.
      destruct (call bodies PBefore id _ _) as [s2 x]. apply IH. exact H2.
  Qed.

  Lemma phase_loop_cons ph : forall fuel s, cons_d d0 s -> cons_d d0 (phase_loop bodies ph fuel s).
  Proof.
    induction fuel as [|f IH]; intros s H; cbn [phase_loop].
    - destruct (get ph s); [exact H|]. eapply cons_same; [| |exact H]; [intros p; destruct p|]; reflexivity.
    - destruct (get ph s) as [|id r] eqn:Eg; [exact H|].
      pose proof (call_cons ph id (length (waiting s)) _ (pop_cons ph id r s Eg H)) as H2.
      destruct (call bodies ph id _ _) as [s2 x]. apply IH. exact H2.
  Qed.

  Variable fuel : nat.

  Lemma continue_cons s : cons_d d0 s -> cons_d d0 (continue_firing bodies fuel s).
  Proof.
    intros H. unfold continue_firing. apply phase_loop_cons. apply phase_loop_cons.
    eapply cons_same; [| |exact H]; [intros p; destruct p|]; reflexivity.
  Qed.

  Lemma fire_event_cons s : cons_d d0 s -> cons_d d0 (fire_event bodies fuel s).
  Proof.
    intros H. unfold fire_event.
    assert (H1 : cons_d d0 (set_finished [] (set_inbefore true s))).
    { eapply cons_same; [| |exact H]; [intros p; destruct p|]; reflexivity. }
    pose proof (before_loop_cons fuel [] _ H1) as H2.
    destruct (before_loop bodies fuel [] (set_finished [] (set_inbefore true s))) as [s2 ds]. cbn [fst] in H2.
    destruct (filter _ ds); [apply continue_cons; exact H2|].
    eapply cons_same; [| |exact H2]; [intros p; destruct p|]; reflexivity.
  Qed.

  Lemma step_cons s o : cons_d d0 s -> cons_d d0 (step bodies fuel s o).
  Proof.
    intros H0. unfold step.
    assert (H : cons_d d0 (emit EOp s)).
    { intros ph id. specialize (H0 ph id). unfold cnt in *. cbn [out emit filter is_added is_run is_removed].
      assert (G : get ph (emit EOp s) = get ph s) by (destruct ph; reflexivity). rewrite G. exact H0. }
    set (s1 := emit EOp s) in *. clearbody s1. clear H0 s. rename s1 into s.
    destruct o as [ph id | ph id | | j].
    - apply add_trigger_cons. exact H.
    - destruct (remove_trigger ph id s) as [s1|] eqn:E; [eapply remove_trigger_cons; eauto|].
      intros ph' id'. specialize (H ph' id'). unfold cnt in *. cbn [out emit filter is_added is_run is_removed].
      assert (G : get ph' (emit EValueError s) = get ph' s) by (destruct ph'; reflexivity). rewrite G. exact H.
    - destruct (waiting s); [apply fire_event_cons|]; exact H.
    - unfold fire_deferred. destruct (mem j (fired s)); [exact H|].
      assert (H1 : cons_d d0 (set_fired (j :: fired s) s)).
      { eapply cons_same; [| |exact H]; [intros p; destruct p|]; reflexivity. }
      cbn [waiting set_fired]. destruct (waiting s) as [|x w]; [exact H1|].
      destruct (filter _ (x :: w)).
      + apply continue_cons. eapply cons_same; [| |exact H1]; [intros p; destruct p|]; reflexivity.
      + eapply cons_same; [| |exact H1]; [intros p; destruct p|]; reflexivity.
  Qed.

  Lemma reach_cons ops : cons_d d0 (run bodies fuel init ops).
  Proof.
    unfold run. assert (G : forall ops s, cons_d d0 s -> cons_d d0 (fold_left (step bodies fuel) ops s)).
    { induction ops0 as [|o r IH]; intros s H; cbn; [exact H|]. apply IH, step_cons, H. }
    apply G. intros ph id. destruct ph; reflexivity.
  Qed.

  (** each loop ends only when its list is empty (or the fuel is exhausted, which the real loop never is) *)
  Lemma before_loop_ends_empty : forall f acc s,
    before (fst (before_loop bodies f acc s)) = [] \/ oof (fst (before_loop bodies f acc s)) = true.
  Proof.
    induction f as [|f IH]; intros acc s; cbn [before_loop].
    - cbn [fst]. destruct (before s) eqn:E; [left; exact E | right; reflexivity].
    - destruct (before s) as [|id r] eqn:E; [left; exact E|].
      destruct (call bodies PBefore id _ _) as [s2 x]. apply IH.
  Qed.
  Lemma phase_loop_ends_empty ph : forall f s,
    get ph (phase_loop bodies ph f s) = [] \/ oof (phase_loop bodies ph f s) = true.
  Proof.
    induction f as [|f IH]; intros s; cbn [phase_loop].
    - destruct (get ph s) eqn:E; [left; exact E | right; destruct ph; reflexivity].
    - destruct (get ph s) as [|id r] eqn:E; [left; exact E|].
      destruct (call bodies ph id _ _) as [s2 x]. apply IH.
  Qed.
End WithBodies.

Lemma accounting_lemma bodies fuel ops ph id :
  let s := run bodies fuel init ops in
  cnt (is_added ph id) (out s)
  = occ id (get ph s) + cnt (is_run ph id) (out s) + cnt (is_removed ph id) (out s).
Proof. pose proof (reach_cons bodies fuel ops ph id) as H. unfold d0 in H. cbn zeta. rewrite H. apply Nat.add_0_r. Qed.

(** a re-entrant instance: trigger 0 (before) removes before-trigger 1 and adds during-trigger 2 and itself again as
    an after-trigger; trigger 2 raises; everything is accounted for *)
Definition re_bodies : list body :=
  [mkB [ARemove PBefore 1; AAdd PDuring 2; AAdd PAfter 0] RNone; mkB [] RNone; mkB [AAdd PDuring 1] RRaise].
Definition re_history : list op := [Add PBefore 0; Add PBefore 1; Add PBefore 1; Add PAfter 1; Fire].
Lemma re_history_accounts :
  let s := run re_bodies 50 init re_history in
  oof s = false /\ before s = [] /\ after s = [] /\ during s = []
  /\ cnt (is_run PBefore 1) (out s) = 1 /\ cnt (is_removed PBefore 1) (out s) = 1 /\ cnt (is_added PBefore 1) (out s) = 2
  /\ cnt (is_run PDuring 1) (out s) = 1 /\ cnt (is_run PAfter 0) (out s) = 1.
Proof. vm_compute. repeat split. Qed.
