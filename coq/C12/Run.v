(** C12: printers used by the correspondence check only. *)
From Coq Require Import List Arith Bool String.
From TwLib Require Import Show.
From C12 Require Import Model.
Import ListNotations.
Local Open Scope string_scope.

Definition show_phase (p : phase) : string := match p with PBefore => "b" | PDuring => "d" | PAfter => "a" end.
Definition show_ev (e : ev) : string :=
  match e with
  | EOp => "/"
  | ERun ph id _ => show_phase ph ++ show_nat id ++ ";"
  | EWarn => "w;"
  | EValueError => "!V;"
  | EAdded _ _ | ERemoved _ _ => ""
  end.

Definition run_show (c : list body * list op) : string :=
  let '(bodies, ops) := c in
  let s := run bodies 200 init ops in
  if oof s then "OOF" else
  String.concat "" (map show_ev (trace s)) ++ " |" ++ show_list show_nat (before s) ++ show_list show_nat (during s)
  ++ show_list show_nat (after s).
