(** C12: _ThreePhaseEvent (src/twisted/internet/base.py) — system event triggers.

    Triggers are callables identified by a number; the three phase lists hold those numbers in
    registration order (list.append / list.remove(first equal) / pop(0), exactly as the code).
    A trigger's behaviour when called is a script [body]: it may add and remove triggers of the
    same event (re-entrantly, while the event is being fired) and then returns None, returns a
    Deferred (numbered, fired later by the history) or raises.  A failing removeTrigger inside a
    trigger raises ValueError out of the trigger (swallowed by the logging context manager like
    any other exception).  Loops carry fuel; [oof] records fuel exhaustion (a trigger that keeps
    re-adding triggers makes the real `while self.before:` loop diverge). *)
From Coq Require Import List Arith Bool.
From TwLib Require Import PyListIter.
Import ListNotations.

Inductive phase := PBefore | PDuring | PAfter.
Inductive act := AAdd (ph : phase) (id : nat) | ARemove (ph : phase) (id : nat).
Inductive res := RNone | RDef (j : nat) | RRaise.
Record body := mkB { acts : list act; fin : res }.

Inductive op :=
| Add (ph : phase) (id : nat)
| Remove (ph : phase) (id : nat)
| Fire                            (* fireEvent() *)
| FireD (j : nat).                (* a Deferred returned by a before-trigger fires *)

Inductive ev :=
| EOp
| ERun (ph : phase) (id : nat) (w : nat)   (* trigger called; ghost w: Deferreds of its firing still unfired *)
| EWarn                                     (* DeprecationWarning: removing an already-run before-trigger *)
| EValueError                               (* removeTrigger raised ValueError to the caller *)
| EAdded (ph : phase) (id : nat)            (* ghost: a registration was appended to the phase list *)
| ERemoved (ph : phase) (id : nat).         (* ghost: a registration was taken out of the phase list by removeTrigger *)

Record st := mkS {
  before : list nat; during : list nat; after : list nat;
  finished : list nat;            (* finishedBefore *)
  inbefore : bool;                (* state == 'BEFORE' *)
  waiting : list nat;             (* Deferreds the DeferredList of the suspended firing still waits for *)
  fired : list nat;               (* Deferreds that have fired *)
  oof : bool;
  out : list ev                   (* newest first *)
}.

Definition set_before v s := mkS v (during s) (after s) (finished s) (inbefore s) (waiting s) (fired s) (oof s) (out s).
Definition set_during v s := mkS (before s) v (after s) (finished s) (inbefore s) (waiting s) (fired s) (oof s) (out s).
Definition set_after v s := mkS (before s) (during s) v (finished s) (inbefore s) (waiting s) (fired s) (oof s) (out s).
Definition set_finished v s := mkS (before s) (during s) (after s) v (inbefore s) (waiting s) (fired s) (oof s) (out s).
Definition set_inbefore v s := mkS (before s) (during s) (after s) (finished s) v (waiting s) (fired s) (oof s) (out s).
Definition set_waiting v s := mkS (before s) (during s) (after s) (finished s) (inbefore s) v (fired s) (oof s) (out s).
Definition set_fired v s := mkS (before s) (during s) (after s) (finished s) (inbefore s) (waiting s) v (oof s) (out s).
Definition set_oof v s := mkS (before s) (during s) (after s) (finished s) (inbefore s) (waiting s) (fired s) v (out s).
Definition emit e s := mkS (before s) (during s) (after s) (finished s) (inbefore s) (waiting s) (fired s) (oof s) (e :: out s).

Definition get (ph : phase) (s : st) : list nat :=
  match ph with PBefore => before s | PDuring => during s | PAfter => after s end.
Definition put (ph : phase) (v : list nat) (s : st) : st :=
  match ph with PBefore => set_before v s | PDuring => set_during v s | PAfter => set_after v s end.

Definition mem (x : nat) (l : list nat) : bool := existsb (Nat.eqb x) l.

Definition add_trigger (ph : phase) (id : nat) (s : st) : st := emit (EAdded ph id) (put ph (get ph s ++ [id]) s).

(* removeTrigger_BASE: None = ValueError *)
Definition remove_base (ph : phase) (id : nat) (s : st) : option st :=
  if mem id (get ph s) then Some (emit (ERemoved ph id) (put ph (remove_first id (get ph s)) s)) else None.

Definition remove_trigger (ph : phase) (id : nat) (s : st) : option st :=
  match ph with
  | PBefore =>
      if inbefore s then
        if mem id (finished s) then Some (emit EWarn s) else remove_base ph id s
      else remove_base ph id s
  | _ => remove_base ph id s
  end.

Section WithBodies.
  Variable bodies : list body.
  Definition passive : body := mkB [] RNone.
  Definition body_of (id : nat) : body := nth id bodies passive.

  (* run the trigger's script; a failing remove aborts it (the exception is swallowed by the caller) *)
  Fixpoint run_acts (l : list act) (s : st) : st * bool :=
    match l with
    | [] => (s, true)
    | AAdd ph id :: r => run_acts r (add_trigger ph id s)
    | ARemove ph id :: r =>
        match remove_trigger ph id s with
        | Some s1 => run_acts r s1
        | None => (s, false)
        end
    end.

  (* `with _systemEventHandler: result = callable()` *)
  Definition call (ph : phase) (id : nat) (w : nat) (s : st) : st * res :=
    let b := body_of id in
    let '(s1, ok) := run_acts (acts b) (emit (ERun ph id w) s) in
    (s1, if ok then fin b else RRaise).

  (* `while self.before: pop(0); finishedBefore.append; call; collect Deferreds` *)
  Fixpoint before_loop (fuel : nat) (acc : list nat) (s : st) : st * list nat :=
    match fuel with
    | 0 => (match before s with [] => s | _ => set_oof true s end, acc)
    | S f =>
        match before s with
        | [] => (s, acc)
        | id :: r =>
            let s1 := set_finished (finished s ++ [id]) (set_before r s) in
            let '(s2, x) := call PBefore id (length (waiting s1)) s1 in
            before_loop f (match x with RDef j => acc ++ [j] | _ => acc end) s2
        end
    end.

  (* `while phase: pop(0); call` for during / after *)
  Fixpoint phase_loop (ph : phase) (fuel : nat) (s : st) : st :=
    match fuel with
    | 0 => match get ph s with [] => s | _ => set_oof true s end
    | S f =>
        match get ph s with
        | [] => s
        | id :: r =>
            let '(s2, _) := call ph id (length (waiting s)) (put ph r s) in
            phase_loop ph f s2
        end
    end.

  Variable fuel : nat.

  Definition continue_firing (s : st) : st :=
    let s1 := set_finished [] (set_inbefore false s) in
    phase_loop PAfter fuel (phase_loop PDuring fuel s1).

  Definition fire_event (s : st) : st :=
    let s1 := set_finished [] (set_inbefore true s) in
    let '(s2, ds) := before_loop fuel [] s1 in
    let w := filter (fun j => negb (mem j (fired s2))) ds in
    match w with
    | [] => continue_firing s2                      (* DeferredList of fired Deferreds fires at once *)
    | _ => set_waiting w s2
    end.

  (* Deferred j fires: the waiting DeferredList drops it and runs _continueFiring when complete *)
  Definition fire_deferred (j : nat) (s : st) : st :=
    if mem j (fired s) then s
    else
      let s1 := set_fired (j :: fired s) s in
      match waiting s1 with
      | [] => s1
      | w =>
          match filter (fun x => negb (Nat.eqb x j)) w with
          | [] => continue_firing (set_waiting [] s1)
          | w' => set_waiting w' s1
          end
      end.

  Definition step (s0 : st) (o : op) : st :=
    let s := emit EOp s0 in
    match o with
    | Add ph id => add_trigger ph id s
    | Remove ph id =>
        match remove_trigger ph id s with
        | Some s1 => s1
        | None => emit EValueError s
        end
    | Fire => match waiting s with [] => fire_event s | _ => s end   (* re-firing a suspended event: not modelled *)
    | FireD j => fire_deferred j s
    end.

  Definition run (s : st) (ops : list op) : st := fold_left step ops s.
End WithBodies.

Definition init : st := mkS [] [] [] [] false [] [] false [].
Definition trace (s : st) : list ev := rev (out s).
