(** C12 property theorems.  [bodies] = what each trigger does when called, [fuel] bounds the loops (a
    trigger that keeps re-adding triggers would make the real loop diverge; [oof] flags that).
    The states [s] are arbitrary: the three lists are whatever any history of addTrigger /
    removeTrigger (list.append / list.remove) left in them, in registration order.
    "passive" = the trigger returns None, returns a Deferred or raises, but does not itself add or
    remove triggers of the event while it fires (the property's quantifier). *)
From Coq Require Import List Arith Bool.
From C12 Require Import Model Proofs Proofs2.
Import ListNotations.

(** `while self.before:` — every before-trigger is called exactly once, in registration order, WHATEVER it
    returns or raises (an exception does not stop the others); the list ends empty; the returned Deferreds are
    collected in order *)
Theorem before_triggers_run_once_each_in_registration_order_despite_exceptions :
  forall bodies l f acc s,
  before s = l -> length l <= f -> (forall id, In id l -> passive_id bodies id) ->
  before_loop bodies f acc s =
    (mkS [] (during s) (after s) (finished s ++ l) (inbefore s) (waiting s) (fired s) (oof s)
         (runs PBefore (length (waiting s)) l ++ out s),
     acc ++ returned bodies l).
Proof. exact before_loop_passive. Qed.
Print Assumptions before_triggers_run_once_each_in_registration_order_despite_exceptions.

(** _continueFiring — the during-triggers, then the after-triggers, each exactly once in registration order;
    both lists end empty; before-triggers registered meanwhile are kept for the next firing *)
Theorem during_then_after_triggers_run_once_each_in_registration_order :
  forall bodies fuel s,
  length (during s) <= fuel -> length (after s) <= fuel ->
  (forall id, In id (during s ++ after s) -> passive_id bodies id) ->
  let s' := continue_firing bodies fuel s in
  out s' = runs PAfter (length (waiting s)) (after s) ++ runs PDuring (length (waiting s)) (during s) ++ out s
  /\ during s' = [] /\ after s' = [] /\ before s' = before s /\ inbefore s' = false /\ oof s' = oof s
  /\ waiting s' = waiting s.
Proof. exact continue_passive. Qed.
Print Assumptions during_then_after_triggers_run_once_each_in_registration_order.

(** fireEvent() — before-triggers first; if every Deferred they returned has already fired, the during- and
    after-triggers follow at once (log, newest first: after, during, before); otherwise the firing is suspended
    on exactly the unfired returned Deferreds and no during/after trigger has been called *)
Theorem phase_order_and_wait_for_before_deferreds :
  forall bodies fuel s,
  waiting s = [] ->
  length (before s) <= fuel -> length (during s) <= fuel -> length (after s) <= fuel ->
  (forall id, In id (before s ++ during s ++ after s) -> passive_id bodies id) ->
  let owed := filter (fun j => negb (mem j (fired s))) (returned bodies (before s)) in
  let s' := fire_event bodies fuel s in
  before s' = [] /\ oof s' = oof s /\ waiting s' = owed /\
  match owed with
  | [] => out s' = runs PAfter 0 (after s) ++ runs PDuring 0 (during s) ++ runs PBefore 0 (before s) ++ out s
          /\ during s' = [] /\ after s' = [] /\ inbefore s' = false
  | _ => out s' = runs PBefore 0 (before s) ++ out s
          /\ during s' = during s /\ after s' = after s /\ inbefore s' = true
  end.
Proof. exact fire_passive. Qed.
Print Assumptions phase_order_and_wait_for_before_deferreds.

(** while the firing is suspended, NO call (registration, removal, another fireEvent, the firing of a Deferred
    that is not the last one awaited) runs any trigger — for arbitrary triggers, passive or not — and the
    firing stays suspended; only the last awaited Deferred leads to _continueFiring (theorem above) *)
Theorem nothing_runs_until_every_before_deferred_has_fired :
  forall bodies fuel s o,
  waiting s <> [] ->
  (forall j, o = FireD j -> mem j (fired s) = true \/ filter (fun x => negb (Nat.eqb x j)) (waiting s) <> []) ->
  exists l, out (step bodies fuel s o) = l ++ out s /\ norun l /\ waiting (step bodies fuel s o) <> [].
Proof. exact suspended_step_runs_nothing. Qed.
Print Assumptions nothing_runs_until_every_before_deferred_has_fired.

(** a non-trivial history: Deferred-returning and raising before-triggers, Deferreds fired in the other
    order, a registration and the removal of an already-run before-trigger (warning) while suspended *)
Theorem sample_history_runs_as_stated :
  filter (fun e => match e with ERun _ _ _ => true | EWarn => true | _ => false end)
         (trace (run sample_bodies 50 init sample_history))
  = [ERun PBefore 0 0; ERun PBefore 1 0; ERun PBefore 2 0; EWarn; ERun PDuring 3 0; ERun PDuring 4 0].
Proof. exact sample_history_trace. Qed.
Print Assumptions sample_history_runs_as_stated.

(** EXACTLY-ONCE ACCOUNTING for arbitrary triggers — also triggers that add and remove triggers of the event while
    it fires (re-entrantly), that raise, whose removeTrigger fails, and even when the fuel runs out: after EVERY
    history, for every phase and trigger (registrations are identified as the code identifies them: equal handles),
        #registered  =  #still listed  +  #called  +  #removed by removeTrigger.
    No registration is ever lost, called twice, or called after having been removed. *)
Theorem every_registration_is_listed_or_was_called_once_or_was_removed : forall bodies fuel ops ph id,
  let s := run bodies fuel init ops in
  cnt (is_added ph id) (out s)
  = occ id (get ph s) + cnt (is_run ph id) (out s) + cnt (is_removed ph id) (out s).
Proof. exact accounting_lemma. Qed.
Print Assumptions every_registration_is_listed_or_was_called_once_or_was_removed.

(** ... and each phase's loop only ends when its list is empty (or the fuel is exhausted — the real loop has no
    fuel): together with the accounting, every trigger registered in a phase — before the firing or by another
    trigger during it — has been called or removed when that phase ends *)
Theorem before_phase_ends_with_an_empty_list : forall bodies f acc s,
  before (fst (before_loop bodies f acc s)) = [] \/ oof (fst (before_loop bodies f acc s)) = true.
Proof. exact before_loop_ends_empty. Qed.
Print Assumptions before_phase_ends_with_an_empty_list.

Theorem during_and_after_phases_end_with_an_empty_list : forall bodies ph f s,
  get ph (phase_loop bodies ph f s) = [] \/ oof (phase_loop bodies ph f s) = true.
Proof. exact phase_loop_ends_empty. Qed.
Print Assumptions during_and_after_phases_end_with_an_empty_list.

Theorem reentrant_sample_is_accounted_for :
  let s := run re_bodies 50 init re_history in
  oof s = false /\ before s = [] /\ after s = [] /\ during s = []
  /\ cnt (is_run PBefore 1) (out s) = 1 /\ cnt (is_removed PBefore 1) (out s) = 1 /\ cnt (is_added PBefore 1) (out s) = 2
  /\ cnt (is_run PDuring 1) (out s) = 1 /\ cnt (is_run PAfter 0) (out s) = 1.
Proof. exact re_history_accounts. Qed.
Print Assumptions reentrant_sample_is_accounted_for.
