(** C37 property theorems (nothing else lives here; each is closed by [exact]).
    NS/getNS/MP/getMP are the definitions of Gen.v, regenerated from conch/ssh/common.py.
    [Ok]/[Err] = return / raise; [ns_fits x] = the string is shorter than 2^32 bytes;
    [mp_fits n] = n >= 0 and its big-endian form is shorter than 2^32 - 1 bytes (the conditions
    under which struct.pack(">L", len) itself succeeds). *)
From Coq Require Import List NArith ZArith Bool.
From TwLib Require Import PyInt.
From C37 Require Import Gen Model Proofs.
Import ListNotations.
Open Scope Z_scope.

(** getNS(NS(x) + rest) == (x, rest) for every byte string x and every trailing rest *)
Theorem getNS_NS : forall (x rest : list N),
  ns_fits x -> exists b, NS x = Ok b /\ getNS (b ++ rest) 1 = Ok ([x], rest).
Proof. exact getNS_NS_one. Qed.
Print Assumptions getNS_NS.

(** count > 1: any number of strings encoded back to back decode to exactly that list *)
Theorem getNS_NS_count : forall (xs : list (list N)) (rest : list N),
  Forall ns_fits xs ->
  exists b, NS_all xs = Ok b /\ getNS (b ++ rest) (length xs) = Ok (xs, rest).
Proof. exact getNS_NS_all. Qed.
Print Assumptions getNS_NS_count.

(** getMP(MP(n) + rest) == (n, rest) for every n >= 0 *)
Theorem getMP_MP : forall (n : Z) (rest : list N),
  mp_fits n -> exists b, MP n = Ok b /\ getMP (b ++ rest) 1 = Ok ([n], rest).
Proof. exact getMP_MP_one. Qed.
Print Assumptions getMP_MP.

Theorem getMP_MP_count : forall (ns : list Z) (rest : list N),
  Forall mp_fits ns ->
  exists b, MP_all ns = Ok b /\ getMP (b ++ rest) (length ns) = Ok (ns, rest).
Proof. exact getMP_MP_all. Qed.
Print Assumptions getMP_MP_count.

(** what cannot be represented is refused when encoding *)
Theorem unrepresentable_refused : forall (x : list N) (n : Z),
  (~ ns_fits x -> NS x = Err StructError) /\ (n < 0 -> MP n = Err AssertionError).
Proof. intros x n. exact (conj (NS_refuses x) (MP_negative n)). Qed.
Print Assumptions unrepresentable_refused.

(** the exact bytes: 4-byte big-endian length, then the payload; for MP the payload is the
    shortest big-endian form with a zero byte in front when the top bit is set (RFC 4251 mpint) *)
Theorem wire_format : forall (x : list N) (n : Z),
  (ns_fits x -> NS x = Ok (to_be 4 (blen x) ++ x)) /\
  (mp_fits n -> MP n = Ok (to_be 4 (blen (mp_payload n)) ++ mp_payload n)
                /\ Z.of_N (from_be (mp_payload n)) = n /\ forallb is_byte (mp_payload n) = true).
Proof.
  intros x n. split; [exact (NS_ok x)|].
  intros F. exact (conj (MP_ok n F) (conj (from_be_mp_payload n (proj1 F)) (mp_payload_bytes n))).
Qed.
Print Assumptions wire_format.

(** public key blobs (RSA, DSA, ECDSA nistp256/384/521, Ed25519): Key.blob() followed by the
    framing part of Key._fromString_BLOB() gives back exactly the numbers / point / bytes *)
Theorem public_blob_roundtrip : forall k : pubkey,
  key_fits k -> exists b, blob k = Ok b /\ parse_blob b = Ok k.
Proof. exact blob_roundtrip. Qed.
Print Assumptions public_blob_roundtrip.

Theorem wide_point_refused : forall c x y,
  ~ (0 <= x < 256 ^ Z.of_nat (curve_bytes c) /\ 0 <= y < 256 ^ Z.of_nat (curve_bytes c)) ->
  blob (EC c x y) = Err OverflowError.
Proof. exact blob_refuses_wide_point. Qed.
Print Assumptions wide_point_refused.
