(** C37: proofs about the regenerated wire primitives [Gen.v] and the blob model [Model.v]. *)
From Coq Require Import List NArith ZArith Bool Lia ZifyBool.
From TwLib Require Import PyInt.
From C37 Require Import Gen Model.
Import ListNotations.
Open Scope Z_scope.

(** the bytes NS / MP put in front of a payload *)
Definition hdr (x : list N) : list N := to_be 4 (blen x).
Definition frame (x : list N) : list N := hdr x ++ x.

Lemma blen_hdr x : blen (hdr x) = 4%N.
Proof. unfold hdr. now rewrite blen_to_be. Qed.

Lemma from_be_hdr x : (blen x < 4294967296)%N -> from_be (hdr x) = blen x.
Proof. intros H. unfold hdr. apply from_be_to_be_small. exact H. Qed.

Lemma NS_ok x : ns_fits x -> NS x = Ok (frame x).
Proof.
  unfold ns_fits, NS, frame, hdr. intros H.
  destruct ((0 <=? Z.of_N (blen x)) && (Z.of_N (blen x) <? 4294967296))%bool eqn:G; [|lia].
  now rewrite N2Z.id.
Qed.

Lemma NS_refuses x : ~ ns_fits x -> NS x = Err StructError.
Proof.
  unfold ns_fits, NS. intros H.
  destruct ((0 <=? Z.of_N (blen x)) && (Z.of_N (blen x) <? 4294967296))%bool eqn:G; [lia|reflexivity].
Qed.

(** slicing helpers in the exact shapes Gen.v uses *)
Lemma slice_at {A} (s p x r : list A) a b :
  s = p ++ x ++ r -> a = Z.of_N (blen p) -> b = Z.of_N (blen p + blen x) -> pyslice s a b = x.
Proof. intros -> -> ->. apply pyslice_app_mid. Qed.

Lemma slice_from_at {A} (s p r : list A) a : s = p ++ r -> a = Z.of_N (blen p) -> pyslice_from s a = r.
Proof. intros -> ->. apply pyslice_from_app. Qed.

(** ---- getNS ---- *)
Lemma getNS_loop_frames xs : forall pre rest ns,
  Forall ns_fits xs ->
  getNS_loop (length xs) (pre ++ concat (map frame xs) ++ rest) ns (Z.of_N (blen pre))
  = Ok (ns ++ xs, Z.of_N (blen (pre ++ concat (map frame xs)))).
Proof.
  induction xs as [|x xs IH]; intros pre rest ns F.
  - cbn. now rewrite !app_nil_r.
  - inversion F as [|? ? Fx Fxs]; subst. unfold ns_fits in Fx.
    cbn [length map concat getNS_loop].
    set (s := pre ++ (frame x ++ concat (map frame xs)) ++ rest).
    assert (Hh : pyslice s (Z.of_N (blen pre)) (Z.of_N (blen pre) + 4) = hdr x).
    { apply slice_at with (p := pre) (r := x ++ concat (map frame xs) ++ rest).
      - unfold s, frame. now rewrite <- !app_assoc.
      - reflexivity.
      - rewrite blen_hdr. lia. }
    rewrite Hh, blen_hdr. cbn [N.eqb Pos.eqb]. rewrite from_be_hdr by exact Fx.
    assert (Hx : pyslice s (Z.of_N (blen pre) + 4) (4 + Z.of_N (blen x) + Z.of_N (blen pre)) = x).
    { apply slice_at with (p := pre ++ hdr x) (r := concat (map frame xs) ++ rest).
      - unfold s, frame. now rewrite <- !app_assoc.
      - rewrite blen_app, blen_hdr. lia.
      - rewrite blen_app, blen_hdr. lia. }
    rewrite Hx.
    replace (Z.of_N (blen pre) + (4 + Z.of_N (blen x))) with (Z.of_N (blen (pre ++ frame x))).
    2:{ unfold frame. rewrite !blen_app, blen_hdr. lia. }
    replace s with ((pre ++ frame x) ++ concat (map frame xs) ++ rest).
    2:{ unfold s. now rewrite <- !app_assoc. }
    rewrite IH by exact Fxs. rewrite <- !app_assoc. reflexivity.
Qed.

Lemma getNS_frames xs rest :
  Forall ns_fits xs -> getNS (concat (map frame xs) ++ rest) (length xs) = Ok (xs, rest).
Proof.
  intros F. unfold getNS.
  pose proof (getNS_loop_frames xs [] rest [] F) as L. cbn [app blen length N.of_nat Z.of_N] in L.
  change (Z.of_N (blen (@nil N))) with 0 in L. cbn [app] in L. rewrite L.
  f_equal. f_equal. apply slice_from_at with (p := concat (map frame xs)); reflexivity.
Qed.

(** sequencing NS over a list of strings *)
Fixpoint NS_all (xs : list (list N)) : res (list N) :=
  match xs with
  | [] => Ok []
  | x :: r => bind (NS x) (fun a => bind (NS_all r) (fun b => Ok (a ++ b)))
  end.

Lemma NS_all_ok xs : Forall ns_fits xs -> NS_all xs = Ok (concat (map frame xs)).
Proof.
  induction 1 as [|x xs Fx _ IH]; [reflexivity|].
  cbn [NS_all map concat]. rewrite (NS_ok x Fx), IH. reflexivity.
Qed.

Lemma getNS_NS_all xs rest :
  Forall ns_fits xs ->
  exists b, NS_all xs = Ok b /\ getNS (b ++ rest) (length xs) = Ok (xs, rest).
Proof. intros F. eexists; split; [apply NS_all_ok, F|apply getNS_frames, F]. Qed.

Lemma getNS_NS_one x rest :
  ns_fits x -> exists b, NS x = Ok b /\ getNS (b ++ rest) 1 = Ok ([x], rest).
Proof.
  intros F. exists (frame x). split; [now apply NS_ok|].
  pose proof (getNS_frames [x] rest (Forall_cons _ F (Forall_nil _))) as G.
  cbn [map concat length] in G. now rewrite app_nil_r in G.
Qed.

(** ---- MP / getMP ---- *)

(** payload MP chooses for n > 0 (leading zero when the top bit is set), empty for 0 *)
Definition mp_payload (n : Z) : list N :=
  if n =? 0 then []
  else let bn := to_be_min (Z.to_N n) in
       if negb (Z.land (Z.of_N (hd 0%N bn)) 128 =? 0) then 0%N :: bn else bn.

Lemma from_be_mp_payload n : 0 <= n -> Z.of_N (from_be (mp_payload n)) = n.
Proof.
  intros H. unfold mp_payload. destruct (n =? 0) eqn:E; [cbn; lia|].
  destruct (negb _); [rewrite from_be_zero_cons|]; rewrite from_be_to_be_min; lia.
Qed.

Lemma mp_payload_fits n : mp_fits n -> ns_fits (mp_payload n).
Proof.
  intros [H0 H]. unfold ns_fits, mp_payload. destruct (n =? 0); [cbn; lia|].
  destruct (negb _); [rewrite blen_cons|]; lia.
Qed.

Lemma pyslice_0_1 (l : list N) : l <> [] -> pyslice l 0 1 = [hd 0%N l].
Proof.
  destruct l as [|x l]; [congruence|]. intros _.
  unfold pyslice. rewrite !clampZ_nonneg by lia. rewrite blen_cons.
  replace (Z.to_N (Z.min 0 (Z.of_N (1 + blen l)))) with 0%N by lia.
  replace (Z.to_N (Z.min 1 (Z.of_N (1 + blen l)))) with 1%N by lia.
  cbn. now rewrite takeN_0.
Qed.

Lemma MP_ok n : mp_fits n -> MP n = Ok (frame (mp_payload n)).
Proof.
  intros F. pose proof (mp_payload_fits n F) as P. destruct F as [H0 Hlen].
  unfold MP, mp_payload in *. destruct (n =? 0) eqn:E0; [reflexivity|].
  destruct (n >? 0) eqn:E1; [|lia]. destruct (0 <=? n) eqn:E2; [|lia].
  rewrite pyslice_0_1 by apply to_be_min_nonempty.
  change (blen [hd 0%N (to_be_min (Z.to_N n))]) with 1%N. cbn [N.eqb Pos.eqb hd].
  unfold ns_fits in P.
  destruct (negb (Z.land (Z.of_N (hd 0%N (to_be_min (Z.to_N n)))) 128 =? 0)) eqn:T.
  - change ([0%N] ++ to_be_min (Z.to_N n)) with (0%N :: to_be_min (Z.to_N n)).
    destruct ((0 <=? Z.of_N (blen (0%N :: to_be_min (Z.to_N n))))
              && (Z.of_N (blen (0%N :: to_be_min (Z.to_N n))) <? 4294967296))%bool eqn:G; [|lia].
    unfold frame, hdr. now rewrite N2Z.id.
  - destruct ((0 <=? Z.of_N (blen (to_be_min (Z.to_N n))))
              && (Z.of_N (blen (to_be_min (Z.to_N n))) <? 4294967296))%bool eqn:G; [|lia].
    unfold frame, hdr. now rewrite N2Z.id.
Qed.

Lemma MP_negative n : n < 0 -> MP n = Err AssertionError.
Proof.
  intros H. unfold MP. destruct (n =? 0) eqn:E0; [lia|]. destruct (n >? 0) eqn:E1; [lia|reflexivity].
Qed.

Lemma getMP_loop_frames ps : forall pre rest mp,
  Forall ns_fits ps ->
  getMP_loop (length ps) (pre ++ concat (map frame ps) ++ rest) mp (Z.of_N (blen pre))
  = Ok (mp ++ map (fun p => Z.of_N (from_be p)) ps, Z.of_N (blen (pre ++ concat (map frame ps)))).
Proof.
  induction ps as [|x xs IH]; intros pre rest mp F.
  - cbn. now rewrite !app_nil_r.
  - inversion F as [|? ? Fx Fxs]; subst. unfold ns_fits in Fx.
    cbn [length map concat getMP_loop].
    set (s := pre ++ (frame x ++ concat (map frame xs)) ++ rest).
    assert (Hh : pyslice s (Z.of_N (blen pre)) (Z.of_N (blen pre) + 4) = hdr x).
    { apply slice_at with (p := pre) (r := x ++ concat (map frame xs) ++ rest).
      - unfold s, frame. now rewrite <- !app_assoc.
      - reflexivity.
      - rewrite blen_hdr. lia. }
    rewrite Hh, blen_hdr. cbn [N.eqb Pos.eqb]. rewrite from_be_hdr by exact Fx.
    assert (Hx : pyslice s (Z.of_N (blen pre) + 4) (Z.of_N (blen pre) + 4 + Z.of_N (blen x)) = x).
    { apply slice_at with (p := pre ++ hdr x) (r := concat (map frame xs) ++ rest).
      - unfold s, frame. now rewrite <- !app_assoc.
      - rewrite blen_app, blen_hdr. lia.
      - rewrite blen_app, blen_hdr. lia. }
    rewrite Hx.
    replace (Z.of_N (blen pre) + (4 + Z.of_N (blen x))) with (Z.of_N (blen (pre ++ frame x))).
    2:{ unfold frame. rewrite !blen_app, blen_hdr. lia. }
    replace s with ((pre ++ frame x) ++ concat (map frame xs) ++ rest).
    2:{ unfold s. now rewrite <- !app_assoc. }
    rewrite IH by exact Fxs. rewrite <- !app_assoc. reflexivity.
Qed.

Lemma getMP_frames ps rest :
  Forall ns_fits ps ->
  getMP (concat (map frame ps) ++ rest) (length ps) = Ok (map (fun p => Z.of_N (from_be p)) ps, rest).
Proof.
  intros F. unfold getMP.
  pose proof (getMP_loop_frames ps [] rest [] F) as L.
  change (Z.of_N (blen (@nil N))) with 0 in L. cbn [app] in L. rewrite L.
  f_equal. f_equal. apply slice_from_at with (p := concat (map frame ps)); reflexivity.
Qed.

Fixpoint MP_all (ns : list Z) : res (list N) :=
  match ns with
  | [] => Ok []
  | n :: r => bind (MP n) (fun a => bind (MP_all r) (fun b => Ok (a ++ b)))
  end.

Lemma MP_all_ok ns : Forall mp_fits ns -> MP_all ns = Ok (concat (map frame (map mp_payload ns))).
Proof.
  induction 1 as [|n ns Fn _ IH]; [reflexivity|].
  cbn [MP_all map concat]. rewrite (MP_ok n Fn), IH. reflexivity.
Qed.

Lemma getMP_MP_all ns rest :
  Forall mp_fits ns ->
  exists b, MP_all ns = Ok b /\ getMP (b ++ rest) (length ns) = Ok (ns, rest).
Proof.
  intros F. eexists; split; [apply MP_all_ok, F|].
  pose proof (getMP_frames (map mp_payload ns) rest) as G. rewrite map_length in G.
  rewrite G.
  - f_equal. f_equal. rewrite map_map. clear G.
    induction F as [|n ns [Fn _] _ IH]; [reflexivity|]. cbn [map]. now rewrite from_be_mp_payload, IH.
  - clear G. induction F as [|n ns Fn _ IH]; constructor; [now apply mp_payload_fits|exact IH].
Qed.

Lemma getMP_MP_one n rest :
  mp_fits n -> exists b, MP n = Ok b /\ getMP (b ++ rest) 1 = Ok ([n], rest).
Proof.
  intros F. destruct (getMP_MP_all [n] rest (Forall_cons _ F (Forall_nil _))) as [b [E G]].
  cbn [MP_all] in E. rewrite (MP_ok n F) in E. cbn [bind] in E.
  assert (Hb : b = frame (mp_payload n) ++ []) by congruence. subst b.
  exists (frame (mp_payload n)). split; [now apply MP_ok|].
  rewrite app_nil_r in G. exact G.
Qed.

(** the MP encoding is the canonical RFC 4251 mpint of a non-negative number: no superfluous
    leading zero byte, top bit of the first byte clear *)
Lemma mp_payload_bytes n : forallb is_byte (mp_payload n) = true.
Proof.
  unfold mp_payload. destruct (n =? 0); [reflexivity|].
  destruct (negb _); cbn [forallb]; rewrite ?to_be_min_bytes; reflexivity.
Qed.

(** ---- key blobs ---- *)

Lemma lists_eqb_refl a : lists_eqb a a = true.
Proof. induction a as [|x a IH]; [reflexivity|]. cbn. now rewrite N.eqb_refl, IH. Qed.

Lemma frames2 a b rest : frame a ++ frame b ++ rest = concat (map frame [a; b]) ++ rest.
Proof. cbn [map concat]. now rewrite app_nil_r, <- app_assoc. Qed.

Lemma getNS_frame1 x rest : ns_fits x -> getNS (frame x ++ rest) 1 = Ok ([x], rest).
Proof.
  intros F. pose proof (getNS_frames [x] rest (Forall_cons _ F (Forall_nil _))) as G.
  cbn [map concat length] in G. now rewrite app_nil_r in G.
Qed.

Lemma getMP_frames_n ns rest :
  Forall mp_fits ns ->
  getMP (concat (map frame (map mp_payload ns)) ++ rest) (length ns) = Ok (ns, rest).
Proof.
  intros F. destruct (getMP_MP_all ns rest F) as [b [E G]].
  rewrite MP_all_ok in E by exact F.
  assert (Hb : b = concat (map frame (map mp_payload ns))) by congruence. subst b. exact G.
Qed.

Lemma name_fits_small l : (length l <= 1000)%nat -> ns_fits l.
Proof. unfold ns_fits, blen. lia. Qed.

Lemma to_be_pair_split L x y :
  takeN (N.of_nat L) (to_be L x ++ to_be L y) = to_be L x /\ dropN (N.of_nat L) (to_be L x ++ to_be L y) = to_be L y.
Proof.
  rewrite <- (blen_to_be L x). split; [apply takeN_app_exact|apply dropN_app_exact].
Qed.

Lemma pow256_N2Z k : Z.of_N (256 ^ N.of_nat k) = 256 ^ Z.of_nat k.
Proof. rewrite N2Z.inj_pow. now rewrite nat_N_Z. Qed.

Lemma blob_roundtrip k : key_fits k -> exists b, blob k = Ok b /\ parse_blob b = Ok k.
Proof.
  destruct k as [e n|p q g y|c x y|a]; cbn [key_fits].
  - intros [Fe Fn]. eexists. split.
    + cbn [blob]. rewrite NS_ok by (apply name_fits_small; cbn; lia).
      rewrite (MP_ok e Fe), (MP_ok n Fn). reflexivity.
    + unfold parse_blob. rewrite getNS_frame1 by (apply name_fits_small; cbn; lia).
      cbn [bind hd]. rewrite lists_eqb_refl.
      pose proof (getMP_frames_n [e; n] [] (Forall_cons _ Fe (Forall_cons _ Fn (Forall_nil _)))) as G.
      cbn [map concat length] in G. rewrite !app_nil_r in G. rewrite <- ?app_assoc in G.
      change (length [e; n]) with 2%nat in G. rewrite G. reflexivity.
  - intros (Fp & Fq & Fg & Fy). eexists. split.
    + cbn [blob]. rewrite NS_ok by (apply name_fits_small; cbn; lia).
      rewrite (MP_ok p Fp), (MP_ok q Fq), (MP_ok g Fg), (MP_ok y Fy). reflexivity.
    + unfold parse_blob. rewrite getNS_frame1 by (apply name_fits_small; cbn; lia).
      cbn [bind hd]. change (lists_eqb ssh_dss ssh_rsa) with false. cbn iota. rewrite lists_eqb_refl.
      pose proof (getMP_frames_n [p; q; g; y] []
        (Forall_cons _ Fp (Forall_cons _ Fq (Forall_cons _ Fg (Forall_cons _ Fy (Forall_nil _)))))) as G.
      cbn [map concat length] in G. rewrite !app_nil_r in G. rewrite <- ?app_assoc in G.
      rewrite G. reflexivity.
  - intros [Fx Fy]. eexists. split.
    + cbn [blob].
      destruct ((0 <=? x) && (x <? 256 ^ Z.of_nat (curve_bytes c)) && (0 <=? y)
                && (y <? 256 ^ Z.of_nat (curve_bytes c)))%bool eqn:G; [|lia].
      rewrite NS_ok by (apply name_fits_small; destruct c; cbn; lia).
      rewrite NS_ok by (apply name_fits_small; destruct c; cbn; lia).
      rewrite NS_ok.
      2:{ apply name_fits_small. rewrite !app_length, !length_to_be. destruct c; cbn [length curve_bytes]; lia. }
      reflexivity.
    + unfold parse_blob. rewrite getNS_frame1 by (apply name_fits_small; destruct c; cbn; lia).
      cbn [bind hd].
      replace (lists_eqb (curve_name c) ssh_rsa) with false by (destruct c; reflexivity).
      replace (lists_eqb (curve_name c) ssh_dss) with false by (destruct c; reflexivity).
      replace (curve_of_name (curve_name c)) with (Some c) by (destruct c; reflexivity).
      cbn iota.
      set (pt := [4%N] ++ to_be (curve_bytes c) (Z.to_N x) ++ to_be (curve_bytes c) (Z.to_N y)).
      pose proof (getNS_frames [pyslice_from (curve_name c) (-8); pt] []) as G.
      cbn [map concat length] in G. rewrite !app_nil_r in G. rewrite <- ?app_assoc in G.
      rewrite G.
      2:{ repeat constructor; apply name_fits_small.
          - destruct c; cbn; lia.
          - unfold pt. rewrite !app_length, !length_to_be. destruct c; cbn; lia. }
      cbn [bind nth]. unfold pt, decode_point. cbn [app].
      rewrite blen_app, !blen_to_be.
      replace (N.of_nat (curve_bytes c) + N.of_nat (curve_bytes c) =? 2 * N.of_nat (curve_bytes c))%N
        with true by lia.
      destruct (to_be_pair_split (curve_bytes c) (Z.to_N x) (Z.to_N y)) as [T D]. rewrite T, D.
      rewrite !from_be_to_be_small; cbn [bind].
      * now rewrite !Z2N.id by lia.
      * pose proof (pow256_N2Z (curve_bytes c)). lia.
      * pose proof (pow256_N2Z (curve_bytes c)). lia.
  - intros Fa. eexists. split.
    + cbn [blob]. rewrite NS_ok by (apply name_fits_small; cbn; lia). rewrite (NS_ok a Fa). reflexivity.
    + unfold parse_blob. rewrite getNS_frame1 by (apply name_fits_small; cbn; lia).
      cbn [bind hd]. change (lists_eqb ssh_ed25519 ssh_rsa) with false.
      change (lists_eqb ssh_ed25519 ssh_dss) with false.
      change (curve_of_name ssh_ed25519) with (@None curve). cbn iota. rewrite lists_eqb_refl.
      pose proof (getNS_frame1 a [] Fa) as G. rewrite app_nil_r in G. rewrite G. reflexivity.
Qed.

(** a point that does not fit the curve's width is refused when encoding *)
Lemma blob_refuses_wide_point c x y :
  ~ (0 <= x < 256 ^ Z.of_nat (curve_bytes c) /\ 0 <= y < 256 ^ Z.of_nat (curve_bytes c)) ->
  blob (EC c x y) = Err OverflowError.
Proof.
  intros H. cbn [blob].
  destruct ((0 <=? x) && (x <? 256 ^ Z.of_nat (curve_bytes c)) && (0 <=? y)
            && (y <? 256 ^ Z.of_nat (curve_bytes c)))%bool eqn:G; [lia|reflexivity].
Qed.

(** hypotheses are inhabited by non-trivial values *)
Example fits_example :
  mp_fits 0 /\ mp_fits 128 /\ mp_fits (2 ^ 4096) /\ ns_fits [1;2;3]%N
  /\ key_fits (RSA 65537 (2 ^ 2047 + 12345)) /\ key_fits (EC P256 (2 ^ 255) 7).
Proof.
  unfold mp_fits, ns_fits, key_fits, mp_fits. repeat split; try lia; vm_compute; reflexivity.
Qed.
