(** C37: model of the public-key blob layer of conch/ssh/keys.py (hand-written, H-tie) on top of
    the wire primitives NS/getNS/MP/getMP, which are [Gen.v] — regenerated from
    src/twisted/conch/ssh/common.py on every run (T-tie).

    [blob] follows Key.blob(); [parse_blob] follows Key._fromString_BLOB().  What the
    `cryptography` library does when it is handed the parsed numbers (range / primality /
    on-curve validation, building the key object) is NOT modelled: [parse_blob] returns the
    numbers it would hand over.  SEC1 uncompressed points (0x04 || X || Y, fixed width) are
    written out because Key.blob() builds them itself. *)
From Coq Require Import List NArith ZArith Bool.
From TwLib Require Import PyInt.
From C37 Require Import Gen.
Import ListNotations.
Open Scope Z_scope.

Inductive curve := P256 | P384 | P521.

(** b"ecdsa-sha2-nistp256" etc. *)
Definition curve_name (c : curve) : list N :=
  [101;99;100;115;97;45;115;104;97;50;45;110;105;115;116;112]%N ++
  match c with P256 => [50;53;54]%N | P384 => [51;56;52]%N | P521 => [53;50;49]%N end.

(** (key_size + 7) // 8 *)
Definition curve_bytes (c : curve) : nat :=
  match c with P256 => 32%nat | P384 => 48%nat | P521 => 66%nat end.

Definition ssh_rsa : list N := [115;115;104;45;114;115;97]%N.
Definition ssh_dss : list N := [115;115;104;45;100;115;115]%N.
Definition ssh_ed25519 : list N := [115;115;104;45;101;100;50;53;53;49;57]%N.

Inductive pubkey :=
| RSA (e n : Z)
| DSA (p q g y : Z)
| EC (c : curve) (x y : Z)
| ED (a : list N).

Fixpoint lists_eqb (a b : list N) : bool :=
  match a, b with
  | [], [] => true
  | x :: a', y :: b' => (x =? y)%N && lists_eqb a' b'
  | _, _ => false
  end.

(** Key.blob() *)
Definition blob (k : pubkey) : res (list N) :=
  match k with
  | RSA e n =>
      bind (NS ssh_rsa) (fun a => bind (MP e) (fun b => bind (MP n) (fun c => Ok (a ++ b ++ c))))
  | DSA p q g y =>
      bind (NS ssh_dss) (fun a => bind (MP p) (fun b => bind (MP q) (fun c =>
      bind (MP g) (fun d => bind (MP y) (fun e => Ok (a ++ b ++ c ++ d ++ e))))))
  | EC c x y =>
      let nm := curve_name c in
      let L := curve_bytes c in
      (* utils.int_to_bytes(v, L) raises OverflowError when v does not fit *)
      if ((0 <=? x) && (x <? 256 ^ Z.of_nat L) && (0 <=? y) && (y <? 256 ^ Z.of_nat L))%bool then
        bind (NS nm) (fun a => bind (NS (pyslice_from nm (-8))) (fun b =>
        bind (NS ([4%N] ++ to_be L (Z.to_N x) ++ to_be L (Z.to_N y))) (fun d => Ok (a ++ b ++ d))))
      else Err OverflowError
  | ED a => bind (NS ssh_ed25519) (fun h => bind (NS a) (fun b => Ok (h ++ b)))
  end.

Definition curve_of_name (nm : list N) : option curve :=
  if lists_eqb nm (curve_name P256) then Some P256
  else if lists_eqb nm (curve_name P384) then Some P384
  else if lists_eqb nm (curve_name P521) then Some P521
  else None.

(** EllipticCurvePublicKey.from_encoded_point for an uncompressed point: the framing part only
    (0x04, two coordinates of the curve's width); anything else is ValueError *)
Definition decode_point (c : curve) (d : list N) : res (Z * Z) :=
  let L := N.of_nat (curve_bytes c) in
  match d with
  | 4%N :: r =>
      if (blen r =? 2 * L)%N then Ok (Z.of_N (from_be (takeN L r)), Z.of_N (from_be (dropN L r)))
      else Err ValueError
  | _ => Err ValueError
  end.

(** Key._fromString_BLOB (public blobs; the sk-* types are not modelled) *)
Definition parse_blob (b : list N) : res pubkey :=
  bind (getNS b 1) (fun '(ks, rest) =>
  let keyType := hd [] ks in
  if lists_eqb keyType ssh_rsa then
    bind (getMP rest 2) (fun '(v, _) => Ok (RSA (nth 0 v 0) (nth 1 v 0)))
  else if lists_eqb keyType ssh_dss then
    bind (getMP rest 4) (fun '(v, _) => Ok (DSA (nth 0 v 0) (nth 1 v 0) (nth 2 v 0) (nth 3 v 0)))
  else match curve_of_name keyType with
  | Some c => bind (getNS rest 2) (fun '(v, _) =>
              bind (decode_point c (nth 1 v [])) (fun '(x, y) => Ok (EC c x y)))
  | None =>
    if lists_eqb keyType ssh_ed25519 then bind (getNS rest 1) (fun '(v, _) => Ok (ED (hd [] v)))
    else Err ValueError   (* BadKeyError: unknown blob type *)
  end).

(** the encoders' own success conditions *)
Definition ns_fits (x : list N) : Prop := (blen x < 4294967296)%N.
Definition mp_fits (n : Z) : Prop := 0 <= n /\ (blen (to_be_min (Z.to_N n)) < 4294967295)%N.

Definition key_fits (k : pubkey) : Prop :=
  match k with
  | RSA e n => mp_fits e /\ mp_fits n
  | DSA p q g y => mp_fits p /\ mp_fits q /\ mp_fits g /\ mp_fits y
  | EC c x y => 0 <= x < 256 ^ Z.of_nat (curve_bytes c) /\ 0 <= y < 256 ^ Z.of_nat (curve_bytes c)
  | ED a => ns_fits a
  end.
