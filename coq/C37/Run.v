(** C37: printers used by the correspondence check only. *)
From Coq Require Import List NArith ZArith Bool String.
From TwLib Require Import Show PyInt.
From C37 Require Import Gen Model.
Import ListNotations.
Local Open Scope string_scope.

Definition show_exn (e : pyexn) : string :=
  match e with
  | StructError => "StructError" | AssertionError => "AssertionError" | TypeError => "TypeError"
  | OverflowError => "OverflowError" | ValueError => "ValueError" | EOFError => "EOFError"
  | IndexError => "IndexError"
  end.

Definition show_res {A} (f : A -> string) (r : res A) : string :=
  match r with Ok a => f a | Err e => "E:" ++ show_exn e end.

(** integers in hexadecimal (whole bytes, as int.to_bytes(...).hex()): linear-time printing *)
Definition show_Zx (z : Z) : string :=
  match z with
  | Z0 => "00"
  | Zpos p => show_hex (to_be_min (Npos p))
  | Zneg p => "-" ++ show_hex (to_be_min (Npos p))
  end.

Definition commas (l : list string) : string := String.concat "," l.

Inductive case :=
| CNs (xs : list (list N)) (rest : list N)
| CGetNs (data : list N) (count : nat)
| CMp (ns : list Z) (rest : list N)
| CGetMp (data : list N) (count : nat)
| CKey (k : pubkey).

Fixpoint seq_all {A} (f : A -> res (list N)) (xs : list A) : res (list N) :=
  match xs with
  | [] => Ok []
  | x :: r => bind (f x) (fun a => bind (seq_all f r) (fun b => Ok (a ++ b)%list))
  end.

Definition show_ns (r : list (list N) * list N) : string :=
  commas (map show_hex (fst r)) ++ "|" ++ show_hex (snd r).
Definition show_mp (r : list Z * list N) : string :=
  commas (map show_Zx (fst r)) ++ "|" ++ show_hex (snd r).

Definition show_key (k : pubkey) : string :=
  match k with
  | RSA e n => "RSA:" ++ show_Zx e ++ "," ++ show_Zx n
  | DSA p q g y => "DSA:" ++ show_Zx p ++ "," ++ show_Zx q ++ "," ++ show_Zx g ++ "," ++ show_Zx y
  | EC c x y => "EC" ++ match c with P256 => "256" | P384 => "384" | P521 => "521" end ++ ":"
                ++ show_Zx x ++ "," ++ show_Zx y
  | ED a => "ED:" ++ show_hex a
  end.

Definition run_show (c : case) : string :=
  match c with
  | CNs xs rest =>
      show_res (fun b => show_hex b ++ "|" ++ show_res show_ns (getNS (b ++ rest)%list (List.length xs))) (seq_all NS xs)
  | CGetNs d n => show_res show_ns (getNS d n)
  | CMp ns rest =>
      show_res (fun b => show_hex b ++ "|" ++ show_res show_mp (getMP (b ++ rest)%list (List.length ns))) (seq_all MP ns)
  | CGetMp d n => show_res show_mp (getMP d n)
  | CKey k => show_res (fun b => show_hex b ++ "|" ++ show_res show_key (parse_blob b)) (blob k)
  end.
