(** C49: printers used by the correspondence check only. *)
From Coq Require Import List Arith Bool String.
From TwLib Require Import Show.
From C49 Require Import Model.
Import ListNotations.
Local Open Scope string_scope.

Definition show_task (t : task) : string := show_nat (fst t) ++ (if snd t then "!" else "").

Definition show_ev (e : ev) : string :=
  match e with
  | EAccepted _ => "ok"
  | ERefused => "AQ"
  | ELimit => "lim"
  | ECreate w _ _ => "c" ++ show_nat w
  | EDo w _ => "d" ++ show_nat w
  | EWQuit w => "q" ++ show_nat w
  | ECoordQuit => "Q"
  | EBacklog _ _ _ => "b"
  | ERan w t => "r" ++ show_nat w ++ ":" ++ show_task t
  | ENothing => "-"
  end.

Fixpoint show_trace (s : st) (ls : list label) : list string :=
  match ls with
  | [] => []
  | l :: r =>
      let '(s1, es) := step s l in
      (String.concat "," (map show_ev es) ++ "/" ++ show_nat (List.length (idle s1)) ++ "." ++ show_nat (busy s1)
       ++ "." ++ show_nat (List.length (pending s1))) :: show_trace s1 r
  end.

Definition run_show (c : nat * list label) : string :=
  let '(lim, ls) := c in String.concat " " (show_trace (init lim) ls).
