(** C49: printers used by the correspondence check only. *)
From Coq Require Import List Arith Bool String.
From TwLib Require Import Show.
From C49 Require Import Model Wrapper.
Import ListNotations.
Local Open Scope string_scope.

Definition show_task (t : task) : string := show_nat (fst t) ++ (if snd t then "!" else "").

Definition show_ev (e : ev) : string :=
  match e with
  | EAccepted _ => "ok"
  | ERefused => "AQ"
  | ELimit => "lim"
  | ECreate w _ _ => "c" ++ show_nat w
  | EDo w _ => "d" ++ show_nat w
  | EWQuit w => "q" ++ show_nat w
  | ECoordQuit => "Q"
  | EBacklog _ _ _ => "b"
  | ERan w t => "r" ++ show_nat w ++ ":" ++ show_task t
  | ENothing => "-"
  end.

Fixpoint show_trace (s : st) (ls : list label) : list string :=
  match ls with
  | [] => []
  | l :: r =>
      let '(s1, es) := step s l in
      (String.concat "," (map show_ev es) ++ "/" ++ show_nat (List.length (idle s1)) ++ "." ++ show_nat (busy s1)
       ++ "." ++ show_nat (List.length (pending s1))) :: show_trace s1 r
  end.

Definition run_show (c : nat * list label) : string :=
  let '(lim, ls) := c in String.concat " " (show_trace (init lim) ls).

(** ---- the reporting wrapper: per submitted call  r<body runs>:c<reports>[:T v | :F <exception class>] ---- *)
Definition exc_name (h : how) : string :=
  match h with HExc => "ValueError" | HSysExit => "SystemExit" | HGenExit => "GeneratorExit" | HBase => "_Cancelled"
             | _ => "?" end.
Definition show_report (r : report) : string := match r with RTrue => ":Tv" | RFalse h => ":F" ++ exc_name h end.
Definition show_wrapped (c : how * cbmode) : string :=
  let w := in_context (fst c) (snd c) in
  "r" ++ show_nat (body_runs w) ++ ":c" ++ show_nat (List.length (reports w)) ++ String.concat "" (map show_report (reports w)).

(** case = a Team schedule, or the calls submitted to a real ThreadPool *)
Definition run_show_any (c : (nat * list label) + list (how * cbmode)) : string :=
  match c with
  | inl t => run_show t
  | inr calls => String.concat " " (map show_wrapped calls)
  end.
