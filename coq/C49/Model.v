(** C49: twisted._threads._team.Team driven through in-memory workers (createMemoryWorker):
    a coordinator queue of jobs and one queue per worker, exactly as the code enqueues them.
    Labels (one interleaving = a list of labels):
      client calls   Do t / Grow n / Shrink n / Quit / SetLimit k   (run in the caller, enqueue on the coordinator)
      Coord ch       the coordinator performs its next job; [ch] resolves [set.pop()] (see [pop_idle])
      Work w         worker w performs its next item
    createWorker is _pool.limitedWorkerCreator: a new worker only while idle + busy < limit.
    A task is (id, raises). *)
From Coq Require Import List Arith Bool.
Import ListNotations.

Definition task := (nat * bool)%type.

Inductive cjob :=
| CTask (t : task)              (* lambda: self._coordinateThisTask(task) *)
| CGrow (n : nat)               (* createOneWorker *)
| CShrink (n : option nat)      (* lambda: self._quitIdlers(n) *)
| CIdle (w : nat)               (* idleAndPending of worker w *)
| CQuit.                        (* startFinishing *)

Inductive wjob := WRun (t : task) | WStop.

Inductive label :=
| Do (t : task) | Grow (n : nat) | Shrink (n : option nat) | Quit | SetLimit (k : nat)
| Coord (ch : list nat) | Work (w : nat).

Inductive ev :=
| EAccepted (j : cjob)  (* client call enqueued job j on the coordinator *)
| ERefused             (* client call raised AlreadyQuit *)
| ELimit
| ECreate (w : nat) (live limit : nat)   (* createWorker made worker w while [live] workers existed *)
| EDo (w : nat) (t : task)      (* worker.do(doWork) *)
| EWQuit (w : nat)              (* worker.quit() *)
| ECoordQuit                    (* coordinator.quit() *)
| EBacklog (t : task) (live limit : nat)  (* appended to _pending: createWorker refused with [live] workers *)
| ERan (w : nat) (t : task)     (* the task body ran on worker w (logException called iff it raises) *)
| ENothing.                     (* perform() returned False *)

Record st := mk {
  tquit : bool; limit : nat;
  coordq : list cjob; coord_done : bool;
  idle : list nat; busy : nat; pending : list task; toShrink : nat; shouldQuit : bool;
  nworkers : nat;
  wq : nat -> list wjob
}.

Definition upd {A} (f : nat -> A) (w : nat) (v : A) : nat -> A := fun x => if Nat.eqb x w then v else f x.

Definition mem (w : nat) (l : list nat) : bool := existsb (Nat.eqb w) l.

Fixpoint remove1 (w : nat) (l : list nat) : list nat :=
  match l with [] => [] | x :: r => if Nat.eqb x w then r else x :: remove1 w r end.

(** [set.pop()]: any element; the head of [ch] names it when it is in the set (the harness passes the
    worker the real set popped), otherwise the first one.  Every do/quit on a worker consumes one entry. *)
Definition pop_idle (idl : list nat) (ch : list nat) : option (nat * list nat) :=
  match idl with
  | [] => None
  | d :: _ => let w := match ch with c :: _ => if mem c idl then c else d | [] => d end in
              Some (w, remove1 w idl)
  end.

Definition push_w (s : st) (w : nat) (j : wjob) : nat -> list wjob := upd (wq s) w (wq s w ++ [j]).

(** _coordinateThisTask *)
Definition coordinate (s : st) (t : task) (ch : list nat) : st * list nat * list ev :=
  match pop_idle (idle s) ch with
  | Some (w, idl) =>
      (mk (tquit s) (limit s) (coordq s) (coord_done s) idl (S (busy s)) (pending s) (toShrink s) (shouldQuit s)
          (nworkers s) (push_w s w (WRun t)), tl ch, [EDo w t])
  | None =>
      let live := length (idle s) + busy s in
      if Nat.ltb live (limit s)
      then let w := nworkers s in
           (mk (tquit s) (limit s) (coordq s) (coord_done s) [] (S (busy s)) (pending s) (toShrink s) (shouldQuit s)
               (S w) (push_w s w (WRun t)), tl ch, [ECreate w live (limit s); EDo w t])
      else (mk (tquit s) (limit s) (coordq s) (coord_done s) (idle s) (busy s) (pending s ++ [t]) (toShrink s)
               (shouldQuit s) (nworkers s) (wq s), ch, [EBacklog t live (limit s)])
  end.

(** _quitIdlers(n) *)
Fixpoint quit_loop (n : nat) (s : st) (ch : list nat) : st * list nat * list ev :=
  match n with
  | 0 => (s, ch, [])
  | S k =>
      match pop_idle (idle s) ch with
      | Some (w, idl) =>
          let s1 := mk (tquit s) (limit s) (coordq s) (coord_done s) idl (busy s) (pending s) (toShrink s)
                       (shouldQuit s) (nworkers s) (push_w s w WStop) in
          let '(s2, ch2, es) := quit_loop k s1 (tl ch) in (s2, ch2, EWQuit w :: es)
      | None =>
          let s1 := mk (tquit s) (limit s) (coordq s) (coord_done s) (idle s) (busy s) (pending s) (S (toShrink s))
                       (shouldQuit s) (nworkers s) (wq s) in
          quit_loop k s1 ch
      end
  end.

Definition quit_idlers (n : option nat) (s : st) (ch : list nat) : st * list nat * list ev :=
  let n := match n with Some n => n | None => length (idle s) + busy s end in
  let '(s1, ch1, es) := quit_loop n s ch in
  if shouldQuit s1 && Nat.eqb (busy s1) 0
  then (mk (tquit s1) (limit s1) (coordq s1) true (idle s1) (busy s1) (pending s1) (toShrink s1) (shouldQuit s1)
           (nworkers s1) (wq s1), ch1, es ++ [ECoordQuit])
  else (s1, ch1, es).

(** _recycleWorker *)
Definition recycle (s : st) (w : nat) (ch : list nat) : st * list nat * list ev :=
  let s0 := mk (tquit s) (limit s) (coordq s) (coord_done s) (idle s ++ [w]) (busy s) (pending s) (toShrink s)
               (shouldQuit s) (nworkers s) (wq s) in
  match pending s0 with
  | t :: p =>
      coordinate (mk (tquit s0) (limit s0) (coordq s0) (coord_done s0) (idle s0) (busy s0) p (toShrink s0)
                     (shouldQuit s0) (nworkers s0) (wq s0)) t ch
  | [] =>
      if shouldQuit s0 then quit_idlers None s0 ch
      else if Nat.ltb 0 (toShrink s0)
      then (mk (tquit s0) (limit s0) (coordq s0) (coord_done s0) (remove1 w (idle s0)) (busy s0) (pending s0)
               (pred (toShrink s0)) (shouldQuit s0) (nworkers s0) (push_w s0 w WStop), tl ch, [EWQuit w])
      else (s0, ch, [])
  end.

(** createOneWorker: for x in range(n): worker = createWorker(); if None: return; recycle *)
Fixpoint grow_loop (n : nat) (s : st) (ch : list nat) : st * list nat * list ev :=
  match n with
  | 0 => (s, ch, [])
  | S k =>
      let live := length (idle s) + busy s in
      if Nat.ltb live (limit s)
      then let w := nworkers s in
           let s0 := mk (tquit s) (limit s) (coordq s) (coord_done s) (idle s) (busy s) (pending s) (toShrink s)
                        (shouldQuit s) (S w) (wq s) in
           let '(s1, ch1, es1) := recycle s0 w ch in
           let '(s2, ch2, es2) := grow_loop k s1 ch1 in
           (s2, ch2, ECreate w live (limit s) :: es1 ++ es2)
      else (s, ch, [])
  end.

Definition run_job (s : st) (j : cjob) (ch : list nat) : st * list ev :=
  let '(s1, _, es) :=
    match j with
    | CTask t => coordinate s t ch
    | CGrow n => grow_loop n s ch
    | CShrink n => quit_idlers n s ch
    | CIdle w =>
        recycle (mk (tquit s) (limit s) (coordq s) (coord_done s) (idle s) (pred (busy s)) (pending s) (toShrink s)
                    (shouldQuit s) (nworkers s) (wq s)) w ch
    | CQuit =>
        quit_idlers None (mk (tquit s) (limit s) (coordq s) (coord_done s) (idle s) (busy s) (pending s) (toShrink s)
                             true (nworkers s) (wq s)) ch
    end in (s1, es).

Definition enqueue (s : st) (j : cjob) : st :=
  mk (tquit s) (limit s) (coordq s ++ [j]) (coord_done s) (idle s) (busy s) (pending s) (toShrink s) (shouldQuit s)
     (nworkers s) (wq s).

Definition client (s : st) (j : cjob) : st * list ev :=
  if tquit s then (s, [ERefused]) else (enqueue s j, [EAccepted j]).

Definition step (s : st) (l : label) : st * list ev :=
  match l with
  | Do t => client s (CTask t)
  | Grow n => client s (CGrow n)
  | Shrink n => client s (CShrink n)
  | Quit =>
      if tquit s then (s, [ERefused])
      else (enqueue (mk true (limit s) (coordq s) (coord_done s) (idle s) (busy s) (pending s) (toShrink s)
                        (shouldQuit s) (nworkers s) (wq s)) CQuit, [EAccepted CQuit])
  | SetLimit k =>
      (mk (tquit s) k (coordq s) (coord_done s) (idle s) (busy s) (pending s) (toShrink s) (shouldQuit s)
          (nworkers s) (wq s), [ELimit])
  | Coord ch =>
      if coord_done s then (s, [ENothing]) else
      match coordq s with
      | [] => (s, [ENothing])
      | j :: q =>
          run_job (mk (tquit s) (limit s) q (coord_done s) (idle s) (busy s) (pending s) (toShrink s) (shouldQuit s)
                      (nworkers s) (wq s)) j ch
      end
  | Work w =>
      match wq s w with
      | WRun t :: q =>
          (mk (tquit s) (limit s) (coordq s ++ [CIdle w]) (coord_done s) (idle s) (busy s) (pending s) (toShrink s)
              (shouldQuit s) (nworkers s) (upd (wq s) w q), [ERan w t])
      | _ => (s, [ENothing])
      end
  end.

Fixpoint run (s : st) (ls : list label) : st * list (list ev) :=
  match ls with
  | [] => (s, [])
  | l :: r => let '(s1, e) := step s l in let '(s2, es) := run s1 r in (s2, e :: es)
  end.

Definition init (lim : nat) : st := mk false lim [] false [] 0 [] 0 false 0 (fun _ => []).
