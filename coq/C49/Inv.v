(** C49: the worker-status / accounting invariants of the Team model, over every schedule and every
    resolution of set.pop().

    Every worker index w is, at every coordinator-step boundary, in exactly one of four conditions --
    idle (in the idle set), outstanding (one WRun in its queue, or its CIdle job waiting on the coordinator),
    stopped (WStop in its queue), or "in hand" (being recycled inside a coordinator job) -- when w < nworkers,
    and in none of them when w >= nworkers; _busyCount is the number of outstanding workers. *)
From Coq Require Import List Arith Bool Lia.
From C49 Require Import Model.
Import ListNotations.

(** ---- sums over worker indices ---- *)
Fixpoint sumw (n : nat) (f : nat -> nat) : nat := match n with 0 => 0 | S k => sumw k f + f k end.

Lemma sumw_ext n f g : (forall x, x < n -> f x = g x) -> sumw n f = sumw n g.
Proof. induction n as [|n IH]; intros H; [reflexivity|]. cbn. rewrite IH by (intros; apply H; lia). rewrite H by lia. reflexivity. Qed.

Lemma sumw_upd_in n f g w : w < n -> (forall x, x <> w -> f x = g x) -> sumw n f + g w = sumw n g + f w.
Proof.
  induction n as [|n IH]; intros Hw H; [lia|]. cbn. destruct (Nat.eq_dec w n) as [->|Hne].
  - rewrite (sumw_ext n f g) by (intros; apply H; lia). lia.
  - rewrite (H n) by lia. assert (Hlt : w < n) by lia. specialize (IH Hlt H). lia.
Qed.

Lemma sumw_le n f w : w < n -> f w <= sumw n f.
Proof. induction n as [|n IH]; intros H; [lia|]. cbn. destruct (Nat.eq_dec w n) as [->|Hne]; [lia|]. assert (w < n) by lia. specialize (IH H0). lia. Qed.

Lemma sumw_zero n f : sumw n f = 0 -> forall w, w < n -> f w = 0.
Proof. intros H w Hw. pose proof (sumw_le n f w Hw). lia. Qed.

Lemma sumw_all_zero n f : (forall w, w < n -> f w = 0) -> sumw n f = 0.
Proof. induction n as [|n IH]; intros H; [reflexivity|]. cbn. rewrite IH by (intros; apply H; lia). rewrite H by lia. reflexivity. Qed.

(** ---- counting in queues ---- *)
Definition count {A} (f : A -> bool) (l : list A) : nat := length (filter f l).

Lemma count_app {A} (f : A -> bool) a b : count f (a ++ b) = count f a + count f b.
Proof. unfold count. rewrite filter_app, app_length. reflexivity. Qed.

Lemma count_cons {A} (f : A -> bool) x l : count f (x :: l) = (if f x then 1 else 0) + count f l.
Proof. unfold count. cbn. destruct (f x); reflexivity. Qed.

Definition is_run (j : wjob) : bool := match j with WRun _ => true | WStop => false end.
Definition is_stop (j : wjob) : bool := negb (is_run j).
Definition runs (q : list wjob) : nat := count is_run q.
Definition stops (q : list wjob) : nat := count is_stop q.
Definition is_cidle (w : nat) (j : cjob) : bool := match j with CIdle x => Nat.eqb x w | _ => false end.
Definition cid (w : nat) (q : list cjob) : nat := count (is_cidle w) q.

Lemma len_runs_stops q : length q = runs q + stops q.
Proof.
  induction q as [|j q IH]; [reflexivity|]. unfold runs, stops in *. rewrite !count_cons. cbn [length].
  destruct j; cbn; lia.
Qed.

Definition b2n (b : bool) : nat := if b then 1 else 0.

(** ---- idle set as a duplicate-free list ---- *)
Lemma mem_In w l : mem w l = true <-> In w l.
Proof.
  unfold mem. rewrite existsb_exists. split.
  - intros [x [Hx E]]. apply Nat.eqb_eq in E. subst. exact Hx.
  - intros H. exists w. split; [exact H | apply Nat.eqb_refl].
Qed.

Lemma mem_app x l w : mem x (l ++ [w]) = mem x l || Nat.eqb x w.
Proof. unfold mem. rewrite existsb_app. cbn. rewrite orb_false_r. reflexivity. Qed.

Lemma In_remove1 x w l : In x (remove1 w l) -> In x l.
Proof.
  induction l as [|y l IH]; cbn; [tauto|]. destruct (Nat.eqb y w); cbn; [tauto|]. intros [E|H]; [left; exact E | right; apply IH, H].
Qed.

Lemma NoDup_remove1 w l : NoDup l -> NoDup (remove1 w l).
Proof.
  induction l as [|y l IH]; intros H; cbn; [constructor|]. inversion H as [|? ? Hy Hl]; subst.
  destruct (Nat.eqb y w); [exact Hl|]. constructor; [intros Hin; apply Hy, (In_remove1 _ _ _ Hin) | apply IH, Hl].
Qed.

Lemma mem_remove1 x w l : NoDup l -> mem x (remove1 w l) = mem x l && negb (Nat.eqb x w).
Proof.
  induction l as [|y l IH]; intros H; [reflexivity|]. inversion H as [|? ? Hy Hl]; subst. cbn [remove1].
  destruct (Nat.eqb_spec y w) as [->|Hne].
  - unfold mem at 2. cbn [existsb]. fold (mem x l). destruct (Nat.eqb_spec x w) as [->|Hx].
    + cbn. destruct (mem w l) eqn:E; [apply mem_In in E; contradiction | reflexivity].
    + cbn. rewrite andb_true_r. reflexivity.
  - unfold mem at 1 2. cbn [existsb]. fold (mem x (remove1 w l)). fold (mem x l). rewrite IH by exact Hl.
    destruct (Nat.eqb_spec x y) as [->|Hxy]; cbn; [|reflexivity].
    destruct (Nat.eqb_spec y w); [contradiction | reflexivity].
Qed.

Lemma NoDup_app_snoc (l : list nat) w : NoDup l -> ~ In w l -> NoDup (l ++ [w]).
Proof.
  induction l as [|y l IH]; intros H Hw; cbn; [constructor; [intros []|constructor]|].
  inversion H as [|? ? Hy Hl]; subst. constructor.
  - intros Hin. apply in_app_or in Hin. destruct Hin as [Hin|[E|[]]]; [contradiction|]. subst. apply Hw. left. reflexivity.
  - apply IH; [exact Hl|]. intros Hin. apply Hw. right. exact Hin.
Qed.

Lemma length_remove1 w l : In w l -> S (length (remove1 w l)) = length l.
Proof.
  induction l as [|y l IH]; cbn; [tauto|]. destruct (Nat.eqb_spec y w) as [->|Hne]; [reflexivity|].
  intros [E|H]; [contradiction|]. cbn. rewrite IH by exact H. reflexivity.
Qed.

Lemma pop_idle_some idl ch w idl' : pop_idle idl ch = Some (w, idl') -> In w idl /\ idl' = remove1 w idl.
Proof.
  unfold pop_idle. destruct idl as [|d r]; [discriminate|]. destruct ch as [|c ch'].
  - intros H. inversion H; subst. split; [left; reflexivity | reflexivity].
  - destruct (mem c (d :: r)) eqn:E; intros H; inversion H; subst.
    + split; [apply mem_In, E | reflexivity].
    + split; [left; reflexivity | reflexivity].
Qed.

Lemma pop_idle_none idl ch : pop_idle idl ch = None -> idl = [].
Proof. unfold pop_idle. destruct idl; [reflexivity | discriminate]. Qed.

Lemma pop_idle_nonempty idl ch : idl <> [] -> exists w idl', pop_idle idl ch = Some (w, idl').
Proof. unfold pop_idle. destruct idl as [|d r]; [contradiction|]. intros _. eexists. eexists. reflexivity. Qed.

(** ---- the worker-status invariant ---- *)
Definition out (s : st) (w : nat) : nat := runs (wq s w) + cid w (coordq s).

Definition inhand (L : option nat) (w : nat) : nat := match L with Some x => b2n (Nat.eqb x w) | None => 0 end.

Definition status (L : option nat) (s : st) (w : nat) : nat :=
  b2n (mem w (idle s)) + out s w + stops (wq s w) + inhand L w.

Record Inv (L : option nat) (s : st) : Prop := {
  i_nodup : NoDup (idle s);
  i_status : forall w, status L s w = b2n (Nat.ltb w (nworkers s));
  i_busy : busy s = sumw (nworkers s) (out s)
}.

Lemma inv_fresh L s w : Inv L s -> nworkers s <= w -> wq s w = [] /\ mem w (idle s) = false /\ cid w (coordq s) = 0.
Proof.
  intros HI Hw. pose proof (i_status L s HI w) as H. unfold status, out in H.
  destruct (Nat.ltb_spec w (nworkers s)); [lia|]. cbn in H.
  assert (length (wq s w) = 0) by (rewrite len_runs_stops; lia).
  destruct (wq s w); [|discriminate]. destruct (mem w (idle s)); cbn in H; [lia|]. repeat split; lia.
Qed.

Lemma inv_idle_lt L s w : Inv L s -> In w (idle s) -> w < nworkers s.
Proof.
  intros HI Hw. pose proof (i_status L s HI w) as H. unfold status in H. apply mem_In in Hw. rewrite Hw in H.
  destruct (Nat.ltb_spec w (nworkers s)); [assumption | cbn in H; lia].
Qed.

Lemma inv_inhand_lt w s : Inv (Some w) s -> w < nworkers s.
Proof.
  intros HI. pose proof (i_status _ s HI w) as H. unfold status, inhand in H. rewrite Nat.eqb_refl in H.
  destruct (Nat.ltb_spec w (nworkers s)); [assumption | cbn in H; lia].
Qed.

Lemma upd_same {A} (f : nat -> A) w v : upd f w v w = v.
Proof. unfold upd. rewrite Nat.eqb_refl. reflexivity. Qed.

Lemma upd_other {A} (f : nat -> A) w v x : x <> w -> upd f w v x = f x.
Proof. intros H. unfold upd. destruct (Nat.eqb_spec x w); [contradiction | reflexivity]. Qed.

(** ---- queue counting under push / pop ---- *)
Lemma runs_push_run q t : runs (q ++ [WRun t]) = S (runs q).
Proof. unfold runs. rewrite count_app, count_cons. cbn. unfold count. cbn. lia. Qed.
Lemma stops_push_run q t : stops (q ++ [WRun t]) = stops q.
Proof. unfold stops. rewrite count_app, count_cons. cbn. unfold count. cbn. lia. Qed.
Lemma runs_push_stop q : runs (q ++ [WStop]) = runs q.
Proof. unfold runs. rewrite count_app, count_cons. cbn. unfold count. cbn. lia. Qed.
Lemma stops_push_stop q : stops (q ++ [WStop]) = S (stops q).
Proof. unfold stops. rewrite count_app, count_cons. cbn. unfold count. cbn. lia. Qed.

Lemma cid_cons_idle w x q : cid w (CIdle x :: q) = b2n (Nat.eqb x w) + cid w q.
Proof. unfold cid. rewrite count_cons. reflexivity. Qed.
Lemma cid_cons_other w j q : (forall x, j <> CIdle x) -> cid w (j :: q) = cid w q.
Proof. intros H. unfold cid. rewrite count_cons. destruct j; try reflexivity. exfalso. eapply H. reflexivity. Qed.
Lemma count_single {A} (f : A -> bool) x : count f [x] = b2n (f x).
Proof. unfold count. cbn. destruct (f x); reflexivity. Qed.
Lemma cid_snoc_idle w x q : cid w (q ++ [CIdle x]) = cid w q + b2n (Nat.eqb x w).
Proof. unfold cid. rewrite count_app, count_single. reflexivity. Qed.
Lemma cid_snoc_other w j q : (forall x, j <> CIdle x) -> cid w (q ++ [j]) = cid w q.
Proof.
  intros H. unfold cid. rewrite count_app, count_single. destruct j; cbn; try lia. exfalso. eapply H. reflexivity.
Qed.

Ltac neqb H := rewrite (proj2 (Nat.eqb_neq _ _) H) in *.
Ltac fin := cbn [b2n inhand negb andb orb] in *; lia.

(** the fields Inv reads *)
Definition same_core (s s' : st) : Prop :=
  idle s' = idle s /\ busy s' = busy s /\ nworkers s' = nworkers s /\ coordq s' = coordq s /\ wq s' = wq s.

Lemma inv_same L s s' : Inv L s -> same_core s s' -> Inv L s'.
Proof.
  intros [H1 H2 H3] (E1 & E2 & E3 & E4 & E5). split.
  - rewrite E1. exact H1.
  - intros w. unfold status, out. rewrite E1, E3, E4, E5. apply H2.
  - rewrite E2, E3, H3. apply sumw_ext. intros x _. unfold out. rewrite E4, E5. reflexivity.
Qed.

(** an idle worker is handed a task *)
Lemma inv_assign s s' w t :
  Inv None s -> In w (idle s) ->
  idle s' = remove1 w (idle s) -> busy s' = S (busy s) -> nworkers s' = nworkers s -> coordq s' = coordq s ->
  wq s' = push_w s w (WRun t) -> Inv None s'.
Proof.
  intros HI Hw E1 E2 E3 E4 E5. pose proof (inv_idle_lt _ _ _ HI Hw) as Hlt. destruct HI as [H1 H2 H3].
  assert (Hout : forall x, out s' x = out s x + b2n (Nat.eqb x w)).
  { intros x. unfold out. rewrite E4, E5. unfold push_w. destruct (Nat.eq_dec x w) as [->|Hne].
    - rewrite upd_same, runs_push_run, Nat.eqb_refl. cbn [b2n inhand negb andb orb] in *; lia.
    - rewrite upd_other by exact Hne. neqb Hne. cbn [b2n inhand negb andb orb] in *; lia. }
  split.
  - rewrite E1. apply NoDup_remove1, H1.
  - intros x. unfold status. rewrite Hout, E1, E3, E5, mem_remove1 by exact H1. specialize (H2 x). unfold status in H2.
    unfold push_w. destruct (Nat.eq_dec x w) as [->|Hne].
    + rewrite upd_same, stops_push_run, Nat.eqb_refl in *. apply mem_In in Hw. rewrite Hw in *. cbn [b2n inhand negb andb orb] in *; lia.
    + rewrite upd_other by exact Hne. neqb Hne. rewrite andb_true_r. cbn [b2n inhand negb andb orb] in *; lia.
  - rewrite E2, E3, H3. pose proof (sumw_upd_in (nworkers s) (out s) (out s') w Hlt) as Hs.
    rewrite Hout, Nat.eqb_refl in Hs. cbn in Hs.
    assert (forall x, x <> w -> out s x = out s' x).
    { intros x Hx. rewrite Hout. neqb Hx. cbn [b2n inhand negb andb orb] in *; lia. }
    specialize (Hs H). lia.
Qed.

(** an idle worker is quit *)
Lemma inv_stop s s' w :
  Inv None s -> In w (idle s) ->
  idle s' = remove1 w (idle s) -> busy s' = busy s -> nworkers s' = nworkers s -> coordq s' = coordq s ->
  wq s' = push_w s w WStop -> Inv None s'.
Proof.
  intros HI Hw E1 E2 E3 E4 E5. destruct HI as [H1 H2 H3].
  assert (Hout : forall x, out s' x = out s x).
  { intros x. unfold out. rewrite E4, E5. unfold push_w. destruct (Nat.eq_dec x w) as [->|Hne].
    - rewrite upd_same, runs_push_stop. reflexivity.
    - rewrite upd_other by exact Hne. reflexivity. }
  split.
  - rewrite E1. apply NoDup_remove1, H1.
  - intros x. unfold status. rewrite Hout, E1, E3, E5, mem_remove1 by exact H1. specialize (H2 x). unfold status in H2.
    unfold push_w. destruct (Nat.eq_dec x w) as [->|Hne].
    + rewrite upd_same, stops_push_stop, Nat.eqb_refl in *. apply mem_In in Hw. rewrite Hw in *. cbn [b2n inhand negb andb orb] in *; lia.
    + rewrite upd_other by exact Hne. neqb Hne. rewrite andb_true_r. cbn [b2n inhand negb andb orb] in *; lia.
  - rewrite E2, E3, H3. apply sumw_ext. intros x _. symmetry. apply Hout.
Qed.

(** a new worker is created and handed a task at once (idle set empty) *)
Lemma inv_create_assign s s' t :
  Inv None s ->
  idle s' = idle s -> busy s' = S (busy s) -> nworkers s' = S (nworkers s) -> coordq s' = coordq s ->
  wq s' = push_w s (nworkers s) (WRun t) -> Inv None s'.
Proof.
  intros HI E1 E2 E3 E4 E5. destruct (inv_fresh _ _ (nworkers s) HI (le_n _)) as (F1 & F2 & F3).
  destruct HI as [H1 H2 H3]. set (n := nworkers s) in *.
  assert (Hout : forall x, out s' x = out s x + b2n (Nat.eqb x n)).
  { intros x. unfold out. rewrite E4, E5. unfold push_w. destruct (Nat.eq_dec x n) as [->|Hne].
    - rewrite upd_same, runs_push_run, Nat.eqb_refl. cbn [b2n inhand negb andb orb] in *; lia.
    - rewrite upd_other by exact Hne. neqb Hne. cbn [b2n inhand negb andb orb] in *; lia. }
  split.
  - rewrite E1. exact H1.
  - intros x. unfold status. rewrite Hout, E1, E3, E5. specialize (H2 x). unfold status in H2. unfold push_w.
    destruct (Nat.eq_dec x n) as [->|Hne].
    + rewrite upd_same, stops_push_run, Nat.eqb_refl. unfold out. rewrite F1, F2, F3.
      replace (Nat.ltb n (S n)) with true by (symmetry; apply Nat.ltb_lt; lia). cbn. reflexivity.
    + rewrite upd_other by exact Hne. neqb Hne. rewrite H2 || idtac.
      assert (Nat.ltb x (S n) = Nat.ltb x n) as ->.
      { destruct (Nat.ltb_spec x (S n)), (Nat.ltb_spec x n); try reflexivity; lia. }
      cbn [b2n] in *. lia.
  - rewrite E2, E3, H3. cbn [sumw]. rewrite Hout, Nat.eqb_refl.
    replace (out s n) with 0 by (unfold out; rewrite F1, F3; reflexivity). cbn [b2n].
    rewrite (sumw_ext n (out s') (out s)); [lia|]. intros x Hx. rewrite Hout.
    assert (x <> n) by lia. neqb H. cbn [b2n inhand negb andb orb] in *; lia.
Qed.

(** the worker in hand goes (back) into the idle set *)
Lemma inv_add_idle s s' w :
  Inv (Some w) s ->
  idle s' = idle s ++ [w] -> busy s' = busy s -> nworkers s' = nworkers s -> coordq s' = coordq s -> wq s' = wq s ->
  Inv None s'.
Proof.
  intros HI E1 E2 E3 E4 E5. destruct HI as [H1 H2 H3].
  assert (Hw : mem w (idle s) = false).
  { specialize (H2 w). unfold status, inhand in H2. rewrite Nat.eqb_refl in H2.
    destruct (mem w (idle s)); [|reflexivity]. destruct (Nat.ltb w (nworkers s)); cbn in H2; lia. }
  split.
  - rewrite E1. apply NoDup_app_snoc; [exact H1|]. intros Hin. apply mem_In in Hin. congruence.
  - intros x. unfold status, out. rewrite E1, E3, E4, E5, mem_app. specialize (H2 x). unfold status, out, inhand in H2.
    rewrite (Nat.eqb_sym w x) in H2. destruct (Nat.eq_dec x w) as [->|Hne].
    + rewrite Nat.eqb_refl in *. rewrite Hw in *. fin.
    + neqb Hne. rewrite orb_false_r. fin.
  - rewrite E2, E3, H3. apply sumw_ext. intros x _. unfold out. rewrite E4, E5. reflexivity.
Qed.

(** createWorker returned a new worker, now in hand *)
Lemma inv_new_inhand s s' :
  Inv None s ->
  idle s' = idle s -> busy s' = busy s -> nworkers s' = S (nworkers s) -> coordq s' = coordq s -> wq s' = wq s ->
  Inv (Some (nworkers s)) s'.
Proof.
  intros HI E1 E2 E3 E4 E5. destruct (inv_fresh _ _ (nworkers s) HI (le_n _)) as (F1 & F2 & F3).
  destruct HI as [H1 H2 H3]. set (n := nworkers s) in *. split.
  - rewrite E1. exact H1.
  - intros x. unfold status, out, inhand. rewrite E1, E3, E4, E5. specialize (H2 x). unfold status, out in H2.
    rewrite (Nat.eqb_sym n x). destruct (Nat.eq_dec x n) as [->|Hne].
    + rewrite F1, F2, F3, Nat.eqb_refl. replace (Nat.ltb n (S n)) with true by (symmetry; apply Nat.ltb_lt; lia).
      reflexivity.
    + neqb Hne. assert (Nat.ltb x (S n) = Nat.ltb x n) as ->.
      { destruct (Nat.ltb_spec x (S n)), (Nat.ltb_spec x n); try reflexivity; lia. }
      fin.
  - rewrite E2, E3, H3. cbn [sumw]. replace (out s' n) with 0 by (unfold out; rewrite E4, E5, F1, F3; reflexivity).
    rewrite (sumw_ext n (out s') (out s)); [lia|]. intros x _. unfold out. rewrite E4, E5. reflexivity.
Qed.

(** the coordinator takes the job at the head of its queue *)
Lemma inv_pop_cidle s s' w q :
  Inv None s -> coordq s = CIdle w :: q ->
  idle s' = idle s -> busy s' = pred (busy s) -> nworkers s' = nworkers s -> coordq s' = q -> wq s' = wq s ->
  Inv (Some w) s' /\ 1 <= busy s.
Proof.
  intros HI Eq E1 E2 E3 E4 E5. destruct HI as [H1 H2 H3].
  assert (Hout : forall x, out s x = out s' x + b2n (Nat.eqb w x)).
  { intros x. unfold out. rewrite Eq, E4, E5, cid_cons_idle. lia. }
  assert (Hlt : w < nworkers s).
  { specialize (H2 w). unfold status in H2. rewrite Hout, Nat.eqb_refl in H2.
    destruct (Nat.ltb_spec w (nworkers s)); [assumption | cbn [b2n] in H2; lia]. }
  pose proof (sumw_upd_in (nworkers s) (out s') (out s) w Hlt) as Hs.
  assert (Hne : forall x, x <> w -> out s' x = out s x).
  { intros x Hx. rewrite Hout. assert (w <> x) by congruence. neqb H. fin. }
  specialize (Hs Hne). rewrite (Hout w), Nat.eqb_refl in Hs. cbn [b2n] in Hs.
  split; [|lia]. split.
  - rewrite E1. exact H1.
  - intros x. unfold status. rewrite E1, E3, E5. specialize (H2 x). unfold status in H2. rewrite Hout in H2. fin.
  - rewrite E2, E3, H3. lia.
Qed.

Lemma inv_pop_other s s' j q :
  Inv None s -> coordq s = j :: q -> (forall x, j <> CIdle x) -> same_core (mk (tquit s) (limit s) q (coord_done s) (idle s) (busy s) (pending s) (toShrink s) (shouldQuit s) (nworkers s) (wq s)) s' ->
  Inv None s'.
Proof.
  intros HI Eq Hj Hc. eapply inv_same; [|exact Hc]. destruct HI as [H1 H2 H3]. split; unfold enqueue; cbn [coordq idle busy nworkers wq].
  - exact H1.
  - intros w. specialize (H2 w). unfold status, out in *. cbn [coordq idle busy nworkers wq]. rewrite Eq, cid_cons_other in H2 by exact Hj. exact H2.
  - rewrite H3. apply sumw_ext. intros x _. unfold out. cbn [coordq idle busy nworkers wq]. rewrite Eq, cid_cons_other by exact Hj. reflexivity.
Qed.

(** a client call enqueues a job that is not a CIdle *)
Lemma inv_enqueue s j : Inv None s -> (forall x, j <> CIdle x) -> Inv None (enqueue s j).
Proof.
  intros [H1 H2 H3] Hj. split; unfold enqueue; cbn [coordq idle busy nworkers wq].
  - exact H1.
  - intros w. specialize (H2 w). unfold status, out in *. cbn [coordq idle busy nworkers wq]. rewrite cid_snoc_other by exact Hj. exact H2.
  - rewrite H3. apply sumw_ext. intros x _. unfold out. cbn [coordq idle busy nworkers wq]. rewrite cid_snoc_other by exact Hj. reflexivity.
Qed.

(** worker w performs a task: WRun leaves its queue, CIdle w joins the coordinator's *)
Lemma inv_work s s' w t q :
  Inv None s -> wq s w = WRun t :: q ->
  idle s' = idle s -> busy s' = busy s -> nworkers s' = nworkers s -> coordq s' = coordq s ++ [CIdle w] ->
  wq s' = upd (wq s) w q -> Inv None s'.
Proof.
  intros HI Eq E1 E2 E3 E4 E5. destruct HI as [H1 H2 H3].
  assert (Hout : forall x, out s' x = out s x).
  { intros x. unfold out. rewrite E4, E5, cid_snoc_idle. destruct (Nat.eq_dec x w) as [->|Hne].
    - rewrite upd_same, Eq, Nat.eqb_refl. unfold runs. rewrite count_cons. cbn [is_run b2n]. lia.
    - rewrite upd_other by exact Hne. assert (w <> x) by congruence. neqb H. fin. }
  split.
  - rewrite E1. exact H1.
  - intros x. unfold status. rewrite Hout, E1, E3, E5. specialize (H2 x). unfold status in H2.
    destruct (Nat.eq_dec x w) as [->|Hne].
    + rewrite upd_same. rewrite Eq in H2. unfold stops in *. rewrite count_cons in H2. cbn [is_stop is_run negb] in H2. lia.
    + rewrite upd_other by exact Hne. exact H2.
  - rewrite E2, E3, H3. apply sumw_ext. intros x _. symmetry. apply Hout.
Qed.

Lemma init_inv lim : Inv None (init lim).
Proof.
  split; cbn.
  - constructor.
  - intros w. unfold status, out. cbn. reflexivity.
  - reflexivity.
Qed.

(** ---- the coordinator-side functions preserve the invariant ---- *)
Lemma coordinate_inv s t ch : Inv None s -> Inv None (fst (fst (coordinate s t ch))).
Proof.
  intros HI. unfold coordinate. destruct (pop_idle (idle s) ch) as [[w idl]|] eqn:E.
  - apply pop_idle_some in E. destruct E as [Hin ->]. cbn [fst].
    eapply (inv_assign s _ w t HI Hin); reflexivity.
  - apply pop_idle_none in E. destruct (Nat.ltb (length (idle s) + busy s) (limit s)); cbn [fst].
    + eapply (inv_create_assign s _ t HI); try reflexivity. cbn. symmetry. exact E.
    + eapply inv_same; [exact HI|]. repeat split.
Qed.

Lemma quit_loop_inv n : forall s ch, Inv None s -> Inv None (fst (fst (quit_loop n s ch))).
Proof.
  induction n as [|k IH]; intros s ch HI; cbn [quit_loop]; [exact HI|].
  destruct (pop_idle (idle s) ch) as [[w idl]|] eqn:E.
  - apply pop_idle_some in E. destruct E as [Hin ->].
    match goal with |- context [quit_loop k ?s1 ?c1] =>
      assert (H1 : Inv None s1) by (eapply (inv_stop s _ w HI Hin); reflexivity);
      specialize (IH s1 c1 H1); destruct (quit_loop k s1 c1) as [[s2 ch2] es] end.
    exact IH.
  - match goal with |- context [quit_loop k ?s1 ?c1] =>
      assert (H1 : Inv None s1) by (eapply inv_same; [exact HI | repeat split]);
      exact (IH s1 c1 H1) end.
Qed.

Lemma quit_idlers_inv n s ch : Inv None s -> Inv None (fst (fst (quit_idlers n s ch))).
Proof.
  intros HI. unfold quit_idlers.
  match goal with |- context [quit_loop ?m s ch] =>
    pose proof (quit_loop_inv m s ch HI) as H; destruct (quit_loop m s ch) as [[s1 ch1] es] end.
  cbn [fst] in H. destruct (shouldQuit s1 && Nat.eqb (busy s1) 0); cbn [fst]; [|exact H].
  eapply inv_same; [exact H | repeat split].
Qed.

Lemma recycle_inv s w ch : Inv (Some w) s -> Inv None (fst (fst (recycle s w ch))).
Proof.
  intros HI. unfold recycle.
  match goal with |- context [pending ?s0] =>
    assert (H0 : Inv None s0) by (eapply (inv_add_idle s _ w HI); reflexivity) end.
  cbn [pending shouldQuit toShrink idle] in *.
  destruct (pending s) as [|t p].
  - destruct (shouldQuit s).
    + apply quit_idlers_inv, H0.
    + destruct (Nat.ltb 0 (toShrink s)); cbn [fst]; [|exact H0].
      eapply (inv_stop _ _ w H0); try reflexivity. cbn. apply in_or_app. right. left. reflexivity.
  - apply coordinate_inv. eapply inv_same; [exact H0 | repeat split].
Qed.

Lemma grow_loop_inv n : forall s ch, Inv None s -> Inv None (fst (fst (grow_loop n s ch))).
Proof.
  induction n as [|k IH]; intros s ch HI; cbn [grow_loop]; [exact HI|].
  destruct (Nat.ltb (length (idle s) + busy s) (limit s)); [|exact HI].
  match goal with |- context [recycle ?s0 ?w ch] =>
    assert (H0 : Inv (Some (nworkers s)) s0) by (eapply (inv_new_inhand s _ HI); reflexivity);
    pose proof (recycle_inv s0 w ch H0) as H1; destruct (recycle s0 w ch) as [[s1 ch1] es1] end.
  cbn [fst] in H1. specialize (IH s1 ch1 H1). destruct (grow_loop k s1 ch1) as [[s2 ch2] es2]. exact IH.
Qed.

(** [unq s q]: s with the head job taken off the coordinator queue *)
Definition unq (s : st) (q : list cjob) : st :=
  mk (tquit s) (limit s) q (coord_done s) (idle s) (busy s) (pending s) (toShrink s) (shouldQuit s) (nworkers s) (wq s).

Lemma run_job_inv s j q ch : Inv None s -> coordq s = j :: q -> Inv None (fst (run_job (unq s q) j ch)).
Proof.
  intros HI Eq. unfold run_job. destruct j as [t | n | n | w | ].
  - assert (H0 : Inv None (unq s q)) by (eapply (inv_pop_other s _ _ q HI Eq); [discriminate | repeat split]).
    pose proof (coordinate_inv _ t ch H0) as H. destruct (coordinate (unq s q) t ch) as [[s1 c1] es]. exact H.
  - assert (H0 : Inv None (unq s q)) by (eapply (inv_pop_other s _ _ q HI Eq); [discriminate | repeat split]).
    pose proof (grow_loop_inv n _ ch H0) as H. destruct (grow_loop n (unq s q) ch) as [[s1 c1] es]. exact H.
  - assert (H0 : Inv None (unq s q)) by (eapply (inv_pop_other s _ _ q HI Eq); [discriminate | repeat split]).
    pose proof (quit_idlers_inv n _ ch H0) as H. destruct (quit_idlers n (unq s q) ch) as [[s1 c1] es]. exact H.
  - match goal with |- context [recycle ?s0 w ch] =>
      assert (H0 : Inv (Some w) s0) by (eapply (inv_pop_cidle s _ w q HI Eq); reflexivity);
      pose proof (recycle_inv s0 w ch H0) as H; destruct (recycle s0 w ch) as [[s1 c1] es] end. exact H.
  - match goal with |- context [quit_idlers None ?s0 ch] =>
      assert (H0 : Inv None s0) by (eapply (inv_pop_other s _ _ q HI Eq); [discriminate | repeat split]);
      pose proof (quit_idlers_inv None s0 ch H0) as H; destruct (quit_idlers None s0 ch) as [[s1 c1] es] end. exact H.
Qed.

Lemma step_inv s l : Inv None s -> Inv None (fst (step s l)).
Proof.
  intros HI. destruct l as [t | n | n | | k | ch | w]; cbn [step]; unfold client.
  1-3: destruct (tquit s); cbn [fst]; [exact HI | apply inv_enqueue; [exact HI | discriminate]].
  - destruct (tquit s); cbn [fst]; [exact HI|]. apply inv_enqueue; [|discriminate]. eapply inv_same; [exact HI | repeat split].
  - cbn [fst]. eapply inv_same; [exact HI | repeat split].
  - destruct (coord_done s) eqn:Ed; [exact HI|]. destruct (coordq s) as [|j q] eqn:Eq; [exact HI|].
    pose proof (run_job_inv s j q ch HI Eq) as H. unfold unq in H. rewrite Ed in H. exact H.
  - destruct (wq s w) as [|[t|] q] eqn:Eq; cbn [fst]; try exact HI.
    eapply (inv_work s _ w t q HI Eq); reflexivity.
Qed.

Lemma run_cons s l r :
  run s (l :: r) = (fst (run (fst (step s l)) r), snd (step s l) :: snd (run (fst (step s l)) r)).
Proof. cbn [run]. destruct (step s l) as [s1 e]. cbn [fst snd]. destruct (run s1 r); reflexivity. Qed.

Lemma run_inv ls : forall s, Inv None s -> Inv None (fst (run s ls)).
Proof. induction ls as [|l r IH]; intros s H; [exact H|]. rewrite run_cons. cbn [fst]. apply IH, step_inv, H. Qed.

(** ---- no worker is ever given a second task before the first is finished and acknowledged ---- *)
Lemma inv_out_le_1 s w : Inv None s -> out s w <= 1 /\ runs (wq s w) + stops (wq s w) <= 1.
Proof.
  intros HI. pose proof (i_status _ _ HI w) as H. unfold status, out in *. cbn [inhand] in H.
  destruct (Nat.ltb w (nworkers s)), (mem w (idle s)); cbn [b2n] in H; lia.
Qed.
