(** C49: the invariants over whole runs and what they give at quiescence. *)
From Coq Require Import List Arith Bool Lia.
From C49 Require Import Model Proofs Inv Acct Quit.
Import ListNotations.

Record AllInv (s : st) : Prop := { a_inv : Inv None s; a_p1 : P1 s; a_q : Q s }.

Lemma init_all lim : AllInv (init lim).
Proof. split; [apply init_inv | apply init_P1 | apply init_Q]. Qed.

Lemma step_all s l : AllInv s -> AllInv (fst (step s l)).
Proof. intros [A B C]. split; [apply step_inv, A | apply step_P1, B | apply step_Q, C]. Qed.

Lemma run_all ls : forall s, AllInv s -> AllInv (fst (run s ls)).
Proof. induction ls as [|l r IH]; intros s H; [exact H|]. rewrite Inv.run_cons. cbn [fst]. apply IH, step_all, H. Qed.

(** nothing left to perform: the coordinator has no job it would run, no worker has a task at the head of its queue *)
Definition quiescent (s : st) : Prop :=
  (coord_done s = true \/ coordq s = []) /\ (forall w, match wq s w with WRun _ :: _ => False | _ => True end).

(** ... which is exactly "every performer step is a no-op" *)
Lemma quiescent_operational s :
  quiescent s <-> (forall ch, snd (step s (Coord ch)) = [ENothing]) /\ (forall w, snd (step s (Work w)) = [ENothing]).
Proof.
  unfold quiescent. split.
  - intros [Hc Hw]. split.
    + intros ch. cbn [step]. destruct (coord_done s); [reflexivity|]. destruct Hc as [Hc|Hc]; [discriminate|]. rewrite Hc. reflexivity.
    + intros w. cbn [step]. specialize (Hw w). destruct (wq s w) as [|[t|] q]; try reflexivity. destruct Hw.
  - intros [Hc Hw]. split.
    + specialize (Hc []). cbn [step] in Hc. destruct (coord_done s); [left; reflexivity|]. right.
      destruct (coordq s) as [|j q]; [reflexivity|]. exfalso.
      match type of Hc with snd (run_job ?s0 j []) = _ => destruct (run_job_good s0 j []) as [_ Hg] end.
      rewrite Hc in Hg. inversion Hg as [|? ? [_ Hbad] _]; subst. exact Hbad.
    + intros w. specialize (Hw w). cbn [step] in Hw. destruct (wq s w) as [|[t|] q]; try exact I. discriminate.
Qed.

Lemma queue_shape s w : Inv None s -> wq s w = [] \/ (exists t, wq s w = [WRun t]) \/ wq s w = [WStop].
Proof.
  intros HI. destruct (inv_out_le_1 s w HI) as [_ H]. pose proof (len_runs_stops (wq s w)) as L.
  destruct (wq s w) as [|j [|j' r]]; [left; reflexivity | | cbn [length] in L; lia].
  right. destruct j; [left; eexists; reflexivity | right; reflexivity].
Qed.

Lemma quiescent_no_runs s w : Inv None s -> quiescent s -> runs (wq s w) = 0.
Proof.
  intros HI [_ Hw]. specialize (Hw w). destruct (queue_shape s w HI) as [E|[[t E]|E]]; rewrite E in *; try reflexivity. destruct Hw.
Qed.

Lemma quiescent_no_cidle s : Q s -> quiescent s -> coord_done s = true \/ coordq s = [].
Proof. intros _ [H _]. exact H. Qed.

Lemma quiescent_busy0 s : AllInv s -> quiescent s -> busy s = 0.
Proof.
  intros [HI _ HQ] Hq. destruct (proj1 Hq) as [Hd|He].
  - apply (q_done s HQ Hd).
  - rewrite (i_busy _ _ HI). apply sumw_all_zero. intros w _. unfold out. rewrite He, (quiescent_no_runs s w HI Hq). reflexivity.
Qed.

(** after quit(), once nothing is left to perform: the coordinator has been quit, no worker is idle or busy,
    and every worker ever created has been told to stop (its queue holds exactly the stop marker) *)
Lemma after_quit s : AllInv s -> tquit s = true -> quiescent s ->
  coord_done s = true /\ idle s = [] /\ busy s = 0 /\ forall w, w < nworkers s -> wq s w = [WStop].
Proof.
  intros HA Ht Hq. pose proof (quiescent_busy0 s HA Hq) as Hb. destruct HA as [HI HP HQ].
  assert (Hs : shouldQuit s = true).
  { destruct (shouldQuit s) eqn:Es; [reflexivity|]. exfalso. pose proof (q_form s HQ) as F. unfold qform in F. rewrite Es, Ht in F.
    destruct F as (a & b & E & _). destruct (proj1 Hq) as [Hd|He].
    - destruct (q_done s HQ Hd). congruence.
    - rewrite He in E. destruct a; discriminate. }
  pose proof (q_idle s HQ Hs) as Hi. split; [apply (q_stop s HQ Hs Hb)|]. split; [exact Hi|]. split; [exact Hb|].
  intros w Hw. pose proof (i_status _ _ HI w) as S. unfold status in S. rewrite Hi in S. cbn [mem existsb b2n inhand] in S.
  replace (Nat.ltb w (nworkers s)) with true in S by (symmetry; apply Nat.ltb_lt, Hw). cbn [b2n] in S.
  assert (Ho : out s w = 0).
  { rewrite (i_busy _ _ HI) in Hb. apply (sumw_zero _ _ Hb w Hw). }
  rewrite Ho in S. unfold out in Ho.
  destruct (queue_shape s w HI) as [E|[[t E]|E]]; [| |exact E]; rewrite E in S, Ho; unfold stops, runs, count in *; cbn in S, Ho; lia.
Qed.

(** at quiescence the only copies of a task still in flight are in the backlog, and tasks sit in the backlog
    only when no worker at all is idle or busy *)
Lemma quiescent_cnt t0 s : AllInv s -> quiescent s -> cnt t0 s = count (is_t t0) (pending s).
Proof.
  intros HA Hq. destruct HA as [HI HP HQ]. unfold cnt.
  assert (Hc : count (is_ctask t0) (coordq s) = 0).
  { destruct (proj1 Hq) as [Hd|He]; [|rewrite He; reflexivity].
    destruct (q_done s HQ Hd) as [Hs _]. pose proof (q_form s HQ) as F. unfold qform in F. rewrite Hs in F. destruct F as [F _].
    induction F as [|j q Hj _ IH]; [reflexivity|]. rewrite count_cons, IH. destruct j; try destruct Hj. reflexivity. }
  assert (Hw : sumw (nworkers s) (inq t0 s) = 0).
  { apply sumw_all_zero. intros w _. unfold inq. pose proof (quiescent_no_runs s w HI Hq) as R.
    destruct (queue_shape s w HI) as [E|[[t E]|E]]; rewrite E in *; try reflexivity. unfold runs, count in R. cbn in R. lia. }
  rewrite Hc, Hw. lia.
Qed.

Lemma quiescent_backlog s : AllInv s -> quiescent s -> pending s <> [] -> idle s = [] /\ busy s = 0.
Proof. intros HA Hq Hp. split; [apply (a_p1 s HA Hp) | apply (quiescent_busy0 s HA Hq)]. Qed.

(** non-triviality of the quiescence theorems: a run with a backlog, a raising task and quit that reaches
    quiescence with the flag set and one worker created *)
Example quiescent_after_quit_reachable :
  let ls := [Do (0, false); Do (1, true); Coord []; Coord []; Work 0; Coord [0]; Work 0; Quit; Coord [0]; Coord [0]] in
  let s := fst (run (init 1) ls) in
  tquit s = true /\ quiescent s /\ nworkers s = 1 /\ wq s 0 = [WStop].
Proof.
  split; [vm_compute; reflexivity|]. split; [|split; vm_compute; reflexivity].
  split; [left; vm_compute; reflexivity|]. intros w. vm_compute. destruct w as [|w]; exact I.
Qed.

Lemma each_task_lemma : forall lim ls t0,
  let r := run (init lim) ls in
  let log := all_events (snd r) in
  total (acc_ev t0) log = total (ran_ev t0) log + cnt t0 (fst r)
  /\ (quiescent (fst r) ->
        cnt t0 (fst r) = count (is_t t0) (pending (fst r))
        /\ (pending (fst r) <> [] -> idle (fst r) = [] /\ busy (fst r) = 0)).
Proof.
  intros lim ls t0 r log. pose proof (run_all ls (init lim) (init_all lim)) as HA.
  split.
  - pose proof (run_cnt t0 ls (init lim) (init_inv lim)) as H. fold r in H. fold log in H.
    change (cnt t0 (init lim)) with 0 in H. symmetry. rewrite Nat.add_comm. exact H.
  - intros Hq. split; [apply quiescent_cnt | apply quiescent_backlog]; assumption.
Qed.

Lemma not_released_lemma : forall lim ls l,
  let s := fst (run (init lim) ls) in
  pending s <> [] -> idle s = [] /\ busy s <= busy (fst (step s l)).
Proof.
  intros lim ls l s Hp. pose proof (run_all ls (init lim) (init_all lim)) as [HI HP HQ]. fold s in HI, HP, HQ.
  split; [apply HP, Hp | apply step_busy; assumption].
Qed.

Lemma one_task_lemma : forall lim ls w,
  let s := fst (run (init lim) ls) in
  runs (wq s w) + cid w (coordq s) <= 1
  /\ (mem w (idle s) = true -> runs (wq s w) + cid w (coordq s) = 0 /\ stops (wq s w) = 0)
  /\ (1 <= stops (wq s w) -> runs (wq s w) + cid w (coordq s) = 0)
  /\ busy s = sumw (nworkers s) (fun x => runs (wq s x) + cid x (coordq s)).
Proof.
  intros lim ls w s. pose proof (run_inv ls (init lim) (init_inv lim)) as HI. fold s in HI.
  pose proof (i_status _ _ HI w) as S. unfold status, out in S. cbn [inhand] in S.
  split; [apply (inv_out_le_1 s w HI)|]. split; [|split; [|exact (i_busy _ _ HI)]].
  - intros Hm. rewrite Hm in S. destruct (Nat.ltb w (nworkers s)); cbn [b2n] in S; split; Lia.lia.
  - intros Hs. destruct (Nat.ltb w (nworkers s)), (mem w (idle s)); cbn [b2n] in S; Lia.lia.
Qed.

(** a growth request served while tasks wait and the limit allows a worker: the worker IS created and takes the
    oldest waiting task at once (whatever deferred shrink is outstanding) *)
Lemma pop_single w ch : pop_idle [w] ch = Some (w, []).
Proof.
  unfold pop_idle. destruct ch as [|c r]; cbn; [rewrite Nat.eqb_refl; reflexivity|].
  destruct (Nat.eqb c w) eqn:E; cbn.
  - apply Nat.eqb_eq in E. subst c. rewrite Nat.eqb_refl. reflexivity.
  - rewrite Nat.eqb_refl. reflexivity.
Qed.

Lemma grow_serves_backlog n s ch t p :
  pending s = t :: p -> idle s = [] -> length (idle s) + busy s < limit s ->
  exists rest, snd (grow_loop (S n) s ch)
               = ECreate (nworkers s) (length (idle s) + busy s) (limit s) :: EDo (nworkers s) t :: rest.
Proof.
  intros Hp Hi Hl. cbn [grow_loop]. apply Nat.ltb_lt in Hl. rewrite Hl.
  unfold recycle. cbn [pending idle]. rewrite Hp, Hi. cbn [app]. unfold coordinate. cbn [idle]. rewrite pop_single.
  match goal with |- context [grow_loop n ?s1 ?c1] => destruct (grow_loop n s1 c1) as [[s2 ch2] es2] end.
  cbn. eexists. reflexivity.
Qed.
