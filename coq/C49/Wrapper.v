(** C49: the reporting wrapper of ThreadPool.callInThreadWithCallback (python/threadpool.py, [inContext]):
      try: result = theWork(); ok = True
      except BaseException: result = Failure(); ok = False
      theWork = None
      if onResult is not None: onResult(ok, result); onResult = None
      elif not ok: log.err(result)
    as a function of what the task does and what the callback does.  Sequential; the threads that run it are
    the Team's business (Model.v) and the OS's. *)
From Coq Require Import List Bool.
Import ListNotations.

Inductive how := HRet | HSlow | HExc | HSysExit | HGenExit | HBase.
Inductive cbmode := NoCb | CbOk | CbRaiseOnOk | CbRaiseOnFail | CbRaiseAlways.

(** what onResult is called with: (True, value) or (False, Failure of the task's exception) *)
Inductive report := RTrue | RFalse (h : how).

Definition task_outcome (h : how) : report :=
  match h with HRet | HSlow => RTrue | _ => RFalse h end.

Definition cb_raises (cb : cbmode) (r : report) : bool :=
  match cb, r with
  | CbRaiseAlways, _ => true
  | CbRaiseOnOk, RTrue => true
  | CbRaiseOnFail, RFalse _ => true
  | _, _ => false
  end.

Record wrapped := mkw {
  body_runs : nat;          (* times the task body is entered *)
  reports : list report;    (* calls of onResult, in order *)
  escapes : bool;           (* an exception leaves inContext (Team.doWork logs it) *)
  logged : bool             (* inContext itself called log.err(result) *)
}.

Definition in_context (h : how) (cb : cbmode) : wrapped :=
  let r := task_outcome h in
  match cb with
  | NoCb => mkw 1 [] false (match r with RTrue => false | RFalse _ => true end)
  | _ => mkw 1 [r] (cb_raises cb r) false
  end.

(** the callback is invoked exactly once per submitted call, with the task's own outcome, whatever the callback
    itself does (its own exception escapes to the Team, it is never turned into a second report) *)
Lemma one_report h cb :
  body_runs (in_context h cb) = 1
  /\ (cb <> NoCb -> reports (in_context h cb) = [task_outcome h])
  /\ (cb = NoCb -> reports (in_context h cb) = [])
  /\ (escapes (in_context h cb) = true -> cb <> NoCb /\ cb_raises cb (task_outcome h) = true).
Proof.
  destruct cb; cbn; repeat split; try reflexivity; try congruence; try discriminate; intros H; try contradiction; try discriminate; exact H.
Qed.
