(** C49 property theorems (Team with in-memory workers): for every limit [lim], every schedule [ls] of client
    calls (do / grow / shrink / quit / limit change), coordinator steps and worker steps, and every resolution
    of set.pop() (the choice lists inside [Coord]).  A task is (id, raises).

    Notions (coq/C49/Inv.v, Acct.v, Quit.v, Final.v):
      all_events log            the ghost log of the run, flattened
      acc_ev t0 / ran_ev t0     1 on "do(t0) accepted" / "t0's body ran on some worker", else 0
      cnt t0 s                  copies of t0 in flight in s: coordinator queue + backlog + worker queues
      runs q, stops q, cid w q  WRun / WStop entries of a worker queue; CIdle w jobs (= finished, not yet
                                acknowledged tasks of w) on the coordinator queue
      quiescent s               nothing left to perform (every Coord / Work step is a no-op)          *)
From Coq Require Import List Arith Bool.
From C49 Require Import Model Proofs Inv Acct Quit Final Wrapper.
Import ListNotations.

(** every task submitted before quit runs exactly once, unless no worker could ever be created.
    (1) At every point of every run: acceptances of t0 = runs of t0 + copies still in flight -- none lost,
        none invented, and a task accepted once has run at most once.
    (2) At quiescence the only copies in flight are in the backlog (so a task accepted once and not in the
        backlog has run exactly once), and
    (3) tasks are left in the backlog only if no worker at all is idle or busy.  By
        [workers_not_released_while_tasks_wait] and [workers_created_only_below_limit] that means: none existed when
        the task was backlogged (limit <= 0 live workers) and none has been created since. *)
Theorem each_task_runs_once_unless_no_worker_ever : forall lim ls t0,
  let r := run (init lim) ls in
  let log := all_events (snd r) in
  total (acc_ev t0) log = total (ran_ev t0) log + cnt t0 (fst r)
  /\ (quiescent (fst r) ->
        cnt t0 (fst r) = count (is_t t0) (pending (fst r))
        /\ (pending (fst r) <> [] -> idle (fst r) = [] /\ busy (fst r) = 0)).
Proof. exact each_task_lemma. Qed.
Print Assumptions each_task_runs_once_unless_no_worker_ever.

(** while tasks wait in the backlog no worker is idle, and no step of any kind releases a worker:
    _busyCount never decreases until the backlog is empty *)
Theorem workers_not_released_while_tasks_wait : forall lim ls l,
  let s := fst (run (init lim) ls) in
  pending s <> [] -> idle s = [] /\ busy s <= busy (fst (step s l)).
Proof. exact not_released_lemma. Qed.
Print Assumptions workers_not_released_while_tasks_wait.

(** workers are created only while fewer than the limit exist, and a task is put in the backlog only when the
    limit is reached (the limit may change during the run) *)
Theorem workers_created_only_below_limit : forall lim ls,
  Forall (Forall (fun e => match e with ECreate _ live limit_now => live < limit_now
                          | EBacklog _ live limit_now => limit_now <= live | _ => True end))
         (snd (run (init lim) ls)).
Proof. intros lim ls. exact (run_events_ok ls (init lim)). Qed.
Print Assumptions workers_created_only_below_limit.

(** no worker runs two tasks at once: at every point each worker has at most one task outstanding (queued on it,
    or finished and not yet acknowledged by the coordinator), an idle worker has none, a stopped worker has none,
    and _busyCount is exactly the number of workers with a task outstanding *)
Theorem no_worker_runs_two_tasks : forall lim ls w,
  let s := fst (run (init lim) ls) in
  runs (wq s w) + cid w (coordq s) <= 1
  /\ (mem w (idle s) = true -> runs (wq s w) + cid w (coordq s) = 0 /\ stops (wq s w) = 0)
  /\ (1 <= stops (wq s w) -> runs (wq s w) + cid w (coordq s) = 0)
  /\ busy s = sumw (nworkers s) (fun x => runs (wq s x) + cid x (coordq s)).
Proof. exact one_task_lemma. Qed.
Print Assumptions no_worker_runs_two_tasks.

(** after quit, once outstanding work has been performed, every worker is stopped and so is the coordinator *)
Theorem after_quit_all_workers_stop : forall lim ls,
  let s := fst (run (init lim) ls) in
  tquit s = true -> quiescent s ->
  coord_done s = true /\ idle s = [] /\ busy s = 0 /\ forall w, w < nworkers s -> wq s w = [WStop].
Proof. intros lim ls s Ht Hq. apply after_quit; [apply run_all, init_all | exact Ht | exact Hq]. Qed.
Print Assumptions after_quit_all_workers_stop.

(** [quiescent] is exactly "every performer step does nothing" *)
Theorem quiescent_is_nothing_left_to_perform : forall s,
  quiescent s <-> (forall ch, snd (step s (Coord ch)) = [ENothing]) /\ (forall w, snd (step s (Work w)) = [ENothing]).
Proof. exact quiescent_operational. Qed.
Print Assumptions quiescent_is_nothing_left_to_perform.

(** once quit() has been accepted the flag stays set whatever runs afterwards ... *)
Theorem quit_is_permanent : forall s ls, tquit s = true -> tquit (fst (run s ls)) = true.
Proof. intros s ls. exact (run_tquit_mono ls s). Qed.
Print Assumptions quit_is_permanent.

(** ... quit() sets it ... *)
Theorem quit_accepted_once : forall s,
  tquit s = false -> tquit (fst (step s Quit)) = true /\ snd (step s Quit) = [EAccepted CQuit].
Proof. exact quit_sets_flag. Qed.
Print Assumptions quit_accepted_once.

(** ... and from then on every do / grow / shrink / quit is refused (AlreadyQuit) and changes nothing *)
Theorem submissions_after_quit_refused : forall s ls l,
  tquit s = true -> is_client l = true ->
  step (fst (run s ls)) l = (fst (run s ls), [ERefused]).
Proof. intros s ls l H Hl. apply client_refused; [apply run_tquit_mono, H | exact Hl]. Qed.
Print Assumptions submissions_after_quit_refused.

(** a growth request (grow / startAWorker / adjustPoolsize / start) served while tasks wait in the backlog and the
    limit allows one more worker creates that worker and hands it the oldest waiting task in the same coordinator
    job -- whatever deferred shrink is outstanding.  (By [workers_not_released_while_tasks_wait] the idle set is
    empty whenever the backlog is not.) *)
Theorem growth_serves_the_backlog : forall n s ch t p,
  pending s = t :: p -> idle s = [] -> length (idle s) + busy s < limit s ->
  exists rest, snd (run_job s (CGrow (S n)) ch)
               = ECreate (nworkers s) (length (idle s) + busy s) (limit s) :: EDo (nworkers s) t :: rest.
Proof.
  intros n s ch t p Hp Hi Hl. destruct (grow_serves_backlog n s ch t p Hp Hi Hl) as [rest H]. exists rest.
  unfold run_job. destruct (grow_loop (S n) s ch) as [[s1 c1] es]. exact H.
Qed.
Print Assumptions growth_serves_the_backlog.

(** the reporting wrapper of ThreadPool.callInThreadWithCallback: the task body runs once and onResult is invoked
    exactly once, with the task's own outcome, whatever the callback does (returns, raises on success, raises on
    failure, raises always); without a callback nothing is reported *)
Theorem callback_reported_exactly_once_with_task_outcome : forall h cb,
  body_runs (in_context h cb) = 1
  /\ (cb <> NoCb -> reports (in_context h cb) = [task_outcome h])
  /\ (cb = NoCb -> reports (in_context h cb) = [])
  /\ (escapes (in_context h cb) = true -> cb <> NoCb /\ cb_raises cb (task_outcome h) = true).
Proof. exact one_report. Qed.
Print Assumptions callback_reported_exactly_once_with_task_outcome.
