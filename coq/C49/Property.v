(** C49 property theorems (Team with in-memory workers): for every limit, every schedule of client calls,
    coordinator steps and worker steps, and every resolution of set.pop().

    Proved here: the worker-limit guard and the quit/refusal half of the property.  NOT proved in Coq
    (checked on every run by the oracle of harness/c49.py on the real Team, see design.d/C49.md):
      each_task_runs_once_unless_no_worker_ever  (full statement: for every schedule, the multiset of accepted
        tasks = tasks that ran ++ tasks still queued (coordinator queue, backlog, worker queues), so no task
        runs twice or is lost, and at quiescence a task is left only when no worker is idle or busy),
      no_worker_runs_two_tasks, after_quit_all_workers_stop. *)
From Coq Require Import List Arith Bool.
From C49 Require Import Model Proofs.
Import ListNotations.

(** workers are created only while fewer than the limit exist: every creation event of every run was made
    with idle + busy < limit at that moment (the limit may change during the run) *)
Theorem workers_created_only_below_limit : forall lim ls,
  Forall (Forall (fun e => match e with ECreate _ live limit_now => live < limit_now | _ => True end))
         (snd (run (init lim) ls)).
Proof. intros lim ls. exact (run_events_ok ls (init lim)). Qed.
Print Assumptions workers_created_only_below_limit.

(** once quit() has been accepted the flag stays set whatever runs afterwards ... *)
Theorem quit_is_permanent : forall s ls, tquit s = true -> tquit (fst (run s ls)) = true.
Proof. intros s ls. exact (run_tquit_mono ls s). Qed.
Print Assumptions quit_is_permanent.

(** ... quit() sets it ... *)
Theorem quit_accepted_once : forall s,
  tquit s = false -> tquit (fst (step s Quit)) = true /\ snd (step s Quit) = [EAccepted].
Proof. exact quit_sets_flag. Qed.
Print Assumptions quit_accepted_once.

(** ... and from then on every do / grow / shrink / quit is refused (AlreadyQuit) and changes nothing:
    after any schedule [a] containing an accepted quit, and any further schedule [b] *)
Theorem submissions_after_quit_refused : forall s ls l,
  tquit s = true -> is_client l = true ->
  step (fst (run s ls)) l = (fst (run s ls), [ERefused]).
Proof. intros s ls l H Hl. apply client_refused; [apply run_tquit_mono, H | exact Hl]. Qed.
Print Assumptions submissions_after_quit_refused.
