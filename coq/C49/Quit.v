(** C49: backlog and shutdown invariants of the Team model. *)
From Coq Require Import List Arith Bool Lia.
From C49 Require Import Model Proofs Inv.
Import ListNotations.

(** what no coordinator-side function touches *)
Definition frame (s s' : st) : Prop :=
  tquit s' = tquit s /\ limit s' = limit s /\ coordq s' = coordq s /\ shouldQuit s' = shouldQuit s.

Lemma frame_refl s : frame s s.
Proof. repeat split. Qed.
Lemma frame_trans a b c : frame a b -> frame b c -> frame a c.
Proof. intros (A1 & A2 & A3 & A4) (B1 & B2 & B3 & B4). repeat split; congruence. Qed.

Lemma coordinate_spec s t ch : let s' := fst (fst (coordinate s t ch)) in
  frame s s' /\ coord_done s' = coord_done s /\ busy s <= busy s'
  /\ (idle s <> [] -> busy s' = S (busy s) /\ pending s' = pending s
                      /\ exists w, In w (idle s) /\ idle s' = remove1 w (idle s))
  /\ (idle s = [] -> idle s' = [])
  /\ (pending s' = pending s \/ pending s' = pending s ++ [t]).
Proof.
  unfold coordinate. destruct (pop_idle (idle s) ch) as [[w idl]|] eqn:E.
  - apply pop_idle_some in E. destruct E as [Hin ->]. cbn.
    split; [repeat split|]. split; [reflexivity|]. split; [lia|]. split; [|split].
    + intros _. split; [reflexivity|]. split; [reflexivity|]. exists w. split; [exact Hin | reflexivity].
    + intros H. rewrite H in Hin. destruct Hin.
    + left. reflexivity.
  - apply pop_idle_none in E. destruct (Nat.ltb (length (idle s) + busy s) (limit s)); cbn.
    + split; [repeat split|]. split; [reflexivity|]. split; [lia|]. split; [intros H; contradiction|].
      split; [reflexivity | left; reflexivity].
    + split; [repeat split|]. split; [reflexivity|]. split; [lia|]. split; [intros H; contradiction|].
      split; [intros _; exact E | right; reflexivity].
Qed.

Lemma quit_loop_spec n : forall s ch, let s' := fst (fst (quit_loop n s ch)) in
  frame s s' /\ coord_done s' = coord_done s /\ busy s' = busy s /\ pending s' = pending s
  /\ (length (idle s) <= n -> idle s' = []) /\ (forall x, In x (idle s') -> In x (idle s)).
Proof.
  induction n as [|k IH]; intros s ch; cbn [quit_loop].
  - cbn. repeat split; auto. intros H. destruct (idle s); [reflexivity | cbn in H; lia].
  - destruct (pop_idle (idle s) ch) as [[w idl]|] eqn:E.
    + apply pop_idle_some in E. destruct E as [Hin ->].
      match goal with |- context [quit_loop k ?s1 ?c1] =>
        specialize (IH s1 c1); destruct (quit_loop k s1 c1) as [[s2 ch2] es] end.
      cbn in *. destruct IH as (F & C & B & P & I1 & I2). repeat split; try apply F; auto.
      * intros H. apply I1. pose proof (length_remove1 w (idle s) Hin). lia.
      * intros x Hx. eapply In_remove1, I2, Hx.
    + apply pop_idle_none in E.
      match goal with |- context [quit_loop k ?s1 ?c1] => specialize (IH s1 c1) end.
      cbn in *. destruct IH as (F & C & B & P & I1 & I2). repeat split; try apply F; auto.
      intros _. apply I1. rewrite E. cbn. lia.
Qed.

Lemma quit_idlers_spec n s ch : let s' := fst (fst (quit_idlers n s ch)) in
  frame s s' /\ busy s' = busy s /\ pending s' = pending s
  /\ (n = None \/ idle s = [] -> idle s' = []) /\ (forall x, In x (idle s') -> In x (idle s))
  /\ coord_done s' = (if shouldQuit s && Nat.eqb (busy s) 0 then true else coord_done s).
Proof.
  unfold quit_idlers.
  match goal with |- context [quit_loop ?m s ch] =>
    pose proof (quit_loop_spec m s ch) as H; destruct (quit_loop m s ch) as [[s1 ch1] es] eqn:El end.
  cbn [fst] in H. destruct H as (F & C & B & P & I1 & I2). destruct F as (F1 & F2 & F3 & F4).
  assert (Hidle : n = None \/ idle s = [] -> idle s1 = []).
  { intros [->|E]; apply I1; [lia | rewrite E; cbn; lia]. }
  rewrite F4, B. destruct (shouldQuit s && Nat.eqb (busy s) 0); cbn; repeat split; auto.
Qed.

(** ---- P1: tasks wait in the backlog only while no worker is idle ---- *)
Definition P1 (s : st) : Prop := pending s <> [] -> idle s = [].

Lemma remove1_single w x : In x [w] -> remove1 x [w] = [].
Proof. intros [->|[]]. cbn. rewrite Nat.eqb_refl. reflexivity. Qed.

(** recycle: everything we need about it *)
Lemma recycle_spec s w ch : let s' := fst (fst (recycle s w ch)) in
  frame s s'
  /\ (P1 s -> P1 s')
  /\ (pending s <> [] -> busy s' = S (busy s) /\ coord_done s' = coord_done s)
  /\ (pending s = [] -> busy s' = busy s /\ pending s' = []
        /\ coord_done s' = (if shouldQuit s && Nat.eqb (busy s) 0 then true else coord_done s))
  /\ (shouldQuit s = true -> idle s = [] -> idle s' = []).
Proof.
  unfold recycle. cbn [pending shouldQuit toShrink idle].
  destruct (pending s) as [|t p] eqn:Ep.
  - destruct (shouldQuit s) eqn:Es.
    + match goal with |- context [quit_idlers None ?s0 ch] =>
        pose proof (quit_idlers_spec None s0 ch) as H; destruct (quit_idlers None s0 ch) as [[s1 c1] es] end.
      unfold frame in H; cbn in H. destruct H as ((F1 & F2 & F3 & F4) & B & P & I1 & I2 & C). cbn [fst].
      split; [unfold frame; repeat split; congruence|].
      split; [intros _ Hp; rewrite P in Hp; contradiction|].
      split; [intros H; contradiction|].
      split; [intros _; repeat split; assumption|].
      intros _ _. apply I1. left. reflexivity.
    + destruct (Nat.ltb 0 (toShrink s)); cbn [fst].
      * split; [unfold frame; cbn; repeat split; congruence|].
        split; [intros _ Hp; cbn in Hp; contradiction|].
        split; [intros H; contradiction|].
        split; [intros _; cbn; repeat split|].
        intros H; discriminate.
      * split; [unfold frame; cbn; repeat split; congruence|].
        split; [intros _ Hp; cbn in Hp; contradiction|].
        split; [intros H; contradiction|].
        split; [intros _; cbn; repeat split|].
        intros H; discriminate.
  - match goal with |- context [coordinate ?s0 t ch] =>
      pose proof (coordinate_spec s0 t ch) as H; destruct (coordinate s0 t ch) as [[s1 c1] es] end.
    unfold frame in H; cbn in H. destruct H as ((F1 & F2 & F3 & F4) & C & B & I1 & I2 & Pn). cbn [fst].
    assert (Hne : idle s ++ [w] <> []) by (destruct (idle s); discriminate).
    destruct (I1 Hne) as (B1 & P1' & w' & Hin & Hi).
    split; [unfold frame; repeat split; congruence|].
    split.
    { intros HP _. rewrite Hi. assert (E : idle s = []) by (apply HP; rewrite Ep; discriminate).
      rewrite E in *. cbn [app] in *. apply remove1_single, Hin. }
    split; [intros _; split; assumption|].
    split; [intros H; discriminate|].
    intros _ E. rewrite Hi. rewrite E in *. cbn [app] in *. apply remove1_single, Hin.
Qed.

Lemma grow_loop_spec n : forall s ch, let s' := fst (fst (grow_loop n s ch)) in
  frame s s' /\ (P1 s -> P1 s') /\ (P1 s -> busy s <= busy s')
  /\ (shouldQuit s = false -> coord_done s' = coord_done s).
Proof.
  induction n as [|k IH]; intros s ch; cbn [grow_loop].
  - cbn. repeat split; auto.
  - destruct (Nat.ltb (length (idle s) + busy s) (limit s)); [|cbn; repeat split; auto].
    match goal with |- context [recycle ?s0 ?w ch] =>
      pose proof (recycle_spec s0 w ch) as H; destruct (recycle s0 w ch) as [[s1 ch1] es1] end.
    unfold frame in H; cbn in H. destruct H as (F & HP & Hb1 & Hb2 & _).
    specialize (IH s1 ch1). destruct (grow_loop k s1 ch1) as [[s2 ch2] es2]. cbn in *.
    destruct IH as (F' & HP' & Hb' & Hc'). destruct F as (F1 & F2 & F3 & F4). destruct F' as (G1 & G2 & G3 & G4).
    repeat split; try congruence.
    + intros H. apply HP', HP, H.
    + intros H. specialize (Hb' (HP H)). destruct (pending s) as [|t p] eqn:Ep.
      * destruct (Hb2 eq_refl) as (B & _). lia.
      * destruct Hb1 as (B & _); [discriminate|]. lia.
    + intros Es. rewrite Hc' by congruence. destruct (pending s) as [|t p] eqn:Ep.
      * destruct (Hb2 eq_refl) as (_ & _ & C). rewrite Es in C. exact C.
      * destruct Hb1 as (_ & C); [discriminate|]. exact C.
Qed.

(** ---- P1 over steps ---- *)
Lemma run_job_P1 s j q ch : P1 s -> P1 (fst (run_job (unq s q) j ch)).
Proof.
  intros HP. unfold run_job. destruct j as [t | n | n | w | ].
  - pose proof (coordinate_spec (unq s q) t ch) as H. destruct (coordinate (unq s q) t ch) as [[s1 c1] es].
    cbn in H. destruct H as (_ & _ & _ & I1 & I2 & _). cbn [fst]. intros Hp.
    destruct (idle s) as [|x r] eqn:Ei; [apply I2; reflexivity|].
    destruct I1 as (_ & P & _); [discriminate|]. rewrite P in Hp. specialize (HP Hp). congruence.
  - pose proof (grow_loop_spec n (unq s q) ch) as H. destruct (grow_loop n (unq s q) ch) as [[s1 c1] es].
    cbn [fst] in *. destruct H as (_ & H & _). apply H. exact HP.
  - pose proof (quit_idlers_spec n (unq s q) ch) as H. destruct (quit_idlers n (unq s q) ch) as [[s1 c1] es].
    cbn in H. destruct H as (_ & _ & P & I1 & _). cbn [fst]. intros Hp. rewrite P in Hp. apply I1. right. apply HP, Hp.
  - match goal with |- context [recycle ?s0 w ch] =>
      pose proof (recycle_spec s0 w ch) as H; destruct (recycle s0 w ch) as [[s1 c1] es] end.
    cbn [fst] in *. destruct H as (_ & H & _). apply H. exact HP.
  - match goal with |- context [quit_idlers None ?s0 ch] =>
      pose proof (quit_idlers_spec None s0 ch) as H; destruct (quit_idlers None s0 ch) as [[s1 c1] es] end.
    cbn in H. destruct H as (_ & _ & _ & I1 & _). cbn [fst]. intros _. apply I1. left. reflexivity.
Qed.

Lemma step_P1 s l : P1 s -> P1 (fst (step s l)).
Proof.
  intros HP. destruct l as [t | n | n | | k | ch | w]; cbn [step]; unfold client.
  1-4: destruct (tquit s); cbn [fst]; exact HP.
  - exact HP.
  - destruct (coord_done s) eqn:Ed; [exact HP|]. destruct (coordq s) as [|j q] eqn:Eq; [exact HP|].
    pose proof (run_job_P1 s j q ch HP) as H. unfold unq in H. rewrite Ed in H. exact H.
  - destruct (wq s w) as [|[t|] q]; cbn [fst]; exact HP.
Qed.

(** ---- no worker is released while tasks wait in the backlog ---- *)
Lemma run_job_busy s j q ch : Inv None s -> P1 s -> coordq s = j :: q -> pending s <> [] ->
  busy s <= busy (fst (run_job (unq s q) j ch)).
Proof.
  intros HI HP Eq Hp. unfold run_job. destruct j as [t | n | n | w | ].
  - pose proof (coordinate_spec (unq s q) t ch) as H. destruct (coordinate (unq s q) t ch) as [[s1 c1] es].
    cbn in H. cbn [fst]. apply H.
  - pose proof (grow_loop_spec n (unq s q) ch) as H. destruct (grow_loop n (unq s q) ch) as [[s1 c1] es].
    cbn [fst] in *. destruct H as (_ & _ & H & _). apply H. exact HP.
  - pose proof (quit_idlers_spec n (unq s q) ch) as H. destruct (quit_idlers n (unq s q) ch) as [[s1 c1] es].
    cbn in H. cbn [fst]. destruct H as (_ & B & _). lia.
  - assert (1 <= busy s) by (eapply (inv_pop_cidle s (mk (tquit s) (limit s) q (coord_done s) (idle s) (pred (busy s)) (pending s) (toShrink s) (shouldQuit s) (nworkers s) (wq s)) w q HI Eq); reflexivity).
    match goal with |- context [recycle ?s0 w ch] =>
      pose proof (recycle_spec s0 w ch) as H0; destruct (recycle s0 w ch) as [[s1 c1] es] end.
    cbn in H0. cbn [fst]. destruct H0 as (_ & _ & B & _). destruct (B Hp) as [B1 _]. lia.
  - match goal with |- context [quit_idlers None ?s0 ch] =>
      pose proof (quit_idlers_spec None s0 ch) as H; destruct (quit_idlers None s0 ch) as [[s1 c1] es] end.
    cbn in H. cbn [fst]. destruct H as (_ & B & _). lia.
Qed.

Lemma step_busy s l : Inv None s -> P1 s -> pending s <> [] -> busy s <= busy (fst (step s l)).
Proof.
  intros HI HP Hp. destruct l as [t | n | n | | k | ch | w]; cbn [step]; unfold client.
  1-4: destruct (tquit s); cbn; lia.
  - cbn. lia.
  - destruct (coord_done s) eqn:Ed; [cbn; lia|]. destruct (coordq s) as [|j q] eqn:Eq; [cbn; lia|].
    pose proof (run_job_busy s j q ch HI HP Eq Hp) as H. unfold unq in H. rewrite Ed in H. exact H.
  - destruct (wq s w) as [|[t|] q]; cbn; lia.
Qed.

(** ---- shutdown ---- *)
Definition cidleP (j : cjob) : Prop := match j with CIdle _ => True | _ => False end.

Definition qform (s : st) : Prop :=
  if shouldQuit s then Forall cidleP (coordq s) /\ tquit s = true
  else if tquit s then exists a b, coordq s = a ++ CQuit :: b /\ ~ In CQuit a /\ Forall cidleP b
  else ~ In CQuit (coordq s).

Record Q (s : st) : Prop := {
  q_idle : shouldQuit s = true -> idle s = [];
  q_done : coord_done s = true -> shouldQuit s = true /\ busy s = 0;
  q_stop : shouldQuit s = true -> busy s = 0 -> coord_done s = true;
  q_form : qform s
}.

Lemma init_Q lim : Q (init lim).
Proof. split; cbn; try discriminate. unfold qform. cbn. intros []. Qed.

Lemma init_P1 lim : P1 (init lim).
Proof. intros H. reflexivity. Qed.

Lemma cjob_eq_quit j : {j = CQuit} + {j <> CQuit}.
Proof. destruct j; (left; reflexivity) || (right; discriminate). Qed.

(** a coordinator job that is not CQuit, run while _shouldQuitCoordinator is unset, leaves the flags alone *)
Lemma run_job_noquit s j q ch : shouldQuit s = false -> j <> CQuit ->
  let s' := fst (run_job (unq s q) j ch) in
  frame (unq s q) s' /\ coord_done s' = coord_done s.
Proof.
  intros Es Hj. unfold run_job. destruct j as [t | n | n | w | ]; [| | | |contradiction].
  - pose proof (coordinate_spec (unq s q) t ch) as H. destruct (coordinate (unq s q) t ch) as [[s1 c1] es].
    cbn [fst] in *. destruct H as (F & C & _). split; [exact F | exact C].
  - pose proof (grow_loop_spec n (unq s q) ch) as H. destruct (grow_loop n (unq s q) ch) as [[s1 c1] es].
    cbn [fst] in *. destruct H as (F & _ & _ & C). split; [exact F | apply C; exact Es].
  - pose proof (quit_idlers_spec n (unq s q) ch) as H. destruct (quit_idlers n (unq s q) ch) as [[s1 c1] es].
    cbn [fst] in *. destruct H as (F & _ & _ & _ & _ & C). split; [exact F|]. rewrite C. cbn. rewrite Es. reflexivity.
  - match goal with |- context [recycle ?s0 w ch] =>
      pose proof (recycle_spec s0 w ch) as H; destruct (recycle s0 w ch) as [[s1 c1] es] end.
    cbn [fst] in *. destruct H as (F & _ & B1 & B2 & _). split; [exact F|]. cbn in B1, B2.
    destruct (pending s) as [|t p].
    + destruct (B2 eq_refl) as (_ & _ & C). rewrite Es in C. exact C.
    + destruct B1 as (_ & C); [discriminate | exact C].
Qed.

Lemma step_Q s l : Q s -> Q (fst (step s l)).
Proof.
  intros [Q1 Q2 Q3 Q4]. destruct l as [t | n | n | | k | ch | w]; cbn [step]; unfold client.
  1-3: destruct (tquit s) eqn:Et; cbn [fst]; [split; assumption|];
       assert (Es : shouldQuit s = false) by
         (destruct (shouldQuit s) eqn:E; [unfold qform in Q4; rewrite E in Q4; destruct Q4; congruence | reflexivity]);
       split; cbn; try assumption;
       unfold qform in *; cbn; rewrite Es, Et in *; intros H; apply in_app_or in H; destruct H as [H|[H|[]]];
       [contradiction | discriminate].
  - destruct (tquit s) eqn:Et; cbn [fst]; [split; assumption|].
    assert (Es : shouldQuit s = false) by
      (destruct (shouldQuit s) eqn:E; [unfold qform in Q4; rewrite E in Q4; destruct Q4; congruence | reflexivity]).
    split; cbn; try assumption. unfold qform in *. cbn. rewrite Es, Et in *.
    exists (coordq s), []. repeat split; [exact Q4 | constructor].
  - cbn [fst]. split; cbn; assumption.
  - remember (coord_done s) as cd eqn:Ed in |- *. symmetry in Ed. destruct cd; [cbn [fst]; split; assumption|].
    remember (coordq s) as cq eqn:Eq in |- *. symmetry in Eq. destruct cq as [|j q]; [cbn [fst]; split; assumption|].
    remember (shouldQuit s) as sq eqn:Es in |- *. symmetry in Es. destruct sq.
    + (* shutting down: only CIdle jobs are left *)
      unfold qform in Q4. rewrite Es, Eq in Q4. destruct Q4 as [Hf Ht]. inversion Hf as [|? ? Hj Hq]; subst.
      destruct j as [| | | w |]; try contradiction. unfold run_job.
      match goal with |- context [recycle ?s0 w ch] =>
        pose proof (recycle_spec s0 w ch) as H; destruct (recycle s0 w ch) as [[s1 c1] es] end.
      unfold frame in H; cbn in H. cbn [fst]. destruct H as ((F1 & F2 & F3 & F4) & _ & B1 & B2 & I).
      rewrite Es in *. split.
      * intros _. apply I; [reflexivity | apply Q1; reflexivity].
      * destruct (pending s) as [|t p].
        -- destruct (B2 eq_refl) as (B & _ & C). cbn in C. rewrite C, B.
           destruct (Nat.eqb_spec (pred (busy s)) 0); intros H; [split; [exact F4 | assumption] | discriminate].
        -- destruct B1 as (B & C); [discriminate|]. rewrite C. intros H; discriminate.
      * destruct (pending s) as [|t p].
        -- destruct (B2 eq_refl) as (B & _ & C). cbn in C. rewrite C, B. intros _ H. rewrite H. reflexivity.
        -- destruct B1 as (B & C); [discriminate|]. rewrite B. intros _ H; discriminate.
      * unfold qform. rewrite F4, F3, F1. split; assumption.
    + destruct (cjob_eq_quit j) as [->|Hj].
      * (* startFinishing *)
        unfold run_job.
        match goal with |- context [quit_idlers None ?s0 ch] =>
          pose proof (quit_idlers_spec None s0 ch) as H; destruct (quit_idlers None s0 ch) as [[s1 c1] es] end.
        unfold frame in H; cbn in H. cbn [fst]. destruct H as ((F1 & F2 & F3 & F4) & B & _ & I & _ & C).
        unfold qform in Q4. rewrite Es, Eq in Q4.
        destruct (tquit s) eqn:Et.
        -- destruct Q4 as (a & b & E & Ha & Hb). destruct a as [|j' a'].
           ++ cbn in E. injection E as Eb. rewrite Eb in *. split.
              ** intros _. apply I. left. reflexivity.
              ** rewrite C, B. destruct (Nat.eqb_spec (busy s) 0); intros H; [split; assumption | discriminate].
              ** rewrite C, B. intros _ H. rewrite H. reflexivity.
              ** unfold qform. rewrite F4, F3, F1. split; auto.
           ++ cbn in E. injection E as Ej _. exfalso. apply Ha. left. congruence.
        -- exfalso. apply Q4. left. reflexivity.
      * pose proof (run_job_noquit s j q ch Es Hj) as H. unfold unq in *. rewrite Ed in *. rewrite Es in H. cbn [fst] in H.
        destruct (run_job _ j ch) as [s1 es]. cbn [fst] in *. unfold frame in H; cbn in H.
        destruct H as ((F1 & F2 & F3 & F4) & C). split.
        -- intros H. congruence.
        -- intros H. congruence.
        -- intros H. congruence.
        -- unfold qform in *. rewrite F4, F3, F1. rewrite Es, Eq in Q4. destruct (tquit s).
           ++ destruct Q4 as (a & b & E & Ha & Hb). destruct a as [|j' a']; cbn in E; injection E as Ej Eb.
              ** congruence.
              ** exists a', b. repeat split; [exact Eb | | exact Hb]. intros H. apply Ha. right. exact H.
           ++ intros H. apply Q4. right. exact H.
  - destruct (wq s w) as [|[t|] q]; cbn [fst]; try (split; assumption).
    split; cbn; try assumption. unfold qform in *. cbn. destruct (shouldQuit s).
    + destruct Q4 as [Hf Ht]. split; [|exact Ht]. apply Forall_app. split; [exact Hf | repeat constructor].
    + destruct (tquit s).
      * destruct Q4 as (a & b & E & Ha & Hb). exists a, (b ++ [CIdle w]). rewrite E, <- app_assoc. repeat split; [exact Ha|].
        apply Forall_app. split; [exact Hb | repeat constructor].
      * intros H. apply in_app_or in H. destruct H as [H|[H|[]]]; [contradiction | discriminate].
Qed.
