(** C49: task accounting.  For a fixed task [t0]: the number of accepted submissions of t0 equals the number
    of times it ran plus the number of copies still in flight (coordinator queue, backlog, worker queues). *)
From Coq Require Import List Arith Bool Lia.
From C49 Require Import Model Proofs Inv.
Import ListNotations.

Definition teq (a b : task) : bool := Nat.eqb (fst a) (fst b) && Bool.eqb (snd a) (snd b).

Lemma teq_eq a b : teq a b = true <-> a = b.
Proof.
  unfold teq. destruct a as [i r], b as [j q]. cbn. rewrite andb_true_iff, Nat.eqb_eq, eqb_true_iff.
  split; [intros [-> ->]; reflexivity | intros E; inversion E; auto].
Qed.

Section Acct.
  Variable t0 : task.

  Definition is_ctask (j : cjob) : bool := match j with CTask t => teq t t0 | _ => false end.
  Definition is_wrun (j : wjob) : bool := match j with WRun t => teq t t0 | WStop => false end.
  Definition is_t (t : task) : bool := teq t t0.

  Definition inq (s : st) (w : nat) : nat := count is_wrun (wq s w).

  (** copies of t0 in flight *)
  Definition cnt (s : st) : nat :=
    count is_ctask (coordq s) + count is_t (pending s) + sumw (nworkers s) (inq s).

  Definition acc_ev (e : ev) : nat := match e with EAccepted (CTask t) => b2n (teq t t0) | _ => 0 end.
  Definition ran_ev (e : ev) : nat := match e with ERan _ t => b2n (teq t t0) | _ => 0 end.
  Fixpoint total (f : ev -> nat) (es : list ev) : nat := match es with [] => 0 | e :: r => f e + total f r end.

  Lemma total_app f a b : total f (a ++ b) = total f a + total f b.
  Proof. induction a as [|e a IH]; cbn [app total]; [reflexivity | rewrite IH; lia]. Qed.

  Lemma total_coord f es : (forall e, coord_ev e -> f e = 0) -> Forall ev_good es -> total f es = 0.
  Proof.
    intros Hf H. induction H as [|e es [_ He] _ IH]; cbn [total]; [reflexivity|]. rewrite IH, (Hf e He). reflexivity.
  Qed.

  Lemma acc_coord e : coord_ev e -> acc_ev e = 0.
  Proof. destruct e; cbn; try reflexivity; intros []. Qed.
  Lemma ran_coord e : coord_ev e -> ran_ev e = 0.
  Proof. destruct e; cbn; try reflexivity; intros []. Qed.

  (** only these fields matter *)
  Lemma cnt_ext s s' : coordq s' = coordq s -> pending s' = pending s -> nworkers s' = nworkers s -> wq s' = wq s ->
    cnt s' = cnt s.
  Proof. intros E1 E2 E3 E4. unfold cnt, inq. rewrite E1, E2, E3, E4. reflexivity. Qed.

  Lemma inq_push_run s w t x : count is_wrun (push_w s w (WRun t) x) = inq s x + b2n (Nat.eqb x w) * b2n (teq t t0).
  Proof.
    unfold push_w, inq. destruct (Nat.eq_dec x w) as [->|Hne].
    - rewrite upd_same, count_app, count_single, Nat.eqb_refl. cbn [is_wrun b2n]. lia.
    - rewrite upd_other by exact Hne. rewrite (proj2 (Nat.eqb_neq _ _) Hne). cbn [b2n]. lia.
  Qed.

  Lemma inq_push_stop s w x : count is_wrun (push_w s w WStop x) = inq s x.
  Proof.
    unfold push_w, inq. destruct (Nat.eq_dec x w) as [->|Hne].
    - rewrite upd_same, count_app, count_single. cbn [is_wrun b2n]. lia.
    - rewrite upd_other by exact Hne. reflexivity.
  Qed.

  Lemma coordinate_cnt s t ch : Inv None s -> cnt (fst (fst (coordinate s t ch))) = cnt s + b2n (teq t t0).
  Proof.
    intros HI. unfold coordinate. destruct (pop_idle (idle s) ch) as [[w idl]|] eqn:E.
    - apply pop_idle_some in E. destruct E as [Hin ->]. pose proof (inv_idle_lt _ _ _ HI Hin) as Hlt.
      cbn [fst]. match goal with |- cnt ?s1 = _ => set (s' := s1) end.
      assert (Hq : forall x, inq s' x = inq s x + b2n (Nat.eqb x w) * b2n (teq t t0)).
      { intros x. unfold inq at 1, s'. cbn [wq]. apply inq_push_run. }
      pose proof (sumw_upd_in (nworkers s) (inq s) (inq s') w Hlt) as Hs.
      rewrite Hq, Nat.eqb_refl in Hs. cbn [b2n] in Hs.
      assert (Hx : forall x, x <> w -> inq s x = inq s' x).
      { intros x Hx. rewrite Hq, (proj2 (Nat.eqb_neq _ _) Hx). cbn [b2n]. lia. }
      specialize (Hs Hx). unfold cnt. change (coordq s') with (coordq s). change (pending s') with (pending s).
      change (nworkers s') with (nworkers s). lia.
    - destruct (Nat.ltb (length (idle s) + busy s) (limit s)); cbn [fst].
      + destruct (inv_fresh _ _ (nworkers s) HI (le_n _)) as (F1 & _ & _).
        unfold cnt. cbn [coordq pending nworkers wq sumw]. unfold inq at 2. cbn [wq].
        rewrite inq_push_run, Nat.eqb_refl. unfold inq at 2. rewrite F1. cbn [count filter length b2n].
        rewrite (sumw_ext (nworkers s) _ (inq s)); [unfold count; cbn; lia|].
        intros x Hx. unfold inq at 1. cbn [wq]. rewrite inq_push_run.
        assert (Hne : x <> nworkers s) by lia. rewrite (proj2 (Nat.eqb_neq _ _) Hne). cbn [b2n]. lia.
      + unfold cnt, inq. cbn [coordq pending nworkers wq]. rewrite count_app, count_single. unfold is_t. lia.
  Qed.

  Lemma quit_loop_cnt n : forall s ch, cnt (fst (fst (quit_loop n s ch))) = cnt s.
  Proof.
    induction n as [|k IH]; intros s ch; cbn [quit_loop]; [reflexivity|].
    destruct (pop_idle (idle s) ch) as [[w idl]|].
    - match goal with |- context [quit_loop k ?s1 ?c1] =>
        specialize (IH s1 c1); destruct (quit_loop k s1 c1) as [[s2 ch2] es]; cbn [fst] in *; rewrite IH end.
      unfold cnt. cbn [coordq pending nworkers wq]. f_equal. apply sumw_ext. intros x _. unfold inq at 1. cbn [wq].
      apply inq_push_stop.
    - rewrite IH. apply cnt_ext; reflexivity.
  Qed.

  Lemma quit_idlers_cnt n s ch : cnt (fst (fst (quit_idlers n s ch))) = cnt s.
  Proof.
    unfold quit_idlers.
    match goal with |- context [quit_loop ?m s ch] =>
      pose proof (quit_loop_cnt m s ch) as H; destruct (quit_loop m s ch) as [[s1 ch1] es] end.
    cbn [fst] in H. destruct (shouldQuit s1 && Nat.eqb (busy s1) 0); cbn [fst]; [|exact H].
    rewrite <- H. apply cnt_ext; reflexivity.
  Qed.

  Lemma recycle_cnt s w ch : Inv (Some w) s -> cnt (fst (fst (recycle s w ch))) = cnt s.
  Proof.
    intros HI. unfold recycle.
    match goal with |- context [pending ?s0] =>
      assert (H0 : Inv None s0) by (eapply (inv_add_idle s _ w HI); reflexivity) end.
    cbn [pending shouldQuit toShrink idle] in *.
    destruct (pending s) as [|t p] eqn:Ep.
    - destruct (shouldQuit s).
      + rewrite quit_idlers_cnt. unfold cnt. cbn [coordq pending nworkers wq]. rewrite Ep. reflexivity.
      + destruct (Nat.ltb 0 (toShrink s)); cbn [fst].
        * unfold cnt. cbn [coordq pending nworkers wq]. rewrite Ep. f_equal. apply sumw_ext. intros x _.
          unfold inq at 1. cbn [wq]. unfold push_w. cbn [wq].
          change (count is_wrun (upd (wq s) w (wq s w ++ [WStop]) x)) with (count is_wrun (push_w s w WStop x)).
          apply inq_push_stop.
        * unfold cnt. cbn [coordq pending nworkers wq]. rewrite Ep. reflexivity.
    - rewrite coordinate_cnt by (eapply inv_same; [exact H0 | repeat split]).
      unfold cnt. cbn [coordq pending nworkers wq]. rewrite Ep, count_cons. unfold is_t at 2, inq, b2n. cbn [wq].
      destruct (teq t t0); lia.
  Qed.

  Lemma grow_loop_cnt n : forall s ch, Inv None s -> cnt (fst (fst (grow_loop n s ch))) = cnt s.
  Proof.
    induction n as [|k IH]; intros s ch HI; cbn [grow_loop]; [reflexivity|].
    destruct (Nat.ltb (length (idle s) + busy s) (limit s)); [|reflexivity].
    destruct (inv_fresh _ _ (nworkers s) HI (le_n _)) as (F1 & _ & _).
    match goal with |- context [recycle ?s0 ?w ch] =>
      assert (H0 : Inv (Some (nworkers s)) s0) by (eapply (inv_new_inhand s _ HI); reflexivity);
      pose proof (recycle_inv s0 w ch H0) as H1; pose proof (recycle_cnt s0 w ch H0) as H2;
      destruct (recycle s0 w ch) as [[s1 ch1] es1] end.
    cbn [fst] in H1, H2. specialize (IH s1 ch1 H1). destruct (grow_loop k s1 ch1) as [[s2 ch2] es2].
    cbn [fst] in *. rewrite IH, H2. unfold cnt. cbn [coordq pending nworkers wq sumw]. unfold inq at 2. cbn [wq].
    rewrite F1. unfold count at 3. cbn. rewrite (sumw_ext (nworkers s) _ (inq s)); [lia|]. intros x _. reflexivity.
  Qed.

  Lemma run_job_cnt s j q ch : Inv None s -> coordq s = j :: q -> cnt (fst (run_job (unq s q) j ch)) = cnt s.
  Proof.
    intros HI Eq. unfold run_job.
    assert (Hc : forall j', (forall x, j' <> CIdle x) -> coordq s = j' :: q -> Inv None (unq s q)).
    { intros j' Hj E'. eapply (inv_pop_other s _ j' q HI E'); [exact Hj | repeat split]. }
    assert (Hq : cnt s = cnt (unq s q) + b2n (is_ctask j)).
    { unfold cnt, unq. cbn [coordq pending nworkers wq]. rewrite Eq, count_cons. unfold inq, b2n. cbn [wq].
      destruct (is_ctask j); lia. }
    destruct j as [t | n | n | w | ].
    - pose proof (coordinate_cnt _ t ch (Hc (CTask t) ltac:(intros; discriminate) Eq)) as H.
      destruct (coordinate (unq s q) t ch) as [[s1 c1] es]. cbn [fst] in *. rewrite H, Hq. reflexivity.
    - pose proof (grow_loop_cnt n _ ch (Hc (CGrow n) ltac:(intros; discriminate) Eq)) as H.
      destruct (grow_loop n (unq s q) ch) as [[s1 c1] es]. cbn [fst] in *. rewrite H, Hq. cbn. lia.
    - pose proof (quit_idlers_cnt n (unq s q) ch) as H.
      destruct (quit_idlers n (unq s q) ch) as [[s1 c1] es]. cbn [fst] in *. rewrite H, Hq. cbn. lia.
    - match goal with |- context [recycle ?s0 w ch] =>
        assert (H0 : Inv (Some w) s0) by (eapply (inv_pop_cidle s _ w q HI Eq); reflexivity);
        pose proof (recycle_cnt s0 w ch H0) as H; destruct (recycle s0 w ch) as [[s1 c1] es] end.
      cbn [fst] in *. rewrite H, Hq. cbn [is_ctask b2n]. rewrite Nat.add_0_r. apply cnt_ext; reflexivity.
    - match goal with |- context [quit_idlers None ?s0 ch] =>
        pose proof (quit_idlers_cnt None s0 ch) as H; destruct (quit_idlers None s0 ch) as [[s1 c1] es] end.
      cbn [fst] in *. rewrite H, Hq. cbn [is_ctask b2n]. rewrite Nat.add_0_r. apply cnt_ext; reflexivity.
  Qed.

  (** one step: in-flight copies + runs logged = in-flight copies before + acceptances logged *)
  Lemma step_cnt s l : Inv None s ->
    cnt (fst (step s l)) + total ran_ev (snd (step s l)) = cnt s + total acc_ev (snd (step s l)).
  Proof.
    intros HI. destruct l as [t | n | n | | k | ch | w]; cbn [step]; unfold client.
    - destruct (tquit s); cbn [fst snd total acc_ev ran_ev]; [lia|].
      unfold cnt, enqueue. cbn [coordq pending nworkers wq]. rewrite count_app, count_single. unfold inq. cbn [is_ctask wq]. lia.
    - destruct (tquit s); cbn [fst snd total acc_ev ran_ev]; [lia|].
      unfold cnt, enqueue. cbn [coordq pending nworkers wq]. rewrite count_app, count_single. unfold inq. cbn [is_ctask wq b2n]. lia.
    - destruct (tquit s); cbn [fst snd total acc_ev ran_ev]; [lia|].
      unfold cnt, enqueue. cbn [coordq pending nworkers wq]. rewrite count_app, count_single. unfold inq. cbn [is_ctask wq b2n]. lia.
    - destruct (tquit s); cbn [fst snd total acc_ev ran_ev]; [lia|].
      unfold cnt, enqueue. cbn [coordq pending nworkers wq]. rewrite count_app, count_single. unfold inq. cbn [is_ctask wq b2n]. lia.
    - cbn [fst snd total acc_ev ran_ev]. rewrite (cnt_ext s _) by reflexivity. lia.
    - destruct (coord_done s) eqn:Ed; [cbn; lia|]. destruct (coordq s) as [|j q] eqn:Eq; [cbn; lia|].
      pose proof (run_job_cnt s j q ch HI Eq) as H. unfold unq in H. rewrite Ed in H.
      match goal with |- context [run_job ?s0 j ch] => destruct (run_job_good s0 j ch) as [_ Hg] end.
      rewrite (total_coord ran_ev _ ran_coord Hg), (total_coord acc_ev _ acc_coord Hg). lia.
    - destruct (wq s w) as [|[t|] q] eqn:Eq; cbn [fst snd total acc_ev ran_ev]; try lia.
      assert (Hlt : w < nworkers s).
      { destruct (Nat.lt_ge_cases w (nworkers s)) as [H|H]; [exact H|].
        destruct (inv_fresh _ _ w HI H) as (F & _ & _). congruence. }
      match goal with |- cnt ?s1 + _ = _ => set (s' := s1) end.
      assert (Hq : inq s w = inq s' w + b2n (teq t t0)).
      { unfold inq, s'. cbn [wq]. rewrite upd_same, Eq, count_cons. cbn [is_wrun]. unfold b2n. destruct (teq t t0); lia. }
      assert (Hx : forall x, x <> w -> inq s' x = inq s x).
      { intros x Hx. unfold inq, s'. cbn [wq]. rewrite upd_other by exact Hx. reflexivity. }
      pose proof (sumw_upd_in (nworkers s) (inq s') (inq s) w Hlt Hx) as Hs.
      unfold cnt. change (coordq s') with (coordq s ++ [CIdle w]). change (pending s') with (pending s).
      change (nworkers s') with (nworkers s). rewrite count_app, count_single. cbn [is_ctask b2n]. lia.
  Qed.

  Definition all_events (log : list (list ev)) : list ev := concat log.

  Lemma run_cnt ls : forall s, Inv None s ->
    cnt (fst (run s ls)) + total ran_ev (all_events (snd (run s ls)))
    = cnt s + total acc_ev (all_events (snd (run s ls))).
  Proof.
    induction ls as [|l r IH]; intros s HI; [cbn; lia|].
    rewrite Inv.run_cons. cbn [fst snd]. unfold all_events in *. cbn [concat]. rewrite !total_app.
    pose proof (step_cnt s l HI) as H1. specialize (IH _ (step_inv s l HI)). lia.
  Qed.
End Acct.
