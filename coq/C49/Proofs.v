(** C49: invariants of the Team model over every schedule and every resolution of set.pop(). *)
From Coq Require Import List Arith Bool Lia.
From C49 Require Import Model.
Import ListNotations.

(** a worker is created only while idle + busy < limit (the guard of limitedWorkerCreator), and the
    [live] recorded in the event is the team's own count at that moment *)
Definition ev_ok (e : ev) : Prop :=
  match e with ECreate _ live lim => live < lim | EBacklog _ live lim => lim <= live | _ => True end.

(** what every coordinator-side function preserves: the Team._quit flag; and its events are [ev_ok] *)
(** events a coordinator job can emit (never a client acknowledgement or a task run) *)
Definition coord_ev (e : ev) : Prop :=
  match e with EAccepted _ | ERefused | ELimit | ERan _ _ | ENothing => False | _ => True end.
Definition ev_good (e : ev) : Prop := ev_ok e /\ coord_ev e.

Definition good (s : st) (r : st * list nat * list ev) : Prop :=
  tquit (fst (fst r)) = tquit s /\ Forall ev_good (snd r).

Lemma coordinate_good s t ch : good s (coordinate s t ch).
Proof.
  unfold good, coordinate. destruct (pop_idle (idle s) ch) as [[w idl]|].
  - cbn. split; [reflexivity | repeat constructor].
  - destruct (Nat.ltb (length (idle s) + busy s) (limit s)) eqn:E; cbn.
    + apply Nat.ltb_lt in E. split; [reflexivity | repeat constructor; exact E].
    + apply Nat.ltb_ge in E. split; [reflexivity | repeat constructor; exact E].
Qed.

Lemma quit_loop_good n : forall s ch, good s (quit_loop n s ch).
Proof.
  induction n as [|k IH]; intros s ch; cbn [quit_loop].
  - split; [reflexivity | constructor].
  - destruct (pop_idle (idle s) ch) as [[w idl]|].
    + match goal with |- context [quit_loop k ?s1 ?c1] => destruct (IH s1 c1) as [H1 H2]; destruct (quit_loop k s1 c1) as [[s2 ch2] es] end.
      cbn in *. split; [exact H1 | constructor; [exact (conj I I) | exact H2]].
    + match goal with |- context [quit_loop k ?s1 ?c1] => destruct (IH s1 c1) as [H1 H2] end.
      split; [exact H1 | exact H2].
Qed.

Lemma quit_idlers_good n s ch : good s (quit_idlers n s ch).
Proof.
  unfold quit_idlers.
  match goal with |- context [quit_loop ?m s ch] => destruct (quit_loop_good m s ch) as [H1 H2]; destruct (quit_loop m s ch) as [[s1 ch1] es] end.
  cbn in *. destruct (shouldQuit s1 && Nat.eqb (busy s1) 0); cbn.
  - split; [exact H1 | apply Forall_app; split; [exact H2 | repeat constructor]].
  - split; [exact H1 | exact H2].
Qed.

Lemma good_trans s s' r : tquit s' = tquit s -> good s' r -> good s r.
Proof. intros E [H1 H2]. split; [congruence | exact H2]. Qed.

Lemma recycle_good s w ch : good s (recycle s w ch).
Proof.
  unfold recycle. cbn [pending shouldQuit toShrink].
  destruct (pending s) as [|t p].
  - destruct (shouldQuit s).
    + eapply good_trans; [|apply quit_idlers_good]. reflexivity.
    + destruct (Nat.ltb 0 (toShrink s)); cbn; split; try reflexivity; repeat constructor.
  - eapply good_trans; [|apply coordinate_good]. reflexivity.
Qed.

Lemma grow_loop_good n : forall s ch, good s (grow_loop n s ch).
Proof.
  induction n as [|k IH]; intros s ch; cbn [grow_loop].
  - split; [reflexivity | constructor].
  - destruct (Nat.ltb (length (idle s) + busy s) (limit s)) eqn:E.
    + apply Nat.ltb_lt in E.
      match goal with |- context [recycle ?s0 ?w ch] =>
        destruct (recycle_good s0 w ch) as [H1 H2]; destruct (recycle s0 w ch) as [[s1 ch1] es1] end.
      destruct (IH s1 ch1) as [H3 H4]. destruct (grow_loop k s1 ch1) as [[s2 ch2] es2].
      cbn in *. unfold good. cbn. split; [congruence|]. constructor; [exact (conj E I)|]. apply Forall_app. split; assumption.
    + split; [reflexivity | constructor].
Qed.

Lemma run_job_good s j ch : tquit (fst (run_job s j ch)) = tquit s /\ Forall ev_good (snd (run_job s j ch)).
Proof.
  unfold run_job. destruct j as [t | n | n | w | ].
  - destruct (coordinate_good s t ch) as [H1 H2]. destruct (coordinate s t ch) as [[s1 c1] es]. exact (conj H1 H2).
  - destruct (grow_loop_good n s ch) as [H1 H2]. destruct (grow_loop n s ch) as [[s1 c1] es]. exact (conj H1 H2).
  - destruct (quit_idlers_good n s ch) as [H1 H2]. destruct (quit_idlers n s ch) as [[s1 c1] es]. exact (conj H1 H2).
  - match goal with |- context [recycle ?s0 w ch] =>
      destruct (recycle_good s0 w ch) as [H1 H2]; destruct (recycle s0 w ch) as [[s1 c1] es] end. exact (conj H1 H2).
  - match goal with |- context [quit_idlers None ?s0 ch] =>
      destruct (quit_idlers_good None s0 ch) as [H1 H2]; destruct (quit_idlers None s0 ch) as [[s1 c1] es] end.
    exact (conj H1 H2).
Qed.

Lemma step_events_ok s l : Forall ev_ok (snd (step s l)).
Proof.
  destruct l as [t | n | n | | k | ch | w]; cbn [step]; unfold client.
  1-4: destruct (tquit s); cbn; repeat constructor.
  - repeat constructor.
  - destruct (coord_done s); [repeat constructor|]. destruct (coordq s) as [|j q]; [repeat constructor|].
    eapply Forall_impl; [|apply run_job_good]. intros e [H _]. exact H.
  - destruct (wq s w) as [|[t|] q]; cbn; repeat constructor.
Qed.

Lemma step_tquit_mono s l : tquit s = true -> tquit (fst (step s l)) = true.
Proof.
  intros H. destruct l as [t | n | n | | k | ch | w]; cbn [step]; unfold client.
  1-4: rewrite H; exact H.
  - exact H.
  - destruct (coord_done s); [exact H|]. destruct (coordq s) as [|j q]; [exact H|].
    rewrite (proj1 (run_job_good _ j ch)). exact H.
  - destruct (wq s w) as [|[t|] q]; cbn; exact H.
Qed.

Lemma run_cons s l r :
  run s (l :: r) = (fst (run (fst (step s l)) r), snd (step s l) :: snd (run (fst (step s l)) r)).
Proof. cbn [run]. destruct (step s l) as [s1 e]. cbn [fst snd]. destruct (run s1 r); reflexivity. Qed.

Lemma run_events_ok ls : forall s, Forall (Forall ev_ok) (snd (run s ls)).
Proof.
  induction ls as [|l r IH]; intros s; [constructor|]. rewrite run_cons. cbn [snd].
  constructor; [apply step_events_ok | apply IH].
Qed.

Lemma run_tquit_mono ls : forall s, tquit s = true -> tquit (fst (run s ls)) = true.
Proof.
  induction ls as [|l r IH]; intros s H; [exact H|]. rewrite run_cons. cbn [fst]. apply IH, step_tquit_mono, H.
Qed.

Definition is_client (l : label) : bool :=
  match l with Do _ | Grow _ | Shrink _ | Quit => true | _ => false end.

Lemma client_refused s l : tquit s = true -> is_client l = true -> step s l = (s, [ERefused]).
Proof. intros H Hl. destruct l; try discriminate; cbn [step]; unfold client; rewrite H; reflexivity. Qed.

Lemma quit_sets_flag s : tquit s = false -> tquit (fst (step s Quit)) = true /\ snd (step s Quit) = [EAccepted CQuit].
Proof. intros H. cbn [step]. rewrite H. cbn. split; reflexivity. Qed.

(** non-triviality: a schedule with backlog, a raising task, shrink and quit; everything drains *)
Example schedule_nontrivial :
  let ls := [Do (0, false); Do (1, true); Coord []; Coord []; Work 0; Coord [0]; Work 0; Quit; Coord [0]; Coord [0]] in
  let r := run (init 1) ls in
  snd r = [[EAccepted (CTask (0, false))]; [EAccepted (CTask (1, true))]; [ECreate 0 0 1; EDo 0 (0, false)]; [EBacklog (1, true) 1 1]; [ERan 0 (0, false)];
           [EDo 0 (1, true)]; [ERan 0 (1, true)]; [EAccepted CQuit]; []; [EWQuit 0; ECoordQuit]]
  /\ coord_done (fst r) = true /\ idle (fst r) = [] /\ busy (fst r) = 0.
Proof. vm_compute. repeat split. Qed.
