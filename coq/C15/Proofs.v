(** C15: invariants of the composed model (two endpoints + kernel oracle) over every schedule. *)
From Coq Require Import List Arith Bool NArith Lia.
From C14 Require Import Model.
From C15 Require Import Model FdFacts.
Import ListNotations.

Definition is_data (p : pev) : bool := match p with PData _ => true | _ => false end.
Definition no_lost (l : list pev) : Prop := forallb (fun p => negb (is_lost p)) l = true.
Definition no_data (l : list pev) : Prop := forallb (fun p => negb (is_data p)) l = true.

Lemma delivered_rl_app add l : no_data add -> delivered_rl (add ++ l) = delivered_rl l.
Proof.
  induction add as [|p add IH]; intros H; [reflexivity|].
  unfold no_data in *. cbn in H. apply andb_true_iff in H. destruct H as [H1 H2].
  destruct p; cbn in *; try discriminate; apply IH; exact H2.
Qed.

Lemma no_lost_app a b : no_lost a -> no_lost b -> no_lost (a ++ b).
Proof. unfold no_lost. intros Ha Hb. rewrite forallb_app, Ha, Hb. reflexivity. Qed.

Lemma no_lost_in l r : no_lost l -> ~ In (PLost r) l.
Proof.
  unfold no_lost. intros H Hin. rewrite forallb_forall in H. specialize (H _ Hin). discriminate.
Qed.

Lemma other_other s : other (other s) = s.
Proof. destruct s; reflexivity. Qed.

Section P.
  Variables (sl bs : nat).

  (** everything [absorb] changes, for a descriptor step with the given new events *)
  Record Delta (s : side) (rl : reason) (fd' : st) (news : list ev) (w w' : world) : Prop := mkDelta {
    d_other : ep_of w' (other s) = ep_of w (other s);
    d_qo : q_of w' (other s) = q_of w (other s);
    d_q : q_of w' s = q_of w s ++ os_bytes news;
    d_fino : fin_of w' (other s) = fin_of w (other s);
    d_fin_mono : fin_of w s = true -> fin_of w' s = true;
    d_fin_new : fin_of w' s = true ->
                fin_of w s = true \/ has_sock (ep_of w' s) = false \/ wdisconnected fd' = true;
    d_fd : fd (ep_of w' s) = fd';
    d_sock : has_sock (ep_of w' s) = has_sock (ep_of w s) && negb (existsb is_elost news);
    d_ab : aborting (ep_of w' s) = aborting (ep_of w s);
    d_abp : abort_pending (ep_of w' s) = abort_pending (ep_of w s);
    d_half : halfc (ep_of w' s) = halfc (ep_of w s);
    d_eof : got_eof (ep_of w' s) = got_eof (ep_of w s);
    d_hup : got_hup (ep_of w' s) = got_hup (ep_of w s);
    d_tlog : exists add, tlog (ep_of w' s) = add ++ tlog (ep_of w s) /\ no_data add /\
             (if existsb is_elost news
              then exists r add', add = PLost r :: add' /\ no_lost add' /\
                   ((r = RDone /\ existsb is_clean_end news = true) \/
                    (r = rl /\ existsb is_elost_err news = true))
              else no_lost add)
  }.

  Lemma absorb_delta s rl fd' news w :
    FdStep (fd (ep_of w s)) fd' news -> Delta s rl fd' news w (absorb sl s rl fd' w).
  Proof.
    intros H. unfold absorb. rewrite (fdstep_news _ _ _ H).
    pose proof (t_shape _ _ _ H) as Hsh.
    destruct w as [[ea eb] [qa qb] [fa fb] [ra rb]].
    destruct news as [|e1 [|e2 [|e3 rest]]]; [| destruct e1 | destruct e1, e2 | destruct e1, e2 ];
      cbn in Hsh; try contradiction.
    all: try (match type of Hsh with match ?c with _ => _ end => destruct c; try contradiction end).
    all: destruct s, rl; cbn.
    all: repeat match goal with
                | |- context [if ?b then _ else _] => destruct b eqn:?
                | |- context [match ?q with nil => _ | cons _ _ => _ end] => destruct q
                end.
    all: constructor; cbn.
    all: repeat match goal with
                | |- context [if ?b then _ else _] => destruct b eqn:?
                | |- context [match ?q with nil => _ | cons _ _ => _ end] => destruct q
                end.
    all: cbn; rewrite ?app_nil_r, ?andb_true_r, ?andb_false_r; auto.
    all: try (match goal with
              | |- exists add, ?l = add ++ ?l /\ _ => exists []
              | |- exists add, ?a :: ?l = add ++ ?l /\ _ => exists [a]
              | |- exists add, ?a :: ?b :: ?l = add ++ ?l /\ _ => exists [a; b]
              | |- exists add, ?a :: ?b :: ?c :: ?l = add ++ ?l /\ _ => exists [a; b; c]
              | |- exists add, ?a :: ?b :: ?c :: ?d :: ?l = add ++ ?l /\ _ => exists [a; b; c; d]
              end; split; [reflexivity | split; [reflexivity |]]).
    all: try reflexivity.
    all: eexists; eexists; split; [reflexivity | split; [reflexivity | auto]].
  Qed.

  Lemma absorb_nil s rl fd' w :
    FdStep (fd (ep_of w s)) fd' [] -> absorb sl s rl fd' w = put_ep s (set_fd fd' (ep_of w s)) w.
  Proof. intros H. unfold absorb. rewrite (fdstep_news _ _ _ H). reflexivity. Qed.

  (** ---- accessors after put_ep ---- *)
  Lemma ep_put_same s p w : ep_of (put_ep s p w) s = p.
  Proof. destruct s, w as [[ea eb] ? ? ?]; reflexivity. Qed.
  Lemma ep_put_other s p w : ep_of (put_ep s p w) (other s) = ep_of w (other s).
  Proof. destruct s, w as [[ea eb] ? ? ?]; reflexivity. Qed.
  Lemma q_put s p w x : q_of (put_ep s p w) x = q_of w x.
  Proof. reflexivity. Qed.
  Lemma fin_put s p w x : fin_of (put_ep s p w) x = fin_of w x.
  Proof. reflexivity. Qed.
  Lemma side_cases (s x : side) : x = s \/ x = other s.
  Proof. destruct s, x; auto. Qed.

  (** ---- the invariant that needs no hypothesis on the schedule ---- *)
  Record EpOk (p : ep) : Prop := mkEpOk {
    e_fd : FdOk (fd p);
    e_conn : has_sock p = connected (fd p);
    e_alive : has_sock p = true -> no_lost (tlog p);
    e_dead : has_sock p = false -> exists r l, tlog p = PLost r :: l /\ no_lost l;
    e_done : In (PLost RDone) (tlog p) ->
             clean_end (fd p) = true \/ got_eof p = true \/ got_hup p = true;
    e_stall : aborting p = false -> NoStall (fd p);
    e_abort : aborting p = true -> has_sock p = true -> abort_pending p = true
  }.

  Record WOk (w : world) : Prop := mkWOk {
    w_ep : forall s, EpOk (ep_of w s);
    w_bytes : forall s, sent (fd (ep_of w s)) = delivered (ep_of w (other s)) ++ q_of w s;
    w_fin : forall s, fin_of w s = true ->
              has_sock (ep_of w s) = false \/ wdisconnected (fd (ep_of w s)) = true
  }.

  Lemma init_wok ha hb : WOk (winit ha hb).
  Proof.
    constructor.
    - intros s. destruct s; cbn; constructor; cbn; try apply init_ok; try reflexivity; try discriminate;
        try (intros []; fail).
      all: intros _ _ [Hx | [Hx | [Hx _]]]; [contradiction | discriminate | discriminate].
    - intros s; destruct s; reflexivity.
    - intros s; destruct s; cbn; discriminate.
  Qed.

  Lemma clean_end_mono f f' news : log f' = rev news ++ log f -> clean_end f = true -> clean_end f' = true.
  Proof. intros E H. unfold clean_end in *. rewrite E, existsb_app, H, orb_true_r. reflexivity. Qed.

  Lemma clean_end_news f f' news :
    log f' = rev news ++ log f -> existsb is_clean_end news = true -> clean_end f' = true.
  Proof.
    intros E H. unfold clean_end. rewrite E, existsb_app.
    apply orb_true_iff. left. rewrite existsb_exists in *. destruct H as [x [Hin Hx]].
    exists x. split; [apply in_rev in Hin; exact Hin | exact Hx].
  Qed.

  (** replacing endpoint s by one that differs only in flags / ghost flags *)
  Lemma put_wok s p' w :
    WOk w -> EpOk p' ->
    sent (fd p') = sent (fd (ep_of w s)) -> delivered p' = delivered (ep_of w s) ->
    has_sock p' = has_sock (ep_of w s) -> wdisconnected (fd p') = wdisconnected (fd (ep_of w s)) ->
    WOk (put_ep s p' w).
  Proof.
    intros [We Wb Wf] Hp Es Ed Eh Ew. constructor.
    - intros x. destruct (side_cases s x) as [-> | ->]; [rewrite ep_put_same; exact Hp | rewrite ep_put_other; apply We].
    - intros x. rewrite q_put. destruct (side_cases s x) as [-> | ->].
      + rewrite ep_put_same, ep_put_other, Es. apply Wb.
      + rewrite ep_put_other, other_other, ep_put_same, Ed. specialize (Wb (other s)).
        rewrite other_other in Wb. exact Wb.
    - intros x. rewrite fin_put. intros Hf. destruct (side_cases s x) as [-> | ->].
      + rewrite ep_put_same, Eh, Ew. apply Wf, Hf.
      + rewrite ep_put_other. apply Wf, Hf.
  Qed.

  Lemma absorb_wok s rl fd' news w :
    WOk w -> FdStep (fd (ep_of w s)) fd' news ->
    (has_sock (ep_of w s) = true \/ news = []) ->
    (rl = RDone -> existsb is_elost_err news = true ->
       got_eof (ep_of w s) = true \/ got_hup (ep_of w s) = true) ->
    WOk (absorb sl s rl fd' w).
  Proof.
    intros [We Wb Wf] HS Hpre Hdone.
    pose proof (absorb_delta s rl fd' news w HS) as D.
    set (w' := absorb sl s rl fd' w) in *.
    destruct D as [Do Dqo Dq Dfo Dfm Dfn Dfd Dsock Dab Dabp Dhalf Deof Dhup [add [Et [Hnd Hst]]]].
    pose proof (We s) as [Ef Ec Ea Edd Edn Est Eab].
    assert (Hadd_nil : news = [] -> add = []).
    { intros ->. pose proof (absorb_nil s rl fd' w HS) as E. fold w' in E.
      assert (E2 : tlog (ep_of w' s) = tlog (ep_of w s)) by (rewrite E, ep_put_same; reflexivity).
      rewrite Et in E2. rewrite <- (app_nil_l (tlog (ep_of w s))) in E2 at 2.
      apply app_inv_tail in E2. exact E2. }
    constructor.
    - intros x. destruct (side_cases s x) as [-> | ->]; [|rewrite Do; apply We].
      constructor.
      + rewrite Dfd. apply (t_ok _ _ _ HS).
      + rewrite Dfd, Dsock, (t_conn _ _ _ HS), Ec. reflexivity.
      + rewrite Dsock. intros E. apply andb_true_iff in E. destruct E as [E1 E2].
        apply negb_true_iff in E2. rewrite E2 in Hst. rewrite Et. apply no_lost_app; auto.
      + rewrite Dsock. intros E. apply andb_false_iff in E.
        destruct (existsb is_elost news) eqn:Eel.
        * destruct Hst as [r [add' [-> [Hnl _]]]].
          destruct Hpre as [Hs | ->]; [|discriminate].
          exists r, (add' ++ tlog (ep_of w s)). rewrite Et. split; [reflexivity|].
          apply no_lost_app; auto.
        * destruct E as [E | E]; [|discriminate].
          destruct Hpre as [Hs | Hn]; [congruence|].
          rewrite Et, (Hadd_nil Hn). cbn. apply Edd, E.
      + rewrite Et, Dfd, Deof, Dhup. intros Hin. apply in_app_or in Hin. destruct Hin as [Hin | Hin].
        * destruct (existsb is_elost news) eqn:Eel; [|exfalso; apply (no_lost_in _ _ Hst Hin)].
          destruct Hst as [r [add' [-> [Hnl Hr]]]].
          destruct Hin as [Hin | Hin]; [|exfalso; apply (no_lost_in _ _ Hnl Hin)].
          injection Hin as ->.
          destruct Hr as [[_ Hc] | [Hrl He]].
          -- left. apply (clean_end_news _ _ _ (t_log _ _ _ HS) Hc).
          -- right. apply Hdone; auto.
        * destruct (Edn Hin) as [H | H]; [left; apply (clean_end_mono _ _ _ (t_log _ _ _ HS) H) | right; exact H].
      + rewrite Dab, Dfd. intros Hab. apply (t_stall _ _ _ HS), Est, Hab.
      + rewrite Dab, Dabp, Dsock. intros Hab Hsk. apply andb_true_iff in Hsk. apply Eab; [exact Hab | apply Hsk].
    - intros x. destruct (side_cases s x) as [-> | ->].
      + rewrite Do, Dq, Dfd, (t_sent _ _ _ HS), Wb, app_assoc. reflexivity.
      + rewrite Do, other_other, Dqo. unfold delivered. rewrite Et, delivered_rl_app by exact Hnd.
        specialize (Wb (other s)). rewrite other_other in Wb. exact Wb.
    - intros x Hf. destruct (side_cases s x) as [-> | ->].
      + destruct (Dfn Hf) as [H | [H | H]].
        * destruct (Wf s H) as [H1 | H1].
          -- left. rewrite Dsock, H1. reflexivity.
          -- right. rewrite Dfd. apply (t_wd _ _ _ HS H1).
        * left. exact H.
        * right. rewrite Dfd. exact H.
      + rewrite Do. apply Wf. rewrite <- Dfo. exact Hf.
  Qed.

  (** an endpoint that differs from an invariant one only by flags, ghost flags, and log entries that are neither
      dataReceived nor connectionLost *)
  Lemma epok_like p p' add :
    EpOk p -> FdOk (fd p') -> connected (fd p') = connected (fd p) -> log (fd p') = log (fd p) ->
    has_sock p' = has_sock p -> tlog p' = add ++ tlog p -> no_lost add ->
    (has_sock p = true \/ add = []) ->
    (got_eof p = true -> got_eof p' = true) -> (got_hup p = true -> got_hup p' = true) ->
    (aborting p' = false -> NoStall (fd p')) ->
    (aborting p' = true -> has_sock p' = true -> abort_pending p' = true) ->
    EpOk p'.
  Proof.
    intros [Ef Ec Ea Ed Edn Est Eab] Hf Hc Hl Hs Ht Hnl Hpre He Hh Hst Hab. constructor.
    - exact Hf.
    - rewrite Hs, Hc. exact Ec.
    - rewrite Hs, Ht. intros E. apply no_lost_app; auto.
    - rewrite Hs, Ht. intros E. destruct Hpre as [E1 | ->]; [congruence|]. cbn. apply Ed, E.
    - rewrite Ht. intros Hin. apply in_app_or in Hin.
      destruct Hin as [Hin | Hin]; [exfalso; apply (no_lost_in _ _ Hnl Hin)|].
      unfold clean_end. rewrite Hl. destruct (Edn Hin) as [H | [H | H]]; auto.
    - exact Hst.
    - exact Hab.
  Qed.

  Lemma lost_wok s r w :
    WOk w -> (r = RDone -> got_eof (ep_of w s) = true \/ got_hup (ep_of w s) = true) ->
    WOk (lost sl s r w).
  Proof.
    intros W Hd. unfold lost. destruct (has_sock (ep_of w s)) eqn:Eh; [|exact W].
    pose proof (w_ep w W s) as E.
    eapply absorb_wok; [exact W | apply conn_lost_step; [apply (e_fd _ E) | discriminate] | left; exact Eh |].
    intros Hr _. apply Hd, Hr.
  Qed.

  Lemma flags_wok s w p' :
    WOk w -> FdOk (fd p') ->
    connected (fd p') = connected (fd (ep_of w s)) -> log (fd p') = log (fd (ep_of w s)) ->
    sent (fd p') = sent (fd (ep_of w s)) -> wdisconnected (fd p') = wdisconnected (fd (ep_of w s)) ->
    has_sock p' = has_sock (ep_of w s) -> tlog p' = tlog (ep_of w s) ->
    (got_eof (ep_of w s) = true -> got_eof p' = true) -> (got_hup (ep_of w s) = true -> got_hup p' = true) ->
    (aborting p' = false -> NoStall (fd p')) ->
    (aborting p' = true -> has_sock p' = true -> abort_pending p' = true) ->
    WOk (put_ep s p' w).
  Proof.
    intros W Hf Hc Hl Hs Hw Hh Ht He Hu Hst Hab.
    apply put_wok; auto.
    - apply (epok_like (ep_of w s) p' []); auto; [apply (w_ep w W) | reflexivity].
    - unfold delivered. rewrite Ht. reflexivity.
  Qed.

  Ltac side_goals E Hf :=
    try discriminate; try reflexivity;
    try (apply ok_set_writing); try (apply ok_set_reading); try exact Hf;
    try (let Hab := fresh in intros Hab; exact (e_stall _ E Hab));
    try (let Hab := fresh in let Hsk := fresh in intros Hab Hsk; exact (e_abort _ E Hab Hsk)).

  Lemma app_wok s a w : WOk w -> WOk (app_step sl bs s a w).
  Proof.
    intros W. pose proof (w_ep w W s) as E. pose proof (e_fd _ E) as Hf.
    destruct a; cbn [app_step].
    - eapply absorb_wok; [exact W | apply write_step, Hf | right; reflexivity | discriminate].
    - eapply absorb_wok; [exact W | apply write_seq_step, Hf | right; reflexivity | discriminate].
    - destruct (lose_step _ Hf) as [news [HS [Hn [Herr _]]]].
      eapply absorb_wok; [exact W | exact HS | | discriminate].
      destruct (has_sock (ep_of w s)) eqn:Eh; [left; reflexivity | right; apply Hn].
      rewrite <- (e_conn _ E). exact Eh.
    - destruct (connected (fd (ep_of w s)) && negb (wdisconnected (fd (ep_of w s)))); [|exact W].
      eapply absorb_wok; [exact W | apply losew_step, Hf | right; reflexivity | discriminate].
    - destruct (disconnected (fd (ep_of w s)) || aborting (ep_of w s)); [exact W|].
      apply flags_wok; cbn; auto; side_goals E Hf.
    - apply flags_wok; cbn; auto; side_goals E Hf.
    - destruct (connected (fd (ep_of w s)) && negb (disconnecting (fd (ep_of w s)))); [|exact W].
      apply flags_wok; cbn; auto; side_goals E Hf.
  Qed.

  Lemma read_closed_wok s w :
    WOk w -> has_sock (ep_of w s) = true ->
    (got_eof (ep_of w s) = true \/ got_hup (ep_of w s) = true) ->
    WOk (read_closed sl s w).
  Proof.
    intros W Hs Hg. pose proof (w_ep w W s) as E. pose proof (e_fd _ E) as Hf.
    unfold read_closed.
    set (p1 := set_fd (set_reading false (fd (ep_of w s))) (ep_of w s)).
    destruct (halfc (ep_of w s)).
    - apply put_wok; auto.
      apply (epok_like (ep_of w s) _ [PReadLost]); cbn; auto; side_goals E Hf.
    - assert (W1 : WOk (put_ep s p1 w)).
      { apply flags_wok; cbn; auto; side_goals E Hf. }
      apply lost_wok; [exact W1|]. intros _. rewrite ep_put_same. exact Hg.
  Qed.

  Lemma rd_wok s r w : WOk w -> WOk (rd_step sl s r w).
  Proof.
    intros W. pose proof (w_ep w W s) as E. pose proof (e_fd _ E) as Hf.
    unfold rd_step.
    destruct (has_sock (ep_of w s) && reading (fd (ep_of w s)) && negb (aborting (ep_of w s))) eqn:G; [|exact W].
    apply andb_true_iff in G. destruct G as [G _]. apply andb_true_iff in G. destruct G as [Hs _].
    destruct r.
    - (* data *)
      set (q := q_of w (other s)). set (k := N.to_nat n).
      destruct (firstn k q) as [|x d'] eqn:Ed; [exact W|].
      destruct W as [We Wb Wf]. constructor.
      + intros y. destruct (side_cases s y) as [-> | ->].
        * rewrite ep_put_same. apply (epok_like (ep_of w s) _ [PData (x :: d')]); cbn; auto; side_goals E Hf.
        * rewrite ep_put_other. apply We.
      + intros y. destruct (side_cases s y) as [-> | ->].
        * rewrite ep_put_same, ep_put_other. specialize (Wb s). cbn.
          replace (q_of (put_ep s (say (PData (x :: d')) (ep_of w s))
                     (set_qs (upd (other s) (skipn k q) (qs w)) w)) s) with (q_of w s); [exact Wb|].
          destruct s, w as [? [qa qb] ? ?]; reflexivity.
        * rewrite ep_put_other, other_other, ep_put_same. specialize (Wb (other s)). rewrite other_other in Wb.
          replace (q_of (put_ep s (say (PData (x :: d')) (ep_of w s))
                     (set_qs (upd (other s) (skipn k q) (qs w)) w)) (other s)) with (skipn k q);
            [|destruct s, w as [? [qa qb] ? ?]; reflexivity].
          unfold delivered. cbn. rewrite <- Ed, <- app_assoc, firstn_skipn. exact Wb.
      + intros y Hfin. destruct (side_cases s y) as [-> | ->].
        * rewrite ep_put_same. cbn. apply Wf. exact Hfin.
        * rewrite ep_put_other. apply Wf. exact Hfin.
    - (* EOF *)
      apply read_closed_wok.
      + apply flags_wok; cbn; auto; side_goals E Hf.
      + rewrite ep_put_same. exact Hs.
      + rewrite ep_put_same. left. reflexivity.
    - exact W.
    - apply lost_wok; [exact W | discriminate].
  Qed.

  Lemma wr_wok s r w : WOk w -> WOk (wr_step sl bs s r w).
  Proof.
    intros W. pose proof (w_ep w W s) as E. pose proof (e_fd _ E) as Hf.
    unfold wr_step.
    destruct (has_sock (ep_of w s) && writing (fd (ep_of w s)) && negb (aborting (ep_of w s))) eqn:G; [|exact W].
    apply andb_true_iff in G. destruct G as [G _]. apply andb_true_iff in G. destruct G as [Hs _].
    destruct r.
    - destruct (do_write_ok_step sl bs (Nat.min (N.to_nat k) sl) _ Hf) as [news [HS _]].
      { rewrite <- (e_conn _ E). exact Hs. }
      eapply absorb_wok; [exact W | exact HS | left; exact Hs | discriminate].
    - destruct (do_write_err_step sl bs _ Hf) as [o HS].
      eapply absorb_wok; [exact W | exact HS | left; exact Hs | discriminate].
  Qed.

  Lemma hup_wok s w : WOk w -> WOk (hup_step sl s w).
  Proof.
    intros W. unfold hup_step.
    destruct (has_sock (ep_of w s) && (reading (fd (ep_of w s)) || writing (fd (ep_of w s)))) eqn:G; [|exact W].
    apply andb_true_iff in G. destruct G as [Hs _].
    destruct (reading (fd (ep_of w s))).
    - pose proof (w_ep w W s) as E. pose proof (e_fd _ E) as Hf. apply read_closed_wok.
      + apply flags_wok; cbn; auto; side_goals E Hf.
      + rewrite ep_put_same. exact Hs.
      + rewrite ep_put_same. right. reflexivity.
    - apply lost_wok; [exact W | discriminate].
  Qed.

  Lemma lost_sock s r w : WOk w -> has_sock (ep_of (lost sl s r w) s) = false.
  Proof.
    intros W. unfold lost. destruct (has_sock (ep_of w s)) eqn:Eh; [|exact Eh].
    assert (HS := conn_lost_step false _ (e_fd _ (w_ep w W s)) ltac:(discriminate)).
    rewrite (d_sock _ _ _ _ _ _ (absorb_delta s r _ _ w HS)). cbn. apply andb_false_r.
  Qed.

  Lemma tick_wok s w : WOk w -> WOk (tick_step sl s w).
  Proof.
    intros W. unfold tick_step. destruct (abort_pending (ep_of w s)); [|exact W].
    assert (W1 : WOk (lost sl s RAborted w)) by (apply lost_wok; [exact W | discriminate]).
    pose proof (lost_sock s RAborted w W) as Hk.
    set (w1 := lost sl s RAborted w) in *.
    pose proof (w_ep w1 W1 s) as E. pose proof (e_fd _ E) as Hf.
    apply flags_wok; cbn; auto; side_goals E Hf.
    intros _ Hsk. congruence.
  Qed.

  Lemma wstep_wok w e : WOk w -> WOk (wstep sl bs w e).
  Proof.
    intros W. destruct e; cbn [wstep];
      [apply app_wok | apply rd_wok | apply wr_wok | apply hup_wok | apply tick_wok]; exact W.
  Qed.

  Lemma wrun_from_wok tr : forall w, WOk w -> WOk (wrun_from sl bs w tr).
  Proof.
    induction tr as [|e tr IH]; intros w W; [exact W|]. cbn. apply IH, wstep_wok, W.
  Qed.

  Lemma wrun_wok ha hb tr : WOk (wrun sl bs ha hb tr).
  Proof. apply wrun_from_wok, init_wok. Qed.

  (** ---- a summary of one step, from which the monotonicity facts follow ---- *)
  Record Sum (ord : bool) (s : side) (w w' : world) : Prop := mkSum {
    s_other : ep_of w' (other s) = ep_of w (other s);
    s_tlog : exists add, tlog (ep_of w' s) = add ++ tlog (ep_of w s) /\
                         (forall r, In (PLost r) add -> r = RDone \/ ord = false);
    s_frozen : clean_end (fd (ep_of w s)) = true ->
               clean_end (fd (ep_of w' s)) = true /\ written (fd (ep_of w' s)) = written (fd (ep_of w s));
    s_abp : abort_pending (ep_of w' s) = true -> abort_pending (ep_of w s) = true \/ ord = false
  }.

  Lemma sum_refl o s w : Sum o s w w.
  Proof. constructor; auto. exists []. split; [reflexivity | intros r []]. Qed.

  Lemma sum_trans o s w w1 w2 : Sum o s w w1 -> Sum o s w1 w2 -> Sum o s w w2.
  Proof.
    intros [A1 [a1 [T1 L1]] F1 P1] [A2 [a2 [T2 L2]] F2 P2]. constructor.
    - rewrite A2, A1. reflexivity.
    - exists (a2 ++ a1). rewrite T2, T1, app_assoc. split; [reflexivity|].
      intros r Hin. apply in_app_or in Hin. destruct Hin; auto.
    - intros H. destruct (F1 H) as [C1 W1]. destruct (F2 C1) as [C2 W2]. split; [exact C2 | congruence].
    - intros H. destruct (P2 H) as [H1 | H1]; auto.
  Qed.

  Lemma sum_put o s w p' add :
    tlog p' = add ++ tlog (ep_of w s) -> (forall r, In (PLost r) add -> r = RDone \/ o = false) ->
    log (fd p') = log (fd (ep_of w s)) -> written (fd p') = written (fd (ep_of w s)) ->
    (abort_pending p' = true -> abort_pending (ep_of w s) = true \/ o = false) ->
    Sum o s w (put_ep s p' w).
  Proof.
    intros Ht Hl Hlog Hw Ha. constructor; rewrite ?ep_put_same, ?ep_put_other; auto.
    - exists add. auto.
    - unfold clean_end. rewrite Hlog, Hw. auto.
  Qed.

  Lemma sum_absorb o s rl fd' news w :
    FdStep (fd (ep_of w s)) fd' news ->
    (rl = RDone \/ existsb is_elost_err news = false \/ o = false) ->
    Sum o s w (absorb sl s rl fd' w).
  Proof.
    intros HS Hrl. pose proof (absorb_delta s rl fd' news w HS) as D.
    destruct D as [Do Dqo Dq Dfo Dfm Dfn Dfd Dsock Dab Dabp Dhalf Deof Dhup [add [Et [Hnd Hst]]]].
    constructor.
    - exact Do.
    - exists add. split; [exact Et|]. intros r Hin.
      destruct (existsb is_elost news); [|exfalso; apply (no_lost_in _ _ Hst Hin)].
      destruct Hst as [r0 [add' [-> [Hnl Hr]]]].
      destruct Hin as [Hin | Hin]; [|exfalso; apply (no_lost_in _ _ Hnl Hin)].
      injection Hin as ->. destruct Hr as [[-> _] | [-> He]]; [left; reflexivity|].
      destruct Hrl as [-> | [Hn | Ho]]; [left; reflexivity | congruence | right; exact Ho].
    - rewrite Dfd. intros H. split; [apply (clean_end_mono _ _ _ (t_log _ _ _ HS) H) | apply (t_frozen _ _ _ HS H)].
    - rewrite Dabp. auto.
  Qed.

  Lemma sum_lost o s r w : WOk w -> (r = RDone \/ o = false) -> Sum o s w (lost sl s r w).
  Proof.
    intros W Hr. unfold lost. destruct (has_sock (ep_of w s)); [|apply sum_refl].
    eapply sum_absorb; [apply conn_lost_step; [apply (e_fd _ (w_ep w W s)) | discriminate]|].
    destruct Hr; auto.
  Qed.

  Lemma sum_read_closed o s w : WOk w -> Sum o s w (read_closed sl s w).
  Proof.
    intros W. pose proof (w_ep w W s) as E. pose proof (e_fd _ E) as Hf. unfold read_closed.
    destruct (halfc (ep_of w s)).
    - eapply sum_put with (add := [PReadLost]); cbn; auto. intros r [H | []]. discriminate.
    - apply sum_trans with (w1 := put_ep s (set_fd (set_reading false (fd (ep_of w s))) (ep_of w s)) w).
      + eapply sum_put with (add := []); cbn; auto; try (intros r []).
      + apply sum_lost; [|left; reflexivity].
        apply flags_wok; cbn; auto; side_goals E Hf.
  Qed.

  Definition side_of (e : event) : side :=
    match e with App s _ | Rd s _ | Wr s _ | Hup s | Tick s => s end.

  Lemma wstep_sum w e : WOk w -> Sum (orderly_event e) (side_of e) w (wstep sl bs w e).
  Proof.
    intros W. destruct e as [s a | s r | s r | s | s]; cbn [wstep side_of];
      pose proof (w_ep w W s) as E; pose proof (e_fd _ E) as Hf.
    - (* application calls *)
      destruct a; cbn [app_step orderly_event].
      + eapply sum_absorb; [apply write_step, Hf | right; left; reflexivity].
      + eapply sum_absorb; [apply write_seq_step, Hf | right; left; reflexivity].
      + destruct (lose_step _ Hf) as [news [HS [_ [Herr _]]]].
        eapply sum_absorb; [exact HS | right; left; exact Herr].
      + destruct (connected (fd (ep_of w s)) && negb (wdisconnected (fd (ep_of w s)))); [|apply sum_refl].
        eapply sum_absorb; [apply losew_step, Hf | right; left; reflexivity].
      + destruct (disconnected (fd (ep_of w s)) || aborting (ep_of w s)); [apply sum_refl|].
        eapply sum_put with (add := []); cbn; auto; try (intros r []).
      + eapply sum_put with (add := []); cbn; auto; try (intros r []).
      + destruct (connected (fd (ep_of w s)) && negb (disconnecting (fd (ep_of w s)))); [|apply sum_refl].
        eapply sum_put with (add := []); cbn; auto; try (intros r []).
    - (* doRead *)
      unfold rd_step.
      destruct (has_sock (ep_of w s) && reading (fd (ep_of w s)) && negb (aborting (ep_of w s))); [|apply sum_refl].
      destruct r; cbn [orderly_event].
      + destruct (firstn (N.to_nat n) (q_of w (other s))) as [|x d'] eqn:Ed; [apply sum_refl|].
        constructor; rewrite ?ep_put_same, ?ep_put_other; try reflexivity; cbn; auto.
        exists [PData (x :: d')]. split; [reflexivity | intros r [H | []]; discriminate].
      + apply sum_trans with (w1 := put_ep s (set_got_eof true (ep_of w s)) w).
        * eapply sum_put with (add := []); cbn; auto; try (intros r []).
        * apply sum_read_closed. apply flags_wok; cbn; auto; side_goals E Hf.
      + apply sum_refl.
      + apply sum_lost; [exact W | right; reflexivity].
    - (* doWrite *)
      unfold wr_step.
      destruct (has_sock (ep_of w s) && writing (fd (ep_of w s)) && negb (aborting (ep_of w s))) eqn:G; [|apply sum_refl].
      apply andb_true_iff in G. destruct G as [G _]. apply andb_true_iff in G. destruct G as [Hs _].
      destruct r; cbn [orderly_event].
      + destruct (do_write_ok_step sl bs (Nat.min (N.to_nat k) sl) _ Hf) as [news [HS [Herr _]]].
        { rewrite <- (e_conn _ E). exact Hs. }
        eapply sum_absorb; [exact HS | right; left; exact Herr].
      + destruct (do_write_err_step sl bs _ Hf) as [o HS].
        eapply sum_absorb; [exact HS | right; right; reflexivity].
    - (* hang-up *)
      unfold hup_step. cbn [orderly_event].
      destruct (has_sock (ep_of w s) && (reading (fd (ep_of w s)) || writing (fd (ep_of w s)))); [|apply sum_refl].
      destruct (reading (fd (ep_of w s))).
      + apply sum_trans with (w1 := put_ep s (set_got_hup true (ep_of w s)) w).
        * eapply sum_put with (add := []); cbn; auto; try (intros r []).
        * apply sum_read_closed. apply flags_wok; cbn; auto; side_goals E Hf.
      + apply sum_lost; [exact W | right; reflexivity].
    - (* abortConnection's delayed call *)
      unfold tick_step. cbn [orderly_event].
      destruct (abort_pending (ep_of w s)); [|apply sum_refl].
      apply sum_trans with (w1 := lost sl s RAborted w).
      + apply sum_lost; [exact W | right; reflexivity].
      + eapply sum_put with (add := []); cbn; auto; try (intros r []).
  Qed.

  (** ---- consequences, for every schedule ---- *)
  Lemma delivered_rl_app_gen a l : delivered_rl (a ++ l) = delivered_rl l ++ delivered_rl a.
  Proof.
    induction a as [|p a IH]; cbn; [rewrite app_nil_r; reflexivity|].
    destruct p; try exact IH. rewrite IH, app_assoc. reflexivity.
  Qed.

  Definition Mono (w w' : world) : Prop :=
    forall x, (exists d, delivered (ep_of w' x) = delivered (ep_of w x) ++ d) /\
              (clean_end (fd (ep_of w x)) = true ->
               clean_end (fd (ep_of w' x)) = true /\ written (fd (ep_of w' x)) = written (fd (ep_of w x))).

  Lemma wstep_mono w e : WOk w -> Mono w (wstep sl bs w e).
  Proof.
    intros W x. destruct (wstep_sum w e W) as [So [add [St _]] Sf _].
    destruct (side_cases (side_of e) x) as [-> | ->].
    - split; [|exact Sf]. exists (delivered_rl add). unfold delivered. rewrite St. apply delivered_rl_app_gen.
    - rewrite So. split; [exists []; rewrite app_nil_r; reflexivity | auto].
  Qed.

  Lemma run_mono tr : forall w, WOk w -> Mono w (wrun_from sl bs w tr).
  Proof.
    induction tr as [|e tr IH]; intros w W x.
    - split; [exists []; rewrite app_nil_r; reflexivity | auto].
    - change (wrun_from sl bs w (e :: tr)) with (wrun_from sl bs (wstep sl bs w e) tr).
      destruct (wstep_mono w e W x) as [[d1 E1] F1].
      destruct (IH _ (wstep_wok w e W) x) as [[d2 E2] F2]. split.
      + exists (d1 ++ d2). rewrite E2, E1, app_assoc. reflexivity.
      + intros H. destruct (F1 H) as [C1 W1]. destruct (F2 C1) as [C2 W2]. split; [exact C2 | congruence].
  Qed.

  Lemma wok_conservation w s : WOk w ->
    written (fd (ep_of w s)) = delivered (ep_of w (other s)) ++ q_of w s ++ unsent (fd (ep_of w s)).
  Proof.
    intros W. rewrite (f_bytes _ (e_fd _ (w_ep w W s))), (w_bytes w W s), app_assoc. reflexivity.
  Qed.

  (** when the kernel may report EOF to side s, s has been given every byte the kernel accepted from its peer; and
      all the peer wrote, if the peer's sending direction ended by a completed flush *)
  Lemma eof_complete_now w s : WOk w -> enabled sl bs w (Rd s REof) = true ->
    delivered (ep_of w s) = sent (fd (ep_of w (other s))) /\
    (clean_end (fd (ep_of w (other s))) = true -> delivered (ep_of w s) = written (fd (ep_of w (other s)))).
  Proof.
    intros W En. cbn in En. apply andb_true_iff in En. destruct En as [_ En].
    apply andb_true_iff in En. destruct En as [_ Eq].
    destruct (q_of w (other s)) eqn:Q; [|discriminate].
    pose proof (w_bytes w W (other s)) as Hb. rewrite other_other, Q, app_nil_r in Hb.
    split; [symmetry; exact Hb|].
    intros Hc. pose proof (e_fd _ (w_ep w W (other s))) as Hf.
    destruct (f_clean _ Hf Hc) as [Hu _]. rewrite (f_bytes _ Hf), Hu, app_nil_r. symmetry. exact Hb.
  Qed.

  (** ... and that stays so whatever happens afterwards *)
  Lemma eof_complete_forever w s tr : WOk w -> enabled sl bs w (Rd s REof) = true ->
    clean_end (fd (ep_of w (other s))) = true ->
    let w' := wrun_from sl bs w tr in
    delivered (ep_of w' s) = written (fd (ep_of w' (other s))).
  Proof.
    intros W En Hc w'. destruct (eof_complete_now w s W En) as [_ H0]. specialize (H0 Hc).
    pose proof (run_mono tr w W) as M. fold w' in M.
    destruct (M s) as [[d Ed] _]. destruct (M (other s)) as [_ Fr]. destruct (Fr Hc) as [_ Ew].
    pose proof (wok_conservation w' (other s) (wrun_from_wok tr w W)) as Hcons.
    rewrite other_other, Ew, <- H0, Ed in Hcons.
    assert (Hd : d ++ q_of w' (other s) ++ unsent (fd (ep_of w' (other s))) = []).
    { rewrite <- app_assoc in Hcons. rewrite <- (app_nil_r (delivered (ep_of w s))) in Hcons at 1.
      apply app_inv_head in Hcons. symmetry. exact Hcons. }
    apply app_eq_nil in Hd. destruct Hd as [-> _]. rewrite Ed, app_nil_r, Ew. exact H0.
  Qed.

  Lemma lost_once p l1 l2 r : EpOk p -> tlog p = l2 ++ PLost r :: l1 ->
    l2 = [] /\ (forall r', ~ In (PLost r') l1) /\ has_sock p = false.
  Proof.
    intros [_ _ Ea Ed _] E. destruct (has_sock p) eqn:Hs.
    - exfalso. specialize (Ea eq_refl). apply (no_lost_in _ r Ea). rewrite E. apply in_or_app. right. left. reflexivity.
    - destruct (Ed eq_refl) as [r0 [l [El Hnl]]]. rewrite El in E.
      destruct l2 as [|x l2].
      + cbn in E. injection E as _ <-. split; [reflexivity|]. split; [|reflexivity].
        intros r'. apply no_lost_in, Hnl.
      + cbn in E. injection E as _ ->. exfalso. apply (no_lost_in _ r Hnl). apply in_or_app. right. left. reflexivity.
  Qed.

  Lemma orderly_all_done tr : forall w, WOk w -> forallb orderly_event tr = true ->
    (forall s r, In (PLost r) (tlog (ep_of w s)) -> r = RDone) ->
    forall s r, In (PLost r) (tlog (ep_of (wrun_from sl bs w tr) s)) -> r = RDone.
  Proof.
    induction tr as [|e tr IH]; intros w W Ho H0; [exact H0|].
    cbn in Ho. apply andb_true_iff in Ho. destruct Ho as [Ho1 Ho2]. cbn.
    apply IH; [apply wstep_wok, W | exact Ho2|].
    intros s r Hin. pose proof (wstep_sum w e W) as [So [add [St Sl]] _ _]. rewrite Ho1 in Sl.
    destruct (side_cases (side_of e) s) as [-> | ->].
    - rewrite St in Hin. apply in_app_or in Hin. destruct Hin as [Hin | Hin]; [|apply (H0 _ _ Hin)].
      destruct (Sl _ Hin); [assumption | discriminate].
    - rewrite So in Hin. apply (H0 _ _ Hin).
  Qed.
End P.

(** ---- the statements exported by Property.v ---- *)
Lemma run_conservation sl bs ha hb tr s :
  let w := wrun sl bs ha hb tr in
  written (fd (ep_of w s)) = delivered (ep_of w (other s)) ++ q_of w s ++ unsent (fd (ep_of w s)).
Proof. apply wok_conservation, wrun_wok. Qed.

Lemma run_eof_complete sl bs ha hb tr1 tr2 s :
  let w1 := wrun sl bs ha hb tr1 in
  let w2 := wrun sl bs ha hb (tr1 ++ tr2) in
  enabled sl bs w1 (Rd s REof) = true ->
  delivered (ep_of w1 s) = sent (fd (ep_of w1 (other s))) /\
  (clean_end (fd (ep_of w1 (other s))) = true ->
   delivered (ep_of w2 s) = written (fd (ep_of w2 (other s)))).
Proof.
  intros w1 w2 En. pose proof (wrun_wok sl bs ha hb tr1) as W. split.
  - apply (eof_complete_now sl bs _ s W En).
  - intros Hc. unfold w2, wrun, wrun_from. rewrite fold_left_app.
    apply (eof_complete_forever sl bs _ s tr2 W En Hc).
Qed.

Lemma run_lost_once sl bs ha hb tr s l1 l2 r :
  tlog (ep_of (wrun sl bs ha hb tr) s) = l2 ++ PLost r :: l1 ->
  l2 = [] /\ (forall r', ~ In (PLost r') l1).
Proof.
  intros E. destruct (lost_once _ _ _ _ (w_ep _ (wrun_wok sl bs ha hb tr) s) E) as [H1 [H2 _]]. auto.
Qed.

Lemma run_lost_iff_socket_released sl bs ha hb tr s :
  let p := ep_of (wrun sl bs ha hb tr) s in
  has_sock p = false <-> exists r, In (PLost r) (tlog p).
Proof.
  intros p. pose proof (w_ep _ (wrun_wok sl bs ha hb tr) s) as E. fold p in E. split.
  - intros H. destruct (e_dead _ E H) as [r [l [El _]]]. exists r. rewrite El. left. reflexivity.
  - intros [r Hin]. destruct (has_sock p) eqn:Hs; [|reflexivity].
    exfalso. apply (no_lost_in _ r (e_alive _ E Hs) Hin).
Qed.

Lemma run_never_stalls sl bs ha hb tr s :
  let p := ep_of (wrun sl bs ha hb tr) s in
  has_sock p = true ->
  (aborting p = false -> pending (fd p) -> writing (fd p) = true) /\
  (aborting p = true -> abort_pending p = true).
Proof.
  intros p Hs. pose proof (w_ep _ (wrun_wok sl bs ha hb tr) s) as E. fold p in E. split.
  - intros Ha Hp. apply (e_stall _ E Ha); [rewrite <- (e_conn _ E); exact Hs | exact Hp].
  - intros Ha. apply (e_abort _ E Ha Hs).
Qed.

Lemma run_once_partial sl bs ha hb tr s :
  let p := ep_of (wrun sl bs ha hb tr) s in
  (has_sock p = false <-> exists r, In (PLost r) (tlog p)) /\
  (has_sock p = true ->
   (aborting p = false -> pending (fd p) -> writing (fd p) = true) /\
   (aborting p = true -> abort_pending p = true)).
Proof.
  intros p. split; [exact (run_lost_iff_socket_released sl bs ha hb tr s) | exact (run_never_stalls sl bs ha hb tr s)].
Qed.

Lemma run_orderly_done sl bs ha hb tr s r :
  forallb orderly_event tr = true ->
  In (PLost r) (tlog (ep_of (wrun sl bs ha hb tr) s)) -> r = RDone.
Proof.
  intros Ho. apply (orderly_all_done sl bs tr _ (init_wok ha hb) Ho).
  intros s0 r0. destruct s0; cbn; intros [].
Qed.

Lemma run_done_justified sl bs ha hb tr s :
  let p := ep_of (wrun sl bs ha hb tr) s in
  In (PLost RDone) (tlog p) ->
  (clean_end (fd p) = true /\ written (fd p) = sent (fd p)) \/ got_eof p = true \/ got_hup p = true.
Proof.
  intros p Hin. pose proof (w_ep _ (wrun_wok sl bs ha hb tr) s) as E. fold p in E.
  destruct (e_done _ E Hin) as [H | H]; [left | right; exact H].
  split; [exact H|]. destruct (f_clean _ (e_fd _ E) H) as [Hu _].
  rewrite (f_bytes _ (e_fd _ E)), Hu, app_nil_r. reflexivity.
Qed.

(** ---- the hypotheses are met by real histories ---- *)
Definition ex_data : bytes := [1; 2; 3; 4; 5]%N.
(** A writes 5 bytes and calls loseConnection; the kernel takes 3 then 2; B (not half-closeable) reads 2, 3, EOF *)
Definition ex_tr1 : list event :=
  [App SA (AWrite ex_data); App SA ALose; Wr SA (SOk 3); Rd SB (RData 2); Wr SA (SOk 2); Rd SB (RData 3)].
Example ex_valid : valid 4 4 false false (ex_tr1 ++ [Rd SB REof]) = true.
Proof. vm_compute. reflexivity. Qed.
Example ex_eof_enabled : enabled 4 4 (wrun 4 4 false false ex_tr1) (Rd SB REof) = true
  /\ clean_end (fd (ep_of (wrun 4 4 false false ex_tr1) SA)) = true.
Proof. vm_compute. split; reflexivity. Qed.
Example ex_outcome :
  let w := wrun 4 4 false false (ex_tr1 ++ [Rd SB REof; Wr SB (SOk 0)]) in
  delivered (ep_of w SB) = ex_data /\
  map (fun p => is_lost p) (tlog (ep_of w SA)) = [true; false; false; false] /\
  tlog (ep_of w SB) = [PLost RDone; KClose true; PData [3; 4; 5]%N; PData [1; 2]%N].
Proof. vm_compute. repeat split; reflexivity. Qed.
Example ex_orderly : forallb orderly_event (ex_tr1 ++ [Rd SB REof]) = true.
Proof. reflexivity. Qed.
(** abort with data buffered: the peer gets a prefix and an error, the aborter ConnectionAborted *)
Definition ex_tr2 : list event :=
  [App SA (AWrite ex_data); Wr SA (SOk 2); App SA AAbort; Rd SB (RData 2); Tick SA; Rd SB RErr].
Example ex_abort :
  let w := wrun 4 4 false false ex_tr2 in
  valid 4 4 false false ex_tr2 = true /\ delivered (ep_of w SB) = [1; 2]%N /\
  hd PReadLost (tlog (ep_of w SA)) = PLost RAborted /\ hd PReadLost (tlog (ep_of w SB)) = PLost RLost.
Proof. vm_compute. repeat split; reflexivity. Qed.
(** pending work and a live socket: the hypotheses of the no-stall statement *)
Example ex_pending :
  let p := ep_of (wrun 4 4 false false [App SA (AWrite ex_data); App SA ALose; Wr SA (SOk 3)]) SA in
  has_sock p = true /\ aborting p = false /\ unsent (fd p) = [4; 5]%N /\ disconnecting (fd p) = true.
Proof. vm_compute. repeat split; reflexivity. Qed.
