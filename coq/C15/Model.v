(** C15: one TCP connection = two [tcp.Connection] endpoints (each is C14's FileDescriptor model, C14/Model.v, plus
    what tcp.py adds: the socket attribute guard of Connection.connectionLost, _AbortingMixin, doRead,
    _closeWriteConnection, readConnectionLost) composed with a KERNEL SOCKET-PAIR ORACLE and the reactor's dispatch
    rule (posixbase._doReadOrWrite / _disconnectSelectable).

    Kernel oracle, per direction: [q s] = bytes the kernel accepted from side [s] that the peer's application has not
    read yet (in flight or in the peer's receive queue), [fin s] = side [s] has shut its sending direction down (FIN
    follows the queue), [rst s] = side [s]'s socket has a reset pending (peer aborted, peer closed with unread data,
    or [s] sent data to a closed peer).  The kernel's and the reactor's choices are the [event]s of a schedule:
    which descriptor is dispatched, how many bytes recv returns (any non-empty prefix of the queue), how many bytes
    send accepts (any prefix of what is offered), EOF / EAGAIN / error results, hang-up reports, the firing of
    abortConnection's delayed call; application calls are events too.  [enabled] states the oracle's hypotheses
    (what the kernel / reactor may do in a state); [wstep] is total and is the semantics of the Python code for the
    given choice.  SEND_LIMIT ([sl]) and bufferSize ([bs]) are parameters. *)
From Coq Require Import List Arith Bool NArith.
From C14 Require Import Model.
Import ListNotations.

Inductive side := SA | SB.
Definition other (s : side) : side := match s with SA => SB | SB => SA end.

Definition sel {X : Type} (s : side) (p : X * X) : X := match s with SA => fst p | SB => snd p end.
Definition upd {X : Type} (s : side) (v : X) (p : X * X) : X * X :=
  match s with SA => (v, snd p) | SB => (fst p, v) end.

Inductive reason := RDone | RLost | RAborted.      (* ConnectionDone / ConnectionLost / ConnectionAborted *)

(** what the protocol and the socket object of one endpoint see (log is newest first) *)
Inductive pev :=
| PData (d : bytes)                  (* protocol.dataReceived(d) *)
| PReadLost                          (* protocol.readConnectionLost() *)
| PWriteLost                         (* protocol.writeConnectionLost() *)
| PLost (r : reason)                 (* protocol.connectionLost(Failure(r)) *)
| KSend (offered : bytes) (k : nat)  (* socket.send(offered) returned k *)
| KSendErr (offered : bytes)         (* socket.send(offered) raised an error other than EWOULDBLOCK / ENOBUFS *)
| KShutWr                            (* socket.shutdown(SHUT_WR) *)
| KClose (orderly : bool).           (* _closeSocket: shutdown(2)+close, or SO_LINGER(1,0)+close *)

Record ep := mkEp {
  fd : st;                 (* abstract.FileDescriptor state (C14) *)
  has_sock : bool;         (* hasattr(self, "socket") *)
  aborting : bool;         (* _aborting: doRead / doWrite replaced by no-ops *)
  abort_pending : bool;    (* callLater(0, connectionLost, ConnectionAborted) not yet run *)
  halfc : bool;            (* the protocol provides IHalfCloseableProtocol *)
  got_eof : bool;          (* ghost: recv returned b"" *)
  got_hup : bool;          (* ghost: the reactor reported a hang-up while the descriptor was being read *)
  tlog : list pev
}.

Definition set_fd (v : st) (e : ep) : ep := mkEp v (has_sock e) (aborting e) (abort_pending e) (halfc e) (got_eof e) (got_hup e) (tlog e).
Definition set_has_sock (v : bool) (e : ep) : ep := mkEp (fd e) v (aborting e) (abort_pending e) (halfc e) (got_eof e) (got_hup e) (tlog e).
Definition set_aborting (v : bool) (e : ep) : ep := mkEp (fd e) (has_sock e) v (abort_pending e) (halfc e) (got_eof e) (got_hup e) (tlog e).
Definition set_abort_pending (v : bool) (e : ep) : ep := mkEp (fd e) (has_sock e) (aborting e) v (halfc e) (got_eof e) (got_hup e) (tlog e).
Definition set_got_eof (v : bool) (e : ep) : ep := mkEp (fd e) (has_sock e) (aborting e) (abort_pending e) (halfc e) v (got_hup e) (tlog e).
Definition set_got_hup (v : bool) (e : ep) : ep := mkEp (fd e) (has_sock e) (aborting e) (abort_pending e) (halfc e) (got_eof e) v (tlog e).
Definition set_tlog (v : list pev) (e : ep) : ep := mkEp (fd e) (has_sock e) (aborting e) (abort_pending e) (halfc e) (got_eof e) (got_hup e) v.
Definition say (p : pev) (e : ep) : ep := set_tlog (p :: tlog e) e.

Record world := mkW {
  eps : ep * ep;
  qs : bytes * bytes;       (* sel s qs = bytes sent by s, not yet read by the other side *)
  fins : bool * bool;
  rsts : bool * bool
}.
Definition set_eps v (w : world) := mkW v (qs w) (fins w) (rsts w).
Definition set_qs v (w : world) := mkW (eps w) v (fins w) (rsts w).
Definition set_fins v (w : world) := mkW (eps w) (qs w) v (rsts w).
Definition set_rsts v (w : world) := mkW (eps w) (qs w) (fins w) v.

Definition ep_of (w : world) (s : side) : ep := sel s (eps w).
Definition put_ep (s : side) (e : ep) (w : world) : world := set_eps (upd s e (eps w)) w.
Definition q_of (w : world) (s : side) : bytes := sel s (qs w).
Definition fin_of (w : world) (s : side) : bool := sel s (fins w).
Definition rst_of (w : world) (s : side) : bool := sel s (rsts w).

Definition init_ep (half : bool) : ep := mkEp init true false false half false false [].
Definition winit (halfA halfB : bool) : world :=
  mkW (init_ep halfA, init_ep halfB) ([], []) (false, false) (false, false).

(** ---- application calls, kernel / reactor choices ---- *)
Inductive app := AWrite (d : bytes) | AWriteSeq (ds : list bytes) | ALose | ALoseW | AAbort | APause | AResume.
Inductive rres := RData (n : N) | REof | RAgain | RErr.        (* result of socket.recv(bufferSize) *)
Inductive sres := SOk (k : N) | SErr.                           (* result of socket.send (EWOULDBLOCK = SOk 0) *)
Inductive event :=
| App (s : side) (a : app)
| Rd (s : side) (r : rres)      (* the reactor calls doRead *)
| Wr (s : side) (r : sres)      (* the reactor calls doWrite *)
| Hup (s : side)                (* poll/epoll: POLL_DISCONNECTED without POLL_IN *)
| Tick (s : side).              (* the delayed call scheduled by abortConnection runs *)

Definition orderly_reason (r : reason) : bool := match r with RAborted => false | _ => true end.

(** the new events of a C14 step, oldest first (the C14 log is newest first and only grows) *)
Definition fd_news (before after : st) : list ev :=
  rev (firstn (length (log after) - length (log before)) (log after)).

Section WithLimits.
  Variables (sl bs : nat).

  (** kernel: side s closes its socket *)
  Definition k_close (orderly : bool) (s : side) (w : world) : world :=
    if orderly then
      let w1 := set_fins (upd s true (fins w)) w in
      match q_of w (other s) with
      | [] => w1
      | _ => set_rsts (upd (other s) true (rsts w1)) w1       (* unread data: the peer is reset *)
      end
    else set_rsts (upd (other s) true (rsts w)) w.

  (** what tcp.Connection and the kernel do for one event the FileDescriptor layer produced *)
  Definition absorb1 (s : side) (rl : reason) (w : world) (e : ev) : world :=
    let p := ep_of w s in
    match e with
    | EOs offered l =>
        let w1 := put_ep s (say (KSend (firstn sl offered) l) p) w in
        let w2 := set_qs (upd s (q_of w1 s ++ firstn l offered) (qs w1)) w1 in
        if negb (has_sock (ep_of w (other s))) && negb (Nat.eqb l 0)
        then set_rsts (upd s true (rsts w2)) w2          (* data for a closed socket is answered by a reset *)
        else w2
    | EOsErr offered => put_ep s (say (KSendErr (firstn sl offered)) p) w
    | ECloseWrite _ _ _ =>
        let p1 := say KShutWr p in
        let p2 := if halfc p then say PWriteLost p1 else p1 in
        set_fins (upd s true (fins w)) (put_ep s p2 w)
    | ELost clean _ _ _ _ =>
        let r := if clean then RDone else rl in
        let p1 := set_has_sock false (say (PLost r) (say (KClose (orderly_reason r)) p)) in
        k_close (orderly_reason r) s (put_ep s p1 w)
    | _ => w
    end.

  (** side s's descriptor moved to fd'; apply the consequences of its new events in order *)
  Definition absorb (s : side) (rl : reason) (fd' : st) (w : world) : world :=
    let p := ep_of w s in
    fold_left (absorb1 s rl) (fd_news (fd p) fd') (put_ep s (set_fd fd' p) w).

  (** Connection.connectionLost(Failure(r)) called from outside the FileDescriptor layer (reactor, delayed call).
      In the descriptor's own log this is an [ELost false]: [ELost true] is reserved for the close that completes
      loseConnection's flush, as in C14; the reason the protocol sees is [r]. *)
  Definition lost (s : side) (r : reason) (w : world) : world :=
    let p := ep_of w s in
    if has_sock p then absorb s r (conn_lost false (fd p)) w else w.

  Definition app_step (s : side) (a : app) (w : world) : world :=
    let p := ep_of w s in
    match a with
    | AWrite d => absorb s RLost (write bs d (fd p)) w
    | AWriteSeq ds => absorb s RLost (write_seq bs ds (fd p)) w
    | ALose => absorb s RLost (lose (fd p)) w
    | ALoseW =>      (* Connection.loseWriteConnection: nothing once the write side is shut down or the connection lost *)
        if connected (fd p) && negb (wdisconnected (fd p)) then absorb s RLost (losew (fd p)) w else w
    | AAbort =>
        if disconnected (fd p) || aborting p then w
        else put_ep s (set_abort_pending true (set_aborting true
               (set_fd (set_writing false (set_reading false (fd p))) p))) w
    | APause => put_ep s (set_fd (set_reading false (fd p)) p) w
    | AResume =>
        if connected (fd p) && negb (disconnecting (fd p))
        then put_ep s (set_fd (set_reading true (fd p)) p) w else w
    end.

  (** _disconnectSelectable(selectable, CONNECTION_DONE, isRead=True): half-close notification *)
  Definition read_closed (s : side) (w : world) : world :=
    let p := ep_of w s in
    let p1 := set_fd (set_reading false (fd p)) p in
    if halfc p then put_ep s (say PReadLost p1) w
    else lost s RDone (put_ep s p1 w).

  Definition rd_step (s : side) (r : rres) (w : world) : world :=
    let p := ep_of w s in
    if has_sock p && reading (fd p) && negb (aborting p) then
      match r with
      | RData n =>
          let d := firstn (N.to_nat n) (q_of w (other s)) in
          match d with
          | [] => w
          | _ => put_ep s (say (PData d) p)
                   (set_qs (upd (other s) (skipn (N.to_nat n) (q_of w (other s))) (qs w)) w)
          end
      | REof => read_closed s (put_ep s (set_got_eof true p) w)
      | RAgain => w
      | RErr => lost s RLost w
      end
    else w.

  Definition wr_step (s : side) (r : sres) (w : world) : world :=
    let p := ep_of w s in
    if has_sock p && writing (fd p) && negb (aborting p) then
      match r with
      | SOk k => absorb s RLost (do_write sl bs (Some (Nat.min (N.to_nat k) sl)) (fd p)) w
      | SErr => absorb s RLost (do_write sl bs None (fd p)) w
      end
    else w.

  Definition hup_step (s : side) (w : world) : world :=
    let p := ep_of w s in
    if has_sock p && (reading (fd p) || writing (fd p)) then
      if reading (fd p) then read_closed s (put_ep s (set_got_hup true p) w)
      else lost s RLost w
    else w.

  Definition tick_step (s : side) (w : world) : world :=
    let p := ep_of w s in
    if abort_pending p then
      let w1 := lost s RAborted w in put_ep s (set_abort_pending false (ep_of w1 s)) w1
    else w.

  Definition wstep (w : world) (e : event) : world :=
    match e with
    | App s a => app_step s a w
    | Rd s r => rd_step s r w
    | Wr s r => wr_step s r w
    | Hup s => hup_step s w
    | Tick s => tick_step s w
    end.

  Definition wrun_from (w : world) (tr : list event) : world := fold_left wstep tr w.
  Definition wrun (halfA halfB : bool) (tr : list event) : world := wrun_from (winit halfA halfB) tr.

  (** ---- the oracle's hypotheses: what the kernel and the reactor may do in state w ---- *)
  Definition offered_now (f : st) : bytes := let f1 := coalesce sl f in skipn (off f1) (dbuf f1).

  Definition enabled (w : world) (e : event) : bool :=
    match e with
    | App _ _ => true
    | Rd s r =>
        let p := ep_of w s in
        has_sock p && reading (fd p) &&
        match r with
        | RData n => negb (N.eqb n 0) && Nat.leb (N.to_nat n) (length (q_of w (other s)))
                     && Nat.leb (N.to_nat n) bs
        | REof => fin_of w (other s) && match q_of w (other s) with [] => true | _ => false end
        | RAgain => true
        | RErr => rst_of w s
        end
    | Wr s r =>
        let p := ep_of w s in
        has_sock p && writing (fd p) &&
        match r with
        | SOk k => Nat.leb (N.to_nat k) (length (offered_now (fd p))) && Nat.leb (N.to_nat k) sl
        | SErr => rst_of w s
        end
    | Hup s =>
        let p := ep_of w s in
        has_sock p && (reading (fd p) || writing (fd p)) &&
        (rst_of w s || (fin_of w s && fin_of w (other s)))
    | Tick s => abort_pending (ep_of w s)
    end.

  Fixpoint valid_from (w : world) (tr : list event) : bool :=
    match tr with
    | [] => true
    | e :: r => enabled w e && valid_from (wstep w e) r
    end.
  Definition valid (halfA halfB : bool) (tr : list event) : bool := valid_from (winit halfA halfB) tr.
End WithLimits.

(** ---- ghost readings of an endpoint's log (newest first) ---- *)
Fixpoint delivered_rl (l : list pev) : bytes :=
  match l with
  | [] => []
  | PData d :: r => delivered_rl r ++ d
  | _ :: r => delivered_rl r
  end.
Definition delivered (e : ep) : bytes := delivered_rl (tlog e).

Definition is_lost (p : pev) : bool := match p with PLost _ => true | _ => false end.
Definition is_callback (p : pev) : bool :=
  match p with PData _ | PReadLost | PWriteLost | PLost _ => true | _ => false end.

(** schedules with no abort, no kernel error and no hang-up report *)
Definition orderly_event (e : event) : bool :=
  match e with
  | App _ AAbort => false
  | Rd _ RErr => false
  | Wr _ SErr => false
  | Hup _ => false
  | Tick _ => false
  | _ => true
  end.
