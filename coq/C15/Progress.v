(** C15: a requested close completes when the kernel co-operates (the liveness half of "exactly once", for the
    schedule in which the reactor keeps dispatching the writer and the kernel keeps accepting). *)
From Coq Require Import List Arith Bool NArith Lia.
From C14 Require Import Model.
From C15 Require Import Model FdFacts Proofs.
Import ListNotations.

Lemma offered_nonempty sl s : FdOk s -> 0 < sl -> unsent s <> [] -> offered_now sl s <> [].
Proof.
  intros [Hb Ht Ho Hw Hp Hc Hd] Hsl Hu. unfold offered_now, coalesce.
  destruct (Nat.ltb_spec (length (dbuf s) - off s) sl) as [Hlt | Hge]; cbn.
  - exact Hu.
  - intros E. apply (f_equal (@length _)) in E. rewrite skipn_length in E. cbn in E. lia.
Qed.

(** doWrite with a close pending: either the connection is closed, or bytes remain and the close is still pending *)
Lemma do_write_progress sl bs k s :
  FdOk s -> connected s = true -> disconnecting s = true ->
  let s' := do_write sl bs (Some k) s in
  written s' = written s /\
  (connected s' = false \/ (unsent s' <> [] /\ disconnecting s' = true /\ connected s' = true)).
Proof.
  intros H0 Hcon Hdis. unfold do_write.
  destruct (coalesce_ok sl s H0) as [H [Eu [El [Es [Ewr [Ec [Ewd [Edc [Ewdc Ewrt]]]]]]]]].
  set (s1 := coalesce sl s) in *. clearbody s1.
  cbv zeta. unfold os_accept.
  set (offered := skipn (off s1) (dbuf s1)). set (l := Nat.min k (length offered)).
  destruct H as [Hb Ht Ho Hw Hp Hc Hd].
  set (s2 := emit (EOs offered l) (set_sent (sent s1 ++ firstn l offered) (set_off (off s1 + l) s1))).
  destruct (Nat.eqb (off s2) (length (dbuf s2)) && Nat.eqb (tlen s2) 0) eqn:Edr.
  - unfold after_drain. cbn. rewrite ?Hp. unfold finish. cbn. rewrite Edc, Hdis.
    unfold conn_lost, is_pull. cbn. rewrite ?Hp. cbn. rewrite ?Hp. cbn. split; [exact Ewr | left; reflexivity].
  - cbn. split; [exact Ewr|]. right. rewrite Edc, Ec. split; [|split; [exact Hdis | exact Hcon]].
    unfold unsent. cbn. intros En. apply app_eq_nil in En. destruct En as [En1 En2].
    assert (Hl_le : l <= length (dbuf s1) - off s1) by (unfold l, offered; rewrite skipn_length; lia).
    apply andb_false_iff in Edr. cbn in Edr. destruct Edr as [Edr | Edr]; apply Nat.eqb_neq in Edr; apply Edr.
    + apply skipn_nil_len in En1; [exact En1 | lia].
    + rewrite Ht, En2. reflexivity.
Qed.

Section Progress.
  Variables (sl bs : nat).
  Hypothesis Hsl : 0 < sl.

  (** the send result that accepts as much as the code offers (at most SEND_LIMIT) *)
  Definition full_send (w : world) (s : side) : event :=
    Wr s (SOk (N.of_nat (Nat.min sl (length (offered_now sl (fd (ep_of w s))))))).

  Fixpoint drain (n : nat) (s : side) (w : world) : list event :=
    match n with
    | O => []
    | S n' => let e := full_send w s in e :: drain n' s (wstep sl bs w e)
    end.

  Lemma drain_closes : forall m w s,
    WOk w -> has_sock (ep_of w s) = true -> aborting (ep_of w s) = false ->
    disconnecting (fd (ep_of w s)) = true -> length (unsent (fd (ep_of w s))) <= m ->
    exists n, n <= m + 1 /\
      valid_from sl bs w (drain n s w) = true /\
      has_sock (ep_of (wrun_from sl bs w (drain n s w)) s) = false.
  Proof.
    induction m as [m IH] using lt_wf_ind. intros w s W Hs Ha Hd Hm.
    pose proof (w_ep w W s) as E. pose proof (e_fd _ E) as Hf.
    assert (Hcon : connected (fd (ep_of w s)) = true) by (rewrite <- (e_conn _ E); exact Hs).
    assert (Hwr : writing (fd (ep_of w s)) = true).
    { apply (e_stall _ E Ha Hcon). right. left. exact Hd. }
    set (k := Nat.min sl (length (offered_now sl (fd (ep_of w s))))).
    set (e := full_send w s). set (w' := wstep sl bs w e).
    assert (Hen : enabled sl bs w e = true).
    { unfold e, full_send. cbn. rewrite Hs, Hwr, Nnat.Nat2N.id. cbn.
      apply andb_true_iff. split; apply Nat.leb_le; lia. }
    assert (W' : WOk w') by (apply wstep_wok, W).
    (* what the step does to the descriptor *)
    assert (Hstep : w' = absorb sl s RLost (do_write sl bs (Some k) (fd (ep_of w s))) w).
    { unfold w', e, full_send. cbn [wstep]. unfold wr_step. rewrite Hs, Hwr, Ha. cbn [andb negb].
      rewrite Nnat.Nat2N.id. fold k. replace (Nat.min k sl) with k by (unfold k; lia). reflexivity. }
    destruct (do_write_ok_step sl bs k _ Hf Hcon) as [news [HS [_ [_ Hos]]]].
    pose proof (absorb_delta sl s RLost _ news w HS) as D. rewrite <- Hstep in D.
    destruct (do_write_progress sl bs k _ Hf Hcon Hd) as [Hwsame Hcase].
    pose proof (w_ep w' W' s) as E'.
    destruct Hcase as [Hdead | [Hne [Hd' Hc']]].
    - (* closed by this step *)
      exists 1. split; [lia|]. cbn [drain valid_from wrun_from fold_left]. fold e. fold w'.
      rewrite Hen. split; [reflexivity|].
      rewrite (e_conn _ E'), (d_fd _ _ _ _ _ _ D). exact Hdead.
    - (* bytes remain: strictly fewer *)
      assert (Hu : unsent (fd (ep_of w s)) <> []).
      { intros En. pose proof (f_bytes _ Hf) as B0. pose proof (f_bytes _ (t_ok _ _ _ HS)) as B1.
        rewrite Hwsame, B0, (t_sent _ _ _ HS), Hos, En in B1.
        assert (Hoff : offered_now sl (fd (ep_of w s)) = []).
        { unfold offered_now, coalesce. unfold unsent in En. apply app_eq_nil in En. destruct En as [E1 E2].
          destruct (Nat.ltb _ sl); cbn; [rewrite E1, E2; reflexivity | exact E1]. }
        rewrite Hoff in B1. rewrite firstn_nil, !app_nil_r in B1.
        rewrite <- (app_nil_r (sent (fd (ep_of w s)))) in B1 at 1. apply app_inv_head in B1.
        apply Hne. symmetry. exact B1. }
      pose proof (offered_nonempty sl _ Hf Hsl Hu) as Hoffne.
      assert (Hk : 0 < k).
      { unfold k. destruct (offered_now sl (fd (ep_of w s))); [congruence | cbn; lia]. }
      assert (Hlen : length (unsent (do_write sl bs (Some k) (fd (ep_of w s)))) < length (unsent (fd (ep_of w s)))).
      { pose proof (f_bytes _ Hf) as B0. pose proof (f_bytes _ (t_ok _ _ _ HS)) as B1.
        rewrite Hwsame, B0, (t_sent _ _ _ HS), Hos, <- app_assoc in B1. apply app_inv_head in B1.
        rewrite B1, app_length, firstn_length. unfold k in *. lia. }
      assert (Hfd' : fd (ep_of w' s) = do_write sl bs (Some k) (fd (ep_of w s))) by apply (d_fd _ _ _ _ _ _ D).
      destruct (IH (m - 1) ltac:(destruct m; [cbn in *; lia | lia]) w' s W') as [n [Hn [Hv Hend]]].
      + rewrite (e_conn _ E'), Hfd'. exact Hc'.
      + rewrite (d_ab _ _ _ _ _ _ D). exact Ha.
      + rewrite Hfd'. exact Hd'.
      + rewrite Hfd'. lia.
      + exists (S n). split; [lia|]. cbn [drain valid_from wrun_from fold_left]. fold e. fold w'.
        rewrite Hen. split; [exact Hv | exact Hend].
  Qed.
End Progress.

Lemma run_close_completes sl bs ha hb tr s :
  0 < sl ->
  let w := wrun sl bs ha hb tr in
  has_sock (ep_of w s) = true -> aborting (ep_of w s) = false -> disconnecting (fd (ep_of w s)) = true ->
  exists n, n <= length (unsent (fd (ep_of w s))) + 1 /\
    valid_from sl bs w (drain sl bs n s w) = true /\
    has_sock (ep_of (wrun_from sl bs w (drain sl bs n s w)) s) = false.
Proof.
  intros Hsl w Hs Ha Hd. apply (drain_closes sl bs Hsl _ w s (wrun_wok sl bs ha hb tr) Hs Ha Hd). lia.
Qed.

(** abortConnection: the delayed call, which is scheduled (connectionLost_exactly_once_partial), closes at once *)
Lemma run_abort_completes sl bs ha hb tr s :
  let w := wrun sl bs ha hb tr in
  abort_pending (ep_of w s) = true ->
  enabled sl bs w (Tick s) = true /\ has_sock (ep_of (wstep sl bs w (Tick s)) s) = false.
Proof.
  intros w Hp. split; [exact Hp|]. cbn [wstep]. unfold tick_step. rewrite Hp. rewrite ep_put_same. cbn.
  apply lost_sock. apply wrun_wok.
Qed.
