(** C15: printers used by the trace-validation run only. *)
From Coq Require Import List Arith Bool NArith String.
From TwLib Require Import Show TcpShow.
From C14 Require Import Model.
From C15 Require Import Model.
Import ListNotations.
Local Open Scope string_scope.

Definition show_side (s : side) : string := match s with SA => "A" | SB => "B" end.
Definition show_sum (d : bytes) : string := show_nat (List.length d) ++ "." ++ show_N (adler32 d).

Definition show_pev (p : pev) : string :=
  match p with
  | PData d => "d" ++ show_sum d
  | PReadLost => "R"
  | PWriteLost => "W"
  | PLost RDone => "LD"
  | PLost RLost => "LL"
  | PLost RAborted => "LA"
  | KSend o k => "k" ++ show_sum o ++ ":" ++ show_nat k
  | KSendErr o => "k" ++ show_sum o ++ ":!"
  | KShutWr => "h"
  | KClose true => "c"
  | KClose false => "z"
  end.

Definition show_head (e : event) : string :=
  match e with
  | App s (AWrite d) => show_side s ++ "w" ++ show_nat (List.length d)
  | App s (AWriteSeq ds) => show_side s ++ "q" ++ String.concat "+" (map (fun d => show_nat (List.length d)) ds)
  | App s ALose => show_side s ++ "l"
  | App s ALoseW => show_side s ++ "h"
  | App s AAbort => show_side s ++ "x"
  | App s APause => show_side s ++ "p"
  | App s AResume => show_side s ++ "u"
  | Rd s (RData n) => show_side s ++ "r" ++ show_N n
  | Rd s REof => show_side s ++ "r0"
  | Rd s RAgain => show_side s ++ "r-"
  | Rd s RErr => show_side s ++ "r!"
  | Wr s (SOk k) => show_side s ++ "s" ++ show_N k
  | Wr s SErr => show_side s ++ "s!"
  | Hup s => show_side s ++ "H"
  | Tick s => show_side s ++ "T"
  end.

Definition side_of (e : event) : side :=
  match e with App s _ | Rd s _ | Wr s _ | Hup s | Tick s => s end.

Definition new_pevs (before after : list pev) : list pev :=
  rev (firstn (List.length after - List.length before) after).

Definition show_token (sl bs : nat) (w : world) (e : event) : string * world :=
  let s := side_of e in
  let w' := wstep sl bs w e in
  let outs := new_pevs (tlog (ep_of w s)) (tlog (ep_of w' s)) in
  let f := fd (ep_of w' s) in
  ((if enabled sl bs w e then "" else "?") ++ show_head e ++ ">"
     ++ (match outs with [] => "-" | _ => String.concat "," (map show_pev outs) end)
     ++ "|" ++ (if reading f then "R" else "") ++ (if writing f then "W" else ""), w').

Fixpoint show_from (sl bs : nat) (w : world) (tr : list event) : list string * world :=
  match tr with
  | [] => ([], w)
  | e :: r =>
      let '(t, w') := show_token sl bs w e in
      let '(ts, wf) := show_from sl bs w' r in (t :: ts, wf)
  end.

(** input: SEND_LIMIT, bufferSize, halfA, halfB, the recorded schedule *)
Definition run_show (c : N * N * bool * bool * list event) : string :=
  let '(sl, bs, ha, hb, tr) := c in
  let '(ts, w) := show_from (N.to_nat sl) (N.to_nat bs) (winit ha hb) tr in
  String.concat " " ts ++ " #" ++ show_sum (delivered (ep_of w SA)) ++ ";" ++ show_sum (delivered (ep_of w SB)).
