(** C15 property theorems.  World = two tcp.Connection endpoints (C14's FileDescriptor model each) + the kernel
    socket-pair oracle (Model.v).  Every theorem holds for every SEND_LIMIT [sl], every bufferSize [bs], both kinds
    of protocol (half-closeable or not) on both sides, and every schedule [tr] of application calls, reactor
    dispatches with the kernel's results, hang-up reports and delayed calls (induction over the schedule).
    [Model.enabled] states what the kernel / reactor may do (the oracle's hypotheses); [tlog] is newest first.

    PARTIAL by nature: the kernel and the four poll back-ends are the oracle.  "exactly once" is proved as
    "at most once, nothing after it, and never forgotten" (see connectionLost_exactly_once_partial). *)
From Coq Require Import List Arith Bool NArith.
From C14 Require Import Model.
From C15 Require Import Model FdFacts Proofs Progress.
Import ListNotations.

(** byte conservation: what side s wrote (accepted by write / writeSequence) is exactly what the peer's protocol has
    been given, then what the kernel holds, then what the descriptor still buffers -- in this order, nothing lost,
    duplicated or reordered.  Hence the peer always holds a PREFIX of the written bytes (also after abortConnection,
    after a reset, after any error). *)
Theorem peer_receives_prefix_of_written : forall sl bs halfA halfB tr s,
  let w := wrun sl bs halfA halfB tr in
  written (fd (ep_of w s)) = delivered (ep_of w (other s)) ++ q_of w s ++ unsent (fd (ep_of w s)).
Proof. exact run_conservation. Qed.
Print Assumptions peer_receives_prefix_of_written.

(** whenever the kernel may report EOF to side s (the oracle allows it only when the peer's FIN is queued and nothing
    is in flight), s has been given every byte the kernel accepted from the peer; and if the peer's sending direction
    ended by a completed flush (loseConnection's close or the half-close -- [clean_end]), s holds exactly the bytes
    the peer wrote, now and after any continuation [tr2] of the schedule (no hypothesis on tr2). *)
Theorem peer_receives_exactly_written : forall sl bs halfA halfB tr1 tr2 s,
  let w1 := wrun sl bs halfA halfB tr1 in
  let w2 := wrun sl bs halfA halfB (tr1 ++ tr2) in
  enabled sl bs w1 (Rd s REof) = true ->
  delivered (ep_of w1 s) = sent (fd (ep_of w1 (other s))) /\
  (clean_end (fd (ep_of w1 (other s))) = true ->
   delivered (ep_of w2 s) = written (fd (ep_of w2 (other s)))).
Proof. exact run_eof_complete. Qed.
Print Assumptions peer_receives_exactly_written.

(** connectionLost is reported at most once per side, and after it nothing at all happens on that side: no
    dataReceived, no readConnectionLost / writeConnectionLost, no socket call ([l2 = []]) *)
Theorem no_data_after_connectionLost : forall sl bs halfA halfB tr s l1 l2 r,
  tlog (ep_of (wrun sl bs halfA halfB tr) s) = l2 ++ PLost r :: l1 ->
  l2 = [] /\ (forall r', ~ In (PLost r') l1).
Proof. exact run_lost_once. Qed.
Print Assumptions no_data_after_connectionLost.

(** FULL STATEMENT (not proved): in every schedule in which the reactor keeps dispatching registered descriptors and
    due delayed calls and the kernel eventually accepts / delivers, connectionLost is called exactly once per side.
    PROVED: at most once (above); it has been called iff the socket attribute is gone; and while the socket is
    there a requested close can not be forgotten -- with unsent bytes, a pending loseConnection or a pending
    half-close the descriptor is registered for writing, and after abortConnection the delayed call is scheduled.
    MISSING: fairness -- that the real reactor loop does dispatch a registered descriptor / a due delayed call and
    that the real kernel eventually accepts the bytes (the oracle).  The two theorems after this one show that
    nothing else is missing: under the co-operative schedule the close completes in a bounded number of steps. *)
Theorem connectionLost_exactly_once_partial : forall sl bs halfA halfB tr s,
  let p := ep_of (wrun sl bs halfA halfB tr) s in
  (has_sock p = false <-> exists r, In (PLost r) (tlog p)) /\
  (has_sock p = true ->
   (aborting p = false -> pending (fd p) -> writing (fd p) = true) /\
   (aborting p = true -> abort_pending p = true)).
Proof. exact run_once_partial. Qed.
Print Assumptions connectionLost_exactly_once_partial.

(** ... and the descriptor being registered is enough: from any reachable state with loseConnection pending, the
    schedule [drain n] in which the reactor dispatches doWrite and the kernel accepts what is offered (at most
    SEND_LIMIT per call; every one of these choices is allowed by the oracle: [valid_from]) reaches connectionLost
    within (number of unsent bytes + 1) dispatches.  [Progress.drain n s w] is that schedule: n times
    [Wr s (SOk (min SEND_LIMIT (length offered)))]. *)
Theorem loseConnection_completes_when_kernel_accepts : forall sl bs halfA halfB tr s,
  0 < sl ->
  let w := wrun sl bs halfA halfB tr in
  has_sock (ep_of w s) = true -> aborting (ep_of w s) = false -> disconnecting (fd (ep_of w s)) = true ->
  exists n, n <= length (unsent (fd (ep_of w s))) + 1 /\
    valid_from sl bs w (drain sl bs n s w) = true /\
    has_sock (ep_of (wrun_from sl bs w (drain sl bs n s w)) s) = false.
Proof. exact run_close_completes. Qed.
Print Assumptions loseConnection_completes_when_kernel_accepts.

(** after abortConnection the delayed call (scheduled: previous theorem) is allowed to run and ends the connection *)
Theorem abortConnection_completes_at_the_delayed_call : forall sl bs halfA halfB tr s,
  let w := wrun sl bs halfA halfB tr in
  abort_pending (ep_of w s) = true ->
  enabled sl bs w (Tick s) = true /\ has_sock (ep_of (wstep sl bs w (Tick s)) s) = false.
Proof. exact run_abort_completes. Qed.
Print Assumptions abortConnection_completes_at_the_delayed_call.

(** an orderly schedule (no abortConnection, no kernel error result, no hang-up report) only ever reports
    ConnectionDone *)
Theorem clean_close_reports_ConnectionDone : forall sl bs halfA halfB tr s r,
  forallb orderly_event tr = true ->
  In (PLost r) (tlog (ep_of (wrun sl bs halfA halfB tr) s)) -> r = RDone.
Proof. exact run_orderly_done. Qed.
Print Assumptions clean_close_reports_ConnectionDone.

(** and ConnectionDone is reported only for a reason: the side's own close completed its flush (everything it wrote
    was handed to the kernel), or it read EOF, or the reactor reported a hang-up while it was reading *)
Theorem ConnectionDone_only_after_flush_or_peer_close : forall sl bs halfA halfB tr s,
  let p := ep_of (wrun sl bs halfA halfB tr) s in
  In (PLost RDone) (tlog p) ->
  (clean_end (fd p) = true /\ written (fd p) = sent (fd p)) \/ got_eof p = true \/ got_hup p = true.
Proof. exact run_done_justified. Qed.
Print Assumptions ConnectionDone_only_after_flush_or_peer_close.
