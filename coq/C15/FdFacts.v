(** C15: facts about the C14 FileDescriptor model in the fragment C15 uses (no producer registered): what each
    primitive appends to the descriptor's log and what it preserves.  C14's own proofs are not imported (only its
    Model); everything needed is re-proved here. *)
From Coq Require Import List Arith Bool NArith Lia.
From C14 Require Import Model.
From C15 Require Import Model.
Import ListNotations.

(** ---- list facts ---- *)
Lemma skipn_firstn_step {A} (l : list A) o k :
  firstn k (skipn o l) ++ skipn (o + k) l = skipn o l.
Proof.
  revert l. induction o as [|o IH]; intros l; cbn [skipn plus].
  - apply firstn_skipn.
  - destruct l as [|x l]; [destruct k; reflexivity | apply IH].
Qed.

Lemma length_zero_nil {A} (l : list A) : length l = 0 -> l = [].
Proof. destruct l; cbn; [reflexivity | discriminate]. Qed.

Lemma skipn_nil_len {A} (l : list A) o : o <= length l -> skipn o l = [] -> o = length l.
Proof.
  intros Hle E. apply (f_equal (@length _)) in E. rewrite skipn_length in E. cbn in E. lia.
Qed.

Lemma fd_news_app (s s' : st) news : log s' = rev news ++ log s -> fd_news s s' = news.
Proof.
  intros E. unfold fd_news. rewrite E, app_length, Nat.add_sub.
  rewrite <- (Nat.add_0_r (length (rev news))) at 1.
  rewrite firstn_app_2. cbn. rewrite app_nil_r. apply rev_involutive.
Qed.

(** ---- the descriptor invariant (no producer) ---- *)
Definition is_elost (e : ev) : bool := match e with ELost _ _ _ _ _ => true | _ => false end.
Definition is_elost_err (e : ev) : bool := match e with ELost false _ _ _ _ => true | _ => false end.
(** the write side ended by a completed flush: loseConnection's flush (ELost true) or the half-close *)
Definition is_clean_end (e : ev) : bool :=
  match e with ELost true _ _ _ _ => true | ECloseWrite _ _ _ => true | _ => false end.
Definition clean_end (s : st) : bool := existsb is_clean_end (log s).

Record FdOk (s : st) : Prop := mkFdOk {
  f_bytes : written s = sent s ++ unsent s;
  f_tlen : tlen s = length (concat (temp s));
  f_off : off s <= length (dbuf s);
  f_wd : wdisconnected s = true -> unsent s = [];
  f_prod : producer s = None;
  f_clean : clean_end s = true -> unsent s = [] /\ (connected s = false \/ wdisconnected s = true);
  f_dead : connected s = negb (disconnected s)
}.

Lemma init_ok : FdOk init.
Proof. constructor; cbn; try reflexivity; try discriminate; try lia. Qed.

(** the shapes a primitive's new events can take *)
Definition news_shape (s' : st) (news : list ev) : Prop :=
  match news with
  | [] => True
  | [ELost _ _ _ _ _] => True
  | [EOs _ _] => True
  | [EOs _ _; ELost true _ _ _ _] => True
  | [EOs _ _; ECloseWrite _ _ _] => wdisconnected s' = true
  | [EOsErr _; ELost false _ _ _ _] => True
  | _ => False
  end.

(** work is pending on the descriptor: bytes to send, a requested close, or a requested half-close *)
Definition pending (s : st) : Prop :=
  unsent s <> [] \/ disconnecting s = true \/ (wdisconnecting s = true /\ wdisconnected s = false).
(** ... then it is registered with the reactor for writing *)
Definition NoStall (s : st) : Prop := connected s = true -> pending s -> writing s = true.

Record FdStep (s s' : st) (news : list ev) : Prop := mkFdStep {
  t_log : log s' = rev news ++ log s;
  t_ok : FdOk s';
  t_sent : sent s' = sent s ++ os_bytes news;
  t_conn : connected s' = connected s && negb (existsb is_elost news);
  t_wd : wdisconnected s = true -> wdisconnected s' = true;
  t_shape : news_shape s' news;
  t_written : exists d, written s' = written s ++ d;
  t_frozen : clean_end s = true -> written s' = written s;
  t_stall : NoStall s -> NoStall s'
}.

Lemma fdstep_news s s' news : FdStep s s' news -> fd_news s s' = news.
Proof. intros H. apply fd_news_app, (t_log _ _ _ H). Qed.

Lemma fdstep_refl s : FdOk s -> FdStep s s [].
Proof.
  intros H. constructor; cbn; auto; rewrite ?app_nil_r, ?andb_true_r; auto. exists []. rewrite app_nil_r; reflexivity.
Qed.

(** flags the reactor layer flips directly *)
Lemma ok_set_reading v s : FdOk s -> FdOk (set_reading v s).
Proof. intros []. constructor; auto. Qed.
Lemma ok_set_writing v s : FdOk s -> FdOk (set_writing v s).
Proof. intros []. constructor; auto. Qed.

Lemma maybe_pause_none bs s : producer s = None -> maybe_pause bs s = s.
Proof. intros E. unfold maybe_pause. rewrite E. reflexivity. Qed.

(** ---- connectionLost ---- *)
Lemma conn_lost_step clean s :
  FdOk s -> (clean = true -> unsent s = []) ->
  FdStep s (conn_lost clean s) [ELost clean false (wdisconnected s) (written s) (sent s)].
Proof.
  intros [Hb Ht Ho Hw Hp Hc Hd] Hcl. unfold conn_lost, is_pull. rewrite Hp. cbn. rewrite Hp.
  constructor; cbn; rewrite ?app_nil_r, ?andb_false_r; auto.
  - constructor; cbn; auto.
    unfold clean_end. cbn. intros E. apply orb_true_iff in E. destruct E as [E | E].
    + destruct clean; [|discriminate]. split; [apply Hcl; reflexivity | left; reflexivity].
    + destruct (Hc E) as [Hu _]. split; [exact Hu | left; reflexivity].
  - exists []. rewrite app_nil_r. reflexivity.
  - unfold NoStall. cbn. intros _ Hcc. discriminate.
Qed.

(** ---- write / writeSequence ---- *)
Lemma accept_ok bs ds s :
  FdOk s -> connected s = true -> wdisconnected s = false ->
  FdOk (set_writing true (maybe_pause bs
      (set_gwrote true (set_written (written s ++ concat ds)
         (set_tlen (tlen s + length (concat ds)) (set_temp (temp s ++ ds) s)))))).
Proof.
  intros [Hb Ht Ho Hw Hp Hc Hd] Hcon Hwd.
  rewrite maybe_pause_none by (cbn; exact Hp).
  unfold unsent in *.
  constructor; cbn; auto.
  - rewrite Hb, concat_app, <- !app_assoc. reflexivity.
  - rewrite concat_app, app_length. lia.
  - rewrite Hwd. discriminate.
  - intros E. destruct (Hc E) as [_ [E1 | E1]]; congruence.
Qed.

Lemma write_step bs d s : FdOk s -> FdStep s (write bs d s) [].
Proof.
  intros H. unfold write.
  destruct (connected s) eqn:Ec; cbn [negb orb]; [|apply fdstep_refl, H].
  destruct (wdisconnected s) eqn:Ew; [apply fdstep_refl, H|].
  destruct d as [|x d]; [apply fdstep_refl, H|].
  pose proof (accept_ok bs [x :: d] s H Ec Ew) as Hok. cbn [concat] in Hok. rewrite app_nil_r in Hok.
  rewrite maybe_pause_none in * by (cbn; apply (f_prod s H)).
  constructor; cbn; rewrite ?app_nil_r, ?andb_true_r; auto.
  all: try (rewrite Ew; discriminate).
  all: try (eexists; reflexivity).
  all: try (intros Ecl; destruct (f_clean s H Ecl) as [_ [E1 | E1]]; congruence).
  all: try (unfold NoStall; cbn; intros; reflexivity).
Qed.

Lemma write_seq_step bs ds s : FdOk s -> FdStep s (write_seq bs ds s) [].
Proof.
  intros H. unfold write_seq.
  destruct (connected s) eqn:Ec; cbn [negb orb]; [|apply fdstep_refl, H].
  destruct (wdisconnected s) eqn:Ew; [apply fdstep_refl, H|].
  destruct ds as [|x ds]; [apply fdstep_refl, H|].
  pose proof (accept_ok bs (x :: ds) s H Ec Ew) as Hok.
  rewrite maybe_pause_none in * by (cbn; apply (f_prod s H)).
  constructor; cbn; rewrite ?app_nil_r, ?andb_true_r; auto.
  all: try (rewrite Ew; discriminate).
  all: try (eexists; reflexivity).
  all: try (intros Ecl; destruct (f_clean s H Ecl) as [_ [E1 | E1]]; congruence).
  all: try (unfold NoStall; cbn; intros; reflexivity).
Qed.

(** a write on a dead or write-closed descriptor changes nothing *)
Lemma write_frozen bs d s : connected s = false \/ wdisconnected s = true -> write bs d s = s.
Proof. intros [E | E]; unfold write; rewrite E; cbn; rewrite ?orb_true_r; reflexivity. Qed.
Lemma write_seq_frozen bs ds s : connected s = false \/ wdisconnected s = true -> write_seq bs ds s = s.
Proof. intros [E | E]; unfold write_seq; rewrite E; cbn; rewrite ?orb_true_r; reflexivity. Qed.

(** ---- loseConnection / loseWriteConnection ---- *)
Lemma lose_step s :
  FdOk s -> exists news, FdStep s (lose s) news /\ (connected s = false -> news = []) /\
                         existsb is_elost_err news = false /\ os_bytes news = [].
Proof.
  intros H. unfold lose.
  destruct (connected s) eqn:Ec; cbn [andb].
  2:{ exists []. split; [apply fdstep_refl, H | auto]. }
  destruct (disconnecting s) eqn:Ed; cbn [negb].
  { exists []. split; [apply fdstep_refl, H | split; [discriminate | auto]]. }
  destruct (wdisconnected s) eqn:Ew.
  - set (s0 := set_writing false (set_reading false s)).
    assert (H0 : FdOk s0) by (apply ok_set_writing, ok_set_reading, H).
    pose proof (conn_lost_step true s0 H0) as Hs.
    exists [ELost true false (wdisconnected s0) (written s0) (sent s0)].
    split; [|split; [discriminate | auto]].
    assert (Hu : unsent s0 = []) by (apply (f_wd s H Ew)).
    specialize (Hs (fun _ => Hu)). destruct Hs as [A1 A2 A3 A4 A5 A6 A7 A8 A9].
    constructor; auto.
    unfold NoStall. rewrite A4. cbn. intros _ Hcc. rewrite andb_false_r in Hcc. discriminate.
  - exists []. split; [|split; [discriminate | auto]].
    destruct H as [Hb Ht Ho Hw Hp Hc Hd].
    constructor; cbn; rewrite ?app_nil_r, ?andb_true_r; auto.
    all: try (constructor; cbn; auto; fail).
    all: try (rewrite Ew; discriminate).
    all: try (exists []; rewrite app_nil_r; reflexivity).
    all: try (unfold NoStall; cbn; intros; reflexivity).
Qed.

Lemma losew_step s : FdOk s -> FdStep s (losew s) [].
Proof.
  intros [Hb Ht Ho Hw Hp Hc Hd]. unfold losew.
  constructor; cbn; rewrite ?app_nil_r, ?andb_true_r; auto.
  all: try (constructor; cbn; auto; fail).
  all: try (exists []; rewrite app_nil_r; reflexivity).
  all: try (unfold NoStall; cbn; intros; reflexivity).
Qed.

(** ---- doWrite ---- *)
Lemma coalesce_ok sl s : FdOk s -> FdOk (coalesce sl s) /\ unsent (coalesce sl s) = unsent s
  /\ log (coalesce sl s) = log s /\ sent (coalesce sl s) = sent s /\ written (coalesce sl s) = written s
  /\ connected (coalesce sl s) = connected s /\ wdisconnected (coalesce sl s) = wdisconnected s
  /\ disconnecting (coalesce sl s) = disconnecting s /\ wdisconnecting (coalesce sl s) = wdisconnecting s
  /\ writing (coalesce sl s) = writing s.
Proof.
  intros H. unfold coalesce. destruct (Nat.ltb _ sl).
  2:{ split; [exact H|]. repeat (split; [reflexivity|]). reflexivity. }
  destruct H as [Hb Ht Ho Hw Hp Hc Hd]. unfold unsent in *.
  split.
  - constructor; cbn; rewrite ?app_nil_r; auto; lia.
  - cbn. rewrite ?app_nil_r. repeat (split; [reflexivity|]). reflexivity.
Qed.

Lemma do_write_ok_step sl bs k s :
  FdOk s -> connected s = true ->
  exists news, FdStep s (do_write sl bs (Some k) s) news /\ existsb is_elost_err news = false /\
               (unsent s = [] -> os_bytes news = []) /\
               os_bytes news = firstn k (offered_now sl s).
Proof.
  intros H0 Hcon. unfold do_write, offered_now.
  destruct (coalesce_ok sl s H0) as [H [Eu [El [Es [Ewr [Ec [Ewd [Edc [Ewdc Ewrt]]]]]]]]].
  set (s1 := coalesce sl s) in *. clearbody s1.
  cbv zeta. unfold os_accept.
  set (offered := skipn (off s1) (dbuf s1)). set (l := Nat.min k (length offered)).
  destruct H as [Hb Ht Ho Hw Hp Hc Hd].
  assert (Hl_le : l <= length (dbuf s1) - off s1) by (unfold l, offered; rewrite skipn_length; lia).
  assert (Hsplit : unsent s1 = firstn l offered ++ skipn (off s1 + l) (dbuf s1) ++ concat (temp s1)).
  { unfold unsent, offered. rewrite app_assoc, skipn_firstn_step. reflexivity. }
  assert (Hfk : firstn l offered = firstn k offered).
  { unfold l. destruct (Nat.le_ge_cases k (length offered)) as [Hle | Hge].
    - rewrite Nat.min_l by exact Hle. reflexivity.
    - rewrite Nat.min_r by exact Hge. rewrite !firstn_all2; auto. }
  set (s2 := emit (EOs offered l) (set_sent (sent s1 ++ firstn l offered) (set_off (off s1 + l) s1))).
  assert (Hempty : unsent s = [] -> firstn l offered = []).
  { intros E. rewrite <- Eu, Hsplit in E. apply app_eq_nil in E. apply E. }
  assert (Hside : forall news, os_bytes news = firstn l offered ->
            existsb is_elost_err news = false ->
            existsb is_elost_err news = false /\ (unsent s = [] -> os_bytes news = []) /\
            os_bytes news = firstn k offered).
  { intros news E1 E2. rewrite E1. auto. }
  Ltac fdstep_fields El Es Ewd Ewr :=
    constructor; cbn; rewrite ?app_nil_r, ?andb_false_r, ?andb_true_r; auto; try congruence;
    try (rewrite El; reflexivity); try (rewrite Es; reflexivity); try (rewrite Ewd; auto; fail);
    try (exists []; rewrite app_nil_r; exact Ewr).
  destruct (Nat.eqb (off s2) (length (dbuf s2)) && Nat.eqb (tlen s2) 0) eqn:Edr.
  - (* drained *)
    apply andb_true_iff in Edr. destruct Edr as [E1 E2].
    apply Nat.eqb_eq in E1. apply Nat.eqb_eq in E2. cbn in E1, E2.
    assert (Hct : concat (temp s1) = []) by (apply length_zero_nil; lia).
    unfold after_drain. cbn. rewrite ?Hp. unfold finish. cbn.
    assert (Hsent : written s1 = sent s1 ++ firstn l offered).
    { rewrite Hb, Hsplit, E1, skipn_all, Hct, !app_nil_r. reflexivity. }
    destruct (disconnecting s1) eqn:Ed.
    + (* loseConnection's flush completes: connectionLost(ConnectionDone) *)
      unfold conn_lost, is_pull. cbn. rewrite ?Hp. cbn. rewrite ?Hp.
      eexists [EOs offered l; ELost true false _ _ _].
      split; [|apply Hside; [cbn; rewrite app_nil_r; reflexivity | reflexivity]].
      fdstep_fields El Es Ewd Ewr.
      2:{ unfold NoStall. cbn. intros _ Hcc. discriminate. }
      constructor; unfold unsent, clean_end in *; cbn; rewrite ?Hct, ?app_nil_r; auto; try lia.
    + destruct (wdisconnecting s1) eqn:Ewdg.
      * (* the half-close: _closeWriteConnection *)
        unfold is_pull. cbn. rewrite ?Hp. cbn.
        eexists [EOs offered l; ECloseWrite false _ _].
        split; [|apply Hside; [cbn; rewrite app_nil_r; reflexivity | reflexivity]].
        fdstep_fields El Es Ewd Ewr.
        2:{ unfold NoStall, pending, unsent. cbn. rewrite Hct, Ed. intros _ _ [Hx | [Hx | [_ Hx]]];
            [contradiction | discriminate | discriminate]. }
        constructor; unfold unsent, clean_end in *; cbn; rewrite ?Hct, ?app_nil_r; auto; try lia.
      * exists [EOs offered l].
        split; [|apply Hside; [cbn; rewrite app_nil_r; reflexivity | reflexivity]].
        fdstep_fields El Es Ewd Ewr.
        2:{ unfold NoStall, pending, unsent. cbn. rewrite Hct, Ed, Ewdg. intros _ _ [Hx | [Hx | [Hx _]]];
            [contradiction | discriminate | discriminate]. }
        constructor; unfold unsent, clean_end in *; cbn; rewrite ?Hct, ?app_nil_r; auto; try lia.
        intros E. destruct (Hc E) as [_ Hor]. split; [reflexivity | exact Hor].
  - (* something is left *)
    exists [EOs offered l].
    split; [|apply Hside; [cbn; rewrite app_nil_r; reflexivity | reflexivity]].
    fdstep_fields El Es Ewd Ewr.
    2:{ unfold NoStall. cbn. rewrite Ewrt. intros Hns _ _. apply Hns; [exact Hcon|]. left.
        rewrite <- Eu, Hsplit. intros En. apply app_eq_nil in En. destruct En as [_ En].
        apply app_eq_nil in En. destruct En as [En1 En2].
        apply andb_false_iff in Edr. cbn in Edr. destruct Edr as [Edr | Edr]; apply Nat.eqb_neq in Edr; apply Edr.
        - apply skipn_nil_len in En1; [exact En1 | lia].
        - rewrite Ht, En2. reflexivity. }
    unfold unsent, clean_end in *. constructor; cbn; auto; try lia.
    + rewrite Hb, Hsplit, <- !app_assoc. reflexivity.
    + intros E. specialize (Hw E). rewrite Hsplit in Hw. apply app_eq_nil in Hw. apply Hw.
    + intros E. destruct (Hc E) as [Hu Hor].
      rewrite Hsplit in Hu. apply app_eq_nil in Hu. split; [apply Hu | exact Hor].
Qed.

Lemma do_write_err_step sl bs s :
  FdOk s -> exists o, FdStep s (do_write sl bs None s)
                        [EOsErr o; ELost false false (wdisconnected s) (written s) (sent s)].
Proof.
  intros H0. unfold do_write.
  destruct (coalesce_ok sl s H0) as [H [Eu [El [Es [Ewr [Ec [Ewd [Edc [Ewdc Ewrt]]]]]]]]].
  set (s1 := coalesce sl s) in *. clearbody s1.
  exists (skipn (off s1) (dbuf s1)).
  destruct H as [Hb Ht Ho Hw Hp Hc Hd].
  unfold conn_lost, is_pull. cbn. rewrite ?Hp. cbn. rewrite ?Hp.
  rewrite ?Ewd, ?Ewr, ?Es.
  constructor; cbn; rewrite ?app_nil_r, ?andb_false_r, ?andb_true_r, ?El, ?Es, ?Ewd; auto; try congruence.
  all: try (exists []; rewrite app_nil_r; exact Ewr).
  all: try (unfold NoStall; cbn; intros _ Hcc; discriminate).
  constructor; unfold unsent, clean_end in *; cbn; auto.
  intros E. destruct (Hc E) as [Hu _]. split; [exact Hu | left; reflexivity].
Qed.
