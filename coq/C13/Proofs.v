(** C13: invariants of the callFromThread LTS over every trace (every interleaving, any number of threads/calls). *)
From Coq Require Import List Arith Bool Lia.
From C13 Require Import Model.
Import ListNotations.

(** ---- list facts ---- *)
Lemma nth_error_upd_same {A} (l : list A) i x y : nth_error l i = Some y -> nth_error (upd l i x) i = Some x.
Proof.
  revert i. induction l as [|a l IH]; intros [|i] H; cbn in *; try discriminate; auto.
Qed.

Lemma nth_error_upd_other {A} (l : list A) i j x : i <> j -> nth_error (upd l i x) j = nth_error l j.
Proof.
  revert i j. induction l as [|a l IH]; intros [|i] [|j] H; cbn; auto; try congruence.
Qed.

Lemma firstn_S_nth {A} (l : list A) n c : nth_error l n = Some c -> firstn (S n) l = firstn n l ++ [c].
Proof.
  revert n. induction l as [|a l IH]; intros [|n] H; cbn in *; try discriminate.
  - inversion H. reflexivity.
  - f_equal. apply IH, H.
Qed.

Lemma firstn_app_le {A} (l r : list A) n : n <= length l -> firstn n (l ++ r) = firstn n l.
Proof.
  intros H. rewrite firstn_app. replace (n - length l) with 0 by lia. cbn. apply app_nil_r.
Qed.

Lemma NoDup_by_filter (l : list call) :
  (forall t, NoDup (by_thread t l)) -> NoDup l.
Proof.
  induction l as [|c r IH]; intros H; [constructor|].
  constructor.
  - intros Hin. specialize (H (fst c)). unfold by_thread in H. cbn in H. rewrite Nat.eqb_refl in H.
    inversion H as [|? ? Hn _]; subst. apply Hn. apply filter_In. split; [exact Hin | apply Nat.eqb_refl].
  - apply IH. intros t. specialize (H t). unfold by_thread in *. cbn in H.
    destruct (Nat.eqb (fst c) t); [inversion H; assumption | assumption].
Qed.

Lemma NoDup_app_l {A} (l r : list A) : NoDup (l ++ r) -> NoDup l.
Proof.
  induction l as [|x l IH]; cbn; intros H; [constructor|].
  inversion H as [|? ? Hn Hd]; subst. constructor; [|apply IH, Hd].
  intros Hin. apply Hn, in_or_app. left. exact Hin.
Qed.

Lemma NoDup_map_pair (t : nat) (l : list nat) : NoDup l -> NoDup (map (pair t) l).
Proof.
  induction 1 as [|x l Hx Hl IH]; cbn; constructor; [|exact IH].
  intros Hin. apply in_map_iff in Hin. destruct Hin as [y [E Hy]]. inversion E; subst. contradiction.
Qed.

Lemma firstn_seq_le k : forall start n, k <= n -> firstn k (seq start n) = seq start k.
Proof.
  induction k as [|k IH]; intros start n H; [reflexivity|].
  destruct n as [|n]; [lia|]. cbn. f_equal. apply IH. lia.
Qed.

Lemma prefix_of_map_seq {A} (f : nat -> A) l1 l2 n :
  l1 ++ l2 = map f (seq 0 n) -> l1 = map f (seq 0 (length l1)) /\ length l1 <= n.
Proof.
  intros H.
  assert (Hlen : length l1 <= n).
  { apply (f_equal (@length _)) in H. rewrite app_length, map_length, seq_length in H. lia. }
  split; [|exact Hlen].
  assert (E : l1 = firstn (length l1) (l1 ++ l2)).
  { rewrite firstn_app_le by lia. rewrite firstn_all. reflexivity. }
  rewrite E at 1. rewrite H, firstn_map, firstn_seq_le by lia. reflexivity.
Qed.

(** ---- the invariant ---- *)
Record Inv (s : st) : Prop := mkInv {
  j_app : appended s = deleted s ++ queue s;
  j_exe : executed s = deleted s ++ firstn (cnt (pc s)) (queue s);
  j_pc : match pc s with
         | RRun total count => count < total /\ total <= length (queue s)
         | RDel c => c <= length (queue s)
         | RLen => queue s <> []
         | _ => True
         end;
  j_thr : forall t, by_thread t (appended s) = map (pair t) (seq 0 (next_of s t));
  j_nlw : committed_to_sleep (pc s) = true -> waker s = false ->
          forall c, In c (queue s) -> in_flight s (fst c) = true
}.

Lemma cnt_le s : Inv s -> cnt (pc s) <= length (queue s).
Proof. intros [_ _ H _ _]. destruct (pc s); cbn in *; lia. Qed.

Lemma init_inv wants : Inv (init wants).
Proof.
  constructor; cbn; auto; try (intros _ _ c []).
  intros t. unfold next_of. cbn. rewrite nth_error_map. destruct (nth_error wants t); reflexivity.
Qed.

Lemma prod_step_inv t s : Inv s -> Inv (prod_step t s).
Proof.
  intros HI. pose proof (cnt_le s HI) as Hcnt. destruct HI as [Ha He Hp Ht Hn]. unfold prod_step.
  unfold by_thread in Ht.
  destruct (nth_error (prods s) t) as [p|] eqn:Ep; [|constructor; assumption].
  destruct (inflight p) eqn:Ei.
  - (* wake *)
    constructor; cbn; auto; [|discriminate].
    intros t'. unfold by_thread. rewrite Ht. unfold next_of. cbn.
    destruct (Nat.eq_dec t t') as [<-|Hne].
    + rewrite (nth_error_upd_same _ _ _ _ Ep), Ep. reflexivity.
    + rewrite nth_error_upd_other by assumption. reflexivity.
  - destruct (left p) as [|k] eqn:El; [constructor; assumption|].
    (* append *)
    constructor; cbn.
    + rewrite Ha, app_assoc. reflexivity.
    + rewrite firstn_app_le by exact Hcnt. exact He.
    + destruct (pc s); auto; rewrite ?app_length; cbn; try lia.
      intros E. apply app_eq_nil in E. destruct E; discriminate.
    + intros t'. unfold by_thread. rewrite filter_app, Ht. cbn. unfold next_of. cbn.
      destruct (Nat.eq_dec t t') as [<-|Hne].
      * rewrite Nat.eqb_refl, (nth_error_upd_same _ _ _ _ Ep), Ep. cbn [next].
        rewrite seq_S, map_app. reflexivity.
      * rewrite nth_error_upd_other by assumption.
        destruct (Nat.eqb_spec t t'); [contradiction|]. rewrite app_nil_r. reflexivity.
    + intros Hc Hw c Hin. unfold in_flight. cbn.
      destruct (Nat.eq_dec t (fst c)) as [E|Hne].
      * rewrite <- E, (nth_error_upd_same _ _ _ _ Ep). reflexivity.
      * rewrite nth_error_upd_other by assumption.
        apply in_app_or in Hin. destruct Hin as [Hin | [<- | []]]; [|cbn in Hne; congruence].
        apply (Hn Hc Hw c Hin).
Qed.

Lemma reactor_step_inv s : Inv s -> Inv (reactor_step s).
Proof.
  intros HI. destruct HI as [Ha He Hp Ht Hn]. unfold reactor_step.
  destruct (pc s) as [| |total count|count| | | |] eqn:Epc; cbn [cnt] in *.
  - (* RTop *)
    destruct (queue s) as [|c q] eqn:Eq; constructor; cbn; rewrite ?Eq; auto; try discriminate.
    all: try (intros _ _ c' []).
  - (* RLen *)
    constructor; cbn; auto. split; [|lia]. destruct (queue s); [congruence | cbn; lia].
  - (* RRun *)
    destruct Hp as [Hlt Hle].
    destruct (nth_error (queue s) count) as [c|] eqn:En.
    + destruct (Nat.eqb_spec (S count) total) as [E|E].
      * constructor; cbn [queue waker pc prods appended executed deleted cnt committed_to_sleep];
          auto; try discriminate; try lia.
        rewrite (firstn_S_nth _ _ _ En), app_assoc, <- He. reflexivity.
      * constructor; cbn [queue waker pc prods appended executed deleted cnt committed_to_sleep];
          auto; try discriminate; try lia.
        rewrite (firstn_S_nth _ _ _ En), app_assoc, <- He. reflexivity.
    + constructor; rewrite ?Epc; cbn; auto.
  - (* RDel *)
    constructor; cbn; auto.
    + rewrite <- app_assoc, firstn_skipn. exact Ha.
    + rewrite app_nil_r. exact He.
    + discriminate.
  - (* RCheck *)
    destruct (queue s) as [|c q] eqn:Eq; constructor; cbn; rewrite ?Eq; auto; try discriminate.
    all: try (intros _ _ c' []).
  - (* RSleepPrep *)
    constructor; cbn; auto.
  - (* RSelect *)
    destruct (waker s) eqn:Ew.
    + constructor; cbn; auto. discriminate.
    + constructor; rewrite ?Epc; cbn; auto.
  - (* RDrain *)
    constructor; cbn; auto. discriminate.
Qed.

Lemma step_inv s l : Inv s -> Inv (step s l).
Proof.
  intros HI. destruct l; cbn [step].
  - apply prod_step_inv, HI.
  - apply reactor_step_inv, HI.
  - destruct (pc s) eqn:Epc; try exact HI.
    destruct HI as [Ha He Hp Ht Hn]. rewrite Epc in *. constructor; cbn; auto. discriminate.
Qed.

Lemma run_inv wants tr : Inv (run wants tr).
Proof.
  unfold run. generalize (init_inv wants). generalize (init wants).
  induction tr as [|l r IH]; intros s H; cbn; [exact H|]. apply IH, step_inv, H.
Qed.

(** ---- the property statements ---- *)
Lemma reach_once wants tr :
  let s := run wants tr in
  NoDup (executed s) /\ exists rest, appended s = executed s ++ rest.
Proof.
  cbv zeta. pose proof (run_inv wants tr) as HI. set (s := run wants tr) in *.
  assert (Hpre : appended s = executed s ++ skipn (cnt (pc s)) (queue s)).
  { rewrite (j_app s HI), (j_exe s HI), <- app_assoc, firstn_skipn. reflexivity. }
  split; [|eexists; exact Hpre].
  assert (Hnd : NoDup (appended s)).
  { apply NoDup_by_filter. intros t. rewrite (j_thr s HI). apply NoDup_map_pair, seq_NoDup. }
  rewrite Hpre in Hnd. apply NoDup_app_l in Hnd. exact Hnd.
Qed.

Lemma reach_fifo wants tr t :
  let s := run wants tr in
  exists k, k <= next_of s t /\ by_thread t (executed s) = map (pair t) (seq 0 k).
Proof.
  cbv zeta. pose proof (run_inv wants tr) as HI. destruct (reach_once wants tr) as [_ [rest Hpre]].
  set (s := run wants tr) in *.
  pose proof (j_thr s HI t) as Ht. rewrite Hpre in Ht. unfold by_thread in Ht. rewrite filter_app in Ht.
  apply prefix_of_map_seq in Ht. destruct Ht as [E Hle].
  exists (length (by_thread t (executed s))). split; [exact Hle | exact E].
Qed.

Lemma reach_nlw wants tr :
  let s := run wants tr in
  committed_to_sleep (pc s) = true -> waker s = false ->
  forall c, In c (queue s) -> in_flight s (fst c) = true.
Proof. cbv zeta. exact (j_nlw _ (run_inv wants tr)). Qed.

(** ---- progress of the reactor on its own (no producer step, no spurious poll return) ---- *)
Fixpoint rsteps (n : nat) (s : st) : st :=
  match n with 0 => s | S k => rsteps k (reactor_step s) end.

Lemma skipn_nth {A} (l : list A) n c : nth_error l n = Some c -> skipn n l = c :: skipn (S n) l.
Proof.
  revert n. induction l as [|a l IH]; intros [|n] H; cbn in *; try discriminate.
  - inversion H. reflexivity.
  - apply IH, H.
Qed.

Lemma nth_error_lt {A} (l : list A) n : n < length l -> exists c, nth_error l n = Some c.
Proof.
  intros H. destruct (nth_error l n) eqn:E; [eauto|]. apply nth_error_None in E. lia.
Qed.

Lemma batch r : forall s total count,
  pc s = RRun total count -> total = count + S r -> total <= length (queue s) ->
  executed (rsteps (S r) s) = executed s ++ firstn (S r) (skipn count (queue s)).
Proof.
  induction r as [|r IH]; intros s total count Hpc Ht Hle.
  - cbn [rsteps]. unfold reactor_step. rewrite Hpc.
    destruct (nth_error_lt (queue s) count) as [c Hc]; [lia|]. rewrite Hc. cbn [executed].
    rewrite (skipn_nth _ _ _ Hc). reflexivity.
  - cbn [rsteps].
    destruct (nth_error_lt (queue s) count) as [c Hc]; [lia|].
    assert (Hs : reactor_step s =
                 mk (queue s) (waker s) (RRun total (S count)) (prods s) (appended s) (executed s ++ [c]) (deleted s)).
    { unfold reactor_step. rewrite Hpc, Hc. destruct (Nat.eqb_spec (S count) total); [lia | reflexivity]. }
    rewrite Hs. change (rsteps r (reactor_step ?x)) with (rsteps (S r) x).
    rewrite (IH _ total (S count)); cbn [pc queue executed]; try reflexivity; try lia.
    rewrite (skipn_nth _ _ _ Hc). cbn [firstn]. rewrite <- app_assoc. reflexivity.
Qed.

Lemma idle_progress wants tr :
  let s := run wants tr in
  pc s = RSelect ->
  forall c, In c (queue s) -> in_flight s (fst c) = false ->
  In c (executed (rsteps (4 + length (queue s)) s)).
Proof.
  cbv zeta. intros Hpc c Hin Hfl. pose proof (run_inv wants tr) as HI. set (s := run wants tr) in *.
  assert (Hw : waker s = true).
  { destruct (waker s) eqn:Ew; [reflexivity|].
    rewrite (j_nlw s HI) in Hfl; [discriminate | rewrite Hpc; reflexivity | exact Ew | exact Hin]. }
  destruct (queue s) as [|c0 q] eqn:Eq; [destruct Hin|].
  assert (H1 : reactor_step s = set_pc RDrain s).
  { unfold reactor_step. rewrite Hpc, Hw. reflexivity. }
  set (s2 := mk (queue s) false RTop (prods s) (appended s) (executed s) (deleted s)).
  assert (H2 : reactor_step (set_pc RDrain s) = s2) by reflexivity.
  assert (H3 : reactor_step s2 = set_pc RLen s2).
  { unfold reactor_step, s2. cbn. rewrite Eq. reflexivity. }
  assert (H4 : reactor_step (set_pc RLen s2) = set_pc (RRun (length (queue s)) 0) s2) by reflexivity.
  cbn [plus rsteps]. rewrite H1, H2, H3, H4.
  change (rsteps (length (c0 :: q)) ?x) with (rsteps (S (length q)) x).
  erewrite batch; [| cbn [pc set_pc]; reflexivity | rewrite Eq; cbn; reflexivity | unfold s2; cbn; rewrite Eq; cbn; lia].
  unfold s2. cbn [executed set_pc queue skipn]. apply in_or_app. right. rewrite Eq.
  change (S (length q)) with (length (c0 :: q)). rewrite firstn_all. exact Hin.
Qed.

(** ---- examples ---- *)
Example ex_sleeping_with_settled_call :
  let s := run [1] [Reactor; Prod 0; Reactor; Prod 0] in
  pc s = RSelect /\ In (0, 0) (queue s) /\ in_flight s 0 = false /\ waker s = true.
Proof. vm_compute. auto. Qed.

Example ex_append_during_batch_is_rewoken :
  let s := run [3] [Prod 0; Prod 0; Reactor; Reactor; Prod 0; Reactor; Prod 0; Reactor; Reactor; Reactor] in
  committed_to_sleep (pc s) = true /\ queue s = [(0, 1)] /\ executed s = [(0, 0)] /\ waker s = true.
Proof. vm_compute. auto. Qed.
