(** C13: callFromThread / threadCallQueue draining (src/twisted/internet/base.py) as an interleaving
    labelled transition system.

    Producer thread t runs   [threadCallQueue.append(call); wakeUp()]   for each of its calls: two atomic
    steps, [append] and [wake] (the call is "in flight" between them).
    The reactor thread runs runUntilCurrent's queue part and then sleeps in the poll call:
      RTop      if self.threadCallQueue:                      (else go and sleep)
      RLen      total = len(self.threadCallQueue); count = 0
      RRun      run queue[count]; count += 1; if count == total: break
      RDel      del self.threadCallQueue[:count]
      RCheck    if self.threadCallQueue: self.wakeUp()
      RSleepPrep  (timed calls, timeout computation -- nothing that reads the queue)
      RSelect   blocked in the poll call until the waker is readable (or a spurious return)
      RDrain    the waker's doRead empties the pipe
    Hypotheses (not provable here): list.append / len / del-slice / iteration steps are atomic (GIL); a byte
    written to the waker pipe makes the poll call return, and doRead consumes all pending bytes.

    A call is (thread, sequence number).  Ghost: [appended] (global append order), [executed], [deleted]. *)
From Coq Require Import List Arith Bool.
Import ListNotations.

Definition call := (nat * nat)%type.

Inductive rpc :=
| RTop | RLen | RRun (total count : nat) | RDel (count : nat) | RCheck | RSleepPrep | RSelect | RDrain.

(** a producer: sequence number of its next call, calls it still wants to make, in flight (appended, not yet woken) *)
Record pst := mkp { next : nat; left : nat; inflight : bool }.

Record st := mk {
  queue : list call;
  waker : bool;
  pc : rpc;
  prods : list pst;
  appended : list call;
  executed : list call;
  deleted : list call
}.

Inductive label :=
| Prod (t : nat)        (* producer t takes its next atomic step *)
| Reactor               (* the reactor thread takes its next atomic step (blocked in RSelect unless waker) *)
| Spurious.             (* the poll call returns for an unrelated reason (timeout, other I/O) *)

Fixpoint upd {A} (l : list A) (i : nat) (x : A) : list A :=
  match l, i with
  | [], _ => []
  | _ :: r, 0 => x :: r
  | y :: r, S j => y :: upd r j x
  end.

Definition set_pc (p : rpc) (s : st) : st :=
  mk (queue s) (waker s) p (prods s) (appended s) (executed s) (deleted s).

Definition prod_step (t : nat) (s : st) : st :=
  match nth_error (prods s) t with
  | None => s
  | Some p =>
      if inflight p then
        (* wakeUp() *)
        mk (queue s) true (pc s) (upd (prods s) t (mkp (next p) (left p) false))
           (appended s) (executed s) (deleted s)
      else
        match left p with
        | 0 => s
        | S k =>
            (* threadCallQueue.append((f, args, kwargs)) *)
            mk (queue s ++ [(t, next p)]) (waker s) (pc s) (upd (prods s) t (mkp (S (next p)) k true))
               (appended s ++ [(t, next p)]) (executed s) (deleted s)
        end
  end.

Definition reactor_step (s : st) : st :=
  match pc s with
  | RTop => match queue s with [] => set_pc RSleepPrep s | _ => set_pc RLen s end
  | RLen => set_pc (RRun (length (queue s)) 0) s   (* the queue only grows between the test and len(): total > 0 *)
  | RRun total count =>
      match nth_error (queue s) count with
      | None => s                                   (* unreachable: count < total <= len(queue) *)
      | Some c =>
          mk (queue s) (waker s) (if Nat.eqb (S count) total then RDel (S count) else RRun total (S count))
             (prods s) (appended s) (executed s ++ [c]) (deleted s)
      end
  | RDel count =>
      mk (skipn count (queue s)) (waker s) RCheck (prods s) (appended s) (executed s)
         (deleted s ++ firstn count (queue s))
  | RCheck =>
      match queue s with
      | [] => set_pc RSleepPrep s
      | _ => mk (queue s) true RSleepPrep (prods s) (appended s) (executed s) (deleted s)
      end
  | RSleepPrep => set_pc RSelect s
  | RSelect => if waker s then set_pc RDrain s else s
  | RDrain => mk (queue s) false RTop (prods s) (appended s) (executed s) (deleted s)
  end.

Definition step (s : st) (l : label) : st :=
  match l with
  | Prod t => prod_step t s
  | Reactor => reactor_step s
  | Spurious => match pc s with RSelect => set_pc RTop s | _ => s end
  end.

(** initial state: empty queue, reactor about to run runUntilCurrent, producer t wants [nth t wants] calls *)
Definition init (wants : list nat) : st :=
  mk [] false RTop (map (fun k => mkp 0 k false) wants) [] [] [].

Definition run (wants : list nat) (tr : list label) : st := fold_left step tr (init wants).

(** number of calls of the current batch already run but not yet deleted from the queue *)
Definition cnt (p : rpc) : nat := match p with RRun _ c => c | RDel c => c | _ => 0 end.
Definition committed_to_sleep (p : rpc) : bool := match p with RSleepPrep | RSelect => true | _ => false end.
Definition in_flight (s : st) (t : nat) : bool :=
  match nth_error (prods s) t with Some p => inflight p | None => false end.
Definition next_of (s : st) (t : nat) : nat :=
  match nth_error (prods s) t with Some p => next p | None => 0 end.
Definition by_thread (t : nat) (l : list call) : list call := filter (fun c => Nat.eqb (fst c) t) l.
