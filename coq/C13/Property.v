(** C13 property theorems (partial: about the interleaving LTS of Model.v; GIL atomicity of the list
    operations and the waker-pipe semantics are hypotheses built into the LTS).  For every number of producer
    threads, every number of calls per thread ([wants]) and every trace (interleaving) [tr]. *)
From Coq Require Import List Arith Bool.
From C13 Require Import Model Proofs.
Import ListNotations.

(** no call is executed twice, and the executed sequence is a prefix of the global append order
    (the queue is only appended at the tail and deleted at the head) *)
Theorem each_call_once_partial : forall wants tr,
  let s := run wants tr in
  NoDup (executed s) /\ exists rest, appended s = executed s ++ rest.
Proof. exact reach_once. Qed.
Print Assumptions each_call_once_partial.

(** the calls of thread t that have been executed are exactly its first k calls, in the order issued *)
Theorem per_thread_fifo_partial : forall wants tr t,
  let s := run wants tr in
  exists k, k <= next_of s t /\ by_thread t (executed s) = map (pair t) (seq 0 k).
Proof. exact reach_fifo. Qed.
Print Assumptions per_thread_fifo_partial.

(** no lost wake-up: whenever the reactor is going to sleep or asleep and the waker is not pending, every queued
    call is still in flight (its producer has appended it but not yet called wakeUp, so the wake-up is to come) *)
Theorem no_lost_wakeup_partial : forall wants tr,
  let s := run wants tr in
  committed_to_sleep (pc s) = true -> waker s = false ->
  forall c, In c (queue s) -> in_flight s (fst c) = true.
Proof. exact reach_nlw. Qed.
Print Assumptions no_lost_wakeup_partial.

(** hence a call whose callFromThread has returned while the reactor sleeps is run by the reactor on its own,
    within 4 + len(queue) reactor steps, without any other event (no spurious poll return, no other thread) *)
Theorem idle_call_runs_without_other_event_partial : forall wants tr,
  let s := run wants tr in
  pc s = RSelect ->
  forall c, In c (queue s) -> in_flight s (fst c) = false ->
  In c (executed (rsteps (4 + length (queue s)) s)).
Proof. exact idle_progress. Qed.
Print Assumptions idle_call_runs_without_other_event_partial.
