(** C13: printers used by the trace validation only. *)
From Coq Require Import List Arith Bool String.
From TwLib Require Import Show.
From C13 Require Import Model.
Import ListNotations.
Local Open Scope string_scope.

Definition show_call (c : call) : string := show_nat (fst c) ++ "." ++ show_nat (snd c).

(** the observation of one step: what the instrumented operation saw / did *)
Definition show_step (s : st) (l : label) : string :=
  (match l with
   | Prod t =>
       match nth_error (prods s) t with
       | None => "-"
       | Some p => if inflight p then "w" ++ show_nat t
                   else match left p with 0 => "-" | S _ => "a" ++ show_call (t, next p) end
       end
   | Reactor =>
       match pc s with
       | RTop => "T" ++ show_nat (List.length (queue s))
       | RLen => "N" ++ show_nat (List.length (queue s))
       | RRun _ count => match nth_error (queue s) count with Some c => "x" ++ show_call c | None => "?" end
       | RDel count => "D" ++ show_nat count
       | RCheck => match queue s with [] => "C0" | _ => "C" ++ show_nat (List.length (queue s)) ++ "+W" end
       | RSleepPrep => "S"
       | RSelect => if waker s then "U" else "-"
       | RDrain => "d"
       end
   | Spurious => match pc s with RSelect => "u" | _ => "-" end
   end)
  ++ "|" ++ (if committed_to_sleep (pc (step s l)) then "z" else "") ++ (if waker (step s l) then "k" else "").

Fixpoint show_from (s : st) (tr : list label) : list string :=
  match tr with
  | [] => []
  | l :: r => show_step s l :: show_from (step s l) r
  end.

Definition run_show (c : list nat * list label) : string :=
  let '(wants, tr) := c in String.concat " " (show_from (init wants) tr).
