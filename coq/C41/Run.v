(** C41: printers used by the correspondence check only. *)
From Coq Require Import List NArith ZArith Bool String.
From TwLib Require Import Show.
From C41 Require Import Gen Model B64.
Import ListNotations.
Local Open Scope string_scope.

Definition show_str (s : list N) : string := show_list show_N s.
Definition show_res (r : option (list N)) : string := match r with Some s => show_str s | None => "ERR" end.

Fixpoint list_eqb (a b : list N) : bool :=
  match a, b with
  | [], [] => true
  | x :: a', y :: b' => N.eqb x y && list_eqb a' b'
  | _, _ => false
  end.

(** encoding cases run the RFC 3501 layer of B64.v; for raw DECODING cases (arbitrary, possibly
    malformed shift sequences, where CPython's utf-7 decoder has its own error rules) the layer is
    an oracle table: what modified_unbase64 returned (None = it raised) for each shift sequence *)
Definition tab_enc (t : list (list N * list N)) (run : list N) : list N :=
  match find (fun p => list_eqb (fst p) run) t with Some p => snd p | None => [] end.
Definition tab_dec (t : list (list N * option (list N))) (acc : list N) : option (list N) :=
  match find (fun p => list_eqb (fst p) acc) t with Some p => snd p | None => None end.

Inductive case :=
| CXenc (s : list N)
| CXdec (s : list N)
| CUenc (s : list N)
| CUdec (td : list (list N * option (list N))) (s : list N).

Definition run_show (c : case) : string :=
  match c with
  | CXenc s => show_hex (xtext_encode s) ++ " " ++ show_res (xtext_decode (xtext_encode s))
  | CXdec s => show_res (xtext_decode s)
  | CUenc s => show_hex (utf7_encode mb64_encode s) ++ " "
                ++ show_res (utf7_decode mb64_decode (utf7_encode mb64_encode s))
  | CUdec td s => show_res (utf7_decode (tab_dec td) s)
  end.
