(** C41: mail text codecs.
    xtext (smtp.py): the escape test is generated (Gen.v, from xtext_encode, for bytes input); the
    encoder loop and [xtext_decode] are modelled by hand.  Octets are [N].
    IMAP4 modified UTF-7 (imap4.py [encoder]/[decoder]): hand-written model of the two state
    machines over code points; the base64-of-UTF-16BE layer ([modified_base64] /
    [modified_unbase64], CPython's binascii / utf-16 / utf-7 codecs) is an oracle: two parameters
    of the model, whose assumed facts are hypotheses of the theorems and are checked against
    CPython on every generated case. *)
From Coq Require Import List NArith ZArith Bool.
From C41 Require Import Gen.
Import ListNotations.
Local Open Scope N_scope.

(** ---------------------------------------------------------------- xtext *)

(** "%X" digit *)
Definition hexd (x : N) : N := if x <? 10 then 48 + x else 55 + x.

(** value of a hexadecimal digit as [int(_, 16)] reads it *)
Definition hexval (c : N) : option N :=
  if (48 <=? c) && (c <=? 57) then Some (c - 48)
  else if (65 <=? c) && (c <=? 70) then Some (c - 55)
  else if (97 <=? c) && (c <=? 102) then Some (c - 87)
  else None.

(** one octet: [networkString(f"+{o:02X}")] or [bytes((o,))] *)
Definition xenc1 (o : N) : list N :=
  if xtext_escape (Z.of_N o) then [43; hexd (o / 16); hexd (o mod 16)] else [o].

Definition xtext_encode (s : list N) : list N := flat_map xenc1 s.

(** [xtext_decode] on bytes; result = code points of the returned str; [None] = an exception
    (non-hex after "+", non-ASCII octet).  A "+" followed by a single final hex digit is accepted,
    as [int(s[i+1:i+3], 16)] accepts the one-digit slice. *)
Fixpoint xdec (skip : nat) (s : list N) : option (list N) :=
  match s with
  | [] => Some []
  | c :: r =>
      match skip with
      | S k => xdec k r
      | O =>
          if c =? 43 then
            match r with
            | h1 :: h2 :: _ =>
                match hexval h1, hexval h2 with
                | Some a, Some b => option_map (cons (16 * a + b)) (xdec 2 r)
                | _, _ => None
                end
            | [h1] => match hexval h1 with Some a => Some [a] | None => None end
            | [] => None
            end
          else if c <? 128 then option_map (cons c) (xdec 0 r)
          else None
      end
  end.

Definition xtext_decode (s : list N) : option (list N) := xdec 0 s.

(** RFC 3461 xtext: xchar = any ASCII CHAR between "!" (33) and "~" (126) inclusive, except for
    "+" and "="; hexchar = "+" 2(%x30-39 / %x41-46) *)
Definition is_xchar (c : N) : bool := (33 <=? c) && (c <=? 126) && negb (c =? 43) && negb (c =? 61).
Definition is_upper_hex (c : N) : bool := ((48 <=? c) && (c <=? 57)) || ((65 <=? c) && (c <=? 70)).
Definition is_xunit (u : list N) : bool :=
  match u with
  | [c] => is_xchar c
  | [p; h1; h2] => (p =? 43) && is_upper_hex h1 && is_upper_hex h2
  | _ => false
  end.

(** the encoder as it was before the repair of F14 (for bytes input the comparisons of [ch] with
    "+" and "=" are never true) *)
Definition xenc1_unrepaired (o : N) : list N :=
  if (o <? 33) || (126 <? o) then [43; hexd (o / 16); hexd (o mod 16)] else [o].

(** ---------------------------------------------------------------- IMAP4 modified UTF-7 *)

Section Utf7.
  Variable b64enc : list N -> list N.            (* modified_base64("".join(run)) *)
  Variable b64dec : list N -> option (list N).   (* modified_unbase64(bytes); None = exception *)

  (** [valid_chars = set(map(chr, range(0x20, 0x7F))) - {"&"}] *)
  Definition valid_char (c : N) : bool := (32 <=? c) && (c <? 127) && negb (c =? 38).

  Definition flush (run : list N) : list N :=
    match run with [] => [] | _ => [38] ++ b64enc run ++ [45] end.

  (** [encoder]: [run] is the list [_in] *)
  Fixpoint enc (run s : list N) : list N :=
    match s with
    | [] => flush run
    | c :: r =>
        if valid_char c then flush run ++ c :: enc [] r
        else if c =? 38 then flush run ++ [38; 45] ++ enc [] r
        else enc (run ++ [c]) r
    end.

  Definition utf7_encode (s : list N) : list N := enc [] s.

  (** [decoder]: [st] = None when [decode] is empty, Some acc when it is ["&"] + acc *)
  Fixpoint dec (st : option (list N)) (s : list N) : option (list N) :=
    match s with
    | [] => match st with None => Some [] | Some acc => b64dec acc end
    | c :: r =>
        match st with
        | None =>
            if c =? 38 then dec (Some []) r
            else if c <? 128 then option_map (cons c) (dec None r)
            else None
        | Some acc =>
            if c =? 45 then
              match acc with
              | [] => option_map (cons 38) (dec None r)
              | _ => match b64dec acc with
                     | Some u => option_map (app u) (dec None r)
                     | None => None
                     end
              end
            else dec (Some (acc ++ [c])) r
        end
    end.

  Definition utf7_decode (s : list N) : option (list N) := dec None s.
End Utf7.

(** the modified BASE64 alphabet of RFC 3501 5.1.3: A-Z a-z 0-9 "+" "," *)
Definition is_mb64 (c : N) : bool :=
  ((65 <=? c) && (c <=? 90)) || ((97 <=? c) && (c <=? 122)) || ((48 <=? c) && (c <=? 57)) || (c =? 43) || (c =? 44).
