(** C41: the RFC 3501 base64-of-UTF-16BE layer inverts itself on every string of Unicode scalar
    values, produces only characters of the modified BASE64 alphabet, and is non-empty on
    non-empty input. *)
From Coq Require Import List NArith Bool Arith Lia ZifyBool.
From C41 Require Import Gen Model B64 Proofs.
Import ListNotations.
Local Open Scope N_scope.

(** ---------------- bits ---------------- *)

Lemma to_bits_length : forall n x, length (to_bits n x) = n.
Proof. induction n as [|n IH]; intros x; [reflexivity|]. cbn [to_bits length]. rewrite IH. reflexivity. Qed.

Lemma pow2_succ : forall k : nat, 2 ^ N.of_nat (S k) = 2 * 2 ^ N.of_nat k.
Proof. intros k. rewrite Nat2N.inj_succ, N.pow_succ_r'. reflexivity. Qed.

Lemma pow2_pos : forall k : nat, 2 ^ N.of_nat k <> 0.
Proof. intros k. apply N.pow_nonzero. discriminate. Qed.

Lemma b2n_odd : forall m, N.b2n (N.odd m) = m mod 2.
Proof. intros m. rewrite <- N.bit0_odd. apply N.bit0_mod. Qed.

Lemma of_to_bits : forall n x, of_bits (to_bits n x) = x mod 2 ^ N.of_nat n.
Proof.
  induction n as [|n IH]; intros x.
  - cbn. rewrite N.mod_1_r. reflexivity.
  - cbn [to_bits of_bits]. rewrite to_bits_length, IH, b2n_odd.
    rewrite N.mod_mod by apply pow2_pos.
    rewrite pow2_succ. rewrite (N.mul_comm 2).
    rewrite (N.mod_mul_r x (2 ^ N.of_nat n) 2) by (apply pow2_pos || discriminate).
    lia.
Qed.

Lemma of_bits_lt : forall l, of_bits l < 2 ^ N.of_nat (length l).
Proof.
  induction l as [|b l IH]; [cbn; lia|].
  cbn [of_bits length]. rewrite pow2_succ.
  generalize dependent (2 ^ N.of_nat (length l)). intros p IH.
  destruct b; cbn [N.b2n]; lia.
Qed.

Lemma to_of_bits : forall l, to_bits (length l) (of_bits l) = l.
Proof.
  induction l as [|b l IH]; [reflexivity|].
  cbn [length of_bits to_bits].
  pose proof (of_bits_lt l) as Hlt. pose proof (pow2_pos (length l)) as Hp.
  assert (Hd : (N.b2n b * 2 ^ N.of_nat (length l) + of_bits l) / 2 ^ N.of_nat (length l) = N.b2n b).
  { rewrite N.div_add_l by exact Hp. rewrite (N.div_small _ _ Hlt). lia. }
  assert (Hm : (N.b2n b * 2 ^ N.of_nat (length l) + of_bits l) mod 2 ^ N.of_nat (length l) = of_bits l).
  { rewrite N.add_comm, N.mod_add by exact Hp. apply N.mod_small. exact Hlt. }
  rewrite Hd, Hm, IH. destruct b; reflexivity.
Qed.

(** ---------------- lists ---------------- *)

Lemma firstn_exact : forall (A : Type) (l1 l2 : list A), firstn (length l1) (l1 ++ l2) = l1.
Proof. intros A l1 l2. induction l1 as [|a l1 IH]; [destruct l2; reflexivity|]. cbn. rewrite IH. reflexivity. Qed.

Lemma skipn_exact : forall (A : Type) (l1 l2 : list A), skipn (length l1) (l1 ++ l2) = l2.
Proof. intros A l1 l2. induction l1 as [|a l1 IH]; [reflexivity|]. cbn. exact IH. Qed.

Lemma groups6_nil : forall f, groups6 f [] = [].
Proof. destruct f; reflexivity. Qed.

Lemma groups6_spec : forall f l, (length l <= f)%nat ->
  exists pad, concat (groups6 f l) = l ++ pad /\ (length pad < 6)%nat
              /\ Forall (fun g => length g = 6%nat) (groups6 f l).
Proof.
  induction f as [|f IH]; intros l Hlen.
  - destruct l; [|cbn in Hlen; lia]. exists []. repeat split; [cbn; lia | constructor].
  - destruct l as [|b l']; [exists []; repeat split; [cbn; lia | constructor]|].
    remember (b :: l') as l eqn:El. assert (Hne : (1 <= length l)%nat) by (subst; cbn; lia).
    assert (Hg : groups6 (S f) l = firstn 6 (l ++ zeros5) :: groups6 f (skipn 6 l)) by (subst; reflexivity).
    rewrite Hg. clear Hg.
    destruct (le_lt_dec 6 (length l)) as [Hge | Hlt].
    + assert (Hf : firstn 6 (l ++ zeros5) = firstn 6 l).
      { rewrite firstn_app. replace (6 - length l)%nat with 0%nat by lia. cbn [firstn]. apply app_nil_r. }
      assert (Hs : (length (skipn 6 l) <= f)%nat) by (rewrite skipn_length; lia).
      destruct (IH (skipn 6 l) Hs) as [pad [Hc [Hp Hall]]].
      exists pad. rewrite Hf. cbn [concat]. rewrite Hc, app_assoc, firstn_skipn. repeat split; [exact Hp|].
      constructor; [rewrite firstn_length; lia | exact Hall].
    + assert (Hs : skipn 6 l = []) by (apply skipn_all2; lia).
      rewrite Hs, groups6_nil.
      assert (Hf : firstn 6 (l ++ zeros5) = l ++ firstn (6 - length l) zeros5).
      { rewrite firstn_app. rewrite (firstn_all2 l) by lia. reflexivity. }
      exists (firstn (6 - length l) zeros5). rewrite Hf. cbn [concat]. rewrite app_nil_r.
      assert (Hpl : length (firstn (6 - length l) zeros5) = (6 - length l)%nat)
        by (rewrite firstn_length; cbn [zeros5 length]; lia).
      repeat split; [lia|].
      constructor; [rewrite app_length, Hpl; lia | constructor].
Qed.

(** ---------------- alphabet ---------------- *)

Lemma idx_alpha : forall i, i < 64 -> idx (alpha i) = Some i.
Proof.
  intros i H. unfold alpha.
  destruct (i <? 26) eqn:E1.
  - unfold idx. assert (E : ((65 <=? 65 + i) && (65 + i <=? 90)) = true) by lia. rewrite E. f_equal. lia.
  - destruct (i <? 52) eqn:E2.
    + unfold idx. assert (Ea : ((65 <=? 71 + i) && (71 + i <=? 90)) = false) by lia.
      assert (Eb : ((97 <=? 71 + i) && (71 + i <=? 122)) = true) by lia. rewrite Ea, Eb. f_equal. lia.
    + destruct (i <? 62) eqn:E3.
      * unfold idx. assert (Ea : ((65 <=? i - 4) && (i - 4 <=? 90)) = false) by lia.
        assert (Eb : ((97 <=? i - 4) && (i - 4 <=? 122)) = false) by lia.
        assert (Ec : ((48 <=? i - 4) && (i - 4 <=? 57)) = true) by lia. rewrite Ea, Eb, Ec. f_equal. lia.
      * destruct (i =? 62) eqn:E4.
        -- apply N.eqb_eq in E4. subst. reflexivity.
        -- assert (i = 63) by lia. subst. reflexivity.
Qed.

Lemma alpha_mb64 : forall i, i < 64 -> is_mb64 (alpha i) = true.
Proof.
  intros i H. unfold alpha, is_mb64.
  destruct (i <? 26) eqn:E1; [lia|]. destruct (i <? 52) eqn:E2; [lia|]. destruct (i <? 62) eqn:E3; [lia|].
  destruct (i =? 62); reflexivity.
Qed.

Lemma of_bits6_lt : forall g, length g = 6%nat -> of_bits g < 64.
Proof. intros g H. pose proof (of_bits_lt g) as L. rewrite H in L. exact L. Qed.

Lemma idxs_groups : forall gs, Forall (fun g => length g = 6%nat) gs ->
  idxs (map (fun g => alpha (of_bits g)) gs) = Some (map of_bits gs).
Proof.
  induction gs as [|g gs IH]; intros H; [reflexivity|].
  inversion H as [|? ? Hg Hgs]; subst. cbn [map idxs].
  rewrite (idx_alpha _ (of_bits6_lt g Hg)), (IH Hgs). reflexivity.
Qed.

Lemma bits_of_groups : forall gs, Forall (fun g => length g = 6%nat) gs ->
  flat_map (to_bits 6) (map of_bits gs) = concat gs.
Proof.
  induction gs as [|g gs IH]; intros H; [reflexivity|].
  inversion H as [|? ? Hg Hgs]; subst. cbn [map flat_map concat].
  rewrite (IH Hgs). f_equal. rewrite <- Hg. apply to_of_bits.
Qed.

(** ---------------- 16-bit units ---------------- *)

Lemma bits16_length : forall us, length (flat_map (to_bits 16) us) = (16 * length us)%nat.
Proof.
  induction us as [|u us IH]; [reflexivity|].
  cbn [flat_map]. rewrite app_length, to_bits_length, IH. cbn [length]. lia.
Qed.

Lemma units_of_bits_spec : forall us f pad,
  (length us <= f)%nat -> Forall (fun u => u < 65536) us -> (length pad < 16)%nat ->
  units_of_bits f (flat_map (to_bits 16) us ++ pad) = us.
Proof.
  induction us as [|u us IH]; intros f pad Hf Hall Hpad.
  - cbn [flat_map app]. destruct f as [|f]; [reflexivity|].
    cbn [units_of_bits]. assert (E : Nat.ltb (length pad) 16 = true) by (apply Nat.ltb_lt; exact Hpad).
    rewrite E. reflexivity.
  - inversion Hall as [|? ? Hu Hus]; subst.
    destruct f as [|f]; [cbn in Hf; lia|]. cbn [length] in Hf.
    cbn [flat_map]. rewrite <- app_assoc. cbn [units_of_bits].
    assert (E : Nat.ltb (length (to_bits 16 u ++ flat_map (to_bits 16) us ++ pad)) 16 = false).
    { apply Nat.ltb_ge. rewrite app_length, to_bits_length. lia. }
    rewrite E.
    pose proof (firstn_exact _ (to_bits 16 u) (flat_map (to_bits 16) us ++ pad)) as F.
    pose proof (skipn_exact _ (to_bits 16 u) (flat_map (to_bits 16) us ++ pad)) as S.
    rewrite to_bits_length in F, S. rewrite F, S.
    rewrite of_to_bits. change (2 ^ N.of_nat 16) with 65536. rewrite (N.mod_small _ _ Hu).
    f_equal. apply IH; [lia | exact Hus | exact Hpad].
Qed.

(** ---------------- UTF-16 ---------------- *)

Lemma utf16_1_units : forall c, valid_cp c = true -> Forall (fun u => u < 65536) (utf16_1 c).
Proof.
  intros c H. unfold valid_cp in H. unfold utf16_1.
  destruct (c <? 65536) eqn:E.
  - constructor; [cbv beta; lia | constructor].
  - assert (Hq : (c - 65536) / 1024 < 1024) by (apply N.div_lt_upper_bound; lia).
    assert (Hm : (c - 65536) mod 1024 < 1024) by (apply N.mod_lt; discriminate).
    repeat constructor; cbv beta; lia.
Qed.

Lemma utf16_units : forall s, forallb valid_cp s = true -> Forall (fun u => u < 65536) (utf16 s).
Proof.
  induction s as [|c s IH]; intros H; [constructor|].
  cbn [forallb] in H. apply andb_true_iff in H. destruct H as [Hc Hs].
  unfold utf16. cbn [flat_map]. apply Forall_app. split; [apply utf16_1_units; exact Hc | apply IH; exact Hs].
Qed.

Lemma utf16_roundtrip : forall s, forallb valid_cp s = true -> cps_of_units (utf16 s) = s.
Proof.
  induction s as [|c s IH]; intros H; [reflexivity|].
  cbn [forallb] in H. apply andb_true_iff in H. destruct H as [Hc Hs].
  unfold utf16. cbn [flat_map]. fold (utf16 s). unfold utf16_1. unfold valid_cp in Hc.
  destruct (c <? 65536) eqn:E.
  - cbn [app cps_of_units]. assert (Eh : is_hi c = false) by (unfold is_hi; lia).
    rewrite Eh, (IH Hs). reflexivity.
  - assert (Hq : (c - 65536) / 1024 < 1024) by (apply N.div_lt_upper_bound; lia).
    assert (Hm : (c - 65536) mod 1024 < 1024) by (apply N.mod_lt; discriminate).
    pose proof (N.div_mod (c - 65536) 1024 ltac:(discriminate)) as Hdm.
    cbn [app cps_of_units].
    assert (Eh : is_hi (55296 + (c - 65536) / 1024) = true)
      by (unfold is_hi; clear Hdm; generalize dependent ((c - 65536) / 1024); intros; lia).
    assert (El : is_lo (56320 + (c - 65536) mod 1024) = true)
      by (unfold is_lo; generalize dependent ((c - 65536) mod 1024); intros; lia).
    rewrite Eh, El, (IH Hs). f_equal. clear Eh El Hc IH Hs.
    apply N.ltb_ge in E.
    generalize dependent ((c - 65536) / 1024). generalize dependent ((c - 65536) mod 1024). intros m Hm q Hq Hdm.
    lia.
Qed.

Lemma utf16_nonempty : forall s, s <> [] -> utf16 s <> [].
Proof.
  intros [|c s] H; [contradiction|]. unfold utf16. cbn [flat_map]. unfold utf16_1.
  destruct (c <? 65536); discriminate.
Qed.

(** ---------------- the three facts ---------------- *)

Lemma mb64_roundtrip : forall run, forallb valid_cp run = true -> mb64_decode (mb64_encode run) = Some run.
Proof.
  intros run Hv. unfold mb64_encode, mb64_decode. cbv zeta.
  set (bits := flat_map (to_bits 16) (utf16 run)).
  destruct (groups6_spec (length bits) bits (le_n _)) as [pad [Hc [Hp Hall]]].
  rewrite (idxs_groups _ Hall), (bits_of_groups _ Hall), Hc.
  unfold bits at 2.
  rewrite units_of_bits_spec.
  - rewrite (utf16_roundtrip run Hv). reflexivity.
  - rewrite app_length. unfold bits. rewrite bits16_length. lia.
  - apply utf16_units. exact Hv.
  - lia.
Qed.

Lemma mb64_alphabet : forall run c, In c (mb64_encode run) -> is_mb64 c = true.
Proof.
  intros run c H. unfold mb64_encode in H. cbv zeta in H.
  set (bits := flat_map (to_bits 16) (utf16 run)) in H.
  destruct (groups6_spec (length bits) bits (le_n _)) as [pad [_ [_ Hall]]].
  apply in_map_iff in H. destruct H as [g [<- Hg]].
  rewrite Forall_forall in Hall. apply alpha_mb64. apply of_bits6_lt. exact (Hall g Hg).
Qed.

Lemma mb64_nonempty : forall run, run <> [] -> mb64_encode run <> [].
Proof.
  intros run H. unfold mb64_encode. cbv zeta.
  pose proof (utf16_nonempty run H) as Hu.
  destruct (utf16 run) as [|u us]; [contradiction|].
  cbn [flat_map]. destruct (to_bits 16 u) as [|b bs] eqn:Eb.
  - pose proof (to_bits_length 16 u) as L. rewrite Eb in L. discriminate.
  - cbn [app length groups6 map]. discriminate.
Qed.

(** ---------------- modified UTF-7 over the RFC layer: no oracle left ---------------- *)

Definition scalar (c : N) : Prop := valid_cp c = true.

Lemma forallb_scalar : forall run, Forall scalar run -> forallb valid_cp run = true.
Proof. intros run H. apply forallb_forall. rewrite Forall_forall in H. exact H. Qed.

Lemma utf7_rt_rfc : forall s, Forall scalar s ->
  utf7_decode mb64_decode (utf7_encode mb64_encode s) = Some s.
Proof.
  apply (utf7_rt mb64_encode mb64_decode scalar).
  - intros run _ H. apply mb64_roundtrip. apply forallb_scalar. exact H.
  - exact mb64_alphabet.
  - exact mb64_nonempty.
Qed.

Lemma utf7_printable_rfc : forall s c, In c (utf7_encode mb64_encode s) -> 32 <= c <= 126.
Proof. intros s c H. exact (enc_printable mb64_encode mb64_alphabet s [] c H). Qed.

Example rfc3501_example :
  utf7_encode mb64_encode [126; 112; 101; 116; 101; 114; 47; 109; 97; 105; 108; 47; 21488; 21271; 47; 26085; 26412; 35486]
  = [126; 112; 101; 116; 101; 114; 47; 109; 97; 105; 108; 47; 38; 85; 44; 66; 84; 70; 119; 45; 47; 38; 90; 101; 86; 110; 76; 73; 113; 101; 45].
Proof. vm_compute. reflexivity. Qed.

(** runs longer than one MIME base64 line (57 input bytes): 40 code units, BMP and astral *)
Example long_run_roundtrip :
  let run := repeat 233 29 ++ [128512; 9; 65535] ++ repeat 26085 7 in
  length (utf16 run) = 40%nat
  /\ mb64_decode (mb64_encode run) = Some run
  /\ forallb is_mb64 (mb64_encode run) = true
  /\ length (mb64_encode run) = 107%nat.
Proof. vm_compute. repeat split; reflexivity. Qed.
