(** C41 proofs: xtext round trip and RFC 3461 form on the generated escape test; IMAP4 modified
    UTF-7 round trip and RFC 3501 form of the encoder/decoder state machines, relative to the
    base64 oracle. *)
From Coq Require Import List NArith ZArith Bool Arith Lia ZifyBool.
From C41 Require Import Gen Model.
Import ListNotations.
Local Open Scope N_scope.

(** ---------------------------------------------------------------- xtext *)

Lemma hex_roundtrip : forall x, x < 16 -> hexval (hexd x) = Some x /\ is_upper_hex (hexd x) = true.
Proof.
  intros x H. rewrite <- (N2Nat.id x). assert (Hn : (N.to_nat x < 16)%nat) by lia.
  clear H. generalize dependent (N.to_nat x). intros n Hn.
  do 16 (destruct n as [|n]; [split; reflexivity|]). lia.
Qed.

Lemma nibbles : forall o, o < 256 -> o / 16 < 16 /\ o mod 16 < 16 /\ 16 * (o / 16) + o mod 16 = o.
Proof.
  intros o H. repeat split.
  - apply N.div_lt_upper_bound; lia.
  - apply N.mod_lt. discriminate.
  - symmetry. apply N.div_mod. discriminate.
Qed.

(** what the generated test says (robust to the way the source writes it) *)
Lemma escape_false : forall o, xtext_escape (Z.of_N o) = false -> is_xchar o = true.
Proof.
  intros o H. unfold xtext_escape in H. unfold is_xchar.
  repeat rewrite orb_false_iff in H. lia.
Qed.

Lemma xdec_char : forall o rest, o < 256 ->
  xdec 0 (xenc1 o ++ rest) = option_map (cons o) (xdec 0 rest).
Proof.
  intros o rest Ho. unfold xenc1.
  destruct (xtext_escape (Z.of_N o)) eqn:E.
  - destruct (nibbles o Ho) as [H1 [H2 H3]].
    destruct (hex_roundtrip _ H1) as [R1 _]. destruct (hex_roundtrip _ H2) as [R2 _].
    cbn [app xdec]. change (43 =? 43) with true. cbn iota. rewrite R1, R2, H3. reflexivity.
  - apply escape_false in E. unfold is_xchar in E.
    cbn [app xdec].
    assert (E1 : (o =? 43) = false) by lia. assert (E2 : (o <? 128) = true) by lia.
    rewrite E1, E2. reflexivity.
Qed.

Lemma xtext_rt : forall s, Forall (fun o => o < 256) s -> xtext_decode (xtext_encode s) = Some s.
Proof.
  intros s H. unfold xtext_decode, xtext_encode. induction H as [|o s Ho Hs IH]; [reflexivity|].
  cbn [flat_map]. rewrite xdec_char by exact Ho. rewrite IH. reflexivity.
Qed.

Lemma xenc1_form : forall o, o < 256 -> is_xunit (xenc1 o) = true.
Proof.
  intros o Ho. unfold xenc1. destruct (xtext_escape (Z.of_N o)) eqn:E.
  - destruct (nibbles o Ho) as [H1 [H2 _]].
    destruct (hex_roundtrip _ H1) as [_ U1]. destruct (hex_roundtrip _ H2) as [_ U2].
    cbn [is_xunit]. rewrite U1, U2. reflexivity.
  - apply escape_false in E. exact E.
Qed.

Lemma xtext_form : forall s, Forall (fun o => o < 256) s ->
  xtext_encode s = concat (map xenc1 s) /\ forallb is_xunit (map xenc1 s) = true.
Proof.
  intros s H. split; [unfold xtext_encode; apply flat_map_concat_map|].
  induction H as [|o s Ho Hs IH]; [reflexivity|]. cbn [map forallb]. rewrite (xenc1_form o Ho), IH. reflexivity.
Qed.

(** every octet of the output is printable ASCII, and "=" never occurs *)
Lemma xunit_printable : forall u c, is_xunit u = true -> In c u -> 33 <= c <= 126 /\ c <> 61.
Proof.
  intros u c H Hc. destruct u as [|a [|b [|d [|e u]]]]; cbn [is_xunit] in H; try discriminate.
  - destruct Hc as [<- | []]. unfold is_xchar in H. lia.
  - unfold is_upper_hex in H. cbn [In] in Hc. intuition (subst; lia).
Qed.

Lemma xtext_form_full : forall s : list N, Forall (fun o => o < 256) s ->
  xtext_encode s = concat (map xenc1 s) /\ forallb is_xunit (map xenc1 s) = true
  /\ forall c, In c (xtext_encode s) -> 33 <= c <= 126 /\ c <> 61.
Proof.
  intros s H. destruct (xtext_form s H) as [E F]. split; [exact E|]. split; [exact F|].
  intros c Hc. rewrite E in Hc. apply in_concat in Hc. destruct Hc as [u [Hu Hc]].
  rewrite forallb_forall in F. exact (xunit_printable u c (F u Hu) Hc).
Qed.

(** the unrepaired encoder (F14) *)
Lemma xtext_unrepaired_refuted :
  exists s, Forall (fun o => o < 256) s /\ xtext_decode (flat_map xenc1_unrepaired s) <> Some s.
Proof.
  exists [97; 43; 52; 49]. split; [repeat constructor|]. vm_compute. discriminate.
Qed.

Lemma xdec_char_old : forall o rest, o < 256 -> o <> 43 ->
  xdec 0 (xenc1_unrepaired o ++ rest) = option_map (cons o) (xdec 0 rest).
Proof.
  intros o rest Ho Hp. unfold xenc1_unrepaired.
  destruct ((o <? 33) || (126 <? o)) eqn:E.
  - destruct (nibbles o Ho) as [H1 [H2 H3]].
    destruct (hex_roundtrip _ H1) as [R1 _]. destruct (hex_roundtrip _ H2) as [R2 _].
    cbn [app xdec]. change (43 =? 43) with true. cbn iota. rewrite R1, R2, H3. reflexivity.
  - cbn [app xdec].
    assert (E1 : (o =? 43) = false) by lia. assert (E2 : (o <? 128) = true) by lia.
    rewrite E1, E2. reflexivity.
Qed.

Lemma xtext_unrepaired_partial : forall s, Forall (fun o => o < 256 /\ o <> 43) s ->
  xtext_decode (flat_map xenc1_unrepaired s) = Some s.
Proof.
  intros s H. unfold xtext_decode. induction H as [|o s [Ho Hp] Hs IH]; [reflexivity|].
  cbn [flat_map]. rewrite xdec_char_old by assumption. rewrite IH. reflexivity.
Qed.

(** ---------------------------------------------------------------- IMAP4 modified UTF-7 *)

Section Utf7Proofs.
  Variable b64enc : list N -> list N.
  Variable b64dec : list N -> option (list N).
  (** the facts assumed of the base64 layer (RFC 3501 5.1.3 / RFC 2152) *)
  (** [P]: the code points the base64 layer is required to invert (Unicode scalar values) *)
  Variable P : N -> Prop.
  Hypothesis b64_roundtrip : forall run, run <> [] -> Forall P run -> b64dec (b64enc run) = Some run.
  Hypothesis b64_alphabet : forall run c, In c (b64enc run) -> is_mb64 c = true.
  Hypothesis b64_nonempty : forall run, run <> [] -> b64enc run <> [].

  Notation enc := (enc b64enc).
  Notation dec := (dec b64dec).
  Notation flush := (flush b64enc).

  Lemma mb64_not_dash : forall c, is_mb64 c = true -> (c =? 45) = false.
  Proof. intros c H. unfold is_mb64 in H. lia. Qed.

  (** inside a shift sequence every base64 character is accumulated *)
  Lemma dec_shift : forall b acc rest, (forall c, In c b -> (c =? 45) = false) ->
    dec (Some acc) (b ++ rest) = dec (Some (acc ++ b)) rest.
  Proof.
    induction b as [|c b IH]; intros acc rest H.
    - rewrite app_nil_r. reflexivity.
    - cbn [app Model.dec]. rewrite (H c (or_introl eq_refl)).
      rewrite IH by (intros c0 Hc0; apply H; right; exact Hc0). rewrite <- app_assoc. reflexivity.
  Qed.

  Lemma dec_flush_ne : forall r rest, r <> [] -> Forall P r ->
    dec None (([38] ++ b64enc r ++ [45]) ++ rest) = option_map (app r) (dec None rest).
  Proof.
    intros r rest Hne HP. cbn [app]. rewrite <- app_assoc. cbn [Model.dec]. change (38 =? 38) with true. cbn iota.
    rewrite dec_shift by (intros c Hc; apply mb64_not_dash; apply (b64_alphabet r c Hc)).
    cbn [app Model.dec]. change (45 =? 45) with true. cbn iota.
    destruct (b64enc r) as [|y l] eqn:Eb; [exfalso; exact (b64_nonempty r Hne Eb)|].
    rewrite <- Eb, (b64_roundtrip r Hne HP). reflexivity.
  Qed.

  Lemma dec_flush : forall run rest, Forall P run ->
    dec None (flush run ++ rest) = option_map (app run) (dec None rest).
  Proof.
    intros run rest HP. destruct run as [|x run].
    - cbn. destruct (dec None rest); reflexivity.
    - unfold Model.flush. apply dec_flush_ne; [discriminate | exact HP].
  Qed.

  Lemma valid_char_ascii : forall c, valid_char c = true -> (c =? 38) = false /\ (c <? 128) = true.
  Proof. intros c H. unfold valid_char in H. lia. Qed.

  Lemma enc_dec : forall s run, Forall P run -> Forall P s -> dec None (enc run s) = Some (run ++ s).
  Proof.
    induction s as [|c s IH]; intros run Hrun Hs.
    - cbn [Model.enc]. rewrite <- (app_nil_r (flush run)), dec_flush by exact Hrun. cbn. reflexivity.
    - inversion Hs as [|? ? Hc Hs']; subst.
      cbn [Model.enc]. destruct (valid_char c) eqn:Ev.
      + destruct (valid_char_ascii c Ev) as [E1 E2].
        rewrite dec_flush by exact Hrun. cbn [Model.dec]. rewrite E1, E2, IH by (constructor || exact Hs'). cbn. reflexivity.
      + destruct (c =? 38) eqn:E38.
        * apply N.eqb_eq in E38. subst c.
          rewrite dec_flush by exact Hrun. cbn [app Model.dec]. change (38 =? 38) with true. cbn iota.
          change (45 =? 45) with true. cbn iota. rewrite IH by (constructor || exact Hs'). cbn. reflexivity.
        * rewrite IH, <- app_assoc; [reflexivity | | exact Hs'].
          apply Forall_app. split; [exact Hrun | constructor; [exact Hc | constructor]].
  Qed.

  Lemma utf7_rt : forall s, Forall P s -> utf7_decode b64dec (utf7_encode b64enc s) = Some s.
  Proof. intros s Hs. unfold utf7_decode, utf7_encode. apply (enc_dec s [] (Forall_nil P) Hs). Qed.

  (** RFC 3501 form: printable US-ASCII only; "&" only as "&-" or opening a shift sequence *)
  Definition printable (c : N) : Prop := 32 <= c <= 126.

  Lemma mb64_printable : forall c, is_mb64 c = true -> printable c.
  Proof. intros c H. unfold is_mb64 in H. unfold printable. lia. Qed.

  Lemma flush_printable : forall run c, In c (flush run) -> printable c.
  Proof.
    intros run c H. destruct run as [|x run]; [destruct H|].
    unfold Model.flush in H. apply in_app_or in H. destruct H as [[<- | []] | H]; [unfold printable; lia|].
    apply in_app_or in H. destruct H as [H | [<- | []]]; [|unfold printable; lia].
    apply mb64_printable. exact (b64_alphabet _ _ H).
  Qed.

  Lemma enc_printable : forall s run c, In c (enc run s) -> printable c.
  Proof.
    induction s as [|x s IH]; intros run c H.
    - exact (flush_printable run c H).
    - cbn [Model.enc] in H. destruct (valid_char x) eqn:Ev.
      + apply in_app_or in H. destruct H as [H | [<- | H]].
        * exact (flush_printable run c H).
        * unfold valid_char in Ev. unfold printable. lia.
        * exact (IH [] c H).
      + destruct (x =? 38).
        * apply in_app_or in H. destruct H as [H | H]; [exact (flush_printable run c H)|].
          cbn [app In] in H. destruct H as [<- | [<- | H]]; [unfold printable; lia | unfold printable; lia|].
          exact (IH [] c H).
        * exact (IH _ c H).
  Qed.
End Utf7Proofs.

Example xtext_example :
  xtext_encode [97; 43; 98; 61; 32; 0; 255; 126] = [97; 43; 50; 66; 98; 43; 51; 68; 43; 50; 48; 43; 48; 48; 43; 70; 70; 126]
  /\ xtext_decode (xtext_encode [97; 43; 98; 61; 32; 0; 255; 126]) = Some [97; 43; 98; 61; 32; 0; 255; 126].
Proof. vm_compute. split; reflexivity. Qed.
