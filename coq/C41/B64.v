(** C41: the layer below the IMAP4 modified UTF-7 state machines, written out from RFC 3501 5.1.3 /
    RFC 2152: code points -> UTF-16 code units (surrogate pairs above the BMP) -> big-endian bits ->
    6-bit groups, the last one zero-padded -> the modified BASE64 alphabet (A-Z a-z 0-9 "+" ","),
    no "=" padding; and back.  Definitions only (proofs in B64Proofs.v). *)
From Coq Require Import List NArith Bool.
Import ListNotations.
Local Open Scope N_scope.

(** a Unicode scalar value: at most U+10FFFF and not a surrogate *)
Definition valid_cp (c : N) : bool := (c <? 1114112) && negb ((55296 <=? c) && (c <? 57344)).

(** UTF-16 *)
Definition utf16_1 (c : N) : list N :=
  if c <? 65536 then [c] else [55296 + (c - 65536) / 1024; 56320 + (c - 65536) mod 1024].
Definition utf16 (s : list N) : list N := flat_map utf16_1 s.

Definition is_hi (u : N) : bool := (55296 <=? u) && (u <? 56320).
Definition is_lo (u : N) : bool := (56320 <=? u) && (u <? 57344).

Fixpoint cps_of_units (l : list N) : list N :=
  match l with
  | [] => []
  | u :: r =>
      if is_hi u then
        match r with
        | v :: r' => if is_lo v then (65536 + (u - 55296) * 1024 + (v - 56320)) :: cps_of_units r'
                     else u :: cps_of_units r
        | [] => [u]
        end
      else u :: cps_of_units r
  end.

(** [n] bits of [x], most significant first *)
Fixpoint to_bits (n : nat) (x : N) : list bool :=
  match n with
  | O => []
  | S k => N.odd (x / 2 ^ N.of_nat k) :: to_bits k (x mod 2 ^ N.of_nat k)
  end.

Fixpoint of_bits (l : list bool) : N :=
  match l with
  | [] => 0
  | b :: r => N.b2n b * 2 ^ N.of_nat (length r) + of_bits r
  end.

(** 6-bit groups; the last group is padded with zero bits *)
Definition zeros5 : list bool := [false; false; false; false; false].
Fixpoint groups6 (fuel : nat) (l : list bool) : list (list bool) :=
  match fuel with
  | O => []
  | S f => match l with
           | [] => []
           | _ => firstn 6 (l ++ zeros5) :: groups6 f (skipn 6 l)
           end
  end.

(** whole 16-bit units; fewer than 16 trailing bits are padding *)
Fixpoint units_of_bits (fuel : nat) (l : list bool) : list N :=
  match fuel with
  | O => []
  | S f => if Nat.ltb (length l) 16 then [] else of_bits (firstn 16 l) :: units_of_bits f (skipn 16 l)
  end.

(** the modified BASE64 alphabet *)
Definition alpha (i : N) : N :=
  if i <? 26 then 65 + i else if i <? 52 then 71 + i else if i <? 62 then i - 4
  else if i =? 62 then 43 else 44.

Definition idx (c : N) : option N :=
  if (65 <=? c) && (c <=? 90) then Some (c - 65)
  else if (97 <=? c) && (c <=? 122) then Some (c - 71)
  else if (48 <=? c) && (c <=? 57) then Some (c + 4)
  else if c =? 43 then Some 62
  else if c =? 44 then Some 63
  else None.

Fixpoint idxs (s : list N) : option (list N) :=
  match s with
  | [] => Some []
  | c :: r => match idx c, idxs r with
              | Some i, Some l => Some (i :: l)
              | _, _ => None
              end
  end.

(** [modified_base64] of a run of code points, and [modified_unbase64] (lenient about the value
    of the padding bits; [None] for a character outside the alphabet) *)
Definition mb64_encode (run : list N) : list N :=
  let bits := flat_map (to_bits 16) (utf16 run) in
  map (fun g => alpha (of_bits g)) (groups6 (length bits) bits).

Definition mb64_decode (s : list N) : option (list N) :=
  match idxs s with
  | None => None
  | Some l => let bits := flat_map (to_bits 6) l in
              Some (cps_of_units (units_of_bits (length bits) bits))
  end.
