(** C41 property theorems (nothing else lives here; each is closed by [exact]).
    xtext: [xtext_escape] is generated from smtp.xtext_encode (bytes input); [xtext_encode] /
    [xtext_decode] model the loop and the decoder.  IMAP4 modified UTF-7: [utf7_encode] /
    [utf7_decode] model imap4.encoder / imap4.decoder; the base64-of-UTF-16BE layer is an oracle
    (two function parameters with three stated facts, each checked against CPython per case).
    All statements are for strings of any length. *)
From Coq Require Import List NArith ZArith Bool.
From C41 Require Import Gen Model Proofs B64 B64Proofs.
Import ListNotations.
Local Open Scope N_scope.

(** for any byte string the xtext codec decodes back to the same bytes *)
Theorem xtext_roundtrip : forall s : list N, Forall (fun o => o < 256) s ->
  xtext_decode (xtext_encode s) = Some s.
Proof. exact xtext_rt. Qed.
Print Assumptions xtext_roundtrip.

(** ... and its output is RFC 3461 xtext: a sequence of xchar (33..126 except "+" and "=") and
    hexchar ("+" and two upper-case hexadecimal digits); in particular printable ASCII without "=" *)
Theorem xtext_output_in_rfc3461_form : forall s : list N, Forall (fun o => o < 256) s ->
  xtext_encode s = concat (map xenc1 s) /\ forallb is_xunit (map xenc1 s) = true
  /\ forall c, In c (xtext_encode s) -> 33 <= c <= 126 /\ c <> 61.
Proof. exact xtext_form_full. Qed.
Print Assumptions xtext_output_in_rfc3461_form.

(** Finding F14 (repaired by fixes/C41-xtext-bytes-plus-equals.patch): for bytes input the
    unrepaired test never escapes "+" (and "="), and the round trip is false ... *)
Theorem xtext_unrepaired_roundtrip_refuted :
  exists s : list N, Forall (fun o => o < 256) s /\ xtext_decode (flat_map xenc1_unrepaired s) <> Some s.
Proof. exact xtext_unrepaired_refuted. Qed.
Print Assumptions xtext_unrepaired_roundtrip_refuted.

(** ... and holds exactly on byte strings without "+" *)
Theorem xtext_unrepaired_roundtrip_partial : forall s : list N,
  Forall (fun o => o < 256 /\ o <> 43) s -> xtext_decode (flat_map xenc1_unrepaired s) = Some s.
Proof. exact xtext_unrepaired_partial. Qed.
Print Assumptions xtext_unrepaired_roundtrip_partial.

(** IMAP4 modified UTF-7.  [mb64_encode]/[mb64_decode] (B64.v) are RFC 3501 5.1.3 written out:
    UTF-16 code units (surrogate pairs above the BMP), big-endian bits, 6-bit groups with the
    last one zero-padded, the modified BASE64 alphabet, no "=" padding.
    For EVERY string of Unicode scalar values (any length; code points up to U+10FFFF that are not
    surrogates) decoder(encoder(s)) = s ... *)
Theorem utf7_roundtrip : forall s : list N, Forall (fun c => valid_cp c = true) s ->
  utf7_decode mb64_decode (utf7_encode mb64_encode s) = Some s.
Proof. exact utf7_rt_rfc. Qed.
Print Assumptions utf7_roundtrip.

(** ... and the encoded form of ANY string is printable US-ASCII only (RFC 3501 5.1.3) *)
Theorem utf7_output_printable_rfc3501_form : forall (s : list N) (c : N),
  In c (utf7_encode mb64_encode s) -> 32 <= c <= 126.
Proof. exact utf7_printable_rfc. Qed.
Print Assumptions utf7_output_printable_rfc3501_form.

(** the base64-of-UTF-16BE layer on its own: it inverts itself on scalar values, stays inside the
    modified BASE64 alphabet (so never "-" or "&"), and is non-empty on a non-empty run *)
Theorem modified_base64_layer : forall run : list N,
  (forallb valid_cp run = true -> mb64_decode (mb64_encode run) = Some run)
  /\ (forall c, In c (mb64_encode run) -> is_mb64 c = true)
  /\ (run <> [] -> mb64_encode run <> []).
Proof. intros run. exact (conj (mb64_roundtrip run) (conj (mb64_alphabet run) (mb64_nonempty run))). Qed.
Print Assumptions modified_base64_layer.

(** the state machines alone, over ANY base64 layer with these three facts (kept because the
    implementation delegates the layer to CPython's binascii / utf-16-be / utf-7 codecs) *)
Theorem utf7_roundtrip_over_any_base64_layer :
  forall (b64enc : list N -> list N) (b64dec : list N -> option (list N)) (P : N -> Prop),
  (forall run, run <> [] -> Forall P run -> b64dec (b64enc run) = Some run) ->
  (forall run c, In c (b64enc run) -> is_mb64 c = true) ->
  (forall run, run <> [] -> b64enc run <> []) ->
  forall s : list N, Forall P s -> utf7_decode b64dec (utf7_encode b64enc s) = Some s.
Proof. exact utf7_rt. Qed.
Print Assumptions utf7_roundtrip_over_any_base64_layer.
