(** C41 property theorems (nothing else lives here; each is closed by [exact]).
    xtext: [xtext_escape] is generated from smtp.xtext_encode (bytes input); [xtext_encode] /
    [xtext_decode] model the loop and the decoder.  IMAP4 modified UTF-7: [utf7_encode] /
    [utf7_decode] model imap4.encoder / imap4.decoder; the base64-of-UTF-16BE layer is an oracle
    (two function parameters with three stated facts, each checked against CPython per case).
    All statements are for strings of any length. *)
From Coq Require Import List NArith ZArith Bool.
From C41 Require Import Gen Model Proofs.
Import ListNotations.
Local Open Scope N_scope.

(** for any byte string the xtext codec decodes back to the same bytes *)
Theorem xtext_roundtrip : forall s : list N, Forall (fun o => o < 256) s ->
  xtext_decode (xtext_encode s) = Some s.
Proof. exact xtext_rt. Qed.
Print Assumptions xtext_roundtrip.

(** ... and its output is RFC 3461 xtext: a sequence of xchar (33..126 except "+" and "=") and
    hexchar ("+" and two upper-case hexadecimal digits); in particular printable ASCII without "=" *)
Theorem xtext_output_in_rfc3461_form : forall s : list N, Forall (fun o => o < 256) s ->
  xtext_encode s = concat (map xenc1 s) /\ forallb is_xunit (map xenc1 s) = true
  /\ forall c, In c (xtext_encode s) -> 33 <= c <= 126 /\ c <> 61.
Proof. exact xtext_form_full. Qed.
Print Assumptions xtext_output_in_rfc3461_form.

(** Finding F14 (repaired by fixes/C41-xtext-bytes-plus-equals.patch): for bytes input the
    unrepaired test never escapes "+" (and "="), and the round trip is false ... *)
Theorem xtext_unrepaired_roundtrip_refuted :
  exists s : list N, Forall (fun o => o < 256) s /\ xtext_decode (flat_map xenc1_unrepaired s) <> Some s.
Proof. exact xtext_unrepaired_refuted. Qed.
Print Assumptions xtext_unrepaired_roundtrip_refuted.

(** ... and holds exactly on byte strings without "+" *)
Theorem xtext_unrepaired_roundtrip_partial : forall s : list N,
  Forall (fun o => o < 256 /\ o <> 43) s -> xtext_decode (flat_map xenc1_unrepaired s) = Some s.
Proof. exact xtext_unrepaired_partial. Qed.
Print Assumptions xtext_unrepaired_roundtrip_partial.

(** IMAP4 modified UTF-7, relative to the base64 layer: if modified_unbase64 inverts
    modified_base64 on non-empty runs, and modified_base64 produces a non-empty string over the
    modified BASE64 alphabet, then for EVERY string of code points decoder(encoder(s)) = s ... *)
Theorem utf7_roundtrip :
  forall (b64enc : list N -> list N) (b64dec : list N -> option (list N)),
  (forall run, run <> [] -> b64dec (b64enc run) = Some run) ->
  (forall run c, In c (b64enc run) -> is_mb64 c = true) ->
  (forall run, run <> [] -> b64enc run <> []) ->
  forall s : list N, utf7_decode b64dec (utf7_encode b64enc s) = Some s.
Proof. exact utf7_rt. Qed.
Print Assumptions utf7_roundtrip.

(** ... and the encoded form is printable US-ASCII only (RFC 3501 5.1.3) *)
Theorem utf7_output_printable_rfc3501_form :
  forall (b64enc : list N -> list N),
  (forall run c, In c (b64enc run) -> is_mb64 c = true) ->
  forall (s : list N) (c : N), In c (utf7_encode b64enc s) -> 32 <= c <= 126.
Proof. intros b64enc H s c Hc. exact (enc_printable b64enc H s [] c Hc). Qed.
Print Assumptions utf7_output_printable_rfc3501_form.
