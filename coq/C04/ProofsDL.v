(** C04: DeferredList / gatherResults — the bookkeeping refines the specification, for every schedule. *)
From Coq Require Import List Arith ZArith Bool Lia.
From C04 Require Import Model ProofsBase.
Import ListNotations.

Section DL.
  Variables f1 f2 ce : bool.
  Notation cb := (dl_cb f1 f2 ce).

  Record DInv (s : st) : Prop := {
    d_len : length (rl s) = n_of s;
    d_fin : fin s = length (proc s);
    d_nodup : NoDup (idx s);
    d_proc : forall i, In i (idx s) -> i < n_of s /\ att (get i s) = true /\ res (get i s) <> None;
    d_rl : rl s = map (fun k => lookup k (rev (proc s))) (seq 0 (n_of s));
    d_agg : agg s = spec_dl f1 f2 (n_of s) (rev (proc s));
    d_log : aggs (log s) = match agg s with Some r => [r] | None => [] end /\ twice (log s) = false;
    d_seen : forall i o, lookup i (rev (proc s)) = Some o -> res (get i s) = Some (passthru ce o)
  }.

  (** what the next processed input makes the aggregate do, if it has not fired yet *)
  Definition new_result (s : st) (i : nat) (o : outcome) : option aggres :=
    match o with
    | Ok v => if f1 then Some (APair v i)
              else if Nat.eqb (S (fin s)) (length (rl s)) then Some (AList (set_nth i (Some o) (rl s))) else None
    | Fail e => if f2 then Some (AFirstError e i)
                else if Nat.eqb (S (fin s)) (length (rl s)) then Some (AList (set_nth i (Some o) (rl s))) else None
    end.

  Lemma dl_cb_eff s i o :
    let s2 := fst (cb s i o) in
    ins s2 = ins s /\ proc s2 = (i, o) :: proc s /\ rl s2 = set_nth i (Some o) (rl s) /\ fin s2 = S (fin s) /\
    snd (cb s i o) = passthru ce o /\
    (agg s2, log s2) = match agg s with
                       | Some r => (Some r, log s)
                       | None => match new_result s i o with
                                 | Some r => (Some r, EAgg r :: log s)
                                 | None => (None, log s)
                                 end
                       end.
  Proof.
    unfold dl_cb, new_result. cbn. destruct (agg s) as [r|]; cbn.
    - repeat split; destruct o; reflexivity.
    - rewrite set_nth_length.
      destruct o as [v|e]; [destruct f1 | destruct f2]; cbn;
        repeat match goal with |- context [if ?b then _ else _] => destruct b end; cbn; repeat split; reflexivity.
  Qed.

  Lemma spec_step n chron i o :
    spec_dl f1 f2 n (chron ++ [(i, o)]) =
    match find (hit f1 f2) chron with
    | Some _ => spec_dl f1 f2 n chron
    | None => if hit f1 f2 (i, o)
              then Some (match o with Ok v => APair v i | Fail e => AFirstError e i end)
              else if Nat.eqb (S (length chron)) n
                   then Some (AList (map (fun k => lookup k (chron ++ [(i, o)])) (seq 0 n)))
                   else None
    end.
  Proof.
    unfold spec_dl. rewrite find_app. destruct (find (hit f1 f2) chron) as [[j oj]|]; [reflexivity|].
    cbn [find]. destruct (hit f1 f2 (i, o)).
    - destruct o; reflexivity.
    - rewrite app_length. cbn [length]. rewrite Nat.add_1_r. reflexivity.
  Qed.

  Lemma process_inv s i o :
    DInv s -> i < n_of s -> ~ In i (idx s) -> att (get i s) = true -> res (get i s) = Some o ->
    DInv (upd i (set_res (snd (cb s i o))) (fst (cb s i o))).
  Proof.
    intros [Hlen Hfin Hnd Hproc Hrl Hagg [Hlog Htw] Hseen] Hi Hni Hatt Hres.
    pose proof (dl_cb_eff s i o) as (Eins & Eproc & Erl & Efin & Eo & Eagg). cbn zeta in *.
    set (s2 := fst (cb s i o)) in *. rewrite Eo.
    assert (En : n_of s2 = n_of s) by (unfold n_of; rewrite Eins; reflexivity).
    assert (Hi2 : i < n_of s2) by lia.
    assert (Hshort : S (length (proc s)) <= n_of s).
    { assert (H : length (i :: idx s) <= n_of s).
      { apply pigeon; [constructor; assumption|]. intros x [<-|Hx]; [exact Hi | apply Hproc; exact Hx]. }
      cbn in H. unfold idx in H. rewrite map_length in H. exact H. }
    assert (Hlk : lookup i (rev (proc s)) = None).
    { apply lookup_none. rewrite map_rev. rewrite <- in_rev. exact Hni. }
    assert (Hlk' : forall k, lookup k (rev (proc s) ++ [(i, o)]) = if Nat.eqb k i then Some o else lookup k (rev (proc s))).
    { intros k. rewrite lookup_app. cbn [lookup]. destruct (Nat.eqb_spec k i) as [->|Hne].
      - rewrite Hlk. reflexivity.
      - destruct (lookup k (rev (proc s))); reflexivity. }
    assert (Hrl2 : set_nth i (Some o) (rl s) = map (fun k => lookup k (rev (proc s) ++ [(i, o)])) (seq 0 (n_of s))).
    { rewrite Hrl. rewrite set_nth_map_seq by exact Hi. apply map_ext. intros k. rewrite Hlk'. reflexivity. }
    assert (Hget : forall k, get k (upd i (set_res (passthru ce o)) s2) =
                             if Nat.eqb k i then set_res (passthru ce o) (get i s) else get k s).
    { intros k. rewrite get_upd by exact Hi2. unfold get. rewrite Eins. reflexivity. }
    (* the aggregate's result and log after the callback *)
    assert (Hspec : agg s2 = spec_dl f1 f2 (n_of s) (rev (proc s) ++ [(i, o)]) /\
                    aggs (log s2) = match agg s2 with Some r => [r] | None => [] end /\ twice (log s2) = false).
    { unfold aggs, twice in *. rewrite spec_step. unfold spec_dl in Hagg.
      destruct (find (hit f1 f2) (rev (proc s))) as [[j oj]|] eqn:Ef.
      - (* already fired by an earlier hit *)
        assert (Hsome : exists r, agg s = Some r) by (destruct oj; eauto).
        destruct Hsome as [r Hr]. rewrite Hr in Eagg. inversion Eagg as [[Ea El]].
        rewrite Ea, El. rewrite Hr in Hlog. fold (spec_dl f1 f2 (n_of s) (rev (proc s))). unfold spec_dl. rewrite Ef.
        rewrite <- Hagg at 1. rewrite Hr. auto.
      - rewrite rev_length in Hagg. destruct (Nat.eqb_spec (length (proc s)) (n_of s)) as [E|E]; [lia|].
        rewrite Hagg in Eagg. rewrite Hagg in Hlog. unfold new_result in Eagg. rewrite Hfin, Hlen in Eagg.
        rewrite rev_length. unfold hit. cbn [snd is_ok].
        destruct o as [v|e]; cbn [is_ok]; [destruct f1 | destruct f2];
          try (inversion Eagg as [[Ea El]]; rewrite Ea, El; cbn; rewrite Hlog; auto; fail);
          destruct (Nat.eqb (S (length (proc s))) (n_of s));
          inversion Eagg as [[Ea El]]; rewrite Ea, El; cbn; rewrite ?Hlog, ?Hrl2; auto. }
    destruct Hspec as (Hagg2 & Hlog2 & Htw2).
    constructor.
    - cbn [rl upd set_ins]. rewrite Erl, set_nth_length, n_upd, En. exact Hlen.
    - cbn [fin proc upd set_ins]. rewrite Efin, Eproc, Hfin. reflexivity.
    - unfold idx. cbn [proc upd set_ins]. rewrite Eproc. cbn [map fst]. constructor; assumption.
    - unfold idx. cbn [proc upd set_ins]. rewrite Eproc. cbn [map fst]. intros k [<-|Hk]; rewrite n_upd, En, Hget.
      + rewrite Nat.eqb_refl. cbn. repeat split; [exact Hi | exact Hatt | discriminate].
      + destruct (Nat.eqb_spec k i) as [->|Hne]; [contradiction|]. apply Hproc. exact Hk.
    - cbn [rl upd set_ins proc]. rewrite n_upd, En, Erl, Eproc. cbn [rev]. exact Hrl2.
    - cbn [agg upd set_ins proc]. rewrite n_upd, En, Eproc. cbn [rev]. exact Hagg2.
    - cbn [log agg upd set_ins]. split; assumption.
    - cbn [proc upd set_ins]. rewrite Eproc. cbn [rev]. intros k ok. rewrite Hlk', Hget.
      destruct (Nat.eqb_spec k i) as [->|Hne].
      + intros [= <-]. reflexivity.
      + apply Hseen.
  Qed.

  Lemma lookup_some_in i l o : lookup i l = Some o -> In i (map fst l).
  Proof.
    induction l as [|[j oj] r IH]; cbn; [discriminate|]. destruct (Nat.eqb_spec i j); [left; auto | right; auto].
  Qed.

  (** changing the record of an input the aggregate has not processed yet *)
  Lemma upd_inv s j f : DInv s -> j < n_of s -> ~ In j (idx s) -> DInv (upd j f s).
  Proof.
    intros [Hlen Hfin Hnd Hproc Hrl Hagg Hlog Hseen] Hj Hnj.
    constructor; cbn [rl fin proc agg log upd set_ins]; rewrite ?n_upd; auto.
    - intros i Hi. rewrite get_upd by exact Hj. destruct (Nat.eqb_spec i j) as [->|Hne]; [contradiction|].
      apply Hproc. exact Hi.
    - intros i o Hl. rewrite get_upd by exact Hj. destruct (Nat.eqb_spec i j) as [->|Hne]; [|apply Hseen; exact Hl].
      exfalso. apply Hnj. apply lookup_some_in in Hl. rewrite map_rev, <- in_rev in Hl. exact Hl.
  Qed.

  Lemma emit_cancel_inv s j : DInv s -> DInv (emit (ECancel j) s).
  Proof. intros [Hlen Hfin Hnd Hproc Hrl Hagg Hlog Hseen]. constructor; auto. Qed.

  Lemma pending_unprocessed s i : DInv s -> res (get i s) = None -> ~ In i (idx s).
  Proof. intros HI Hr Hin. destruct (d_proc s HI i Hin) as (_ & _ & H). contradiction. Qed.

  Lemma unattached_unprocessed s i : DInv s -> att (get i s) = false -> ~ In i (idx s).
  Proof. intros HI Hr Hin. destruct (d_proc s HI i Hin) as (_ & H & _). congruence. Qed.

  Lemma fire_in_inv s i o : DInv s -> i < n_of s -> res (get i s) = None -> DInv (fire_in cb i o s).
  Proof.
    intros HI Hi Hr. pose proof (pending_unprocessed s i HI Hr) as Hni.
    unfold fire_in. pose proof (upd_inv s i (set_res o) HI Hi Hni) as H1.
    set (s1 := upd i (set_res o) s) in *.
    assert (Hg : get i s1 = set_res o (get i s)) by (unfold s1; rewrite get_upd by exact Hi; rewrite Nat.eqb_refl; reflexivity).
    destruct (att (get i s1)) eqn:Ha; [|exact H1].
    pose proof (process_inv s1 i o H1) as H2. destruct (cb s1 i o) as [s2 o']. cbn [fst snd] in H2. apply H2.
    - unfold s1. rewrite n_upd. exact Hi.
    - exact Hni.
    - exact Ha.
    - rewrite Hg. reflexivity.
  Qed.

  Lemma attach_inv s i : DInv s -> i < n_of s -> att (get i s) = false -> DInv (attach cb i s).
  Proof.
    intros HI Hi Ha. pose proof (unattached_unprocessed s i HI Ha) as Hni.
    unfold attach. pose proof (upd_inv s i set_att HI Hi Hni) as H1.
    set (s1 := upd i set_att s) in *.
    assert (Hg : get i s1 = set_att (get i s)) by (unfold s1; rewrite get_upd by exact Hi; rewrite Nat.eqb_refl; reflexivity).
    destruct (res (get i s1)) as [o|] eqn:Hr; [|exact H1].
    pose proof (process_inv s1 i o H1) as H2. destruct (cb s1 i o) as [s2 o']. cbn [fst snd] in H2. apply H2.
    - unfold s1. rewrite n_upd. exact Hi.
    - exact Hni.
    - rewrite Hg. reflexivity.
    - exact Hr.
  Qed.

  Lemma n_process s i o : n_of (upd i (set_res (snd (cb s i o))) (fst (cb s i o))) = n_of s.
  Proof. rewrite n_upd. pose proof (dl_cb_eff s i o) as (E & _). unfold n_of. cbn zeta in E. rewrite E. reflexivity. Qed.

  Lemma n_fire_in s i o : n_of (fire_in cb i o s) = n_of s.
  Proof.
    unfold fire_in. destruct (att (get i (upd i (set_res o) s))); [|apply n_upd].
    pose proof (n_process (upd i (set_res o) s) i o) as H. destruct (cb (upd i (set_res o) s) i o). cbn [fst snd] in H.
    rewrite H. apply n_upd.
  Qed.

  Lemma n_attach s i : n_of (attach cb i s) = n_of s.
  Proof.
    unfold attach. destruct (res (get i (upd i set_att s))) as [o|]; [|apply n_upd].
    pose proof (n_process (upd i set_att s) i o) as H. destruct (cb (upd i set_att s) i o). cbn [fst snd] in H.
    rewrite H. apply n_upd.
  Qed.

  Lemma n_cancel_input s i : n_of (cancel_input cb i s) = n_of s.
  Proof.
    unfold cancel_input. destruct (res (get i s)); [reflexivity|].
    destruct (canc (get i (emit (ECancel i) s))); rewrite n_fire_in; reflexivity.
  Qed.

  Lemma cancel_input_inv s i : DInv s -> i < n_of s -> DInv (cancel_input cb i s).
  Proof.
    intros HI Hi. unfold cancel_input. destruct (res (get i s)) eqn:Hr; [exact HI|].
    pose proof (emit_cancel_inv s i HI) as H1.
    destruct (canc (get i (emit (ECancel i) s))); apply fire_in_inv; auto.
  Qed.

  Lemma cancel_all_inv js : forall s, DInv s -> (forall j, In j js -> j < n_of s) -> DInv (cancel_all cb js s).
  Proof.
    induction js as [|j r IH]; intros s HI Hjs; [exact HI|]. cbn [cancel_all fold_left].
    apply IH.
    - apply cancel_input_inv; [exact HI | apply Hjs; left; reflexivity].
    - intros k Hk. rewrite n_cancel_input. apply Hjs. right. exact Hk.
  Qed.

  (** attaching the callbacks in index order while building the aggregate *)
  Lemma att_attach_other s i j : i < n_of s -> j <> i -> att (get j (attach cb i s)) = att (get j s).
  Proof.
    intros Hi Hne. unfold attach.
    assert (H1 : att (get j (upd i set_att s)) = att (get j s)).
    { rewrite get_upd by exact Hi. destruct (Nat.eqb_spec j i); [contradiction | reflexivity]. }
    destruct (res (get i (upd i set_att s))) as [o|]; [|exact H1].
    pose proof (dl_cb_eff (upd i set_att s) i o) as (E & _). cbn zeta in E.
    destruct (cb (upd i set_att s) i o) as [s2 o'] eqn:Ec. cbn [fst] in E.
    rewrite get_upd.
    - destruct (Nat.eqb_spec j i); [contradiction|]. unfold get. rewrite E. exact H1.
    - unfold n_of. rewrite E. fold (n_of (upd i set_att s)). rewrite n_upd. exact Hi.
  Qed.

  Lemma attach_list_inv l : forall s, DInv s -> NoDup l ->
    (forall j, In j l -> j < n_of s /\ att (get j s) = false) -> DInv (fold_left (fun s i => attach cb i s) l s).
  Proof.
    induction l as [|i r IH]; intros s HI Hnd Hl; [exact HI|]. cbn [fold_left].
    inversion Hnd as [|? ? Hni Hnd']; subst.
    destruct (Hl i (or_introl eq_refl)) as (Hi & Ha).
    apply IH; [apply attach_inv; assumption | exact Hnd' |].
    intros j Hj. rewrite n_attach. destruct (Hl j (or_intror Hj)) as (Hj1 & Hj2). split; [exact Hj1|].
    rewrite att_attach_other; [exact Hj2 | exact Hi | intros ->; contradiction].
  Qed.
End DL.
