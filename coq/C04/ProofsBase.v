(** C04: list lemmas and the effect of the elementary state updates. *)
From Coq Require Import List Arith ZArith Bool Lia.
From C04 Require Import Model.
Import ListNotations.

Lemma set_nth_length {A} i (x : A) l : length (set_nth i x l) = length l.
Proof. revert i. induction l as [|y r IH]; intros [|k]; cbn; auto. Qed.

Lemma nth_set_nth {A} i j (x d : A) l : j < length l -> nth i (set_nth j x l) d = if Nat.eqb i j then x else nth i l d.
Proof.
  revert i j. induction l as [|y r IH]; intros i j Hj; cbn in Hj; [lia|].
  destruct j as [|j], i as [|i]; cbn; auto. apply IH. lia.
Qed.

Lemma set_nth_map_seq {A} (f : nat -> A) (x : A) : forall n a i, i < n ->
  set_nth i x (map f (seq a n)) = map (fun k => if Nat.eqb k (a + i) then x else f k) (seq a n).
Proof.
  induction n as [|n IH]; intros a i Hi; [lia|]. cbn [seq map]. destruct i as [|i]; cbn [set_nth].
  - rewrite Nat.add_0_r, Nat.eqb_refl. f_equal. apply map_ext_in. intros k Hk. apply in_seq in Hk.
    destruct (Nat.eqb_spec k a); [lia | reflexivity].
  - destruct (Nat.eqb_spec a (a + S i)); [lia|]. f_equal. rewrite IH by lia.
    apply map_ext. intros k. replace (S a + i) with (a + S i) by lia. reflexivity.
Qed.

Lemma repeat_map_seq {A} (x : A) n a : repeat x n = map (fun _ => x) (seq a n).
Proof. revert a. induction n; intros a; cbn; [reflexivity|]. f_equal. apply IHn. Qed.

Lemma lookup_none i l : ~ In i (map fst l) -> lookup i l = None.
Proof.
  induction l as [|[j o] r IH]; cbn; [reflexivity|]. intros H. destruct (Nat.eqb_spec i j); [subst; tauto|].
  apply IH. tauto.
Qed.

Lemma lookup_app i l1 l2 : lookup i (l1 ++ l2) = match lookup i l1 with Some x => Some x | None => lookup i l2 end.
Proof. induction l1 as [|[j o] r IH]; cbn; [reflexivity|]. destruct (Nat.eqb i j); auto. Qed.

Lemma find_app {A} (f : A -> bool) l1 l2 :
  find f (l1 ++ l2) = match find f l1 with Some x => Some x | None => find f l2 end.
Proof. induction l1 as [|y r IH]; cbn; [reflexivity|]. destruct (f y); auto. Qed.

Lemma pigeon l n : NoDup l -> (forall x, In x l -> x < n) -> length l <= n.
Proof.
  intros Hd Hlt. rewrite <- (seq_length n 0). apply NoDup_incl_length; [exact Hd|].
  intros x Hx. apply in_seq. specialize (Hlt x Hx). lia.
Qed.

(** ---- state updates ---- *)
Lemma n_upd i f s : n_of (upd i f s) = n_of s.
Proof. unfold n_of, upd. cbn. apply set_nth_length. Qed.

Lemma get_upd i j f s : j < n_of s -> get i (upd j f s) = if Nat.eqb i j then f (get j s) else get i s.
Proof. intros Hj. unfold get, upd. cbn. apply nth_set_nth. exact Hj. Qed.

Lemma get_out i s : n_of s <= i -> get i s = mkinp None CNothing false false.
Proof. intros H. unfold get. apply nth_overflow. exact H. Qed.

Lemma set_nth_out {A} i (x : A) l : length l <= i -> set_nth i x l = l.
Proof.
  revert i. induction l as [|y r IH]; intros i Hi; [destruct i; reflexivity|]. cbn in Hi.
  destruct i as [|i]; [lia|]. cbn. f_equal. apply IH. lia.
Qed.

Lemma att_upd_res i k o s : att (get k (upd i (set_res o) s)) = att (get k s).
Proof.
  destruct (Nat.lt_ge_cases i (n_of s)) as [H|H].
  - rewrite get_upd by exact H. destruct (Nat.eqb_spec k i) as [->|]; reflexivity.
  - unfold upd, get. cbn. rewrite set_nth_out by exact H. reflexivity.
Qed.
