(** C04: all lemmas. *)
From C04 Require Export ProofsBase ProofsLift ProofsDL ProofsRun ProofsRace.
