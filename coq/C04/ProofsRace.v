(** C04: race — the winner / failure_state bookkeeping refines [spec_race], through the nested cancel loop. *)
From Coq Require Import List Arith ZArith Bool Lia.
From C04 Require Import Model ProofsBase ProofsLift.
Import ListNotations.

Definition okp (p : nat * outcome) : bool := is_ok (snd p).

Lemma fails_of_app a b : fails_of (a ++ b) = fails_of a ++ fails_of b.
Proof. unfold fails_of. apply flat_map_app. Qed.

Lemma fails_len_le l : length (fails_of l) <= length l.
Proof. unfold fails_of. induction l as [|[i [v|e]] r IH]; cbn in *; lia. Qed.

Lemma fails_len_none l : find okp l = None -> length (fails_of l) = length l.
Proof.
  unfold fails_of. induction l as [|[i [v|e]] r IH]; cbn in *; [reflexivity | discriminate |]. intros H. rewrite IH by exact H. reflexivity.
Qed.

Lemma fails_len_some l p : find okp l = Some p -> length (fails_of l) < length l.
Proof.
  induction l as [|[i [v|e]] r IH]; [discriminate | |].
  - intros _. pose proof (fails_len_le r). unfold fails_of in *. cbn in *. lia.
  - intros H. cbn in H. specialize (IH H). unfold fails_of in *. cbn in *. lia.
Qed.

Lemma find_okp_is_ok l w o : find okp l = Some (w, o) -> exists v, o = Ok v.
Proof. intros H. apply find_some in H. destruct H as [_ H]. destruct o; [eauto | discriminate]. Qed.

(** ---- the invariant ---- *)
Record Core (x : option nat) (s : st) : Prop := {
  c_nodup : NoDup (idx s);
  c_proc : forall i, In i (idx s) -> i < n_of s /\ att (get i s) = true /\ res (get i s) <> None;
  c_done : forall i, i < n_of s -> att (get i s) = true -> res (get i s) <> None -> In i (idx s) \/ x = Some i;
  c_fstate : fstate s = fails_of (rev (proc s));
  c_winner : winner s = option_map fst (find okp (rev (proc s)));
  c_log : aggs (log s) = match agg s with Some r => [r] | None => [] end /\ twice (log s) = false
}.

(** [mid = Some (w, v)]: inside [succeeded]'s cancel loop for winner w (the result Deferred has not fired yet);
    [mid = None]: between callback invocations at the top level *)
Definition Phase (mid : option (nat * val)) (s : st) : Prop :=
  match mid with
  | Some (w, v) => agg s = None /\ find okp (rev (proc s)) = Some (w, Ok v)
  | None => agg s = spec_race (n_of s) (rev (proc s)) /\
            (winner s <> None -> forall k, k < n_of s -> has_fired s k)
  end.

Definition Inv (mid : option (nat * val)) (x : option nat) (s : st) : Prop := Core x s /\ Phase mid s.

Definition Pre (mid : option (nat * val)) (i : nat) (o : outcome) (s : st) : Prop :=
  Inv mid (Some i) s /\ i < n_of s /\ att (get i s) = true /\ res (get i s) = Some o /\ ~ In i (idx s).

(** ---- effect of the inner callback ---- *)
Definition group_of (l : list (nat * err)) : aggres := AGroup (map snd (sort_by_index l)).

Lemma inner_eff s i o :
  let r := race_cb_inner s i o in
  ins (fst r) = ins s /\ proc (fst r) = (i, o) :: proc s /\ winner (fst r) = winner s /\
  match o with
  | Ok _ => fstate (fst r) = fstate s /\ agg (fst r) = agg s /\ log (fst r) = log s /\ snd r = Ok VNone
  | Fail e =>
      fstate (fst r) = fstate s ++ [(i, e)] /\
      if Nat.eqb (length (fstate s ++ [(i, e)])) (n_of s)
      then match agg s with
           | None => agg (fst r) = Some (group_of (fstate s ++ [(i, e)])) /\
                     log (fst r) = EAgg (group_of (fstate s ++ [(i, e)])) :: log s /\ snd r = Ok VNone
           | Some _ => agg (fst r) = agg s /\ log (fst r) = ETwice :: log s /\ snd r = Fail EAlready
           end
      else agg (fst r) = agg s /\ log (fst r) = log s /\ snd r = Ok VNone
  end.
Proof.
  unfold race_cb_inner. destruct o as [v|e]; cbn; [repeat split; reflexivity|].
  unfold race_failed, n_of. cbn.
  destruct (Nat.eqb (length (fstate s ++ [(i, e)])) (length (ins s))); cbn; [|repeat split; reflexivity].
  unfold fire_unguarded. cbn. destruct (agg s) eqn:Ea; cbn; rewrite ?Ea; repeat split; reflexivity.
Qed.

Lemma n_inner s i o : n_of (fst (race_cb_inner s i o)) = n_of s.
Proof. pose proof (inner_eff s i o) as (E & _). cbn zeta in E. unfold n_of. rewrite E. reflexivity. Qed.

Lemma spec_race_app n chron p :
  spec_race n (chron ++ [p]) =
  match find okp chron with
  | Some _ => spec_race n chron
  | None => if okp p then (match p with (i, Ok v) => Some (AWin i v) | _ => None end)
            else if Nat.eqb (S (length chron)) n
                 then Some (group_of (fails_of (chron ++ [p]))) else None
  end.
Proof.
  unfold spec_race. change (fun p0 : nat * outcome => is_ok (snd p0)) with okp.
  rewrite find_app. destruct (find okp chron) as [[j oj]|]; [reflexivity|].
  cbn [find]. destruct (okp p) eqn:E.
  - destruct p as [i [v|e]]; [reflexivity | discriminate].
  - rewrite app_length. cbn [length]. rewrite Nat.add_1_r. reflexivity.
Qed.

(** the inner callback preserves the invariant (in the cancel loop always; at top level whenever it is the
    callback that [race_cb] actually runs, i.e. unless this is the first success) *)
Lemma inner_cb_inv mid s i o :
  Pre mid i o s ->
  (mid = None -> is_ok o = false \/ find okp (rev (proc s)) <> None) ->
  Inv mid None (upd i (set_res (snd (race_cb_inner s i o))) (fst (race_cb_inner s i o))).
Proof.
  intros ([[Hnd Hproc Hdone Hfs Hwin [Hlog Htw]] Hph] & Hi & Hatt & Hres & Hni) Hside.
  pose proof (inner_eff s i o) as (Eins & Eproc & Ewin & Erest). cbn zeta in *.
  set (r := race_cb_inner s i o) in *. set (s' := fst r) in *.
  assert (En : n_of s' = n_of s) by (unfold n_of; rewrite Eins; reflexivity).
  assert (Hshort : S (length (proc s)) <= n_of s).
  { assert (H : length (i :: idx s) <= n_of s).
    { apply pigeon; [constructor; assumption|]. intros x [<-|Hx]; [exact Hi | apply Hproc; exact Hx]. }
    cbn in H. unfold idx in H. rewrite map_length in H. exact H. }
  assert (Hget : forall k, get k (upd i (set_res (snd r)) s') =
                           if Nat.eqb k i then set_res (snd r) (get i s) else get k s).
  { intros k. rewrite get_upd by lia. unfold get. rewrite Eins. reflexivity. }
  unfold Phase in Hph. set (chron := rev (proc s)) in *.
  assert (Hlen : length chron = length (proc s)) by (unfold chron; apply rev_length).
  (* what happens to failure_state / the result Deferred *)
  assert (Hmain : fstate s' = fails_of (chron ++ [(i, o)]) /\
                  aggs (log s') = match agg s' with Some r0 => [r0] | None => [] end /\ twice (log s') = false /\
                  match mid with
                  | Some (w, v) => agg s' = None /\ find okp (chron ++ [(i, o)]) = Some (w, Ok v)
                  | None => agg s' = spec_race (n_of s) (chron ++ [(i, o)])
                  end).
  { rewrite fails_of_app. rewrite spec_race_app, find_app.
    destruct (find okp chron) as [[w ow]|] eqn:Ef.
    - (* a success has been processed before: failures can no longer fill failure_state *)
      destruct (find_okp_is_ok _ _ _ Ef) as [vw ->].
      assert (Hlt : length (fails_of chron) < length chron) by (eapply fails_len_some; exact Ef).
      destruct o as [v|e]; cbn [fails_of flat_map snd fst app] in *.
      + destruct Erest as (E1 & E2 & E3 & _). rewrite E1, E2, E3, app_nil_r.
        split; [exact Hfs|]. split; [exact Hlog|]. split; [exact Htw|].
        destruct mid as [[w0 v0]|]; [destruct Hph as [Ha Hf]; split; [exact Ha | congruence] | apply Hph].
      + destruct Erest as (E1 & E2). rewrite Hfs in E2. rewrite app_length in E2. cbn [length] in E2.
        destruct (Nat.eqb_spec (length (fails_of chron) + 1) (n_of s)) as [E|E]; [lia|].
        destruct E2 as (E2 & E3 & _). rewrite E1, E2, E3, Hfs.
        split; [reflexivity|]. split; [exact Hlog|]. split; [exact Htw|].
        destruct mid as [[w0 v0]|]; [destruct Hph as [Ha Hf]; split; [exact Ha | congruence] | apply Hph].
    - (* no success so far: only possible at top level, and then o is a failure *)
      destruct mid as [[w0 v0]|]; [destruct Hph as [_ Hf]; discriminate|].
      destruct Hph as [Hagg _]. unfold spec_race in Hagg. change (fun p0 : nat * outcome => is_ok (snd p0)) with okp in Hagg.
      rewrite Ef, Hlen in Hagg. destruct (Nat.eqb_spec (length (proc s)) (n_of s)) as [E|E]; [lia|].
      destruct (Hside eq_refl) as [Ho|Hc]; [|congruence].
      destruct o as [v|e]; [discriminate|]. cbn [okp snd is_ok fails_of flat_map fst app] in *.
      destruct Erest as (E1 & E2). rewrite Hfs in E2. rewrite app_length, (fails_len_none _ Ef), Hlen in E2. cbn [length] in E2.
      rewrite Nat.add_1_r in E2. rewrite Hlen. rewrite Hagg in E2, Hlog.
      destruct (Nat.eqb (S (length (proc s))) (n_of s)).
      + destruct E2 as (E2 & E3 & _). rewrite E1, E2, E3, Hfs. unfold aggs, twice in *. cbn. rewrite Hlog.
        unfold fails_of. rewrite flat_map_app. cbn. auto.
      + destruct E2 as (E2 & E3 & _). rewrite E1, E2, E3, Hfs. auto. }
  destruct Hmain as (Hfs' & Hlog' & Htw' & Hph').
  split.
  - constructor.
    + unfold idx. cbn [proc upd set_ins]. rewrite Eproc. cbn [map fst]. constructor; assumption.
    + unfold idx. cbn [proc upd set_ins]. rewrite Eproc. cbn [map fst]. intros k [<-|Hk]; rewrite n_upd, En, Hget.
      * rewrite Nat.eqb_refl. cbn. repeat split; [exact Hi | exact Hatt | discriminate].
      * destruct (Nat.eqb_spec k i) as [->|Hne]; [contradiction|]. apply Hproc. exact Hk.
    + unfold idx. cbn [proc upd set_ins]. rewrite Eproc. cbn [map fst]. intros k. rewrite n_upd, En, Hget.
      destruct (Nat.eqb_spec k i) as [->|Hne]; [left; left; reflexivity|].
      intros H1 H2 H3. destruct (Hdone k H1 H2 H3) as [H|H]; [left; right; exact H | congruence].
    + cbn [fstate proc upd set_ins]. rewrite Eproc. cbn [rev]. exact Hfs'.
    + cbn [winner proc upd set_ins]. rewrite Eproc, Ewin, Hwin. cbn [rev]. fold chron. rewrite find_app.
      destruct (find okp chron) as [p|] eqn:Ef; [reflexivity|].
      destruct mid as [[w0 v0]|]; [destruct Hph as [_ Hf]; fold chron in Hf; congruence|].
      destruct (Hside eq_refl) as [Ho|Hc]; [|fold chron in Hc; congruence].
      cbn [find]. unfold okp. cbn [snd]. rewrite Ho. reflexivity.
    + cbn [log agg upd set_ins]. split; assumption.
  - destruct mid as [[w0 v0]|]; unfold Phase.
    + cbn [agg proc upd set_ins]. rewrite Eproc. cbn [rev]. exact Hph'.
    + cbn [agg proc upd set_ins winner]. rewrite n_upd, En, Eproc. cbn [rev]. split; [exact Hph'|].
      rewrite Ewin. intros Hw k Hk. destruct Hph as [_ Hall]. unfold has_fired. rewrite Hget.
      destruct (Nat.eqb_spec k i); [cbn; discriminate | apply Hall; assumption].
Qed.

(** ---- updates of an input's record outside a callback ---- *)
Lemma inv_upd_res mid s i o : Inv mid None s -> i < n_of s -> res (get i s) = None ->
  if att (get i s) then Pre mid i o (upd i (set_res o) s) else Inv mid None (upd i (set_res o) s).
Proof.
  intros [[Hnd Hproc Hdone Hfs Hwin Hlog] Hph] Hi Hr.
  assert (Hni : ~ In i (idx s)) by (intros Hin; destruct (Hproc i Hin) as (_ & _ & H); contradiction).
  assert (Hget : forall k, get k (upd i (set_res o) s) = if Nat.eqb k i then set_res o (get i s) else get k s)
    by (intros k; apply get_upd; exact Hi).
  assert (Hcore : forall x, (att (get i s) = true -> x = Some i) -> Core x (upd i (set_res o) s)).
  { intros x Hx. constructor; cbn [fstate winner proc agg log upd set_ins]; unfold idx; cbn [proc upd set_ins]; auto.
    - intros k Hk. rewrite n_upd, Hget. destruct (Nat.eqb_spec k i) as [->|Hne]; [contradiction | apply Hproc; exact Hk].
    - intros k. rewrite n_upd, Hget. destruct (Nat.eqb_spec k i) as [->|Hne].
      + cbn. intros _ Ha _. right. apply Hx. exact Ha.
      + intros H1 H2 H3. destruct (Hdone k H1 H2 H3) as [H|H]; [left; exact H | discriminate]. }
  assert (Hphase : Phase mid (upd i (set_res o) s)).
  { destruct mid as [[w v]|]; unfold Phase in *; cbn [agg proc winner upd set_ins]; [exact Hph|]. rewrite n_upd.
    destruct Hph as [Ha Hall]. split; [exact Ha|]. intros Hw k Hk. unfold has_fired. rewrite Hget.
    destruct (Nat.eqb_spec k i); [cbn; discriminate | apply Hall; assumption]. }
  destruct (att (get i s)) eqn:Ha.
  - split; [split; [apply Hcore; auto | exact Hphase]|]. rewrite n_upd, Hget, Nat.eqb_refl. cbn.
    repeat split; auto.
  - split; [apply Hcore; intros; discriminate | exact Hphase].
Qed.

Lemma inv_upd_att mid s i : Inv mid None s -> i < n_of s -> att (get i s) = false ->
  match res (get i s) with Some o => Pre mid i o (upd i set_att s) | None => Inv mid None (upd i set_att s) end.
Proof.
  intros [[Hnd Hproc Hdone Hfs Hwin Hlog] Hph] Hi Ha.
  assert (Hni : ~ In i (idx s)) by (intros Hin; destruct (Hproc i Hin) as (_ & H & _); congruence).
  assert (Hget : forall k, get k (upd i set_att s) = if Nat.eqb k i then set_att (get i s) else get k s)
    by (intros k; apply get_upd; exact Hi).
  assert (Hcore : forall x, (res (get i s) <> None -> x = Some i) -> Core x (upd i set_att s)).
  { intros x Hx. constructor; cbn [fstate winner proc agg log upd set_ins]; unfold idx; cbn [proc upd set_ins]; auto.
    - intros k Hk. rewrite n_upd, Hget. destruct (Nat.eqb_spec k i) as [->|Hne]; [contradiction | apply Hproc; exact Hk].
    - intros k. rewrite n_upd, Hget. destruct (Nat.eqb_spec k i) as [->|Hne].
      + cbn. intros _ _ Hr. right. apply Hx. exact Hr.
      + intros H1 H2 H3. destruct (Hdone k H1 H2 H3) as [H|H]; [left; exact H | discriminate]. }
  assert (Hphase : Phase mid (upd i set_att s)).
  { destruct mid as [[w v]|]; unfold Phase in *; cbn [agg proc winner upd set_ins]; [exact Hph|]. rewrite n_upd.
    destruct Hph as [Hag Hall]. split; [exact Hag|]. intros Hw k Hk. unfold has_fired. rewrite Hget.
    destruct (Nat.eqb_spec k i) as [->|Hne]; [cbn; apply (Hall Hw i Hi) | apply Hall; assumption]. }
  destruct (res (get i s)) as [o|] eqn:Hr.
  - split; [split; [apply Hcore; auto | exact Hphase]|]. rewrite n_upd, Hget, Nat.eqb_refl. cbn.
    repeat split; auto.
  - split; [apply Hcore; intros H; congruence | exact Hphase].
Qed.

Lemma inv_emit_cancel mid s j : Inv mid None s -> Inv mid None (emit (ECancel j) s).
Proof.
  intros [[Hnd Hproc Hdone Hfs Hwin Hlog] Hph]. split; [constructor; auto|].
  destruct mid as [[w v]|]; exact Hph.
Qed.

Lemma inner_attpres s i o j : att (get j (fst (race_cb_inner s i o))) = att (get j s).
Proof. pose proof (inner_eff s i o) as (E & _). cbn zeta in E. unfold get. rewrite E. reflexivity. Qed.

Lemma inner_mono s i o k : has_fired s k -> has_fired (fst (race_cb_inner s i o)) k.
Proof. pose proof (inner_eff s i o) as (E & _). cbn zeta in E. unfold has_fired, get. rewrite E. auto. Qed.

(** ---- the cancel loop inside [succeeded] ---- *)
Lemma mid_cancel_all w v js s :
  Inv (Some (w, v)) None s -> (forall j, In j js -> j < n_of s) ->
  Inv (Some (w, v)) None (cancel_all race_cb_inner js s).
Proof.
  apply (g_cancel_all race_cb_inner (Inv (Some (w, v)) None) (Pre (Some (w, v)))).
  - apply n_inner.
  - apply inv_upd_res.
  - intros s0 i o HQ. apply inner_cb_inv; [exact HQ | discriminate].
  - apply inv_emit_cancel.
Qed.

Lemma others_lt i n j : In j (others i n) -> j < n /\ j <> i.
Proof.
  unfold others. rewrite filter_In, in_seq. intros [H1 H2]. split; [lia|].
  intros ->. rewrite Nat.eqb_refl in H2. discriminate.
Qed.

Lemma others_in i n j : j < n -> j <> i -> In j (others i n).
Proof.
  intros H1 H2. unfold others. rewrite filter_In, in_seq. split; [lia|].
  destruct (Nat.eqb_spec j i); [contradiction | reflexivity].
Qed.

(** ---- the outer callback ---- *)
Lemma n_race_cb s i o : n_of (fst (race_cb s i o)) = n_of s.
Proof.
  unfold race_cb. destruct o as [v|e]; [destruct (winner s)|]; try apply n_inner.
  match goal with |- context [cancel_all race_cb_inner ?js ?s1] =>
    pose proof (g_n_cancel_all race_cb_inner n_inner js s1) as H; set (s2 := cancel_all race_cb_inner js s1) in * end.
  unfold fire_unguarded. destruct (agg s2); cbn [fst]; unfold n_of in *; cbn in *; exact H.
Qed.

Lemma race_cb_inv s i o :
  Pre None i o s -> Inv None None (upd i (set_res (snd (race_cb s i o))) (fst (race_cb s i o))).
Proof.
  intros HQ. unfold race_cb.
  destruct o as [v|e]; [destruct (winner s) as [w|] eqn:Ew|]; try (apply inner_cb_inv; [exact HQ|]; intros _).
  - right. destruct HQ as ([[_ _ _ _ Hwin _] _] & _). rewrite Hwin in Ew. destruct (find okp (rev (proc s))); [discriminate | discriminate].
  - (* the first success *)
    destruct HQ as ([[Hnd Hproc Hdone Hfs Hwin [Hlog Htw]] [Hagg Hall]] & Hi & Hatt & Hres & Hni).
    assert (Hf : find okp (rev (proc s)) = None).
    { rewrite Hwin in Ew. destruct (find okp (rev (proc s))); [discriminate | reflexivity]. }
    assert (Hshort : S (length (proc s)) <= n_of s).
    { assert (H : length (i :: idx s) <= n_of s).
      { apply pigeon; [constructor; assumption|]. intros x [<-|Hx]; [exact Hi | apply Hproc; exact Hx]. }
      cbn in H. unfold idx in H. rewrite map_length in H. exact H. }
    assert (Ha0 : agg s = None).
    { rewrite Hagg. unfold spec_race. change (fun p0 : nat * outcome => is_ok (snd p0)) with okp. rewrite Hf, rev_length.
      destruct (Nat.eqb_spec (length (proc s)) (n_of s)); [lia | reflexivity]. }
    set (s1 := set_winner i (note i (Ok v) s)).
    assert (Hn1 : n_of s1 = n_of s) by reflexivity.
    assert (Hg1 : forall k, get k s1 = get k s) by reflexivity.
    assert (Hp1 : proc s1 = (i, Ok v) :: proc s) by reflexivity.
    assert (H1 : Inv (Some (i, v)) None s1).
    { split.
      - constructor; unfold idx; rewrite ?Hp1, ?Hn1; cbn [map fst rev].
        + constructor; assumption.
        + intros k [<-|Hk]; rewrite Hg1; [repeat split; [exact Hi | exact Hatt | rewrite Hres; discriminate] | apply Hproc; exact Hk].
        + intros k Hk1. rewrite Hg1. intros Hk2 Hk3. destruct (Hdone k Hk1 Hk2 Hk3) as [H|H]; [left; right; exact H | left; left; congruence].
        + rewrite fails_of_app. cbn. rewrite app_nil_r. exact Hfs.
        + rewrite find_app, Hf. reflexivity.
        + split; assumption.
      - unfold Phase. rewrite Hp1. cbn [rev]. split; [exact Ha0|]. rewrite find_app, Hf. reflexivity. }
    pose proof (mid_cancel_all i v (others i (n_of s1)) s1 H1) as H2.
    assert (Hjs : forall j, In j (others i (n_of s1)) -> j < n_of s1) by (intros j Hj; apply (others_lt _ _ _ Hj)).
    specialize (H2 Hjs).
    pose proof (g_n_cancel_all race_cb_inner n_inner (others i (n_of s1)) s1) as Hn2.
    (* every other input has fired after the loop *)
    assert (Hfired : forall k, k < n_of s -> has_fired (cancel_all race_cb_inner (others i (n_of s1)) s1) k).
    { intros k Hk. apply (m_cancel_all race_cb_inner n_inner inner_mono); [exact Hjs|].
      destruct (Nat.eq_dec k i) as [->|Hne].
      - right. unfold has_fired. rewrite Hg1, Hres. discriminate.
      - left. apply others_in; [rewrite Hn1; exact Hk | exact Hne]. }
    set (s2 := cancel_all race_cb_inner (others i (n_of s1)) s1) in *. clearbody s2.
    destruct H2 as [[Hnd2 Hproc2 Hdone2 Hfs2 Hwin2 [Hlog2 Htw2]] [Ha2 Hf2]].
    unfold fire_unguarded. rewrite Ha2. cbn [fst snd].
    assert (Hi2 : i < n_of (fire (AWin i v) s2)) by (change (n_of (fire (AWin i v) s2)) with (n_of s2); lia).
    assert (Hget : forall k, get k (upd i (set_res (Ok VNone)) (fire (AWin i v) s2)) =
                             if Nat.eqb k i then set_res (Ok VNone) (get i s2) else get k s2).
    { intros k. rewrite get_upd by exact Hi2. reflexivity. }
    assert (Hn3 : n_of (upd i (set_res (Ok VNone)) (fire (AWin i v) s2)) = n_of s2) by (rewrite n_upd; reflexivity).
    assert (Hin2 : In i (idx s2)).
    { apply find_some in Hf2. destruct Hf2 as [Hin _]. apply in_rev in Hin. apply (in_map fst) in Hin. exact Hin. }
    split.
    + constructor; unfold idx; cbn [proc fstate winner log agg upd set_ins fire emit set_agg]; auto.
      * intros k Hk. rewrite Hn3, Hget. destruct (Nat.eqb_spec k i) as [->|Hne].
        -- destruct (Hproc2 i Hk) as (A & B & C). cbn. repeat split; [exact A | exact B | discriminate].
        -- apply Hproc2. exact Hk.
      * intros k. rewrite Hn3, Hget. destruct (Nat.eqb_spec k i) as [->|Hne]; [intros; left; exact Hin2|].
        intros A B C. destruct (Hdone2 k A B C) as [H|H]; [left; exact H | discriminate].
      * split; [|exact Htw2]. unfold aggs in *. cbn. rewrite Hlog2, Ha2. reflexivity.
    + unfold Phase. cbn [proc agg winner upd set_ins fire emit set_agg]. rewrite Hn3. split.
      * unfold spec_race. change (fun p0 : nat * outcome => is_ok (snd p0)) with okp. rewrite Hf2. reflexivity.
      * intros _ k Hk. unfold has_fired. rewrite Hget. destruct (Nat.eqb_spec k i); [cbn; discriminate|].
        apply Hfired. lia.
  - left. reflexivity.
Qed.

Lemma race_cb_attpres s i o j : att (get j (fst (race_cb s i o))) = att (get j s).
Proof.
  unfold race_cb. destruct o as [v|e]; [destruct (winner s)|]; try apply inner_attpres.
  match goal with |- context [cancel_all race_cb_inner ?js ?s1] =>
    pose proof (a_cancel_all race_cb_inner inner_attpres js s1 j) as H; set (s2 := cancel_all race_cb_inner js s1) in * end.
  clearbody s2. unfold fire_unguarded. destruct (agg s2); cbn [fst]; exact H.
Qed.

Lemma race_cb_mono s i o k : has_fired s k -> has_fired (fst (race_cb s i o)) k.
Proof.
  intros Hk. unfold race_cb. destruct o as [v|e]; [destruct (winner s)|]; try (apply inner_mono; exact Hk).
  match goal with |- context [cancel_all race_cb_inner ?js ?s1] =>
    assert (H : has_fired (cancel_all race_cb_inner js s1) k);
    [|set (s2 := cancel_all race_cb_inner js s1) in *] end.
  - apply (m_cancel_all race_cb_inner n_inner inner_mono).
    + intros j Hj. apply (others_lt _ _ _ Hj).
    + right. exact Hk.
  - clearbody s2. unfold fire_unguarded. destruct (agg s2); cbn [fst]; exact H.
Qed.

(** ---- top level: construction and schedules ---- *)
Notation RInv := (Inv None None).

Lemma r_fire_in s i o : RInv s -> i < n_of s -> res (get i s) = None -> RInv (fire_in race_cb i o s).
Proof.
  apply (g_fire_in race_cb RInv (Pre None)).
  - apply inv_upd_res.
  - apply race_cb_inv.
Qed.

Lemma r_cancel_all js s : RInv s -> (forall j, In j js -> j < n_of s) -> RInv (cancel_all race_cb js s).
Proof.
  apply (g_cancel_all race_cb RInv (Pre None)).
  - apply n_race_cb.
  - apply inv_upd_res.
  - apply race_cb_inv.
  - apply inv_emit_cancel.
Qed.

Lemma r_attach_all s : RInv s -> (forall j, att (get j s) = false) -> RInv (attach_all race_cb s).
Proof.
  intros HI Ha. unfold attach_all. apply (g_attach_list race_cb RInv (Pre None)).
  - apply n_race_cb.
  - apply inv_upd_att.
  - apply race_cb_inv.
  - apply race_cb_attpres.
  - exact HI.
  - apply seq_NoDup.
  - intros j Hj. apply in_seq in Hj. split; [lia | apply Ha].
Qed.

Lemma init_att inputs i : att (get i (init inputs)) = false.
Proof. unfold get, init. cbn [ins]. revert i. induction inputs as [|p r IH]; intros [|i]; cbn; auto. Qed.

Lemma r_init inputs : inputs <> [] -> RInv (init inputs).
Proof.
  intros Hne. assert (Hn : n_of (init inputs) = length inputs) by (unfold n_of, init; cbn; apply map_length).
  split.
  - constructor.
    + constructor.
    + intros i [].
    + intros i _ Ha. rewrite init_att in Ha. discriminate.
    + reflexivity.
    + reflexivity.
    + split; reflexivity.
  - unfold Phase. rewrite Hn. cbn. split; [|intros H; congruence].
    unfold spec_race. cbn. destruct inputs; [congruence | reflexivity].
Qed.

(** every input attached once the race is built *)
Definition AllAtt (s : st) : Prop := forall i, i < n_of s -> att (get i s) = true.

Lemma attach_list_all l : forall s, (forall j, In j l -> j < n_of s) ->
  forall k, (In k l \/ att (get k s) = true) -> att (get k (fold_left (fun s i => attach race_cb i s) l s)) = true.
Proof.
  induction l as [|i r IH]; intros s Hl k Hk; cbn [fold_left].
  - destruct Hk as [[]|Hk]. exact Hk.
  - assert (Hi : i < n_of s) by (apply Hl; left; reflexivity).
    apply IH.
    + intros j Hj. rewrite (g_n_attach race_cb n_race_cb). apply Hl. right. exact Hj.
    + destruct (Nat.eq_dec k i) as [->|Hne].
      * right. apply (g_att_attach_self race_cb n_race_cb race_cb_attpres). exact Hi.
      * destruct Hk as [[Hk|Hk]|Hk]; [congruence | left; exact Hk |].
        right. rewrite (g_att_attach_other race_cb n_race_cb race_cb_attpres) by assumption. exact Hk.
Qed.

Definition Top (n0 : nat) (s : st) : Prop := RInv s /\ AllAtt s /\ n_of s = n0.

Lemma construct_top inputs : inputs <> [] -> Top (length inputs) (construct KRace inputs).
Proof.
  intros Hne. assert (E : construct KRace inputs = attach_all race_cb (init inputs)) by (destruct inputs; [congruence | reflexivity]).
  rewrite E. assert (Hn : n_of (init inputs) = length inputs) by (unfold n_of, init; cbn; apply map_length).
  assert (Hn' : n_of (attach_all race_cb (init inputs)) = length inputs).
  { unfold attach_all. rewrite (g_n_attach_list race_cb n_race_cb). exact Hn. }
  split; [|split].
  - apply r_attach_all; [apply r_init; exact Hne | apply init_att].
  - intros i Hi. unfold attach_all. apply attach_list_all.
    + intros j Hj. apply in_seq in Hj. lia.
    + left. apply in_seq. rewrite Hn' in Hi. lia.
  - exact Hn'.
Qed.

Lemma all_processed_fired s : RInv s -> (forall i, i < n_of s -> In i (idx s)) -> agg s <> None.
Proof.
  intros [[Hnd Hproc _ _ _ _] [Hagg _]] Hall. rewrite Hagg. unfold spec_race.
  change (fun p0 : nat * outcome => is_ok (snd p0)) with okp.
  destruct (find okp (rev (proc s))) as [[w [v|e]]|] eqn:Ef; [discriminate | |].
  - apply find_some in Ef. destruct Ef as [_ H]. discriminate.
  - assert (Hlen : length (idx s) = n_of s).
    { apply Nat.le_antisymm.
      - apply pigeon; [exact Hnd|]. intros x Hx. apply Hproc. exact Hx.
      - rewrite <- (seq_length (n_of s) 0). apply NoDup_incl_length; [apply seq_NoDup|].
        intros x Hx. apply in_seq in Hx. apply Hall. lia. }
    unfold idx in Hlen. rewrite map_length in Hlen. rewrite rev_length, Hlen, Nat.eqb_refl. discriminate.
Qed.

Lemma step_top n0 s o : Top n0 s -> Top n0 (step KRace s o).
Proof.
  intros (HI & Ha & Hn). destruct o as [i x| |]; cbn [step cb_of]; [| |exact (conj HI (conj Ha Hn))].
  - destruct (Nat.ltb_spec i (n_of s)); [|exact (conj HI (conj Ha Hn))].
    destruct (res (get i s)) eqn:Hr; [exact (conj HI (conj Ha Hn))|].
    assert (Hn' : n_of (fire_in race_cb i x s) = n_of s) by apply (g_n_fire_in race_cb n_race_cb).
    split; [apply r_fire_in; assumption|]. split; [|lia].
    intros k Hk. rewrite (a_fire_in race_cb race_cb_attpres). apply Ha. lia.
  - destruct (agg s) eqn:Eagg; [exact (conj HI (conj Ha Hn))|].
    set (s1 := cancel_all race_cb (seq 0 (n_of s)) s).
    assert (Hjs : forall j, In j (seq 0 (n_of s)) -> j < n_of s) by (intros j Hj; apply in_seq in Hj; lia).
    assert (Hn1 : n_of s1 = n_of s) by apply (g_n_cancel_all race_cb n_race_cb).
    assert (HI1 : RInv s1) by (apply r_cancel_all; assumption).
    assert (Ha1 : AllAtt s1).
    { intros k Hk. unfold s1. rewrite (a_cancel_all race_cb race_cb_attpres). apply Ha. lia. }
    assert (Hf1 : forall k, k < n_of s1 -> has_fired s1 k).
    { intros k Hk. apply (m_cancel_all race_cb n_race_cb race_cb_mono); [exact Hjs|]. left. apply in_seq. lia. }
    assert (Hagg1 : agg s1 <> None).
    { apply all_processed_fired; [exact HI1|]. intros k Hk. destruct HI1 as [[_ _ Hdone _ _ _] _].
      destruct (Hdone k Hk (Ha1 k Hk) (Hf1 k Hk)) as [H|H]; [exact H | discriminate]. }
    destruct (agg s1) eqn:E1; [|congruence]. split; [exact HI1|]. split; [exact Ha1 | lia].
Qed.

Lemma run_top inputs ops : inputs <> [] -> Top (length inputs) (run KRace inputs ops).
Proof.
  intros Hne. unfold run. pose proof (construct_top inputs Hne) as H0. revert H0.
  generalize (construct KRace inputs) as s. induction ops as [|o r IH]; intros s H; [exact H|].
  cbn [fold_left]. apply IH. apply step_top. exact H.
Qed.

(** ---- sorting failure_state by index ---- *)
From Coq Require Import Sorted Permutation.

Definition le_idx (a b : nat * err) : Prop := fst a <= fst b.

Lemma insert_perm x l : Permutation (insert_by_index x l) (x :: l).
Proof.
  induction l as [|y r IH]; cbn; [reflexivity|]. destruct (Nat.leb (fst x) (fst y)); [reflexivity|].
  rewrite IH. apply perm_swap.
Qed.

Lemma sort_perm l : Permutation (sort_by_index l) l.
Proof. induction l as [|x r IH]; cbn; [reflexivity|]. rewrite insert_perm, IH. reflexivity. Qed.

Lemma insert_sorted x l : StronglySorted le_idx l -> StronglySorted le_idx (insert_by_index x l).
Proof.
  induction 1 as [|y r Hs IH Hy]; cbn; [repeat constructor|].
  destruct (Nat.leb_spec (fst x) (fst y)) as [H|H].
  - constructor; [constructor; assumption|]. constructor; [exact H|].
    rewrite Forall_forall in *. intros z Hz. specialize (Hy z Hz). unfold le_idx in *. lia.
  - constructor; [exact IH|]. rewrite Forall_forall in *. intros z Hz.
    apply (Permutation_in _ (insert_perm x r)) in Hz. destruct Hz as [<-|Hz]; [unfold le_idx; lia | apply Hy; exact Hz].
Qed.

Lemma sort_sorted l : StronglySorted le_idx (sort_by_index l).
Proof. induction l as [|x r IH]; cbn; [constructor | apply insert_sorted; exact IH]. Qed.

(** ---- reading [spec_race] ---- *)
Lemma spec_race_win n chron i v :
  spec_race n chron = Some (AWin i v) ->
  exists pre post, chron = pre ++ (i, Ok v) :: post /\ forall p, In p pre -> is_ok (snd p) = false.
Proof.
  unfold spec_race. change (fun p0 : nat * outcome => is_ok (snd p0)) with okp.
  destruct (find okp chron) as [[j [vj|ej]]|] eqn:Ef.
  - intros [= <- <-]. clear n. induction chron as [|[k ok] r IH]; [discriminate|]. cbn in Ef.
    destruct ok as [v'|e']; cbn in Ef.
    + inversion Ef; subst. exists [], r. split; [reflexivity | intros p []].
    + destruct (IH Ef) as (pre & post & E & Hp). exists ((k, Fail e') :: pre), post. split; [rewrite E; reflexivity|].
      intros p [<-|Hin]; [reflexivity | apply Hp; exact Hin].
  - discriminate.
  - destruct (Nat.eqb (length chron) n); discriminate.
Qed.

Lemma spec_race_group n chron l :
  spec_race n chron = Some (AGroup l) ->
  (forall p, In p chron -> is_ok (snd p) = false) /\ length chron = n /\
  exists fs, l = map snd fs /\ Permutation fs (fails_of chron) /\ StronglySorted le_idx fs /\ length fs = n.
Proof.
  unfold spec_race. change (fun p0 : nat * outcome => is_ok (snd p0)) with okp.
  destruct (find okp chron) as [[j [vj|ej]]|] eqn:Ef; try discriminate.
  destruct (Nat.eqb_spec (length chron) n) as [E|E]; [|discriminate]. intros [= <-].
  split; [|split; [exact E|]].
  - intros p Hp. pose proof (find_none _ _ Ef p Hp) as H. exact H.
  - exists (sort_by_index (fails_of chron)). split; [reflexivity|]. split; [apply sort_perm|]. split; [apply sort_sorted|].
    rewrite (Permutation_length (sort_perm _)). rewrite (fails_len_none _ Ef). exact E.
Qed.

(** the canceller of an input is called exactly when the input has not fired (any aggregate) *)
Definition cancel_outcome (c : cbeh) : outcome :=
  match c with CNothing => Fail ECancelled | CSucceed z => Ok (VInt z) | CFail k => Fail (EUser k) end.

Lemma cancel_input_cases cb i s :
  (res (get i s) = None ->
   cancel_input cb i s = fire_in cb i (cancel_outcome (canc (get i s))) (emit (ECancel i) s)) /\
  (res (get i s) <> None -> cancel_input cb i s = s).
Proof.
  unfold cancel_input. destruct (res (get i s)); split; try congruence; intros _.
  change (get i (emit (ECancel i) s)) with (get i s). destruct (canc (get i s)); reflexivity.
Qed.

(** ---- consequences, in the words of the property ---- *)
Section RaceFacts.
  Variables (inputs : list input) (ops : list op).
  Hypothesis Hne : inputs <> [].
  Let s := run KRace inputs ops.
  Let n := length inputs.

  Lemma rf_top : Top n s. Proof. apply run_top. exact Hne. Qed.

  Lemma rf_refines : agg s = spec_race n (rev (proc s)).
  Proof. destruct rf_top as ([_ [H _]] & _ & Hn). rewrite <- Hn. exact H. Qed.

  Lemma rf_once : length (aggs (log s)) <= 1 /\ twice (log s) = false /\
                  (forall r, In r (aggs (log s)) <-> agg s = Some r).
  Proof.
    destruct rf_top as ([[_ _ _ _ _ [H1 H2]] _] & _). rewrite H1. destruct (agg s); cbn.
    - repeat split; auto. + intros [<-|[]]. reflexivity. + intros [= <-]. left. reflexivity.
    - repeat split; auto; intros; try contradiction; discriminate.
  Qed.

  Lemma rf_processed_once : NoDup (idx s) /\ forall i, In i (idx s) -> i < n /\ res (get i s) <> None.
  Proof.
    destruct rf_top as ([[Hnd Hproc _ _ _ _] _] & _ & Hn). split; [exact Hnd|]. intros i Hi.
    destruct (Hproc i Hi) as (A & _ & C). rewrite <- Hn. auto.
  Qed.

  Lemma rf_win_all_fired i v : agg s = Some (AWin i v) -> forall k, k < n -> res (get k s) <> None.
  Proof.
    intros Ha. destruct rf_top as ([[_ _ _ _ Hwin _] [Hagg Hall]] & _ & Hn). rewrite <- Hn.
    apply Hall. rewrite Hwin. rewrite Ha in Hagg. unfold spec_race in Hagg.
    change (fun p0 : nat * outcome => is_ok (snd p0)) with okp in Hagg.
    destruct (find okp (rev (proc s))) as [[w ow]|]; [cbn; discriminate|].
    destruct (Nat.eqb (length (rev (proc s))) (n_of s)); discriminate.
  Qed.

  Lemma rf_not_cancelled_error : agg s <> Some ACancelled.
  Proof.
    rewrite rf_refines. unfold spec_race. destruct (find _ (rev (proc s))) as [[w [v|e]]|]; try discriminate.
    destruct (Nat.eqb _ n); discriminate.
  Qed.
End RaceFacts.

Lemma rf_cancel inputs ops : inputs <> [] ->
  let s' := run KRace inputs (ops ++ [CancelAgg]) in
  agg s' <> None /\ agg s' <> Some ACancelled /\ forall k, k < length inputs -> res (get k s') <> None.
Proof.
  intros Hne s'. pose proof (rf_top inputs (ops ++ [CancelAgg]) Hne) as HT. fold s' in HT.
  pose proof (rf_not_cancelled_error inputs (ops ++ [CancelAgg]) Hne) as Hnc. fold s' in Hnc.
  assert (Hs' : s' = step KRace (run KRace inputs ops) CancelAgg).
  { unfold s', run. rewrite fold_left_app. reflexivity. }
  pose proof (rf_top inputs ops Hne) as (HI & Ha & Hn). set (s := run KRace inputs ops) in *.
  assert (Hfired : agg s' <> None /\ forall k, k < n_of s' -> has_fired s' k).
  { rewrite Hs'. cbn [step cb_of]. destruct (agg s) eqn:Eagg.
    - split; [rewrite Eagg; discriminate|]. intros k Hk.
      (* already fired: by a success (all others were cancelled then) or by all failing (all processed) *)
      destruct HI as [[Hnd Hproc Hdone Hfs Hwin Hlog] [Hagg Hall]].
      destruct (winner s) eqn:Ew; [apply Hall; [discriminate | exact Hk]|].
      rewrite Hwin in Ew. rewrite Eagg in Hagg. unfold spec_race in Hagg.
      change (fun p0 : nat * outcome => is_ok (snd p0)) with okp in Hagg.
      destruct (find okp (rev (proc s))) as [p|]; [discriminate|].
      destruct (Nat.eqb_spec (length (rev (proc s))) (n_of s)) as [E|E]; [|discriminate].
      rewrite rev_length in E.
      assert (Hincl : incl (seq 0 (n_of s)) (idx s)).
      { apply NoDup_length_incl; [exact Hnd | unfold idx; rewrite seq_length, map_length; lia |].
        intros x Hx. apply in_seq. destruct (Hproc x Hx). lia. }
      assert (Hin : In k (idx s)) by (apply Hincl; apply in_seq; lia).
      apply (Hproc k Hin).
    - set (s1 := cancel_all race_cb (seq 0 (n_of s)) s).
      assert (Hjs : forall j, In j (seq 0 (n_of s)) -> j < n_of s) by (intros j Hj; apply in_seq in Hj; lia).
      assert (Hn1 : n_of s1 = n_of s) by apply (g_n_cancel_all race_cb n_race_cb).
      assert (Hf1 : forall k, k < n_of s1 -> has_fired s1 k).
      { intros k Hk. apply (m_cancel_all race_cb n_race_cb race_cb_mono); [exact Hjs|]. left. apply in_seq. lia. }
      destruct (agg s1) eqn:E1.
      + split; [rewrite E1; discriminate | exact Hf1].
      + split; [cbn; discriminate|]. intros k Hk. apply Hf1. exact Hk. }
  destruct Hfired as [H1 H2]. split; [exact H1|]. split; [exact Hnc|].
  destruct HT as (_ & _ & Hn'). intros k Hk. apply H2. lia.
Qed.
