(** C04: lifting an invariant of one callback invocation through fire / attach / cancel loops (generic in the
    aggregate's callback), and monotonicity of "this input has fired". *)
From Coq Require Import List Arith ZArith Bool Lia.
From C04 Require Import Model ProofsBase.
Import ListNotations.

Definition has_fired (s : st) (i : nat) : Prop := res (get i s) <> None.

Section Lift.
  Variable cb : st -> nat -> outcome -> st * outcome.
  (** [P]: invariant between callback invocations.  [Q i o s]: input i (attached) has just been given the result o
      in s and the aggregate's callback is about to run on it. *)
  Variables (P : st -> Prop) (Q : nat -> outcome -> st -> Prop).

  Hypothesis H_n : forall s i o, n_of (fst (cb s i o)) = n_of s.
  Hypothesis H_res : forall s i o, P s -> i < n_of s -> res (get i s) = None ->
    if att (get i s) then Q i o (upd i (set_res o) s) else P (upd i (set_res o) s).
  Hypothesis H_att : forall s i, P s -> i < n_of s -> att (get i s) = false ->
    match res (get i s) with Some o => Q i o (upd i set_att s) | None => P (upd i set_att s) end.
  Hypothesis H_cb : forall s i o, Q i o s -> P (upd i (set_res (snd (cb s i o))) (fst (cb s i o))).
  Hypothesis H_emit : forall s j, P s -> P (emit (ECancel j) s).

  Lemma g_n_fire_in s i o : n_of (fire_in cb i o s) = n_of s.
  Proof.
    unfold fire_in. destruct (att (get i (upd i (set_res o) s))); [|apply n_upd].
    pose proof (H_n (upd i (set_res o) s) i o) as H. destruct (cb (upd i (set_res o) s) i o). cbn [fst snd] in *.
    rewrite n_upd, H. apply n_upd.
  Qed.

  Lemma g_n_attach s i : n_of (attach cb i s) = n_of s.
  Proof.
    unfold attach. destruct (res (get i (upd i set_att s))) as [o|]; [|apply n_upd].
    pose proof (H_n (upd i set_att s) i o) as H. destruct (cb (upd i set_att s) i o). cbn [fst snd] in *.
    rewrite n_upd, H. apply n_upd.
  Qed.

  Lemma g_n_cancel_input s i : n_of (cancel_input cb i s) = n_of s.
  Proof.
    unfold cancel_input. destruct (res (get i s)); [reflexivity|].
    destruct (canc (get i (emit (ECancel i) s))); rewrite g_n_fire_in; reflexivity.
  Qed.

  Lemma g_n_cancel_all js : forall s, n_of (cancel_all cb js s) = n_of s.
  Proof.
    unfold cancel_all. induction js as [|j r IH]; intros s; [reflexivity|]. cbn [fold_left]. rewrite IH.
    apply g_n_cancel_input.
  Qed.

  Lemma g_fire_in s i o : P s -> i < n_of s -> res (get i s) = None -> P (fire_in cb i o s).
  Proof.
    intros HP Hi Hr. unfold fire_in. pose proof (H_res s i o HP Hi Hr) as H1.
    assert (Ha : att (get i (upd i (set_res o) s)) = att (get i s)).
    { rewrite get_upd by exact Hi. rewrite Nat.eqb_refl. reflexivity. }
    rewrite Ha. destruct (att (get i s)); [|exact H1].
    pose proof (H_cb _ _ _ H1) as H2. destruct (cb (upd i (set_res o) s) i o). exact H2.
  Qed.

  Lemma g_attach s i : P s -> i < n_of s -> att (get i s) = false -> P (attach cb i s).
  Proof.
    intros HP Hi Ha. unfold attach. pose proof (H_att s i HP Hi Ha) as H1.
    assert (Hr : res (get i (upd i set_att s)) = res (get i s)).
    { rewrite get_upd by exact Hi. rewrite Nat.eqb_refl. reflexivity. }
    rewrite Hr. destruct (res (get i s)) as [o|]; [|exact H1].
    pose proof (H_cb _ _ _ H1) as H2. destruct (cb (upd i set_att s) i o). exact H2.
  Qed.

  Lemma g_cancel_input s i : P s -> i < n_of s -> P (cancel_input cb i s).
  Proof.
    intros HP Hi. unfold cancel_input. destruct (res (get i s)) eqn:Hr; [exact HP|].
    pose proof (H_emit s i HP) as H1.
    destruct (canc (get i (emit (ECancel i) s))); apply g_fire_in; auto.
  Qed.

  Lemma g_cancel_all js : forall s, P s -> (forall j, In j js -> j < n_of s) -> P (cancel_all cb js s).
  Proof.
    unfold cancel_all. induction js as [|j r IH]; intros s HP Hjs; [exact HP|]. cbn [fold_left].
    apply IH.
    - apply g_cancel_input; [exact HP | apply Hjs; left; reflexivity].
    - intros k Hk. rewrite g_n_cancel_input. apply Hjs. right. exact Hk.
  Qed.

  (** callbacks never detach anything *)
  Hypothesis H_attpres : forall s i o j, att (get j (fst (cb s i o))) = att (get j s).

  Lemma g_att_attach_other s i j : i < n_of s -> j <> i -> att (get j (attach cb i s)) = att (get j s).
  Proof.
    intros Hi Hne. unfold attach.
    assert (H1 : att (get j (upd i set_att s)) = att (get j s)).
    { rewrite get_upd by exact Hi. destruct (Nat.eqb_spec j i); [contradiction | reflexivity]. }
    destruct (res (get i (upd i set_att s))) as [o|]; [|exact H1].
    pose proof (H_attpres (upd i set_att s) i o j) as E. pose proof (H_n (upd i set_att s) i o) as En.
    destruct (cb (upd i set_att s) i o) as [s2 o']. cbn [fst] in *.
    rewrite get_upd by (rewrite En, n_upd; exact Hi).
    destruct (Nat.eqb_spec j i); [contradiction|]. rewrite E. exact H1.
  Qed.

  Lemma g_att_attach_self s i : i < n_of s -> att (get i (attach cb i s)) = true.
  Proof.
    intros Hi. unfold attach.
    assert (H1 : att (get i (upd i set_att s)) = true).
    { rewrite get_upd by exact Hi. rewrite Nat.eqb_refl. reflexivity. }
    destruct (res (get i (upd i set_att s))) as [o|]; [|exact H1].
    pose proof (H_attpres (upd i set_att s) i o i) as E. pose proof (H_n (upd i set_att s) i o) as En.
    destruct (cb (upd i set_att s) i o) as [s2 o']. cbn [fst] in *.
    rewrite get_upd by (rewrite En, n_upd; exact Hi). rewrite Nat.eqb_refl. cbn. rewrite E. exact H1.
  Qed.

  Lemma g_attach_list l : forall s, P s -> NoDup l ->
    (forall j, In j l -> j < n_of s /\ att (get j s) = false) -> P (fold_left (fun s i => attach cb i s) l s).
  Proof.
    induction l as [|i r IH]; intros s HP Hnd Hl; [exact HP|]. cbn [fold_left].
    inversion Hnd as [|? ? Hni Hnd']; subst.
    destruct (Hl i (or_introl eq_refl)) as (Hi & Ha).
    apply IH; [apply g_attach; assumption | exact Hnd' |].
    intros j Hj. rewrite g_n_attach. destruct (Hl j (or_intror Hj)) as (Hj1 & Hj2). split; [exact Hj1|].
    rewrite g_att_attach_other; [exact Hj2 | exact Hi | intros ->; contradiction].
  Qed.

  Lemma g_n_attach_list l : forall s, n_of (fold_left (fun s i => attach cb i s) l s) = n_of s.
  Proof. induction l as [|i r IH]; intros s; [reflexivity|]. cbn [fold_left]. rewrite IH. apply g_n_attach. Qed.
End Lift.

(** ---- "input k has fired" is never undone, and cancel makes it true ---- *)
Section Mono.
  Variable cb : st -> nat -> outcome -> st * outcome.
  Hypothesis H_n : forall s i o, n_of (fst (cb s i o)) = n_of s.
  Hypothesis H_mono : forall s i o k, has_fired s k -> has_fired (fst (cb s i o)) k.

  Lemma m_fire_in s i o k : i < n_of s ->
    has_fired (fire_in cb i o s) i /\ (has_fired s k -> has_fired (fire_in cb i o s) k).
  Proof.
    intros Hi. unfold fire_in. set (s1 := upd i (set_res o) s).
    assert (H1 : has_fired s1 i /\ (has_fired s k -> has_fired s1 k)).
    { unfold has_fired, s1. rewrite !get_upd by exact Hi. rewrite Nat.eqb_refl. split; [cbn; discriminate|].
      destruct (Nat.eqb k i); [cbn; discriminate | auto]. }
    destruct (att (get i s1)); [|exact H1].
    assert (Hi1 : i < n_of s1) by (unfold s1; rewrite n_upd; exact Hi).
    pose proof (H_n s1 i o) as En. pose proof (H_mono s1 i o) as Hm.
    destruct (cb s1 i o) as [s2 o']. cbn [fst snd] in *.
    assert (Hi2 : i < n_of s2) by lia.
    unfold has_fired in *. rewrite !get_upd by exact Hi2. rewrite Nat.eqb_refl. split; [cbn; discriminate|].
    destruct (Nat.eqb k i); [cbn; discriminate|]. intros H. apply Hm, H1, H.
  Qed.

  Lemma m_cancel_input s i k : i < n_of s ->
    has_fired (cancel_input cb i s) i /\ (has_fired s k -> has_fired (cancel_input cb i s) k).
  Proof.
    intros Hi. unfold cancel_input. destruct (res (get i s)) eqn:Hr.
    - split; [unfold has_fired; rewrite Hr; discriminate | auto].
    - destruct (canc (get i (emit (ECancel i) s)));
        match goal with |- context [fire_in cb i ?o ?s0] => destruct (m_fire_in s0 i o k Hi) as [F1 F2] end;
        (split; [exact F1 | intros H; apply F2; exact H]).
  Qed.

  Lemma m_n_cancel_input s i : n_of (cancel_input cb i s) = n_of s.
  Proof.
    unfold cancel_input. destruct (res (get i s)); [reflexivity|].
    assert (Hf : forall o s0, n_of (fire_in cb i o s0) = n_of s0).
    { intros o s0. unfold fire_in. destruct (att (get i (upd i (set_res o) s0))); [|apply n_upd].
      pose proof (H_n (upd i (set_res o) s0) i o) as H. destruct (cb (upd i (set_res o) s0) i o). cbn [fst] in *.
      rewrite n_upd, H. apply n_upd. }
    destruct (canc (get i (emit (ECancel i) s))); rewrite Hf; reflexivity.
  Qed.

  Lemma m_cancel_all js : forall s, (forall j, In j js -> j < n_of s) ->
    forall k, (In k js \/ has_fired s k) -> has_fired (cancel_all cb js s) k.
  Proof.
    unfold cancel_all. induction js as [|j r IH]; intros s Hjs k Hk; cbn [fold_left].
    - destruct Hk as [[]|Hk]. exact Hk.
    - assert (Hj : j < n_of s) by (apply Hjs; left; reflexivity).
      apply IH.
      + intros x Hx. rewrite m_n_cancel_input. apply Hjs. right. exact Hx.
      + destruct (m_cancel_input s j k Hj) as [C1 C2].
        destruct Hk as [[->|Hk]|Hk]; [right; exact C1 | left; exact Hk | right; apply C2, Hk].
  Qed.
End Mono.

(** ---- callbacks that never detach keep every input attached through fire / cancel loops ---- *)
Section AttPres.
  Variable cb : st -> nat -> outcome -> st * outcome.
  Hypothesis H_attpres : forall s i o j, att (get j (fst (cb s i o))) = att (get j s).

  Lemma a_fire_in s i o k : att (get k (fire_in cb i o s)) = att (get k s).
  Proof.
    unfold fire_in. destruct (att (get i (upd i (set_res o) s))); [|apply att_upd_res].
    pose proof (H_attpres (upd i (set_res o) s) i o k) as H. destruct (cb (upd i (set_res o) s) i o) as [s2 o'].
    cbn [fst] in H. rewrite att_upd_res, H. apply att_upd_res.
  Qed.

  Lemma a_cancel_input s i k : att (get k (cancel_input cb i s)) = att (get k s).
  Proof.
    unfold cancel_input. destruct (res (get i s)); [reflexivity|].
    destruct (canc (get i (emit (ECancel i) s))); rewrite a_fire_in; reflexivity.
  Qed.

  Lemma a_cancel_all js : forall s k, att (get k (cancel_all cb js s)) = att (get k s).
  Proof.
    unfold cancel_all. induction js as [|j r IH]; intros s k; [reflexivity|]. cbn [fold_left]. rewrite IH.
    apply a_cancel_input.
  Qed.
End AttPres.
