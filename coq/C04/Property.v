(** C04 property theorems (DeferredList and gatherResults): for every non-empty list of inputs, of which any
    subset has already fired when the aggregate is built, every canceller behaviour, every flag combination and
    every schedule of later firings and cancellations of the aggregate.  [proc s] is the ghost list of
    (index, outcome) pairs in the order in which the aggregate's callback processed them (newest first).
    race is modelled and tied to the code by the correspondence check and the oracle only (no theorem yet). *)
From Coq Require Import List Arith ZArith Bool.
From C04 Require Import Model Proofs.
Import ListNotations.

(** the DeferredList fires at most once, is never fired a second time, and the log agrees with its result *)
Theorem dl_fires_once : forall f1 f2 ce inputs ops, inputs <> [] ->
  let s := run (KList f1 f2 ce) inputs ops in
  length (aggs (log s)) <= 1 /\ twice (log s) = false /\ (forall r, In r (aggs (log s)) <-> agg s = Some r).
Proof. exact fact_once. Qed.
Print Assumptions dl_fires_once.

(** the bookkeeping (resultList, finishedCount, called) computes exactly the specification: fire at the first
    processed success (fireOnOneCallback) / failure (fireOnOneErrback), otherwise when all inputs have been
    processed, with the outcomes listed by input position *)
Theorem dl_result_refines_spec : forall f1 f2 ce inputs ops, inputs <> [] ->
  let s := run (KList f1 f2 ce) inputs ops in
  agg s = spec_dl f1 f2 (length inputs) (rev (proc s)).
Proof. exact fact_refines. Qed.
Print Assumptions dl_result_refines_spec.

Theorem dl_each_input_processed_at_most_once : forall f1 f2 ce inputs ops, inputs <> [] ->
  let s := run (KList f1 f2 ce) inputs ops in
  NoDup (idx s) /\ forall i, In i (idx s) -> i < length inputs /\ res (get i s) <> None.
Proof. exact fact_processed_once. Qed.
Print Assumptions dl_each_input_processed_at_most_once.

(** a list result has one (success, result) entry per input, at the input's position, whatever the firing order *)
Theorem dl_result_in_input_order : forall f1 f2 ce inputs ops l, inputs <> [] ->
  let s := run (KList f1 f2 ce) inputs ops in
  agg s = Some (AList l) ->
  length l = length inputs /\
  forall i, i < length inputs -> exists o, nth i l None = Some o /\ In (i, o) (proc s).
Proof. exact fact_list_in_input_order. Qed.
Print Assumptions dl_result_in_input_order.

(** fireOnOne*: the result names the first processed input that succeeded (failed) *)
Theorem dl_fireOnOne_result : forall f1 f2 n chron,
  (forall v i, spec_dl f1 f2 n chron = Some (APair v i) ->
     f1 = true /\ exists pre post, chron = pre ++ (i, Ok v) :: post /\ forall p, In p pre -> hit f1 f2 p = false) /\
  (forall e i, spec_dl f1 f2 n chron = Some (AFirstError e i) ->
     f2 = true /\ exists pre post, chron = pre ++ (i, Fail e) :: post /\ forall p, In p pre -> hit f1 f2 p = false).
Proof. exact spec_first_hit. Qed.
Print Assumptions dl_fireOnOne_result.

(** consumeErrors: a callback added to an input after the DeferredList sees None instead of the failure
    (and the unchanged result otherwise) *)
Theorem dl_consumeErrors_later_callbacks_see_None : forall f1 f2 ce inputs ops, inputs <> [] ->
  let s := run (KList f1 f2 ce) inputs ops in
  forall i o, In (i, o) (proc s) -> res (get i s) = Some (passthru ce o).
Proof. exact fact_later_callbacks. Qed.
Print Assumptions dl_consumeErrors_later_callbacks_see_None.

(** gatherResults: fires at most once; with the first processed failure (FirstError with its index) or, when every
    input has been processed and none failed, with the list (whose entries are then all successes, so that
    _parseDeferredListResult's assertion holds and the user sees the values in input order) *)
Theorem gather_fires_once : forall ce inputs ops, inputs <> [] ->
  let s := run (KGather ce) inputs ops in length (aggs (log s)) <= 1 /\ twice (log s) = false.
Proof. exact fact_gather_once. Qed.
Print Assumptions gather_fires_once.

Theorem gather_result_refines_spec : forall ce inputs ops, inputs <> [] ->
  let s := run (KGather ce) inputs ops in
  agg s = spec_dl false true (length inputs) (rev (proc s)).
Proof. exact fact_gather_refines. Qed.
Print Assumptions gather_result_refines_spec.

Theorem gather_values_or_first_failure : forall n chron r,
  spec_dl false true n chron = Some r ->
  (exists i e, r = AFirstError e i /\ exists pre post, chron = pre ++ (i, Fail e) :: post /\
                                      forall p, In p pre -> is_ok (snd p) = true) \/
  (exists l, r = AList l /\ forall p, In p chron -> is_ok (snd p) = true).
Proof. exact spec_gather. Qed.
Print Assumptions gather_values_or_first_failure.

(** cancelling an unfired DeferredList cancels its inputs: afterwards every input has fired; an input's canceller
    is called exactly when the input has not fired yet (an already fired input is left alone).
    (For gatherResults the same lemmas apply with the flags (false, true); for race: not proved.) *)
Theorem dl_cancel_aggregate_fires_every_input : forall f1 f2 ce s, agg s = None ->
  forall i, i < n_of s -> res (get i (step (KList f1 f2 ce) s CancelAgg)) <> None.
Proof. exact fact_cancel_fires_all. Qed.
Print Assumptions dl_cancel_aggregate_fires_every_input.

Theorem dl_canceller_called_iff_input_pending : forall f1 f2 ce s i,
  (res (get i s) = None ->
   exists l, log (cancel_input (dl_cb f1 f2 ce) i s) = l ++ ECancel i :: log s) /\
  (res (get i s) <> None -> cancel_input (dl_cb f1 f2 ce) i s = s).
Proof. exact cancel_input_log. Qed.
Print Assumptions dl_canceller_called_iff_input_pending.

(** a non-trivial schedule: three inputs, the middle one fired before construction, fired in the order 2, 0 *)
Example nontrivial_schedule :
  let s := run (KList false false true) [(CNothing, None); (CNothing, Some (Fail (EUser 1))); (CNothing, None)]
               [Fire 2 (Ok (VInt 12)); Fire 0 (Ok (VInt 10))] in
  agg s = Some (AList [Some (Ok (VInt 10)); Some (Fail (EUser 1)); Some (Ok (VInt 12))])
  /\ rev (idx s) = [1; 2; 0] /\ res (get 1 s) = Some (Ok VNone).
Proof. vm_compute. repeat split. Qed.
