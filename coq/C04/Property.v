(** C04 property theorems (DeferredList and gatherResults): for every non-empty list of inputs, of which any
    subset has already fired when the aggregate is built, every canceller behaviour, every flag combination and
    every schedule of later firings and cancellations of the aggregate.  [proc s] is the ghost list of
    (index, outcome) pairs in the order in which the aggregate's callback processed them (newest first).
    The race theorems are at the end. *)
From Coq Require Import List Arith ZArith Bool Sorted Permutation.
From C04 Require Import Model Proofs.
Import ListNotations.

(** the DeferredList fires at most once, is never fired a second time, and the log agrees with its result *)
Theorem dl_fires_once : forall f1 f2 ce inputs ops, inputs <> [] ->
  let s := run (KList f1 f2 ce) inputs ops in
  length (aggs (log s)) <= 1 /\ twice (log s) = false /\ (forall r, In r (aggs (log s)) <-> agg s = Some r).
Proof. exact fact_once. Qed.
Print Assumptions dl_fires_once.

(** the bookkeeping (resultList, finishedCount, called) computes exactly the specification: fire at the first
    processed success (fireOnOneCallback) / failure (fireOnOneErrback), otherwise when all inputs have been
    processed, with the outcomes listed by input position *)
Theorem dl_result_refines_spec : forall f1 f2 ce inputs ops, inputs <> [] ->
  let s := run (KList f1 f2 ce) inputs ops in
  agg s = spec_dl f1 f2 (length inputs) (rev (proc s)).
Proof. exact fact_refines. Qed.
Print Assumptions dl_result_refines_spec.

Theorem dl_each_input_processed_at_most_once : forall f1 f2 ce inputs ops, inputs <> [] ->
  let s := run (KList f1 f2 ce) inputs ops in
  NoDup (idx s) /\ forall i, In i (idx s) -> i < length inputs /\ res (get i s) <> None.
Proof. exact fact_processed_once. Qed.
Print Assumptions dl_each_input_processed_at_most_once.

(** a list result has one (success, result) entry per input, at the input's position, whatever the firing order *)
Theorem dl_result_in_input_order : forall f1 f2 ce inputs ops l, inputs <> [] ->
  let s := run (KList f1 f2 ce) inputs ops in
  agg s = Some (AList l) ->
  length l = length inputs /\
  forall i, i < length inputs -> exists o, nth i l None = Some o /\ In (i, o) (proc s).
Proof. exact fact_list_in_input_order. Qed.
Print Assumptions dl_result_in_input_order.

(** fireOnOne*: the result names the first processed input that succeeded (failed) *)
Theorem dl_fireOnOne_result : forall f1 f2 n chron,
  (forall v i, spec_dl f1 f2 n chron = Some (APair v i) ->
     f1 = true /\ exists pre post, chron = pre ++ (i, Ok v) :: post /\ forall p, In p pre -> hit f1 f2 p = false) /\
  (forall e i, spec_dl f1 f2 n chron = Some (AFirstError e i) ->
     f2 = true /\ exists pre post, chron = pre ++ (i, Fail e) :: post /\ forall p, In p pre -> hit f1 f2 p = false).
Proof. exact spec_first_hit. Qed.
Print Assumptions dl_fireOnOne_result.

(** consumeErrors: a callback added to an input after the DeferredList sees None instead of the failure
    (and the unchanged result otherwise) *)
Theorem dl_consumeErrors_later_callbacks_see_None : forall f1 f2 ce inputs ops, inputs <> [] ->
  let s := run (KList f1 f2 ce) inputs ops in
  forall i o, In (i, o) (proc s) -> res (get i s) = Some (passthru ce o).
Proof. exact fact_later_callbacks. Qed.
Print Assumptions dl_consumeErrors_later_callbacks_see_None.

(** gatherResults: fires at most once; with the first processed failure (FirstError with its index) or, when every
    input has been processed and none failed, with the list (whose entries are then all successes, so that
    _parseDeferredListResult's assertion holds and the user sees the values in input order) *)
Theorem gather_fires_once : forall ce inputs ops, inputs <> [] ->
  let s := run (KGather ce) inputs ops in length (aggs (log s)) <= 1 /\ twice (log s) = false.
Proof. exact fact_gather_once. Qed.
Print Assumptions gather_fires_once.

Theorem gather_result_refines_spec : forall ce inputs ops, inputs <> [] ->
  let s := run (KGather ce) inputs ops in
  agg s = spec_dl false true (length inputs) (rev (proc s)).
Proof. exact fact_gather_refines. Qed.
Print Assumptions gather_result_refines_spec.

Theorem gather_values_or_first_failure : forall n chron r,
  spec_dl false true n chron = Some r ->
  (exists i e, r = AFirstError e i /\ exists pre post, chron = pre ++ (i, Fail e) :: post /\
                                      forall p, In p pre -> is_ok (snd p) = true) \/
  (exists l, r = AList l /\ forall p, In p chron -> is_ok (snd p) = true).
Proof. exact spec_gather. Qed.
Print Assumptions gather_values_or_first_failure.

(** cancelling an unfired DeferredList cancels its inputs: afterwards every input has fired; an input's canceller
    is called exactly when the input has not fired yet (an already fired input is left alone).
    (For gatherResults the same lemmas apply with the flags (false, true); for race see below.) *)
Theorem dl_cancel_aggregate_fires_every_input : forall f1 f2 ce s, agg s = None ->
  forall i, i < n_of s -> res (get i (step (KList f1 f2 ce) s CancelAgg)) <> None.
Proof. exact fact_cancel_fires_all. Qed.
Print Assumptions dl_cancel_aggregate_fires_every_input.

Theorem dl_canceller_called_iff_input_pending : forall f1 f2 ce s i,
  (res (get i s) = None ->
   exists l, log (cancel_input (dl_cb f1 f2 ce) i s) = l ++ ECancel i :: log s) /\
  (res (get i s) <> None -> cancel_input (dl_cb f1 f2 ce) i s = s).
Proof. exact cancel_input_log. Qed.
Print Assumptions dl_canceller_called_iff_input_pending.

(** in particular an input that has already fired ([called]) but has not delivered its result — its chain is suspended
    on a pending inner Deferred — is cancelled like any other undelivered input (the cancel is forwarded to the inner
    Deferred): what decides is "delivered", not [called] *)
Theorem dl_cancel_reaches_called_but_undelivered_inputs : forall f1 f2 ce s i,
  called (get i s) = true -> res (get i s) = None ->
  exists l, log (cancel_input (dl_cb f1 f2 ce) i s) = l ++ ECancel i :: log s.
Proof. intros f1 f2 ce s i _ H. exact (proj1 (cancel_input_log f1 f2 ce s i) H). Qed.
Print Assumptions dl_cancel_reaches_called_but_undelivered_inputs.

(** the aggregate does not depend on what the caller does afterwards with the list object it passed: it works on its
    own copy (DeferredList._deferredList, race's to_cancel), so a mutation of the argument is not a step of the aggregate *)
Theorem aggregate_independent_of_argument_mutation : forall k s, step k s MutateArg = s.
Proof. reflexivity. Qed.
Print Assumptions aggregate_independent_of_argument_mutation.

(** ---- race ---- *)

(** the result Deferred of race fires at most once; neither of the two unguarded firings in the code
    ([final_result.callback] in [succeeded], [final_result.errback] in [failed]) ever hits a fired Deferred *)
Theorem race_fires_once : forall inputs ops, inputs <> [] ->
  let s := run KRace inputs ops in
  length (aggs (log s)) <= 1 /\ twice (log s) = false /\ (forall r, In r (aggs (log s)) <-> agg s = Some r).
Proof. exact rf_once. Qed.
Print Assumptions race_fires_once.

(** winner / failure_state compute the specification, through the cancel loop nested in [succeeded] and through
    cancellation of the race itself: the first processed success wins; otherwise, when every input has been
    processed, the FailureGroup; it never ends in a bare CancelledError *)
Theorem race_result_refines_spec : forall inputs ops, inputs <> [] ->
  let s := run KRace inputs ops in
  agg s = spec_race (length inputs) (rev (proc s)).
Proof. exact rf_refines. Qed.
Print Assumptions race_result_refines_spec.

Theorem race_each_input_processed_at_most_once : forall inputs ops, inputs <> [] ->
  let s := run KRace inputs ops in
  NoDup (idx s) /\ forall i, In i (idx s) -> i < length inputs /\ res (get i s) <> None.
Proof. exact rf_processed_once. Qed.
Print Assumptions race_each_input_processed_at_most_once.

(** race fires with (index, value) of the first success processed ... *)
Theorem race_first_success_wins : forall n chron i v,
  spec_race n chron = Some (AWin i v) ->
  exists pre post, chron = pre ++ (i, Ok v) :: post /\ forall p, In p pre -> is_ok (snd p) = false.
Proof. exact spec_race_win. Qed.
Print Assumptions race_first_success_wins.

(** ... and by then every other input has been cancelled: no input is left unfired (an input's canceller is
    called exactly when it has not fired, [canceller_called_iff_input_pending]) *)
Theorem race_first_success_cancels_others : forall inputs ops i v, inputs <> [] ->
  let s := run KRace inputs ops in
  agg s = Some (AWin i v) -> forall k, k < length inputs -> res (get k s) <> None.
Proof. intros inputs ops i v Hne. exact (rf_win_all_fired inputs ops Hne i v). Qed.
Print Assumptions race_first_success_cancels_others.

Theorem canceller_called_iff_input_pending : forall cb i s,
  (res (get i s) = None ->
   cancel_input cb i s = fire_in cb i (cancel_outcome (canc (get i s))) (emit (ECancel i) s)) /\
  (res (get i s) <> None -> cancel_input cb i s = s).
Proof. exact cancel_input_cases. Qed.
Print Assumptions canceller_called_iff_input_pending.

(** if all fail, race fails with all the failures in input order: no success was processed, all n inputs were,
    and the group lists the processed failures (a permutation of them) sorted by input index *)
Theorem race_all_fail_in_input_order : forall n chron l,
  spec_race n chron = Some (AGroup l) ->
  (forall p, In p chron -> is_ok (snd p) = false) /\ length chron = n /\
  exists fs, l = map snd fs /\ Permutation fs (fails_of chron) /\ StronglySorted le_idx fs /\ length fs = n.
Proof. exact spec_race_group. Qed.
Print Assumptions race_all_fail_in_input_order.

(** cancelling a race (at any point of any schedule) cancels its inputs: afterwards every input has fired and
    the race has fired with the winner or the FailureGroup, never with a bare CancelledError *)
Theorem race_cancel_cancels_inputs_and_fires : forall inputs ops, inputs <> [] ->
  let s' := run KRace inputs (ops ++ [CancelAgg]) in
  agg s' <> None /\ agg s' <> Some ACancelled /\ forall k, k < length inputs -> res (get k s') <> None.
Proof. exact rf_cancel. Qed.
Print Assumptions race_cancel_cancels_inputs_and_fires.

(** a non-trivial race: input 1 succeeds first; input 0 (pending) is cancelled and fails, input 2's canceller
    fires it with a value, which is ignored *)
Example nontrivial_race :
  let s := run KRace [(CNothing, None, false); (CNothing, None, true); (CSucceed 5, None, false)] [Fire 1 (Ok (VInt 11))] in
  agg s = Some (AWin 1 (VInt 11)) /\ rev (cancels (log s)) = [0; 2] /\ rev (idx s) = [1; 0; 2].
Proof. vm_compute. repeat split. Qed.

(** a non-trivial schedule: three inputs, the middle one fired before construction, fired in the order 2, 0 *)
Example nontrivial_schedule :
  let s := run (KList false false true) [(CNothing, None, true); (CNothing, Some (Fail (EUser 1)), false); (CNothing, None, false)]
               [Fire 2 (Ok (VInt 12)); Fire 0 (Ok (VInt 10))] in
  agg s = Some (AList [Some (Ok (VInt 10)); Some (Fail (EUser 1)); Some (Ok (VInt 12))])
  /\ rev (idx s) = [1; 2; 0] /\ res (get 1 s) = Some (Ok VNone).
Proof. vm_compute. repeat split. Qed.
