(** C04: DeferredList / gatherResults — the invariant holds after construction and after every schedule. *)
From Coq Require Import List Arith ZArith Bool Lia.
From C04 Require Import Model ProofsBase ProofsDL.
Import ListNotations.

Section Run.
  Variables f1 f2 ce : bool.
  Notation cb := (dl_cb f1 f2 ce).
  Notation DInv := (DInv f1 f2 ce).

  Lemma n_init inputs : n_of (init inputs) = length inputs.
  Proof. unfold n_of, init. cbn. apply map_length. Qed.

  Lemma get_init inputs i : att (get i (init inputs)) = false.
  Proof.
    unfold get, init. cbn [ins]. revert i. induction inputs as [|p r IH]; intros [|i]; cbn; auto.
  Qed.

  Lemma init_inv inputs : inputs <> [] -> DInv (init inputs).
  Proof.
    intros Hne. pose proof (n_init inputs) as Hn. constructor.
    - rewrite Hn. cbn. apply repeat_length.
    - reflexivity.
    - constructor.
    - intros i [].
    - rewrite Hn. cbn. apply repeat_map_seq.
    - rewrite Hn. cbn. unfold spec_dl. cbn. destruct inputs; [congruence | reflexivity].
    - split; reflexivity.
    - intros i o H. discriminate.
  Qed.

  Lemma construct_eq k inputs : inputs <> [] -> construct k inputs = attach_all (cb_of k) (init inputs).
  Proof. intros H. unfold construct. destruct k as [[|] ? ?| ?|]; destruct inputs; congruence. Qed.

  Lemma attach_all_inv s : DInv s -> (forall j, att (get j s) = false) -> DInv (attach_all cb s).
  Proof.
    intros HI Ha. unfold attach_all. apply (attach_list_inv f1 f2 ce); [exact HI | apply seq_NoDup |].
    intros j Hj. apply in_seq in Hj. split; [lia | apply Ha].
  Qed.

  Lemma n_attach_list l : forall s, n_of (fold_left (fun s i => attach cb i s) l s) = n_of s.
  Proof. induction l as [|i r IH]; intros s; [reflexivity|]. cbn [fold_left]. rewrite IH. apply n_attach. Qed.

  Lemma n_cancel_all js : forall s, n_of (cancel_all cb js s) = n_of s.
  Proof. unfold cancel_all. induction js as [|j r IH]; intros s; [reflexivity|]. cbn [fold_left]. rewrite IH. apply n_cancel_input. Qed.

  Definition dl_step (s : st) (o : op) : st :=
    match o with
    | Fire i x => if Nat.ltb i (n_of s) then
                    match res (get i s) with None => fire_in cb i x s | Some _ => s end
                  else s
    | CancelAgg => match agg s with Some _ => s | None => cancel_all cb (seq 0 (n_of s)) s end
    | MutateArg => s
    end.

  Lemma dl_step_inv s o : DInv s -> DInv (dl_step s o).
  Proof.
    intros HI. destruct o as [i x| |]; cbn [dl_step]; [| |exact HI].
    - destruct (Nat.ltb_spec i (n_of s)); [|exact HI]. destruct (res (get i s)) eqn:Hr; [exact HI|].
      apply fire_in_inv; assumption.
    - destruct (agg s); [exact HI|]. apply cancel_all_inv; [exact HI|]. intros j Hj. apply in_seq in Hj. lia.
  Qed.

  Lemma n_dl_step s o : n_of (dl_step s o) = n_of s.
  Proof.
    destruct o as [i x| |]; cbn [dl_step]; [| |reflexivity].
    - destruct (Nat.ltb i (n_of s)); [|reflexivity]. destruct (res (get i s)); [reflexivity | apply n_fire_in].
    - destruct (agg s); [reflexivity | apply n_cancel_all].
  Qed.

  Lemma dl_run_inv inputs ops : inputs <> [] ->
    DInv (fold_left dl_step ops (attach_all cb (init inputs))) /\
    n_of (fold_left dl_step ops (attach_all cb (init inputs))) = length inputs.
  Proof.
    intros Hne.
    assert (H0 : DInv (attach_all cb (init inputs)) /\ n_of (attach_all cb (init inputs)) = length inputs).
    { split; [apply attach_all_inv; [apply init_inv; exact Hne | intros j; apply get_init]|].
      unfold attach_all. rewrite n_attach_list. apply n_init. }
    revert H0. generalize (attach_all cb (init inputs)) as s.
    induction ops as [|o r IH]; intros s [HI Hn]; [split; assumption|]. cbn [fold_left]. apply IH.
    split; [apply dl_step_inv; exact HI | rewrite n_dl_step; exact Hn].
  Qed.
End Run.

Lemma fold_step_list f1 f2 ce ops : forall s,
  fold_left (step (KList f1 f2 ce)) ops s = fold_left (dl_step f1 f2 ce) ops s.
Proof.
  induction ops as [|o r IH]; intros s; [reflexivity|]. cbn [fold_left].
  replace (step (KList f1 f2 ce) s o) with (dl_step f1 f2 ce s o) by (destruct o; reflexivity). apply IH.
Qed.

Lemma fold_step_gather ce ops : forall s,
  fold_left (step (KGather ce)) ops s = fold_left (dl_step false true ce) ops s.
Proof.
  induction ops as [|o r IH]; intros s; [reflexivity|]. cbn [fold_left].
  replace (step (KGather ce) s o) with (dl_step false true ce s o) by (destruct o; reflexivity). apply IH.
Qed.

Lemma run_list f1 f2 ce inputs ops : inputs <> [] ->
  run (KList f1 f2 ce) inputs ops = fold_left (dl_step f1 f2 ce) ops (attach_all (dl_cb f1 f2 ce) (init inputs)).
Proof. intros H. unfold run. rewrite construct_eq by exact H. cbn [cb_of]. apply fold_step_list. Qed.

Lemma run_gather ce inputs ops : inputs <> [] ->
  run (KGather ce) inputs ops = fold_left (dl_step false true ce) ops (attach_all (dl_cb false true ce) (init inputs)).
Proof. intros H. unfold run. rewrite construct_eq by exact H. cbn [cb_of]. apply fold_step_gather. Qed.

(** ---- consequences ---- *)
Section Facts.
  Variables (f1 f2 ce : bool) (inputs : list input) (ops : list op).
  Hypothesis Hne : inputs <> [].
  Let s := run (KList f1 f2 ce) inputs ops.
  Let n := length inputs.

  Lemma list_inv : DInv f1 f2 ce s /\ n_of s = n.
  Proof. unfold s. rewrite run_list by exact Hne. apply dl_run_inv. exact Hne. Qed.

  Lemma fact_refines : agg s = spec_dl f1 f2 n (rev (proc s)).
  Proof. destruct list_inv as [HI Hn]. rewrite <- Hn. apply (d_agg _ _ _ _ HI). Qed.

  Lemma fact_once : length (aggs (log s)) <= 1 /\ twice (log s) = false /\
                    (forall r, In r (aggs (log s)) <-> agg s = Some r).
  Proof.
    destruct list_inv as [HI _]. destruct (d_log _ _ _ _ HI) as [H1 H2]. rewrite H1. destruct (agg s); cbn.
    - repeat split; auto. + intros [<-|[]]. reflexivity. + intros [= <-]. left. reflexivity.
    - repeat split; auto; intros; try contradiction; discriminate.
  Qed.

  Lemma fact_processed_once :
    NoDup (idx s) /\ forall i, In i (idx s) -> i < n /\ res (get i s) <> None.
  Proof.
    destruct list_inv as [HI Hn]. split; [apply (d_nodup _ _ _ _ HI)|]. intros i Hi.
    destruct (d_proc _ _ _ _ HI i Hi) as (H1 & _ & H3). rewrite <- Hn. auto.
  Qed.

  Lemma fact_later_callbacks : forall i o, In (i, o) (proc s) -> res (get i s) = Some (passthru ce o).
  Proof.
    destruct list_inv as [HI _]. intros i o Hin. apply (d_seen _ _ _ _ HI).
    (* with distinct indices, the pair found for i is (i, o) *)
    pose proof (d_nodup _ _ _ _ HI) as Hnd. unfold idx in Hnd.
    assert (Hnd' : NoDup (map fst (rev (proc s)))) by (rewrite map_rev; apply NoDup_rev; exact Hnd).
    apply in_rev in Hin. revert Hnd' Hin. generalize (rev (proc s)) as l.
    induction l as [|[j oj] r IH]; cbn; [tauto|]. intros Hd [[= -> ->]|Hin].
    - rewrite Nat.eqb_refl. reflexivity.
    - inversion Hd as [|? ? Hnj Hd']; subst. destruct (Nat.eqb_spec i j) as [->|Hne'].
      + exfalso. apply Hnj. apply (in_map fst) in Hin. exact Hin.
      + apply IH; assumption.
  Qed.
End Facts.

(** a list result has every position filled, with the outcome of the input at that position *)
Lemma spec_list_in_input_order f1 f2 n chron l :
  NoDup (map fst chron) -> (forall i, In i (map fst chron) -> i < n) ->
  spec_dl f1 f2 n chron = Some (AList l) ->
  length l = n /\ forall i, i < n -> exists o, nth i l None = Some o /\ In (i, o) chron.
Proof.
  intros Hnd Hlt. unfold spec_dl. destruct (find (hit f1 f2) chron) as [[j [v|e]]|]; try discriminate.
  destruct (Nat.eqb_spec (length chron) n) as [E|E]; [|discriminate]. intros [= <-].
  split; [rewrite map_length, seq_length; reflexivity|]. intros i Hi.
  assert (Hin : In i (map fst chron)).
  { assert (Hincl : incl (seq 0 n) (map fst chron)).
    { apply NoDup_length_incl; [exact Hnd | rewrite seq_length, map_length; lia |].
      intros x Hx. apply in_seq. specialize (Hlt x Hx). lia. }
    apply Hincl. apply in_seq. lia. }
  rewrite nth_indep with (d' := lookup 0 chron) by (rewrite map_length, seq_length; exact Hi).
  change (lookup 0 chron) with ((fun k => lookup k chron) 0). rewrite map_nth, seq_nth by exact Hi. cbn [plus].
  clear - Hin. induction chron as [|[j oj] r IH]; cbn in *; [contradiction|].
  destruct (Nat.eqb_spec i j) as [->|Hne]; [eauto|]. destruct Hin as [Hj|Hin]; [congruence|].
  destruct (IH Hin) as (o & Ho & Hio). eauto.
Qed.

(** gatherResults: no failure among the processed inputs, or the first failure *)
Lemma spec_gather n chron r :
  spec_dl false true n chron = Some r ->
  (exists i e, r = AFirstError e i /\ exists pre post, chron = pre ++ (i, Fail e) :: post /\
                                      forall p, In p pre -> is_ok (snd p) = true) \/
  (exists l, r = AList l /\ forall p, In p chron -> is_ok (snd p) = true).
Proof.
  unfold spec_dl. destruct (find (hit false true) chron) as [[j [v|e]]|] eqn:Ef.
  - apply find_some in Ef. destruct Ef as [_ H]. discriminate.
  - intros [= <-]. left. exists j, e. split; [reflexivity|].
    clear - Ef. induction chron as [|[k ok] rr IH]; [discriminate|]. cbn in Ef.
    destruct ok as [v|e']; cbn in Ef.
    + destruct (IH Ef) as (pre & post & E & Hp). exists ((k, Ok v) :: pre), post. split; [rewrite E; reflexivity|].
      intros p [<-|Hin]; [reflexivity | apply Hp; exact Hin].
    + inversion Ef; subst. exists [], rr. split; [reflexivity | intros p []].
  - destruct (Nat.eqb (length chron) n); [|discriminate]. intros [= <-]. right. eexists. split; [reflexivity|].
    intros p Hp. pose proof (find_none _ _ Ef p Hp) as H. unfold hit in H. destruct (is_ok (snd p)); [reflexivity | discriminate].
Qed.

Section FactsGather.
  Variables (ce : bool) (inputs : list input) (ops : list op).
  Hypothesis Hne : inputs <> [].
  Let s := run (KGather ce) inputs ops.

  Lemma gather_inv : DInv false true ce s /\ n_of s = length inputs.
  Proof. unfold s. rewrite run_gather by exact Hne. apply dl_run_inv. exact Hne. Qed.

  Lemma fact_gather_refines : agg s = spec_dl false true (length inputs) (rev (proc s)).
  Proof. destruct gather_inv as [HI Hn]. rewrite <- Hn. apply (d_agg _ _ _ _ HI). Qed.

  Lemma fact_gather_once : length (aggs (log s)) <= 1 /\ twice (log s) = false.
  Proof.
    destruct gather_inv as [HI _]. destruct (d_log _ _ _ _ HI) as [H1 H2]. rewrite H1. destruct (agg s); cbn; auto.
  Qed.
End FactsGather.

Lemma fact_list_in_input_order f1 f2 ce inputs ops l : inputs <> [] ->
  let s := run (KList f1 f2 ce) inputs ops in
  agg s = Some (AList l) ->
  length l = length inputs /\
  forall i, i < length inputs -> exists o, nth i l None = Some o /\ In (i, o) (proc s).
Proof.
  intros Hne s Hagg. pose proof (fact_refines f1 f2 ce inputs ops Hne) as Hr. fold s in Hr. rewrite Hagg in Hr.
  destruct (fact_processed_once f1 f2 ce inputs ops Hne) as [Hnd Hlt]. fold s in Hnd, Hlt.
  destruct (spec_list_in_input_order f1 f2 (length inputs) (rev (proc s)) l) as [H1 H2]; auto.
  - rewrite map_rev. apply NoDup_rev. exact Hnd.
  - intros i Hi. rewrite map_rev, <- in_rev in Hi. apply Hlt. exact Hi.
  - split; [exact H1|]. intros i Hi. destruct (H2 i Hi) as (o & Ho & Hin). exists o. split; [exact Ho|].
    apply in_rev. exact Hin.
Qed.

Lemma spec_first_hit f1 f2 n chron :
  (forall v i, spec_dl f1 f2 n chron = Some (APair v i) ->
     f1 = true /\ exists pre post, chron = pre ++ (i, Ok v) :: post /\ forall p, In p pre -> hit f1 f2 p = false) /\
  (forall e i, spec_dl f1 f2 n chron = Some (AFirstError e i) ->
     f2 = true /\ exists pre post, chron = pre ++ (i, Fail e) :: post /\ forall p, In p pre -> hit f1 f2 p = false).
Proof.
  assert (Hsplit : forall x, find (hit f1 f2) chron = Some x ->
            hit f1 f2 x = true /\ exists pre post, chron = pre ++ x :: post /\ forall p, In p pre -> hit f1 f2 p = false).
  { induction chron as [|y r IH]; [discriminate|]. cbn. intros x. destruct (hit f1 f2 y) eqn:Hy.
    - intros [= <-]. split; [exact Hy|]. exists [], r. split; [reflexivity | intros p []].
    - intros Hf. destruct (IH x Hf) as (Hx & pre & post & E & Hp). split; [exact Hx|].
      exists (y :: pre), post. split; [rewrite E; reflexivity|]. intros p [<-|Hin]; auto. }
  unfold spec_dl. destruct (find (hit f1 f2) chron) as [[j [v0|e0]]|] eqn:Ef.
  - destruct (Hsplit _ eq_refl) as (Hx & Hrest). split; [|discriminate]. intros v i [= <- <-]. split; [exact Hx | exact Hrest].
  - destruct (Hsplit _ eq_refl) as (Hx & Hrest). split; [discriminate|]. intros e i [= <- <-]. split; [exact Hx | exact Hrest].
  - destruct (Nat.eqb (length chron) n); split; discriminate.
Qed.

(** ---- cancelling an unfired DeferredList / gatherResults cancels (hence fires) every pending input ---- *)
Section Cancel.
  Variables f1 f2 ce : bool.
  Notation cb := (dl_cb f1 f2 ce).

  Definition has_fired (s : st) (i : nat) : Prop := res (get i s) <> None.

  Lemma process_res s i o k : i < n_of s ->
    has_fired (upd i (set_res (snd (cb s i o))) (fst (cb s i o))) i /\
    (has_fired s k -> has_fired (upd i (set_res (snd (cb s i o))) (fst (cb s i o))) k).
  Proof.
    intros Hi. pose proof (dl_cb_eff f1 f2 ce s i o) as (E & _). cbn zeta in E.
    assert (Hn : i < n_of (fst (cb s i o))) by (unfold n_of; rewrite E; exact Hi).
    unfold has_fired. rewrite !get_upd by exact Hn. rewrite Nat.eqb_refl. split; [cbn; discriminate|].
    destruct (Nat.eqb k i); [cbn; discriminate|]. unfold get. rewrite E. auto.
  Qed.

  Lemma fire_in_res s i o k : i < n_of s ->
    has_fired (fire_in cb i o s) i /\ (has_fired s k -> has_fired (fire_in cb i o s) k).
  Proof.
    intros Hi. unfold fire_in. set (s1 := upd i (set_res o) s).
    assert (H1 : has_fired s1 i /\ (has_fired s k -> has_fired s1 k)).
    { unfold has_fired, s1. rewrite !get_upd by exact Hi. rewrite Nat.eqb_refl. split; [cbn; discriminate|].
      destruct (Nat.eqb k i); [cbn; discriminate | auto]. }
    destruct (att (get i s1)); [|exact H1].
    assert (Hi1 : i < n_of s1) by (unfold s1; rewrite n_upd; exact Hi).
    pose proof (process_res s1 i o k Hi1) as [P1 P2]. destruct (cb s1 i o) as [s2 o']. cbn [fst snd] in *.
    split; [exact P1 | intros H; apply P2, H1, H].
  Qed.

  Lemma cancel_input_res s i k : i < n_of s ->
    has_fired (cancel_input cb i s) i /\ (has_fired s k -> has_fired (cancel_input cb i s) k).
  Proof.
    intros Hi. unfold cancel_input. destruct (res (get i s)) eqn:Hr.
    - split; [unfold has_fired; rewrite Hr; discriminate | auto].
    - assert (He : forall j, has_fired s j -> has_fired (emit (ECancel i) s) j) by (intros j H; exact H).
      destruct (canc (get i (emit (ECancel i) s)));
        match goal with |- context [fire_in cb i ?o ?s0] => destruct (fire_in_res s0 i o k Hi) as [F1 F2] end;
        (split; [exact F1 | intros H; apply F2, He, H]).
  Qed.

  Lemma cancel_all_res js : forall s, (forall j, In j js -> j < n_of s) ->
    forall k, (In k js \/ has_fired s k) -> has_fired (cancel_all cb js s) k.
  Proof.
    unfold cancel_all. induction js as [|j r IH]; intros s Hjs k Hk; cbn [fold_left].
    - destruct Hk as [[]|Hk]. exact Hk.
    - assert (Hj : j < n_of s) by (apply Hjs; left; reflexivity).
      apply IH.
      + intros x Hx. rewrite (n_cancel_input f1 f2 ce). apply Hjs. right. exact Hx.
      + destruct (cancel_input_res s j k Hj) as [C1 C2]. destruct Hk as [[->|Hk]|Hk]; [right; exact C1 | left; exact Hk | right; apply C2, Hk].
  Qed.

  (** the canceller of an input is called by [cancel_input] exactly when the input has not fired *)
  Lemma cancel_input_log s i :
    (res (get i s) = None -> exists l, log (cancel_input cb i s) = l ++ ECancel i :: log s) /\
    (res (get i s) <> None -> cancel_input cb i s = s).
  Proof.
    unfold cancel_input. destruct (res (get i s)) eqn:Hr; [split; [discriminate | reflexivity]|].
    split; [intros _ | congruence].
    assert (Hf : forall o s0, exists l, log (fire_in cb i o s0) = l ++ log s0).
    { intros o s0. unfold fire_in. destruct (att (get i (upd i (set_res o) s0))); [|exists []; reflexivity].
      pose proof (dl_cb_eff f1 f2 ce (upd i (set_res o) s0) i o) as (_ & _ & _ & _ & _ & E). cbn zeta in E.
      destruct (cb (upd i (set_res o) s0) i o) as [s2 o']. cbn [fst snd] in E. cbn [log upd set_ins].
      destruct (agg (upd i (set_res o) s0)); [inversion E; exists []; reflexivity|].
      destruct (new_result f1 f2 (upd i (set_res o) s0) i o); inversion E as [[Ea El]]; rewrite El;
        [eexists [_]; reflexivity | exists []; reflexivity]. }
    destruct (canc (get i (emit (ECancel i) s)));
      match goal with |- context [fire_in cb i ?o ?s0] => destruct (Hf o s0) as [l Hl]; exists l; rewrite Hl; reflexivity end.
  Qed.
End Cancel.

Lemma fact_cancel_fires_all f1 f2 ce s : agg s = None ->
  forall i, i < n_of s -> res (get i (step (KList f1 f2 ce) s CancelAgg)) <> None.
Proof.
  intros Ha i Hi. cbn [step]. rewrite Ha. cbn [cb_of].
  apply (cancel_all_res f1 f2 ce (seq 0 (n_of s)) s).
  - intros j Hj. apply in_seq in Hj. lia.
  - left. apply in_seq. lia.
Qed.
