(** C04: printers used by the correspondence check only. *)
From Coq Require Import List Arith ZArith Bool String.
From TwLib Require Import Show.
From C04 Require Import Model.
Import ListNotations.
Local Open Scope string_scope.

Definition show_err (e : err) : string :=
  match e with EUser n => "E" ++ show_nat n | ECancelled => "X" | EAlready => "AC" end.
Definition show_val (v : val) : string := match v with VInt z => show_Z z | VNone => "None" end.
Definition show_outcome (o : outcome) : string := match o with Ok v => show_val v | Fail e => show_err e end.
Definition show_entry (x : option outcome) : string :=
  match x with
  | None => "-"
  | Some (Ok v) => "(T," ++ show_val v ++ ")"
  | Some (Fail e) => "(F," ++ show_err e ++ ")"
  end.
Definition semis (l : list string) : string := "[" ++ String.concat ";" l ++ "]".
Definition show_agg (r : aggres) : string :=
  match r with
  | AList l => "L" ++ semis (map show_entry l)
  | APair v i => "P(" ++ show_val v ++ "," ++ show_nat i ++ ")"
  | AFirstError e i => "FE(" ++ show_err e ++ "," ++ show_nat i ++ ")"
  | AValues l => "V" ++ semis (map (fun x => match x with Some v => show_val v | None => "?" end) l)
  | AWin i v => "W(" ++ show_nat i ++ "," ++ show_val v ++ ")"
  | AGroup l => "G" ++ semis (map show_err l)
  | ACancelled => "CX"
  end.
Definition show_ev (k : kind) (e : ev) : string :=
  match e with
  | ECancel i => "X" ++ show_nat i
  | EAgg r => "A:" ++ show_agg (view k r)
  | ETwice => "TWICE"
  end.

Definition run_show (c : kind * list input * list op) : string :=
  let '(k, inputs, ops) := c in
  let s := run k inputs ops in
  String.concat " " (map (show_ev k) (rev (log s))) ++ " | "
  ++ String.concat " " (map (fun x => match res x with Some o => show_outcome o | None => "-" end) (ins s)).
