(** C04: DeferredList / gatherResults / race (src/twisted/internet/defer.py).

    The aggregate's own bookkeeping (resultList, finishedCount, winner, failure_state, "called") is
    transcribed; an input Deferred is reduced to what the aggregate can observe of it: its current
    result (None = not fired), whether the aggregate's callback is attached yet (inputs fired before the
    aggregate is built are processed synchronously *during construction*, in index order), and what its
    canceller does.  Callbacks run synchronously: an input fired from inside the aggregate's cancel loop
    re-enters the aggregate's callback.  Ghost: [proc], the (index, outcome) pairs in the order in which
    the aggregate's callback processed them (newest first), and an event log. *)
From Coq Require Import List Arith ZArith Bool.
Import ListNotations.

Inductive err := EUser (n : nat) | ECancelled | EAlready.
Inductive val := VInt (z : Z) | VNone.
Inductive outcome := Ok (v : val) | Fail (e : err).
(** what an input's canceller does when called: nothing (so cancel() fails it with CancelledError),
    fires it with a value, fires it with a failure *)
Inductive cbeh := CNothing | CSucceed (z : Z) | CFail (n : nat).

Inductive kind := KList (f1 f2 ce : bool) | KGather (ce : bool) | KRace.

Inductive aggres :=
| AList (l : list (option outcome))     (* DeferredList: [(success, result)] in input order *)
| APair (v : val) (i : nat)             (* fireOnOneCallback: (result, index) *)
| AFirstError (e : err) (i : nat)       (* fireOnOneErrback / gatherResults: FirstError(failure, index) *)
| AValues (l : list (option val))       (* gatherResults: values in input order *)
| AWin (i : nat) (v : val)              (* race: (index, value) *)
| AGroup (l : list err)                 (* race: FailureGroup, failures in input order *)
| ACancelled.                           (* CancelledError from Deferred.cancel itself *)

Inductive ev :=
| ECancel (i : nat)          (* input i's canceller was called *)
| EAgg (r : aggres)          (* the aggregate fired *)
| ETwice.                    (* the aggregate was fired a second time (AlreadyCalledError) *)

(** [res]: the result the input has DELIVERED down its chain (None = nothing yet).  [chained]: the input had already
    fired when it was handed to the aggregate ([called] is true) but its chain is suspended on a pending inner Deferred
    ([succeed(x).addCallback(lambda _: inner)]); it delivers when the inner one fires, and cancel() on it is forwarded
    to the inner one (whose canceller is [canc]).  So "not delivered" is [res = None], whatever [called] says. *)
Record inp := mkinp { res : option outcome; canc : cbeh; att : bool; chained : bool }.
Definition called (x : inp) : bool := chained x || match res x with Some _ => true | None => false end.
(** an input as given to the aggregate: canceller behaviour, result if already delivered, called-but-chained *)
Definition input : Type := cbeh * option outcome * bool.

Record st := mk {
  ins : list inp;
  rl : list (option outcome);          (* DeferredList.resultList *)
  fin : nat;                           (* DeferredList.finishedCount *)
  winner : option nat;                 (* race: winner *)
  fstate : list (nat * err);           (* race: failure_state *)
  agg : option aggres;                 (* the aggregate's result once fired (called) *)
  proc : list (nat * outcome);         (* ghost *)
  log : list ev                        (* ghost, newest first *)
}.

Definition set_ins x s := mk x (rl s) (fin s) (winner s) (fstate s) (agg s) (proc s) (log s).
Definition set_agg x s := mk (ins s) (rl s) (fin s) (winner s) (fstate s) x (proc s) (log s).
Definition set_winner x s := mk (ins s) (rl s) (fin s) (Some x) (fstate s) (agg s) (proc s) (log s).
Definition set_fstate x s := mk (ins s) (rl s) (fin s) (winner s) x (agg s) (proc s) (log s).
Definition emit e s := mk (ins s) (rl s) (fin s) (winner s) (fstate s) (agg s) (proc s) (e :: log s).
Definition note i o s := mk (ins s) (rl s) (fin s) (winner s) (fstate s) (agg s) ((i, o) :: proc s) (log s).

Fixpoint set_nth {A} (i : nat) (x : A) (l : list A) : list A :=
  match l, i with
  | [], _ => []
  | _ :: r, O => x :: r
  | y :: r, S k => y :: set_nth k x r
  end.

Definition get (i : nat) (s : st) : inp := nth i (ins s) (mkinp None CNothing false false).
Definition upd (i : nat) (f : inp -> inp) (s : st) : st := set_ins (set_nth i (f (get i s)) (ins s)) s.
Definition set_res (o : outcome) (x : inp) := mkinp (Some o) (canc x) (att x) (chained x).
Definition set_att (x : inp) := mkinp (res x) (canc x) true (chained x).

Definition n_of (s : st) : nat := length (ins s).

(** the aggregate Deferred fires (callers check "not called" where the code does) *)
Definition fire (r : aggres) (s : st) : st := emit (EAgg r) (set_agg (Some r) s).
(** ... and where the code does not check: a second firing raises AlreadyCalledError in the callback *)
Definition fire_unguarded (r : aggres) (s : st) : st * bool :=
  match agg s with None => (fire r s, true) | Some _ => (emit ETwice s, false) end.

(** ---- DeferredList._cbDeferred ---- *)
Definition dl_cb (f1 f2 ce : bool) (s : st) (i : nat) (o : outcome) : st * outcome :=
  let s1 := note i o (mk (ins s) (set_nth i (Some o) (rl s)) (S (fin s)) (winner s) (fstate s) (agg s) (proc s) (log s)) in
  let s2 :=
    match agg s1 with
    | Some _ => s1
    | None =>
        match o with
        | Ok v => if f1 then fire (APair v i) s1
                  else if Nat.eqb (fin s1) (length (rl s1)) then fire (AList (rl s1)) s1 else s1
        | Fail e => if f2 then fire (AFirstError e i) s1
                    else if Nat.eqb (fin s1) (length (rl s1)) then fire (AList (rl s1)) s1 else s1
        end
    end in
  (s2, match o with Fail _ => if ce then Ok VNone else o | Ok _ => o end).

(** gatherResults = DeferredList(fireOnOneErrback, consumeErrors).addCallback(_parseDeferredListResult) *)
Definition parse_entry (x : option outcome) : option val :=
  match x with Some (Ok v) => Some v | _ => None end.
Definition gather_view (r : aggres) : aggres :=
  match r with AList l => AValues (map parse_entry l) | _ => r end.

(** ---- race: succeeded / failed ---- *)
Fixpoint insert_by_index (x : nat * err) (l : list (nat * err)) : list (nat * err) :=
  match l with
  | [] => [x]
  | y :: r => if Nat.leb (fst x) (fst y) then x :: l else y :: insert_by_index x r
  end.
Definition sort_by_index (l : list (nat * err)) : list (nat * err) := fold_right insert_by_index [] l.

Definition race_failed (s : st) (i : nat) (e : err) : st * outcome :=
  let s1 := set_fstate (fstate s ++ [(i, e)]) s in
  if Nat.eqb (length (fstate s1)) (n_of s1)
  then let '(s2, ok) := fire_unguarded (AGroup (map snd (sort_by_index (fstate s1)))) s1 in
       (s2, if ok then Ok VNone else Fail EAlready)
  else (s1, Ok VNone).

Section Fire.
  (** the aggregate's callback on an input: state -> index -> the input's current result -> (state, new result) *)
  Variable cb : st -> nat -> outcome -> st * outcome.

  (** input i fires with o: its callbacks run (the aggregate's, if attached) *)
  Definition fire_in (i : nat) (o : outcome) (s : st) : st :=
    let s1 := upd i (set_res o) s in
    if att (get i s1)
    then let '(s2, o') := cb s1 i o in upd i (set_res o') s2
    else s1.

  (** Deferred.cancel() on input i: nothing if it has delivered its result; otherwise its canceller is called — for a
      called-but-chained input, the cancel is forwarded to the inner Deferred and that one's canceller is called *)
  Definition cancel_input (i : nat) (s : st) : st :=
    match res (get i s) with
    | Some _ => s
    | None =>
        let s1 := emit (ECancel i) s in
        match canc (get i s1) with
        | CNothing => fire_in i (Fail ECancelled) s1
        | CSucceed z => fire_in i (Ok (VInt z)) s1
        | CFail k => fire_in i (Fail (EUser k)) s1
        end
    end.

  Definition cancel_all (js : list nat) (s : st) : st := fold_left (fun s j => cancel_input j s) js s.

  (** d.addCallbacks(cb...) on input i while building the aggregate *)
  Definition attach (i : nat) (s : st) : st :=
    let s1 := upd i set_att s in
    match res (get i s1) with
    | None => s1
    | Some o => let '(s2, o') := cb s1 i o in upd i (set_res o') s2
    end.

  Definition attach_all (s : st) : st := fold_left (fun s i => attach i s) (seq 0 (n_of s)) s.
End Fire.

(** race: the callback used for inputs that fire while the winner is already chosen (in particular from
    inside [succeeded]'s own cancel loop) *)
Definition race_cb_inner (s : st) (i : nat) (o : outcome) : st * outcome :=
  let s0 := note i o s in
  match o with
  | Ok _ => (s0, Ok VNone)
  | Fail e => race_failed s0 i e
  end.

Definition others (i n : nat) : list nat := filter (fun j => negb (Nat.eqb j i)) (seq 0 n).

Definition race_cb (s : st) (i : nat) (o : outcome) : st * outcome :=
  match o, winner s with
  | Ok v, None =>
      let s1 := set_winner i (note i o s) in
      let s2 := cancel_all race_cb_inner (others i (n_of s1)) s1 in
      let '(s3, ok) := fire_unguarded (AWin i v) s2 in
      (s3, if ok then Ok VNone else Fail EAlready)
  | _, _ => race_cb_inner s i o
  end.

Definition cb_of (k : kind) : st -> nat -> outcome -> st * outcome :=
  match k with
  | KList f1 f2 ce => dl_cb f1 f2 ce
  | KGather ce => dl_cb false true ce
  | KRace => race_cb
  end.

(** ---- building the aggregate over inputs some of which have already fired ---- *)
Definition init (inputs : list input) : st :=
  mk (map (fun p : input => mkinp (snd (fst p)) (fst (fst p)) false (snd p)) inputs) (repeat None (length inputs)) 0 None [] None [] [].

Definition construct (k : kind) (inputs : list input) : st :=
  let s0 := init inputs in
  let s1 := match k, inputs with
            | KList false _ _, [] | KGather _, [] => fire (AList []) s0   (* empty list fires at once *)
            | _, _ => s0
            end in
  attach_all (cb_of k) s1.

(** [MutateArg]: the caller mutates (removes from / clears / appends to / reorders) the very list object it passed to
    the aggregate; the aggregate works on its own copy, so nothing happens *)
Inductive op := Fire (i : nat) (o : outcome) | CancelAgg | MutateArg.

Definition step (k : kind) (s : st) (o : op) : st :=
  match o with
  | Fire i x => if Nat.ltb i (n_of s) then
                  match res (get i s) with None => fire_in (cb_of k) i x s | Some _ => s end
                else s
  | CancelAgg =>
      match agg s with
      | Some _ => s
      | None =>
          let s1 := cancel_all (cb_of k) (seq 0 (n_of s)) s in
          match k with
          | KRace => match agg s1 with None => fire ACancelled s1 | Some _ => s1 end
          | _ => s1
          end
      end
  | MutateArg => s
  end.

Definition run (k : kind) (inputs : list input) (ops : list op) : st :=
  fold_left (step k) ops (construct k inputs).

(** what a user callback on the aggregate sees *)
Definition view (k : kind) (r : aggres) : aggres := match k with KGather _ => gather_view r | _ => r end.

(** ---- Spec: the aggregate's result as a function of the processing order (oldest first) ---- *)
Definition is_ok (o : outcome) : bool := match o with Ok _ => true | Fail _ => false end.

Fixpoint lookup (i : nat) (l : list (nat * outcome)) : option outcome :=
  match l with
  | [] => None
  | (j, o) :: r => if Nat.eqb i j then Some o else lookup i r
  end.

Definition hit (f1 f2 : bool) (p : nat * outcome) : bool := if is_ok (snd p) then f1 else f2.

Definition spec_dl (f1 f2 : bool) (n : nat) (chron : list (nat * outcome)) : option aggres :=
  match find (hit f1 f2) chron with
  | Some (i, Ok v) => Some (APair v i)
  | Some (i, Fail e) => Some (AFirstError e i)
  | None => if Nat.eqb (length chron) n
            then Some (AList (map (fun i => lookup i chron) (seq 0 n)))
            else None
  end.

Definition fails_of (chron : list (nat * outcome)) : list (nat * err) :=
  flat_map (fun p => match snd p with Fail e => [(fst p, e)] | Ok _ => [] end) chron.

Definition spec_race (n : nat) (chron : list (nat * outcome)) : option aggres :=
  match find (fun p => is_ok (snd p)) chron with
  | Some (i, Ok v) => Some (AWin i v)
  | Some (_, Fail _) => None
  | None => if Nat.eqb (length chron) n
            then Some (AGroup (map snd (sort_by_index (fails_of chron))))
            else None
  end.

(** ---- ghost readings ---- *)
Definition idx (s : st) : list nat := map fst (proc s).
Definition aggs (l : list ev) : list aggres := flat_map (fun e => match e with EAgg r => [r] | _ => [] end) l.
Definition cancels (l : list ev) : list nat := flat_map (fun e => match e with ECancel i => [i] | _ => [] end) l.
Definition twice (l : list ev) : bool := existsb (fun e => match e with ETwice => true | _ => false end) l.
(** what callbacks added to an input after the DeferredList see *)
Definition passthru (ce : bool) (o : outcome) : outcome :=
  match o with Fail _ => if ce then Ok VNone else o | Ok _ => o end.
