(** C56 property theorems (model: coq/C56/Model.v). *)
From Coq Require Import List NArith Bool.
From C56 Require Import Model Proofs.
Import ListNotations.

(** Full statement (FALSE of the current code, see the two _refuted theorems):
      forall items, flat_format (flatten items) items = format_event items.
    Proved part: it holds for every format string (any number of fields, repeated fields, any literal text)
    all of whose fields have an empty format spec and a conversion other than "a" (and whose values follow
    CPython's default rule format(x, "") = str(x)). *)
Theorem format_flatten_eq_partial : forall items,
  all_faithful items -> flat_format (flatten items) items = format_event items.
Proof. exact format_flatten_eq_lemma. Qed.
Print Assumptions format_flatten_eq_partial.

(** ... and after any serialisation that returns the same text under every flattened key (JSON of str) *)
Theorem format_json_flatten_eq_partial : forall (json_rt : list (key * text) -> list (key * text)) items,
  (forall fs k, assoc k (json_rt fs) = assoc k fs) ->
  all_faithful items -> flat_format (json_rt (flatten items)) items = format_event items.
Proof. exact format_json_flatten_eq_lemma. Qed.
Print Assumptions format_json_flatten_eq_partial.

(** a format specification is ignored by the flattened formatting: "{x:>3}" with x = 5 *)
Theorem format_flatten_eq_refuted_spec :
  exists items, format_event items = Some [32; 32; 53]%N /\ flat_format (flatten items) items = Some [53]%N.
Proof. exists [Item [] (Some padded)]. exact spec_refuted_lemma. Qed.
Print Assumptions format_flatten_eq_refuted_spec.

(** the "a" conversion is stored under the "s" key and looked up under the "a" key: KeyError *)
Theorem format_flatten_eq_refuted_ascii :
  exists items t, format_event items = Some t /\ flat_format (flatten items) items = None.
Proof. exists [Item [] (Some asciif)], [39; 120; 39]%N. exact ascii_refuted_lemma. Qed.
Print Assumptions format_flatten_eq_refuted_ascii.
