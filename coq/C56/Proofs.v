From Coq Require Import List NArith Arith Bool Lia.
From C56 Require Import Model.
Import ListNotations.

Lemma teqb_refl : forall t, teqb t t = true.
Proof. intros [[x y] z]. cbn. rewrite !N.eqb_refl. reflexivity. Qed.
Lemma teqb_eq : forall a b, teqb a b = true -> a = b.
Proof.
  intros [[x y] z] [[x' y'] z'] H. cbn in H. apply andb_prop in H. destruct H as [H Hz].
  apply andb_prop in H. destruct H as [Hx Hy]. apply N.eqb_eq in Hx, Hy, Hz. subst. reflexivity.
Qed.
Lemma keqb_refl : forall k, keqb k k = true.
Proof. intros [t n]. unfold keqb. cbn. rewrite teqb_refl, Nat.eqb_refl. reflexivity. Qed.
Lemma keqb_eq : forall a b, keqb a b = true -> a = b.
Proof.
  intros [t n] [t' n'] H. unfold keqb in H. cbn in H. apply andb_prop in H. destruct H as [Ht Hn].
  apply teqb_eq in Ht. apply Nat.eqb_eq in Hn. subst. reflexivity.
Qed.

(** every stored key was issued by the KeyFlattener no later than [prev] *)
Definition issued (fs : list (key * text)) (prev : list triple) : Prop :=
  forall t n v, In ((t, n), v) fs -> n <= count t prev.

Lemma assoc_none_of_issued : forall fs prev t, issued fs prev -> assoc (flat_key t prev) fs = None.
Proof.
  induction fs as [|[[t' n'] v] r IH]; intros prev t Hi; [reflexivity|]. cbn.
  destruct (keqb (flat_key t prev) (t', n')) eqn:E.
  - apply keqb_eq in E. unfold flat_key in E. injection E as <- <-.
    specialize (Hi t (S (count t prev)) v (or_introl eq_refl)). lia.
  - apply IH. intros t0 n0 v0 Hin. apply (Hi t0 n0 v0). right. exact Hin.
Qed.

Lemma assoc_app_new : forall fs k v, assoc k fs = None -> assoc k (fs ++ [(k, v)]) = Some v.
Proof.
  induction fs as [|[k' v'] r IH]; intros k v H; cbn.
  - rewrite keqb_refl. reflexivity.
  - cbn in H. destruct (keqb k k'); [discriminate|]. apply IH. exact H.
Qed.

Lemma assoc_app_keep : forall fs k v extra, assoc k fs = Some v -> assoc k (fs ++ extra) = Some v.
Proof.
  induction fs as [|[k' v'] r IH]; intros k v extra H; cbn in *; [discriminate|].
  destruct (keqb k k'); [exact H|]. apply IH. exact H.
Qed.

(** flattening only ever adds: an entry that is present stays *)
Lemma flatten_keeps : forall items prev fs k v,
  assoc k fs = Some v -> assoc k (flatten_from prev items fs) = Some v.
Proof.
  induction items as [|it r IH]; intros prev fs k v H; cbn; [exact H|].
  destruct (fld it) as [f|]; [|apply IH; exact H].
  apply IH. destruct (assoc (flat_key (fname f, ckey_flatten (fconv f), fspec f) prev) fs); [exact H|].
  apply assoc_app_keep. exact H.
Qed.

Lemma count_cons_same : forall t prev, count t (t :: prev) = S (count t prev).
Proof. intros. cbn. rewrite teqb_refl. reflexivity. Qed.
Lemma count_cons_le : forall t t' prev, count t prev <= count t (t' :: prev).
Proof. intros. cbn. destruct (teqb t t'); lia. Qed.

Lemma faithful_keys : forall f, faithful f -> ckey_format (fconv f) = ckey_flatten (fconv f).
Proof. intros f (_ & Ha & _). destruct (fconv f); try reflexivity. contradiction. Qed.

Lemma flat_format_flatten_from : forall items prev fs,
  issued fs prev -> all_faithful items ->
  flat_format_from (flatten_from prev items fs) prev items = format_event items.
Proof.
  induction items as [|it r IH]; intros prev fs Hi Hf; [reflexivity|].
  assert (Hfr : all_faithful r). { intros it' f' Hin. apply Hf. right. exact Hin. }
  cbn. destruct (fld it) as [f|] eqn:Ef.
  - pose proof (Hf it f (or_introl eq_refl) Ef) as Hff. rewrite (faithful_keys f Hff).
    set (t := (fname f, ckey_flatten (fconv f), fspec f)).
    rewrite (assoc_none_of_issued fs prev t Hi).
    assert (Hi' : issued (fs ++ [(flat_key t prev, flat_value f)]) (t :: prev)).
    { intros t0 n0 v0 Hin. apply in_app_or in Hin. destruct Hin as [Hin|[E|[]]].
      - specialize (Hi t0 n0 v0 Hin). exact (Nat.le_trans _ _ _ Hi (count_cons_le t0 t prev)).
      - unfold flat_key in E. injection E as <- <- _. rewrite count_cons_same. apply Nat.le_refl. }
    rewrite (flatten_keeps r (t :: prev) _ (flat_key t prev) (flat_value f)
               (assoc_app_new fs _ _ (assoc_none_of_issued fs prev t Hi))).
    rewrite (IH (t :: prev) _ Hi' Hfr).
    destruct Hff as (_ & _ & Hfull). rewrite Hfull.
    destruct (format_event r); reflexivity.
  - rewrite (IH prev fs Hi Hfr). destruct (format_event r); reflexivity.
Qed.

Theorem format_flatten_eq_lemma : forall items,
  all_faithful items -> flat_format (flatten items) items = format_event items.
Proof.
  intros items Hf. unfold flat_format, flatten. apply flat_format_flatten_from; [|exact Hf].
  intros t n v [].
Qed.

(** JSON: any serialisation that gives back the same text under every flattened key *)
Theorem format_json_flatten_eq_lemma : forall (json_rt : list (key * text) -> list (key * text)) items,
  (forall fs k, assoc k (json_rt fs) = assoc k fs) ->
  all_faithful items -> flat_format (json_rt (flatten items)) items = format_event items.
Proof.
  intros json_rt items Hj Hf. rewrite <- (format_flatten_eq_lemma items Hf).
  unfold flat_format. generalize (flatten items) as fs. generalize (@nil triple) as prev.
  induction items as [|it r IH]; intros prev fs; [reflexivity|]. cbn.
  assert (Hfr : all_faithful r). { intros it' f' Hin. apply Hf. right. exact Hin. }
  destruct (fld it) as [f|].
  - rewrite Hj. destruct (assoc _ fs); [|reflexivity]. rewrite (IH Hfr). reflexivity.
  - rewrite (IH Hfr). reflexivity.
Qed.

(** ---- the unrestricted statement is false of the current code ---- *)
Definition padded : field := Field 1 7 CNone (Some [32; 32; 53]%N) [53]%N [53]%N.   (* "{x:>3}" with x = 5 *)
Definition asciif : field := Field 1 0 CA (Some [39; 120; 39]%N) [120]%N [39; 120; 39]%N.  (* "{x!a}" *)
Lemma spec_refuted_lemma :
  let items := [Item [] (Some padded)] in
  format_event items = Some [32; 32; 53]%N /\ flat_format (flatten items) items = Some [53]%N.
Proof. split; reflexivity. Qed.
Lemma ascii_refuted_lemma :
  let items := [Item [] (Some asciif)] in
  format_event items = Some [39; 120; 39]%N /\ flat_format (flatten items) items = None.
Proof. split; reflexivity. Qed.

(** a non-trivial event meets the hypothesis: repeated field, both conversions, literal text *)
Definition fx : field := Field 1 0 CNone (Some [120]%N) [120]%N [39; 120; 39]%N.
Definition fxr : field := Field 1 0 CR (Some [39; 120; 39]%N) [120]%N [39; 120; 39]%N.
Example faithful_example :
  let items := [Item [97]%N (Some fx); Item [98]%N (Some fxr); Item [] (Some fx); Item [99]%N None] in
  all_faithful items /\ flat_format (flatten items) items = Some [97; 120; 98; 39; 120; 39; 120; 99]%N.
Proof.
  split; [|reflexivity]. intros it f Hin Hf. cbn in Hin.
  destruct Hin as [<-|[<-|[<-|[<-|[]]]]]; cbn in Hf; try discriminate; injection Hf as <-;
    (split; [reflexivity|split; [discriminate|reflexivity]]).
Qed.
