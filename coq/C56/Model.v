(** C56 — flattenEvent / flatFormat (logger/_flatten.py) against str.format-style formatting of the event.

    A parsed format string is a list of items (literal text, optional replacement field).  A field is
    (field-name id, format-spec id with 0 = empty, conversion) and carries what CPython renders for it:
      r_full  what formatting the ORIGINAL event puts there = format(convert(value, conv), spec)
              (None = it raises), r_str = str(value), r_repr = repr(value)
    (the value is fetched by the field name, with attribute/index/call syntax — all of that is inside these
    three renderings, which the harness computes with CPython independently of twisted).

    KeyFlattener.flatKey numbers the occurrences of each (name, conversion, spec) triple; flattenEvent stores
    str/repr of the value under the key of each occurrence unless the key is already present; flatFormat
    looks the keys up again, computing them with `conversion or "s"`. *)
From Coq Require Import List NArith Bool.
Import ListNotations.

Definition text := list N.
Inductive conv := CNone | CS | CR | CA.

Record field := Field {
  fname : N; fspec : N; fconv : conv;
  r_full : option text; r_str : text; r_repr : text }.
Record item := Item { lit : text; fld : option field }.

(** conversion part of the key: flattenEvent maps everything but "r" to "s"; flatFormat uses `conversion or "s"` *)
Definition ckey_flatten (c : conv) : N := match c with CR => 1 | _ => 0 end%N.
Definition ckey_format (c : conv) : N := match c with CNone | CS => 0 | CR => 1 | CA => 2 end%N.

Definition triple := (N * N * N)%type.
Definition teqb (a b : triple) : bool :=
  let '(x, y, z) := a in let '(x', y', z') := b in N.eqb x x' && N.eqb y y' && N.eqb z z'.
Definition key := (triple * nat)%type.
Definition keqb (a b : key) : bool := teqb (fst a) (fst b) && Nat.eqb (snd a) (snd b).

Fixpoint count (t : triple) (l : list triple) : nat :=
  match l with [] => O | x :: r => (if teqb t x then 1 else 0) + count t r end.

(** KeyFlattener: the key of the next occurrence of triple t after the triples [prev] *)
Definition flat_key (t : triple) (prev : list triple) : key := (t, S (count t prev)).

Fixpoint assoc (k : key) (fs : list (key * text)) : option text :=
  match fs with [] => None | (k', v) :: r => if keqb k k' then Some v else assoc k r end.

(** what str.format applied to the event produces *)
Fixpoint format_event (items : list item) : option text :=
  match items with
  | [] => Some []
  | it :: r =>
      match format_event r with
      | None => None
      | Some rest =>
          match fld it with
          | None => Some (lit it ++ rest)
          | Some f => match r_full f with Some t => Some (lit it ++ t ++ rest) | None => None end
          end
      end
  end.

Definition flat_value (f : field) : text := match fconv f with CR => r_repr f | _ => r_str f end.

(** flattenEvent: walk the items, keep the KeyFlattener history [prev], add str/repr under each new key *)
Fixpoint flatten_from (prev : list triple) (items : list item) (fs : list (key * text)) : list (key * text) :=
  match items with
  | [] => fs
  | it :: r =>
      match fld it with
      | None => flatten_from prev r fs
      | Some f =>
          let t := (fname f, ckey_flatten (fconv f), fspec f) in
          let k := flat_key t prev in
          (* the structured key (name, empty conversion, spec) is counted by the same KeyFlattener under a different text *)
          let fs' := match assoc k fs with Some _ => fs | None => fs ++ [(k, flat_value f)] end in
          flatten_from (t :: prev) r fs'
      end
  end.
Definition flatten (items : list item) : list (key * text) := flatten_from [] items [].

(** flatFormat: None = KeyError *)
Fixpoint flat_format_from (fs : list (key * text)) (prev : list triple) (items : list item) : option text :=
  match items with
  | [] => Some []
  | it :: r =>
      match fld it with
      | None => match flat_format_from fs prev r with Some rest => Some (lit it ++ rest) | None => None end
      | Some f =>
          let t := (fname f, ckey_format (fconv f), fspec f) in
          match assoc (flat_key t prev) fs with
          | None => None
          | Some v =>
              match flat_format_from fs (t :: prev) r with
              | Some rest => Some (lit it ++ v ++ rest)
              | None => None
              end
          end
      end
  end.
Definition flat_format (fs : list (key * text)) (items : list item) : option text := flat_format_from fs [] items.

(** the fields for which flattening is faithful: empty spec, conversion other than "a", and CPython's
    default rule format(x, "") = str(x) holds for the value (true unless the value overrides __format__) *)
Definition faithful (f : field) : Prop :=
  fspec f = 0%N /\ fconv f <> CA /\ r_full f = Some (flat_value f).
Definition all_faithful (items : list item) : Prop :=
  forall it f, In it items -> fld it = Some f -> faithful f.
