(** C56: printer for the correspondence check: original / flattened text as hex of the code points' UTF-8,
    "!" when the formatting raises. *)
From Coq Require Import List NArith Bool String.
From TwLib Require Import Show.
From C56 Require Import Model.
Import ListNotations.
Local Open Scope string_scope.

Definition show_otext (o : option text) : string := match o with Some t => "=" ++ show_hex t | None => "!" end.
Definition run_show (items : list item) : string :=
  show_otext (format_event items) ++ "|" ++ show_otext (flat_format (flatten items) items).
