(** C34: proofs about the regenerated model [Gen.v]. *)
From Coq Require Import ZArith Bool Lia ZifyBool List.
Import ListNotations.
From C34 Require Import Gen Model.
Open Scope Z_scope.
Ltac Zify.zify_post_hook ::= Z.to_euclidean_division_equations.

Lemma pow_split bits : 1 <= bits -> 2 ^ bits = 2 * 2 ^ (bits - 1) /\ 0 < 2 ^ (bits - 1).
Proof.
  intros Hb. split.
  - replace bits with (Z.succ (bits - 1)) at 1 by lia. rewrite Z.pow_succ_r by lia. reflexivity.
  - apply Z.pow_pos_nonneg; lia.
Qed.

Lemma lt_iff bits a b : sn_lt bits a b = true <-> rfc_lt bits a b.
Proof. unfold sn_lt, rfc_lt, sn_halfRing. generalize (2 ^ (bits - 1)). intros h. lia. Qed.

Lemma gt_iff bits a b : sn_gt bits a b = true <-> rfc_gt bits a b.
Proof. unfold sn_gt, rfc_gt, sn_halfRing. generalize (2 ^ (bits - 1)). intros h. lia. Qed.

Lemma eq_iff bits a b : sn_eq bits a b = true <-> a = b.
Proof. unfold sn_eq. lia. Qed.

Lemma trichotomy bits a b :
  1 <= bits -> valid bits a -> valid bits b ->
  (a = b /\ sn_eq bits a b = true /\ sn_lt bits a b = false /\ sn_gt bits a b = false)
  \/ (Z.abs (a - b) = 2 ^ (bits - 1)
      /\ sn_eq bits a b = false /\ sn_lt bits a b = false /\ sn_gt bits a b = false)
  \/ (a <> b /\ Z.abs (a - b) <> 2 ^ (bits - 1)
      /\ sn_eq bits a b = false /\ xorb (sn_lt bits a b) (sn_gt bits a b) = true).
Proof.
  intros Hb Ha Hbv. unfold valid in *. destruct (pow_split bits Hb) as [E Hpos].
  rewrite E in *. unfold sn_eq, sn_lt, sn_gt, sn_halfRing.
  revert Ha Hbv Hpos. generalize (2 ^ (bits - 1)). intros h Ha Hbv Hpos. lia.
Qed.

Lemma le_iff bits a b : sn_le bits a b = true <-> (a = b \/ rfc_lt bits a b).
Proof. unfold sn_le. rewrite orb_true_iff, eq_iff, lt_iff. reflexivity. Qed.

Lemma ge_iff bits a b : sn_ge bits a b = true <-> (a = b \/ rfc_gt bits a b).
Proof. unfold sn_ge. rewrite orb_true_iff, eq_iff, gt_iff. reflexivity. Qed.

Lemma make_valid bits n : 1 <= bits -> valid bits (sn_make bits n) /\ sn_make bits n = n mod 2 ^ bits.
Proof.
  intros Hb. unfold valid, sn_make, sn_modulo. destruct (pow_split bits Hb) as [E Hpos].
  split; [apply Z.mod_pos_bound; lia | reflexivity].
Qed.

Lemma add_ok bits s n :
  1 <= bits -> valid bits s -> 0 <= n <= 2 ^ (bits - 1) - 1 ->
  sn_add bits s n = Some (rfc_add bits s n) /\ valid bits (rfc_add bits s n).
Proof.
  intros Hb Hs Hn. unfold sn_add, sn_maxAdd, sn_make, sn_modulo, rfc_add, valid in *.
  destruct (pow_split bits Hb) as [E Hpos]. rewrite E in *.
  revert Hs Hn Hpos. generalize (2 ^ (bits - 1)). intros h Hs Hn Hpos.
  destruct (n <=? h - 1) eqn:Hc; [|lia].
  rewrite Z.mod_mod by lia. split; [reflexivity|]. apply Z.mod_pos_bound. lia.
Qed.

Lemma add_gt bits s n :
  1 <= bits -> valid bits s -> 0 < n <= 2 ^ (bits - 1) - 1 ->
  sn_gt bits (rfc_add bits s n) s = true /\ sn_lt bits s (rfc_add bits s n) = true.
Proof.
  intros Hb Hs Hn. unfold rfc_add, valid, sn_gt, sn_lt, sn_halfRing in *.
  destruct (pow_split bits Hb) as [E Hpos]. rewrite E in *.
  revert Hs Hn Hpos. generalize (2 ^ (bits - 1)). intros h Hs Hn Hpos.
  assert (Hcase : (s + n) mod (2 * h) = s + n \/ (s + n) mod (2 * h) = s + n - 2 * h).
  { destruct (Z_lt_ge_dec (s + n) (2 * h)) as [Hlt | Hge].
    - left. apply Z.mod_small. lia.
    - right. replace (s + n) with ((s + n - 2 * h) + 1 * (2 * h)) at 1 by lia.
      rewrite Z.mod_add by lia. apply Z.mod_small. lia. }
  destruct Hcase as [-> | ->]; lia.
Qed.

Lemma add_refused bits s n : 2 ^ (bits - 1) - 1 < n -> sn_add bits s n = None.
Proof.
  unfold sn_add, sn_maxAdd. generalize (2 ^ (bits - 1)). intros h Hn.
  destruct (n <=? h - 1) eqn:Hc; [lia|reflexivity].
Qed.

(** non-vacuity: the hypotheses are met by concrete values, including an antipodal pair *)
Example ex_valid : 1 <= 8 /\ valid 8 200 /\ valid 8 72 /\ Z.abs (200 - 72) = 2 ^ (8 - 1).
Proof. unfold valid. cbn. lia. Qed.
Example ex_antipodes : sn_lt 8 200 72 = false /\ sn_gt 8 200 72 = false /\ sn_eq 8 200 72 = false.
Proof. vm_compute. auto. Qed.
Example ex_wrap : sn_add 8 250 10 = Some 4 /\ sn_gt 8 4 250 = true.
Proof. vm_compute. auto. Qed.

(** ---- chains of additions: the left operand is the previous sum ---- *)
Definition chain_step (bits s n : Z) : Z :=
  match sn_add bits s n with Some r => r | None => s end.
Definition chain_val (bits s : Z) (ns : list Z) : Z := fold_left (chain_step bits) ns s.

Lemma chain_sum bits ns : forall s,
  1 <= bits -> valid bits s ->
  Forall (fun n => 0 <= n <= 2 ^ (bits - 1) - 1) ns ->
  chain_val bits s ns = (s + fold_right Z.add 0 ns) mod 2 ^ bits /\ valid bits (chain_val bits s ns).
Proof.
  induction ns as [|n r IH]; intros s Hb Hs Hall; unfold chain_val in *; cbn [fold_left fold_right].
  - split; [|exact Hs]. rewrite Z.add_0_r. unfold valid in Hs. symmetry; apply Z.mod_small; exact Hs.
  - inversion Hall as [|? ? Hn Hr]; subst.
    destruct (add_ok bits s n Hb Hs Hn) as [Ha Hv].
    assert (Hstep : chain_step bits s n = rfc_add bits s n) by (unfold chain_step; rewrite Ha; reflexivity).
    rewrite Hstep.
    destruct (IH (rfc_add bits s n) Hb Hv Hr) as [E V]. split; [|exact V].
    rewrite E. unfold rfc_add.
    rewrite Zplus_mod_idemp_l. f_equal. ring.
Qed.

Lemma chain_refused_keeps bits s n ns :
  2 ^ (bits - 1) - 1 < n -> chain_val bits s (n :: ns) = chain_val bits s ns.
Proof.
  intros H. unfold chain_val; cbn [fold_left].
  assert (Hstep : chain_step bits s n = s) by (unfold chain_step; rewrite (add_refused bits s n H); reflexivity).
  rewrite Hstep. reflexivity.
Qed.
