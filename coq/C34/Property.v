(** C34 property theorems (nothing else lives here; each is closed by [exact]). *)
From Coq Require Import ZArith Bool List.
From C34 Require Import Gen Model Proofs.
Open Scope Z_scope.

(** the implementation's comparisons are exactly RFC 1982 3.2, for every width and value *)
Theorem comparisons_are_rfc1982 : forall bits a b,
  (sn_lt bits a b = true <-> rfc_lt bits a b) /\ (sn_gt bits a b = true <-> rfc_gt bits a b)
  /\ (sn_eq bits a b = true <-> a = b).
Proof. intros; exact (conj (lt_iff bits a b) (conj (gt_iff bits a b) (eq_iff bits a b))). Qed.
Print Assumptions comparisons_are_rfc1982.

(** exactly one of less / equal / greater, except half a ring apart where neither less nor greater *)
Theorem trichotomy_except_antipodes : forall bits a b,
  1 <= bits -> valid bits a -> valid bits b ->
  (a = b /\ sn_eq bits a b = true /\ sn_lt bits a b = false /\ sn_gt bits a b = false)
  \/ (Z.abs (a - b) = 2 ^ (bits - 1)
      /\ sn_eq bits a b = false /\ sn_lt bits a b = false /\ sn_gt bits a b = false)
  \/ (a <> b /\ Z.abs (a - b) <> 2 ^ (bits - 1)
      /\ sn_eq bits a b = false /\ xorb (sn_lt bits a b) (sn_gt bits a b) = true).
Proof. exact trichotomy. Qed.
Print Assumptions trichotomy_except_antipodes.

Theorem le_ge_agree : forall bits a b,
  (sn_le bits a b = true <-> (a = b \/ rfc_lt bits a b)) /\ (sn_ge bits a b = true <-> (a = b \/ rfc_gt bits a b)).
Proof. intros; exact (conj (le_iff bits a b) (ge_iff bits a b)). Qed.
Print Assumptions le_ge_agree.

Theorem constructor_reduces_mod : forall bits n,
  1 <= bits -> valid bits (sn_make bits n) /\ sn_make bits n = n mod 2 ^ bits.
Proof. exact make_valid. Qed.
Print Assumptions constructor_reduces_mod.

Theorem add_is_mod : forall bits s n,
  1 <= bits -> valid bits s -> 0 <= n <= 2 ^ (bits - 1) - 1 ->
  sn_add bits s n = Some (rfc_add bits s n) /\ valid bits (rfc_add bits s n).
Proof. exact add_ok. Qed.
Print Assumptions add_is_mod.

Theorem add_gt_when_positive : forall bits s n,
  1 <= bits -> valid bits s -> 0 < n <= 2 ^ (bits - 1) - 1 ->
  sn_gt bits (rfc_add bits s n) s = true /\ sn_lt bits s (rfc_add bits s n) = true.
Proof. exact add_gt. Qed.
Print Assumptions add_gt_when_positive.

Theorem add_refuses_large : forall bits s n, 2 ^ (bits - 1) - 1 < n -> sn_add bits s n = None.
Proof. exact add_refused. Qed.
Print Assumptions add_refuses_large.

(** sums of sums: whatever chain of legal additions produced the left operand, the result is
    (s + n1 + ... + nk) mod 2^bits and is again a value of the ring (so it carries the ring's own
    addition limit, not that of another width) *)
Theorem chain_of_additions_is_the_sum_mod : forall bits ns s,
  1 <= bits -> valid bits s ->
  Forall (fun n => 0 <= n <= 2 ^ (bits - 1) - 1) ns ->
  chain_val bits s ns = (s + fold_right Z.add 0 ns) mod 2 ^ bits /\ valid bits (chain_val bits s ns).
Proof. exact chain_sum. Qed.
Print Assumptions chain_of_additions_is_the_sum_mod.

Theorem refused_addition_leaves_the_running_sum : forall bits s n ns,
  2 ^ (bits - 1) - 1 < n -> chain_val bits s (n :: ns) = chain_val bits s ns.
Proof. exact chain_refused_keeps. Qed.
Print Assumptions refused_addition_leaves_the_running_sum.
