(** C34: the specification side (RFC 1982 sections 3.1, 3.2, written from the RFC text) and the
    observation printer used by the correspondence check.  The model of the code is [Gen.v],
    regenerated from src/twisted/names/_rfc1982.py on every run. *)
From Coq Require Import ZArith Bool List String.
From TwLib Require Import Show.
From C34 Require Import Gen.
Import ListNotations.
Open Scope Z_scope.

(** RFC 1982 3.2: i1 < i2 / i1 > i2 for serial numbers of SERIAL_BITS = bits. *)
Definition rfc_lt (bits i1 i2 : Z) : Prop :=
  (i1 < i2 /\ i2 - i1 < 2 ^ (bits - 1)) \/ (i1 > i2 /\ i1 - i2 > 2 ^ (bits - 1)).
Definition rfc_gt (bits i1 i2 : Z) : Prop :=
  (i1 < i2 /\ i2 - i1 > 2 ^ (bits - 1)) \/ (i1 > i2 /\ i1 - i2 < 2 ^ (bits - 1)).
(** RFC 1982 3.1: s' = (s + n) modulo 2^bits for n in [0 .. 2^(bits-1) - 1]. *)
Definition rfc_add (bits s n : Z) : Z := (s + n) mod 2 ^ bits.

(** a serial number value of the given width *)
Definition valid (bits a : Z) : Prop := 0 <= a < 2 ^ bits.

(** -------- observation printers for the correspondence check -------- *)
Local Open Scope string_scope.
Definition show_pair_obs (bits a b : Z) : string :=
  show_bool (sn_eq bits a b) ++ show_bool (sn_lt bits a b) ++ show_bool (sn_gt bits a b)
  ++ show_bool (sn_le bits a b) ++ show_bool (sn_ge bits a b)
  ++ match sn_add bits a b with None => "!" | Some r => show_Z r end.

(** one case = (bits, a, b) after construction through sn_make (the class reduces mod 2^bits) *)
Definition run_pair (c : Z * Z * Z) : string :=
  let '(bits, n1, n2) := c in
  show_pair_obs bits (sn_make bits n1) (sn_make bits n2).

(** one case = (bits, a, ns): ((a + n1) + n2) + ..., the left operand of every step being the
    previous sum (a refused addition leaves it unchanged); each step prints the pair observation *)
Fixpoint chain_obs (bits a : Z) (ns : list Z) : list string :=
  match ns with
  | [] => []
  | n :: r => show_pair_obs bits a n
              :: chain_obs bits (match sn_add bits a n with Some s => s | None => a end) r
  end.
Definition run_chain (bits a : Z) (ns : list Z) : string :=
  String.concat ";" (chain_obs bits (sn_make bits a) (map (sn_make bits) ns)).

Fixpoint zrange (n : nat) : list Z :=
  match n with O => [] | S k => zrange k ++ [Z.of_nat k] end.

(** one case = a width: the whole table over all pairs of values *)
Definition run_table (bits : Z) : string :=
  let vs := zrange (Z.to_nat (2 ^ bits)) in
  String.concat "," (flat_map (fun a => map (fun b => show_pair_obs bits a b) vs) vs).
