(** C06: DeferredLock / DeferredSemaphore (src/twisted/internet/defer.py, _ConcurrencyPrimitive.run,
    DeferredSemaphore.acquire/release/_cancelAcquire; DeferredLock is the limit-1 instance with
    [locked] read as [tokens = 0]).

    The primitive's own bookkeeping ([tokens], the [waiting] FIFO) is transcribed; what a granted
    acquisition does next is a *continuation* stored with the waiter (the callbacks on its Deferred):
    a script of further operations on the same primitive (re-entrancy: they run synchronously inside
    [release], depth first) and, for [run], the function's behaviour.  Execution is a work stack of
    items; every API call appends timestamped events to a ghost log (newest first).

    Acquisition ids number the [acquire]/[run] calls in call order. *)
From Coq Require Import List Arith ZArith Bool.
Import ListNotations.

(** behaviour of the function handed to [run] (after its script) *)
(** [FDefer]: returns an unfired Deferred that fires later.  [FChain]: returns a Deferred that has ALREADY fired
    ([called] is true) but whose callback chain is suspended on a pending inner Deferred, so that its result only
    becomes available later ([succeed(x).addCallback(lambda _: inner)]).  "Result available" always means: the
    returned Deferred's chain delivers a result to the callback run() added ([EFnDone]), never merely "fired".
    [FRaiseBase]: raises, synchronously, an exception that derives from BaseException but not from Exception
    (asyncio.CancelledError, GeneratorExit, KeyboardInterrupt, an application subclass): maybeDeferred turns it into
    a failed Deferred like any other exception, so the release happens all the same.
    (Returning an already fired / failed Deferred, or being a coroutine function that returns / raises, is [FRet] /
    [FRaise] for the model: maybeDeferred hands run() a fired Deferred in all those cases.) *)
Inductive fn := FRet (v : Z) | FRaise | FDefer | FChain | FRaiseBase.

(** simple operations (usable at top level and inside scripts) *)
Inductive sop :=
| SAcq                                   (* acquire(), callbacks only record *)
| SRun (f : fn)                          (* run(f) *)
| SRel (i : nat)                         (* release() by plain holder i (ignored unless i holds) *)
| SRelSelf                               (* inside the script of acquisition i: release by i *)
| SCancel (i : nat)                      (* cancel the Deferred of acquisition / run i *)
| SFire (j : nat) (ok : bool) (v : Z).   (* fire the Deferred returned by run j's function *)

Inductive op :=
| Simple (o : sop)
| AcqThen (sc esc : list sop)            (* acquire().addCallbacks(lambda _: sc, lambda failure: esc): re-entrant scripts run
                                            when the acquisition is granted / when it is cancelled while pending *)
| RunThen (sc : list sop) (f : fn).      (* run(lambda: sc; then behave as f) *)

Inductive outcome := OK (v : Z) | Boom | Cancelled | BoomBase.

Inductive ev :=
| EWait (i : nat)                 (* acquire returned an unfired Deferred *)
| EGrant (i : nat)                (* acquisition i's Deferred fired with the primitive / run i's function entered *)
| ERelease (i : nat)              (* release() entered on behalf of holder i (tokens stamped before) *)
| ECancel (i : nat)               (* pending acquisition i failed with CancelledError *)
| ENoop                           (* the call had no effect *)
| EFnDone (j : nat)               (* run j's function result became available *)
| EResult (j : nat) (r : outcome). (* run j's Deferred fired *)

Inductive cont := CPlain (sc esc : list sop) | CRun (sc : list sop) (f : fn).
Inductive hkind := HPlain | HRunning | HPending.

Inductive item := IOp (o : op) | IEndF (j : nat) (f : fn) | IResult (j : nat) (r : outcome).

Record st := mk {
  tokens : nat;
  waiting : list (nat * cont);
  plain : list nat;                 (* ghost: holders by acquire() that have not released *)
  running : list nat;               (* ghost: run()s whose function has been entered and has not returned *)
  pending : list nat;               (* ghost: run()s whose function returned a Deferred that has not fired *)
  next : nat;
  log : list (ev * nat)             (* ghost: events, newest first, each with [tokens] at that moment *)
}.

Definition init (limit : nat) : st := mk limit [] [] [] [] 0 [].

Definition holders (s : st) : list nat := plain s ++ running s ++ pending s.

Definition set_tokens t s := mk t (waiting s) (plain s) (running s) (pending s) (next s) (log s).
Definition set_waiting w s := mk (tokens s) w (plain s) (running s) (pending s) (next s) (log s).
Definition set_plain h s := mk (tokens s) (waiting s) h (running s) (pending s) (next s) (log s).
Definition set_running h s := mk (tokens s) (waiting s) (plain s) h (pending s) (next s) (log s).
Definition set_pending h s := mk (tokens s) (waiting s) (plain s) (running s) h (next s) (log s).
Definition set_next n s := mk (tokens s) (waiting s) (plain s) (running s) (pending s) n (log s).
Definition emit (e : ev) s :=
  mk (tokens s) (waiting s) (plain s) (running s) (pending s) (next s) ((e, tokens s) :: log s).

Definition ids {A} (l : list (nat * A)) : list nat := map fst l.

Fixpoint remove_id {A} (i : nat) (l : list (nat * A)) : list (nat * A) :=
  match l with
  | [] => []
  | (j, a) :: r => if Nat.eqb i j then r else (j, a) :: remove_id i r
  end.

Fixpoint remove_first (i : nat) (l : list nat) : list nat :=
  match l with
  | [] => []
  | j :: r => if Nat.eqb i j then r else j :: remove_first i r
  end.

Definition mem (i : nat) (l : list nat) : bool := existsb (Nat.eqb i) l.

Definition inst (i : nat) (o : sop) : sop := match o with SRelSelf => SRel i | _ => o end.
Definition script_items (i : nat) (sc : list sop) : list item := map (fun o => IOp (Simple (inst i o))) sc.

Definition items_of (i : nat) (c : cont) : list item :=
  match c with
  | CPlain sc _ => script_items i sc
  | CRun sc f => script_items i sc ++ [IEndF i f]
  end.

(** the errback script of pending acquisition i *)
Fixpoint find_cont (i : nat) (l : list (nat * cont)) : option cont :=
  match l with
  | [] => None
  | (j, c) :: r => if Nat.eqb i j then Some c else find_cont i r
  end.
Definition errback_items (i : nat) (l : list (nat * cont)) : list item :=
  match find_cont i l with Some (CPlain _ esc) => script_items i esc | _ => [] end.

Definition add_holder (i : nat) (c : cont) (s : st) : st :=
  match c with
  | CPlain _ _ => set_plain (i :: plain s) s
  | CRun _ _ => set_running (i :: running s) s
  end.

(** the Deferred of acquisition i fires (capacity already taken): its callbacks run *)
Definition do_grant (i : nat) (c : cont) (s : st) : st * list item :=
  (emit (EGrant i) (add_holder i c s), items_of i c).

(** acquire(): [if not self.tokens: waiting.append(d) else: tokens -= 1; d.callback(self)] *)
Definition do_acquire (c : cont) (s : st) : st * list item :=
  let i := next s in
  let s1 := set_next (S i) s in
  if Nat.eqb (tokens s1) 0
  then (emit (EWait i) (set_waiting (waiting s1 ++ [(i, c)]) s1), [])
  else do_grant i c (set_tokens (tokens s1 - 1) s1).

Definition drop_holder (k : hkind) (i : nat) (s : st) : st :=
  match k with
  | HPlain => set_plain (remove_first i (plain s)) s
  | HRunning => set_running (remove_first i (running s)) s
  | HPending => set_pending (remove_first i (pending s)) s
  end.

(** release() by holder i (of ghost kind k):
    [tokens += 1; if waiting: tokens -= 1; d = waiting.pop(0); d.callback(self)] *)
Definition do_release (k : hkind) (i : nat) (s : st) : st * list item :=
  let s1 := drop_holder k i (emit (ERelease i) s) in
  let s2 := set_tokens (tokens s1 + 1) s1 in
  match waiting s2 with
  | [] => (s2, [])
  | (j, c) :: w => do_grant j c (set_waiting w (set_tokens (tokens s2 - 1) s2))
  end.

(** run j's function result is available: [.addBoth(self._releaseAndReturn)] releases, then the
    run Deferred gets the result (after everything the release triggered) *)
Definition fn_done (k : hkind) (j : nat) (r : outcome) (s : st) : st * list item :=
  let '(s1, its) := do_release k j (emit (EFnDone j) s) in (s1, its ++ [IResult j r]).

Definition step_sop (o : sop) (s : st) : st * list item :=
  match o with
  | SAcq => do_acquire (CPlain [] []) s
  | SRun f => do_acquire (CRun [] f) s
  | SRel i => if mem i (plain s) then do_release HPlain i s else (emit ENoop s, [])
  | SRelSelf => (emit ENoop s, [])
  | SCancel i =>
      if mem i (ids (waiting s))
      then (emit (ECancel i) (set_waiting (remove_id i (waiting s)) s),          (* _cancelAcquire removes it, THEN *)
            errback_items i (waiting s))                                          (* CancelledError: its errbacks run *)
      else if mem i (pending s)
      then fn_done HPending i Cancelled s          (* cancel() is forwarded to the function's Deferred *)
      else (emit ENoop s, [])
  | SFire j ok v =>
      if mem j (pending s) then fn_done HPending j (if ok then OK v else Boom) s else (emit ENoop s, [])
  end.

Definition step (s : st) (it : item) : st * list item :=
  match it with
  | IOp (Simple o) => step_sop o s
  | IOp (AcqThen sc esc) => do_acquire (CPlain sc esc) s
  | IOp (RunThen sc f) => do_acquire (CRun sc f) s
  | IEndF j (FRet v) => fn_done HRunning j (OK v) s
  | IEndF j FRaise => fn_done HRunning j Boom s
  | IEndF j FRaiseBase => fn_done HRunning j BoomBase s
  | IEndF j FDefer => (set_pending (j :: pending s) (set_running (remove_first j (running s)) s), [])
  | IEndF j FChain => (set_pending (j :: pending s) (set_running (remove_first j (running s)) s), [])
  | IResult j r => (emit (EResult j r) s, [])
  end.

(** run the work stack; new work goes on top (synchronous, depth-first callbacks) *)
Fixpoint exec (fuel : nat) (s : st) (w : list item) : st * list item :=
  match fuel, w with
  | _, [] => (s, [])
  | O, _ => (s, w)
  | S k, it :: r => let '(s1, new) := step s it in exec k s1 (new ++ r)
  end.

Definition run (limit fuel : nat) (ops : list op) : st * list item :=
  exec fuel (init limit) (map IOp ops).

(** ---- ghost readings of the log ---- *)
Definition waited_of (e : ev * nat) : list nat := match fst e with EWait i => [i] | _ => [] end.
Definition granted_of (e : ev * nat) : list nat := match fst e with EGrant i => [i] | _ => [] end.
Definition released_of (e : ev * nat) : list nat := match fst e with ERelease i => [i] | _ => [] end.
Definition cancelled_of (e : ev * nat) : list nat := match fst e with ECancel i => [i] | _ => [] end.
Definition fndone_of (e : ev * nat) : list nat := match fst e with EFnDone i => [i] | _ => [] end.
Definition resulted_of (e : ev * nat) : list nat := match fst e with EResult i _ => [i] | _ => [] end.
Definition waited l := flat_map waited_of l.
Definition resulted l := flat_map resulted_of l.
Definition granted l := flat_map granted_of l.
Definition released l := flat_map released_of l.
Definition cancelled l := flat_map cancelled_of l.
Definition fndone l := flat_map fndone_of l.

(** runs whose function body / whose result delivery is still on the work stack *)
Definition endf_of (it : item) : list nat := match it with IEndF j _ => [j] | _ => [] end.
Definition due_of (it : item) : list nat := match it with IResult j _ => [j] | _ => [] end.
Definition endfs (w : list item) : list nat := flat_map endf_of w.
Definition due (w : list item) : list nat := flat_map due_of w.

(** work still owed: used for the termination bound *)
Definition w_sop (o : sop) : nat := match o with SRun _ => 3 | _ => 1 end.
Definition w_script (sc : list sop) : nat := list_sum (map w_sop sc).
Definition w_cont (c : cont) : nat :=
  match c with CPlain sc esc => w_script sc + w_script esc | CRun sc _ => w_script sc + 2 end.
Definition w_item (it : item) : nat :=
  match it with
  | IOp (Simple o) => w_sop o
  | IOp (AcqThen sc esc) => 1 + w_script sc + w_script esc
  | IOp (RunThen sc _) => 3 + w_script sc
  | IEndF _ _ => 2
  | IResult _ _ => 1
  end.
Definition measure (s : st) (w : list item) : nat :=
  list_sum (map w_item w) + list_sum (map (fun p => w_cont (snd p)) (waiting s)) + length (pending s).
