(** C06: order of events in the log. *)
From Coq Require Import List Arith ZArith Bool Lia Sorted.
From C06 Require Import Model ProofsBase ProofsInv ProofsStack.
Import ListNotations.

(** ---- order of events in the log (newest first) ---- *)
Fixpoint log_ok (L : list (ev * nat)) : Prop :=
  match L with
  | [] => True
  | e :: older =>
      (forall j r, fst e = EResult j r -> In j (released older) /\ In j (fndone older)) /\
      (forall j, fst e = EGrant j -> ~ In j (cancelled older)) /\
      match older with
      | e0 :: _ => forall j, fst e0 = EFnDone j -> fst e = ERelease j
      | [] => True
      end /\ log_ok older
  end.

Definition settled (L : list (ev * nat)) : Prop :=
  match L with e :: _ => forall j, fst e <> EFnDone j | [] => True end.

Definition LogOK (s : st) : Prop := log_ok (log s) /\ settled (log s).

Lemma log_ok_cons e L :
  log_ok L -> settled L ->
  (forall j r, fst e = EResult j r -> In j (released L) /\ In j (fndone L)) ->
  (forall j, fst e = EGrant j -> ~ In j (cancelled L)) ->
  log_ok (e :: L).
Proof.
  intros HL Hs Hr Hg. cbn [log_ok]. repeat split; auto; try (apply (Hr j r); assumption).
  destruct L as [|e0 L0]; [exact I|]. intros j Hj. exfalso. apply (Hs j Hj).
Qed.

Lemma logok_emit e s :
  LogOK s ->
  (forall j r, e = EResult j r -> In j (released (log s)) /\ In j (fndone (log s))) ->
  (forall j, e = EGrant j -> ~ In j (cancelled (log s))) ->
  (forall j, e <> EFnDone j) ->
  LogOK (emit e s).
Proof.
  intros [HL Hs] Hr Hg Hf. split; cbn [log emit].
  - apply log_ok_cons; auto.
  - cbn. exact Hf.
Qed.

Lemma logok_same s s1 : log s1 = log s -> LogOK s -> LogOK s1.
Proof. unfold LogOK. intros ->. auto. Qed.

Lemma logok_grant q c s0 : LogOK s0 -> ~ In q (cancelled (log s0)) -> LogOK (fst (do_grant q c s0)).
Proof.
  intros HL Hq. unfold do_grant. cbn [fst]. apply logok_emit.
  - eapply logok_same; [|exact HL]. destruct c; reflexivity.
  - intros; discriminate.
  - intros j [= <-]. destruct c; exact Hq.
  - intros; discriminate.
Qed.

Lemma logok_acquire c s : LogOK s -> ~ In (next s) (cancelled (log s)) -> LogOK (fst (do_acquire c s)).
Proof.
  intros HL Hn. unfold do_acquire. cbn [tokens set_next]. destruct (Nat.eqb (tokens s) 0); cbn [fst].
  - apply logok_emit; try (intros; discriminate). eapply logok_same; [|exact HL]. reflexivity.
  - apply logok_grant; [eapply logok_same; [|exact HL]; reflexivity | exact Hn].
Qed.

Definition head_ok (s : st) : Prop := forall q c w0, waiting s = (q, c) :: w0 -> ~ In q (cancelled (log s)).

(** release, possibly right after the function-done event of the same run *)
Lemma logok_release_gen k i s :
  log_ok (log s) -> (settled (log s) \/ exists x L, log s = (EFnDone i, x) :: L) -> head_ok s ->
  LogOK (fst (do_release k i s)).
Proof.
  intros HL Hs Hh. unfold do_release.
  set (s1 := drop_holder k i (emit (ERelease i) s)).
  assert (H1 : waiting s1 = waiting s /\ log s1 = (ERelease i, tokens s) :: log s).
  { subst s1. destruct k; split; reflexivity. }
  destruct H1 as (Hw & Hl).
  assert (HL1 : LogOK s1).
  { split; rewrite Hl; [|cbn; intros; discriminate].
    destruct Hs as [Hs | (x & L & E)].
    - apply log_ok_cons; auto; cbn; intros; discriminate.
    - rewrite E in *. cbn [log_ok] in *. repeat split; try (cbn; intros; discriminate); try tauto.
      cbn. intros j [= <-]. reflexivity. }
  cbn [waiting set_tokens]. rewrite Hw. destruct (waiting s) as [|[q c] w0] eqn:Ew.
  - cbn [fst]. eapply logok_same; [|exact HL1]. reflexivity.
  - apply logok_grant.
    + eapply logok_same; [|exact HL1]. reflexivity.
    + cbn [log set_waiting set_tokens]. rewrite Hl. rewrite cancelled_cons. cbn. eapply Hh. exact Ew.
Qed.

Lemma logok_release k i s : LogOK s -> head_ok s -> LogOK (fst (do_release k i s)).
Proof. intros [HL Hs] Hh. apply logok_release_gen; auto. Qed.

Lemma logok_fn_done k i o s : LogOK s -> head_ok s -> LogOK (fst (fn_done k i o s)).
Proof.
  intros [HL Hs] Hh. unfold fn_done.
  pose proof (logok_release_gen k i (emit (EFnDone i) s)) as H.
  destruct (do_release k i (emit (EFnDone i) s)) as [s1 its]. cbn [fst] in *. apply H.
  - cbn [log emit]. apply log_ok_cons; auto; cbn; intros; discriminate.
  - right. cbn [log emit]. eauto.
  - intros q c w0 Ew. cbn [waiting log emit] in *. rewrite cancelled_cons. cbn. eapply Hh. exact Ew.
Qed.

Lemma step_logok limit s it r : Good limit s (it :: r) -> LogOK s -> LogOK (fst (step s it)).
Proof.
  intros [HI HS] HL.
  assert (Hres : forall j r0, it = IResult j r0 -> In j (released (log s)) /\ In j (fndone (log s))).
  { intros j r0 ->. specialize (HS j). unfold sok_id in HS. rewrite due_cons in HS. cbn [due_of] in HS.
    rewrite cnt_app, cnt_cons, one_refl in HS. rewrite !cnt_In. lia. }
  assert (Hhead : head_ok s).
  { intros q c w0 Hw. destruct HI as (_ & _ & _ & Hid). specialize (Hid q). unfold ok_id in Hid. cbn zeta in Hid.
    rewrite Hw, ids_cons, cnt_cons, one_refl in Hid. rewrite cnt_In. lia. }
  assert (Hfresh : ~ In (next s) (cancelled (log s))).
  { pose proof (fresh_zero limit s HI) as Hf. rewrite cnt_In. lia. }
  assert (Hnoop : LogOK (emit ENoop s)) by (apply logok_emit; auto; intros; discriminate).
  destruct it as [[o|sc|sc f]|j0 [v| | | |]|j0 r0]; cbn [step].
  1: destruct o as [|f|i| |i|j1 ok v]; cbn [step_sop].
  all: repeat match goal with |- context [if ?b then _ else _] => destruct b end; cbn [fst];
    try solve [apply logok_acquire; assumption | apply logok_release; assumption
              | apply logok_fn_done; assumption | exact Hnoop].
  - apply logok_emit; try (intros; discriminate). eapply logok_same; [|exact HL]. reflexivity.
  - eapply logok_same; [|exact HL]. reflexivity.
  - eapply logok_same; [|exact HL]. reflexivity.
  - apply logok_emit; try (intros; discriminate); auto. intros j r1 [= <- <-]. eapply Hres. reflexivity.
Qed.

Lemma exec_logok limit fuel : forall s w, Good limit s w -> LogOK s -> LogOK (fst (exec fuel s w)).
Proof.
  induction fuel as [|k IH]; intros s w HG HL.
  - destruct w; exact HL.
  - destruct w as [|it r]; [exact HL|]. cbn [exec].
    pose proof (step_good limit s it r HG) as HG'. pose proof (step_logok limit s it r HG HL) as HL'.
    destruct (step s it) as [s1 new]. cbn [fst snd] in *. apply IH; assumption.
Qed.

Lemma run_logok limit fuel ops : LogOK (fst (run limit fuel ops)).
Proof.
  unfold run. apply (exec_logok limit).
  - split; [apply inv_init | apply sok_init].
  - split; exact I.
Qed.

(** readable consequences of [log_ok]: decompositions of the (newest-first) log *)
Lemma log_ok_result L : log_ok L -> forall l1 x l2 j r, L = l1 ++ (EResult j r, x) :: l2 ->
  In j (released l2) /\ In j (fndone l2).
Proof.
  intros H l1. revert L H. induction l1 as [|e l1 IH]; intros L H x l2 j r ->.
  - cbn in H. destruct H as (H & _). apply (H j r). reflexivity.
  - cbn [app log_ok] in H. destruct H as (_ & _ & _ & H). eapply IH; [exact H | reflexivity].
Qed.

Lemma log_ok_grant L : log_ok L -> forall l1 x l2 j, L = l1 ++ (EGrant j, x) :: l2 -> ~ In j (cancelled l2).
Proof.
  intros H l1. revert L H. induction l1 as [|e l1 IH]; intros L H x l2 j ->.
  - cbn in H. destruct H as (_ & H & _). apply (H j). reflexivity.
  - cbn [app log_ok] in H. destruct H as (_ & _ & _ & H). eapply IH; [exact H | reflexivity].
Qed.

Lemma log_ok_fndone_ne l1 : forall x l2 j, l1 <> [] -> log_ok (l1 ++ (EFnDone j, x) :: l2) ->
  exists l0 y, l1 = l0 ++ [(ERelease j, y)].
Proof.
  induction l1 as [|e l1 IH]; intros x l2 j Hne H; [congruence|].
  cbn [app log_ok] in H. destruct H as (_ & _ & Hadj & H).
  destruct l1 as [|e1 l1'].
  - cbn [app] in Hadj. specialize (Hadj j eq_refl). exists [], (snd e). destruct e as [e y]. cbn in *. subst. reflexivity.
  - destruct (IH x l2 j) as (l0 & y & E); [discriminate | exact H |].
    exists (e :: l0), y. rewrite E. reflexivity.
Qed.

Lemma log_ok_fndone L : log_ok L -> settled L -> forall l1 x l2 j, L = l1 ++ (EFnDone j, x) :: l2 ->
  exists l0 y, l1 = l0 ++ [(ERelease j, y)].
Proof.
  intros H Hs l1 x l2 j ->. apply (log_ok_fndone_ne l1 x l2 j); [|exact H].
  intros ->. cbn in Hs. apply (Hs j). reflexivity.
Qed.

(** a release that finds pending acquisitions hands the capacity to the oldest of them, at once *)
Lemma release_grants_oldest k i s q c w0 :
  waiting s = (q, c) :: w0 ->
  exists x y, log (fst (do_release k i s)) = (EGrant q, y) :: (ERelease i, x) :: log s
              /\ waiting (fst (do_release k i s)) = w0 /\ tokens (fst (do_release k i s)) = tokens s.
Proof.
  intros Hw. unfold do_release. destruct k; cbn; rewrite Hw; unfold do_grant; destruct c; cbn;
    eexists; eexists; (split; [reflexivity | split; [reflexivity | lia]]).
Qed.

Lemma release_without_waiters k i s :
  waiting s = [] ->
  exists x, log (fst (do_release k i s)) = (ERelease i, x) :: log s /\ tokens (fst (do_release k i s)) = S (tokens s).
Proof.
  intros Hw. unfold do_release. destruct k; cbn; rewrite Hw; cbn; eexists; (split; [reflexivity | lia]).
Qed.

(** an acquire is granted at once exactly when capacity is free; otherwise it joins the end of the queue *)
Lemma acquire_grants_iff_free c s :
  (1 <= tokens s -> exists y, log (fst (do_acquire c s)) = (EGrant (next s), y) :: log s
                              /\ tokens (fst (do_acquire c s)) = tokens s - 1) /\
  (tokens s = 0 -> exists y, log (fst (do_acquire c s)) = (EWait (next s), y) :: log s
                             /\ ids (waiting (fst (do_acquire c s))) = ids (waiting s) ++ [next s]).
Proof.
  unfold do_acquire. cbn [tokens set_next]. split; intros Ht.
  - destruct (Nat.eqb_spec (tokens s) 0); [lia|]. unfold do_grant. destruct c; cbn; eexists; split; reflexivity.
  - rewrite Ht. cbn. eexists. split; [reflexivity|]. rewrite ids_app. reflexivity.
Qed.


(** whatever the outcome of run j's function (value, exception, BaseException, failure or cancellation of the Deferred
    it returned), the release follows the result at once *)
Lemma fn_done_releases k j r s :
  exists x y l, log (fst (fn_done k j r s)) = l ++ (ERelease j, y) :: (EFnDone j, x) :: log s.
Proof.
  unfold fn_done. set (s0 := emit (EFnDone j) s).
  assert (Hl : log s0 = (EFnDone j, tokens s) :: log s) by reflexivity.
  destruct (waiting s0) as [|[q c] w0] eqn:Hw.
  - destruct (release_without_waiters k j s0 Hw) as (x & E & _).
    destruct (do_release k j s0) as [s1 its]. cbn [fst] in *. exists (tokens s), x, []. rewrite E, Hl. reflexivity.
  - destruct (release_grants_oldest k j s0 q c w0 Hw) as (x & y & E & _).
    destruct (do_release k j s0) as [s1 its]. cbn [fst] in *. exists (tokens s), x, [(EGrant q, y)]. rewrite E, Hl. reflexivity.
Qed.
