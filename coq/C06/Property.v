(** C06 property theorems: for every limit, every history of acquire / run / release / cancel / fire
    (with re-entrant scripts run from inside the granting call) and every amount of fuel, i.e. at every
    intermediate point of every history.  [s] is the state reached, [log s] the ghost event log (newest first). *)
From Coq Require Import List Arith ZArith Bool Sorted.
From C06 Require Import Model Proofs.
Import ListNotations.

(** holders never exceed the limit and no capacity is lost: free tokens + holders = limit, always; the
    holders are exactly the acquisitions that have been granted and have not released *)
Theorem holders_le_limit_no_capacity_lost : forall limit fuel ops,
  let s := fst (run limit fuel ops) in
  tokens s + length (holders s) = limit /\ length (holders s) <= limit.
Proof. intros limit fuel ops. split; [exact (fact_capacity limit fuel ops) | exact (fact_holders_le limit fuel ops)]. Qed.
Print Assumptions holders_le_limit_no_capacity_lost.

Theorem holders_are_the_granted_unreleased : forall limit fuel ops,
  let s := fst (run limit fuel ops) in
  NoDup (holders s) /\
  forall j, In j (holders s) <-> (In j (granted (log s)) /\ ~ In j (released (log s))).
Proof. exact fact_holders_are_granted_unreleased. Qed.
Print Assumptions holders_are_the_granted_unreleased.

(** a pending acquisition is granted as soon as capacity is free: nobody waits while a token is free *)
Theorem nobody_waits_while_capacity_is_free : forall limit fuel ops,
  let s := fst (run limit fuel ops) in 1 <= tokens s -> waiting s = [].
Proof. exact fact_no_idle_capacity. Qed.
Print Assumptions nobody_waits_while_capacity_is_free.

(** the queue is exactly the acquisitions that were made to wait and were neither granted nor cancelled,
    in request order (ids number the acquire/run calls in call order) *)
Theorem waiting_is_the_pending_acquisitions_in_request_order : forall limit fuel ops,
  let s := fst (run limit fuel ops) in
  StronglySorted lt (ids (waiting s)) /\
  forall j, In j (ids (waiting s)) <->
            (In j (waited (log s)) /\ ~ In j (granted (log s)) /\ ~ In j (cancelled (log s))).
Proof. exact fact_waiting_fifo. Qed.
Print Assumptions waiting_is_the_pending_acquisitions_in_request_order.

(** ... and a release that finds the queue non-empty grants its head (the oldest pending acquisition) as the
    very next event, keeping the token count; with an empty queue it frees one token *)
Theorem release_grants_the_oldest_pending_at_once : forall k i s q c w0,
  waiting s = (q, c) :: w0 ->
  exists x y, log (fst (do_release k i s)) = (EGrant q, y) :: (ERelease i, x) :: log s
              /\ waiting (fst (do_release k i s)) = w0 /\ tokens (fst (do_release k i s)) = tokens s.
Proof. exact release_grants_oldest. Qed.
Print Assumptions release_grants_the_oldest_pending_at_once.

Theorem release_with_empty_queue_frees_a_token : forall k i s,
  waiting s = [] ->
  exists x, log (fst (do_release k i s)) = (ERelease i, x) :: log s /\ tokens (fst (do_release k i s)) = S (tokens s).
Proof. exact release_without_waiters. Qed.
Print Assumptions release_with_empty_queue_frees_a_token.

Theorem acquire_is_granted_at_once_iff_capacity_is_free : forall c s,
  (1 <= tokens s -> exists y, log (fst (do_acquire c s)) = (EGrant (next s), y) :: log s
                              /\ tokens (fst (do_acquire c s)) = tokens s - 1) /\
  (tokens s = 0 -> exists y, log (fst (do_acquire c s)) = (EWait (next s), y) :: log s
                             /\ ids (waiting (fst (do_acquire c s))) = ids (waiting s) ++ [next s]).
Proof. exact acquire_grants_iff_free. Qed.
Print Assumptions acquire_is_granted_at_once_iff_capacity_is_free.

(** a cancelled pending acquisition is never granted (neither before nor after) and takes no capacity *)
Theorem cancelled_pending_never_granted_takes_no_capacity : forall limit fuel ops,
  let s := fst (run limit fuel ops) in
  forall j, In j (cancelled (log s)) ->
            ~ In j (granted (log s)) /\ ~ In j (holders s) /\ ~ In j (ids (waiting s)) /\ In j (waited (log s)).
Proof. exact fact_cancelled. Qed.
Print Assumptions cancelled_pending_never_granted_takes_no_capacity.

(** every acquisition is granted, released, cancelled at most once; only granted ones release; a run
    delivers at most one result, only after its function's result, which is only after ... its release *)
Theorem each_event_at_most_once : forall limit fuel ops,
  let s := fst (run limit fuel ops) in
  NoDup (granted (log s)) /\ NoDup (released (log s)) /\ NoDup (cancelled (log s)) /\ NoDup (resulted (log s)) /\
  (forall j, In j (released (log s)) -> In j (granted (log s))) /\
  (forall j, In j (resulted (log s)) -> In j (fndone (log s))) /\
  (forall j, In j (fndone (log s)) -> In j (released (log s))) /\
  (forall j, In j (ids (waiting s)) \/ In j (granted (log s)) \/ In j (cancelled (log s)) -> j < next s).
Proof. exact fact_once. Qed.
Print Assumptions each_event_at_most_once.

(** run() releases exactly once, after its function's result is available — i.e. when the Deferred the function
    returned DELIVERS a result down its chain ([EFnDone]), which for an already-fired Deferred whose chain is
    suspended ([FChain]) is later than "fired" —: in the log (newest first)
    the event right after "function result of run j available" is the release by j; j's result is delivered
    only after both; and j releases at most once ([each_event_at_most_once]) *)
Theorem run_releases_right_after_its_result_is_available : forall limit fuel ops l1 x l2 j,
  log (fst (run limit fuel ops)) = l1 ++ (EFnDone j, x) :: l2 ->
  exists l0 y, l1 = l0 ++ [(ERelease j, y)].
Proof.
  intros limit fuel ops. exact (log_ok_fndone _ (proj1 (run_logok limit fuel ops)) (proj2 (run_logok limit fuel ops))).
Qed.
Print Assumptions run_releases_right_after_its_result_is_available.

(** ... for EVERY outcome of the function: [fn_done] is what the model does when run j's function result becomes
    available, with r ranging over all outcomes — a value, an Exception, a BaseException that is not an Exception
    ([BoomBase]: maybeDeferred catches it like the others), the failure of the Deferred it returned, its cancellation —
    and it always releases, at once (then possibly grants the oldest waiter) *)
Theorem run_releases_whatever_the_function_outcome : forall k j r s,
  exists x y l, log (fst (fn_done k j r s)) = l ++ (ERelease j, y) :: (EFnDone j, x) :: log s.
Proof. exact fn_done_releases. Qed.
Print Assumptions run_releases_whatever_the_function_outcome.

Theorem run_result_is_delivered_after_release : forall limit fuel ops l1 x l2 j r,
  log (fst (run limit fuel ops)) = l1 ++ (EResult j r, x) :: l2 ->
  In j (released l2) /\ In j (fndone l2).
Proof. intros limit fuel ops. exact (log_ok_result _ (proj1 (run_logok limit fuel ops))). Qed.
Print Assumptions run_result_is_delivered_after_release.

Theorem no_grant_after_cancel : forall limit fuel ops l1 x l2 j,
  log (fst (run limit fuel ops)) = l1 ++ (EGrant j, x) :: l2 -> ~ In j (cancelled l2).
Proof. intros limit fuel ops. exact (log_ok_grant _ (proj1 (run_logok limit fuel ops))). Qed.
Print Assumptions no_grant_after_cancel.

(** every history runs to completion (the synchronous cascade of callbacks terminates) with the stated fuel,
    and then every run whose function result became available has delivered its result *)
Theorem every_history_completes : forall limit ops fuel,
  list_sum (map w_item (map IOp ops)) <= fuel -> snd (run limit fuel ops) = [].
Proof.
  intros limit ops fuel H. unfold run. apply exec_completes. rewrite measure_init. exact H.
Qed.
Print Assumptions every_history_completes.

Theorem completed_history_delivered_every_available_result : forall limit fuel ops,
  snd (run limit fuel ops) = [] ->
  forall j, count_occ Nat.eq_dec (resulted (log (fst (run limit fuel ops)))) j
            = count_occ Nat.eq_dec (fndone (log (fst (run limit fuel ops)))) j.
Proof. exact fact_results_complete. Qed.
Print Assumptions completed_history_delivered_every_available_result.

(** a non-trivial reachable state: semaphore of 2, two holders (one of them a run whose function is
    pending), two waiters of which one was cancelled *)
Example nontrivial_state :
  let s := fst (run 2 50 [Simple SAcq; Simple (SRun FDefer); Simple SAcq; RunThen [SAcq] (FRet 3); Simple (SCancel 2)]) in
  tokens s = 0 /\ holders s = [0; 1] /\ ids (waiting s) = [3] /\ cancelled (log s) = [2].
Proof. vm_compute. repeat split. Qed.

(** KNOWN FINDING (run-cascade-recursion-limit): the grants made from inside release() nest.  The number of
    result deliveries still owed on the work stack is the number of _releaseAndReturn/release frames that are
    active at once; it is not bounded by any constant: n synchronous run() calls queued behind one holder reach
    nesting n when the holder releases (here n = 150, which already exceeds what CPython's default recursion
    limit of 1000 frames allows at >= 8 frames per level; the implementation then fails with RecursionError
    inside the cascade and the capacity is never released).  The model itself has no stack limit, so the
    theorems above hold for it at every depth; the implementation meets them only below the interpreter's limit. *)
Theorem release_nesting_depth_bounded_refuted :
  exists ops fuel, length ops = 152 /\ length (due (snd (run 1 fuel ops))) = 150.
Proof.
  exists (Simple SAcq :: repeat (Simple (SRun (FRet 0))) 150 ++ [Simple (SRel 0)]), 302.
  vm_compute. split; reflexivity.
Qed.
Print Assumptions release_nesting_depth_bounded_refuted.
