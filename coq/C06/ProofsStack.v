(** C06: the work stack agrees with the ghost state; invariants lifted to every history. *)
From Coq Require Import List Arith ZArith Bool Lia Sorted.
From C06 Require Import Model ProofsBase ProofsInv.
Import ListNotations.

Section Inv.
  Variable limit : nat.
  Notation Inv := (Inv limit).
  (** ---- the work stack agrees with the ghost state ---- *)
  Definition sok_id (s : st) (w : list item) (j : nat) : Prop :=
    cnt j (endfs w) = cnt j (running s) /\
    cnt j (due w) + cnt j (resulted (log s)) = cnt j (fndone (log s)) /\
    cnt j (fndone (log s)) <= cnt j (released (log s)).
  Definition StackOK (s : st) (w : list item) : Prop := forall j, sok_id s w j.

  Lemma sok_init ops : StackOK (init limit) (map IOp ops).
  Proof.
    intros j. unfold sok_id. cbn. cnts. replace (endfs (map IOp ops)) with (@nil nat).
    replace (due (map IOp ops)) with (@nil nat). cnts. lia.
    - induction ops; [reflexivity|]. cbn [map]. rewrite due_cons. exact IHops.
    - induction ops; [reflexivity|]. cbn [map]. rewrite endfs_cons. exact IHops.
  Qed.



  (** effect of each composite on what the stack invariant reads *)
  Definition same_runlog (s s1 : st) : Prop :=
    resulted (log s1) = resulted (log s) /\ fndone (log s1) = fndone (log s).

  Lemma grant_eff q c s0 j :
    cnt j (endfs (snd (do_grant q c s0))) + cnt j (running s0) = cnt j (running (fst (do_grant q c s0))) /\
    due (snd (do_grant q c s0)) = [] /\ same_runlog s0 (fst (do_grant q c s0)) /\
    released (log (fst (do_grant q c s0))) = released (log s0).
  Proof.
    unfold do_grant, same_runlog. destruct c as [sc|sc f]; cbn; unfold items_of; cnts; repeat split; lia.
  Qed.

  Lemma acquire_eff c s j :
    cnt j (endfs (snd (do_acquire c s))) + cnt j (running s) = cnt j (running (fst (do_acquire c s))) /\
    due (snd (do_acquire c s)) = [] /\ same_runlog s (fst (do_acquire c s)) /\
    released (log (fst (do_acquire c s))) = released (log s).
  Proof.
    unfold do_acquire. cbn [tokens set_next]. destruct (Nat.eqb (tokens s) 0).
    - unfold same_runlog. cbn. cnts. repeat split; lia.
    - apply (grant_eff (next s) c (set_tokens (tokens s - 1) (set_next (S (next s)) s)) j).
  Qed.

  Definition run_drop (k : hkind) (i j : nat) : nat := match k with HRunning => one i j | _ => 0 end.

  Lemma release_eff k i s j :
    cnt j (endfs (snd (do_release k i s))) + (cnt j (running s) - run_drop k i j)
      = cnt j (running (fst (do_release k i s))) /\
    due (snd (do_release k i s)) = [] /\ same_runlog s (fst (do_release k i s)) /\
    cnt j (released (log (fst (do_release k i s)))) = one i j + cnt j (released (log s)).
  Proof.
    unfold do_release.
    set (s1 := drop_holder k i (emit (ERelease i) s)).
    assert (H1 : cnt j (running s1) = cnt j (running s) - run_drop k i j /\ waiting s1 = waiting s /\
                 log s1 = (ERelease i, tokens s) :: log s).
    { subst s1. destruct k; cbn; cnts; repeat split; lia. }
    destruct H1 as (Hr & Hw & Hl).
    cbn [waiting set_tokens]. rewrite Hw. destruct (waiting s) as [|[q c] w0].
    - unfold same_runlog. cbn [fst snd running set_tokens log]. rewrite Hl. cnts. repeat split; lia.
    - match goal with |- context [do_grant q c ?s0] => pose proof (grant_eff q c s0 j) as (G1 & G2 & (G3 & G4) & G5) end.
      cbn [running log set_waiting set_tokens] in *. rewrite Hl in *. unfold same_runlog.
      rewrite G2, G3, G4, G5. cnts. repeat split; lia.
  Qed.

  Lemma fn_done_eff k i o s j :
    cnt j (endfs (snd (fn_done k i o s))) + (cnt j (running s) - run_drop k i j)
      = cnt j (running (fst (fn_done k i o s))) /\
    cnt j (due (snd (fn_done k i o s))) = one i j /\
    resulted (log (fst (fn_done k i o s))) = resulted (log s) /\
    cnt j (fndone (log (fst (fn_done k i o s)))) = one i j + cnt j (fndone (log s)) /\
    cnt j (released (log (fst (fn_done k i o s)))) = one i j + cnt j (released (log s)).
  Proof.
    unfold fn_done. pose proof (release_eff k i (emit (EFnDone i) s) j) as (R1 & R2 & (R3 & R4) & R5).
    destruct (do_release k i (emit (EFnDone i) s)) as [s1 its]. cbn [fst snd] in *.
    cbn [running log emit] in *. rewrite R3, R4, R5. cnts. rewrite R2. cnts. repeat split; lia.
  Qed.

  Lemma step_sok s it r : StackOK s (it :: r) -> StackOK (fst (step s it)) (snd (step s it) ++ r).
  Proof.
    intros H j. specialize (H j). unfold sok_id in *. revert H. cnts.
    assert (Hnoop : forall e, neutral e -> resulted_of (e, tokens s) = [] -> fndone_of (e, tokens s) = [] ->
      cnt j (endf_of it) + cnt j (endfs r) = cnt j (running s) /\
      cnt j (due_of it) + cnt j (due r) + cnt j (resulted (log s)) = cnt j (fndone (log s)) /\
      cnt j (fndone (log s)) <= cnt j (released (log s)) -> endf_of it = [] -> due_of it = [] ->
      cnt j (endfs r) = cnt j (running (emit e s)) /\
      cnt j (due r) + cnt j (resulted (log (emit e s))) = cnt j (fndone (log (emit e s))) /\
      cnt j (fndone (log (emit e s))) <= cnt j (released (log (emit e s)))).
    { intros e He E1 E2 H E3 E4. rewrite E3, E4 in H. cbn [running log emit]. cnts. rewrite E1, E2.
      destruct e; cbn in He; try contradiction; cnts; rewrite ?cnt_nil in *; lia. }
    destruct it as [[o|sc|sc f]|j0 f|j0 r0]; cbn [step endf_of due_of]; cnts.
    - destruct o as [|f|i| |i|j1 ok v]; cbn [step_sop].
      + pose proof (acquire_eff (CPlain [] []) s j) as (A1 & A2 & (A3 & A4) & A5). rewrite A2, A3, A4, A5. cnts. lia.
      + pose proof (acquire_eff (CRun [] f) s j) as (A1 & A2 & (A3 & A4) & A5). rewrite A2, A3, A4, A5. cnts. lia.
      + destruct (mem i (plain s)).
        * pose proof (release_eff HPlain i s j) as (A1 & A2 & (A3 & A4) & A5). rewrite A2, A3, A4, A5. cnts.
          cbn [run_drop] in A1. lia.
        * cbn [fst snd running log emit]. cnts. lia.
      + cbn [fst snd running log emit]. cnts. lia.
      + destruct (mem i (ids (waiting s))); [cbn [fst snd running log emit set_waiting]; cnts; rewrite ?endfs_errback, ?due_errback; cnts; lia|].
        destruct (mem i (pending s)).
        * pose proof (fn_done_eff HPending i Cancelled s j) as (A1 & A2 & A3 & A4 & A5). rewrite A2, A3, A4, A5.
          cbn [run_drop] in A1. lia.
        * cbn [fst snd running log emit]. cnts. lia.
      + destruct (mem j1 (pending s)).
        * pose proof (fn_done_eff HPending j1 (if ok then OK v else Boom) s j) as (A1 & A2 & A3 & A4 & A5).
          rewrite A2, A3, A4, A5. cbn [run_drop] in A1. lia.
        * cbn [fst snd running log emit]. cnts. lia.
    - pose proof (acquire_eff (CPlain sc esc) s j) as (A1 & A2 & (A3 & A4) & A5). rewrite A2, A3, A4, A5. cnts. lia.
    - pose proof (acquire_eff (CRun sc f) s j) as (A1 & A2 & (A3 & A4) & A5). rewrite A2, A3, A4, A5. cnts. lia.
    - destruct f as [v| | | |].
      + pose proof (fn_done_eff HRunning j0 (OK v) s j) as (A1 & A2 & A3 & A4 & A5). rewrite A2, A3, A4, A5.
        cbn [run_drop] in A1. lia.
      + pose proof (fn_done_eff HRunning j0 Boom s j) as (A1 & A2 & A3 & A4 & A5). rewrite A2, A3, A4, A5.
        cbn [run_drop] in A1. lia.
      + cbn [fst snd running log set_pending set_running]. cnts. lia.
      + cbn [fst snd running log set_pending set_running]. cnts. lia.
      + pose proof (fn_done_eff HRunning j0 BoomBase s j) as (A1 & A2 & A3 & A4 & A5). rewrite A2, A3, A4, A5.
        cbn [run_drop] in A1. lia.
    - cbn [fst snd running log emit]. cnts. by_cases j0 j; lia.
  Qed.

  Lemma step_inv s it r : Inv s -> StackOK s (it :: r) -> Inv (fst (step s it)).
  Proof.
    intros HI HS.
    destruct it as [[o|sc|sc f]|j0 f|j0 r0]; cbn [step].
    - destruct o as [|f|i| |i|j1 ok v]; cbn [step_sop].
      + apply (inv_acquire limit), HI.
      + apply (inv_acquire limit), HI.
      + destruct (mem i (plain s)) eqn:Hm.
        * apply (inv_release limit s HPlain i HI). apply mem_In. exact Hm.
        * apply inv_emit_neutral; [exact I | exact HI].
      + apply inv_emit_neutral; [exact I | exact HI].
      + destruct (mem i (ids (waiting s))) eqn:Hm.
        * apply inv_cancel; [exact HI | apply mem_In; exact Hm].
        * destruct (mem i (pending s)) eqn:Hp.
          -- apply (inv_fn_done limit s HPending); [exact HI | apply mem_In; exact Hp].
          -- apply inv_emit_neutral; [exact I | exact HI].
      + destruct (mem j1 (pending s)) eqn:Hp.
        * apply (inv_fn_done limit s HPending); [exact HI | apply mem_In; exact Hp].
        * apply inv_emit_neutral; [exact I | exact HI].
    - apply (inv_acquire limit), HI.
    - apply (inv_acquire limit), HI.
    - assert (Hin : In j0 (running s)).
      { apply cnt_In. destruct (HS j0) as (H1 & _). rewrite endfs_cons in H1. cbn [endf_of] in H1.
        rewrite cnt_app, cnt_cons, one_refl in H1. lia. }
      destruct f as [v| | | |].
      + apply (inv_fn_done limit s HRunning); assumption.
      + apply (inv_fn_done limit s HRunning); assumption.
      + apply inv_defer; assumption.
      + apply inv_defer; assumption.
      + apply (inv_fn_done limit s HRunning); assumption.
    - apply inv_emit_neutral; [exact I | exact HI].
  Qed.

  Definition Good (s : st) (w : list item) : Prop := Inv s /\ StackOK s w.

  Lemma step_good s it r : Good s (it :: r) -> Good (fst (step s it)) (snd (step s it) ++ r).
  Proof. intros [HI HS]. split; [eapply step_inv; eassumption | apply step_sok; exact HS]. Qed.

  Lemma exec_good fuel : forall s w, Good s w -> Good (fst (exec fuel s w)) (snd (exec fuel s w)).
  Proof.
    induction fuel as [|k IH]; intros s w HG.
    - destruct w; exact HG.
    - destruct w as [|it r]; [exact HG|]. cbn [exec].
      pose proof (step_good s it r HG) as HG'. destruct (step s it) as [s1 new]. cbn [fst snd] in HG'.
      apply IH. exact HG'.
  Qed.

  Lemma run_good fuel ops : Good (fst (run limit fuel ops)) (snd (run limit fuel ops)).
  Proof. unfold run. apply exec_good. split; [apply inv_init | apply sok_init]. Qed.
End Inv.

(** ---- what the invariant says, in the words of the property ---- *)
Section Facts.
  Variables (limit fuel : nat) (ops : list op).
  Let s := fst (run limit fuel ops).
  Let w := snd (run limit fuel ops).

  Lemma fact_good : Good limit s w. Proof. apply run_good. Qed.

  Lemma fact_capacity : tokens s + length (holders s) = limit.
  Proof. destruct fact_good as [(H & _) _]. exact H. Qed.

  Lemma fact_holders_le : length (holders s) <= limit.
  Proof. pose proof fact_capacity. lia. Qed.

  Lemma cnt_holders j : cnt j (holders s) = cnt j (plain s) + cnt j (running s) + cnt j (pending s).
  Proof. unfold holders. rewrite !cnt_app. lia. Qed.

  Lemma NoDup_cnt l : (forall j, cnt j l <= 1) -> NoDup l.
  Proof.
    intros H. apply (NoDup_count_occ Nat.eq_dec). intros x. specialize (H x).
    Transparent cnt. unfold cnt in H. Opaque cnt. exact H.
  Qed.

  Lemma fact_holders_are_granted_unreleased :
    NoDup (holders s) /\
    forall j, In j (holders s) <-> (In j (granted (log s)) /\ ~ In j (released (log s))).
  Proof.
    destruct fact_good as [(_ & _ & _ & Hid) _]. split.
    - apply NoDup_cnt. intros j. rewrite cnt_holders. specialize (Hid j). unfold ok_id in Hid. cbn zeta in Hid. lia.
    - intros j. rewrite !cnt_In, cnt_holders. specialize (Hid j). unfold ok_id in Hid. cbn zeta in Hid. lia.
  Qed.

  Lemma fact_no_idle_capacity : 1 <= tokens s -> waiting s = [].
  Proof. destruct fact_good as [(_ & [H|H] & _) _]; [lia | intros _; exact H]. Qed.

  Lemma fact_waiting_fifo :
    StronglySorted lt (ids (waiting s)) /\
    forall j, In j (ids (waiting s)) <->
              (In j (waited (log s)) /\ ~ In j (granted (log s)) /\ ~ In j (cancelled (log s))).
  Proof.
    destruct fact_good as [(_ & _ & Hs & Hid) _]. split; [exact Hs|].
    intros j. rewrite !cnt_In. specialize (Hid j). unfold ok_id in Hid. cbn zeta in Hid. lia.
  Qed.

  Lemma fact_cancelled :
    forall j, In j (cancelled (log s)) ->
              ~ In j (granted (log s)) /\ ~ In j (holders s) /\ ~ In j (ids (waiting s)) /\ In j (waited (log s)).
  Proof.
    destruct fact_good as [(_ & _ & _ & Hid) _].
    intros j. rewrite !cnt_In, cnt_holders. specialize (Hid j). unfold ok_id in Hid. cbn zeta in Hid. lia.
  Qed.

  Lemma fact_once :
    NoDup (granted (log s)) /\ NoDup (released (log s)) /\ NoDup (cancelled (log s)) /\ NoDup (resulted (log s)) /\
    (forall j, In j (released (log s)) -> In j (granted (log s))) /\
    (forall j, In j (resulted (log s)) -> In j (fndone (log s))) /\
    (forall j, In j (fndone (log s)) -> In j (released (log s))) /\
    (forall j, In j (ids (waiting s)) \/ In j (granted (log s)) \/ In j (cancelled (log s)) -> j < next s).
  Proof.
    destruct fact_good as [(_ & _ & _ & Hid) HS].
    repeat split; try apply NoDup_cnt; intros j; rewrite ?cnt_In; specialize (Hid j); specialize (HS j);
      unfold ok_id, sok_id in *; cbn zeta in *; lia.
  Qed.

  (** when the work stack is empty (always, with enough fuel: [exec_completes]) every run whose function result
      became available has delivered its result, exactly once *)
  Lemma fact_results_complete : w = [] -> forall j, cnt j (resulted (log s)) = cnt j (fndone (log s)).
  Proof.
    intros Hw j. destruct fact_good as [_ HS]. specialize (HS j). unfold sok_id in HS. unfold w in Hw, HS. rewrite Hw in HS.
    rewrite ?due_nil, ?endfs_nil, ?cnt_nil in HS. lia.
  Qed.
End Facts.

