(** C06: the state invariant and its preservation by each API call. *)
From Coq Require Import List Arith ZArith Bool Lia Sorted.
From C06 Require Import Model ProofsBase.
Import ListNotations.

Section Inv.
  Variable limit : nat.

  Definition ok_id (s : st) (j : nat) : Prop :=
    let w := cnt j (ids (waiting s)) in
    let h := cnt j (plain s) + cnt j (running s) + cnt j (pending s) in
    let r := cnt j (released (log s)) in
    let c := cnt j (cancelled (log s)) in
    let g := cnt j (granted (log s)) in
    let a := cnt j (waited (log s)) in
    w + h + r + c <= 1 /\ (1 <= w + h + r + c -> j < next s) /\ g = h + r /\ (1 <= a -> 1 <= w + g + c) /\ w + c <= a.

  Definition Inv (s : st) : Prop :=
    tokens s + length (holders s) = limit /\ (tokens s = 0 \/ waiting s = []) /\
    StronglySorted lt (ids (waiting s)) /\ forall j, ok_id s j.

  Ltac idgoal Hid :=
    match goal with |- context [cnt ?j _] => specialize (Hid j) end;
    unfold ok_id in *; cbn zeta in *; cbn in *;
    try match goal with Hw : waiting _ = _ |- _ => rewrite Hw in Hid end;
    rewrite ?ids_cons, ?ids_nil, ?cnt_cons, ?cnt_nil in Hid; cnts.


  Lemma inv_init : Inv (init limit).
  Proof.
    unfold Inv, init, holders. cbn. repeat split; try lia; auto; try constructor; cbn; rewrite ?cnt_nil; lia.
  Qed.

  Definition neutral (e : ev) : Prop :=
    match e with ENoop | EFnDone _ | EResult _ _ => True | _ => False end.

  Lemma inv_emit_neutral s e : neutral e -> Inv s -> Inv (emit e s).
  Proof.
    intros Hn (Hcap & Hbusy & Hsort & Hid). unfold Inv, holders in *. cbn.
    repeat split; auto; destruct e; cbn in Hn; try contradiction; cbn; apply Hid.
  Qed.

  Lemma fresh_zero s : Inv s ->
    cnt (next s) (ids (waiting s)) = 0 /\ cnt (next s) (plain s) = 0 /\ cnt (next s) (running s) = 0 /\
    cnt (next s) (pending s) = 0 /\ cnt (next s) (released (log s)) = 0 /\ cnt (next s) (cancelled (log s)) = 0 /\
    cnt (next s) (granted (log s)) = 0 /\ cnt (next s) (waited (log s)) = 0.
  Proof. intros (_ & _ & _ & Hid). specialize (Hid (next s)). unfold ok_id in Hid. cbn zeta in Hid. lia. Qed.

  Lemma inv_grant_waiting_head s i c w :
    Inv s -> waiting s = (i, c) :: w -> 1 <= tokens s ->
    False.
  Proof. intros (_ & [H|H] & _) Hw Ht; [lia | congruence]. Qed.

  (** acquire *)
  Lemma inv_acquire s c : Inv s -> Inv (fst (do_acquire c s)).
  Proof.
    intros HI. pose proof (fresh_zero s HI) as Hf. destruct HI as (Hcap & Hbusy & Hsort & Hid).
    unfold do_acquire. cbn [tokens set_next].
    destruct (Nat.eqb_spec (tokens s) 0) as [Ht|Ht]; cbn [fst].
    - (* wait *)
      unfold Inv, holders in *. cbn. repeat split; auto.
      + rewrite ids_app. cbn. apply sorted_snoc; [exact Hsort|].
        intros x Hx. apply cnt_In in Hx. pose proof (Hid x) as Hx'. unfold ok_id in Hx'. cbn zeta in Hx'. cbn [fst]. lia.
      + idgoal Hid. by_cases (next s) j; lia.
      + idgoal Hid. by_cases (next s) j; lia.
      + idgoal Hid. by_cases (next s) j; lia.
      + idgoal Hid. by_cases (next s) j; lia.
      + idgoal Hid. by_cases (next s) j; lia.
    - (* immediate grant *)
      assert (Hw : waiting s = []) by (destruct Hbusy; [lia | assumption]).
      unfold do_grant. cbn [fst].
      destruct c as [sc|sc f]; unfold Inv, holders, add_holder in *; cbn; rewrite Hw in *; cbn; repeat split;
        cbn; rewrite ?Hw;
        try solve [rewrite ?app_length in *; cbn [length] in *; rewrite ?app_length in *; lia]; try solve [auto];
        try solve [rewrite ?ids_nil; constructor];
        (idgoal Hid; by_cases (next s) j; lia).
  Qed.

  Definition hlist (k : hkind) (s : st) : list nat :=
    match k with HPlain => plain s | HRunning => running s | HPending => pending s end.

  (** release by a holder *)
  Lemma inv_release s k i : Inv s -> In i (hlist k s) -> Inv (fst (do_release k i s)).
  Proof.
    intros (Hcap & Hbusy & Hsort & Hid) Hin. pose proof Hin as Hc. apply cnt_In in Hc.
    pose proof (length_remove_first _ _ Hin) as Hlen.
    unfold do_release.
    destruct (waiting s) as [|[q c] w] eqn:Hw.
    - (* nobody waits: tokens + 1 *)
      destruct k; cbn [drop_holder hlist] in *; cbn; rewrite Hw; cbn [fst]; unfold Inv, holders in *; cbn;
        rewrite ?Hw in *; repeat split; cbn; rewrite ?Hw;
        try solve [rewrite ?app_length in *; cbn [length] in *; rewrite ?app_length in *; lia]; try solve [auto];
        try solve [rewrite ?ids_nil; constructor];
        (idgoal Hid; by_cases i j; lia).
    - (* hand over to the oldest waiter *)
      pose proof (Hid q) as Hq.
      assert (Ht : tokens s = 0) by (destruct Hbusy; [assumption | congruence]).
      rewrite ids_cons in Hsort. inversion Hsort as [|? ? Hs' Hall]; subst.
      destruct k; cbn [drop_holder hlist] in *; cbn; rewrite Hw; unfold do_grant; cbn [fst];
        destruct c as [sc|sc f]; unfold Inv, holders, add_holder in *; cbn; rewrite ?Hw in *; repeat split;
        cbn; rewrite ?Hw;
        try solve [rewrite ?app_length in *; cbn [length] in *; rewrite ?app_length in *; lia]; try solve [left; lia];
        try solve [exact Hs'];
        (idgoal Hid; by_cases i j; by_cases q j; lia).
  Qed.

  (** cancelling a pending acquisition *)
  Lemma inv_cancel s i : Inv s -> In i (ids (waiting s)) ->
    Inv (emit (ECancel i) (set_waiting (remove_id i (waiting s)) s)).
  Proof.
    intros (Hcap & Hbusy & Hsort & Hid) Hin. apply cnt_In in Hin.
    unfold Inv, holders in *. cbn. repeat split; auto.
    - destruct Hbusy as [H|H]; [left; exact H | right; rewrite H; reflexivity].
    - rewrite ids_remove_id. apply sorted_remove_first. exact Hsort.
    - idgoal Hid. by_cases i j; lia.
    - idgoal Hid. by_cases i j; lia.
    - idgoal Hid. by_cases i j; lia.
    - idgoal Hid. by_cases i j; lia.
    - idgoal Hid. by_cases i j; lia.
  Qed.

  (** the function of run j returned an unfired Deferred *)
  Lemma inv_defer s j0 : Inv s -> In j0 (running s) ->
    Inv (set_pending (j0 :: pending s) (set_running (remove_first j0 (running s)) s)).
  Proof.
    intros (Hcap & Hbusy & Hsort & Hid) Hin. pose proof (length_remove_first _ _ Hin) as Hlen. apply cnt_In in Hin.
    unfold Inv, holders in *. cbn. repeat split; auto.
    - rewrite ?app_length in *. cbn. lia.
    - idgoal Hid. by_cases j0 j; lia.
    - idgoal Hid. by_cases j0 j; lia.
    - idgoal Hid. by_cases j0 j; lia.
    - idgoal Hid. by_cases j0 j; lia.
    - idgoal Hid. by_cases j0 j; lia.
  Qed.

  Lemma inv_fn_done s k j r : Inv s -> In j (hlist k s) -> Inv (fst (fn_done k j r s)).
  Proof.
    intros HI Hin. unfold fn_done.
    assert (HI' : Inv (emit (EFnDone j) s)) by (apply inv_emit_neutral; [exact I | exact HI]).
    assert (Hin' : In j (hlist k (emit (EFnDone j) s))) by (destruct k; exact Hin).
    pose proof (inv_release _ k j HI' Hin') as H.
    destruct (do_release k j (emit (EFnDone j) s)) as [s1 its]. exact H.
  Qed.

End Inv.
