(** C06: invariants of the lock / semaphore model over every history (all limits, all fuel). *)
From Coq Require Import List Arith ZArith Bool Lia Sorted.
From C06 Require Import Model.
Import ListNotations.

(** ---- counting occurrences: the bookkeeping is stated per id, so that [lia] does the set algebra ---- *)
Definition cnt (j : nat) (l : list nat) : nat := count_occ Nat.eq_dec l j.
Definition one (i j : nat) : nat := if Nat.eq_dec i j then 1 else 0.

Lemma cnt_nil j : cnt j [] = 0. Proof. reflexivity. Qed.
Lemma cnt_cons j x l : cnt j (x :: l) = one x j + cnt j l.
Proof. unfold cnt, one. cbn. destruct (Nat.eq_dec x j); reflexivity. Qed.
Lemma cnt_app j l1 l2 : cnt j (l1 ++ l2) = cnt j l1 + cnt j l2.
Proof. unfold cnt. apply count_occ_app. Qed.
Lemma cnt_In j l : In j l <-> 1 <= cnt j l.
Proof. unfold cnt. rewrite (count_occ_In Nat.eq_dec). lia. Qed.
Lemma cnt_remove_first j i l : cnt j (remove_first i l) = cnt j l - one i j.
Proof.
  induction l as [|x r IH]; [reflexivity|]. cbn [remove_first].
  destruct (Nat.eqb_spec i x) as [->|Hne].
  - rewrite cnt_cons. lia.
  - rewrite !cnt_cons, IH. unfold one. destruct (Nat.eq_dec x j), (Nat.eq_dec i j); lia.
Qed.
Lemma one_refl i : one i i = 1.
Proof. unfold one. destruct (Nat.eq_dec i i); congruence. Qed.
Lemma one_neq i j : i <> j -> one i j = 0.
Proof. unfold one. destruct (Nat.eq_dec i j); congruence. Qed.
Lemma mem_In i l : mem i l = true <-> In i l.
Proof.
  unfold mem. rewrite existsb_exists. split.
  - intros [j [Hj E]]. apply Nat.eqb_eq in E. subst. exact Hj.
  - intros H. exists i. split; [exact H | apply Nat.eqb_refl].
Qed.
Lemma length_remove_first i l : In i l -> S (length (remove_first i l)) = length l.
Proof.
  induction l as [|x r IH]; [intros []|]. cbn [remove_first]. intros [->|H].
  - rewrite Nat.eqb_refl. reflexivity.
  - destruct (Nat.eqb i x); [reflexivity|]. cbn. rewrite IH; auto.
Qed.
Lemma ids_remove_id {A} i (l : list (nat * A)) : ids (remove_id i l) = remove_first i (ids l).
Proof.
  induction l as [|[j a] r IH]; [reflexivity|]. cbn. destruct (Nat.eqb i j); [reflexivity|]. cbn. f_equal. exact IH.
Qed.
Lemma ids_app {A} (l1 l2 : list (nat * A)) : ids (l1 ++ l2) = ids l1 ++ ids l2.
Proof. apply map_app. Qed.

Lemma sorted_snoc l n : StronglySorted lt l -> (forall x, In x l -> x < n) -> StronglySorted lt (l ++ [n]).
Proof.
  induction 1 as [|x r Hs IH Hx]; intros Hn; cbn.
  - repeat constructor.
  - constructor.
    + apply IH. intros y Hy. apply Hn. right. exact Hy.
    + apply Forall_app. split; [exact Hx|]. constructor; [|constructor]. apply Hn. left. reflexivity.
Qed.
Lemma remove_first_incl i l x : In x (remove_first i l) -> In x l.
Proof.
  induction l as [|y r IH]; cbn; [tauto|]. destruct (Nat.eqb i y); cbn; intuition.
Qed.
Lemma sorted_remove_first i l : StronglySorted lt l -> StronglySorted lt (remove_first i l).
Proof.
  induction 1 as [|x r Hs IH Hx]; cbn; [constructor|]. destruct (Nat.eqb i x); [exact Hs|].
  constructor; [exact IH|]. rewrite Forall_forall in *. intros y Hy. apply Hx. eapply remove_first_incl. exact Hy.
Qed.

Global Opaque cnt.
Arguments ids : simpl never.
Arguments waited : simpl never.
Arguments granted : simpl never.
Arguments released : simpl never.
Arguments cancelled : simpl never.
Arguments fndone : simpl never.
Arguments resulted : simpl never.
Arguments endfs : simpl never.
Arguments due : simpl never.

Lemma waited_cons x l : waited (x :: l) = waited_of x ++ waited l. Proof. reflexivity. Qed.
Lemma granted_cons x l : granted (x :: l) = granted_of x ++ granted l. Proof. reflexivity. Qed.
Lemma released_cons x l : released (x :: l) = released_of x ++ released l. Proof. reflexivity. Qed.
Lemma cancelled_cons x l : cancelled (x :: l) = cancelled_of x ++ cancelled l. Proof. reflexivity. Qed.
Lemma fndone_cons x l : fndone (x :: l) = fndone_of x ++ fndone l. Proof. reflexivity. Qed.
Lemma resulted_cons x l : resulted (x :: l) = resulted_of x ++ resulted l. Proof. reflexivity. Qed.
Lemma endfs_cons x l : endfs (x :: l) = endf_of x ++ endfs l. Proof. reflexivity. Qed.
Lemma due_cons x l : due (x :: l) = due_of x ++ due l. Proof. reflexivity. Qed.
Lemma endfs_nil : endfs [] = []. Proof. reflexivity. Qed.
Lemma due_nil : due [] = []. Proof. reflexivity. Qed.
Lemma endfs_app a b : endfs (a ++ b) = endfs a ++ endfs b. Proof. apply flat_map_app. Qed.
Lemma due_app a b : due (a ++ b) = due a ++ due b. Proof. apply flat_map_app. Qed.
Lemma endfs_script i sc : endfs (script_items i sc) = [].
Proof. induction sc as [|o r IH]; [reflexivity|]. cbn [script_items map]. rewrite endfs_cons. exact IH. Qed.
Lemma due_script i sc : due (script_items i sc) = [].
Proof. induction sc as [|o r IH]; [reflexivity|]. cbn [script_items map]. rewrite due_cons. exact IH. Qed.
Lemma endfs_errback i l : endfs (errback_items i l) = [].
Proof. unfold errback_items. destruct (find_cont i l) as [[sc esc|sc f]|]; [apply endfs_script | reflexivity | reflexivity]. Qed.
Lemma due_errback i l : due (errback_items i l) = [].
Proof. unfold errback_items. destruct (find_cont i l) as [[sc esc|sc f]|]; [apply due_script | reflexivity | reflexivity]. Qed.
Lemma ids_cons {A} (i : nat) (a : A) l : ids ((i, a) :: l) = i :: ids l. Proof. reflexivity. Qed.
Lemma ids_nil {A} : ids (@nil (nat * A)) = []. Proof. reflexivity. Qed.

(** ---- the state invariant ---- *)

  Ltac cnts := repeat first [rewrite waited_cons | rewrite granted_cons | rewrite released_cons
                            | rewrite cancelled_cons | rewrite fndone_cons | rewrite resulted_cons | rewrite endfs_cons | rewrite due_cons
                            | rewrite endfs_app | rewrite due_app | rewrite endfs_script | rewrite due_script
                            | rewrite endfs_nil | rewrite due_nil | rewrite ids_cons | rewrite ids_nil
                            | rewrite ids_app | rewrite ids_remove_id
                            | progress cbn [waited_of granted_of released_of cancelled_of fndone_of resulted_of endf_of due_of fst snd app]
                            | rewrite cnt_app | rewrite cnt_cons | rewrite cnt_nil | rewrite cnt_remove_first ].

  Ltac by_cases i j := destruct (Nat.eq_dec i j) as [?E|?E];
                       [subst; rewrite ?one_refl in * | rewrite ?(one_neq _ _ E) in *;
                        try (rewrite ?(one_neq _ _ (not_eq_sym E)) in * ) ].

