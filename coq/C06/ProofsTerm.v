(** C06: termination of the work stack. *)
From Coq Require Import List Arith ZArith Bool Lia Sorted.
From C06 Require Import Model ProofsBase.
Import ListNotations.

(** ---- termination: the work owed strictly decreases, so [measure] is enough fuel ---- *)
Lemma lsum_cons a l : list_sum (a :: l) = a + list_sum l. Proof. reflexivity. Qed.
Lemma lsum_nil : list_sum [] = 0. Proof. reflexivity. Qed.
Lemma lsum_remove_id {A} (f : nat * A -> nat) i l : list_sum (map f (remove_id i l)) <= list_sum (map f l).
Proof.
  induction l as [|[j a] r IH]; [cbn; lia|]. cbn [remove_id]. destruct (Nat.eqb i j); cbn [map]; rewrite ?lsum_cons; lia.
Qed.
Lemma w_script_items i sc : list_sum (map w_item (script_items i sc)) = w_script sc.
Proof.
  unfold script_items, w_script. induction sc as [|o r IH]; [reflexivity|]. cbn [map]. rewrite !lsum_cons, IH.
  destruct o; reflexivity.
Qed.
Lemma w_items_of i c : list_sum (map w_item (items_of i c)) <= w_cont c.
Proof.
  destruct c as [sc esc|sc f]; cbn [items_of w_cont].
  - rewrite w_script_items. lia.
  - rewrite map_app, list_sum_app, w_script_items. cbn. lia.
Qed.

(** cancelling a pending acquisition: its stored continuation goes away, its errback script is what remains to do *)
Lemma errback_le i l :
  list_sum (map w_item (errback_items i l)) + list_sum (map (fun p : nat * cont => w_cont (snd p)) (remove_id i l))
  <= list_sum (map (fun p : nat * cont => w_cont (snd p)) l).
Proof.
  unfold errback_items. induction l as [|[j c] r IH]; [cbn; lia|]. cbn [find_cont remove_id].
  destruct (Nat.eqb i j).
  - cbn [map snd]. rewrite lsum_cons. destruct c as [sc esc|sc f]; cbn [w_cont].
    + rewrite w_script_items. lia.
    + cbn. lia.
  - cbn [map snd]. rewrite !lsum_cons. lia.
Qed.

Lemma step_measure s it r : measure (fst (step s it)) (snd (step s it) ++ r) < measure s (it :: r).
Proof.
  unfold measure.
  destruct it as [[o|sc esc|sc f]|j0 [v| | | |]|j0 r0]; cbn [step].
  1: destruct o as [|f|i| |i|j1 ok v]; cbn [step_sop].
  all: unfold do_acquire, fn_done, do_release, do_grant, add_holder, drop_holder;
    repeat match goal with
           | |- context [if mem ?i ?l then _ else _] =>
               let E := fresh "Em" in destruct (mem i l) eqn:E; [apply mem_In in E|]
           | |- context [if ?b then _ else _] => destruct b
           | |- context [match waiting ?x with _ => _ end] =>
               let E := fresh "Ew" in destruct (waiting x) as [|[? ?] ?] eqn:E; cbn in E
           end;
    cbn [fst snd waiting pending emit set_tokens set_waiting set_plain set_running set_pending set_next];
    rewrite ?Ew; rewrite ?map_app, ?list_sum_app;
    repeat match goal with
           | |- context [list_sum (map w_item (items_of ?i ?c))] =>
               let x := fresh "x" in pose proof (w_items_of i c);
               set (x := list_sum (map w_item (items_of i c))) in *; clearbody x
           | |- context [list_sum (map w_item (errback_items ?i ?l))] =>
               let y := fresh "y" in pose proof (errback_le i l);
               set (y := list_sum (map w_item (errback_items i l))) in *; clearbody y
           end;
    cbn [map list_sum w_item w_sop w_cont w_script snd length] in *;
    try (match goal with E : In ?i (pending ?s0) |- _ => pose proof (length_remove_first _ _ E) end);
    rewrite ?lsum_cons, ?lsum_nil in *; change (w_script []) with 0 in *;
    try lia.
Qed.


Lemma exec_completes fuel : forall s w, measure s w <= fuel -> snd (exec fuel s w) = [].
Proof.
  induction fuel as [|k IH]; intros s w Hm.
  - destruct w as [|it r]; [reflexivity|]. exfalso. pose proof (step_measure s it r). lia.
  - destruct w as [|it r]; [reflexivity|]. cbn [exec].
    pose proof (step_measure s it r) as Hlt. destruct (step s it) as [s1 new]. cbn [fst snd] in Hlt.
    apply IH. lia.
Qed.

Lemma measure_init limit ops : measure (init limit) (map IOp ops) = list_sum (map w_item (map IOp ops)).
Proof. unfold measure, init. cbn. lia. Qed.
