(** C06: all lemmas. *)
From C06 Require Export ProofsBase ProofsInv ProofsStack ProofsLog ProofsTerm.
