(** C06: printers used by the correspondence check only. *)
From Coq Require Import List Arith ZArith Bool String.
From TwLib Require Import Show.
From C06 Require Import Model.
Import ListNotations.
Local Open Scope string_scope.

Definition show_outcome (r : outcome) : string :=
  match r with OK v => show_Z v | Boom => "B" | Cancelled => "X" | BoomBase => "BB" end.

Definition show_ev (e : ev * nat) : string :=
  (match fst e with
   | EWait i => "W" ++ show_nat i
   | EGrant i => "G" ++ show_nat i
   | ERelease i => "L" ++ show_nat i
   | ECancel i => "C" ++ show_nat i
   | ENoop => "N"
   | EFnDone j => "F" ++ show_nat j
   | EResult j r => "R" ++ show_nat j ++ ":" ++ show_outcome r
   end) ++ "@" ++ show_nat (snd e).

(** input: limit, fuel, history *)
Definition run_show (c : nat * nat * list op) : string :=
  let '(limit, fuel, ops) := c in
  let '(s, w) := run limit fuel ops in
  match w with
  | [] => String.concat " " (map show_ev (rev (log s))) ++ " |t=" ++ show_nat (tokens s)
          ++ " w=" ++ show_list show_nat (ids (waiting s))
  | _ => "FUEL"
  end.
