(** C32, part 2: fields, resource records, sections, whole messages. *)
From Coq Require Import List NArith ZArith Bool Lia ZifyBool.
From TwLib Require Import PyInt WireIter WireDns WireDnsTotal.
From C32 Require Import Model ProofsName.
Import ListNotations.
Open Scope N_scope.

(** ------------------------------------------------------------------ small helpers --- *)

Lemma enc_u_ok k n b : enc_u k n = Ok b -> b = to_be k n /\ n < 256 ^ N.of_nat k.
Proof. unfold enc_u. destruct (n <? 256 ^ N.of_nat k) eqn:E; [|discriminate]. intros H; inversion H. split; [reflexivity|lia]. Qed.

Lemma to_be_pad2 n : n < 256 ^ 6 -> to_be 8 n = 0 :: 0 :: to_be 6 n.
Proof.
  intros L. set (l := 0 :: 0 :: to_be 6 n).
  assert (forallb is_byte l = true) as B by (unfold l; cbn [forallb]; rewrite to_be_bytes; reflexivity).
  assert (from_be l = n) as F.
  { unfold l. rewrite !from_be_zero_cons. apply from_be_to_be_small. exact L. }
  pose proof (to_be_from_be l B) as T. rewrite F in T. unfold l in T at 1. cbn [length] in T.
  rewrite length_to_be in T. exact T.
Qed.

Lemma s32_roundtrip z : (-2147483648 <= z < 2147483648)%Z -> s32_of (Z.to_N (z mod 4294967296)) = z.
Proof.
  intros R. unfold s32_of. destruct (Z_lt_le_dec z 0) as [Ng|Ps].
  - assert (z mod 4294967296 = z + 4294967296)%Z as E.
    { symmetry. apply Z.mod_unique with (q := (-1)%Z); lia. }
    rewrite E. destruct (Z.to_N (z + 4294967296) <? 2147483648) eqn:C; lia.
  - rewrite Z.mod_small by lia. destruct (Z.to_N z <? 2147483648) eqn:C; lia.
Qed.

Lemma enc_charstrs_len l : forall b, enc_charstrs l = Ok b -> N.of_nat (length l) <= blen b.
Proof.
  induction l as [|x r IH]; intros b E; cbn [enc_charstrs] in E.
  - inversion E. cbn. lia.
  - destruct (255 <? blen x); [discriminate|]. destruct (enc_charstrs r) as [br|]; [|discriminate].
    assert (b = (blen x :: x) ++ br) by congruence. subst b.
    specialize (IH br eq_refl). rewrite blen_app, blen_cons. cbn [length]. lia.
Qed.

Lemma a6_range plen : plen <= 128 -> exists k, a6_bytes plen = Z.of_N k /\ k <= 16.
Proof.
  intros H. unfold a6_bytes. rewrite Z.quot_div_nonneg by lia.
  exists (Z.to_N ((128 - Z.of_N plen) / 8)).
  assert (0 <= (128 - Z.of_N plen) / 8 <= 16)%Z by (split; [apply Z.div_pos; lia|apply Z.div_le_upper_bound; lia]).
  split; lia.
Qed.

Section WithM.
Variable M : list N.
Hypothesis BO : bytes_ok M.

Lemma dec_charstrs_ok : forall l b pos soFar acc fuel rdlen,
  enc_charstrs l = Ok b -> at_ M pos b -> rdlen = soFar + blen b -> (length l < fuel)%nat ->
  dec_charstrs fuel M pos soFar rdlen acc = Done (acc ++ l, pos + blen b).
Proof.
  induction l as [|x r IH]; intros b pos soFar acc fuel rdlen E A R F.
  - cbn [enc_charstrs] in E. inversion E; subst b. change (blen []) with 0 in *. destruct fuel; [cbn in F; lia|].
    cbn [dec_charstrs]. replace (soFar <? rdlen) with false by lia. now rewrite app_nil_r, N.add_0_r.
  - cbn [enc_charstrs] in E. destruct (255 <? blen x) eqn:LX; [discriminate|].
    destruct (enc_charstrs r) as [br|] eqn:ER; [|discriminate].
    assert (b = (blen x :: x) ++ br) by congruence. subst b. clear E.
    destruct fuel as [|f]; [cbn in F; lia|]. cbn [dec_charstrs].
    assert (blen ((blen x :: x) ++ br) = 1 + blen x + blen br) as BL by (rewrite blen_app, blen_cons; lia).
    replace (soFar <? rdlen) with true by lia.
    assert (at_ M pos (blen x :: x)) as A1 by (now apply at_app_l in A).
    rewrite (read1_at M pos (blen x) x A1). cbn [obind].
    rewrite (readp_at M (pos + 1) x (at_cons_r _ _ _ _ A1)). cbn [obind].
    rewrite (IH br (pos + 1 + blen x) (soFar + blen x + 1) (acc ++ [x]) f rdlen eq_refl).
    + rewrite BL, <- app_assoc. cbn [app]. f_equal. f_equal. lia.
    + apply at_app_r in A. rewrite blen_cons in A. replace (pos + 1 + blen x) with (pos + (1 + blen x)) by lia. exact A.
    + rewrite BL in R. lia.
    + cbn [length] in F. lia.
Qed.

Definition rest_cond (t : fty) (b : list N) (rdlen : N) : Prop :=
  match t with FRest h => rdlen = h + blen b | FCharstrs => rdlen = blen b | _ => True end.

Ltac ok_inv E := let H1 := fresh in let H2 := fresh in
  match type of E with Ok (?x, ?y) = Ok (?b, ?d) =>
    assert (H1 : b = x) by congruence; assert (H2 : d = y) by congruence; subst b d; clear E
  end.

Lemma field_ok t v pos d b d' rdlen :
  wf_field t v -> enc_field t v pos d = Ok (b, d') -> at_ M pos b -> dict_inv M pos d -> rest_cond t b rdlen ->
  dec_field M t pos rdlen = Done (v, pos + blen b) /\ dict_inv M (pos + blen b) d'.
Proof.
  intros W E A DI RC.
  assert (forall x, dict_inv M (pos + x) d) as DM by (intros x; eapply dict_inv_mono; eauto; lia).
  destruct t; destruct v; cbn [wf_field] in W; try contradiction; cbn [enc_field] in E.
  - (* FU *) destruct (enc_u k n) as [b0|] eqn:EU; [|discriminate]. ok_inv E.
    apply enc_u_ok in EU as [-> L]. split; [|apply DM]. cbn [dec_field].
    rewrite (read_u_at M pos k n A L). cbn [obind]. now rewrite blen_to_be.
  - (* FU48 *) destruct (n <? 18446744073709551616); [|discriminate]. ok_inv E.
    rewrite to_be_pad2 in * by (change (256 ^ 6) with 281474976710656; exact W).
    change (dropN 2 (0 :: 0 :: to_be 6 n)) with (to_be 6 n) in *.
    split; [|apply DM]. cbn [dec_field].
    rewrite (read_u_at M pos 6 n A) by (change (256 ^ N.of_nat 6) with 281474976710656; exact W).
    cbn [obind]. now rewrite blen_to_be.
  - (* FS32 *) destruct ((-2147483648 <=? z)%Z && (z <? 2147483648)%Z)%bool eqn:R; [|discriminate]. ok_inv E.
    split; [|apply DM]. cbn [dec_field].
    rewrite (read_u_at M pos 4 _ A).
    2:{ change (256 ^ N.of_nat 4) with 4294967296.
        assert (0 <= z mod 4294967296 < 4294967296)%Z by (apply Z.mod_pos_bound; lia). lia. }
    cbn [obind]. rewrite s32_roundtrip by lia. now rewrite blen_to_be.
  - (* FName *) destruct (enc_name_sound compress M ls pos d b d' W E DI A) as [NB DI'].
    split; [|exact DI']. cbn [dec_field]. rewrite (dec_name_nbe M pos ls _ BO NB). reflexivity.
  - (* FBytes *) ok_inv E. split; [|apply DM]. cbn [dec_field].
    rewrite (readp_at' M pos b0 (N.of_nat k) A) by (symmetry; exact W). cbn [obind]. now rewrite W.
  - (* FCharstr *) destruct (255 <? blen b0); [discriminate|]. ok_inv E. split; [|apply DM]. cbn [dec_field].
    rewrite (read1_at M pos (blen b0) b0 A). cbn [obind].
    rewrite (readp_at M (pos + 1) b0 (at_cons_r _ _ _ _ A)). cbn [obind]. rewrite blen_cons. f_equal. f_equal. lia.
  - (* FRest *) ok_inv E. split; [|apply DM]. cbn [dec_field]. cbn [rest_cond] in RC.
    replace (rdlen <? hdr) with false by lia.
    rewrite (readp_at' M pos b0 (rdlen - hdr) A) by lia. cbn [obind]. f_equal. f_equal. lia.
  - (* FCharstrs *) destruct (enc_charstrs l) as [b0|] eqn:EC; [|discriminate]. ok_inv E.
    split; [|apply DM]. cbn [dec_field]. cbn [rest_cond] in RC.
    rewrite (dec_charstrs_ok l b0 pos 0 [] _ rdlen EC A) by (try lia; pose proof (enc_charstrs_len l b0 EC); lia).
    reflexivity.
  - (* FLen16 *) destruct (65535 <? blen b0) eqn:LB; [discriminate|]. ok_inv E. split; [|apply DM]. cbn [dec_field].
    rewrite (read_u_at M pos 2 (blen b0)) by (try (now apply at_app_l in A); change (256 ^ N.of_nat 2) with 65536; lia).
    cbn [obind]. apply at_app_r in A. rewrite blen_to_be in A. change (N.of_nat 2) with 2 in *.
    rewrite (readp_at M (pos + 2) b0 A). cbn [obind]. rewrite blen_app, blen_to_be. change (N.of_nat 2) with 2. f_equal. f_equal. lia.
  - (* FA6 *)
    destruct W as (P128 & S16 & NOK & PZ & CAN).
    destruct (255 <? plen) eqn:P255; [discriminate|].
    destruct (a6_range plen P128) as (k & NB & K16). rewrite NB in *. rewrite N2Z.id in CAN.
    assert (at_ M pos [plen]) as A0.
    { destruct (plen =? 0); [|destruct (enc_name _ _ _ _) as [[? ?]|]; [|discriminate]];
        ok_inv E; change ([plen] ++ ?x) with ([plen] ++ x) in A; now apply at_app_l in A. }
    cbn [dec_field]. rewrite (read1_at M pos plen [] A0). cbn [obind]. rewrite NB.
    destruct (Z.of_N k =? 0)%Z eqn:K0.
    + (* no suffix bytes on the wire: the suffix is all zero *)
      assert (k = 0) by lia. subst k. change (16 - 0) with 16 in CAN.
      rewrite takeN_all in CAN by lia. change (N.to_nat 16) with 16%nat in CAN. subst suffix.
      cbn [obind]. destruct (plen =? 0) eqn:PL0.
      * ok_inv E. rewrite (PZ ltac:(lia)). split; [|apply DM]. reflexivity.
      * destruct (enc_name false prefix (pos + 1 + blen (@nil N)) d) as [[bn dn]|] eqn:EN; [|discriminate]. ok_inv E.
        change (blen (@nil N)) with 0 in EN. rewrite N.add_0_r in EN.
        assert (at_ M (pos + 1) bn) as An by (cbn [app] in A; now apply at_cons_r in A).
        destruct (enc_name_sound false M prefix (pos + 1) d bn dn NOK EN (DM 1) An) as [NBE DI'].
        rewrite (dec_name_nbe M (pos + 1) prefix _ BO NBE). cbn [obind app]. rewrite blen_cons.
        replace (pos + (1 + blen bn)) with (pos + 1 + blen bn) by lia. split; [reflexivity|exact DI'].
    + replace (Z.of_N k <? 0)%Z with false by lia. rewrite N2Z.id in *.
      set (sfx := last_bytes k suffix) in *.
      assert (blen sfx = k) as LS by (unfold sfx, last_bytes; rewrite blen_dropN; lia).
      assert (repeat 0 (Z.to_nat (16 - Z.of_N k)) ++ sfx = suffix) as SUF.
      { replace (Z.to_nat (16 - Z.of_N k)) with (N.to_nat (16 - k)) by lia. rewrite <- CAN.
        unfold sfx, last_bytes. rewrite S16. apply takeN_dropN. }
      destruct (plen =? 0) eqn:PL0.
      * ok_inv E. apply at_app_r in A. change (blen [plen]) with 1 in A.
        rewrite (readp_at' M (pos + 1) sfx k A) by (symmetry; exact LS). cbn [obind]. rewrite SUF.
        rewrite (PZ ltac:(lia)). split; [|apply DM]. rewrite blen_app, LS. change (blen [plen]) with 1.
        f_equal. f_equal. lia.
      * destruct (enc_name false prefix (pos + 1 + blen sfx) d) as [[bn dn]|] eqn:EN; [|discriminate]. ok_inv E.
        apply at_app_r in A. change (blen [plen]) with 1 in A.
        rewrite (readp_at' M (pos + 1) sfx k (at_app_l _ _ _ _ A)) by (symmetry; exact LS). cbn [obind]. rewrite SUF.
        apply at_app_r in A. rewrite LS in *.
        destruct (enc_name_sound false M prefix (pos + 1 + k) d bn dn NOK EN (dict_inv_mono M pos (pos + 1 + k) d DI ltac:(lia)) A) as [NBE DI'].
        rewrite (dec_name_nbe M (pos + 1 + k) prefix _ BO NBE). cbn [obind].
        rewrite !blen_app, LS. change (blen [plen]) with 1.
        replace (pos + (1 + (k + blen bn))) with (pos + 1 + k + blen bn) by lia. split; [reflexivity|exact DI'].
Qed.

End WithM.

(** ------------------------------------------------------------------ field lists and rdlength --- *)

Lemma schema_rest_ok ty : rest_ok (Some 0) (schema_of ty) = true.
Proof.
  unfold schema_of. destruct ty as [|p]; [reflexivity|].
  do 9 (try (destruct p as [p|p|]; try reflexivity)).
Qed.

Lemma fixed_size_len t v pos d b d' k :
  wf_field t v -> enc_field t v pos d = Ok (b, d') -> fixed_size t = Some k -> blen b = k.
Proof.
  intros W E F. destruct t; cbn [fixed_size] in F; try discriminate;
    destruct v; cbn [wf_field] in W; try contradiction; cbn [enc_field] in E;
    assert (K : Some k = Some k) by reflexivity; inversion F; subst k; clear F K.
  - destruct (enc_u k0 n) as [b0|] eqn:EU; [|discriminate]. apply enc_u_ok in EU as [-> _].
    assert (b = to_be k0 n) by congruence. subst. apply blen_to_be.
  - destruct (n <? 18446744073709551616); [|discriminate].
    assert (b = dropN 2 (to_be 8 n)) by congruence. subst. rewrite blen_dropN, blen_to_be. reflexivity.
  - destruct (_ && _)%bool; [|discriminate]. assert (b = to_be 4 (Z.to_N (z mod 4294967296))) by congruence.
    subst. apply blen_to_be.
  - assert (b = b0) by congruence. subst. exact W.
Qed.

Section WithM2.
Variable M : list N.
Hypothesis BO : bytes_ok M.

Lemma fields_ok : forall ts vs pos d b d' c rdlen,
  wf_fields ts vs -> enc_fields ts vs pos d = Ok (b, d') -> rest_ok c ts = true ->
  (forall c0, c = Some c0 -> rdlen = c0 + blen b) -> at_ M pos b -> dict_inv M pos d ->
  dec_fields M ts pos rdlen = Done (vs, pos + blen b) /\ dict_inv M (pos + blen b) d'.
Proof.
  induction ts as [|t r IH]; intros vs pos d b d' c rdlen W E RO RL A DI; destruct vs as [|v vr];
    cbn [wf_fields] in W; try contradiction.
  - cbn in E. inversion E; subst. cbn. rewrite N.add_0_r. split; [reflexivity|exact DI].
  - destruct W as [Wt Wr]. cbn [enc_fields] in E.
    destruct (enc_field t v pos d) as [[bt d1]|] eqn:ET; [|discriminate].
    destruct (enc_fields r vr (pos + blen bt) d1) as [[br d2]|] eqn:ER; [|discriminate].
    assert (b = bt ++ br) by congruence. assert (d' = d2) by congruence. subst b d'. clear E.
    assert (rest_cond t bt rdlen) as RC.
    { destruct t; cbn [rest_cond]; try exact I; cbn [rest_ok] in RO; destruct c as [c0|]; try discriminate;
        apply andb_true_iff in RO as [H1 H2]; destruct r; try discriminate; destruct vr; try (cbn in Wr; contradiction);
        cbn in ER; assert (br = []) by congruence; subst br; specialize (RL c0 eq_refl); rewrite app_nil_r in RL; lia. }
    destruct (field_ok M BO t v pos d bt d1 rdlen Wt ET (at_app_l _ _ _ _ A) DI RC) as [DF DI1].
    cbn [dec_fields]. rewrite DF. cbn [obind].
    set (c' := match c, fixed_size t with Some c0, Some k => Some (c0 + k) | _, _ => None end).
    assert (rest_ok c' r = true) as RO'.
    { unfold c'. destruct t; cbn [rest_ok fixed_size] in RO |- *; try exact RO.
      all: destruct c as [c0|]; [|discriminate]; apply andb_true_iff in RO as [_ H2];
        destruct r; [reflexivity|discriminate]. }
    destruct (IH vr (pos + blen bt) d1 br d2 c' rdlen Wr ER RO') as [DR DI2].
    + intros c0' EC. unfold c' in EC. destruct c as [c0|]; [|discriminate].
      destruct (fixed_size t) as [k|] eqn:FS; [|discriminate]. inversion EC; subst c0'.
      rewrite (RL c0 eq_refl), blen_app, (fixed_size_len t v pos d bt d1 k Wt ET FS). lia.
    + now apply at_app_r in A.
    + exact DI1.
    + rewrite DR. cbn [obind]. rewrite blen_app, N.add_assoc. split; [reflexivity|exact DI2].
Qed.

(** ------------------------------------------------------------------ resource records --- *)

Lemma split4 (a b c e : list N) :
  blen a = 2 -> blen b = 2 -> blen c = 4 ->
  takeN 2 (a ++ b ++ c ++ e) = a /\ takeN 2 (dropN 2 (a ++ b ++ c ++ e)) = b
  /\ takeN 4 (dropN 4 (a ++ b ++ c ++ e)) = c /\ dropN 8 (a ++ b ++ c ++ e) = e.
Proof.
  intros A B C. repeat split.
  - rewrite <- A. apply takeN_app_exact.
  - rewrite <- A at 2. rewrite dropN_app_exact. rewrite <- B. apply takeN_app_exact.
  - replace 4 with (blen (a ++ b)) at 2 by (rewrite blen_app; lia). rewrite app_assoc, dropN_app_exact.
    rewrite <- C. apply takeN_app_exact.
  - replace 8 with (blen (a ++ b ++ c)) by (rewrite !blen_app; lia).
    replace (a ++ b ++ c ++ e) with ((a ++ b ++ c) ++ e) by (now rewrite <- !app_assoc).
    apply dropN_app_exact.
Qed.

Lemma rr_ok r pos d b d' :
  wf_rr r -> enc_rr r pos d = Ok (b, d') -> at_ M pos b -> dict_inv M pos d ->
  dec_rr M pos = Done (r, pos + blen b) /\ dict_inv M (pos + blen b) d'.
Proof.
  intros [WN WF] E A DI. destruct r as [nm ty cls ttl data]. cbn [r_name r_type r_cls r_ttl r_data] in *.
  unfold enc_rr in E. cbn [r_name r_type r_cls r_ttl r_data] in E.
  destruct (enc_name true nm pos d) as [[bn d1]|] eqn:EN; [|discriminate].
  destruct (enc_u 2 ty) as [bt|] eqn:ET; [|discriminate].
  destruct (enc_u 2 cls) as [bc|] eqn:EC; [|discriminate].
  destruct (enc_u 4 ttl) as [bl|] eqn:EL; [|discriminate].
  destruct (enc_fields (schema_of ty) data (pos + blen bn + 10) d1) as [[pl d2]|] eqn:EF; [|discriminate].
  destruct (enc_u 2 (blen pl)) as [rl|] eqn:ERL; [|discriminate].
  assert (b = bn ++ bt ++ bc ++ bl ++ rl ++ pl) by congruence. assert (d' = d2) by congruence. subst b d'. clear E.
  apply enc_u_ok in ET as [-> LT]. apply enc_u_ok in EC as [-> LC]. apply enc_u_ok in EL as [-> LL].
  apply enc_u_ok in ERL as [-> LR].
  destruct (enc_name_sound true M nm pos d bn d1 WN EN DI (at_app_l _ _ _ _ A)) as [NB DI1].
  unfold dec_rr. rewrite (dec_name_nbe M pos nm _ BO NB). cbn [obind].
  apply at_app_r in A.
  set (h10 := to_be 2 ty ++ to_be 2 cls ++ to_be 4 ttl ++ to_be 2 (blen pl)) in *.
  assert (blen h10 = 10) as L10 by (unfold h10; rewrite !blen_app, !blen_to_be; reflexivity).
  assert (at_ M (pos + blen bn) h10) as AH.
  { replace (to_be 2 ty ++ to_be 2 cls ++ to_be 4 ttl ++ to_be 2 (blen pl) ++ pl) with (h10 ++ pl) in A
      by (unfold h10; now rewrite <- !app_assoc). now apply at_app_l in A. }
  rewrite (readp_at' M (pos + blen bn) h10 10 AH) by (symmetry; exact L10). cbn [obind].
  destruct (split4 (to_be 2 ty) (to_be 2 cls) (to_be 4 ttl) (to_be 2 (blen pl))) as (S1 & S2 & S3 & S4);
    try apply blen_to_be.
  fold h10 in S1, S2, S3, S4. rewrite S1, S2, S3, S4.
  rewrite !from_be_to_be_small by assumption.
  assert (at_ M (pos + blen bn + 10) pl) as AP.
  { replace (to_be 2 ty ++ to_be 2 cls ++ to_be 4 ttl ++ to_be 2 (blen pl) ++ pl) with (h10 ++ pl) in A
      by (unfold h10; now rewrite <- !app_assoc). apply at_app_r in A. now rewrite L10 in A. }
  destruct (fields_ok (schema_of ty) data (pos + blen bn + 10) d1 pl d2 (Some 0) (blen pl) WF EF (schema_rest_ok ty)) as [DF DI2].
  - intros c0 EC0. inversion EC0. lia.
  - exact AP.
  - eapply dict_inv_mono; eauto. lia.
  - rewrite DF. cbn [obind]. split.
    + f_equal. f_equal. rewrite !blen_app, !blen_to_be. change (N.of_nat 2) with 2. change (N.of_nat 4) with 4. lia.
    + replace (pos + blen (bn ++ to_be 2 ty ++ to_be 2 cls ++ to_be 4 ttl ++ to_be 2 (blen pl) ++ pl))
        with (pos + blen bn + 10 + blen pl); [exact DI2|].
      rewrite !blen_app, !blen_to_be. change (N.of_nat 2) with 2. change (N.of_nat 4) with 4. lia.
Qed.

Lemma query_ok q pos d b d' :
  wf_query q -> enc_query q pos d = Ok (b, d') -> at_ M pos b -> dict_inv M pos d ->
  dec_query M pos = Done (q, pos + blen b) /\ dict_inv M (pos + blen b) d'.
Proof.
  intros WN E A DI. destruct q as [nm ty cls]. unfold wf_query in WN. cbn [q_name] in WN.
  unfold enc_query in E. cbn [q_name q_type q_cls] in E.
  destruct (enc_name true nm pos d) as [[bn d1]|] eqn:EN; [|discriminate].
  destruct (enc_u 2 ty) as [bt|] eqn:ET; [|discriminate].
  destruct (enc_u 2 cls) as [bc|] eqn:EC; [|discriminate].
  assert (b = bn ++ bt ++ bc) by congruence. assert (d' = d1) by congruence. subst b d'. clear E.
  apply enc_u_ok in ET as [-> LT]. apply enc_u_ok in EC as [-> LC].
  destruct (enc_name_sound true M nm pos d bn d1 WN EN DI (at_app_l _ _ _ _ A)) as [NB DI1].
  unfold dec_query. rewrite (dec_name_nbe M pos nm _ BO NB). cbn [obind].
  apply at_app_r in A.
  rewrite (readp_at' M (pos + blen bn) (to_be 2 ty ++ to_be 2 cls) 4 A) by (rewrite blen_app, !blen_to_be; reflexivity).
  cbn [obind].
  replace (takeN 2 (to_be 2 ty ++ to_be 2 cls)) with (to_be 2 ty)
    by (symmetry; rewrite <- (blen_to_be 2 ty) at 1; apply takeN_app_exact).
  replace (dropN 2 (to_be 2 ty ++ to_be 2 cls)) with (to_be 2 cls)
    by (symmetry; rewrite <- (blen_to_be 2 ty) at 1; apply dropN_app_exact).
  rewrite !from_be_to_be_small by assumption. split.
  - f_equal. f_equal. rewrite !blen_app, !blen_to_be. change (N.of_nat 2) with 2. lia.
  - eapply dict_inv_mono; eauto. rewrite !blen_app. lia.
Qed.

(** ------------------------------------------------------------------ lists of items --- *)

Lemma list_ok {T} (wfA : T -> Prop) (enc : T -> N -> dict -> res (list N * dict)) (dec : list N -> N -> outcome (T * N)) :
  (forall a pos d b d', wfA a -> enc a pos d = Ok (b, d') -> at_ M pos b -> dict_inv M pos d ->
     dec M pos = Done (a, pos + blen b) /\ dict_inv M (pos + blen b) d') ->
  forall l pos d b d' acc, Forall wfA l -> enc_list enc l pos d = Ok (b, d') -> at_ M pos b -> dict_inv M pos d ->
    dec_loop dec (length l) M pos acc = Done (acc ++ l, pos + blen b, false) /\ dict_inv M (pos + blen b) d'.
Proof.
  intros H. induction l as [|x r IH]; intros pos d b d' acc W E A DI.
  - cbn in E. inversion E; subst. cbn. rewrite app_nil_r, N.add_0_r. split; [reflexivity|exact DI].
  - inversion W as [|? ? Wx Wr]; subst. cbn [enc_list] in E.
    destruct (enc x pos d) as [[bx d1]|] eqn:EX; [|discriminate].
    destruct (enc_list enc r (pos + blen bx) d1) as [[br d2]|] eqn:ER; [|discriminate].
    assert (b = bx ++ br) by congruence. assert (d' = d2) by congruence. subst b d'. clear E.
    destruct (H x pos d bx d1 Wx EX (at_app_l _ _ _ _ A) DI) as [DX DI1].
    cbn [length dec_loop]. rewrite DX.
    destruct (IH (pos + blen bx) d1 br d2 (acc ++ [x]) Wr ER (at_app_r _ _ _ _ A) DI1) as [DR DI2].
    rewrite DR. rewrite <- app_assoc, blen_app, N.add_assoc. split; [reflexivity|exact DI2].
Qed.

End WithM2.

(** ------------------------------------------------------------------ the header --- *)

Fixpoint all_below (k : nat) (f : N -> bool) : bool :=
  match k with O => true | S k' => f (N.of_nat k') && all_below k' f end.

Lemma all_below_spec k f : all_below k f = true -> forall n, n < N.of_nat k -> f n = true.
Proof.
  induction k as [|k IH]; intros H n L; [cbn in L; lia|].
  cbn [all_below] in H. apply andb_true_iff in H as [H1 H2].
  destruct (N.eq_dec n (N.of_nat k)) as [->|NE]; [exact H1|]. apply IH; [exact H2|lia].
Qed.

Definition byte3_of (answer opCode auth trunc recDes : N) : N :=
  N.lor (N.shiftl (N.land answer 1) 7) (N.lor (N.shiftl (N.land opCode 15) 3)
  (N.lor (N.shiftl (N.land auth 1) 2) (N.lor (N.shiftl (N.land trunc 1) 1) (N.land recDes 1)))).
Definition byte4_of (recAv ad cd rCode : N) : N :=
  N.lor (N.shiftl (N.land recAv 1) 7) (N.lor (N.shiftl (N.land ad 1) 5)
  (N.lor (N.shiftl (N.land cd 1) 4) (N.land rCode 15))).

Definition flags3_ok (a o au t r : N) : bool :=
  let b := byte3_of a o au t r in
  (bit b 7 =? a) && (N.land (N.shiftr b 3) 15 =? o) && (bit b 2 =? au) && (bit b 1 =? t) && (bit b 0 =? r) && (b <? 256).
Definition flags4_ok (ra ad cd rc : N) : bool :=
  let b := byte4_of ra ad cd rc in
  (bit b 7 =? ra) && (bit b 5 =? ad) && (bit b 4 =? cd) && (N.land b 15 =? rc) && (b <? 256).

Lemma flags3_all : all_below 2 (fun a => all_below 16 (fun o => all_below 2 (fun au => all_below 2 (fun t =>
                   all_below 2 (fun r => flags3_ok a o au t r))))) = true.
Proof. vm_compute. reflexivity. Qed.
Lemma flags4_all : all_below 2 (fun ra => all_below 2 (fun ad => all_below 2 (fun cd => all_below 16 (fun rc =>
                   flags4_ok ra ad cd rc)))) = true.
Proof. vm_compute. reflexivity. Qed.

Lemma flags3 a o au t r : a <= 1 -> o <= 15 -> au <= 1 -> t <= 1 -> r <= 1 -> flags3_ok a o au t r = true.
Proof.
  intros.
  pose proof (all_below_spec _ _ flags3_all a ltac:(cbn; lia)) as Ha. cbv beta in Ha.
  pose proof (all_below_spec _ _ Ha o ltac:(cbn; lia)) as Ho. cbv beta in Ho.
  pose proof (all_below_spec _ _ Ho au ltac:(cbn; lia)) as Hau. cbv beta in Hau.
  pose proof (all_below_spec _ _ Hau t ltac:(cbn; lia)) as Ht. cbv beta in Ht.
  exact (all_below_spec _ _ Ht r ltac:(cbn; lia)).
Qed.
Lemma flags4 ra ad cd rc : ra <= 1 -> ad <= 1 -> cd <= 1 -> rc <= 15 -> flags4_ok ra ad cd rc = true.
Proof.
  intros.
  pose proof (all_below_spec _ _ flags4_all ra ltac:(cbn; lia)) as Ha. cbv beta in Ha.
  pose proof (all_below_spec _ _ Ha ad ltac:(cbn; lia)) as Hb. cbv beta in Hb.
  pose proof (all_below_spec _ _ Hb cd ltac:(cbn; lia)) as Hc. cbv beta in Hc.
  exact (all_below_spec _ _ Hc rc ltac:(cbn; lia)).
Qed.

Lemma to_be2_form x : exists p q, to_be 2 x = [p; q].
Proof. cbn [to_be app]. eauto. Qed.

Lemma from_be_1 x : from_be [x] = x.
Proof. unfold from_be. cbn [fold_left]. cbn. reflexivity. Qed.

(** ------------------------------------------------------------------ whole messages --- *)

Theorem message_roundtrip_untruncated m mx body b :
  wf_message m -> enc_body m = Ok body -> (mx = 0 \/ blen body + 12 <= mx) ->
  enc_message m mx = Ok b -> bytes_ok b ->
  b = firstn 12 b ++ body /\ dec_message b = Done m.
Proof.
  intros (WH & WQ & WA & WN & WD) EB NT EM BO.
  unfold enc_message in EM. rewrite EB in EM.
  replace (negb (mx =? 0) && (mx <? blen body + 12))%bool with false in EM
    by (destruct NT as [->|L]; [reflexivity|destruct (mx =? 0); cbn [negb andb]; lia]).
  destruct (enc_header (m_hdr m) (h_trunc (m_hdr m)) (blen (m_queries m)) (blen (m_answers m))
                       (blen (m_authority m)) (blen (m_additional m))) as [h|] eqn:EH; [|discriminate].
  assert (b = h ++ body) by congruence. subst b. clear EM.
  destruct m as [hd qs an ns ad]. cbn [m_hdr m_queries m_answers m_authority m_additional] in *.
  destruct hd as [id answer opCode auth trunc recDes recAv adata cdis rCode].
  unfold wf_header in WH. cbn [h_answer h_opCode h_auth h_trunc h_recDes h_recAv h_authenticData h_checkingDisabled h_rCode] in WH.
  destruct WH as (W1 & W2 & W3 & W4 & W5 & W6 & W7 & W8 & W9).
  unfold enc_header in EH. cbn [h_id h_answer h_opCode h_auth h_trunc h_recDes h_recAv h_authenticData h_checkingDisabled h_rCode] in EH.
  fold (byte3_of answer opCode auth trunc recDes) in EH. fold (byte4_of recAv adata cdis rCode) in EH.
  destruct (enc_u 2 id) as [bi|] eqn:E1; [|discriminate].
  destruct (enc_u 2 (blen qs)) as [bq|] eqn:E2; [|discriminate].
  destruct (enc_u 2 (blen an)) as [ba|] eqn:E3; [|discriminate].
  destruct (enc_u 2 (blen ns)) as [bn|] eqn:E4; [|discriminate].
  destruct (enc_u 2 (blen ad)) as [bd|] eqn:E5; [|discriminate].
  apply enc_u_ok in E1 as [-> L1]. apply enc_u_ok in E2 as [-> L2]. apply enc_u_ok in E3 as [-> L3].
  apply enc_u_ok in E4 as [-> L4]. apply enc_u_ok in E5 as [-> L5].
  set (b3 := byte3_of answer opCode auth trunc recDes) in *. set (b4 := byte4_of recAv adata cdis rCode) in *.
  assert (h = to_be 2 id ++ [b3; b4] ++ to_be 2 (blen qs) ++ to_be 2 (blen an) ++ to_be 2 (blen ns) ++ to_be 2 (blen ad))
    as Hh by congruence. clear EH.
  destruct (to_be2_form id) as (i1 & i2 & Fi). destruct (to_be2_form (blen qs)) as (q1 & q2 & Fq).
  destruct (to_be2_form (blen an)) as (a1 & a2 & Fa). destruct (to_be2_form (blen ns)) as (n1 & n2 & Fn).
  destruct (to_be2_form (blen ad)) as (d1 & d2 & Fd).
  assert (h = [i1; i2; b3; b4; q1; q2; a1; a2; n1; n2; d1; d2]) as Hx
    by (rewrite Hh, Fi, Fq, Fa, Fn, Fd; reflexivity).
  assert (from_be [i1; i2] = id) as Gi by (rewrite <- Fi; now apply from_be_to_be_small).
  assert (from_be [q1; q2] = blen qs) as Gq by (rewrite <- Fq; now apply from_be_to_be_small).
  assert (from_be [a1; a2] = blen an) as Ga by (rewrite <- Fa; now apply from_be_to_be_small).
  assert (from_be [n1; n2] = blen ns) as Gn by (rewrite <- Fn; now apply from_be_to_be_small).
  assert (from_be [d1; d2] = blen ad) as Gd by (rewrite <- Fd; now apply from_be_to_be_small).
  clear Hh. subst h. split; [reflexivity|].
  set (M := [i1; i2; b3; b4; q1; q2; a1; a2; n1; n2; d1; d2] ++ body) in *.
  (* the body and its four sections *)
  unfold enc_body in EB. cbn [m_queries m_answers m_authority m_additional] in EB.
  destruct (enc_list enc_query qs 12 []) as [[s1 dq]|] eqn:S1; [|discriminate].
  destruct (enc_list enc_rr an (12 + blen s1) dq) as [[s2 da]|] eqn:S2; [|discriminate].
  destruct (enc_list enc_rr ns (12 + blen s1 + blen s2) da) as [[s3 dn]|] eqn:S3; [|discriminate].
  destruct (enc_list enc_rr ad (12 + blen s1 + blen s2 + blen s3) dn) as [[s4 dd]|] eqn:S4; [|discriminate].
  assert (body = s1 ++ s2 ++ s3 ++ s4) by congruence. subst body. clear EB.
  assert (at_ M 12 (s1 ++ s2 ++ s3 ++ s4)) as AB.
  { exists [i1; i2; b3; b4; q1; q2; a1; a2; n1; n2; d1; d2], []. split; [unfold M; now rewrite app_nil_r|reflexivity]. }
  destruct (list_ok M wf_query enc_query dec_query (query_ok M BO) qs 12 [] s1 dq [] WQ S1
              (at_app_l _ _ _ _ AB) (dict_inv_nil M 12)) as [R1 I1].
  apply at_app_r in AB.
  destruct (list_ok M wf_rr enc_rr dec_rr (rr_ok M BO) an (12 + blen s1) dq s2 da [] WA S2
              (at_app_l _ _ _ _ AB) I1) as [R2 I2].
  apply at_app_r in AB.
  destruct (list_ok M wf_rr enc_rr dec_rr (rr_ok M BO) ns (12 + blen s1 + blen s2) da s3 dn [] WN S3
              (at_app_l _ _ _ _ AB) I2) as [R3 I3].
  apply at_app_r in AB.
  destruct (list_ok M wf_rr enc_rr dec_rr (rr_ok M BO) ad (12 + blen s1 + blen s2 + blen s3) dn s4 dd [] WD S4 AB I3)
    as [R4 _].
  (* decoding *)
  unfold dec_message.
  assert (readp M 0 12 = Done ([i1; i2; b3; b4; q1; q2; a1; a2; n1; n2; d1; d2], 12)) as RH.
  { apply (readp_at' M 0 [i1; i2; b3; b4; q1; q2; a1; a2; n1; n2; d1; d2] 12); [|reflexivity].
    exists [], (s1 ++ s2 ++ s3 ++ s4). split; [reflexivity|reflexivity]. }
  rewrite RH. cbn [obind].
  cbn [takeN dropN N.eqb N.pred Pos.pred_N Pos.pred_double].
  rewrite Gi, Gq, Ga, Gn, Gd, !from_be_1.
  pose proof (flags3 answer opCode auth trunc recDes W1 W2 W3 W4 W5) as F3.
  pose proof (flags4 recAv adata cdis rCode W6 W7 W8 W9) as F4.
  unfold flags3_ok in F3. unfold flags4_ok in F4. fold b3 in F3. fold b4 in F4.
  repeat (apply andb_true_iff in F3 as [F3 ?]). repeat (apply andb_true_iff in F4 as [F4 ?]).
  replace (bit b3 7) with answer by lia. replace (N.land (N.shiftr b3 3) 15) with opCode by lia.
  replace (bit b3 2) with auth by lia. replace (bit b3 1) with trunc by lia. replace (bit b3 0) with recDes by lia.
  replace (bit b4 7) with recAv by lia. replace (bit b4 5) with adata by lia. replace (bit b4 4) with cdis by lia.
  replace (N.land b4 15) with rCode by lia.
  unfold blen at 1. rewrite Nnat.Nat2N.id. rewrite R1. cbn [obind app].
  unfold dec_section. unfold blen at 1. rewrite Nnat.Nat2N.id. rewrite R2. cbn [obind app].
  unfold blen at 1. rewrite Nnat.Nat2N.id. rewrite R3. cbn [obind app].
  unfold blen at 1. rewrite Nnat.Nat2N.id. rewrite R4. cbn [obind app]. reflexivity.
Qed.

(** ------------------------------------------------------------------ truncation --- *)

(** Message.encode with a size limit that is exceeded: exactly [mx] bytes come out, the header is
    the one of the whole message with the TC bit set, and the body is a prefix of the whole body *)
Lemma truncated_shape m mx body b :
  wf_message m -> enc_body m = Ok body -> 12 <= mx -> mx < blen body + 12 -> enc_message m mx = Ok b ->
  exists h, enc_header (m_hdr m) 1 (blen (m_queries m)) (blen (m_answers m)) (blen (m_authority m)) (blen (m_additional m)) = Ok h
    /\ b = h ++ takeN (mx - 12) body /\ blen h = 12 /\ blen b = mx
    /\ bit (nth 2 b 0) 1 = 1.
Proof.
  intros (WH & _) EB L12 LT EM. unfold enc_message in EM. rewrite EB in EM.
  replace (negb (mx =? 0) && (mx <? blen body + 12))%bool with true in EM
    by (destruct (mx =? 0) eqn:Z; cbn [negb andb]; lia).
  destruct (enc_header (m_hdr m) 1 _ _ _ _) as [h|] eqn:EH; [|discriminate].
  assert (b = h ++ takeN (mx - 12) body) by congruence. subst b. clear EM.
  exists h. split; [reflexivity|]. split; [reflexivity|].
  unfold enc_header in EH.
  destruct (enc_u 2 (h_id (m_hdr m))) as [bi|] eqn:E1; [|discriminate].
  destruct (enc_u 2 (blen (m_queries m))) as [bq|] eqn:E2; [|discriminate].
  destruct (enc_u 2 (blen (m_answers m))) as [ba|] eqn:E3; [|discriminate].
  destruct (enc_u 2 (blen (m_authority m))) as [bn|] eqn:E4; [|discriminate].
  destruct (enc_u 2 (blen (m_additional m))) as [bd|] eqn:E5; [|discriminate].
  apply enc_u_ok in E1 as [-> _]. apply enc_u_ok in E2 as [-> _]. apply enc_u_ok in E3 as [-> _].
  apply enc_u_ok in E4 as [-> _]. apply enc_u_ok in E5 as [-> _].
  destruct (to_be2_form (h_id (m_hdr m))) as (i1 & i2 & Fi). rewrite Fi in EH.
  destruct (m_hdr m) as [id answer opCode auth trunc recDes recAv adata cdis rCode].
  unfold wf_header in WH. cbn [h_answer h_opCode h_auth h_trunc h_recDes h_recAv h_authenticData h_checkingDisabled h_rCode] in *.
  destruct WH as (W1 & W2 & W3 & W4 & W5 & _).
  fold (byte3_of answer opCode auth 1 recDes) in EH.
  injection EH as <-.
  match goal with |- blen ?hh = 12 /\ _ => set (h := hh) end.
  assert (blen h = 12) as L by (unfold h; reflexivity).
  split; [exact L|]. split.
  - rewrite blen_app, blen_takeN, L. lia.
  - assert (nth 2 (h ++ takeN (mx - 12) body) 0 = byte3_of answer opCode auth 1 recDes) as N2
      by (unfold h; reflexivity).
    rewrite N2. pose proof (flags3 answer opCode auth 1 recDes W1 W2 W3 ltac:(lia) W5) as F3.
    unfold flags3_ok in F3. repeat (apply andb_true_iff in F3 as [F3 ?]). lia.
Qed.

(** ------------------------------------------------------------------ statements as exported --- *)

Lemma name_roundtrip M c ls pos d b d' :
  bytes_ok M -> name_ok ls -> enc_name c ls pos d = Ok (b, d') -> dict_inv M pos d -> at_ M pos b ->
  dec_name M pos = Done (ls, pos + blen b) /\ dict_inv M (pos + blen b) d'.
Proof.
  intros BO NOK E DI A.
  destruct (enc_name_sound c M ls pos d b d' NOK E DI A) as [NB DI']. split; [|exact DI'].
  exact (dec_name_nbe M pos ls _ BO NB).
Qed.

Lemma schema_roundtrip_lemma M ts vs pos d b d' rdlen :
  bytes_ok M -> wf_fields ts vs -> enc_fields ts vs pos d = Ok (b, d') -> rest_ok (Some 0) ts = true ->
  rdlen = blen b -> at_ M pos b -> dict_inv M pos d ->
  dec_fields M ts pos rdlen = Done (vs, pos + blen b) /\ dict_inv M (pos + blen b) d'.
Proof.
  intros BO W E RO RL A DI.
  apply (fields_ok M BO ts vs pos d b d' (Some 0) rdlen W E RO); auto.
  intros c0 EC. inversion EC. lia.
Qed.

Lemma refusal M c ls pos d :
  (255 < wire_len ls -> enc_name c ls pos d = Err ValueError) /\
  (Exists (fun l => 63 < blen l) ls -> dict_inv M pos d -> enc_name c ls pos d = Err ValueError).
Proof.
  split; [exact (enc_name_refuses_long_name c ls pos d)|].
  intros EX DI. exact (enc_name_refuses_long_label c M ls pos d EX DI).
Qed.

Lemma encoded_name_nbe M c ls pos d b d' :
  name_ok ls -> enc_name c ls pos d = Ok (b, d') -> dict_inv M pos d -> at_ M pos b -> nbe M pos pos ls (pos + blen b).
Proof. intros NOK E DI A. exact (proj1 (enc_name_sound c M ls pos d b d' NOK E DI A)). Qed.

Lemma message_roundtrip_lemma m mx body b :
  wf_message m -> enc_body m = Ok body -> (mx = 0 \/ blen body + 12 <= mx) ->
  enc_message m mx = Ok b -> bytes_ok b -> dec_message b = Done m.
Proof. intros W EB NT EM BO. exact (proj2 (message_roundtrip_untruncated m mx body b W EB NT EM BO)). Qed.

(** the hypotheses are inhabited: a response with a compressed SOA, an MX and a TXT record *)
Example wf_example :
  let nm := [[101;120;97;109;112;108;101]; [99;111;109]] in
  let m := mkM (mkH 4660 1 0 1 0 1 1 0 0 0) [mkQ nm 6 1]
               [mkRR nm 6 1 3600 [VName ([110;115] :: nm); VName ([114;111;111;116] :: nm); VU 2024; VS 7200; VS (-1); VS 1209600; VU 300];
                mkRR nm 15 1 60 [VU 10; VName ([109;120] :: nm)]]
               [] [mkRR ([119;119;119] :: nm) 16 1 0 [VList [[104;105]; []]]] in
  wf_message m /\ exists b, enc_message m 512 = Ok b /\ dec_message b = Done m /\ blen b = 112.
Proof.
  cbn zeta. split.
  - unfold wf_message, wf_header, wf_query, wf_rr, name_ok. cbn.
    repeat split; repeat constructor; cbn; lia.
  - eexists. split; [vm_compute; reflexivity|]. split; vm_compute; reflexivity.
Qed.
