(** C32, part 2: fields, resource records, sections, whole messages. *)
From Coq Require Import List NArith ZArith Bool Lia ZifyBool.
From TwLib Require Import PyInt WireIter WireDns WireDnsTotal.
From C32 Require Import Model ProofsName.
Import ListNotations.
Open Scope N_scope.

(** ------------------------------------------------------------------ small helpers --- *)

Lemma enc_u_ok k n b : enc_u k n = Ok b -> b = to_be k n /\ n < 256 ^ N.of_nat k.
Proof. unfold enc_u. destruct (n <? 256 ^ N.of_nat k) eqn:E; [|discriminate]. intros H; inversion H. split; [reflexivity|lia]. Qed.

Lemma to_be_pad2 n : n < 256 ^ 6 -> to_be 8 n = 0 :: 0 :: to_be 6 n.
Proof.
  intros L. set (l := 0 :: 0 :: to_be 6 n).
  assert (forallb is_byte l = true) as B by (unfold l; cbn [forallb]; rewrite to_be_bytes; reflexivity).
  assert (from_be l = n) as F.
  { unfold l. rewrite !from_be_zero_cons. apply from_be_to_be_small. exact L. }
  pose proof (to_be_from_be l B) as T. rewrite F in T. unfold l in T at 1. cbn [length] in T.
  rewrite length_to_be in T. exact T.
Qed.

Lemma s32_roundtrip z : (-2147483648 <= z < 2147483648)%Z -> s32_of (Z.to_N (z mod 4294967296)) = z.
Proof.
  intros R. unfold s32_of. destruct (Z_lt_le_dec z 0) as [Ng|Ps].
  - assert (z mod 4294967296 = z + 4294967296)%Z as E.
    { symmetry. apply Z.mod_unique with (q := (-1)%Z); lia. }
    rewrite E. destruct (Z.to_N (z + 4294967296) <? 2147483648) eqn:C; lia.
  - rewrite Z.mod_small by lia. destruct (Z.to_N z <? 2147483648) eqn:C; lia.
Qed.

Lemma enc_charstrs_len l : forall b, enc_charstrs l = Ok b -> N.of_nat (length l) <= blen b.
Proof.
  induction l as [|x r IH]; intros b E; cbn [enc_charstrs] in E.
  - inversion E. cbn. lia.
  - destruct (255 <? blen x); [discriminate|]. destruct (enc_charstrs r) as [br|]; [|discriminate].
    assert (b = (blen x :: x) ++ br) by congruence. subst b.
    specialize (IH br eq_refl). rewrite blen_app, blen_cons. cbn [length]. lia.
Qed.

Lemma a6_range plen : plen <= 128 -> exists k, a6_bytes plen = Z.of_N k /\ k <= 16.
Proof.
  intros H. unfold a6_bytes. rewrite Z.quot_div_nonneg by lia.
  exists (Z.to_N ((128 - Z.of_N plen) / 8)).
  assert (0 <= (128 - Z.of_N plen) / 8 <= 16)%Z by (split; [apply Z.div_pos; lia|apply Z.div_le_upper_bound; lia]).
  split; lia.
Qed.

Section WithM.
Variable M : list N.
Hypothesis BO : bytes_ok M.

Lemma dec_charstrs_ok : forall l b pos soFar acc fuel rdlen,
  enc_charstrs l = Ok b -> at_ M pos b -> rdlen = soFar + blen b -> (length l < fuel)%nat ->
  dec_charstrs fuel M pos soFar rdlen acc = Done (acc ++ l, pos + blen b).
Proof.
  induction l as [|x r IH]; intros b pos soFar acc fuel rdlen E A R F.
  - cbn [enc_charstrs] in E. inversion E; subst b. change (blen []) with 0 in *. destruct fuel; [cbn in F; lia|].
    cbn [dec_charstrs]. replace (soFar <? rdlen) with false by lia. now rewrite app_nil_r, N.add_0_r.
  - cbn [enc_charstrs] in E. destruct (255 <? blen x) eqn:LX; [discriminate|].
    destruct (enc_charstrs r) as [br|] eqn:ER; [|discriminate].
    assert (b = (blen x :: x) ++ br) by congruence. subst b. clear E.
    destruct fuel as [|f]; [cbn in F; lia|]. cbn [dec_charstrs].
    assert (blen ((blen x :: x) ++ br) = 1 + blen x + blen br) as BL by (rewrite blen_app, blen_cons; lia).
    replace (soFar <? rdlen) with true by lia.
    assert (at_ M pos (blen x :: x)) as A1 by (now apply at_app_l in A).
    rewrite (read1_at M pos (blen x) x A1). cbn [obind].
    rewrite (readp_at M (pos + 1) x (at_cons_r _ _ _ _ A1)). cbn [obind].
    rewrite (IH br (pos + 1 + blen x) (soFar + blen x + 1) (acc ++ [x]) f rdlen eq_refl).
    + rewrite BL, <- app_assoc. cbn [app]. f_equal. f_equal. lia.
    + apply at_app_r in A. rewrite blen_cons in A. replace (pos + 1 + blen x) with (pos + (1 + blen x)) by lia. exact A.
    + rewrite BL in R. lia.
    + cbn [length] in F. lia.
Qed.

Definition rest_cond (t : fty) (b : list N) (rdlen : N) : Prop :=
  match t with FRest h => rdlen = h + blen b | FCharstrs => rdlen = blen b | _ => True end.

Ltac ok_inv E := let H1 := fresh in let H2 := fresh in
  match type of E with Ok (?x, ?y) = Ok (?b, ?d) =>
    assert (H1 : b = x) by congruence; assert (H2 : d = y) by congruence; subst b d; clear E
  end.

Lemma field_ok t v pos d b d' rdlen :
  wf_field t v -> enc_field t v pos d = Ok (b, d') -> at_ M pos b -> dict_inv M pos d -> rest_cond t b rdlen ->
  dec_field M t pos rdlen = Done (v, pos + blen b) /\ dict_inv M (pos + blen b) d'.
Proof.
  intros W E A DI RC.
  assert (forall x, dict_inv M (pos + x) d) as DM by (intros x; eapply dict_inv_mono; eauto; lia).
  destruct t; destruct v; cbn [wf_field] in W; try contradiction; cbn [enc_field] in E.
  - (* FU *) destruct (enc_u k n) as [b0|] eqn:EU; [|discriminate]. ok_inv E.
    apply enc_u_ok in EU as [-> L]. split; [|apply DM]. cbn [dec_field].
    rewrite (read_u_at M pos k n A L). cbn [obind]. now rewrite blen_to_be.
  - (* FU48 *) destruct (n <? 18446744073709551616); [|discriminate]. ok_inv E.
    rewrite to_be_pad2 in * by (change (256 ^ 6) with 281474976710656; exact W).
    change (dropN 2 (0 :: 0 :: to_be 6 n)) with (to_be 6 n) in *.
    split; [|apply DM]. cbn [dec_field].
    rewrite (read_u_at M pos 6 n A) by (change (256 ^ N.of_nat 6) with 281474976710656; exact W).
    cbn [obind]. now rewrite blen_to_be.
  - (* FS32 *) destruct ((-2147483648 <=? z)%Z && (z <? 2147483648)%Z)%bool eqn:R; [|discriminate]. ok_inv E.
    split; [|apply DM]. cbn [dec_field].
    rewrite (read_u_at M pos 4 _ A).
    2:{ change (256 ^ N.of_nat 4) with 4294967296.
        assert (0 <= z mod 4294967296 < 4294967296)%Z by (apply Z.mod_pos_bound; lia). lia. }
    cbn [obind]. rewrite s32_roundtrip by lia. now rewrite blen_to_be.
  - (* FName *) destruct (enc_name_sound compress M ls pos d b d' W E DI A) as [NB DI'].
    split; [|exact DI']. cbn [dec_field]. rewrite (dec_name_nbe M pos ls _ BO NB). reflexivity.
  - (* FBytes *) ok_inv E. split; [|apply DM]. cbn [dec_field].
    rewrite (readp_at' M pos b0 (N.of_nat k) A) by (symmetry; exact W). cbn [obind]. now rewrite W.
  - (* FCharstr *) destruct (255 <? blen b0); [discriminate|]. ok_inv E. split; [|apply DM]. cbn [dec_field].
    rewrite (read1_at M pos (blen b0) b0 A). cbn [obind].
    rewrite (readp_at M (pos + 1) b0 (at_cons_r _ _ _ _ A)). cbn [obind]. rewrite blen_cons. f_equal. f_equal. lia.
  - (* FRest *) ok_inv E. split; [|apply DM]. cbn [dec_field]. cbn [rest_cond] in RC.
    replace (rdlen <? hdr) with false by lia.
    rewrite (readp_at' M pos b0 (rdlen - hdr) A) by lia. cbn [obind]. f_equal. f_equal. lia.
  - (* FCharstrs *) destruct (enc_charstrs l) as [b0|] eqn:EC; [|discriminate]. ok_inv E.
    split; [|apply DM]. cbn [dec_field]. cbn [rest_cond] in RC.
    rewrite (dec_charstrs_ok l b0 pos 0 [] _ rdlen EC A) by (try lia; pose proof (enc_charstrs_len l b0 EC); lia).
    reflexivity.
  - (* FLen16 *) destruct (65535 <? blen b0) eqn:LB; [discriminate|]. ok_inv E. split; [|apply DM]. cbn [dec_field].
    rewrite (read_u_at M pos 2 (blen b0)) by (try (now apply at_app_l in A); change (256 ^ N.of_nat 2) with 65536; lia).
    cbn [obind]. apply at_app_r in A. rewrite blen_to_be in A. change (N.of_nat 2) with 2 in *.
    rewrite (readp_at M (pos + 2) b0 A). cbn [obind]. rewrite blen_app, blen_to_be. change (N.of_nat 2) with 2. f_equal. f_equal. lia.
  - (* FA6 *)
    destruct W as (P128 & S16 & NOK & PZ & CAN).
    destruct (255 <? plen) eqn:P255; [discriminate|].
    destruct (a6_range plen P128) as (k & NB & K16). rewrite NB in *. rewrite N2Z.id in CAN.
    assert (at_ M pos [plen]) as A0.
    { destruct (plen =? 0); [|destruct (enc_name _ _ _ _) as [[? ?]|]; [|discriminate]];
        ok_inv E; change ([plen] ++ ?x) with ([plen] ++ x) in A; now apply at_app_l in A. }
    cbn [dec_field]. rewrite (read1_at M pos plen [] A0). cbn [obind]. rewrite NB.
    destruct (Z.of_N k =? 0)%Z eqn:K0.
    + (* no suffix bytes on the wire: the suffix is all zero *)
      assert (k = 0) by lia. subst k. change (16 - 0) with 16 in CAN.
      rewrite takeN_all in CAN by lia. change (N.to_nat 16) with 16%nat in CAN. subst suffix.
      cbn [obind]. destruct (plen =? 0) eqn:PL0.
      * ok_inv E. rewrite (PZ ltac:(lia)). split; [|apply DM]. reflexivity.
      * destruct (enc_name false prefix (pos + 1 + blen (@nil N)) d) as [[bn dn]|] eqn:EN; [|discriminate]. ok_inv E.
        change (blen (@nil N)) with 0 in EN. rewrite N.add_0_r in EN.
        assert (at_ M (pos + 1) bn) as An by (cbn [app] in A; now apply at_cons_r in A).
        destruct (enc_name_sound false M prefix (pos + 1) d bn dn NOK EN (DM 1) An) as [NBE DI'].
        rewrite (dec_name_nbe M (pos + 1) prefix _ BO NBE). cbn [obind app]. rewrite blen_cons.
        replace (pos + (1 + blen bn)) with (pos + 1 + blen bn) by lia. split; [reflexivity|exact DI'].
    + replace (Z.of_N k <? 0)%Z with false by lia. rewrite N2Z.id in *.
      set (sfx := last_bytes k suffix) in *.
      assert (blen sfx = k) as LS by (unfold sfx, last_bytes; rewrite blen_dropN; lia).
      assert (repeat 0 (Z.to_nat (16 - Z.of_N k)) ++ sfx = suffix) as SUF.
      { replace (Z.to_nat (16 - Z.of_N k)) with (N.to_nat (16 - k)) by lia. rewrite <- CAN.
        unfold sfx, last_bytes. rewrite S16. apply takeN_dropN. }
      destruct (plen =? 0) eqn:PL0.
      * ok_inv E. apply at_app_r in A. change (blen [plen]) with 1 in A.
        rewrite (readp_at' M (pos + 1) sfx k A) by (symmetry; exact LS). cbn [obind]. rewrite SUF.
        rewrite (PZ ltac:(lia)). split; [|apply DM]. rewrite blen_app, LS. change (blen [plen]) with 1.
        f_equal. f_equal. lia.
      * destruct (enc_name false prefix (pos + 1 + blen sfx) d) as [[bn dn]|] eqn:EN; [|discriminate]. ok_inv E.
        apply at_app_r in A. change (blen [plen]) with 1 in A.
        rewrite (readp_at' M (pos + 1) sfx k (at_app_l _ _ _ _ A)) by (symmetry; exact LS). cbn [obind]. rewrite SUF.
        apply at_app_r in A. rewrite LS in *.
        destruct (enc_name_sound false M prefix (pos + 1 + k) d bn dn NOK EN (dict_inv_mono M pos (pos + 1 + k) d DI ltac:(lia)) A) as [NBE DI'].
        rewrite (dec_name_nbe M (pos + 1 + k) prefix _ BO NBE). cbn [obind].
        rewrite !blen_app, LS. change (blen [plen]) with 1.
        replace (pos + (1 + (k + blen bn))) with (pos + 1 + k + blen bn) by lia. split; [reflexivity|exact DI'].
Qed.

End WithM.
