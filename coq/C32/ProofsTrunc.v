(** C32, part 4: a message cut at its size limit.  The record that is cut makes the decoder stop
    with EOFError, so exactly the complete records before it are decoded. *)
From Coq Require Import List NArith ZArith Bool Lia ZifyBool.
From TwLib Require Import PyInt WireIter WireDns WireDnsTotal.
From C32 Require Import Model ProofsName ProofsMsg ProofsBytes.
Import ListNotations.
Open Scope N_scope.

(** [M] ends inside [x], which starts at offset [p]: only a proper prefix of [x] is there *)
Definition cut_ (M : list N) (p : N) (x : list N) : Prop :=
  exists pre k, M = pre ++ takeN k x /\ blen pre = p /\ k < blen x.

Lemma takeN_app_split {A} k (a b : list A) :
  takeN k (a ++ b) = if k <=? blen a then takeN k a else a ++ takeN (k - blen a) b.
Proof.
  revert k; induction a as [|x a IH]; intros k.
  - cbn [app]. change (blen (@nil A)) with 0. destruct (k <=? 0) eqn:E.
    + assert (k = 0) by lia. subst. now rewrite !takeN_0.
    + now rewrite N.sub_0_r.
  - rewrite blen_cons. cbn [app takeN]. destruct (k =? 0) eqn:Z.
    + replace (k <=? 1 + blen a) with true by lia. reflexivity.
    + rewrite IH. destruct (N.pred k <=? blen a) eqn:E.
      * replace (k <=? 1 + blen a) with true by lia. reflexivity.
      * replace (k <=? 1 + blen a) with false by lia. cbn [app]. f_equal. f_equal. f_equal. lia.
Qed.

Lemma cut_app M p a b : cut_ M p (a ++ b) -> cut_ M p a \/ (at_ M p a /\ cut_ M (p + blen a) b).
Proof.
  intros (pre & k & EQ & L & K). rewrite blen_app in K. rewrite takeN_app_split in EQ.
  destruct (k <=? blen a) eqn:E.
  - destruct (N.eq_dec k (blen a)) as [->|NE].
    + right. rewrite takeN_all in EQ by lia. split.
      * exists pre, []. split; [now rewrite app_nil_r|exact L].
      * exists (pre ++ a), 0. rewrite takeN_0, app_nil_r, blen_app. repeat split; auto; lia.
    + left. exists pre, k. repeat split; auto. lia.
  - right. split.
    + exists pre, (takeN (k - blen a) b). split; [exact EQ|exact L].
    + exists (pre ++ a), (k - blen a). rewrite <- app_assoc, blen_app. repeat split; auto; lia.
Qed.

Lemma cut_nil M p : ~ cut_ M p [].
Proof. intros (pre & k & _ & _ & K). cbn in K. lia. Qed.

Lemma readp_cut M p x l : cut_ M p x -> l = blen x -> readp M p l = Raise EOFError.
Proof.
  intros (pre & k & -> & <- & K) ->. unfold readp, slice. rewrite dropN_app_exact.
  rewrite takeN_all by (rewrite blen_takeN; lia).
  rewrite blen_takeN. replace (N.min k (blen x) <? blen x) with true by lia. reflexivity.
Qed.

(** the first byte of a cut item: absent, or present with the remainder cut *)
Lemma cut_cons M p b x : cut_ M p (b :: x) ->
  read1 M p = Raise EOFError \/ (read1 M p = Done (b, p + 1) /\ cut_ M (p + 1) x).
Proof.
  intros C. change (b :: x) with ([b] ++ x) in C. apply cut_app in C as [C|[A C]].
  - left. destruct C as (pre & k & -> & <- & K). change (blen [b]) with 1 in K. assert (k = 0) by lia. subst.
    rewrite takeN_0, app_nil_r. unfold read1. rewrite dropN_all by lia. reflexivity.
  - right. split; [exact (read1_at M p b [] A)|]. exact C.
Qed.

Lemma read_u_cut M p k n : cut_ M p (to_be k n) -> read_u M p k = Raise EOFError.
Proof.
  intros C. unfold read_u. rewrite (readp_cut M p (to_be k n) (N.of_nat k) C) by (now rewrite blen_to_be). reflexivity.
Qed.

Section Cut.
Variable M : list N.
Hypothesis BO : bytes_ok M.

(** ------------------------------------------------------------------ a name that is cut --- *)

Lemma name_cut_run c s : forall ls pos d pend b d',
  name_ok ls -> enc_labels c ls pos (pend ++ d) = Ok (b, d') ->
  (forall k o, In (k, o) pend -> (length ls < length k)%nat) ->
  dict_inv M s d -> cut_ M pos b ->
  forall vis acc off, exists n, iter_nat (name_step M) n (mkN pos vis acc off) = inr (Raise EOFError).
Proof.
  induction ls as [|l r IH]; intros pos d pend b d' NOK E PL DI C vis acc off.
  - cbn in E. assert (b = [0]) by congruence. subst b.
    exists 1%nat. cbn [iter_nat]. unfold name_step. cbn [n_pos].
    destruct (cut_cons M pos 0 [] C) as [R|[_ C']]; [now rewrite R|]. now apply cut_nil in C'.
  - inversion NOK as [|? ? L1 NOKr]; subst. cbn [enc_labels] in E.
    destruct (if c then lookup (pend ++ d) (l :: r) else None) as [off'|] eqn:LK.
    + destruct c; [|discriminate]. rewrite lookup_skip in LK by exact PL.
      apply lookup_In in LK. destruct (DI _ _ LK) as (O14 & _).
      destruct (ptr_bytes off' O14) as (b1 & b2 & PB & SH & NZ & _ & V).
      destruct (N.lor 49152 off' <? 65536); [|discriminate].
      assert (b = [b1; b2]) by congruence. subst b.
      exists 1%nat. cbn [iter_nat]. unfold name_step. cbn [n_pos].
      destruct (cut_cons M pos b1 [b2] C) as [R|[R C']]; [now rewrite R|]. rewrite R.
      replace (b1 =? 0) with false by lia. rewrite SH. cbn [N.eqb Pos.eqb].
      destruct (cut_cons M (pos + 1) b2 [] C') as [R2|[_ C'']]; [now rewrite R2|]. now apply cut_nil in C''.
    + destruct (63 <? blen l) eqn:LL; [discriminate|].
      assert (exists br d2 dd, enc_labels c r (pos + 1 + blen l) dd = Ok (br, d2) /\ b = (blen l :: l) ++ br
              /\ (dd = ((l :: r, pos) :: pend) ++ d \/ dd = pend ++ d)) as (br & d2 & dd & ER & EB & DD).
      { destruct (c && (pos <? 16384))%bool;
          destruct (enc_labels c r (pos + 1 + blen l) _) as [[br d2]|] eqn:ER; try discriminate;
          exists br, d2; eexists; (split; [exact ER|]); (split; [congruence|]); [left|right]; reflexivity. }
      subst b.
      destruct (label_len_not_ptr (blen l) ltac:(lia)) as [Z P].
      destruct (cut_cons M pos (blen l) (l ++ br) C) as [R|[R C1]].
      * exists 1%nat. cbn [iter_nat]. unfold name_step. cbn [n_pos]. now rewrite R.
      * apply cut_app in C1 as [C2|[A2 C2]].
        -- exists 1%nat. cbn [iter_nat]. unfold name_step. cbn [n_pos]. rewrite R, Z, P.
           now rewrite (readp_cut M (pos + 1) l (blen l) C2 eq_refl).
        -- assert (exists n, iter_nat (name_step M) n (mkN (pos + 1 + blen l) vis (acc ++ [l]) off) = inr (Raise EOFError)) as [n En].
           { destruct DD as [-> | ->].
             - apply (IH (pos + 1 + blen l) d ((l :: r, pos) :: pend) br d2 NOKr ER); auto.
               intros k o [I|I].
               + injection I as <- <-. cbn [length]. apply Nat.lt_succ_diag_r.
               + specialize (PL k o I). cbn [length] in PL. apply Nat.lt_trans with (S (length r)); [apply Nat.lt_succ_diag_r|exact PL].
             - apply (IH (pos + 1 + blen l) d pend br d2 NOKr ER); auto.
               intros k o I. specialize (PL k o I). cbn [length] in PL.
               apply Nat.lt_trans with (S (length r)); [apply Nat.lt_succ_diag_r|exact PL]. }
           exists (S n). cbn [iter_nat]. unfold name_step at 1. cbn [n_pos n_vis n_acc n_off]. rewrite R, Z, P.
           rewrite (readp_at M (pos + 1) l A2). exact En.
Qed.

Lemma name_cut c ls pos d b d' :
  name_ok ls -> enc_name c ls pos d = Ok (b, d') -> dict_inv M pos d -> cut_ M pos b ->
  dec_name M pos = Raise EOFError.
Proof.
  intros NOK E DI C. unfold enc_name in E. destruct (255 <? wire_len ls); [discriminate|].
  destruct (name_cut_run c pos ls pos d [] b d' NOK E) with (vis := @nil N) (acc := @nil label) (off := 0) as [n En]; auto.
  { intros k o []. }
  eapply dec_name_of_run; eauto.
Qed.

(** ------------------------------------------------------------------ a field that is cut --- *)

Lemma charstrs_cut : forall l b pos soFar acc fuel rdlen,
  enc_charstrs l = Ok b -> cut_ M pos b -> rdlen = soFar + blen b -> (length l < fuel)%nat ->
  dec_charstrs fuel M pos soFar rdlen acc = Raise EOFError.
Proof.
  induction l as [|x r IH]; intros b pos soFar acc fuel rdlen E C R F.
  - cbn [enc_charstrs] in E. assert (b = []) by congruence. subst. now apply cut_nil in C.
  - cbn [enc_charstrs] in E. destruct (255 <? blen x) eqn:LX; [discriminate|].
    destruct (enc_charstrs r) as [br|] eqn:ER; [|discriminate].
    assert (b = (blen x :: x) ++ br) by congruence. subst b. clear E.
    destruct fuel as [|f]; [cbn in F; lia|]. cbn [dec_charstrs].
    assert (blen ((blen x :: x) ++ br) = 1 + blen x + blen br) as BL by (rewrite blen_app, blen_cons; lia).
    replace (soFar <? rdlen) with true by lia.
    apply cut_app in C as [C1|[A1 C2]].
    + destruct (cut_cons M pos (blen x) x C1) as [R1|[R1 C3]]; [now rewrite R1|].
      rewrite R1. cbn [obind]. now rewrite (readp_cut M (pos + 1) x (blen x) C3 eq_refl).
    + rewrite (read1_at M pos (blen x) x A1). cbn [obind].
      rewrite (readp_at M (pos + 1) x (at_cons_r _ _ _ _ A1)). cbn [obind].
      apply (IH br (pos + 1 + blen x) (soFar + blen x + 1) (acc ++ [x]) f rdlen eq_refl).
      * rewrite blen_cons in C2. replace (pos + 1 + blen x) with (pos + (1 + blen x)) by lia. exact C2.
      * rewrite BL in R. lia.
      * cbn [length] in F. lia.
Qed.

Lemma field_cut t v pos d b d' rdlen :
  wf_field t v -> enc_field t v pos d = Ok (b, d') -> cut_ M pos b -> dict_inv M pos d -> rest_cond t b rdlen ->
  dec_field M t pos rdlen = Raise EOFError.
Proof.
  intros W E C DI RC.
  destruct t; destruct v; cbn [wf_field] in W; try contradiction; cbn [enc_field] in E.
  - destruct (enc_u k n) as [b0|] eqn:EU; [|discriminate]. assert (b = b0) by congruence. subst b0.
    apply enc_u_ok in EU as [-> L]. cbn [dec_field]. now rewrite (read_u_cut M pos k n C).
  - destruct (n <? 18446744073709551616); [|discriminate]. assert (b = dropN 2 (to_be 8 n)) by congruence. subst b.
    rewrite to_be_pad2 in C by (change (256 ^ 6) with 281474976710656; exact W).
    change (dropN 2 (0 :: 0 :: to_be 6 n)) with (to_be 6 n) in C.
    cbn [dec_field]. now rewrite (read_u_cut M pos 6 n C).
  - destruct (_ && _)%bool; [|discriminate]. assert (b = to_be 4 (Z.to_N (z mod 4294967296))) by congruence. subst b.
    cbn [dec_field]. now rewrite (read_u_cut M pos 4 _ C).
  - cbn [dec_field]. now rewrite (name_cut compress ls pos d b d' W E DI C).
  - assert (b = b0) by congruence. subst b0. cbn [dec_field].
    now rewrite (readp_cut M pos b (N.of_nat k) C (eq_sym W)).
  - destruct (255 <? blen b0); [discriminate|]. assert (b = blen b0 :: b0) by congruence. subst b. cbn [dec_field].
    destruct (cut_cons M pos (blen b0) b0 C) as [R1|[R1 C1]]; [now rewrite R1|].
    rewrite R1. cbn [obind]. now rewrite (readp_cut M (pos + 1) b0 (blen b0) C1 eq_refl).
  - assert (b = b0) by congruence. subst b0. cbn [dec_field]. cbn [rest_cond] in RC.
    replace (rdlen <? hdr) with false by lia.
    now rewrite (readp_cut M pos b (rdlen - hdr) C) by lia.
  - destruct (enc_charstrs l) as [b0|] eqn:EC; [|discriminate]. assert (b = b0) by congruence. subst b0.
    cbn [dec_field]. cbn [rest_cond] in RC.
    rewrite (charstrs_cut l b pos 0 [] _ rdlen EC C) by (try lia; pose proof (enc_charstrs_len l b EC); lia).
    reflexivity.
  - destruct (65535 <? blen b0) eqn:LB; [discriminate|]. assert (b = to_be 2 (blen b0) ++ b0) by congruence. subst b.
    cbn [dec_field]. apply cut_app in C as [C1|[A1 C2]].
    + now rewrite (read_u_cut M pos 2 _ C1).
    + rewrite (read_u_at M pos 2 (blen b0) A1) by (change (256 ^ N.of_nat 2) with 65536; lia). cbn [obind].
      rewrite blen_to_be in C2.
      now rewrite (readp_cut M (pos + N.of_nat 2) b0 (blen b0) C2 eq_refl).
  - destruct W as (P128 & S16 & NOK & PZ & CAN).
    destruct (255 <? plen) eqn:P255; [discriminate|].
    destruct (a6_range plen P128) as (k & NB & K16). rewrite NB in *. rewrite N2Z.id in CAN.
    cbn [dec_field].
    assert (exists rest, b = [plen] ++ rest) as [rest EB].
    { destruct (plen =? 0).
      - eexists. injection E as <- _. reflexivity.
      - destruct (enc_name _ _ _ _) as [[? ?]|]; [|discriminate]. eexists. injection E as <- _. reflexivity. }
    rewrite EB in C. destruct (cut_cons M pos plen rest C) as [R1|[R1 C1]]; [now rewrite R1|].
    rewrite R1. cbn [obind]. rewrite NB.
    destruct (Z.of_N k =? 0)%Z eqn:K0.
    + cbn [obind]. destruct (plen =? 0) eqn:PL0.
      * assert (b = [plen] ++ []) by congruence. assert (rest = []) by (apply (app_inv_head [plen]); congruence).
        subst rest. now apply cut_nil in C1.
      * destruct (enc_name false prefix (pos + 1 + blen (@nil N)) d) as [[bn dn]|] eqn:EN; [|discriminate].
        assert (rest = bn) by (apply (app_inv_head [plen]); cbn [app] in *; congruence). subst rest.
        change (blen (@nil N)) with 0 in EN. rewrite N.add_0_r in EN.
        rewrite (name_cut false prefix (pos + 1) d bn dn NOK EN (dict_inv_mono M pos (pos + 1) d DI ltac:(lia)) C1).
        reflexivity.
    + replace (Z.of_N k <? 0)%Z with false by lia. rewrite N2Z.id in *.
      set (sfx := last_bytes k suffix) in *.
      assert (blen sfx = k) as LS by (unfold sfx, last_bytes; rewrite blen_dropN; lia).
      destruct (plen =? 0) eqn:PL0.
      * assert (rest = sfx) by (apply (app_inv_head [plen]); congruence). subst rest.
        now rewrite (readp_cut M (pos + 1) sfx k C1 (eq_sym LS)).
      * destruct (enc_name false prefix (pos + 1 + blen sfx) d) as [[bn dn]|] eqn:EN; [|discriminate].
        assert (rest = sfx ++ bn) by (apply (app_inv_head [plen]); congruence). subst rest.
        apply cut_app in C1 as [C2|[A2 C2]].
        -- now rewrite (readp_cut M (pos + 1) sfx k C2 (eq_sym LS)).
        -- rewrite (readp_at' M (pos + 1) sfx k A2 (eq_sym LS)). cbn [obind]. rewrite LS in *.
           rewrite (name_cut false prefix (pos + 1 + k) d bn dn NOK EN (dict_inv_mono M pos (pos + 1 + k) d DI ltac:(lia)) C2).
           reflexivity.
Qed.

Lemma fields_cut : forall ts vs pos d b d' c rdlen,
  wf_fields ts vs -> enc_fields ts vs pos d = Ok (b, d') -> rest_ok c ts = true ->
  (forall c0, c = Some c0 -> rdlen = c0 + blen b) -> cut_ M pos b -> dict_inv M pos d ->
  dec_fields M ts pos rdlen = Raise EOFError.
Proof.
  induction ts as [|t r IH]; intros vs pos d b d' c rdlen W E RO RL C DI; destruct vs as [|v vr];
    cbn [wf_fields] in W; try contradiction.
  - cbn in E. assert (b = []) by congruence. subst. now apply cut_nil in C.
  - destruct W as [Wt Wr]. cbn [enc_fields] in E.
    destruct (enc_field t v pos d) as [[bt d1]|] eqn:ET; [|discriminate].
    destruct (enc_fields r vr (pos + blen bt) d1) as [[br d2]|] eqn:ER; [|discriminate].
    assert (b = bt ++ br) by congruence. assert (d' = d2) by congruence. subst b d'. clear E.
    assert (rest_cond t bt rdlen) as RC.
    { destruct t; cbn [rest_cond]; try exact I; cbn [rest_ok] in RO; destruct c as [c0|]; try discriminate;
        apply andb_true_iff in RO as [H1 H2]; destruct r; try discriminate; destruct vr; try (cbn in Wr; contradiction);
        cbn in ER; assert (br = []) by congruence; subst br; specialize (RL c0 eq_refl); rewrite app_nil_r in RL; lia. }
    cbn [dec_fields]. apply cut_app in C as [C1|[A1 C2]].
    + now rewrite (field_cut t v pos d bt d1 rdlen Wt ET C1 DI RC).
    + destruct (field_ok M BO t v pos d bt d1 rdlen Wt ET A1 DI RC) as [DF DI1]. rewrite DF. cbn [obind].
      set (c' := match c, fixed_size t with Some c0, Some k => Some (c0 + k) | _, _ => None end).
      assert (rest_ok c' r = true) as RO'.
      { unfold c'. destruct t; cbn [rest_ok fixed_size] in RO |- *; try exact RO.
        all: destruct c as [c0|]; [|discriminate]; apply andb_true_iff in RO as [_ H2];
          destruct r; [reflexivity|discriminate]. }
      rewrite (IH vr (pos + blen bt) d1 br d2 c' rdlen Wr ER RO'); auto.
      intros c0' EC. unfold c' in EC. destruct c as [c0|]; [|discriminate].
      destruct (fixed_size t) as [k|] eqn:FS; [|discriminate]. inversion EC; subst c0'.
      rewrite (RL c0 eq_refl), blen_app, (fixed_size_len t v pos d bt d1 k Wt ET FS). lia.
Qed.

End Cut.

Section Cut2.
Variable M : list N.
Hypothesis BO : bytes_ok M.

(** ------------------------------------------------------------------ a record / query that is cut --- *)

Lemma rr_cut r pos d b d' :
  wf_rr r -> enc_rr r pos d = Ok (b, d') -> cut_ M pos b -> dict_inv M pos d -> dec_rr M pos = Raise EOFError.
Proof.
  intros [WN WF] E C DI. destruct r as [nm ty cls ttl data]. cbn [r_name r_type r_cls r_ttl r_data] in *.
  unfold enc_rr in E. cbn [r_name r_type r_cls r_ttl r_data] in E.
  destruct (enc_name true nm pos d) as [[bn d1]|] eqn:EN; [|discriminate].
  destruct (enc_u 2 ty) as [bt|] eqn:ET; [|discriminate].
  destruct (enc_u 2 cls) as [bc|] eqn:EC; [|discriminate].
  destruct (enc_u 4 ttl) as [bl|] eqn:EL; [|discriminate].
  destruct (enc_fields (schema_of ty) data (pos + blen bn + 10) d1) as [[pl d2]|] eqn:EF; [|discriminate].
  destruct (enc_u 2 (blen pl)) as [rl|] eqn:ERL; [|discriminate].
  assert (b = bn ++ bt ++ bc ++ bl ++ rl ++ pl) by congruence. subst b. clear E.
  apply enc_u_ok in ET as [-> LT]. apply enc_u_ok in EC as [-> LC]. apply enc_u_ok in EL as [-> LL].
  apply enc_u_ok in ERL as [-> LR].
  unfold dec_rr. apply cut_app in C as [C1|[A1 C2]].
  - now rewrite (name_cut M BO true nm pos d bn d1 WN EN DI C1).
  - destruct (enc_name_sound true M nm pos d bn d1 WN EN DI A1) as [NB DI1].
    rewrite (dec_name_nbe M pos nm _ BO NB). cbn [obind].
    set (h10 := to_be 2 ty ++ to_be 2 cls ++ to_be 4 ttl ++ to_be 2 (blen pl)) in *.
    assert (blen h10 = 10) as L10 by (unfold h10; rewrite !blen_app, !blen_to_be; reflexivity).
    replace (to_be 2 ty ++ to_be 2 cls ++ to_be 4 ttl ++ to_be 2 (blen pl) ++ pl) with (h10 ++ pl) in C2
      by (unfold h10; now rewrite <- !app_assoc).
    apply cut_app in C2 as [C3|[A3 C4]].
    + now rewrite (readp_cut M (pos + blen bn) h10 10 C3 (eq_sym L10)).
    + rewrite (readp_at' M (pos + blen bn) h10 10 A3 (eq_sym L10)). cbn [obind].
      destruct (split4 (to_be 2 ty) (to_be 2 cls) (to_be 4 ttl) (to_be 2 (blen pl))) as (S1 & S2 & S3 & S4);
        try apply blen_to_be.
      fold h10 in S1, S2, S3, S4. rewrite S1, S2, S3, S4.
      rewrite !from_be_to_be_small by assumption. rewrite L10 in C4.
      rewrite (fields_cut M BO (schema_of ty) data (pos + blen bn + 10) d1 pl d2 (Some 0) (blen pl) WF EF (schema_rest_ok ty)); auto.
      * intros c0 EC0. inversion EC0. lia.
      * eapply dict_inv_mono; eauto. lia.
Qed.

Lemma query_cut q pos d b d' :
  wf_query q -> enc_query q pos d = Ok (b, d') -> cut_ M pos b -> dict_inv M pos d -> dec_query M pos = Raise EOFError.
Proof.
  intros WN E C DI. destruct q as [nm ty cls]. unfold wf_query in WN. cbn [q_name] in WN.
  unfold enc_query in E. cbn [q_name q_type q_cls] in E.
  destruct (enc_name true nm pos d) as [[bn d1]|] eqn:EN; [|discriminate].
  destruct (enc_u 2 ty) as [bt|] eqn:ET; [|discriminate].
  destruct (enc_u 2 cls) as [bc|] eqn:EC; [|discriminate].
  assert (b = bn ++ bt ++ bc) by congruence. subst b. clear E.
  apply enc_u_ok in ET as [-> LT]. apply enc_u_ok in EC as [-> LC].
  unfold dec_query. apply cut_app in C as [C1|[A1 C2]].
  - now rewrite (name_cut M BO true nm pos d bn d1 WN EN DI C1).
  - destruct (enc_name_sound true M nm pos d bn d1 WN EN DI A1) as [NB DI1].
    rewrite (dec_name_nbe M pos nm _ BO NB). cbn [obind].
    now rewrite (readp_cut M (pos + blen bn) (to_be 2 ty ++ to_be 2 cls) 4 C2) by (rewrite blen_app, !blen_to_be; reflexivity).
Qed.

(** ------------------------------------------------------------------ a list that is cut --- *)

Lemma list_cut {T} (wfA : T -> Prop) (enc : T -> N -> dict -> res (list N * dict)) (dec : list N -> N -> outcome (T * N)) :
  (forall a pos d b d', wfA a -> enc a pos d = Ok (b, d') -> at_ M pos b -> dict_inv M pos d ->
     dec M pos = Done (a, pos + blen b) /\ dict_inv M (pos + blen b) d') ->
  (forall a pos d b d', wfA a -> enc a pos d = Ok (b, d') -> cut_ M pos b -> dict_inv M pos d ->
     dec M pos = Raise EOFError) ->
  forall l pos d b d' acc, Forall wfA l -> enc_list enc l pos d = Ok (b, d') -> cut_ M pos b -> dict_inv M pos d ->
  exists k p', (k < length l)%nat /\ dec_loop dec (length l) M pos acc = Done (acc ++ firstn k l, p', true).
Proof.
  intros HO HC. induction l as [|x r IH]; intros pos d b d' acc W E C DI.
  - cbn in E. assert (b = []) by congruence. subst. now apply cut_nil in C.
  - inversion W as [|? ? Wx Wr]; subst. cbn [enc_list] in E.
    destruct (enc x pos d) as [[bx d1]|] eqn:EX; [|discriminate].
    destruct (enc_list enc r (pos + blen bx) d1) as [[br d2]|] eqn:ER; [|discriminate].
    assert (b = bx ++ br) by congruence. subst b. clear E.
    cbn [length dec_loop]. apply cut_app in C as [C1|[A1 C2]].
    + rewrite (HC x pos d bx d1 Wx EX C1 DI). exists 0%nat, pos. split; [lia|]. cbn [firstn]. now rewrite app_nil_r.
    + destruct (HO x pos d bx d1 Wx EX A1 DI) as [DX DI1]. rewrite DX.
      destruct (IH (pos + blen bx) d1 br d2 (acc ++ [x]) Wr ER C2 DI1) as (k & p' & K & R).
      exists (S k), p'. split; [lia|]. rewrite R. cbn [firstn]. now rewrite <- app_assoc.
Qed.

End Cut2.

(** ------------------------------------------------------------------ the whole truncated message --- *)

Definition after_header (M : list N) (hd : header) (nq nan nns nad : N) : outcome message :=
  obind (dec_loop dec_query (N.to_nat nq) M 12 []) (fun '(qs, p1, eof1) =>
  if (eof1 : bool) then Done (mkM hd qs [] [] []) else
  obind (dec_section false nan M p1) (fun '(an, p2, eof2) =>
  obind (dec_section eof2 nns M p2) (fun '(ns, p3, eof3) =>
  obind (dec_section eof3 nad M p3) (fun '(ad, _, _) => Done (mkM hd qs an ns ad))))).

Lemma header_decodes hd tr nq nan nns nad h rest :
  wf_header hd -> tr <= 1 -> enc_header hd tr nq nan nns nad = Ok h ->
  dec_message (h ++ rest) = after_header (h ++ rest) (set_trunc hd tr) nq nan nns nad /\ blen h = 12.
Proof.
  intros WH T EH.
  destruct hd as [id answer opCode auth trunc recDes recAv adata cdis rCode].
  unfold wf_header in WH. cbn [h_answer h_opCode h_auth h_trunc h_recDes h_recAv h_authenticData h_checkingDisabled h_rCode] in WH.
  destruct WH as (W1 & W2 & W3 & W4 & W5 & W6 & W7 & W8 & W9).
  unfold enc_header in EH. cbn [h_id h_answer h_opCode h_auth h_trunc h_recDes h_recAv h_authenticData h_checkingDisabled h_rCode] in EH.
  fold (byte3_of answer opCode auth tr recDes) in EH. fold (byte4_of recAv adata cdis rCode) in EH.
  destruct (enc_u 2 id) as [bi|] eqn:E1; [|discriminate].
  destruct (enc_u 2 nq) as [bq|] eqn:E2; [|discriminate].
  destruct (enc_u 2 nan) as [ba|] eqn:E3; [|discriminate].
  destruct (enc_u 2 nns) as [bn|] eqn:E4; [|discriminate].
  destruct (enc_u 2 nad) as [bd|] eqn:E5; [|discriminate].
  apply enc_u_ok in E1 as [-> L1]. apply enc_u_ok in E2 as [-> L2]. apply enc_u_ok in E3 as [-> L3].
  apply enc_u_ok in E4 as [-> L4]. apply enc_u_ok in E5 as [-> L5].
  set (b3 := byte3_of answer opCode auth tr recDes) in *. set (b4 := byte4_of recAv adata cdis rCode) in *.
  assert (h = to_be 2 id ++ [b3; b4] ++ to_be 2 nq ++ to_be 2 nan ++ to_be 2 nns ++ to_be 2 nad) as Hh by congruence.
  clear EH.
  destruct (to_be2_form id) as (i1 & i2 & Fi). destruct (to_be2_form nq) as (q1 & q2 & Fq).
  destruct (to_be2_form nan) as (a1 & a2 & Fa). destruct (to_be2_form nns) as (n1 & n2 & Fn).
  destruct (to_be2_form nad) as (d1 & d2 & Fd).
  assert (h = [i1; i2; b3; b4; q1; q2; a1; a2; n1; n2; d1; d2]) as Hx by (rewrite Hh, Fi, Fq, Fa, Fn, Fd; reflexivity).
  assert (from_be [i1; i2] = id) as Gi by (rewrite <- Fi; now apply from_be_to_be_small).
  assert (from_be [q1; q2] = nq) as Gq by (rewrite <- Fq; now apply from_be_to_be_small).
  assert (from_be [a1; a2] = nan) as Ga by (rewrite <- Fa; now apply from_be_to_be_small).
  assert (from_be [n1; n2] = nns) as Gn by (rewrite <- Fn; now apply from_be_to_be_small).
  assert (from_be [d1; d2] = nad) as Gd by (rewrite <- Fd; now apply from_be_to_be_small).
  clear Hh. subst h. split; [|reflexivity].
  set (M := [i1; i2; b3; b4; q1; q2; a1; a2; n1; n2; d1; d2] ++ rest).
  unfold dec_message.
  assert (readp M 0 12 = Done ([i1; i2; b3; b4; q1; q2; a1; a2; n1; n2; d1; d2], 12)) as RH.
  { apply (readp_at' M 0 [i1; i2; b3; b4; q1; q2; a1; a2; n1; n2; d1; d2] 12); [|reflexivity].
    exists [], rest. split; reflexivity. }
  rewrite RH. cbn [obind].
  cbn [takeN dropN N.eqb N.pred Pos.pred_N Pos.pred_double].
  rewrite Gi, Gq, Ga, Gn, Gd, !from_be_1.
  pose proof (flags3 answer opCode auth tr recDes W1 W2 W3 T W5) as F3.
  pose proof (flags4 recAv adata cdis rCode W6 W7 W8 W9) as F4.
  unfold flags3_ok in F3. unfold flags4_ok in F4. fold b3 in F3. fold b4 in F4.
  repeat (apply andb_true_iff in F3 as [F3 ?]). repeat (apply andb_true_iff in F4 as [F4 ?]).
  replace (bit b3 7) with answer by lia. replace (N.land (N.shiftr b3 3) 15) with opCode by lia.
  replace (bit b3 2) with auth by lia. replace (bit b3 1) with tr by lia. replace (bit b3 0) with recDes by lia.
  replace (bit b4 7) with recAv by lia. replace (bit b4 5) with adata by lia. replace (bit b4 4) with cdis by lia.
  replace (N.land b4 15) with rCode by lia.
  reflexivity.
Qed.

Lemma firstn_all' {A} (l : list A) : firstn (length l) l = l.
Proof. apply firstn_all. Qed.

Theorem truncated_decodes_prefix m mx body b :
  wf_message m -> message_bytes m -> enc_body m = Ok body -> 12 <= mx -> mx < blen body + 12 ->
  enc_message m mx = Ok b ->
  exists k1 k2 k3 k4,
    dec_message b = Done (mkM (set_trunc (m_hdr m) 1) (firstn k1 (m_queries m)) (firstn k2 (m_answers m))
                              (firstn k3 (m_authority m)) (firstn k4 (m_additional m)))
    /\ ((k1 < length (m_queries m))%nat -> k2 = 0%nat /\ k3 = 0%nat /\ k4 = 0%nat)
    /\ ((k2 < length (m_answers m))%nat -> k3 = 0%nat /\ k4 = 0%nat)
    /\ ((k3 < length (m_authority m))%nat -> k4 = 0%nat)
    /\ ((k1 < length (m_queries m))%nat \/ (k2 < length (m_answers m))%nat \/ (k3 < length (m_authority m))%nat
        \/ (k4 < length (m_additional m))%nat).
Proof.
  intros WM MB EB L12 LT EM.
  pose proof (enc_message_bytes m mx b WM MB EM) as BO.
  destruct (truncated_shape m mx body b WM EB L12 LT EM) as (h & EH & -> & LH & _ & _).
  destruct WM as (WH & WQ & WA & WN & WD).
  destruct (header_decodes (m_hdr m) 1 _ _ _ _ h (takeN (mx - 12) body) WH ltac:(lia) EH) as [DM _]. rewrite DM. clear DM.
  set (M := h ++ takeN (mx - 12) body) in *.
  destruct m as [hd qs an ns ad]. cbn [m_hdr m_queries m_answers m_authority m_additional] in *.
  unfold enc_body in EB. cbn [m_queries m_answers m_authority m_additional] in EB.
  destruct (enc_list enc_query qs 12 []) as [[s1 dq]|] eqn:S1; [|discriminate].
  destruct (enc_list enc_rr an (12 + blen s1) dq) as [[s2 da]|] eqn:S2; [|discriminate].
  destruct (enc_list enc_rr ns (12 + blen s1 + blen s2) da) as [[s3 dn]|] eqn:S3; [|discriminate].
  destruct (enc_list enc_rr ad (12 + blen s1 + blen s2 + blen s3) dn) as [[s4 dd]|] eqn:S4; [|discriminate].
  assert (body = s1 ++ s2 ++ s3 ++ s4) by congruence. subst body. clear EB.
  assert (cut_ M 12 (s1 ++ s2 ++ s3 ++ s4)) as C.
  { exists h, (mx - 12). repeat split; auto. lia. }
  unfold after_header. unfold blen at 1. rewrite Nnat.Nat2N.id.
  apply cut_app in C as [C1|[A1 C]].
  { (* cut inside the queries *)
    destruct (list_cut M wf_query enc_query dec_query (query_ok M BO) (query_cut M BO) qs 12 [] s1 dq [] WQ S1 C1
                (dict_inv_nil M 12)) as (k & p' & K & R).
    rewrite R. cbn [obind app]. exists k, 0%nat, 0%nat, 0%nat. cbn [firstn]. split; [reflexivity|].
    repeat split; auto. }
  destruct (list_ok M wf_query enc_query dec_query (query_ok M BO) qs 12 [] s1 dq [] WQ S1 A1 (dict_inv_nil M 12)) as [R1 I1].
  rewrite R1. cbn [obind app]. unfold dec_section at 1. unfold blen at 1. rewrite Nnat.Nat2N.id.
  apply cut_app in C as [C2|[A2 C]].
  { destruct (list_cut M wf_rr enc_rr dec_rr (rr_ok M BO) (rr_cut M BO) an (12 + blen s1) dq s2 da [] WA S2 C2 I1)
      as (k & p' & K & R).
    rewrite R. cbn [obind app]. unfold dec_section. cbn [obind].
    exists (length qs), k, 0%nat, 0%nat. rewrite firstn_all'. cbn [firstn]. split; [reflexivity|].
    repeat split; auto; lia. }
  destruct (list_ok M wf_rr enc_rr dec_rr (rr_ok M BO) an (12 + blen s1) dq s2 da [] WA S2 A2 I1) as [R2 I2].
  rewrite R2. cbn [obind app]. unfold dec_section at 1. unfold blen at 1. rewrite Nnat.Nat2N.id.
  apply cut_app in C as [C3|[A3 C]].
  { destruct (list_cut M wf_rr enc_rr dec_rr (rr_ok M BO) (rr_cut M BO) ns (12 + blen s1 + blen s2) da s3 dn [] WN S3 C3 I2)
      as (k & p' & K & R).
    rewrite R. cbn [obind app]. unfold dec_section. cbn [obind].
    exists (length qs), (length an), k, 0%nat. rewrite !firstn_all'. cbn [firstn]. split; [reflexivity|].
    repeat split; auto; lia. }
  destruct (list_ok M wf_rr enc_rr dec_rr (rr_ok M BO) ns (12 + blen s1 + blen s2) da s3 dn [] WN S3 A3 I2) as [R3 I3].
  rewrite R3. cbn [obind app]. unfold dec_section at 1. unfold blen at 1. rewrite Nnat.Nat2N.id.
  destruct (list_cut M wf_rr enc_rr dec_rr (rr_ok M BO) (rr_cut M BO) ad (12 + blen s1 + blen s2 + blen s3) dn s4 dd [] WD S4 C I3)
    as (k & p' & K & R).
  rewrite R. cbn [obind app].
  exists (length qs), (length an), (length ns), k. rewrite !firstn_all'. split; [reflexivity|].
  repeat split; auto; lia.
Qed.

(** both halves together *)
Theorem truncated_full m mx body b :
  wf_message m -> message_bytes m -> enc_body m = Ok body -> 12 <= mx -> mx < blen body + 12 ->
  enc_message m mx = Ok b ->
  blen b = mx /\
  exists k1 k2 k3 k4,
    dec_message b = Done (mkM (set_trunc (m_hdr m) 1) (firstn k1 (m_queries m)) (firstn k2 (m_answers m))
                              (firstn k3 (m_authority m)) (firstn k4 (m_additional m)))
    /\ ((k1 < length (m_queries m))%nat -> k2 = 0%nat /\ k3 = 0%nat /\ k4 = 0%nat)
    /\ ((k2 < length (m_answers m))%nat -> k3 = 0%nat /\ k4 = 0%nat)
    /\ ((k3 < length (m_authority m))%nat -> k4 = 0%nat)
    /\ ((k1 < length (m_queries m))%nat \/ (k2 < length (m_answers m))%nat \/ (k3 < length (m_authority m))%nat
        \/ (k4 < length (m_additional m))%nat).
Proof.
  intros WM MB EB L12 LT EM. split.
  - destruct (truncated_shape m mx body b WM EB L12 LT EM) as (h & _ & _ & _ & L & _). exact L.
  - exact (truncated_decodes_prefix m mx body b WM MB EB L12 LT EM).
Qed.
