(** C32, part 1: what is on the wire ([at_]), the RFC 1035 shape of a (compressed) name in a
    message ([nbe]), Name.decode reads it, Name.encode (repaired) writes it. *)
From Coq Require Import List NArith ZArith Bool Lia ZifyBool.
From TwLib Require Import PyInt WireIter WireDns WireDnsTotal.
From C32 Require Import Model.
Import ListNotations.
Open Scope N_scope.

(** ------------------------------------------------------------------ bytes at a position --- *)

Lemma at_app_l M p x y : at_ M p (x ++ y) -> at_ M p x.
Proof. intros (pre & post & -> & L). exists pre, (y ++ post). now rewrite <- app_assoc. Qed.

Lemma at_app_r M p x y : at_ M p (x ++ y) -> at_ M (p + blen x) y.
Proof.
  intros (pre & post & -> & L). exists (pre ++ x), post. split; [now rewrite <- !app_assoc|].
  rewrite blen_app. lia.
Qed.

Lemma at_cons_r M p b x : at_ M p (b :: x) -> at_ M (p + 1) x.
Proof. intros H. change (b :: x) with ([b] ++ x) in H. apply at_app_r in H. exact H. Qed.

Lemma slice_at M p x : at_ M p x -> slice M p (blen x) = x.
Proof.
  intros (pre & post & -> & <-). unfold slice. rewrite dropN_app_exact. apply takeN_app_exact.
Qed.

Lemma readp_at M p x : at_ M p x -> readp M p (blen x) = Done (x, p + blen x).
Proof.
  intros H. unfold readp. rewrite (slice_at M p x H).
  destruct (blen x <? blen x) eqn:E; [lia|reflexivity].
Qed.

Lemma readp_at' M p x l : at_ M p x -> l = blen x -> readp M p l = Done (x, p + l).
Proof. intros H ->. now apply readp_at. Qed.

Lemma read1_at M p b x : at_ M p (b :: x) -> read1 M p = Done (b, p + 1).
Proof.
  intros (pre & post & -> & <-). unfold read1. rewrite dropN_app_exact. reflexivity.
Qed.

Lemma read_u_at M p k n : at_ M p (to_be k n) -> n < 256 ^ N.of_nat k -> read_u M p k = Done (n, p + N.of_nat k).
Proof.
  intros H L. unfold read_u.
  rewrite (readp_at' M p (to_be k n) (N.of_nat k) H) by (now rewrite blen_to_be).
  cbn [obind]. now rewrite from_be_to_be_small.
Qed.

(** ------------------------------------------------------------------ names on the wire --- *)

Lemma nbe_bound_mono M b p ls q : nbe M b p ls q -> forall b', b <= b' -> nbe M b' p ls q.
Proof.
  induction 1 as [b p A|b p l ls q W A _ IH|b p t ls q' NE T14 TB A H _]; intros b' L.
  - now constructor.
  - constructor; auto.
  - econstructor; eauto. lia.
Qed.

(** pointer bytes: 0xC000 | t for t < 2^14 *)
Definition ptr_ok (t : N) : bool :=
  let v := N.lor 49152 t in
  let b := to_be 2 v in
  match b with
  | [b1; b2] => (N.shiftr b1 6 =? 3) && negb (b1 =? 0) && (N.lor (N.shiftl (N.land b1 63) 8) b2 =? t) && (v <? 65536)
  | _ => false
  end.

Lemma ptr_ok_all : forallb ptr_ok (map N.of_nat (seq 0 (N.to_nat 16384))) = true.
Proof. vm_compute. reflexivity. Qed.

Lemma ptr_bytes t : t < 16384 ->
  exists b1 b2, to_be 2 (N.lor 49152 t) = [b1; b2] /\ N.shiftr b1 6 = 3 /\ b1 <> 0
                /\ N.lor (N.shiftl (N.land b1 63) 8) b2 = t /\ N.lor 49152 t < 65536.
Proof.
  intros L. pose proof ptr_ok_all as A. rewrite forallb_forall in A.
  specialize (A t). assert (In t (map N.of_nat (seq 0 (N.to_nat 16384)))) as I.
  { apply in_map_iff. exists (N.to_nat t). split; [lia|]. apply in_seq. lia. }
  specialize (A I). unfold ptr_ok in A.
  destruct (to_be 2 (N.lor 49152 t)) as [|b1 [|b2 [|]]]; try discriminate.
  exists b1, b2. repeat (apply andb_true_iff in A as [A ?]).
  repeat split; try lia; try reflexivity.
Qed.

(** Name.decode on a well-shaped name *)
Definition fin (off q : N) : N := if 0 <? off then off else q.

Lemma label_len_not_ptr n : 1 <= n <= 63 -> (n =? 0) = false /\ (N.shiftr n 6 =? 3) = false.
Proof.
  intros H. split; [lia|]. rewrite N.shiftr_div_pow2. change (2 ^ 6) with 64.
  assert (n / 64 = 0) by (apply N.div_small; lia). lia.
Qed.

Lemma name_run M b p ls q : nbe M b p ls q ->
  forall vis acc off, (forall v, In v vis -> b <= v) ->
  exists n, iter_nat (name_step M) n (mkN p vis acc off) = inr (Done (acc ++ ls, fin off q)).
Proof.
  induction 1 as [b p A|b p l ls q W A _ IH|b p t ls q' NE T14 TB A _ IH]; intros vis acc off HV.
  - exists 1%nat. cbn [iter_nat]. unfold name_step. cbn [n_pos n_acc n_off].
    rewrite (read1_at M p 0 [] A). cbn [N.eqb]. now rewrite app_nil_r.
  - destruct (IH vis (acc ++ [l]) off HV) as [n E]. exists (S n). cbn [iter_nat].
    unfold name_step at 1. cbn [n_pos n_acc n_off n_vis].
    rewrite (read1_at M p (blen l) l A).
    destruct (label_len_not_ptr (blen l) W) as [Z P]. rewrite Z, P.
    rewrite (readp_at M (p + 1) l (at_cons_r _ _ _ _ A)).
    rewrite E. now rewrite <- app_assoc.
  - destruct (ptr_bytes t T14) as (b1 & b2 & PB & SH & NZ & LO & _). rewrite PB in A.
    assert (~ In t vis) as NI by (intros I; specialize (HV t I); lia).
    destruct (IH (t :: vis) acc (if off =? 0 then p + 2 else off)) as [n E].
    { intros v [<-|Hv]; [lia|]. specialize (HV v Hv). lia. }
    exists (S n). cbn [iter_nat]. unfold name_step at 1. cbn [n_pos n_acc n_off n_vis].
    rewrite (read1_at M p b1 [b2] A).
    replace (b1 =? 0) with false by lia. rewrite SH. cbn [N.eqb Pos.eqb].
    rewrite (read1_at M (p + 1) b2 [] (at_cons_r _ _ _ _ A)). rewrite LO.
    replace (existsb (N.eqb t) vis) with false.
    2:{ symmetry. apply not_true_is_false. intros T. apply existsb_exists in T as (x & Ix & Ex).
        apply N.eqb_eq in Ex. subst. contradiction. }
    replace (p + 1 + 1) with (p + 2) by lia. rewrite E. f_equal. f_equal. f_equal.
    unfold fin. destruct (off =? 0) eqn:O.
    + replace (0 <? off) with false by lia. replace (0 <? p + 2) with true by lia. reflexivity.
    + replace (0 <? off) with true by lia. reflexivity.
Qed.

Lemma dec_name_nbe M p ls q : bytes_ok M -> nbe M p p ls q -> dec_name M p = Done (ls, q).
Proof.
  intros BO H. destruct (name_run M p p ls q H [] [] 0) as [n E]; [intros v []|].
  cbn [app] in E. unfold fin in E. cbn in E. eapply dec_name_of_run; eauto.
Qed.

(** ------------------------------------------------------------------ the compression dictionary --- *)

Lemma dict_inv_nil M pos : dict_inv M pos [].
Proof. intros k off []. Qed.

Lemma dict_inv_mono M p p' d : dict_inv M p d -> p <= p' -> dict_inv M p' d.
Proof. intros H L k off I. destruct (H k off I) as (A & B & C & D). repeat split; auto; lia. Qed.

Lemma bytes_eqb_eq a : forall b, bytes_eqb a b = true -> a = b.
Proof.
  induction a as [|x a IH]; intros [|y b] H; cbn in H; try discriminate; [reflexivity|].
  apply andb_true_iff in H as [H1 H2]. apply N.eqb_eq in H1. subst. f_equal. now apply IH.
Qed.

Lemma name_eqb_eq a : forall b, name_eqb a b = true -> a = b.
Proof.
  induction a as [|x a IH]; intros [|y b] H; cbn in H; try discriminate; [reflexivity|].
  apply andb_true_iff in H as [H1 H2]. apply bytes_eqb_eq in H1. subst. f_equal. now apply IH.
Qed.

Lemma name_eqb_length a : forall b, name_eqb a b = true -> length a = length b.
Proof. intros b H. apply name_eqb_eq in H. now subst. Qed.

Lemma lookup_In d k off : lookup d k = Some off -> In (k, off) d.
Proof.
  induction d as [|[k' o] r IH]; cbn; [discriminate|].
  destruct (name_eqb k' k) eqn:E.
  - intros H; inversion H; subst. apply name_eqb_eq in E. subst. now left.
  - intros H. right. now apply IH.
Qed.

(** entries whose key is longer than [k] are never hit when looking up [k] *)
Lemma lookup_skip pend d k :
  (forall k' o, In (k', o) pend -> (length k < length k')%nat) -> lookup (pend ++ d) k = lookup d k.
Proof.
  induction pend as [|[k' o] r IH]; intros H; [reflexivity|]. cbn.
  destruct (name_eqb k' k) eqn:E.
  - apply name_eqb_length in E. specialize (H k' o (or_introl eq_refl)). lia.
  - apply IH. intros k'' o' I. apply (H k'' o'). now right.
Qed.

(** ------------------------------------------------------------------ Name.encode writes such a name --- *)

Lemma enc_labels_sound c M s : forall ls pos d pend b d',
  Forall (fun l => 1 <= blen l) ls ->
  enc_labels c ls pos (pend ++ d) = Ok (b, d') ->
  (forall k o, In (k, o) pend -> (length ls < length k)%nat) ->
  dict_inv M s d -> s <= pos -> at_ M pos b ->
  exists added,
    d' = added ++ pend ++ d /\
    nbe M s pos ls (pos + blen b) /\
    (forall k o, In (k, o) added -> o < 16384 /\ s <= o /\ o < pos + blen b /\ k <> [] /\ nbe M s o k (pos + blen b)).
Proof.
  induction ls as [|l r IH]; intros pos d pend b d' NEL E PL DI SP A.
  - cbn in E. inversion E; subst. exists []. split; [reflexivity|]. split; [|intros k o []].
    change (blen [0]) with 1. constructor. exact A.
  - inversion NEL as [|? ? L1 NELr]; subst. cbn [enc_labels] in E.
    destruct (if c then lookup (pend ++ d) (l :: r) else None) as [off|] eqn:LK.
    + (* a compression pointer *)
      destruct c; [|discriminate]. rewrite lookup_skip in LK by exact PL.
      apply lookup_In in LK. destruct (DI _ _ LK) as (O14 & Os & _ & q' & NB).
      destruct (ptr_bytes off O14) as (b1 & b2 & PB & _ & _ & _ & V).
      destruct (N.lor 49152 off <? 65536) eqn:VV; [|lia].
      assert (Eb : b = to_be 2 (N.lor 49152 off)) by congruence.
      assert (Ed : d' = pend ++ d) by congruence. subst b d'. clear E.
      exists []. split; [reflexivity|]. split; [|intros k o []].
      rewrite blen_to_be. change (N.of_nat 2) with 2.
      eapply nbe_ptr with (t := off); eauto; try discriminate; lia.
    + destruct (63 <? blen l) eqn:LL; [discriminate|].
      assert (forall br, at_ M pos ((blen l :: l) ++ br) ->
                at_ M (pos + 1 + blen l) br /\ at_ M pos (blen l :: l)
                /\ pos + blen ((blen l :: l) ++ br) = pos + 1 + blen l + blen br) as FACTS.
      { intros br A'. split; [|split].
        - apply at_app_r in A'. rewrite blen_cons in A'.
          replace (pos + 1 + blen l) with (pos + (1 + blen l)) by lia. exact A'.
        - now apply at_app_l in A'.
        - rewrite blen_app, blen_cons. lia. }
      destruct (c && (pos <? 16384))%bool eqn:CP.
      * (* the suffix is entered into the dictionary (pending until the name is complete) *)
        change ((l :: r, pos) :: pend ++ d) with (((l :: r, pos) :: pend) ++ d) in E.
        destruct (enc_labels c r (pos + 1 + blen l) (((l :: r, pos) :: pend) ++ d)) as [[br d2]|e] eqn:ER; [|discriminate].
        assert (Eb : b = (blen l :: l) ++ br) by congruence. assert (Ed : d' = d2) by congruence. subst b d'. clear E.
        destruct (FACTS br A) as (Ar & Al & BL). rewrite BL.
        destruct (IH (pos + 1 + blen l) d ((l :: r, pos) :: pend) br d2 NELr ER) as (added & D2 & NB & AD); auto; try lia.
        { intros k o [I|I].
          - injection I as <- <-. cbn [length]. apply Nat.lt_succ_diag_r.
          - specialize (PL k o I). cbn [length] in PL. lia. }
        assert (nbe M s pos (l :: r) (pos + 1 + blen l + blen br)) as NBL by (constructor; [lia|exact Al|exact NB]).
        exists (added ++ [(l :: r, pos)]). split; [|split; [exact NBL|]].
        -- rewrite D2. now rewrite <- !app_assoc.
        -- intros k o H. apply in_app_or in H as [I|[I|[]]].
           ++ destruct (AD _ _ I) as (X1 & X2 & X3 & X4 & X5). repeat split; auto; lia.
           ++ inversion I; subst. apply andb_true_iff in CP as [_ CP]. repeat split; auto; try lia. discriminate.
      * destruct (enc_labels c r (pos + 1 + blen l) (pend ++ d)) as [[br d2]|e] eqn:ER; [|discriminate].
        assert (Eb : b = (blen l :: l) ++ br) by congruence. assert (Ed : d' = d2) by congruence. subst b d'. clear E.
        destruct (FACTS br A) as (Ar & Al & BL). rewrite BL.
        destruct (IH (pos + 1 + blen l) d pend br d2 NELr ER) as (added & D2 & NB & AD); auto; try lia.
        { intros k o I. specialize (PL k o I). cbn [length] in PL. lia. }
        exists added. split; [exact D2|]. split; [constructor; [lia|exact Al|exact NB]|].
        intros k o H. destruct (AD _ _ H) as (X1 & X2 & X3 & X4 & X5). repeat split; auto; lia.
Qed.

(** Name.encode at [pos] under a valid dictionary: the name can be read back at [pos], and the
    dictionary stays valid for whatever is written next *)
Lemma enc_name_sound c M ls pos d b d' :
  Forall (fun l => 1 <= blen l) ls ->
  enc_name c ls pos d = Ok (b, d') -> dict_inv M pos d -> at_ M pos b ->
  nbe M pos pos ls (pos + blen b) /\ dict_inv M (pos + blen b) d'.
Proof.
  intros NEL E DI A. unfold enc_name in E. destruct (255 <? wire_len ls); [discriminate|].
  destruct (enc_labels_sound c M pos ls pos d [] b d' NEL E) as (added & D2 & NB & AD); auto; try lia.
  { intros k o []. }
  split; [exact NB|]. subst d'. cbn [app]. intros k o I. apply in_app_or in I as [I|I].
  - destruct (AD _ _ I) as (X1 & X2 & X3 & X4 & X5). repeat split; auto.
    exists (pos + blen b). eapply nbe_bound_mono; eauto.
  - destruct (DI _ _ I) as (X1 & X2 & X3 & X4). repeat split; auto; lia.
Qed.

(** what cannot be represented is refused (the repaired behaviour) *)
Lemma enc_name_refuses_long_name c ls pos d : 255 < wire_len ls -> enc_name c ls pos d = Err ValueError.
Proof. intros H. unfold enc_name. destruct (255 <? wire_len ls) eqn:E; [reflexivity|lia]. Qed.

Lemma enc_labels_refuses_long_label c : forall ls pos d,
  Exists (fun l => 63 < blen l) ls ->
  (forall k o, In (k, o) d -> Forall (fun l => blen l <= 63) k \/ (length ls < length k)%nat) ->
  enc_labels c ls pos d = Err ValueError.
Proof.
  induction ls as [|l r IH]; intros pos d EX DK; [inversion EX|].
  cbn [enc_labels].
  destruct (if c then lookup d (l :: r) else None) as [off|] eqn:LK.
  - exfalso. destruct c; [|discriminate]. apply lookup_In in LK. destruct (DK _ _ LK) as [SH|LN]; [|lia].
    rewrite Exists_exists in EX. destruct EX as (x & Ix & Lx). rewrite Forall_forall in SH. specialize (SH x Ix). lia.
  - destruct (63 <? blen l) eqn:LL; [reflexivity|].
    inversion EX as [? ? Hl|? ? Hr]; subst; [lia|].
    rewrite IH; [reflexivity|exact Hr|].
    intros k o I. destruct (c && (pos <? 16384))%bool.
    + destruct I as [I|I].
      * injection I as <- <-. right. cbn [length]. apply Nat.lt_succ_diag_r.
      * destruct (DK _ _ I) as [SH|LN]; [now left|right]. cbn [length] in LN. apply Nat.lt_trans with (S (length r)); [apply Nat.lt_succ_diag_r|exact LN].
    + destruct (DK _ _ I) as [SH|LN]; [now left|right]. cbn [length] in LN. apply Nat.lt_trans with (S (length r)); [apply Nat.lt_succ_diag_r|exact LN].
Qed.

(** a dictionary that satisfies the invariant holds only names of short labels *)
Lemma nbe_labels_short M b p ls q : nbe M b p ls q -> Forall (fun l => blen l <= 63) ls.
Proof.
  induction 1 as [b p A|b p l ls q W A _ IH|b p t ls q' NE T14 TB A _ IH]; [constructor| |exact IH].
  constructor; [lia|exact IH].
Qed.

Lemma enc_name_refuses_long_label c M ls pos d :
  Exists (fun l => 63 < blen l) ls -> dict_inv M pos d -> enc_name c ls pos d = Err ValueError.
Proof.
  intros EX DI. unfold enc_name. destruct (255 <? wire_len ls); [reflexivity|].
  apply enc_labels_refuses_long_label; [exact EX|].
  intros k o I. left. destruct (DI _ _ I) as (_ & _ & _ & q & NB). eapply nbe_labels_short; eauto.
Qed.
