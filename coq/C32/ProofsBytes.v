(** C32, part 3: the encoders emit bytes when the contents are bytes (so the [bytes_ok] premise of
    the round-trip theorem follows from a condition on the message itself). *)
From Coq Require Import List NArith ZArith Bool Lia ZifyBool.
From TwLib Require Import PyInt WireIter WireDns WireDnsTotal.
From C32 Require Import Model ProofsName ProofsMsg.
Import ListNotations.
Open Scope N_scope.

Lemma bl_app a b : bytes_lt a -> bytes_lt b -> bytes_lt (a ++ b).
Proof. unfold bytes_lt. intros. apply Forall_app. split; assumption. Qed.

Lemma bl_cons x a : x < 256 -> bytes_lt a -> bytes_lt (x :: a).
Proof. unfold bytes_lt. intros. constructor; assumption. Qed.

Lemma bl_nil : bytes_lt [].
Proof. constructor. Qed.

Lemma bl_to_be k n : bytes_lt (to_be k n).
Proof.
  unfold bytes_lt. rewrite Forall_forall. intros x I.
  pose proof (to_be_bytes k n) as B. rewrite forallb_forall in B. specialize (B x I). unfold is_byte in B. lia.
Qed.

Lemma bl_dropN n b : bytes_lt b -> bytes_lt (dropN n b).
Proof. unfold bytes_lt. rewrite !Forall_forall. intros H x I. apply H. eapply dropN_In; eauto. Qed.

Lemma bl_takeN n b : bytes_lt b -> bytes_lt (takeN n b).
Proof. unfold bytes_lt. rewrite !Forall_forall. intros H x I. apply H. eapply takeN_In; eauto. Qed.

Lemma enc_labels_bytes c : forall ls pos d b d', name_bytes ls -> enc_labels c ls pos d = Ok (b, d') -> bytes_lt b.
Proof.
  induction ls as [|l r IH]; intros pos d b d' NB E.
  - cbn in E. assert (b = [0]) by congruence. subst. apply bl_cons; [lia|apply bl_nil].
  - inversion NB as [|? ? Bl Br]; subst. cbn [enc_labels] in E.
    destruct (if c then lookup d (l :: r) else None) as [off|].
    + destruct (N.lor 49152 off <? 65536); [|discriminate].
      assert (b = to_be 2 (N.lor 49152 off)) by congruence. subst. apply bl_to_be.
    + destruct (63 <? blen l) eqn:LL; [discriminate|].
      destruct (enc_labels c r _ _) as [[br d2]|] eqn:ER; [|discriminate].
      assert (b = (blen l :: l) ++ br) by congruence. subst.
      apply bl_app; [apply bl_cons; [lia|exact Bl]|]. eapply IH; eauto.
Qed.

Lemma enc_name_bytes c ls pos d b d' : name_bytes ls -> enc_name c ls pos d = Ok (b, d') -> bytes_lt b.
Proof. unfold enc_name. destruct (255 <? wire_len ls); [discriminate|]. apply enc_labels_bytes. Qed.

Lemma enc_u_bytes k n b : enc_u k n = Ok b -> bytes_lt b.
Proof. intros E. apply enc_u_ok in E as [-> _]. apply bl_to_be. Qed.

Lemma enc_charstrs_bytes l : forall b, Forall bytes_lt l -> enc_charstrs l = Ok b -> bytes_lt b.
Proof.
  induction l as [|x r IH]; intros b F E; cbn [enc_charstrs] in E.
  - assert (b = []) by congruence. subst. apply bl_nil.
  - inversion F; subst. destruct (255 <? blen x) eqn:L; [discriminate|].
    destruct (enc_charstrs r) as [br|] eqn:ER; [|discriminate].
    assert (b = (blen x :: x) ++ br) by congruence. subst.
    apply bl_app; [apply bl_cons; [lia|assumption]|]. now apply IH.
Qed.

Lemma enc_field_bytes t v pos d b d' : fval_bytes v -> enc_field t v pos d = Ok (b, d') -> bytes_lt b.
Proof.
  intros FB E. destruct t; destruct v; cbn [enc_field] in E; try discriminate; cbn [fval_bytes] in FB.
  - destruct (enc_u k n) as [b0|] eqn:EU; [|discriminate]. assert (b = b0) by congruence. subst. eapply enc_u_bytes; eauto.
  - destruct (n <? 18446744073709551616); [|discriminate]. assert (b = dropN 2 (to_be 8 n)) by congruence. subst.
    apply bl_dropN, bl_to_be.
  - destruct (_ && _)%bool; [|discriminate]. assert (b = to_be 4 (Z.to_N (z mod 4294967296))) by congruence. subst.
    apply bl_to_be.
  - eapply enc_name_bytes; eauto.
  - assert (b = b0) by congruence. subst. exact FB.
  - destruct (255 <? blen b0) eqn:L; [discriminate|]. assert (b = blen b0 :: b0) by congruence. subst.
    apply bl_cons; [lia|exact FB].
  - assert (b = b0) by congruence. subst. exact FB.
  - destruct (enc_charstrs l) as [b0|] eqn:EC; [|discriminate]. assert (b = b0) by congruence. subst.
    eapply enc_charstrs_bytes; eauto.
  - destruct (65535 <? blen b0); [discriminate|]. assert (b = to_be 2 (blen b0) ++ b0) by congruence. subst.
    apply bl_app; [apply bl_to_be|exact FB].
  - destruct FB as (P & S & NB). destruct (255 <? plen); [discriminate|].
    set (sfx := if (a6_bytes plen =? 0)%Z then [] else last_bytes (Z.to_N (a6_bytes plen)) suffix) in *.
    assert (bytes_lt sfx) as BS by (unfold sfx; destruct (_ =? _)%Z; [apply bl_nil|apply bl_dropN, S]).
    destruct (plen =? 0).
    + assert (b = [plen] ++ sfx) by congruence. subst. apply bl_app; [apply bl_cons; [exact P|apply bl_nil]|exact BS].
    + destruct (enc_name false prefix _ d) as [[bn dn]|] eqn:EN; [|discriminate].
      assert (b = [plen] ++ sfx ++ bn) by congruence. subst.
      apply bl_app; [apply bl_cons; [exact P|apply bl_nil]|]. apply bl_app; [exact BS|]. eapply enc_name_bytes; eauto.
Qed.

Lemma enc_fields_bytes : forall ts vs pos d b d', Forall fval_bytes vs -> enc_fields ts vs pos d = Ok (b, d') -> bytes_lt b.
Proof.
  induction ts as [|t r IH]; intros vs pos d b d' F E; destruct vs as [|v vr]; cbn [enc_fields] in E; try discriminate.
  - assert (b = []) by congruence. subst. apply bl_nil.
  - inversion F; subst. destruct (enc_field t v pos d) as [[bt d1]|] eqn:ET; [|discriminate].
    destruct (enc_fields r vr _ d1) as [[br d2]|] eqn:ER; [|discriminate].
    assert (b = bt ++ br) by congruence. subst. apply bl_app; [eapply enc_field_bytes; eauto|eapply IH; eauto].
Qed.

Lemma enc_rr_bytes r pos d b d' : rr_bytes r -> enc_rr r pos d = Ok (b, d') -> bytes_lt b.
Proof.
  intros [NB FB] E. unfold enc_rr in E.
  destruct (enc_name true (r_name r) pos d) as [[bn d1]|] eqn:EN; [|discriminate].
  destruct (enc_u 2 (r_type r)) as [bt|] eqn:E1; [|discriminate].
  destruct (enc_u 2 (r_cls r)) as [bc|] eqn:E2; [|discriminate].
  destruct (enc_u 4 (r_ttl r)) as [bl|] eqn:E3; [|discriminate].
  destruct (enc_fields _ _ _ d1) as [[pl d2]|] eqn:EF; [|discriminate].
  destruct (enc_u 2 (blen pl)) as [rl|] eqn:E4; [|discriminate].
  assert (b = bn ++ bt ++ bc ++ bl ++ rl ++ pl) by congruence. subst.
  repeat apply bl_app; try (eapply enc_u_bytes; eauto; fail);
    [eapply enc_name_bytes; eauto|eapply enc_fields_bytes; eauto].
Qed.

Lemma enc_query_bytes q pos d b d' : name_bytes (q_name q) -> enc_query q pos d = Ok (b, d') -> bytes_lt b.
Proof.
  intros NB E. unfold enc_query in E.
  destruct (enc_name true (q_name q) pos d) as [[bn d1]|] eqn:EN; [|discriminate].
  destruct (enc_u 2 (q_type q)) as [bt|] eqn:E1; [|discriminate].
  destruct (enc_u 2 (q_cls q)) as [bc|] eqn:E2; [|discriminate].
  assert (b = bn ++ bt ++ bc) by congruence. subst.
  repeat apply bl_app; try (eapply enc_u_bytes; eauto; fail). eapply enc_name_bytes; eauto.
Qed.

Lemma enc_list_bytes {T} (P : T -> Prop) (enc : T -> N -> dict -> res (list N * dict)) :
  (forall x pos d b d', P x -> enc x pos d = Ok (b, d') -> bytes_lt b) ->
  forall l pos d b d', Forall P l -> enc_list enc l pos d = Ok (b, d') -> bytes_lt b.
Proof.
  intros H. induction l as [|x r IH]; intros pos d b d' F E; cbn [enc_list] in E.
  - assert (b = []) by congruence. subst. apply bl_nil.
  - inversion F; subst. destruct (enc x pos d) as [[bx d1]|] eqn:EX; [|discriminate].
    destruct (enc_list enc r _ d1) as [[br d2]|] eqn:ER; [|discriminate].
    assert (b = bx ++ br) by congruence. subst. apply bl_app; [eapply H; eauto|eapply IH; eauto].
Qed.

Lemma enc_body_bytes m body : message_bytes m -> enc_body m = Ok body -> bytes_lt body.
Proof.
  intros (BQ & BA & BN & BD) E. unfold enc_body in E.
  destruct (enc_list enc_query _ 12 []) as [[s1 d1]|] eqn:S1; [|discriminate].
  destruct (enc_list enc_rr (m_answers m) _ d1) as [[s2 d2]|] eqn:S2; [|discriminate].
  destruct (enc_list enc_rr (m_authority m) _ d2) as [[s3 d3]|] eqn:S3; [|discriminate].
  destruct (enc_list enc_rr (m_additional m) _ d3) as [[s4 d4]|] eqn:S4; [|discriminate].
  assert (body = s1 ++ s2 ++ s3 ++ s4) by congruence. subst.
  apply bl_app; [|apply bl_app; [|apply bl_app]].
  - exact (enc_list_bytes (fun q => name_bytes (q_name q)) enc_query enc_query_bytes _ _ _ _ _ BQ S1).
  - exact (enc_list_bytes rr_bytes enc_rr enc_rr_bytes _ _ _ _ _ BA S2).
  - exact (enc_list_bytes rr_bytes enc_rr enc_rr_bytes _ _ _ _ _ BN S3).
  - exact (enc_list_bytes rr_bytes enc_rr enc_rr_bytes _ _ _ _ _ BD S4).
Qed.

Lemma enc_header_bytes hd tr nq nan nns nad h :
  wf_header hd -> tr <= 1 -> enc_header hd tr nq nan nns nad = Ok h -> bytes_lt h.
Proof.
  intros WH T E. unfold enc_header in E.
  destruct (enc_u 2 (h_id hd)) as [bi|] eqn:E1; [|discriminate].
  destruct (enc_u 2 nq) as [bq|] eqn:E2; [|discriminate].
  destruct (enc_u 2 nan) as [ba|] eqn:E3; [|discriminate].
  destruct (enc_u 2 nns) as [bn|] eqn:E4; [|discriminate].
  destruct (enc_u 2 nad) as [bd|] eqn:E5; [|discriminate].
  destruct hd as [id answer opCode auth trunc recDes recAv adata cdis rCode].
  unfold wf_header in WH. cbn [h_id h_answer h_opCode h_auth h_trunc h_recDes h_recAv h_authenticData h_checkingDisabled h_rCode] in *.
  destruct WH as (W1 & W2 & W3 & W4 & W5 & W6 & W7 & W8 & W9).
  fold (byte3_of answer opCode auth tr recDes) in E. fold (byte4_of recAv adata cdis rCode) in E.
  pose proof (flags3 answer opCode auth tr recDes W1 W2 W3 T W5) as F3.
  pose proof (flags4 recAv adata cdis rCode W6 W7 W8 W9) as F4.
  unfold flags3_ok in F3. unfold flags4_ok in F4.
  repeat (apply andb_true_iff in F3 as [F3 ?]). repeat (apply andb_true_iff in F4 as [F4 ?]).
  assert (h = bi ++ [byte3_of answer opCode auth tr recDes; byte4_of recAv adata cdis rCode] ++ bq ++ ba ++ bn ++ bd) by congruence.
  subst. repeat apply bl_app; try (eapply enc_u_bytes; eauto; fail).
  apply bl_cons; [lia|]. apply bl_cons; [lia|apply bl_nil].
Qed.

Lemma enc_message_bytes m mx b : wf_message m -> message_bytes m -> enc_message m mx = Ok b -> bytes_ok b.
Proof.
  intros WM MB E. unfold enc_message in E.
  destruct (enc_body m) as [body|] eqn:EB; [|discriminate].
  pose proof (enc_body_bytes m body MB EB) as BB.
  destruct (enc_header _ _ _ _ _ _) as [h|] eqn:EH; [|discriminate].
  assert (b = h ++ (if (negb (mx =? 0) && (mx <? blen body + 12))%bool then takeN (mx - 12) body else body)) by congruence.
  subst. destruct WM as (WH & _). unfold wf_header in WH.
  apply bl_app.
  - eapply enc_header_bytes; eauto. destruct (_ && _)%bool; [lia|]. destruct WH as (_ & _ & _ & W4 & _). exact W4.
  - destruct (_ && _)%bool; [apply bl_takeN|]; exact BB.
Qed.

(** the round trip, with conditions on the message only *)
Lemma message_roundtrip_closed m mx body b :
  wf_message m -> message_bytes m -> enc_body m = Ok body -> (mx = 0 \/ blen body + 12 <= mx) ->
  enc_message m mx = Ok b -> dec_message b = Done m.
Proof.
  intros W MB EB NT EM. eapply message_roundtrip_lemma; eauto. eapply enc_message_bytes; eauto.
Qed.
