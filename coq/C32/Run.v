(** C32: printers used by the correspondence check only (shared with C33: coq/Lib/WireDnsShow.v). *)
From TwLib Require Export WireDnsShow.
