(** C32: the model is coq/Lib/WireDns.v (shared with C33); this file adds the well-formedness
    predicates the round-trip theorems are stated under.  No proofs here.

    Range conditions that the encoder itself enforces (struct.error / ValueError) are NOT repeated
    here: the theorems assume that encoding succeeded. *)
From Coq Require Import List NArith ZArith Bool.
From TwLib Require Export PyInt WireIter WireDns.
Import ListNotations.
Open Scope N_scope.

(** labels are non-empty (a Name is a dotted byte string: an empty label would end it) *)
Definition name_ok (ls : list label) : Prop := Forall (fun l => 1 <= blen l) ls.

(** a name the wire format can carry: 1..63-byte labels, at most 255 bytes in all (RFC 1035 2.3.4) *)
Definition wf_name (ls : list label) : Prop := Forall (fun l => 1 <= blen l <= 63) ls /\ wire_len ls <= 255.

Definition wf_field (t : fty) (v : fval) : Prop :=
  match t, v with
  | FU _, VU _ => True
  | FU48, VU n => n < 281474976710656                       (* pack("!Q")[2:] drops the top 16 bits *)
  | FS32, VS _ => True
  | FName _, VName ls => name_ok ls
  | FBytes k, VBytes b => blen b = N.of_nat k               (* inet_aton / inet_pton results *)
  | FCharstr, VBytes _ => True
  | FRest _, VBytes _ => True
  | FCharstrs, VList _ => True
  | FLen16, VBytes _ => True
  | FA6, VA6 plen suffix prefix =>
      plen <= 128 /\ blen suffix = 16 /\ name_ok prefix /\ (plen = 0 -> prefix = []) /\
      (* only the low (128 - plen) / 8 bytes of the suffix are carried; the rest must be zero *)
      takeN (16 - Z.to_N (a6_bytes plen)) suffix = repeat 0 (N.to_nat (16 - Z.to_N (a6_bytes plen)))
  | _, _ => False
  end.

Fixpoint wf_fields (ts : list fty) (vs : list fval) : Prop :=
  match ts, vs with
  | [], [] => True
  | t :: tr, v :: vr => wf_field t v /\ wf_fields tr vr
  | _, _ => False
  end.

Definition wf_query (q : query) : Prop := name_ok (q_name q).
Definition wf_rr (r : rr) : Prop := name_ok (r_name r) /\ wf_fields (schema_of (r_type r)) (r_data r).

Definition wf_header (h : header) : Prop :=
  h_answer h <= 1 /\ h_opCode h <= 15 /\ h_auth h <= 1 /\ h_trunc h <= 1 /\ h_recDes h <= 1 /\
  h_recAv h <= 1 /\ h_authenticData h <= 1 /\ h_checkingDisabled h <= 1 /\ h_rCode h <= 15.

Definition wf_message (m : message) : Prop :=
  wf_header (m_hdr m) /\ Forall wf_query (m_queries m) /\ Forall wf_rr (m_answers m)
  /\ Forall wf_rr (m_authority m) /\ Forall wf_rr (m_additional m).

(** ------------------------------------------------------------------ what is on the wire --- *)

(** the bytes [x] sit at offset [p] of the message [M] *)
Definition at_ (M : list N) (p : N) (x : list N) : Prop :=
  exists pre post, M = pre ++ x ++ post /\ blen pre = p.


(** [nbe M b p ls q]: starting at offset [p] of [M] one reads the labels [ls] in RFC 1035 form
    (labels of 1..63 bytes, a final zero byte or a compression pointer to an earlier name whose own
    pointers stay below its start); every pointer met targets an offset below [b]; [q] is where
    the reader continues afterwards (after the zero byte, or after the first pointer). *)
Inductive nbe (M : list N) : N -> N -> list label -> N -> Prop :=
| nbe_end b p : at_ M p [0] -> nbe M b p [] (p + 1)
| nbe_label b p l ls q :
    1 <= blen l <= 63 -> at_ M p (blen l :: l) -> nbe M b (p + 1 + blen l) ls q -> nbe M b p (l :: ls) q
| nbe_ptr b p t ls q' :
    ls <> [] -> t < 16384 -> t < b -> at_ M p (to_be 2 (N.lor 49152 t)) -> nbe M t t ls q' ->
    nbe M b p ls (p + 2).


(** every entry of the compression dictionary points (below 2^14, below the write position) at a
    place of the message where exactly that name suffix can be read *)
Definition dict_inv (M : list N) (pos : N) (d : dict) : Prop :=
  forall k off, In (k, off) d -> off < 16384 /\ off < pos /\ k <> [] /\ exists q, nbe M off off k q.


Definition fixed_size (t : fty) : option N :=
  match t with
  | FU k => Some (N.of_nat k) | FU48 => Some 6 | FS32 => Some 4 | FBytes k => Some (N.of_nat k)
  | _ => None
  end.

(** a schema is usable when a "rest of the rdata" field is the last one and is preceded by
    fixed-size fields adding up to exactly the header size it subtracts; [c] = rdata bytes before *)
Fixpoint rest_ok (c : option N) (ts : list fty) : bool :=
  match ts with
  | [] => true
  | FRest h :: r =>
      match c with Some c0 => (h =? c0) && match r with [] => true | _ => false end | None => false end
  | FCharstrs :: r =>
      match c with Some c0 => (c0 =? 0) && match r with [] => true | _ => false end | None => false end
  | t :: r => rest_ok (match c, fixed_size t with Some c0, Some k => Some (c0 + k) | _, _ => None end) r
  end.


(** ------------------------------------------------------------------ contents made of bytes --- *)

Definition bytes_lt (b : list N) : Prop := Forall (fun x => x < 256) b.
Definition name_bytes (ls : list label) : Prop := Forall bytes_lt ls.

Definition fval_bytes (v : fval) : Prop :=
  match v with
  | VU _ | VS _ => True
  | VName ls => name_bytes ls
  | VBytes b => bytes_lt b
  | VList l => Forall bytes_lt l
  | VA6 p s n => p < 256 /\ bytes_lt s /\ name_bytes n
  end.

Definition rr_bytes (r : rr) : Prop := name_bytes (r_name r) /\ Forall fval_bytes (r_data r).

(** every label, address, string and opaque payload of the message consists of bytes *)
Definition message_bytes (m : message) : Prop :=
  Forall (fun q => name_bytes (q_name q)) (m_queries m) /\ Forall rr_bytes (m_answers m)
  /\ Forall rr_bytes (m_authority m) /\ Forall rr_bytes (m_additional m).

(** the header with its TC bit replaced *)
Definition set_trunc (h : header) (t : N) : header :=
  mkH (h_id h) (h_answer h) (h_opCode h) (h_auth h) t (h_recDes h) (h_recAv h) (h_authenticData h)
      (h_checkingDisabled h) (h_rCode h).

