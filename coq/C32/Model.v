(** C32: the model is coq/Lib/WireDns.v (shared with C33); this file adds the well-formedness
    predicates the round-trip theorems are stated under.  No proofs here. *)
From Coq Require Import List NArith ZArith Bool.
From TwLib Require Export PyInt WireIter WireDns.
Import ListNotations.
Open Scope N_scope.

(** a label of 1 to 63 bytes *)
Definition wf_label (l : label) : Prop := 1 <= blen l <= 63.
(** a name the wire format can carry: 1..63-byte labels, at most 255 bytes in all (RFC 1035 2.3.4) *)
Definition wf_name (ls : list label) : Prop := Forall wf_label ls /\ wire_len ls <= 255.
