(** C32: the model is coq/Lib/WireDns.v (shared with C33); this file adds the well-formedness
    predicates the round-trip theorems are stated under.  No proofs here.

    Range conditions that the encoder itself enforces (struct.error / ValueError) are NOT repeated
    here: the theorems assume that encoding succeeded. *)
From Coq Require Import List NArith ZArith Bool.
From TwLib Require Export PyInt WireIter WireDns.
Import ListNotations.
Open Scope N_scope.

(** labels are non-empty (a Name is a dotted byte string: an empty label would end it) *)
Definition name_ok (ls : list label) : Prop := Forall (fun l => 1 <= blen l) ls.

(** a name the wire format can carry: 1..63-byte labels, at most 255 bytes in all (RFC 1035 2.3.4) *)
Definition wf_name (ls : list label) : Prop := Forall (fun l => 1 <= blen l <= 63) ls /\ wire_len ls <= 255.

Definition wf_field (t : fty) (v : fval) : Prop :=
  match t, v with
  | FU _, VU _ => True
  | FU48, VU n => n < 281474976710656                       (* pack("!Q")[2:] drops the top 16 bits *)
  | FS32, VS _ => True
  | FName _, VName ls => name_ok ls
  | FBytes k, VBytes b => blen b = N.of_nat k               (* inet_aton / inet_pton results *)
  | FCharstr, VBytes _ => True
  | FRest _, VBytes _ => True
  | FCharstrs, VList _ => True
  | FLen16, VBytes _ => True
  | FA6, VA6 plen suffix prefix =>
      plen <= 128 /\ blen suffix = 16 /\ name_ok prefix /\ (plen = 0 -> prefix = []) /\
      (* only the low (128 - plen) / 8 bytes of the suffix are carried; the rest must be zero *)
      takeN (16 - Z.to_N (a6_bytes plen)) suffix = repeat 0 (N.to_nat (16 - Z.to_N (a6_bytes plen)))
  | _, _ => False
  end.

Fixpoint wf_fields (ts : list fty) (vs : list fval) : Prop :=
  match ts, vs with
  | [], [] => True
  | t :: tr, v :: vr => wf_field t v /\ wf_fields tr vr
  | _, _ => False
  end.

Definition wf_query (q : query) : Prop := name_ok (q_name q).
Definition wf_rr (r : rr) : Prop := name_ok (r_name r) /\ wf_fields (schema_of (r_type r)) (r_data r).

Definition wf_header (h : header) : Prop :=
  h_answer h <= 1 /\ h_opCode h <= 15 /\ h_auth h <= 1 /\ h_trunc h <= 1 /\ h_recDes h <= 1 /\
  h_recAv h <= 1 /\ h_authenticData h <= 1 /\ h_checkingDisabled h <= 1 /\ h_rCode h <= 15.

Definition wf_message (m : message) : Prop :=
  wf_header (m_hdr m) /\ Forall wf_query (m_queries m) /\ Forall wf_rr (m_answers m)
  /\ Forall wf_rr (m_authority m) /\ Forall wf_rr (m_additional m).
