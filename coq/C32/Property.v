From C32 Require Import Model.
Theorem placeholder_to_be_replaced : True.
Proof. exact I. Qed.
Print Assumptions placeholder_to_be_replaced.
