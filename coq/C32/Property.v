(** C32 property theorems (nothing else lives here; each is closed by [exact]).

    Model: coq/Lib/WireDns.v (hand-written from twisted/names/dns.py, with the REPAIRED Name.encode of
    fixes/C32-name-encode-limits.patch); definitions used in the statements: coq/C32/Model.v.
    [M] is always the complete message as the decoder sees it; positions are absolute offsets;
    [at_ M p x] = the bytes x sit at offset p of M; [bytes_ok M] = every element is below 256. *)
From Coq Require Import List NArith ZArith Bool.
From TwLib Require Import PyInt WireIter WireDns WireDnsTotal.
From C32 Require Import Model ProofsName ProofsMsg ProofsBytes ProofsTrunc.
Import ListNotations.
Open Scope N_scope.

(** a name written by Name.encode at any position of any message, under ANY state of the compression
    dictionary that satisfies the dictionary invariant, is read back by Name.decode exactly, the
    reader ends right behind it, and the dictionary handed on satisfies the invariant again *)
Theorem name_roundtrip_with_compression :
  forall (M : list N) (compress : bool) (ls : list label) (pos : N) (d : dict) (b : list N) (d' : dict),
  bytes_ok M -> name_ok ls -> enc_name compress ls pos d = Ok (b, d') -> dict_inv M pos d -> at_ M pos b ->
  dec_name M pos = Done (ls, pos + blen b) /\ dict_inv M (pos + blen b) d'.
Proof. intros M c ls pos d b d'. exact (name_roundtrip M c ls pos d b d'). Qed.
Print Assumptions name_roundtrip_with_compression.

(** what the encoder writes for a name is RFC 1035 wire format: labels of 1..63 bytes ended by a zero
    byte or by a pointer below 2^14 to an earlier name ([nbe], Model.v) *)
Theorem encoded_name_is_rfc1035 :
  forall (M : list N) (compress : bool) (ls : list label) (pos : N) (d : dict) (b : list N) (d' : dict),
  name_ok ls -> enc_name compress ls pos d = Ok (b, d') -> dict_inv M pos d -> at_ M pos b ->
  nbe M pos pos ls (pos + blen b).
Proof. intros M c ls pos d b d'. exact (encoded_name_nbe M c ls pos d b d'). Qed.
Print Assumptions encoded_name_is_rfc1035.

(** a name that cannot be represented is refused when encoding (the repaired behaviour): more than
    255 bytes on the wire, or a label of more than 63 bytes *)
Theorem unrepresentable_name_refused :
  forall (M : list N) (compress : bool) (ls : list label) (pos : N) (d : dict),
  (255 < wire_len ls -> enc_name compress ls pos d = Err ValueError) /\
  (Exists (fun l => 63 < blen l) ls -> dict_inv M pos d -> enc_name compress ls pos d = Err ValueError).
Proof. exact refusal. Qed.
Print Assumptions unrepresentable_name_refused.

(** generic, once for all record layouts: a list of fields described by a schema whose "rest of the
    rdata" field (if any) is last and preceded by fixed-size fields ([rest_ok]) decodes to the values
    encoded, given the rdlength of the whole rdata *)
Theorem schema_roundtrip :
  forall (M : list N) (ts : list fty) (vs : list fval) (pos : N) (d : dict) (b : list N) (d' : dict) (rdlen : N),
  bytes_ok M -> wf_fields ts vs -> enc_fields ts vs pos d = Ok (b, d') -> rest_ok (Some 0) ts = true ->
  rdlen = blen b -> at_ M pos b -> dict_inv M pos d ->
  dec_fields M ts pos rdlen = Done (vs, pos + blen b) /\ dict_inv M (pos + blen b) d'.
Proof. exact schema_roundtrip_lemma. Qed.
Print Assumptions schema_roundtrip.

(** every layout in the record table (and UnknownRecord) is such a schema *)
Theorem every_record_schema_is_usable : forall ty : N, rest_ok (Some 0) (schema_of ty) = true.
Proof. exact schema_rest_ok. Qed.
Print Assumptions every_record_schema_is_usable.

(** a resource record (header, rdlength patched in, payload of its type) *)
Theorem rr_roundtrip :
  forall (M : list N) (r : rr) (pos : N) (d : dict) (b : list N) (d' : dict),
  bytes_ok M -> wf_rr r -> enc_rr r pos d = Ok (b, d') -> at_ M pos b -> dict_inv M pos d ->
  dec_rr M pos = Done (r, pos + blen b) /\ dict_inv M (pos + blen b) d'.
Proof. intros M r pos d b d' BO. exact (rr_ok M BO r pos d b d'). Qed.
Print Assumptions rr_roundtrip.

(** a whole message that fits its size limit (maxSize 0 = none): Message.toStr then Message.fromStr
    gives back exactly the message - header flags, queries and the three record sections, with all
    the name compression the encoder applied.  [message_bytes m]: every label, address, string and
    opaque payload consists of bytes (< 256). *)
Theorem message_roundtrip :
  forall (m : message) (maxSize : N) (body b : list N),
  wf_message m -> message_bytes m -> enc_body m = Ok body -> (maxSize = 0 \/ blen body + 12 <= maxSize) ->
  enc_message m maxSize = Ok b ->
  dec_message b = Done m.
Proof. exact message_roundtrip_closed. Qed.
Print Assumptions message_roundtrip.

(** a message larger than its size limit is encoded in exactly maxSize bytes (within the limit), and
    decoding that yields the header of the original with the truncation flag set and a PREFIX of the
    original records: all queries, answers, ... up to some point, nothing after it (k1..k4 count the
    records kept per section; a section that is not complete is followed by empty ones; at least one
    record is missing).  The record that is cut ends the decoding with EOFError, which parseRecords
    turns into "stop here". *)
Theorem truncated_is_prefix_and_flagged :
  forall (m : message) (maxSize : N) (body b : list N),
  wf_message m -> message_bytes m -> enc_body m = Ok body -> 12 <= maxSize -> maxSize < blen body + 12 ->
  enc_message m maxSize = Ok b ->
  blen b = maxSize /\
  exists k1 k2 k3 k4,
    dec_message b = Done (mkM (set_trunc (m_hdr m) 1) (firstn k1 (m_queries m)) (firstn k2 (m_answers m))
                              (firstn k3 (m_authority m)) (firstn k4 (m_additional m)))
    /\ ((k1 < length (m_queries m))%nat -> k2 = 0%nat /\ k3 = 0%nat /\ k4 = 0%nat)
    /\ ((k2 < length (m_answers m))%nat -> k3 = 0%nat /\ k4 = 0%nat)
    /\ ((k3 < length (m_authority m))%nat -> k4 = 0%nat)
    /\ ((k1 < length (m_queries m))%nat \/ (k2 < length (m_answers m))%nat \/ (k3 < length (m_authority m))%nat
        \/ (k4 < length (m_additional m))%nat).
Proof. exact truncated_full. Qed.
Print Assumptions truncated_is_prefix_and_flagged.
