(** C46: printers used by the correspondence check only. *)
From Coq Require Import List NArith String.
From TwLib Require Import Show PyStr.
From C46 Require Import Gen Model.
Import ListNotations.
Local Open Scope string_scope.

Definition show_str (s : list N) : string := show_list show_N s.

Definition show_result (r : pres) : string :=
  match r with
  | PRuntimeError => "ERR"
  | PUnicodeError => "UNI"
  | POk args kw => "A" ++ show_list show_str args ++ "K" ++ show_list (show_pair show_str show_str) kw
  end.

(** inl items: description rendered with the generated quoteStringArgument, then parsed
    inr (q, d): q = texts to quote (printed quoted), d = raw description parsed as is *)
Definition run_show (c : list item + (list (list N) * list N)) : string :=
  match c with
  | inl items => show_str (render quoteStringArgument items) ++ " " ++ show_result (parse (render quoteStringArgument items))
  | inr (qs, d) => show_list show_str (map quoteStringArgument qs) ++ " " ++ show_result (parse d)
  end.
