(** C46 property theorems (nothing else lives here; each is closed by [exact]).
    [quoteStringArgument] is the generated model (Gen.v) of endpoints.quoteStringArgument;
    [tokenize]/[parse] model endpoints._tokenize/_parse; strings are [list N] (code points),
    so every statement holds for all texts over all code points, of any length. *)
From Coq Require Import List NArith.
From TwLib Require Import PyStr.
From C46 Require Import Gen Model Proofs.
Import ListNotations.

(** A description written as ':'-joined arguments, each positional argument [quote t] and each
    keyword argument [quote k ++ "=" ++ quote v] (any number of arguments, any texts, any order;
    keyword NAMES ASCII because they become Python keyword-argument names), parses to exactly the
    positional texts in order and the keyword texts as successive dict updates. *)
Theorem parse_quote_roundtrip : forall items : list item, items <> [] ->
  forallb (fun it => match it with Pos _ => true | Kw k _ => is_ascii k end) items = true ->
  parse (render quoteStringArgument items) = POk (fst (expected items)) (snd (expected items)).
Proof. exact roundtrip. Qed.
Print Assumptions parse_quote_roundtrip.

(** Positional: after ANY description prefix that parses (not necessarily produced by quoting),
    appending ":" and the quoted text adds exactly that text as the next positional argument. *)
Theorem parse_quote_roundtrip_positional : forall (pre t : list N) args kw,
  parse pre = POk args kw ->
  parse (pre ++ COLON :: quoteStringArgument t) = POk (args ++ [t]) kw.
Proof.
  intros pre t args kw H.
  exact (in_context_end pre [Pos t] (args, kw) ltac:(discriminate) eq_refl H).
Qed.
Print Assumptions parse_quote_roundtrip_positional.

(** Keyword: likewise for ":" quote k "=" quote v, any value text, ASCII name. *)
Theorem parse_quote_roundtrip_keyword : forall (pre k v : list N) args kw,
  parse pre = POk args kw -> is_ascii k = true ->
  parse (pre ++ COLON :: quoteStringArgument k ++ [EQUALS] ++ quoteStringArgument v)
  = POk args (kw_set kw k v).
Proof. exact in_context_keyword. Qed.
Print Assumptions parse_quote_roundtrip_keyword.

(** ... and a non-ASCII keyword name is refused (UnicodeEncodeError), never mis-parsed. *)
Theorem non_ascii_keyword_name_refused : forall (pre k v : list N) args kw,
  parse pre = POk args kw -> is_ascii k = false ->
  parse (pre ++ COLON :: quoteStringArgument k ++ [EQUALS] ++ quoteStringArgument v) = PUnicodeError.
Proof. intros pre k v args kw H Hk. exact (non_ascii_key_refused pre k v (args, kw) H Hk). Qed.
Print Assumptions non_ascii_keyword_name_refused.

(** In the middle of a description: whatever text [post] follows after a further ":", the quoted
    arguments contribute exactly themselves and the rest is parsed as if it stood after them. *)
Theorem quoted_arguments_in_any_context : forall (pre : list N) (items : list item) (post : list N) args kw,
  items <> [] ->
  forallb (fun it => match it with Pos _ => true | Kw k _ => is_ascii k end) items = true ->
  parse pre = POk args kw ->
  parse (pre ++ COLON :: render quoteStringArgument items ++ COLON :: post)
  = parse_toks (tokenize post) (fst (fold_left expect_step items (args, kw)))
                               (snd (fold_left expect_step items (args, kw))) [].
Proof. intros pre items post args kw Hne Hwf H. exact (in_context_middle pre items post (args, kw) Hne Hwf H). Qed.
Print Assumptions quoted_arguments_in_any_context.

(** The tokenizer reads a quoted text back as ONE string token carrying the text, in either
    operator state, whatever precedes it in [current] and whatever follows. *)
Theorem quoted_text_is_read_back_verbatim : forall (s ops cur rest : list N),
  ops = [COLON; EQUALS] \/ ops = [COLON] ->
  tokenize_aux ops cur (quoteStringArgument s ++ rest) = tokenize_aux ops (cur ++ s) rest.
Proof. exact tokenize_quoted. Qed.
Print Assumptions quoted_text_is_read_back_verbatim.

Theorem quoted_text_is_one_token : forall s : list N, tokenize (quoteStringArgument s) = [TStr s].
Proof. exact tokenize_quote_single. Qed.
Print Assumptions quoted_text_is_one_token.

Theorem quote_is_injective : forall s t : list N, quoteStringArgument s = quoteStringArgument t -> s = t.
Proof. exact quote_injective. Qed.
Print Assumptions quote_is_injective.

(** Finding F18 (repaired by fixes/C46-quote-equals.patch): with the quoting that escapes only
    backslash and colon the round trip is false ... *)
Theorem unrepaired_quoting_refuted : exists t : list N,
  parse (render quote_unrepaired [Pos [116; 99; 112]%N; Pos t])
  <> POk (fst (expected [Pos [116; 99; 112]%N; Pos t])) (snd (expected [Pos [116; 99; 112]%N; Pos t])).
Proof. exact unrepaired_refuted. Qed.
Print Assumptions unrepaired_quoting_refuted.

(** ... and holds exactly when no positional text and no key contains '=' (values may). *)
Theorem unrepaired_quoting_roundtrip_partial : forall items : list item, items <> [] ->
  forallb (fun it => match it with Pos _ => true | Kw k _ => is_ascii k end) items = true ->
  Forall (fun it => match it with Pos t => ~ In EQUALS t | Kw k _ => ~ In EQUALS k end) items ->
  parse (render quote_unrepaired items) = POk (fst (expected items)) (snd (expected items)).
Proof. exact unrepaired_partial. Qed.
Print Assumptions unrepaired_quoting_roundtrip_partial.
