(** C46: hand-written model of [endpoints._tokenize] and [endpoints._parse] over code points
    ([list N]); the model of [quoteStringArgument] is [Gen.v], regenerated from the source on
    every run.  Also the naive specification of what a description built from quoted arguments
    must parse to. *)
From Coq Require Import List NArith Bool.
From TwLib Require Import PyStr.
Import ListNotations.

Definition COLON : N := 58.
Definition EQUALS : N := 61.
Definition BACKSLASH : N := 92.

(** tokens: (_STRING, s) / (_OP, c); [TErr] marks the point where the generator raises *)
Inductive tok := TStr (s : list N) | TOp (c : N) | TErr.

(** [nextOps = {colon: colon + equals, equals: colon}]; only consulted for a member of [ops] *)
Definition nextOps (n : N) : list N := if N.eqb n COLON then [COLON; EQUALS] else [COLON].
Definition ops0 : list N := [COLON; EQUALS].

(** the generator [_tokenize]: [ops] and [current] are its two state variables; a backslash
    as the very last character makes [next(iterdesc)] raise StopIteration inside the generator,
    which surfaces as RuntimeError in the consumer at that point of the token stream (the
    generator is lazy, so everything yielded before is consumed first) *)
Fixpoint tokenize_aux (ops cur d : list N) : list tok :=
  match d with
  | [] => [TStr cur]
  | n :: r =>
      if mem n ops then TStr cur :: TOp n :: tokenize_aux (nextOps n) [] r
      else if N.eqb n BACKSLASH then
        match r with
        | [] => [TErr]
        | m :: r' => tokenize_aux ops (cur ++ [m]) r'
        end
      else tokenize_aux ops (cur ++ [n]) r
  end.

Definition tokenize (d : list N) : list tok := tokenize_aux ops0 [] d.

(** kwargs: a Python dict as an insertion-ordered association list *)
Definition kwmap := list (list N * list N).

Fixpoint str_eqb (a b : list N) : bool :=
  match a, b with
  | [], [] => true
  | x :: a', y :: b' => N.eqb x y && str_eqb a' b'
  | _, _ => false
  end.

Fixpoint kw_set (kw : kwmap) (k v : list N) : kwmap :=
  match kw with
  | [] => [(k, v)]
  | (k', v') :: r => if str_eqb k' k then (k', v) :: r else (k', v') :: kw_set r k v
  end.

(** [nativeString(key)] on a str is [key.encode("ascii")] as a check: keyword names must be ASCII *)
Definition is_ascii (s : list N) : bool := forallb (fun c => N.ltb c 128) s.

(** result of [_parse]: (args, kwargs), RuntimeError (lone trailing backslash), or
    UnicodeEncodeError (non-ASCII keyword name) *)
Inductive pres := POk (args : list (list N)) (kw : kwmap) | PRuntimeError | PUnicodeError.

(** [add(sofar)]: one string = positional, otherwise key/value.  ([sofar] is never empty when
    [add] runs: every operator token is preceded by a string token; IndexError otherwise, which
    the model maps to PRuntimeError and which is unreachable.) *)
Definition add (sofar : list (list N)) (args : list (list N)) (kw : kwmap) : pres :=
  match sofar with
  | [] => PRuntimeError
  | [a] => POk (args ++ [a]) kw
  | k :: v :: _ => if is_ascii k then POk args (kw_set kw k v) else PUnicodeError
  end.

Fixpoint parse_toks (toks : list tok) (args : list (list N)) (kw : kwmap) (sofar : list (list N)) : pres :=
  match toks with
  | [] => add sofar args kw
  | TErr :: _ => PRuntimeError
  | TStr v :: r => parse_toks r args kw (sofar ++ [v])
  | TOp c :: r =>
      if N.eqb c COLON then
        match add sofar args kw with
        | POk a k => parse_toks r a k []
        | e => e
        end
      else parse_toks r args kw sofar
  end.

Definition parse (d : list N) : pres := parse_toks (tokenize d) [] [] [].

(** -------- specification side -------- *)

(** an argument of a description: positional text, or keyword with key and value *)
Inductive item := Pos (t : list N) | Kw (k v : list N).

(** how a description is written with a quoting function [q]
    (this is exactly [haproxy._parser.unparseEndpoint]'s use of [quoteStringArgument]) *)
Definition render_item (q : list N -> list N) (it : item) : list N :=
  match it with
  | Pos t => q t
  | Kw k v => q k ++ [EQUALS] ++ q v
  end.

Definition render (q : list N -> list N) (items : list item) : list N :=
  py_join [COLON] (map (render_item q) items).

(** keyword names are ASCII (they become Python keyword-argument names) *)
Definition item_wf (it : item) : bool :=
  match it with Pos _ => true | Kw k _ => is_ascii k end.

(** what it must parse to: positional texts in order; keywords as successive dict updates *)
Definition expect_step (st : list (list N) * kwmap) (it : item) : list (list N) * kwmap :=
  match it with
  | Pos t => (fst st ++ [t], snd st)
  | Kw k v => (fst st, kw_set (snd st) k v)
  end.

Definition expected (items : list item) : list (list N) * kwmap :=
  fold_left expect_step items ([], []).

(** the token stream such a description must produce *)
Definition item_toks (it : item) : list tok :=
  match it with
  | Pos t => [TStr t]
  | Kw k v => [TStr k; TOp EQUALS; TStr v]
  end.

Fixpoint items_toks (items : list item) : list tok :=
  match items with
  | [] => []
  | [it] => item_toks it
  | it :: r => item_toks it ++ TOp COLON :: items_toks r
  end.

(** the quoting as it was before the repair of F18 (escapes backslash and colon only);
    kept only to state the refutation of the round-trip for it *)
Definition quote_unrepaired (s : list N) : list N :=
  py_replace [COLON] [BACKSLASH; COLON] (py_replace [BACKSLASH] [BACKSLASH; BACKSLASH] s).
