(** C46 proofs: quoting as a per-character escape; the tokenizer reads an escaped text back as
    one string in any operator state; descriptions built from quoted arguments parse to exactly
    those arguments, at any position and in any context. *)
From Coq Require Import List NArith Bool Arith Lia.
From TwLib Require Import PyStr.
From C46 Require Import Gen Model.
Import ListNotations.

(** ---------------- quoting is a per-character escape ---------------- *)

Definition special (c : N) : bool := N.eqb c BACKSLASH || N.eqb c COLON || N.eqb c EQUALS.
Definition quote_char (c : N) : list N := if special c then [BACKSLASH; c] else [c].

Definition special_old (c : N) : bool := N.eqb c BACKSLASH || N.eqb c COLON.
Definition quote_char_old (c : N) : list N := if special_old c then [BACKSLASH; c] else [c].

Ltac char_cases c :=
  let N1 := fresh "N1" in let N2 := fresh "N2" in let N3 := fresh "N3" in
  destruct (N.eqb_spec c 92) as [->|N1]; [reflexivity|];
  destruct (N.eqb_spec c 58) as [->|N2]; [reflexivity|];
  destruct (N.eqb_spec c 61) as [->|N3]; [reflexivity|];
  apply N.eqb_neq in N1; apply N.eqb_neq in N2; apply N.eqb_neq in N3;
  unfold quote_char, special, quote_char_old, special_old, subst1, BACKSLASH, COLON, EQUALS;
  repeat (progress (cbn [flat_map app orb]; rewrite ?N1, ?N2, ?N3)); reflexivity.

(** (the order of the single-character replacements in the source does not matter to this proof) *)
Lemma quote_is_flat_map : forall s, quoteStringArgument s = flat_map quote_char s.
Proof.
  intros s. unfold quoteStringArgument. cbv zeta.
  rewrite (py_replace_single _ _ s), !replace_single_chain.
  apply flat_map_ext'. intros c. char_cases c.
Qed.

Lemma quote_unrepaired_is_flat_map : forall s, quote_unrepaired s = flat_map quote_char_old s.
Proof.
  intros s. unfold quote_unrepaired.
  rewrite (py_replace_single _ _ s), !replace_single_chain.
  apply flat_map_ext'. intros c. char_cases c.
Qed.

(** ---------------- the tokenizer on an escaped text ---------------- *)

(** the operator states the tokenizer can be in *)
Definition ops_ok (ops : list N) : Prop := ops = [COLON; EQUALS] \/ ops = [COLON].

Lemma ops0_ok : ops_ok ops0.
Proof. left; reflexivity. Qed.

Lemma nextOps_ok : forall n, ops_ok (nextOps n).
Proof. intros n. unfold nextOps. destruct (N.eqb n COLON); [left | right]; reflexivity. Qed.

Lemma ops_ok_no_backslash : forall ops, ops_ok ops -> mem BACKSLASH ops = false.
Proof. intros ops [-> | ->]; reflexivity. Qed.

Lemma ops_ok_colon : forall ops, ops_ok ops -> mem COLON ops = true.
Proof. intros ops [-> | ->]; reflexivity. Qed.

(** generic: every character is either backslash-escaped, or written bare and then it is
    neither the backslash nor an operator of the current state *)
Lemma tokenize_escaped : forall (f : N -> list N) s ops cur rest,
  mem BACKSLASH ops = false ->
  (forall c, In c s -> f c = [BACKSLASH; c] \/ (f c = [c] /\ N.eqb c BACKSLASH = false /\ mem c ops = false)) ->
  tokenize_aux ops cur (flat_map f s ++ rest) = tokenize_aux ops (cur ++ s) rest.
Proof.
  intros f s ops. induction s as [|c s IH]; intros cur rest Hb Hf.
  - cbn. rewrite app_nil_r. reflexivity.
  - cbn [flat_map]. rewrite <- app_assoc.
    assert (Hs : forall c0, In c0 s ->
               f c0 = [BACKSLASH; c0] \/ (f c0 = [c0] /\ N.eqb c0 BACKSLASH = false /\ mem c0 ops = false))
      by (intros c0 Hc0; apply Hf; right; exact Hc0).
    destruct (Hf c (or_introl eq_refl)) as [E | [E [E1 E2]]]; rewrite E.
    + cbn [app tokenize_aux]. rewrite Hb, N.eqb_refl.
      rewrite IH by assumption. rewrite <- app_assoc. reflexivity.
    + cbn [app tokenize_aux]. rewrite E2, E1.
      rewrite IH by assumption. rewrite <- app_assoc. reflexivity.
Qed.

Lemma special_or_plain : forall c ops, ops_ok ops ->
  quote_char c = [BACKSLASH; c] \/ (quote_char c = [c] /\ N.eqb c BACKSLASH = false /\ mem c ops = false).
Proof.
  intros c ops Hok. unfold quote_char, special.
  destruct (N.eqb c BACKSLASH) eqn:E1; [left; reflexivity|].
  destruct (N.eqb c COLON) eqn:E2; [left; reflexivity|].
  destruct (N.eqb c EQUALS) eqn:E3; [left; reflexivity|].
  right. repeat split. destruct Hok as [-> | ->]; cbn [mem]; rewrite ?E2, ?E3; reflexivity.
Qed.

(** an escaped text is read back as itself, appended to [current], in every operator state *)
Lemma tokenize_quoted : forall s ops cur rest, ops_ok ops ->
  tokenize_aux ops cur (quoteStringArgument s ++ rest) = tokenize_aux ops (cur ++ s) rest.
Proof.
  intros s ops cur rest Hok. rewrite quote_is_flat_map.
  apply tokenize_escaped; [apply ops_ok_no_backslash; exact Hok|].
  intros c _. apply special_or_plain. exact Hok.
Qed.

(** one quoted text alone is a single string token carrying the text *)
Lemma tokenize_quote_single : forall s, tokenize (quoteStringArgument s) = [TStr s].
Proof.
  intros s. unfold tokenize.
  rewrite <- (app_nil_r (quoteStringArgument s)), tokenize_quoted by apply ops0_ok.
  reflexivity.
Qed.

(** ---------------- items ---------------- *)

Section WithQuote.
  (** any quoting function that the tokenizer reads back (instantiated with the generated one) *)
  Variable q : list N -> list N.
  Variable P : list N -> Prop.     (* texts allowed where '=' is an operator *)
  Hypothesis q_ok_all : forall s cur rest,
    tokenize_aux [COLON] cur (q s ++ rest) = tokenize_aux [COLON] (cur ++ s) rest.
  Hypothesis q_ok_P : forall s cur rest, P s ->
    tokenize_aux ops0 cur (q s ++ rest) = tokenize_aux ops0 (cur ++ s) rest.

  Definition item_ok (it : item) : Prop :=
    match it with Pos t => P t | Kw k _ => P k end.

  Lemma tokenize_item_end : forall it, item_ok it ->
    tokenize_aux ops0 [] (render_item q it) = item_toks it.
  Proof.
    intros [t | k v] Hok; cbn [render_item item_toks item_ok] in *.
    - rewrite <- (app_nil_r (q t)), q_ok_P by assumption. reflexivity.
    - rewrite q_ok_P by assumption. cbn [app tokenize_aux mem ops0 nextOps].
      change (N.eqb EQUALS COLON) with false. cbn [orb].
      change (N.eqb EQUALS EQUALS) with true. cbn [orb].
      rewrite <- (app_nil_r (q v)), q_ok_all. reflexivity.
  Qed.

  Lemma tokenize_item_colon : forall it rest, item_ok it ->
    tokenize_aux ops0 [] (render_item q it ++ COLON :: rest) =
    item_toks it ++ TOp COLON :: tokenize_aux ops0 [] rest.
  Proof.
    intros [t | k v] rest Hok; cbn [render_item item_toks item_ok] in *.
    - rewrite q_ok_P by assumption. cbn [app tokenize_aux mem ops0 nextOps].
      change (N.eqb COLON COLON) with true. cbn [orb].
      reflexivity.
    - rewrite <- !app_assoc. rewrite q_ok_P by assumption. cbn [app tokenize_aux mem ops0 nextOps].
      change (N.eqb EQUALS COLON) with false. cbn [orb].
      change (N.eqb EQUALS EQUALS) with true. cbn [orb].
      rewrite q_ok_all. cbn [app tokenize_aux mem].
      change (N.eqb COLON COLON) with true. cbn [orb].
      reflexivity.
  Qed.

  Lemma render_cons2 : forall it it2 r,
    render q (it :: it2 :: r) = render_item q it ++ COLON :: render q (it2 :: r).
  Proof. reflexivity. Qed.

  Lemma tokenize_items : forall items, items <> [] -> Forall item_ok items ->
    tokenize_aux ops0 [] (render q items) = items_toks items.
  Proof.
    induction items as [|it r IH]; intros Hne Hall; [contradiction|].
    inversion Hall as [|? ? Hit Hr]; subst.
    destruct r as [|it2 r'].
    - cbn [render map py_join items_toks]. apply tokenize_item_end. exact Hit.
    - rewrite render_cons2, tokenize_item_colon by exact Hit.
      rewrite IH by (try discriminate; exact Hr). reflexivity.
  Qed.

  (** ... followed by more description text after a colon *)
  Lemma tokenize_items_colon : forall items rest, items <> [] -> Forall item_ok items ->
    tokenize_aux ops0 [] (render q items ++ COLON :: rest) =
    items_toks items ++ TOp COLON :: tokenize_aux ops0 [] rest.
  Proof.
    induction items as [|it r IH]; intros rest Hne Hall; [contradiction|].
    inversion Hall as [|? ? Hit Hr]; subst.
    destruct r as [|it2 r'].
    - cbn [render map py_join items_toks]. apply tokenize_item_colon. exact Hit.
    - rewrite render_cons2. rewrite <- app_assoc. cbn [app].
      rewrite tokenize_item_colon by exact Hit.
      rewrite IH by (try discriminate; exact Hr).
      cbn [items_toks]. rewrite <- app_assoc. reflexivity.
  Qed.
End WithQuote.

(** ---------------- the parser on item token streams ---------------- *)

Definition pok (st : list (list N) * kwmap) : pres := POk (fst st) (snd st).

Lemma parse_toks_item : forall it args kw, item_wf it = true ->
  parse_toks (item_toks it) args kw [] = pok (expect_step (args, kw) it).
Proof.
  intros [t | k v] args kw Hwf; cbn [item_wf] in Hwf; [reflexivity|].
  cbn. rewrite Hwf. reflexivity.
Qed.

Lemma parse_toks_item_colon : forall it rest args kw, item_wf it = true ->
  parse_toks (item_toks it ++ TOp COLON :: rest) args kw [] =
  parse_toks rest (fst (expect_step (args, kw) it)) (snd (expect_step (args, kw) it)) [].
Proof.
  intros [t | k v] rest args kw Hwf; cbn [item_wf] in Hwf; [reflexivity|].
  cbn. rewrite Hwf. reflexivity.
Qed.

Definition items_wf (items : list item) : bool := forallb item_wf items.

Lemma parse_toks_items : forall items args kw, items <> [] -> items_wf items = true ->
  parse_toks (items_toks items) args kw [] = pok (fold_left expect_step items (args, kw)).
Proof.
  induction items as [|it r IH]; intros args kw Hne Hwf; [contradiction|].
  cbn [items_wf forallb] in Hwf. apply andb_true_iff in Hwf. destruct Hwf as [Hit Hr].
  destruct r as [|it2 r'].
  - cbn [items_toks fold_left]. apply parse_toks_item. exact Hit.
  - change (items_toks (it :: it2 :: r')) with (item_toks it ++ TOp COLON :: items_toks (it2 :: r')).
    rewrite parse_toks_item_colon by exact Hit. rewrite IH by (try discriminate; exact Hr).
    cbn [fold_left]. destruct (expect_step (args, kw) it); reflexivity.
Qed.

Lemma parse_toks_items_colon : forall items rest args kw, items <> [] -> items_wf items = true ->
  parse_toks (items_toks items ++ TOp COLON :: rest) args kw [] =
  parse_toks rest (fst (fold_left expect_step items (args, kw)))
             (snd (fold_left expect_step items (args, kw))) [].
Proof.
  induction items as [|it r IH]; intros rest args kw Hne Hwf; [contradiction|].
  cbn [items_wf forallb] in Hwf. apply andb_true_iff in Hwf. destruct Hwf as [Hit Hr].
  destruct r as [|it2 r'].
  - cbn [items_toks fold_left]. apply parse_toks_item_colon. exact Hit.
  - change (items_toks (it :: it2 :: r')) with (item_toks it ++ TOp COLON :: items_toks (it2 :: r')).
    rewrite <- app_assoc. cbn [app].
    rewrite parse_toks_item_colon by exact Hit. rewrite IH by (try discriminate; exact Hr).
    cbn [fold_left]. destruct (expect_step (args, kw) it); reflexivity.
Qed.

(** a ':' closes whatever came before it: the parser state after [pre ++ ":"] is the result of
    parsing [pre] alone (errors, raised lazily, propagate) *)
Lemma parse_toks_app_colon : forall tp rest args kw sofar,
  parse_toks (tp ++ TOp COLON :: rest) args kw sofar =
  match parse_toks tp args kw sofar with
  | POk a k => parse_toks rest a k []
  | e => e
  end.
Proof.
  induction tp as [|t tp IH]; intros rest args kw sofar.
  - cbn [app parse_toks]. change (N.eqb COLON COLON) with true. cbn iota. reflexivity.
  - destruct t as [v | c |]; cbn [app parse_toks].
    + apply IH.
    + destruct (N.eqb c COLON).
      * destruct (add sofar args kw) as [a k| |]; [apply IH | reflexivity | reflexivity].
      * apply IH.
    + reflexivity.
Qed.

Lemma parse_toks_err : forall tp args kw sofar a k,
  parse_toks tp args kw sofar = POk a k -> ~ In TErr tp.
Proof.
  induction tp as [|t tp IH]; intros args kw sofar a k H; [intros []|].
  destruct t as [v | c |]; cbn [parse_toks] in H.
  - intros [E | Hin]; [discriminate|]. exact (IH _ _ _ _ _ H Hin).
  - intros [E | Hin]; [discriminate|].
    destruct (N.eqb c COLON).
    + destruct (add sofar args kw) as [a' k'| |]; try discriminate. exact (IH _ _ _ _ _ H Hin).
    + exact (IH _ _ _ _ _ H Hin).
  - discriminate.
Qed.

(** the tokenizer likewise restarts after a ':' (when the prefix does not end in a lone backslash) *)
Lemma tokenize_app_colon_len : forall n pre, length pre <= n -> forall ops cur rest,
  ops_ok ops -> ~ In TErr (tokenize_aux ops cur pre) ->
  tokenize_aux ops cur (pre ++ COLON :: rest) =
  tokenize_aux ops cur pre ++ TOp COLON :: tokenize_aux ops0 [] rest.
Proof.
  induction n as [|n IH]; intros pre Hlen ops cur rest Hok Hne.
  - destruct pre; [|cbn in Hlen; lia].
    cbn [app tokenize_aux]. rewrite (ops_ok_colon _ Hok). reflexivity.
  - destruct pre as [|c pre].
    + cbn [app tokenize_aux]. rewrite (ops_ok_colon _ Hok). reflexivity.
    + cbn [length] in Hlen. cbn [app tokenize_aux] in *.
      destruct (mem c ops) eqn:Em.
      * rewrite (IH pre ltac:(lia) (nextOps c) [] rest (nextOps_ok c)); [reflexivity|].
        intros Hin. apply Hne. right. right. exact Hin.
      * destruct (N.eqb c BACKSLASH) eqn:Eb.
        -- destruct pre as [|m pre']; [exfalso; apply Hne; left; reflexivity|].
           cbn [app]. cbn [length] in Hlen.
           apply (IH pre' ltac:(lia) ops (cur ++ [m]) rest Hok Hne).
        -- apply (IH pre ltac:(lia) ops (cur ++ [c]) rest Hok Hne).
Qed.

Lemma tokenize_app_colon : forall pre rest, ~ In TErr (tokenize pre) ->
  tokenize (pre ++ COLON :: rest) = tokenize pre ++ TOp COLON :: tokenize rest.
Proof.
  intros pre rest H. unfold tokenize in *.
  apply (tokenize_app_colon_len (length pre) pre (le_n _) ops0 [] rest ops0_ok H).
Qed.

(** ---------------- main results ---------------- *)

Lemma q_all : forall s cur rest,
  tokenize_aux [COLON] cur (quoteStringArgument s ++ rest) = tokenize_aux [COLON] (cur ++ s) rest.
Proof. intros. apply tokenize_quoted. right; reflexivity. Qed.

Lemma q_P : forall s cur rest, True ->
  tokenize_aux ops0 cur (quoteStringArgument s ++ rest) = tokenize_aux ops0 (cur ++ s) rest.
Proof. intros. apply tokenize_quoted. apply ops0_ok. Qed.

Lemma all_items_ok : forall items, Forall (item_ok (fun _ => True)) items.
Proof. induction items as [|[t|k v] r IH]; constructor; cbn; auto. Qed.

Lemma tokens_exact : forall items, items <> [] ->
  tokenize (render quoteStringArgument items) = items_toks items.
Proof.
  intros items Hne.
  apply (tokenize_items quoteStringArgument (fun _ => True) q_all q_P items Hne (all_items_ok items)).
Qed.

Lemma roundtrip : forall items, items <> [] -> items_wf items = true ->
  parse (render quoteStringArgument items) = pok (expected items).
Proof.
  intros items Hne Hwf. unfold parse. rewrite (tokens_exact items Hne).
  apply parse_toks_items; assumption.
Qed.

(** in any context: after any description prefix that parses, and before any further text *)
Definition parse_from (st : list (list N) * kwmap) (d : list N) : pres :=
  parse_toks (tokenize d) (fst st) (snd st) [].

Lemma in_context_end : forall pre items st, items <> [] -> items_wf items = true ->
  parse pre = pok st ->
  parse (pre ++ COLON :: render quoteStringArgument items) = pok (fold_left expect_step items st).
Proof.
  intros pre items [a k] Hne Hwf Hpre. unfold parse, pok in *. cbn [fst snd] in Hpre.
  rewrite (tokenize_app_colon pre _ (parse_toks_err _ _ _ _ _ _ Hpre)), (tokens_exact items Hne).
  rewrite parse_toks_app_colon, Hpre. apply parse_toks_items; assumption.
Qed.

Lemma in_context_middle : forall pre items post st, items <> [] -> items_wf items = true ->
  parse pre = pok st ->
  parse (pre ++ COLON :: render quoteStringArgument items ++ COLON :: post)
  = parse_from (fold_left expect_step items st) post.
Proof.
  intros pre items post [a k] Hne Hwf Hpre. unfold parse, parse_from, pok in *. cbn [fst snd] in Hpre.
  rewrite (tokenize_app_colon pre _ (parse_toks_err _ _ _ _ _ _ Hpre)).
  unfold tokenize at 2.
  rewrite (tokenize_items_colon quoteStringArgument (fun _ => True) q_all q_P items post Hne (all_items_ok items)).
  fold (tokenize post).
  rewrite parse_toks_app_colon, Hpre. apply parse_toks_items_colon; assumption.
Qed.

Lemma in_context_keyword : forall (pre k v : list N) args kw,
  parse pre = POk args kw -> is_ascii k = true ->
  parse (pre ++ COLON :: quoteStringArgument k ++ [EQUALS] ++ quoteStringArgument v)
  = POk args (kw_set kw k v).
Proof.
  intros pre k v args kw H Hk.
  refine (in_context_end pre [Kw k v] (args, kw) ltac:(discriminate) _ H).
  cbn. rewrite Hk. reflexivity.
Qed.

(** refusal half: a keyword NAME that is not ASCII is refused with UnicodeEncodeError (names
    become Python keyword-argument names); values and positional texts are unrestricted *)
Lemma non_ascii_key_refused : forall pre k v st, parse pre = pok st -> is_ascii k = false ->
  parse (pre ++ COLON :: quoteStringArgument k ++ [EQUALS] ++ quoteStringArgument v) = PUnicodeError.
Proof.
  intros pre k v [a kw] Hpre Hk. unfold parse, pok in *. cbn [fst snd] in Hpre.
  rewrite (tokenize_app_colon pre _ (parse_toks_err _ _ _ _ _ _ Hpre)).
  change (quoteStringArgument k ++ [EQUALS] ++ quoteStringArgument v)
    with (render quoteStringArgument [Kw k v]).
  rewrite (tokens_exact [Kw k v]) by discriminate.
  rewrite parse_toks_app_colon, Hpre. cbn. rewrite Hk. reflexivity.
Qed.

(** ---------------- the unrepaired quoting (F18) ---------------- *)

Definition no_equals (s : list N) : Prop := ~ In EQUALS s.

Lemma old_all : forall s cur rest,
  tokenize_aux [COLON] cur (quote_unrepaired s ++ rest) = tokenize_aux [COLON] (cur ++ s) rest.
Proof.
  intros. rewrite quote_unrepaired_is_flat_map. apply tokenize_escaped; [reflexivity|].
  intros c _. unfold quote_char_old, special_old.
  destruct (N.eqb c BACKSLASH) eqn:E1; [left; reflexivity|].
  destruct (N.eqb c COLON) eqn:E2; [left; reflexivity|].
  right. repeat split. cbn [mem]. rewrite E2. reflexivity.
Qed.

Lemma old_P : forall s cur rest, no_equals s ->
  tokenize_aux ops0 cur (quote_unrepaired s ++ rest) = tokenize_aux ops0 (cur ++ s) rest.
Proof.
  intros s cur rest Hne. rewrite quote_unrepaired_is_flat_map. apply tokenize_escaped; [reflexivity|].
  intros c Hc. unfold quote_char_old, special_old.
  destruct (N.eqb c BACKSLASH) eqn:E1; [left; reflexivity|].
  destruct (N.eqb c COLON) eqn:E2; [left; reflexivity|].
  right. repeat split. cbn [mem ops0]. rewrite E2.
  destruct (N.eqb c EQUALS) eqn:E3; [|reflexivity].
  apply N.eqb_eq in E3. subst c. contradiction.
Qed.

Lemma unrepaired_partial : forall items, items <> [] -> items_wf items = true ->
  Forall (item_ok no_equals) items ->
  parse (render quote_unrepaired items) = pok (expected items).
Proof.
  intros items Hne Hwf Hall. unfold parse, tokenize.
  rewrite (tokenize_items quote_unrepaired no_equals old_all old_P items Hne Hall).
  apply parse_toks_items; assumption.
Qed.

Lemma unrepaired_refuted : exists t,
  parse (render quote_unrepaired [Pos [116; 99; 112]%N; Pos t])
  <> pok (expected [Pos [116; 99; 112]%N; Pos t]).
Proof. exists [97; 61; 98]%N. vm_compute. discriminate. Qed.

(** quoting is injective (a consequence of the round trip) *)
Lemma quote_injective : forall s t, quoteStringArgument s = quoteStringArgument t -> s = t.
Proof.
  intros s t H. pose proof (tokenize_quote_single s) as Hs. rewrite H, tokenize_quote_single in Hs.
  injection Hs as ->. reflexivity.
Qed.

(** a non-trivial instance: hostile texts in positional, key and value position *)
Example roundtrip_example :
  parse (render quoteStringArgument
           [Pos [116; 99; 112]; Pos [97; 61; 98; 58; 99; 92]; Kw [107; 61] [58; 118; 61; 92; 92; 8364]; Pos []])%N
  = POk [[116; 99; 112]; [97; 61; 98; 58; 99; 92]; []]%N [([107; 61], [58; 118; 61; 92; 92; 8364])]%N.
Proof. vm_compute. reflexivity. Qed.
