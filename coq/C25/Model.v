(** C25 — static.File Range requests (src/twisted/web/static.py: File._parseRangeHeader, _rangeToOffsetAndSize,
    _contentRange, _doSingleRangeRequest, _doMultipleRangeRequest, _setContentHeaders, makeProducer, render_GET;
    SingleRangeStaticProducer / MultipleRangeStaticProducer as "the bytes they write, concatenated").

    Part 1 (Spec): RFC 9110 section 14.1.2 byte-range semantics as a pure function.
    Part 2 (Model): the code, with the REPAIRED behaviour of fixes/C25-suffix-range-clamp.patch (finding F7:
    suffix longer than the file) and fixes/C25-range-strict-integers.patch (int() accepted "+1", "1_0", "--5";
    an empty range set was answered 416).  [range_unrepaired] keeps the pinned arithmetic for the witness.
    No proofs here. *)
From Coq Require Import List NArith ZArith Bool.
From TwLib Require Import HttpRespBytes.
Import ListNotations.
Local Open Scope N_scope.

(** a parsed range-spec: (first-pos, last-pos) / (first-pos, -) / (-, suffix-length) *)
Definition rspec := (option N * option N)%type.

(** what the parser may produce: never (-,-), and first <= last *)
Definition spec_wf (r : rspec) : bool :=
  match r with
  | (Some a, Some b) => a <=? b
  | (Some _, None) => true
  | (None, Some _) => true
  | (None, None) => false
  end.

(** ========================================================================================== *)
(** Part 1: RFC 9110 14.1.2 — the inclusive byte positions selected from a representation of [size] bytes,
    or None if the range-spec is unsatisfiable.  (For an empty representation nothing is satisfiable: there is
    no valid Content-Range for a suffix range of an empty file.) *)
Definition rfc_select (size : N) (r : rspec) : option (N * N) :=
  match r with
  | (Some first, Some last) => if first <? size then Some (first, N.min last (size - 1)) else None
  | (Some first, None) => if first <? size then Some (first, size - 1) else None
  | (None, Some n) => if (0 <? n) && (0 <? size) then Some (size - N.min n size, size - 1) else None
  | (None, None) => None
  end.

(** bytes first..last (inclusive) of the content *)
Definition slice (content : bytes) (first last : N) : bytes :=
  firstn (N.to_nat (last + 1 - first)) (skipn (N.to_nat first) content).

(** ========================================================================================== *)
(** Part 2: the model of the code *)

(** File._rangeToOffsetAndSize (repaired: start = max(0, size - end); N subtraction is exactly that) *)
Definition range_to_offset_size (size : N) (r : rspec) : N * N :=
  let '(start, stop) :=
    match r with
    | (None, Some e) => (size - e, size)
    | (None, None) => (size, size)                    (* not reachable: the parser refuses it *)
    | (Some s, None) => (s, size)
    | (Some s, Some e) => (s, if e <? size then e + 1 else size)
    end in
  if size <=? start then (0, 0) else (start, stop - start).

(** the same function as it is at the pinned commit, over Z (finding F7) *)
Definition range_unrepaired (size : Z) (r : option Z * option Z) : Z * Z :=
  let '(start, stop) :=
    match r with
    | (None, Some e) => (size - e, size)
    | (None, None) => (size, size)
    | (Some s, None) => (s, size)
    | (Some s, Some e) => (s, if e <? size then e + 1 else if size <? e then size else e)
    end%Z in
  if (size <=? start)%Z then (0, 0)%Z else (start, stop - start)%Z.

Definition w_bytes : bytes := [98; 121; 116; 101; 115].                 (* "bytes" *)
Definition w_bytes_sp : bytes := [98; 121; 116; 101; 115; 32].         (* "bytes " *)
Definition w_bytes_star : bytes := [98; 121; 116; 101; 115; 32; 42; 47].   (* "bytes */" *)

(** File._contentRange *)
Definition content_range (size off len : N) : bytes :=
  w_bytes_sp ++ to_dec off ++ [45] ++ to_dec (off + len - 1) ++ [47] ++ to_dec size.
Definition content_range_unsat (size : N) : bytes := w_bytes_star ++ to_dec size.

Record resp := mkR {
  r_code : N;
  r_crange : option bytes;        (* Content-Range *)
  r_clen : bytes;                 (* Content-Length *)
  r_ctype : option bytes;         (* Content-Type *)
  r_body : bytes }.

Definition take_at (content : bytes) (off len : N) : bytes :=
  firstn (N.to_nat len) (skipn (N.to_nat off) content).

(** _doMultipleRangeRequest: separator of one part *)
Definition sep_dashes : bytes := [13; 10; 45; 45].
Definition sep_ctype : bytes := [13; 10; 67; 111; 110; 116; 101; 110; 116; 45; 116; 121; 112; 101; 58; 32].
Definition sep_crange : bytes := [13; 10; 67; 111; 110; 116; 101; 110; 116; 45; 114; 97; 110; 103; 101; 58; 32].
Definition crlfcrlf : bytes := [13; 10; 13; 10].
Definition dashes_crlf : bytes := [45; 45; 13; 10].
Definition mp_prefix : bytes :=
  [109; 117; 108; 116; 105; 112; 97; 114; 116; 47; 98; 121; 116; 101; 114; 97; 110; 103; 101; 115; 59; 32; 98; 111; 117; 110;
   100; 97; 114; 121; 61; 34].                                          (* multipart/byteranges; boundary=, then a double quote *)

Section WithFile.
  Variables (content : bytes) (ctype boundary : bytes).
  Let size := lenN content.

  Definition part_sep (off len : N) : bytes :=
    sep_dashes ++ boundary ++ sep_ctype ++ ctype ++ sep_crange ++ content_range size off len ++ crlfcrlf.
  Definition final_sep : bytes := sep_dashes ++ boundary ++ dashes_crlf.

  (** the satisfiable parts, in request order: (offset, length) *)
  Definition parts (rs : list rspec) : list (N * N) :=
    filter (fun p => negb ((fst p =? 0) && (snd p =? 0))) (map (range_to_offset_size size) rs).

  Definition part_bytes (p : N * N) : bytes := part_sep (fst p) (snd p) ++ take_at content (fst p) (snd p).

  Definition full_response : resp := mkR 200 None (to_dec size) (Some ctype) content.

  (** makeProducer for a GET with the parsed ranges (None = header absent or malformed) *)
  Definition respond (ranges : option (list rspec)) : resp :=
    match ranges with
    | None => full_response
    | Some [r] =>
        let '(off, len) := range_to_offset_size size r in
        if (off =? 0) && (len =? 0)
        then mkR 416 (Some (content_range_unsat size)) (to_dec 0) (Some ctype) []
        else mkR 206 (Some (content_range size off len)) (to_dec len) (Some ctype) (take_at content off len)
    | Some rs =>
        match parts rs with
        | [] => mkR 416 (Some (content_range_unsat size)) (to_dec 0) None []   (* no Content-Type on this path *)
        | ps =>
            let body := flat_map part_bytes ps ++ final_sep in
            mkR 206 None
                (to_dec (fold_left (fun a p => a + snd p + lenN (part_sep (fst p) (snd p))) ps 0 + lenN final_sep))
                (Some (mp_prefix ++ boundary ++ [34])) body
        end
    end.

  (** render_GET: HEAD ignores Range and sends the headers of the whole file without a body *)
  Definition render (is_head : bool) (ranges : option (list rspec)) : resp :=
    if is_head then mkR 200 None (to_dec size) (Some ctype) [] else respond ranges.
End WithFile.

(** ---------- File._parseRangeHeader (repaired: _decint, non-empty set) ---------- *)

Fixpoint split_on (sep : N) (l : bytes) : list bytes :=          (* bytes.split(sep) *)
  match l with
  | [] => [[]]
  | c :: r => if c =? sep then [] :: split_on sep r
              else match split_on sep r with
                   | h :: t => (c :: h) :: t
                   | [] => [[c]]
                   end
  end.

Definition split_once (sep : N) (l : bytes) : option (bytes * bytes) :=      (* a, b = l.split(sep, 1) *)
  match drop_while (fun c => negb (c =? sep)) l with
  | _ :: b => Some (take_while (fun c => negb (c =? sep)) l, b)
  | [] => None
  end.

Definition is_pyspace (c : N) : bool := ((9 <=? c) && (c <=? 13)) || (c =? 32).          (* bytes.strip() *)
Definition strip_py (l : bytes) : bytes := rev (drop_while is_pyspace (rev (drop_while is_pyspace l))).

(** _abnf._decint: strip SP / HTAB, then 1*DIGIT *)
Definition decint (l : bytes) : option N := of_dec (trim_ows l).

Definition parse_item (it : bytes) : option rspec :=
  match split_once 45 it with
  | None => None
  | Some (a, b) =>
      let start := match a with [] => Some None | _ => option_map Some (decint a) end in
      let stop := match b with [] => Some None | _ => option_map Some (decint b) end in
      match start, stop with
      | Some s, Some e => if spec_wf (s, e) then Some (s, e) else None
      | _, _ => None
      end
  end.

Fixpoint parse_items (l : list bytes) : option (list rspec) :=
  match l with
  | [] => Some []
  | it :: r => match parse_item it, parse_items r with
               | Some x, Some xs => Some (x :: xs)
               | _, _ => None
               end
  end.

Definition nonempty (l : bytes) : bool := match l with [] => false | _ => true end.

Definition parse_range_header (h : bytes) : option (list rspec) :=
  match split_once 61 h with
  | None => None
  | Some (kind, value) =>
      if beq (strip_py kind) w_bytes
      then match filter nonempty (map strip_py (split_on 44 value)) with
           | [] => None
           | items => parse_items items
           end
      else None
  end.

(** a request as the check drives it: optional Range header value *)
Definition serve (content ctype boundary : bytes) (is_head : bool) (range : option bytes) : resp :=
  render content ctype boundary is_head
         (match range with None => None | Some h => parse_range_header h end).
