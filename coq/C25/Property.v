(** C25 property theorems: for EVERY file content (hence every size), content type, boundary and every
    well-formed range set.  [rfc_select] is RFC 9110 14.1.2; [respond] / [serve] model static.File with the two
    repairs (fixes/C25-*.patch); [range_unrepaired] is the arithmetic at the pinned commit. *)
From Coq Require Import List NArith ZArith Bool.
From TwLib Require Import HttpRespBytes.
From C25 Require Import Model Proofs.
Import ListNotations.
Local Open Scope N_scope.

(** a single range: 206 with exactly the bytes first..last the RFC selects, Content-Range "bytes first-last/size"
    and Content-Length last+1-first; 416 with "bytes */size" and an empty body when the RFC says unsatisfiable *)
Theorem range_response_matches_rfc : forall (content ctype boundary : bytes) (r : rspec),
  spec_wf r = true ->
  respond content ctype boundary (Some [r]) =
  match rfc_select (lenN content) r with
  | Some (f, l) => mkR 206 (Some (content_range (lenN content) f (l + 1 - f))) (to_dec (l + 1 - f)) (Some ctype)
                       (slice content f l)
  | None => mkR 416 (Some (content_range_unsat (lenN content))) (to_dec 0) (Some ctype) []
  end.
Proof. exact single_range. Qed.
Print Assumptions range_response_matches_rfc.

(** several ranges: 416 if none is satisfiable, else 206 multipart/byteranges whose parts are, in request order,
    exactly the RFC selections of the satisfiable specs, each preceded by its own Content-Range *)
Theorem multi_range_response_matches_rfc : forall (content ctype boundary : bytes) (r1 r2 : rspec) (rs : list rspec),
  Forall (fun r => spec_wf r = true) (r1 :: r2 :: rs) ->
  let ps := flat_map (fun r => match rfc_select (lenN content) r with Some (f, l) => [(f, l + 1 - f)] | None => [] end)
                     (r1 :: r2 :: rs) in
  let resp := respond content ctype boundary (Some (r1 :: r2 :: rs)) in
  match ps with
  | [] => resp = mkR 416 (Some (content_range_unsat (lenN content))) (to_dec 0) None []
  | _ => r_code resp = 206 /\ r_ctype resp = Some (mp_prefix ++ boundary ++ [34]) /\
         r_body resp = flat_map (fun p => part_sep content ctype boundary (fst p) (snd p)
                                          ++ take_at content (fst p) (snd p)) ps
                       ++ final_sep boundary
  end.
Proof. exact multi_range. Qed.
Print Assumptions multi_range_response_matches_rfc.

(** Content-Length always equals the number of body bytes (200, 206 single, 206 multipart, 416) *)
Theorem content_range_and_length_consistent : forall (content ctype boundary : bytes) (ranges : option (list rspec)),
  Forall (fun r => spec_wf r = true) (match ranges with Some rs => rs | None => [] end) ->
  of_dec (r_clen (respond content ctype boundary ranges))
  = Some (lenN (r_body (respond content ctype boundary ranges))).
Proof. exact content_length_consistent. Qed.
Print Assumptions content_range_and_length_consistent.

(** never an internal error: whatever the range-spec (well-formed or not) the offset and length handed to
    seek / read lie inside the file *)
Theorem never_internal_error : forall (size : N) (r : rspec),
  fst (range_to_offset_size size r) + snd (range_to_offset_size size r) <= size.
Proof. exact offsets_inside. Qed.
Print Assumptions never_internal_error.

(** the arithmetic alone, against the RFC, for every size *)
Theorem offset_and_size_match_rfc : forall (size : N) (r : rspec), spec_wf r = true ->
  match rfc_select size r with
  | Some (first, last) => range_to_offset_size size r = (first, last + 1 - first) /\ first <= last /\ last < size
  | None => range_to_offset_size size r = (0, 0)
  end.
Proof. exact range_matches_rfc. Qed.
Print Assumptions offset_and_size_match_rfc.

(** header absent or malformed: the whole content with 200; HEAD: the whole file's headers and no body *)
Theorem whole_content_when_absent_or_malformed : forall (content ctype boundary : bytes) (range : option bytes),
  (match range with None => True | Some h => parse_range_header h = None end) ->
  serve content ctype boundary false range = mkR 200 None (to_dec (lenN content)) (Some ctype) content /\
  serve content ctype boundary true range = mkR 200 None (to_dec (lenN content)) (Some ctype) [].
Proof. exact whole_content. Qed.
Print Assumptions whole_content_when_absent_or_malformed.

(** what the header parser accepts is a non-empty set of well-formed specs (the hypothesis of the theorems above) *)
Theorem parsed_ranges_are_well_formed : forall (h : bytes) (rs : list rspec),
  parse_range_header h = Some rs -> rs <> [] /\ Forall (fun r => spec_wf r = true) rs.
Proof. exact parse_header_wf. Qed.
Print Assumptions parsed_ranges_are_well_formed.

(** finding F7 (the code before the repair): a suffix longer than the file gives a negative offset *)
Theorem suffix_gt_size_refuted_for_unrepaired_arithmetic :
  exists size r, (fst (range_unrepaired size r) < 0)%Z.
Proof. exact unrepaired_negative_offset. Qed.
Print Assumptions suffix_gt_size_refuted_for_unrepaired_arithmetic.

Example range_example :
  parse_range_header [98; 121; 116; 101; 115; 61; 45; 50; 48; 44; 32; 50; 45; 51] = Some [(None, Some 20); (Some 2, Some 3)] /\
  r_body (serve [1; 2; 3; 4; 5] [116] [66] false (Some [98; 121; 116; 101; 115; 61; 45; 50; 48])) = [1; 2; 3; 4; 5] /\
  r_code (serve [1; 2; 3; 4; 5] [116] [66] false (Some [98; 121; 116; 101; 115; 61; 45; 50; 48])) = 206.
Proof. vm_compute. repeat split. Qed.
