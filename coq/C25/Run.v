(** C25: printers used by the correspondence check only. *)
From Coq Require Import List NArith Bool String.
From TwLib Require Import Show HttpRespBytes.
From C25 Require Import Model.
Import ListNotations.
Local Open Scope string_scope.

Definition hexval (a : Ascii.ascii) : N :=
  let n := Ascii.N_of_ascii a in
  if N.leb 97 n then n - 87 else if N.leb 65 n then n - 55 else n - 48.
Fixpoint hx (s : string) : bytes :=
  match s with
  | String a (String b r) => (hexval a * 16 + hexval b)%N :: hx r
  | _ => []
  end.

(** the test file: byte i of variant v is (i * 7 + 3 + v) mod 251 *)
Definition gen_content_v (n : nat) (v : N) : bytes := map (fun i => N.modulo (N.of_nat i * 7 + 3 + v) 251) (seq 0 n).
Definition gen_content (n : nat) : bytes := gen_content_v n 0.

Definition cksum_with (m i : N) (b : bytes) : N := fold_left (fun a c => N.modulo (a * m + c) 4294967296) b i.
Definition digest (b : bytes) : string :=
  show_N (lenN b) ++ "~" ++ show_N (cksum_with 31 7 b) ++ "~" ++ show_N (cksum_with 16777619 2166136261 b).

Definition w_ctype : bytes := hx "746578742f706c61696e".   (* text/plain *)
Definition w_boundary : bytes := [66%N].                      (* the check rewrites the real boundary to "B" *)

Definition show_resp (r : resp) : string :=
  show_N (r_code r) ++ "|" ++ match r_crange r with None => "-" | Some b => show_hex b end
  ++ "|" ++ show_hex (r_clen r) ++ "|" ++ match r_ctype r with None => "-" | Some b => show_hex b end ++ "|" ++ digest (r_body r).

(** case = (file size, HEAD?, Range header value) *)
Definition run_show (c : nat * bool * option bytes) : string :=
  let '(n, hd, range) := c in
  show_resp (serve (gen_content n) w_ctype w_boundary hd range).

(** a history = several requests against the same File object, the file being rewritten (size, variant) before each:
    every response is a function of the file's content at the time of the request *)
Definition run_seq (l : list (nat * N * bool * option bytes)) : string :=
  String.concat ";;" (map (fun c => let '(n, v, hd, range) := c in
                                    show_resp (serve (gen_content_v n v) w_ctype w_boundary hd range)) l).
