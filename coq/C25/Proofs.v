(** C25 proofs: the code's range arithmetic is RFC 9110 14.1.2 for every size and every well-formed range-spec;
    offsets never leave the file; Content-Length / Content-Range agree with the body; the parser only yields
    well-formed, non-empty sets. *)
From Coq Require Import List NArith ZArith Bool Lia ZifyBool Arith.
From TwLib Require Import HttpRespBytes.
From C25 Require Import Model.
Import ListNotations.
Local Open Scope N_scope.

(** ---------- arithmetic ---------- *)

Lemma range_matches_rfc size r : spec_wf r = true ->
  match rfc_select size r with
  | Some (first, last) => range_to_offset_size size r = (first, last + 1 - first) /\ first <= last /\ last < size
  | None => range_to_offset_size size r = (0, 0)
  end.
Proof.
  destruct r as [[s|] [e|]]; unfold spec_wf, rfc_select, range_to_offset_size; intro H; try discriminate.
  - destruct (s <? size) eqn:E1.
    + destruct (e <? size) eqn:E2; destruct (size <=? s) eqn:E3; try lia;
        (split; [f_equal; lia|lia]).
    + destruct (e <? size) eqn:E2; destruct (size <=? s) eqn:E3; try lia; reflexivity.
  - destruct (s <? size) eqn:E1; destruct (size <=? s) eqn:E3; try lia; [|reflexivity].
    split; [f_equal; lia|lia].
  - destruct ((0 <? e) && (0 <? size)) eqn:E1; destruct (size <=? size - e) eqn:E3; try lia; [|reflexivity].
    split; [f_equal; lia|lia].
Qed.

Lemma offsets_inside size r :
  fst (range_to_offset_size size r) + snd (range_to_offset_size size r) <= size.
Proof.
  destruct r as [[s|] [e|]]; unfold range_to_offset_size;
    repeat match goal with |- context [if ?b then _ else _] => destruct b eqn:? end; cbn [fst snd]; lia.
Qed.

Lemma satisfiable_nonempty size r : spec_wf r = true ->
  range_to_offset_size size r <> (0, 0) -> 0 < snd (range_to_offset_size size r).
Proof.
  intros Hw Hn. pose proof (range_matches_rfc size r Hw) as H.
  destruct (rfc_select size r) as [[f l]|]; [|contradiction].
  destruct H as (E & H1 & H2). rewrite E. cbn [snd]. lia.
Qed.

Lemma unrepaired_negative_offset :
  exists size r, (fst (range_unrepaired size r) < 0)%Z.
Proof. exists 10%Z, (None, Some 20%Z). vm_compute. reflexivity. Qed.

(** ---------- slices ---------- *)

Lemma take_at_len content off len : off + len <= lenN content -> lenN (take_at content off len) = len.
Proof.
  unfold take_at, lenN. intro H. rewrite firstn_length, skipn_length. lia.
Qed.

Lemma take_at_slice content f l : slice content f l = take_at content f (l + 1 - f).
Proof. reflexivity. Qed.

(** ---------- responses ---------- *)

Section WithFile.
  Variables (content ctype boundary : bytes).
  Notation size := (lenN content).

  Lemma of_dec_to_dec n : of_dec (to_dec n) = Some n.
  Proof. apply of_radix_to_radix. left; reflexivity. Qed.

  Lemma single_range r : spec_wf r = true ->
    respond content ctype boundary (Some [r]) =
    match rfc_select size r with
    | Some (f, l) => mkR 206 (Some (content_range size f (l + 1 - f))) (to_dec (l + 1 - f)) (Some ctype) (slice content f l)
    | None => mkR 416 (Some (content_range_unsat size)) (to_dec 0) (Some ctype) []
    end.
  Proof.
    intro Hw. pose proof (range_matches_rfc size r Hw) as H. unfold respond.
    destruct (rfc_select size r) as [[f l]|].
    - destruct H as (E & H1 & H2). rewrite E.
      assert ((f =? 0) && (l + 1 - f =? 0) = false) as -> by lia. reflexivity.
    - rewrite H. reflexivity.
  Qed.

  Lemma parts_valid rs p : In p (parts content rs) -> fst p + snd p <= size.
  Proof.
    unfold parts. intro H. apply filter_In in H as [H _]. apply in_map_iff in H as [r [<- _]].
    apply offsets_inside.
  Qed.

  Lemma parts_body_len ps : (forall p, In p ps -> fst p + snd p <= size) -> forall acc,
    fold_left (fun a p => a + snd p + lenN (part_sep content ctype boundary (fst p) (snd p))) ps acc
    = acc + lenN (flat_map (part_bytes content ctype boundary) ps).
  Proof.
    induction ps as [|p ps IH]; intros Hv acc; cbn [fold_left flat_map].
    - unfold lenN. cbn. lia.
    - rewrite IH by (intros q Hq; apply Hv; right; exact Hq).
      unfold part_bytes at 2. unfold lenN at 3. rewrite !app_length.
      pose proof (take_at_len content (fst p) (snd p) (Hv p (or_introl eq_refl))) as Hl. unfold lenN in *. lia.
  Qed.

  (** Content-Length is the length of the body, for every request the model answers *)
  Lemma content_length_consistent ranges : Forall (fun r => spec_wf r = true) (match ranges with Some rs => rs | None => [] end) ->
    of_dec (r_clen (respond content ctype boundary ranges)) = Some (lenN (r_body (respond content ctype boundary ranges))).
  Proof.
    intro Hw. destruct ranges as [rs|]; [|apply of_dec_to_dec].
    destruct rs as [|r [|r2 rs]].
    - cbn. reflexivity.
    - inversion Hw; subst. rewrite single_range by assumption. pose proof (range_matches_rfc size r H1) as H.
      destruct (rfc_select size r) as [[f l]|]; cbn [r_clen r_body]; rewrite of_dec_to_dec; [|reflexivity].
      destruct H as (E & Ha & Hb). rewrite take_at_slice, take_at_len by lia. reflexivity.
    - unfold respond. destruct (parts content (r :: r2 :: rs)) as [|p ps] eqn:E; [cbn; reflexivity|].
      cbn [r_clen r_body]. rewrite of_dec_to_dec. f_equal.
      rewrite parts_body_len by (intros q Hq; apply (parts_valid (r :: r2 :: rs)); rewrite E; exact Hq).
      unfold lenN. rewrite app_length. lia.
  Qed.

  (** the parts of a multi-range answer are exactly the RFC selections of the satisfiable specs, in order *)
  Lemma parts_are_rfc rs : Forall (fun r => spec_wf r = true) rs ->
    parts content rs =
    flat_map (fun r => match rfc_select size r with Some (f, l) => [(f, l + 1 - f)] | None => [] end) rs.
  Proof.
    unfold parts. induction 1 as [|r rs Hr _ IH]; [reflexivity|]. cbn [map filter flat_map].
    pose proof (range_matches_rfc size r Hr) as H. destruct (rfc_select size r) as [[f l]|].
    - destruct H as (E & Ha & Hb). rewrite E. cbn [fst snd].
      assert ((f =? 0) && (l + 1 - f =? 0) = false) as -> by lia. cbn [negb app]. rewrite IH. reflexivity.
    - rewrite H. cbn. exact IH.
  Qed.

  Lemma multi_range r1 r2 rs : Forall (fun r => spec_wf r = true) (r1 :: r2 :: rs) ->
    let ps := flat_map (fun r => match rfc_select size r with Some (f, l) => [(f, l + 1 - f)] | None => [] end) (r1 :: r2 :: rs) in
    let resp := respond content ctype boundary (Some (r1 :: r2 :: rs)) in
    match ps with
    | [] => resp = mkR 416 (Some (content_range_unsat size)) (to_dec 0) None []
    | _ => r_code resp = 206 /\ r_ctype resp = Some (mp_prefix ++ boundary ++ [34]) /\
           r_body resp = flat_map (fun p => part_sep content ctype boundary (fst p) (snd p) ++ take_at content (fst p) (snd p)) ps
                         ++ final_sep boundary
    end.
  Proof.
    intro Hw. cbv zeta. rewrite <- (parts_are_rfc _ Hw). unfold respond.
    destruct (parts content (r1 :: r2 :: rs)); [reflexivity|]. repeat split.
  Qed.
End WithFile.

(** ---------- the parser ---------- *)

Lemma parse_item_wf it r : parse_item it = Some r -> spec_wf r = true.
Proof.
  unfold parse_item. destruct (split_once 45 it) as [[a b]|]; [|discriminate].
  destruct (match a with [] => Some None | _ => option_map Some (decint a) end) as [s|]; [|discriminate].
  destruct (match b with [] => Some None | _ => option_map Some (decint b) end) as [e|]; [|discriminate].
  destruct (spec_wf (s, e)) eqn:E; [|discriminate]. intro H; inversion H; subst. exact E.
Qed.

Lemma parse_items_wf l : forall rs, parse_items l = Some rs -> Forall (fun r => spec_wf r = true) rs /\ length rs = length l.
Proof.
  induction l as [|it l IH]; cbn [parse_items]; intros rs H.
  - inversion H. split; [constructor|reflexivity].
  - destruct (parse_item it) as [x|] eqn:E; [|discriminate]. destruct (parse_items l) as [xs|]; [|discriminate].
    inversion H; subst. destruct (IH _ eq_refl) as [A B]. split; [constructor; [eapply parse_item_wf, E|exact A]|].
    cbn [length]. rewrite B. reflexivity.
Qed.

Lemma parse_header_wf h rs : parse_range_header h = Some rs -> rs <> [] /\ Forall (fun r => spec_wf r = true) rs.
Proof.
  unfold parse_range_header. destruct (split_once 61 h) as [[kind value]|]; [|discriminate].
  destruct (beq (strip_py kind) w_bytes); [|discriminate].
  destruct (filter nonempty (map strip_py (split_on 44 value))) as [|i items] eqn:E; [discriminate|].
  intro H. apply parse_items_wf in H as [A B]. split; [|exact A].
  destruct rs; [discriminate B|discriminate].
Qed.

Lemma whole_content content ctype boundary (range : option bytes) :
  (match range with None => True | Some h => parse_range_header h = None end) ->
  serve content ctype boundary false range = mkR 200 None (to_dec (lenN content)) (Some ctype) content /\
  serve content ctype boundary true range = mkR 200 None (to_dec (lenN content)) (Some ctype) [].
Proof.
  intro H. unfold serve, render. destruct range as [h|]; [rewrite H|]; split; reflexivity.
Qed.
