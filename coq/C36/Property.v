(** C36 property theorems: SSH channel flow control and flush-before-close.

    For EVERY remote max packet rmp >= 1, local window lws, local max packet lmp, initial remote
    window rw and EVERY history [ops] of write / writeExtended / loseConnection calls, of
    WINDOW_ADJUST / DATA / EXTENDED_DATA / CLOSE messages from the peer (any lengths, any order,
    compliant or not) and of conn.adjustWindow(channel, n) calls by the receiving application (any n,
    also beyond localWindowSize).  [run true ...] is the machine with the repaired addWindowBytes
    (fixes/C36-close-before-extbuf-flushed.patch); the last theorem exhibits the defect of the
    pinned code ([run false ...]).  Every prefix of a history is a history, so each statement holds
    at every point between two operations. *)
From Coq Require Import List NArith Bool.
From C36 Require Import Model Witness Proofs.
Import ListNotations.
Local Open Scope N_scope.

(** data and extended-data packets: each carries 1..rmp bytes, and all together never more than the
    window the peer has granted so far (initial window + every WINDOW_ADJUST received) *)
Theorem sent_never_exceeds_window_or_maxpacket : forall hook radj rmp lws lmp rw ops, 0 < rmp ->
  let s := run true hook radj rmp lws lmp (init rw lws) ops in
  sent (log s) <= rw + granted ops /\ Forall (pkt_ok rmp) (log s).
Proof. intros hook radj rmp lws lmp rw ops H. exact (T_window rmp lws lmp hook radj H rw ops). Qed.
Print Assumptions sent_never_exceeds_window_or_maxpacket.

(** [hook] is what the application's startWriting() does synchronously (any list of write / writeExtended calls);
    [hwritten] / [hxwritten] (Model.v) list everything handed to write() / writeExtended() along the history in call
    order, the calls made from inside startWriting() included; with [hook = []] they are [written ops] / [xwritten ops]. *)
Theorem written_without_hook : forall radj rmp lws lmp ops s,
  hwritten true [] radj rmp lws lmp s ops = written ops /\ hxwritten true [] radj rmp lws lmp s ops = xwritten ops.
Proof. intros radj rmp lws lmp ops s. exact (hwritten_no_hook rmp lws lmp [] radj eq_refl ops s). Qed.
Print Assumptions written_without_hook.

(** the re-entrant case: a WINDOW_ADJUST that wakes the application up (channel known to the connection, not writing,
    no close pending) while data is buffered.  Whatever startWriting() writes synchronously is placed BEHIND the
    backlog of its stream: (sent ++ buffered) afterwards = (sent ++ buffered) before ++ the hook's data. *)
Theorem reentrant_writes_go_behind_the_backlog : forall hook radj rmp lws lmp s n, 0 < rmp ->
  lclosed s = false -> live s = true -> writing s = false -> closing s = false ->
  let s' := step true hook radj rmp lws lmp s (RAdjust n) in
  dbytes (log s') ++ buf s' = (dbytes (log s) ++ buf s) ++ hook_w hook /\
  xbytes (log s') ++ flatx (ext s') = (xbytes (log s) ++ flatx (ext s)) ++ hook_x hook.
Proof. intros hook radj rmp lws lmp s n H. exact (T_reentrant rmp lws lmp hook radj H s n). Qed.
Print Assumptions reentrant_writes_go_behind_the_backlog.

(** until CLOSE is sent: what was sent followed by what is still buffered is exactly what was written,
    per stream, in order (extended data as (type, byte) pairs, independent of packet boundaries);
    and as soon as the granted window covers everything written, everything has been sent *)
Theorem streams_complete_in_order_given_window : forall hook radj rmp lws lmp rw ops, 0 < rmp ->
  let s := run true hook radj rmp lws lmp (init rw lws) ops in
  lclosed s = false ->
  let w := hwritten true hook radj rmp lws lmp (init rw lws) ops in
  let x := hxwritten true hook radj rmp lws lmp (init rw lws) ops in
  dbytes (log s) ++ buf s = w /\ xbytes (log s) ++ flatx (ext s) = x /\
  (len w + len x <= rw + granted ops ->
   buf s = [] /\ flatx (ext s) = [] /\ dbytes (log s) = w /\ xbytes (log s) = x).
Proof. intros hook radj rmp lws lmp rw ops H. exact (T_streams rmp lws lmp hook radj H rw ops). Qed.
Print Assumptions streams_complete_in_order_given_window.

(** no window is left unused while anything is buffered *)
Theorem no_window_unused_while_buffered : forall hook radj rmp lws lmp rw ops, 0 < rmp ->
  let s := run true hook radj rmp lws lmp (init rw lws) ops in
  (buf s <> [] \/ ext s <> []) -> rwl s = 0.
Proof. intros hook radj rmp lws lmp rw ops H. exact (T_unused rmp lws lmp hook radj H rw ops). Qed.
Print Assumptions no_window_unused_while_buffered.

(** the operation that makes the channel send CLOSE (other than the peer overrunning our window, which
    closes at once) leaves both buffers empty, and everything ever written has been sent before it *)
Theorem close_only_after_buffers_empty : forall hook radj rmp lws lmp rw ops o, 0 < rmp ->
  let s := run true hook radj rmp lws lmp (init rw lws) ops in
  let s' := step true hook radj rmp lws lmp s o in
  lclosed s = false -> lclosed s' = true -> overruns lmp s o = false ->
  buf s' = [] /\ ext s' = [] /\
  dbytes (log s') = hwritten true hook radj rmp lws lmp (init rw lws) (ops ++ [o]) /\
  xbytes (log s') = hxwritten true hook radj rmp lws lmp (init rw lws) (ops ++ [o]).
Proof. intros hook radj rmp lws lmp rw ops o H. exact (T_close rmp lws lmp hook radj H rw ops o). Qed.
Print Assumptions close_only_after_buffers_empty.

(** CLOSE is sent at most once, and after it no packet of any kind is sent for this channel *)
Theorem close_sent_at_most_once_and_last : forall hook radj rmp lws lmp rw ops o, 0 < rmp ->
  let s := run true hook radj rmp lws lmp (init rw lws) ops in
  closes (log s) = (if lclosed s then 1 else 0)%nat /\
  (lclosed s = true ->
   lclosed (step true hook radj rmp lws lmp s o) = true /\ pkts (log (step true hook radj rmp lws lmp s o)) = pkts (log s)).
Proof. intros hook radj rmp lws lmp rw ops o H. exact (T_once rmp lws lmp hook radj H rw ops o). Qed.
Print Assumptions close_sent_at_most_once_and_last.

(** a requested close is not forgotten: once nothing is buffered, CLOSE has been sent *)
Theorem requested_close_sent_once_flushed : forall hook radj rmp lws lmp rw ops, 0 < rmp ->
  let s := run true hook radj rmp lws lmp (init rw lws) ops in
  closing s = true -> buf s = [] -> ext s = [] -> lclosed s = true.
Proof. intros hook radj rmp lws lmp rw ops H. exact (T_close_sent rmp lws lmp hook radj H rw ops). Qed.
Print Assumptions requested_close_sent_once_flushed.

(** the receiver's window is what the peer computes from the messages it saw (local window + every
    WINDOW_ADJUST we sent, automatic or requested by the application - bytes we accepted), i.e. the
    ADVERTISED total, not anything capped at localWindowSize; hence a packet within that window and the max packet
    size is delivered (after at most one automatic WINDOW_ADJUST, followed by the one the application may send from
    inside dataReceived/extReceived: [radj]), never answered with CLOSE *)
Theorem compliant_peer_never_refused : forall hook radj rmp lws lmp rw ops d, 0 < rmp ->
  let s := run true hook radj rmp lws lmp (init rw lws) ops in
  lwl s + recvd (log s) = lws + adjusted (log s) /\
  (live s = true -> len d <= lmp -> recvd (log s) + len d <= lws + adjusted (log s) ->
   forall cb,
   lclosed (recv_data radj lws lmp s cb d) = lclosed s /\
   exists pre post, log (recv_data radj lws lmp s cb d) = log s ++ pre ++ [cb d] ++ post /\
               pkts pre = pre /\ closes pre = 0%nat /\ (pre = [] \/ exists n, pre = [PAdjust n]) /\
               closes post = 0%nat /\ (post = [] \/ exists n, post = [PAdjust n])).
Proof. intros hook radj rmp lws lmp rw ops d H. exact (T_compliant rmp lws lmp hook radj H rw ops d). Qed.
Print Assumptions compliant_peer_never_refused.

(** Full statement: "while the channel is open the advertised window is never 0, for every local
    window lws >= 1".  False for lws = 1 (refuted below: localWindowSize // 2 = 0, so the window is
    never replenished); proved for lws >= 2. *)
Theorem window_replenished_partial : forall hook radj rmp lws lmp rw ops, 0 < rmp -> 2 <= lws ->
  let s := run true hook radj rmp lws lmp (init rw lws) ops in
  lclosed s = false -> 1 <= lwl s.
Proof. intros hook radj rmp lws lmp rw ops H H2. exact (fun Ho => T_replenish rmp lws lmp hook radj H rw ops H2 Ho). Qed.
Print Assumptions window_replenished_partial.

Theorem window_replenished_refuted : exists rmp lws lmp rw ops,
  0 < rmp /\ 1 <= lws /\
  let s := run true [] None rmp lws lmp (init rw lws) ops in
  lclosed s = false /\ live s = true /\ lwl s = 0 /\ adjusted (log s) = 0 /\
  forall d, d <> [] -> overruns lmp s (RData d) = true.
Proof. exact window_1_stuck. Qed.
Print Assumptions window_replenished_refuted.

(** the pinned addWindowBytes (hold = false): CLOSE goes out while an extBuf entry is still unwritten,
    and that entry is then dropped *)
Theorem pinned_code_closes_before_extbuf_flushed : exists rmp lws lmp rw ops o,
  0 < rmp /\
  let s := run false [] None rmp lws lmp (init rw lws) ops in
  let s' := step false [] None rmp lws lmp s o in
  lclosed s = false /\ lclosed s' = true /\ overruns lmp s o = false /\
  xbytes (log s') <> xwritten (ops ++ [o]) /\
  forall more, xbytes (log (run false [] None rmp lws lmp s' more)) = xbytes (log s').
Proof. exact pinned_witness. Qed.
Print Assumptions pinned_code_closes_before_extbuf_flushed.
