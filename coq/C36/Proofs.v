(** C36: invariants of the channel machine over every history (hold = true: the repaired addWindowBytes). *)
From Coq Require Import List NArith Bool Lia.
From C36 Require Import Model Basics.
Import ListNotations.
Local Open Scope N_scope.

Ltac dest_st s := destruct s as [sb se sr sc slc src slv sw slw slg].
Ltac split_ifs :=
  repeat match goal with
         | |- context [if ?b then _ else _] => destruct b eqn:?
         | |- context [match ?l with [] => _ | _ :: _ => _ end] => destruct l eqn:?
         end.

Lemma fold_send_data cs : forall s,
  fold_left send_data cs s = if lclosed s then s else emits (map PData cs) s.
Proof.
  induction cs as [|c r IH]; intro s; cbn [fold_left map].
  - dest_st s. cbn. destruct slc; [reflexivity|]. unfold emits. cbn. now rewrite app_nil_r.
  - rewrite IH. unfold send_data. dest_st s. cbn. destruct slc; cbn; [reflexivity|].
    unfold emits, emit. cbn. now rewrite <- app_assoc.
Qed.

Lemma fold_send_ext t cs : forall s,
  fold_left (send_ext t) cs s = if lclosed s then s else emits (map (PExt t) cs) s.
Proof.
  induction cs as [|c r IH]; intro s; cbn [fold_left map].
  - dest_st s. cbn. destruct slc; [reflexivity|]. unfold emits. cbn. now rewrite app_nil_r.
  - rewrite IH. unfold send_ext. dest_st s. cbn. destruct slc; cbn; [reflexivity|].
    unfold emits, emit. cbn. now rewrite <- app_assoc.
Qed.

(** ---------- loseConnection / sendClose / channelClosed: what they touch ---------- *)
Definition will_close (s : st) : bool := is_nil (buf s) && is_nil (ext s) && negb (lclosed s).
Definition close_evs (s : st) : list ev :=
  if will_close s then PClose :: (if rclosed s && live s then [CbClosed] else []) else [].

Lemma lose_spec s :
  buf (lose s) = buf s /\ ext (lose s) = ext s /\ rwl (lose s) = rwl s /\ lwl (lose s) = lwl s /\
  closing (lose s) = true /\ rclosed (lose s) = rclosed s /\
  lclosed (lose s) = (lclosed s || (is_nil (buf s) && is_nil (ext s))) /\
  live (lose s) = (live s && negb (will_close s && rclosed s)) /\
  log (lose s) = log s ++ close_evs s.
Proof.
  unfold lose, send_close, channel_closed, close_evs, will_close. dest_st s. cbn.
  destruct sb, se, slc, src, slv; cbn; rewrite ?app_nil_r, <- ?app_assoc; repeat split; reflexivity.
Qed.

Lemma close_evs_reads s :
  dbytes (close_evs s) = [] /\ xbytes (close_evs s) = [] /\ sent (close_evs s) = 0 /\
  recvd (close_evs s) = 0 /\ adjusted (close_evs s) = 0 /\ delivered (close_evs s) = [] /\
  closes (close_evs s) = (if will_close s then 1 else 0)%nat /\ (forall k, Forall (pkt_ok k) (close_evs s)).
Proof.
  unfold close_evs. destruct (will_close s), (rclosed s && live s); cbn; repeat split;
    try reflexivity; intros; repeat constructor.
Qed.

(** ---------- classes of events ---------- *)
Definition sside (e : ev) : Prop :=
  match e with PData _ | PExt _ _ | PClose | CbClosed | CbStop | CbStart => True | _ => False end.
Definition quiet (e : ev) : Prop :=
  match e with CbData _ | CbExt _ _ | CbClosed | CbStop | CbStart | KeyErr => True | _ => False end.
Definition b2n (b : bool) : nat := if b then 1%nat else 0%nat.

Lemma sside_reads es : Forall sside es -> recvd es = 0 /\ adjusted es = 0 /\ delivered es = [].
Proof.
  induction 1 as [|e r He _ IH]; [repeat split; reflexivity|]. destruct IH as (A & B & C).
  destruct e; cbn in He; try contradiction; cbn [recvd adjusted delivered flat_map recvd_ev adj_ev delivered_ev app];
    fold (delivered r); rewrite ?A, ?B, ?C; repeat split; reflexivity.
Qed.

Lemma quiet_reads es : Forall quiet es ->
  dbytes es = [] /\ xbytes es = [] /\ sent es = 0 /\ closes es = 0%nat /\ adjusted es = 0 /\
  (forall k, Forall (pkt_ok k) es).
Proof.
  induction 1 as [|e r He _ IH]; [repeat split; try reflexivity; constructor|].
  destruct IH as (A & B & C & D & E & F).
  destruct e; cbn in He; try contradiction;
    (repeat split; [exact A|exact B|cbn [sent sent_ev]; rewrite C; reflexivity|exact D|
                    cbn [adjusted adj_ev]; rewrite E; reflexivity|intro k; constructor; [exact I|apply F]]).
Qed.

Section P.
  Variables (rmp lws lmp : N).
  Variable hook : list hop.
  Variable radj : option N.
  Hypothesis Hrmp : 0 < rmp.
  Notation write := (write rmp).
  Notation write_ext := (write_ext rmp).
  Notation write_ext_all := (write_ext_all rmp).
  Notation add_window := (add_window true hook rmp).
  Notation run_hook := (run_hook hook rmp).
  Notation recv_data := (recv_data radj lws lmp).
  Notation recv_adjust := (recv_adjust true hook rmp).
  Notation step := (step true hook radj rmp lws lmp).
  Notation run := (run true hook radj rmp lws lmp).
  Notation wdata_at := (wdata_at hook).
  Notation xdata_at := (xdata_at hook).
  Notation hwritten := (hwritten true hook radj rmp lws lmp).
  Notation hxwritten := (hxwritten true hook radj rmp lws lmp).

  (** ---------- the effect every send-side routine has, whatever the state ---------- *)
  Definition lv (s : st) : Prop := live s = false -> lclosed s = true /\ rclosed s = true.

  Record eff (s s' : st) : Prop := {
    e_lwl : lwl s' = lwl s;
    e_rcl : rclosed s' = rclosed s;
    e_mono : lclosed s = true -> lclosed s' = true;
    e_live : lv s -> lv s';
    e_log : exists es, log s' = log s ++ es /\ Forall sside es /\ Forall (pkt_ok rmp) es /\
            (lclosed s = true -> Forall quiet es) /\ (closes es + b2n (lclosed s) = b2n (lclosed s'))%nat }.

  Lemma eff_refl s : eff s s.
  Proof.
    split; auto. exists []. rewrite app_nil_r. repeat split; try constructor.
  Qed.

  Lemma eff_trans a b c : eff a b -> eff b c -> eff a c.
  Proof.
    intros [A1 A2 A3 A4 (e1 & L1 & S1 & P1 & Q1 & C1)] [B1 B2 B3 B4 (e2 & L2 & S2 & P2 & Q2 & C2)].
    split; try congruence; auto.
    exists (e1 ++ e2). rewrite L2, L1, app_assoc. repeat split.
    - apply Forall_app; auto.
    - apply Forall_app; auto.
    - intro H. apply Forall_app; auto.
    - rewrite closes_app. lia.
  Qed.

  (** a state change that touches neither the close flags, lwl nor the log *)
  Lemma eff_same s s' :
    lwl s' = lwl s -> rclosed s' = rclosed s -> lclosed s' = lclosed s -> live s' = live s -> log s' = log s ->
    eff s s'.
  Proof.
    intros A B C D E. split; auto; try congruence.
    - unfold lv. rewrite A || idtac. rewrite B, C, D. auto.
    - exists []. rewrite E, app_nil_r, C. repeat split; try constructor.
  Qed.

  (** ... that only appends send-side, non-packet callbacks *)
  Lemma eff_cb s s' es :
    lwl s' = lwl s -> rclosed s' = rclosed s -> lclosed s' = lclosed s -> live s' = live s ->
    log s' = log s ++ es -> Forall sside es -> Forall quiet es -> eff s s'.
  Proof.
    intros A B C D E S Q. split; auto; try congruence.
    - unfold lv. rewrite B, C, D. auto.
    - exists es. rewrite C. destruct (quiet_reads es Q) as (_ & _ & _ & Cl & _ & Pk).
      repeat split; auto. rewrite Cl. reflexivity.
  Qed.

  Lemma eff_lose s : eff s (lose s).
  Proof.
    destruct (lose_spec s) as (Hb & He & Hr & Hl & Hc & Hrc & Hlc & Hlv & Hlog).
    destruct (close_evs_reads s) as (_ & _ & _ & _ & _ & _ & Cl & Pk).
    split; auto.
    - rewrite Hlc. intros ->. reflexivity.
    - unfold lv. rewrite Hlv, Hlc, Hrc. intros Hpre Hpost.
      destruct (live s) eqn:El; cbn in Hpost.
      + apply negb_false_iff, andb_true_iff in Hpost. destruct Hpost as [W R]. split; [|exact R].
        unfold will_close in W. apply andb_true_iff in W. destruct W as [W _]. rewrite W. apply orb_true_r.
      + destruct (Hpre eq_refl) as [-> ->]. auto.
    - exists (close_evs s). repeat split; auto.
      + unfold close_evs. destruct (will_close s), (rclosed s && live s); repeat constructor.
      + intro H. unfold close_evs, will_close. rewrite H, andb_false_r. constructor.
      + rewrite Cl, Hlc. unfold will_close. destruct (lclosed s), (is_nil (buf s)), (is_nil (ext s)); reflexivity.
  Qed.

  (** ---------- write ---------- *)
  Definition write_core (s : st) (d : bytes) : st :=
    let over := rwl s <? len d in
    let d1 := if over then take (rwl s) d else d in
    let s1 := if over then set_writing false (set_buf (drop (rwl s) d) s) else s in
    let s2 := fold_left send_data (chunks (length d1) rmp d1) s1 in
    let s3 := set_rwl (rwl s2 - len d1) s2 in
    if over then emit CbStop s3 else s3.

  Lemma write_eq s d :
    write s d = match buf s with
                | _ :: _ => set_buf (buf s ++ d) s
                | [] => let s3 := write_core s d in if closing s3 && is_nil (buf s3) then lose s3 else s3
                end.
  Proof. reflexivity. Qed.

  Definition burst (s : st) (mkp : bytes -> ev) (d : bytes) : list ev :=
    (if lclosed s then [] else map mkp (chunks (length (take (rwl s) d)) rmp (take (rwl s) d))) ++
    (if rwl s <? len d then [CbStop] else []).

  Lemma write_core_spec s d : buf s = [] ->
    buf (write_core s d) = drop (rwl s) d /\ ext (write_core s d) = ext s /\
    rwl (write_core s d) = rwl s - len (take (rwl s) d) /\ lwl (write_core s d) = lwl s /\
    closing (write_core s d) = closing s /\ lclosed (write_core s d) = lclosed s /\
    rclosed (write_core s d) = rclosed s /\ live (write_core s d) = live s /\
    log (write_core s d) = log s ++ burst s PData d.
  Proof.
    intro Hb. unfold write_core, burst. rewrite fold_send_data.
    destruct (N.ltb_spec (rwl s) (len d)) as [Ho|Ho].
    - dest_st s. cbn in *. destruct slc; cbn; rewrite <- ?app_assoc; repeat split; reflexivity.
    - rewrite (take_all (rwl s) d Ho).
      assert (drop (rwl s) d = []) as -> by (apply len_0; rewrite len_drop; lia).
      dest_st s. cbn in *. subst sb. destruct slc; cbn; rewrite ?app_nil_r; repeat split; reflexivity.
  Qed.

  Lemma burst_reads s mkp d (Hmk : mkp = PData \/ exists t, mkp = PExt t) :
    Forall sside (burst s mkp d) /\ Forall (pkt_ok rmp) (burst s mkp d) /\
    (lclosed s = true -> Forall quiet (burst s mkp d)) /\ closes (burst s mkp d) = 0%nat /\
    (lclosed s = false -> sent (burst s mkp d) = len (take (rwl s) d)).
  Proof.
    unfold burst. set (cs := chunks _ rmp _).
    assert (Forall (fun c => 1 <= len c /\ len c <= rmp) cs) as Hok by (apply chunks_ok, Hrmp).
    assert (concat cs = take (rwl s) d) as Hcat by (apply concat_chunks; [exact Hrmp|lia]).
    assert (Forall sside (map mkp cs)) as Hs.
    { destruct Hmk as [->|[t ->]]; clear; induction cs; cbn; constructor; auto; exact I. }
    assert (Forall (pkt_ok rmp) (map mkp cs)) as Hp.
    { destruct Hmk as [->|[t ->]]; [apply pkt_ok_PData|apply pkt_ok_PExt]; exact Hok. }
    assert (closes (map mkp cs) = 0%nat) as Hc.
    { destruct Hmk as [->|[t ->]]; [apply closes_PData|apply closes_PExt]. }
    assert (sent (map mkp cs) = len (take (rwl s) d)) as Hsent.
    { rewrite <- Hcat. destruct Hmk as [->|[t ->]]; [apply sent_PData|apply sent_PExt]. }
    destruct (rwl s <? len d), (lclosed s); cbn [app]; rewrite ?app_nil_r; repeat split; intros; try discriminate;
      rewrite ?closes_app, ?sent_app, ?Hc, ?Hsent; cbn [closes filter is_close length sent sent_ev Nat.add]; try lia;
      try (apply Forall_app; split); auto; repeat (constructor; try exact I).
  Qed.

  Lemma eff_write_core s d : buf s = [] -> eff s (write_core s d).
  Proof.
    intro Hb. destruct (write_core_spec s d Hb) as (_ & _ & _ & Hl & _ & Hlc & Hrc & Hlv & Hlog).
    destruct (burst_reads s PData d (or_introl eq_refl)) as (S & P & Q & C & _).
    split; auto; try congruence.
    - unfold lv. rewrite Hlv, Hlc, Hrc. auto.
    - exists (burst s PData d). rewrite Hlc, C. repeat split; auto.
  Qed.

  Lemma eff_write s d : eff s (write s d).
  Proof.
    rewrite write_eq. destruct (buf s) eqn:Hb.
    - cbv zeta. destruct (_ && _); [eapply eff_trans; [|apply eff_lose]|]; apply eff_write_core, Hb.
    - apply eff_same; reflexivity.
  Qed.

  (** ---------- writeExtended ---------- *)
  Definition wext_core (s : st) (t : N) (d : bytes) : st :=
    let over := rwl s <? len d in
    let d1 := if over then take (rwl s) d else d in
    let s1 := if over then set_writing false (set_ext [(t, drop (rwl s) d)] s) else s in
    let s2 := fold_left (send_ext t) (chunks (length d1) rmp d1) s1 in
    let s3 := set_rwl (rwl s2 - len d1) s2 in
    if over then emit CbStop s3 else s3.

  Lemma write_ext_eq s t d :
    write_ext s t d = match ext s with
                      | _ :: _ => set_ext (ext_add (ext s) t d) s
                      | [] => let s3 := wext_core s t d in if closing s3 then lose s3 else s3
                      end.
  Proof. reflexivity. Qed.

  Lemma wext_core_spec s t d : ext s = [] ->
    buf (wext_core s t d) = buf s /\
    ext (wext_core s t d) = (if rwl s <? len d then [(t, drop (rwl s) d)] else []) /\
    rwl (wext_core s t d) = rwl s - len (take (rwl s) d) /\ lwl (wext_core s t d) = lwl s /\
    closing (wext_core s t d) = closing s /\ lclosed (wext_core s t d) = lclosed s /\
    rclosed (wext_core s t d) = rclosed s /\ live (wext_core s t d) = live s /\
    log (wext_core s t d) = log s ++ burst s (PExt t) d.
  Proof.
    intro Hb. unfold wext_core, burst. rewrite fold_send_ext.
    destruct (N.ltb_spec (rwl s) (len d)) as [Ho|Ho].
    - dest_st s. cbn in *. destruct slc; cbn; rewrite <- ?app_assoc; repeat split; reflexivity.
    - rewrite (take_all (rwl s) d Ho).
      dest_st s. cbn in *. subst se. destruct slc; cbn; rewrite ?app_nil_r; repeat split; reflexivity.
  Qed.

  Lemma eff_wext_core s t d : ext s = [] -> eff s (wext_core s t d).
  Proof.
    intro Hb. destruct (wext_core_spec s t d Hb) as (_ & _ & _ & Hl & _ & Hlc & Hrc & Hlv & Hlog).
    destruct (burst_reads s (PExt t) d (or_intror (ex_intro _ t eq_refl))) as (S & P & Q & C & _).
    split; auto; try congruence.
    - unfold lv. rewrite Hlv, Hlc, Hrc. auto.
    - exists (burst s (PExt t) d). rewrite Hlc, C. repeat split; auto.
  Qed.

  Lemma eff_write_ext s t d : eff s (write_ext s t d).
  Proof.
    rewrite write_ext_eq. destruct (ext s) eqn:Hb.
    - cbv zeta. destruct (closing _); [eapply eff_trans; [|apply eff_lose]|]; apply eff_wext_core, Hb.
    - apply eff_same; reflexivity.
  Qed.

  Lemma eff_write_ext_all es : forall s, eff s (write_ext_all s es).
  Proof.
    induction es as [|[t d] r IH]; intro s; [apply eff_refl|].
    cbn [Model.write_ext_all fold_left fst snd]. eapply eff_trans; [apply eff_write_ext|apply IH].
  Qed.

  (** ---------- addWindowBytes ---------- *)
  Definition aw_start (s : st) (n : N) : st :=
    let s1 := set_rwl (rwl s + n) s in
    if negb (writing s1) && negb (closing s1) then run_hook (emit CbStart (set_writing true s1)) else s1.
  Definition aw_buf (s2 : st) : st :=
    match buf s2 with [] => s2 | b => write (set_buf [] s2) b end.
  Definition aw_ext (s3 : st) : st :=
    match ext s3 with
    | [] => s3
    | b => let c := closing s3 in
           let s4 := write_ext_all (set_closing false (set_ext [] s3)) b in
           let s5 := set_closing c s4 in
           if c then lose s5 else s5
    end.
  Lemma add_window_eq s n : add_window s n = aw_ext (aw_buf (aw_start s n)).
  Proof. reflexivity. Qed.

  (** the writes made from inside startWriting() *)
  Definition hstep (s : st) (h : hop) : st :=
    match h with HWrite d => write s d | HWriteExt t d => write_ext s t d end.
  Lemma run_hook_eq s : run_hook s = fold_left hstep hook s.
  Proof. reflexivity. Qed.

  Lemma eff_hooks hk : forall s, eff s (fold_left hstep hk s).
  Proof.
    induction hk as [|h r IH]; intro s; [apply eff_refl|]. cbn [fold_left].
    eapply eff_trans; [|apply IH]. destruct h; [apply eff_write|apply eff_write_ext].
  Qed.

  Lemma eff_aw_start s n : eff s (aw_start s n).
  Proof.
    unfold aw_start. destruct (_ && _).
    - eapply eff_trans; [|rewrite run_hook_eq; apply eff_hooks].
      eapply eff_cb with (es := [CbStart]); try reflexivity; repeat constructor.
    - apply eff_same; reflexivity.
  Qed.

  Lemma eff_aw_buf s : eff s (aw_buf s).
  Proof.
    unfold aw_buf. destruct (buf s) eqn:Hb; [apply eff_refl|].
    eapply eff_trans; [|apply eff_write]. apply eff_same; reflexivity.
  Qed.

  Lemma eff_aw_ext s : eff s (aw_ext s).
  Proof.
    unfold aw_ext. destruct (ext s) eqn:He; [apply eff_refl|]. cbv zeta.
    set (s0 := set_closing false (set_ext [] s)).
    assert (eff s s0) as E0 by (apply eff_same; reflexivity).
    assert (eff s0 (write_ext_all s0 (p :: l))) as E1 by apply eff_write_ext_all.
    set (s4 := write_ext_all s0 (p :: l)) in *.
    assert (eff s4 (set_closing (closing s) s4)) as E2 by (apply eff_same; reflexivity).
    destruct (closing s).
    - eapply eff_trans; [|apply eff_lose]. eapply eff_trans; [|exact E2]. eapply eff_trans; eauto.
    - eapply eff_trans; [|exact E2]. eapply eff_trans; eauto.
  Qed.

  Lemma eff_add_window s n : eff s (add_window s n).
  Proof.
    rewrite add_window_eq. eapply eff_trans; [apply eff_aw_start|].
    eapply eff_trans; [apply eff_aw_buf|apply eff_aw_ext].
  Qed.

  (** ---------- "closing and nothing buffered => CLOSE has been sent" is established by every routine ---------- *)
  Definition cl (s : st) : Prop := closing s = true -> buf s = [] -> ext s = [] -> lclosed s = true.

  Lemma cl_lose s : cl (lose s).
  Proof.
    destruct (lose_spec s) as (Hb & He & _ & _ & _ & _ & Hlc & _). unfold cl. rewrite Hb, He, Hlc.
    intros _ -> ->. apply orb_true_r.
  Qed.

  Lemma cl_write s d : cl (write s d).
  Proof.
    rewrite write_eq. destruct (buf s) eqn:Hb.
    - cbv zeta. destruct (write_core_spec s d Hb) as (B & E & _ & _ & C & L & _).
      destruct (closing (write_core s d) && is_nil (buf (write_core s d))) eqn:F; [apply cl_lose|].
      unfold cl. intros Hc Hbuf _. rewrite Hc, Hbuf in F. discriminate.
    - unfold cl. cbn. intros _ H. destruct (buf s); discriminate.
  Qed.

  Lemma cl_write_ext s t d : cl (write_ext s t d).
  Proof.
    rewrite write_ext_eq. destruct (ext s) eqn:Hb.
    - cbv zeta. destruct (closing (wext_core s t d)) eqn:F; [apply cl_lose|].
      unfold cl. rewrite F. discriminate.
    - unfold cl, set_ext. cbn [ext]. intros _ _ H. exfalso. revert H. apply ext_add_nonnil.
  Qed.

  Lemma cl_hooks hk : forall s, cl s -> cl (fold_left hstep hk s).
  Proof.
    induction hk as [|h r IH]; intros s H; [exact H|]. cbn [fold_left]. apply IH.
    destruct h; [apply cl_write|apply cl_write_ext].
  Qed.

  Lemma cl_aw_start s n : cl s -> cl (aw_start s n).
  Proof.
    intro H. unfold aw_start. destruct (_ && _).
    - rewrite run_hook_eq. apply cl_hooks. unfold cl in *. cbn. exact H.
    - unfold cl in *. cbn. exact H.
  Qed.

  Lemma cl_aw_buf s : cl s -> cl (aw_buf s).
  Proof. unfold aw_buf. destruct (buf s); [auto|intros _; apply cl_write]. Qed.

  Lemma cl_aw_ext s : cl s -> cl (aw_ext s).
  Proof.
    unfold aw_ext. destruct (ext s); [auto|intros _]. cbv zeta.
    destruct (closing s); [apply cl_lose|]. unfold cl. cbn. discriminate.
  Qed.

  Lemma cl_add_window s n : cl s -> cl (add_window s n).
  Proof. intro H. rewrite add_window_eq. apply cl_aw_ext, cl_aw_buf, cl_aw_start, H. Qed.

  (** ---------- no window is left unused while something is buffered ---------- *)
  Definition J (s : st) : Prop := (buf s <> [] -> rwl s = 0) /\ (ext s <> [] -> rwl s = 0).

  Lemma lose_J s : J s -> J (lose s).
  Proof. destruct (lose_spec s) as (Hb & He & Hr & _). unfold J. rewrite Hb, He, Hr. auto. Qed.

  Lemma write_core_J s d : buf s = [] ->
    (buf (write_core s d) <> [] -> rwl (write_core s d) = 0) /\ rwl (write_core s d) <= rwl s.
  Proof.
    intro Hb. destruct (write_core_spec s d Hb) as (B & _ & R & _). rewrite B, R, len_take. split; [|lia].
    intro Hd. assert (len (drop (rwl s) d) <> 0) as Hn.
    { intro Z. apply Hd, len_0, Z. }
    rewrite len_drop in Hn. lia.
  Qed.

  (** write on a state whose buf is empty, whatever the window (the call made by addWindowBytes) *)
  Lemma write_J0 s d : buf s = [] ->
    (buf (write s d) <> [] -> rwl (write s d) = 0) /\ rwl (write s d) <= rwl s /\ ext (write s d) = ext s.
  Proof.
    intro Hb. rewrite write_eq, Hb. cbv zeta.
    destruct (write_core_J s d Hb) as [A B]. destruct (write_core_spec s d Hb) as (_ & E & _).
    destruct (_ && _).
    - destruct (lose_spec (write_core s d)) as (Lb & Le & Lr & _). rewrite Lb, Lr, Le. auto.
    - auto.
  Qed.

  Lemma write_J s d : J s -> J (write s d).
  Proof.
    intros [J1 J2]. destruct (buf s) eqn:Hb.
    - destruct (write_J0 s d Hb) as (A & B & E). split; [exact A|]. rewrite E. intro H.
      specialize (J2 H). lia.
    - rewrite write_eq, Hb. split; cbn; intros _; [apply J1; congruence|]. 
      assert (rwl s = 0) by (apply J1; congruence). auto.
  Qed.

  Lemma write_ext_J s t d : J s -> J (write_ext s t d).
  Proof.
    intros [J1 J2]. rewrite write_ext_eq. destruct (ext s) eqn:He.
    - cbv zeta. assert (J (wext_core s t d)) as Jc.
      { destruct (wext_core_spec s t d He) as (B & E & R & _). unfold J. rewrite B, E, R, len_take. split.
        - intro H. specialize (J1 H). lia.
        - destruct (N.ltb_spec (rwl s) (len d)); [lia|congruence]. }
      destruct (closing _); [apply lose_J|]; exact Jc.
    - split; cbn; intros _; [|apply J2; congruence]. 
      destruct (buf s) eqn:Hb; [apply J2; congruence|apply J1; congruence].
  Qed.

  Lemma write_ext_all_J es : forall s, J s -> J (write_ext_all s es).
  Proof.
    induction es as [|[t d] r IH]; intros s H; [exact H|].
    cbn [Model.write_ext_all fold_left fst snd]. apply IH, write_ext_J, H.
  Qed.

  Lemma add_window_J s n : J (add_window s n).
  Proof.
    rewrite add_window_eq. set (s2 := aw_start s n).
    assert ((buf (aw_buf s2) <> [] -> rwl (aw_buf s2) = 0)) as A.
    { unfold aw_buf. destruct (buf s2) eqn:Hb; [congruence|].
      destruct (write_J0 (set_buf [] s2) (n0 :: b) eq_refl) as (A & _). exact A. }
    set (s3 := aw_buf s2) in *. unfold aw_ext. destruct (ext s3) eqn:He.
    - split; [exact A|rewrite He; congruence].
    - cbv zeta. set (s0 := set_closing false (set_ext [] s3)).
      assert (J s0) as J0 by (split; cbn; [exact A|congruence]).
      pose proof (write_ext_all_J (p :: l) s0 J0) as J4.
      set (s4 := write_ext_all s0 (p :: l)) in *.
      assert (J (set_closing (closing s3) s4)) as J5 by exact J4.
      destruct (closing s3); [apply lose_J|]; exact J5.
  Qed.

  (** ---------- while CLOSE has not been sent: stream and window accounting, and flush-before-close ---------- *)
  Definition D (s : st) : bytes := dbytes (log s) ++ buf s.          (* sent ++ still buffered *)
  Definition X (s : st) : list (N * N) := xbytes (log s) ++ flatx (ext s).
  Definition B (s : st) : N := sent (log s) + rwl s.                 (* used + unused window *)

  Definition opn (s s' : st) (wd : bytes) (xd : list (N * N)) (g : N) : Prop :=
    D s' = D s ++ wd /\ X s' = X s ++ xd /\ B s' = B s + g.
  Definition flush (s' : st) : Prop := lclosed s' = true -> buf s' = [] /\ ext s' = [].

  Lemma opn_lose s : opn s (lose s) [] [] 0.
  Proof.
    destruct (lose_spec s) as (Hb & He & Hr & _ & _ & _ & _ & _ & Hlog).
    destruct (close_evs_reads s) as (Rd & Rx & Rs & _).
    unfold opn, D, X, B. rewrite Hb, He, Hr, Hlog, dbytes_app, xbytes_app, sent_app, Rd, Rx, Rs, !app_nil_r.
    repeat split. lia.
  Qed.

  Lemma flush_lose s : lclosed s = false -> flush (lose s).
  Proof.
    destruct (lose_spec s) as (Hb & He & _ & _ & _ & _ & Hlc & _). unfold flush. rewrite Hb, He, Hlc.
    intros -> H. cbn in H. destruct (buf s), (ext s); try discriminate. auto.
  Qed.

  Lemma burst_data s d : lclosed s = false ->
    dbytes (burst s PData d) = take (rwl s) d /\ xbytes (burst s PData d) = [].
  Proof.
    intros Hl. unfold burst. rewrite Hl, dbytes_app, xbytes_app, dbytes_PData, xbytes_PData.
    rewrite concat_chunks by (auto; lia). destruct (_ <? _); cbn; rewrite ?app_nil_r; auto.
  Qed.

  Lemma burst_ext s t d : lclosed s = false ->
    dbytes (burst s (PExt t) d) = [] /\ xbytes (burst s (PExt t) d) = map (pair t) (take (rwl s) d).
  Proof.
    intros Hl. unfold burst. rewrite Hl, dbytes_app, xbytes_app, dbytes_PExt, xbytes_PExt.
    rewrite concat_chunks by (auto; lia). destruct (_ <? _); cbn; rewrite ?app_nil_r; auto.
  Qed.

  Lemma opn_write s d : lclosed s = false ->
    opn s (write s d) d [] 0 /\ flush (write s d) /\
    (closing s = false -> lclosed (write s d) = false /\ closing (write s d) = false).
  Proof.
    intro Hl. rewrite write_eq. destruct (buf s) eqn:Hb.
    - cbv zeta. destruct (write_core_spec s d Hb) as (B1 & E1 & R1 & _ & C1 & L1 & _ & _ & G1).
      destruct (burst_data s d Hl) as [Rd Rx].
      destruct (burst_reads s PData d (or_introl eq_refl)) as (_ & _ & _ & _ & Rs). specialize (Rs Hl).
      assert (opn s (write_core s d) d [] 0) as O.
      { unfold opn, D, X, B. rewrite B1, E1, R1, G1, dbytes_app, xbytes_app, sent_app, Rd, Rx, Rs, Hb, len_take.
        rewrite !app_nil_r, <- app_assoc, take_drop. repeat split. lia. }
      destruct (closing (write_core s d) && is_nil (buf (write_core s d))) eqn:F.
      + pose proof (opn_lose (write_core s d)) as (O1 & O2 & O3). destruct O as (P1 & P2 & P3).
        split; [|split].
        * unfold opn. rewrite O1, O2, O3, P1, P2, P3, !app_nil_r. repeat split. lia.
        * apply flush_lose. congruence.
        * intro Hc. rewrite C1, Hc in F. discriminate.
      + split; [exact O|split].
        * unfold flush. congruence.
        * intro Hc. split; congruence.
    - split; [|split].
      + unfold opn, D, X, B. cbn. rewrite Hb, !app_nil_r, <- app_assoc. repeat split. lia.
      + unfold flush. cbn. congruence.
      + cbn. auto.
  Qed.

  Lemma opn_write_ext s t d : lclosed s = false ->
    opn s (write_ext s t d) [] (map (pair t) d) 0 /\ flush (write_ext s t d) /\
    (closing s = false -> lclosed (write_ext s t d) = false /\ closing (write_ext s t d) = false).
  Proof.
    intro Hl. rewrite write_ext_eq. destruct (ext s) eqn:Hb.
    - cbv zeta. destruct (wext_core_spec s t d Hb) as (B1 & E1 & R1 & _ & C1 & L1 & _ & _ & G1).
      destruct (burst_ext s t d Hl) as [Rd Rx].
      destruct (burst_reads s (PExt t) d (or_intror (ex_intro _ t eq_refl))) as (_ & _ & _ & _ & Rs).
      specialize (Rs Hl).
      assert (opn s (wext_core s t d) [] (map (pair t) d) 0) as O.
      { unfold opn, D, X, B. rewrite B1, E1, R1, G1, dbytes_app, xbytes_app, sent_app, Rd, Rx, Rs, Hb, len_take.
        rewrite !app_nil_r. repeat split; [|lia].
        cbn [flatx flat_map app]. rewrite <- app_assoc. f_equal.
        destruct (N.ltb_spec (rwl s) (len d)) as [Ho|Ho].
        - cbn. rewrite app_nil_r, <- map_app, take_drop. reflexivity.
        - cbn. rewrite app_nil_r, take_all by exact Ho. reflexivity. }
      destruct (closing (wext_core s t d)) eqn:F.
      + pose proof (opn_lose (wext_core s t d)) as (O1 & O2 & O3). destruct O as (P1 & P2 & P3).
        split; [|split].
        * unfold opn. rewrite O1, O2, O3, P1, P2, P3, !app_nil_r. repeat split. lia.
        * apply flush_lose. congruence.
        * intro Hc. congruence.
      + split; [exact O|split].
        * unfold flush. congruence.
        * intro Hc. split; congruence.
    - split; [|split].
      + unfold opn, D, X, B, set_ext. cbn [log buf ext rwl]. rewrite flatx_ext_add by congruence.
        rewrite Hb, !app_nil_r, <- app_assoc. repeat split. lia.
      + unfold flush. cbn. congruence.
      + cbn. auto.
  Qed.

  Lemma opn_write_ext_all es : forall s, lclosed s = false -> closing s = false ->
    opn s (write_ext_all s es) [] (flatx es) 0 /\
    lclosed (write_ext_all s es) = false /\ closing (write_ext_all s es) = false.
  Proof.
    induction es as [|[t d] r IH]; intros s Hl Hc.
    - cbn. unfold opn. rewrite !app_nil_r. repeat split; auto. lia.
    - cbn [Model.write_ext_all fold_left fst snd].
      destruct (opn_write_ext s t d Hl) as ((O1 & O2 & O3) & _ & K). destruct (K Hc) as [Hl1 Hc1].
      destruct (IH _ Hl1 Hc1) as ((P1 & P2 & P3) & Hl2 & Hc2). fold (write_ext_all (write_ext s t d) r) in *.
      repeat split; auto.
      + rewrite P1, O1, !app_nil_r. reflexivity.
      + rewrite P2, O2, <- app_assoc. reflexivity.
      + rewrite P3, O3. lia.
  Qed.

  (** writes made from inside startWriting(): each stream's data goes BEHIND what that stream has already buffered *)
  Lemma opn_hooks hk : forall s, lclosed s = false -> closing s = false ->
    opn s (fold_left hstep hk s) (hook_w hk) (hook_x hk) 0 /\
    lclosed (fold_left hstep hk s) = false /\ closing (fold_left hstep hk s) = false.
  Proof.
    induction hk as [|h r IH]; intros s Hl Hc.
    - cbn. unfold opn. rewrite !app_nil_r. repeat split; auto. lia.
    - cbn [fold_left]. 
      assert (opn s (hstep s h) (hook_w [h]) (hook_x [h]) 0 /\ lclosed (hstep s h) = false /\ closing (hstep s h) = false)
        as ((O1 & O2 & O3) & Hl1 & Hc1).
      { destruct h as [d|t d]; cbn [hstep hook_w hook_x flat_map]; rewrite !app_nil_r.
        - destruct (opn_write s d Hl) as (O & _ & K). destruct (K Hc). auto.
        - destruct (opn_write_ext s t d Hl) as (O & _ & K). destruct (K Hc). auto. }
      destruct (IH _ Hl1 Hc1) as ((P1 & P2 & P3) & Hl2 & Hc2). repeat split; auto.
      + rewrite P1, O1. replace (hook_w (h :: r)) with (hook_w [h] ++ hook_w r) by (unfold hook_w; cbn [flat_map]; rewrite app_nil_r; reflexivity).
        rewrite app_assoc. reflexivity.
      + rewrite P2, O2. replace (hook_x (h :: r)) with (hook_x [h] ++ hook_x r) by (unfold hook_x; cbn [flat_map]; rewrite app_nil_r; reflexivity).
        rewrite app_assoc. reflexivity.
      + rewrite P3, O3. lia.
  Qed.

  Definition wakes (s : st) : bool := negb (writing s) && negb (closing s).

  Lemma opn_add_window s n : lclosed s = false ->
    opn s (add_window s n) (if wakes s then hook_w hook else []) (if wakes s then hook_x hook else []) n /\
    flush (add_window s n).
  Proof.
    intro Hl. rewrite add_window_eq.
    (* start *)
    assert (opn s (aw_start s n) (if wakes s then hook_w hook else []) (if wakes s then hook_x hook else []) n /\
            lclosed (aw_start s n) = false) as [(A1 & A2 & A3) Hl2].
    { unfold aw_start, wakes. cbn [writing closing set_rwl]. destruct (negb (writing s) && negb (closing s)) eqn:Ew.
      - apply andb_true_iff in Ew. destruct Ew as [_ Ec]. apply negb_true_iff in Ec.
        rewrite run_hook_eq.
        destruct (opn_hooks hook (emit CbStart (set_writing true (set_rwl (rwl s + n) s))) Hl Ec) as ((P1 & P2 & P3) & Hl' & _).
        split; [|exact Hl']. unfold opn. rewrite P1, P2, P3. unfold D, X, B. cbn.
        rewrite ?dbytes_app, ?xbytes_app, ?sent_app; cbn; rewrite ?app_nil_r; repeat split; auto; lia.
      - unfold opn, D, X, B; cbn; rewrite ?app_nil_r; repeat split; auto; lia. }
    set (s2 := aw_start s n) in *.
    (* buf *)
    assert (opn s2 (aw_buf s2) [] [] 0 /\ flush (aw_buf s2)) as [(B1 & B2 & B3) F3].
    { unfold aw_buf. destruct (buf s2) eqn:Hb.
      - unfold opn, flush. rewrite !app_nil_r. repeat split; try congruence. lia.
      - destruct (opn_write (set_buf [] s2) (n0 :: b) Hl2) as ((W1 & W2 & W3) & Fl & _).
        split; [|exact Fl]. unfold opn. rewrite W1, W2, W3. unfold D, X, B. cbn [log buf ext rwl set_buf].
        rewrite Hb, !app_nil_r. repeat split. }
    set (s3 := aw_buf s2) in *.
    (* ext *)
    assert (opn s3 (aw_ext s3) [] [] 0 /\ (lclosed s3 = false -> flush (aw_ext s3)) /\
            (lclosed s3 = true -> aw_ext s3 = s3)) as [(C1 & C2 & C3) [F4 E4]].
    { unfold aw_ext. destruct (ext s3) eqn:He.
      - unfold opn, flush. rewrite !app_nil_r. repeat split; try congruence. lia.
      - split; [|split].
        2: { intro Hl3. cbv zeta. set (s0 := set_closing false (set_ext [] s3)).
             destruct (opn_write_ext_all (p :: l) s0 Hl3 eq_refl) as (_ & Hl4 & _).
             destruct (closing s3); [apply flush_lose; exact Hl4|].
             intro H. change (lclosed (write_ext_all s0 (p :: l)) = true) in H. congruence. }
        2: { intro Hl3. destruct (F3 Hl3) as [_ E]. congruence. }
        destruct (lclosed s3) eqn:Hl3; [destruct (F3 Hl3) as [_ E]; congruence|].
        cbv zeta. set (s0 := set_closing false (set_ext [] s3)).
        destruct (opn_write_ext_all (p :: l) s0 Hl3 eq_refl) as ((W1 & W2 & W3) & Hl4 & _).
        set (s4 := write_ext_all s0 (p :: l)) in *.
        assert (opn s3 (set_closing (closing s3) s4) [] [] 0) as O5.
        { unfold opn, D, X, B in *. cbn [log buf ext rwl set_closing set_ext] in *.
          rewrite W1, W2, W3, He, !app_nil_r. repeat split. }
        destruct (closing s3); [|exact O5].
        destruct O5 as (P1 & P2 & P3).
        pose proof (opn_lose (set_closing true s4)) as (O1 & O2 & O3).
        unfold opn. rewrite O1, O2, O3, P1, P2, P3, !app_nil_r. repeat split. lia. }
    split.
    - unfold opn. rewrite C1, C2, C3, B1, B2, B3, A1, A2, A3, !app_nil_r. repeat split. lia.
    - destruct (lclosed s3) eqn:Hl3.
      + rewrite (E4 eq_refl). unfold flush. intros _. apply F3, Hl3.
      + apply F4. reflexivity.
  Qed.

  (** ---------- the receive side and CHANNEL_CLOSE ---------- *)
  Definition nodata (e : ev) : Prop := match e with PData _ | PExt _ _ => False | _ => True end.

  Lemma nodata_reads es : Forall nodata es ->
    dbytes es = [] /\ xbytes es = [] /\ sent es = 0 /\ Forall (pkt_ok rmp) es.
  Proof.
    induction 1 as [|e r He _ IH]; [repeat split; try reflexivity; constructor|].
    destruct IH as (A & B0 & C & F).
    destruct e; cbn in He; try contradiction;
      (repeat split; [exact A|exact B0|cbn [sent sent_ev]; rewrite C; reflexivity|constructor; [exact I|exact F]]).
  Qed.

  Ltac give_es := first [ eexists; split; [reflexivity|] | exists []; split; [now rewrite app_nil_r|] ].

  Definition is_cb (cb : bytes -> ev) : Prop := cb = CbData \/ exists t, cb = CbExt t.

  (** one step's effect on flags and log, for the three peer-driven routines that are not send-side *)
  Record reff (s s' : st) : Prop := {
    r_buf : buf s' = buf s; r_ext : ext s' = ext s; r_rwl : rwl s' = rwl s; r_cl : cl s -> cl s';
    r_mono : lclosed s = true -> lclosed s' = true;
    r_live : lv s -> lv s';
    r_log : exists es, log s' = log s ++ es /\ Forall nodata es /\ (lclosed s = true -> Forall quiet es) /\
            (closes es + b2n (lclosed s) = b2n (lclosed s'))%nat /\
            (lwl s' + recvd es = lwl s + adjusted es /\
             (lclosed s' = false -> lws / 2 <= lwl s -> lws / 2 <= lwl s')) }.

  Lemma reff_recv_data s cb d : is_cb cb -> reff s (recv_data s cb d).
  Proof.
    intro Hcb.
    assert (forall x, nodata (cb x) /\ quiet (cb x) /\ recvd_ev (cb x) = len x /\ adj_ev (cb x) = 0
                      /\ is_close (cb x) = false) as Hc.
    { intro x. destruct Hcb as [->|[t ->]]; cbn; auto. }
    unfold recv_data, send_close, channel_closed, adjust_window. dest_st s. cbn.
    destruct slv; cbn.
    2: { split; cbn; auto. give_es. repeat split; intros; repeat constructor; cbn; lia. }
    destruct (N.ltb_spec slw (len d)) as [H1|H1]; cbn.
    { destruct slc, src; cbn; split; cbn; auto; try (unfold lv; cbn; intuition congruence);
        try (unfold cl; cbn; intuition congruence); rewrite <- ?app_assoc; give_es; repeat split; intros; try discriminate; repeat constructor; cbn; try lia; auto. }
    destruct (N.ltb_spec lmp (len d)) as [H2|H2]; cbn.
    { destruct slc, src; cbn; split; cbn; auto; try (unfold lv; cbn; intuition congruence);
        try (unfold cl; cbn; intuition congruence); rewrite <- ?app_assoc; give_es; repeat split; intros; try discriminate; repeat constructor; cbn; try lia; auto. }
    destruct (Hc d) as (N1 & Q1 & R1 & A1 & C1).
    assert (lws / 2 <= lws) as Hhalf by (apply N.div_le_upper_bound; lia).
    destruct (N.ltb_spec (slw - len d) (lws / 2)) as [H3|H3]; cbn.
    - destruct radj as [ra|], slc; cbn; split; cbn; auto; try (unfold cl; cbn; intuition congruence); rewrite <- ?app_assoc; give_es;
        (repeat split; intros; try discriminate; repeat constructor; auto;
         cbn [recvd adjusted recvd_ev adj_ev closes filter is_close length app b2n]; rewrite ?C1, ?R1, ?A1;
         cbn [recvd adjusted recvd_ev adj_ev closes filter is_close length app b2n]; try lia).
    - destruct radj as [ra|], slc; cbn; split; cbn; auto; try (unfold cl; cbn; intuition congruence); rewrite <- ?app_assoc; give_es;
        (repeat split; intros; try discriminate; repeat constructor; auto;
         cbn [recvd adjusted recvd_ev adj_ev closes filter is_close length app b2n]; rewrite ?C1, ?R1, ?A1;
         cbn [recvd adjusted recvd_ev adj_ev closes filter is_close length app b2n]; try lia).
  Qed.

  Lemma reff_recv_close s : reff s (recv_close s) /\ (lclosed s = false -> flush (recv_close s)).
  Proof.
    unfold recv_close, lose, send_close, channel_closed, flush. dest_st s. cbn.
    destruct slv, sb, se, slc, src; cbn; (split; [|intros; try discriminate; auto]);
      (split; cbn; auto; try (unfold lv; cbn; intuition congruence); try (unfold cl; cbn; intuition congruence);
       rewrite <- ?app_assoc; give_es; repeat split; intros; try discriminate; repeat constructor; cbn; try lia; auto).
  Qed.

  Lemma reff_app_adjust s n : reff s (adjust_window s n).
  Proof.
    unfold adjust_window. dest_st s. cbn. destruct slc; cbn;
      (split; cbn; auto; try (unfold lv; cbn; intuition congruence); try (unfold cl; cbn; intuition congruence);
       rewrite <- ?app_assoc; give_es; repeat split; intros; try discriminate; repeat constructor; cbn; try lia; auto).
  Qed.

  (** ---------- one step of the machine ---------- *)
  Record seff (s s' : st) (o : op) : Prop := {
    s_J : J s -> J s'; s_cl : cl s -> cl s'; s_lv : lv s -> lv s';
    s_mono : lclosed s = true -> lclosed s' = true;
    s_log : exists es, log s' = log s ++ es /\ Forall (pkt_ok rmp) es /\
            (lclosed s = true -> Forall quiet es) /\
            (closes es + b2n (lclosed s) = b2n (lclosed s'))%nat /\
            (lwl s' + recvd es = lwl s + adjusted es /\
             (lclosed s' = false -> lws / 2 <= lwl s -> lws / 2 <= lwl s'));
    s_open : lclosed s = false -> lv s -> opn s s' (wdata_at s o) (xdata_at s o) (grant o) }.

  Lemma seff_of_eff s s' o :
    eff s s' -> (J s -> J s') -> (cl s -> cl s') ->
    (lclosed s = false -> opn s s' (wdata_at s o) (xdata_at s o) (grant o)) -> seff s s' o.
  Proof.
    intros [E1 E2 E3 E4 (es & L & S & P & Q & C)] HJ Hcl Ho. split; auto.
    exists es. destruct (sside_reads es S) as (R & A & _). rewrite R, A, E1.
    repeat split; auto; try lia.
  Qed.

  Lemma seff_of_reff s s' o :
    reff s s' -> wdata_at s o = [] -> xdata_at s o = [] -> grant o = 0 -> seff s s' o.
  Proof.
    intros [R1 R2 R3 R4 R5 R6 (es & L & Nd & Q & C & W)] Hw Hx Hg.
    destruct (nodata_reads es Nd) as (Zd & Zx & Zs & Pk).
    split; auto.
    - unfold J. rewrite R1, R2, R3. auto.
    - exists es. repeat split; auto; apply W; auto.
    - intros _ _. unfold opn, D, X, B. rewrite Hw, Hx, Hg, R1, R2, R3, L, dbytes_app, xbytes_app, sent_app, Zd, Zx, Zs.
      rewrite !app_nil_r. repeat split. lia.
  Qed.

  Lemma seff_keyerr s o : live s = false -> seff s (emit KeyErr s) o.
  Proof.
    intro Hl. split; auto.
    - exists [KeyErr]. repeat split; auto; repeat constructor; cbn; lia.
    - intros Ho Hlv. destruct (Hlv Hl) as [C _]. congruence.
  Qed.

  Lemma step_seff s o : seff s (step s o) o.
  Proof.
    destruct o as [d|t d| |n|d|t d| |n]; cbn [Model.step].
    - apply seff_of_eff; [apply eff_write|apply write_J|intros _; apply cl_write|
                          intro H; unfold Model.wdata_at, Model.xdata_at; cbn; rewrite app_nil_r; apply opn_write, H].
    - apply seff_of_eff; [apply eff_write_ext|apply write_ext_J|intros _; apply cl_write_ext|
                          intro H; unfold Model.wdata_at, Model.xdata_at; cbn; rewrite app_nil_r; apply opn_write_ext, H].
    - apply seff_of_eff; [apply eff_lose|apply lose_J|intros _; apply cl_lose|intros _; apply opn_lose].
    - unfold Model.recv_adjust. destruct (live s) eqn:Hl; cbn [negb].
      + apply seff_of_eff; [apply eff_add_window|intros _; apply add_window_J|apply cl_add_window|].
        intro H. unfold Model.wdata_at, Model.xdata_at, fires. rewrite Hl. cbn [wdata xdata app andb].
        apply opn_add_window, H.
      + apply seff_keyerr, Hl.
    - apply seff_of_reff; try reflexivity. apply reff_recv_data. left. reflexivity.
    - apply seff_of_reff; try reflexivity. apply reff_recv_data. right. eexists. reflexivity.
    - apply seff_of_reff; try reflexivity. apply reff_recv_close.
    - apply seff_of_reff; try reflexivity. apply reff_app_adjust.
  Qed.

  (** ---------- the invariant of every history ---------- *)
  Record Inv (rw : N) (ops : list op) (W : bytes) (XW : list (N * N)) (s : st) : Prop := {
    i_J : J s; i_cl : cl s; i_lv : lv s;
    i_cc : closes (log s) = b2n (lclosed s);
    i_pk : Forall (pkt_ok rmp) (log s);
    i_open : lclosed s = false -> D s = W /\ X s = XW /\ B s = rw + granted ops;
    i_sent : sent (log s) <= rw + granted ops;
    i_rw : lwl s + recvd (log s) = lws + adjusted (log s);
    i_lwl : lclosed s = false -> lws / 2 <= lwl s }.

  Lemma Inv_init rw : Inv rw [] [] [] (init rw lws).
  Proof.
    split; cbn; auto; try lia.
    - split; cbn; congruence.
    - unfold cl. cbn. discriminate.
    - unfold lv. cbn. discriminate.
    - intros _. unfold D, X, B. cbn. repeat split. lia.
    - intros _. apply N.div_le_upper_bound; lia.
  Qed.

  Lemma Inv_step rw ops Wd Xd s o : Inv rw ops Wd Xd s ->
    Inv rw (ops ++ [o]) (Wd ++ wdata_at s o) (Xd ++ xdata_at s o) (step s o).
  Proof.
    intros [I1 I2 I3 I4 I5 I6 I7 I8 I10].
    destruct (step_seff s o) as [S1 S2 S3 S4 (es & L & P & Q & C & W) S6].
    destruct W as (W1 & W3).
    assert (granted (ops ++ [o]) = granted ops + grant o) as G by (rewrite granted_app; cbn; lia).
    split; auto.
    - rewrite L, closes_app, I4. lia.
    - rewrite L. apply Forall_app; auto.
    - intro Ho. assert (lclosed s = false) as Hs.
      { destruct (lclosed s) eqn:E; [rewrite S4 in Ho by reflexivity; discriminate|reflexivity]. }
      destruct (S6 Hs I3) as (O1 & O2 & O3). destruct (I6 Hs) as (A1 & A2 & A3).
      rewrite O1, O2, O3, A1, A2, A3, G. repeat split. lia.
    - rewrite G, L, sent_app. destruct (lclosed s) eqn:Hs.
      + destruct (quiet_reads es (Q eq_refl)) as (_ & _ & Z & _). rewrite Z. lia.
      + destruct (S6 eq_refl I3) as (_ & _ & O3). destruct (I6 eq_refl) as (_ & _ & A3).
        unfold B in *. rewrite L, sent_app in O3. lia.
    - rewrite L, recvd_app, adjusted_app. lia.
    - intro Ho. apply W3; [exact Ho|]. apply I10.
      destruct (lclosed s) eqn:E; [rewrite S4 in Ho by reflexivity; discriminate|reflexivity].
  Qed.

  Lemma Inv_run rw ops : forall done W XW s, Inv rw done W XW s ->
    Inv rw (done ++ ops) (W ++ hwritten s ops) (XW ++ hxwritten s ops) (run s ops).
  Proof.
    induction ops as [|o r IH]; intros done W XW s H; cbn [Model.run fold_left Model.hwritten Model.hxwritten].
    - rewrite !app_nil_r. exact H.
    - replace (done ++ o :: r) with ((done ++ [o]) ++ r) by (rewrite <- app_assoc; reflexivity).
      rewrite !app_assoc. apply IH, Inv_step, H.
  Qed.

  Lemma Inv_reach rw ops :
    Inv rw ops (hwritten (init rw lws) ops) (hxwritten (init rw lws) ops) (run (init rw lws) ops).
  Proof. apply (Inv_run rw ops [] [] [] _ (Inv_init rw)). Qed.

  Lemma hwritten_app a : forall s b, hwritten s (a ++ b) = hwritten s a ++ hwritten (run s a) b.
  Proof. induction a as [|o r IH]; intros s b; cbn; [reflexivity|]. rewrite IH, app_assoc. reflexivity. Qed.
  Lemma hxwritten_app a : forall s b, hxwritten s (a ++ b) = hxwritten s a ++ hxwritten (run s a) b.
  Proof. induction a as [|o r IH]; intros s b; cbn; [reflexivity|]. rewrite IH, app_assoc. reflexivity. Qed.

  (** ---------- the property theorems (stated again, in full, in Property.v) ---------- *)
  Notation reach rw ops := (run (init rw lws) ops).

  Lemma sent_split l : sent l = len (dbytes l) + len (xbytes l).
  Proof.
    induction l as [|e r IH]; [reflexivity|].
    cbn [sent]. change (dbytes (e :: r)) with (dbytes_ev e ++ dbytes r).
    change (xbytes (e :: r)) with (xbytes_ev e ++ xbytes r). rewrite !len_app, IH.
    destruct e; cbn [sent_ev dbytes_ev xbytes_ev]; rewrite ?len_map; unfold len; cbn [length]; lia.
  Qed.

  Lemma len_flatx_0 e : len (flatx e) = 0 -> flatx e = [].
  Proof. apply len_0. Qed.

  Lemma T_window rw ops :
    sent (log (reach rw ops)) <= rw + granted ops /\ Forall (pkt_ok rmp) (log (reach rw ops)).
  Proof. destruct (Inv_reach rw ops). auto. Qed.

  Lemma T_unused rw ops :
    (buf (reach rw ops) <> [] \/ ext (reach rw ops) <> []) -> rwl (reach rw ops) = 0.
  Proof. destruct (Inv_reach rw ops) as [[J1 J2] _]. intros [H|H]; auto. Qed.

  Notation hw rw ops := (hwritten (init rw lws) ops).
  Notation hx rw ops := (hxwritten (init rw lws) ops).

  Lemma T_streams rw ops :
    let s := reach rw ops in
    lclosed s = false ->
    dbytes (log s) ++ buf s = hw rw ops /\ xbytes (log s) ++ flatx (ext s) = hx rw ops /\
    (len (hw rw ops) + len (hx rw ops) <= rw + granted ops ->
     buf s = [] /\ flatx (ext s) = [] /\ dbytes (log s) = hw rw ops /\ xbytes (log s) = hx rw ops).
  Proof.
    intros s Ho. destruct (Inv_reach rw ops) as [[J1 J2] _ _ _ _ I6 _ _ _]. fold s in J1, J2, I6.
    destruct (I6 Ho) as (HD & HX & HB). unfold D, X, B in *. split; [exact HD|split; [exact HX|]]. intro Hw.
    assert (len (buf s) + len (flatx (ext s)) = 0) as Z.
    { rewrite <- HD, <- HX, !len_app in Hw. rewrite sent_split in HB.
      destruct (buf s) eqn:Eb; [destruct (ext s) eqn:Ee; [cbn; lia|]|];
        [rewrite J2 in HB by congruence|rewrite J1 in HB by congruence]; lia. }
    assert (buf s = []) as Zb by (apply len_0; lia).
    assert (flatx (ext s) = []) as Zx by (apply len_0; lia).
    rewrite Zb, Zx, !app_nil_r in *. auto.
  Qed.

  Lemma recv_accepts s cb d : live s = true -> len d <= lwl s -> len d <= lmp ->
    lclosed (recv_data s cb d) = lclosed s /\
    exists pre post, log (recv_data s cb d) = log s ++ pre ++ [cb d] ++ post /\
                pkts pre = pre /\ closes pre = 0%nat /\ (pre = [] \/ exists n, pre = [PAdjust n]) /\
                closes post = 0%nat /\ (post = [] \/ exists n, post = [PAdjust n]).
  Proof.
    intros Hl H1 H2. unfold Model.recv_data, adjust_window. rewrite Hl. cbn [negb].
    destruct (N.ltb_spec (lwl s) (len d)); [lia|]. destruct (N.ltb_spec lmp (len d)); [lia|]. cbn [orb].
    dest_st s. cbn. destruct radj as [ra|], (_ <? _), slc; cbn; (split; [reflexivity|]); rewrite <- ?app_assoc.
    all: try (exists [], []; repeat split; eauto; fail).
    all: try (eexists [PAdjust _], []; repeat split; eauto; fail).
    all: try (eexists [], [PAdjust _]; repeat split; eauto; fail).
    all: try (eexists [PAdjust _], [PAdjust _]; repeat split; eauto; fail).
  Qed.

  Lemma step_flush s o : lv s -> lclosed s = false -> overruns lmp s o = false -> flush (step s o).
  Proof.
    intros Hlv Ho Hr. destruct o as [d|t d| |n|d|t d| |n]; cbn [Model.step].
    - apply opn_write, Ho.
    - apply opn_write_ext, Ho.
    - apply flush_lose, Ho.
    - unfold Model.recv_adjust. destruct (live s) eqn:Hl; cbn [negb].
      + apply opn_add_window, Ho.
      + destruct (Hlv Hl). congruence.
    - destruct (live s) eqn:Hl.
      + cbn in Hr. apply orb_false_iff in Hr. destruct Hr as [R1 R2]. apply N.ltb_ge in R1, R2.
        destruct (recv_accepts s CbData d Hl R1 R2) as [E _]. unfold flush. rewrite E. congruence.
      + destruct (Hlv Hl). congruence.
    - destruct (live s) eqn:Hl.
      + cbn in Hr. apply orb_false_iff in Hr. destruct Hr as [R1 R2]. apply N.ltb_ge in R1, R2.
        destruct (recv_accepts s (CbExt t) d Hl R1 R2) as [E _]. unfold flush. rewrite E. congruence.
      + destruct (Hlv Hl). congruence.
    - apply reff_recv_close, Ho.
    - unfold flush, adjust_window. rewrite Ho. cbn. congruence.
  Qed.

  Lemma T_close rw ops o :
    let s := reach rw ops in let s' := step s o in
    lclosed s = false -> lclosed s' = true -> overruns lmp s o = false ->
    buf s' = [] /\ ext s' = [] /\
    dbytes (log s') = hw rw (ops ++ [o]) /\ xbytes (log s') = hx rw (ops ++ [o]).
  Proof.
    intros s s' Ho Hc Hr. pose proof (Inv_reach rw ops) as I. fold s in I.
    destruct (step_flush s o (i_lv _ _ _ _ _ I) Ho Hr Hc) as [Fb Fe]. fold s' in Fb, Fe.
    destruct (step_seff s o) as [_ _ _ _ _ S6]. destruct (S6 Ho (i_lv _ _ _ _ _ I)) as (O1 & O2 & _).
    destruct (i_open _ _ _ _ _ I Ho) as (A1 & A2 & _). fold s' in O1, O2.
    unfold D, X in *. rewrite Fb, Fe, A1, A2 in *. cbn [flatx flat_map] in O2. rewrite !app_nil_r in *.
    rewrite hwritten_app, hxwritten_app. fold s. cbn [Model.hwritten Model.hxwritten]. rewrite !app_nil_r. auto.
  Qed.

  (** the re-entrant case: data written from inside startWriting() goes behind the backlog of its stream *)
  Lemma T_reentrant s n :
    lclosed s = false -> live s = true -> writing s = false -> closing s = false ->
    let s' := step s (RAdjust n) in
    dbytes (log s') ++ buf s' = (dbytes (log s) ++ buf s) ++ hook_w hook /\
    xbytes (log s') ++ flatx (ext s') = (xbytes (log s) ++ flatx (ext s)) ++ hook_x hook.
  Proof.
    intros Hl Hv Hw Hc s'. unfold s'. cbn [Model.step]. unfold Model.recv_adjust. rewrite Hv. cbn [negb].
    destruct (opn_add_window s n Hl) as ((O1 & O2 & _) & _). unfold wakes in O1, O2. rewrite Hw, Hc in O1, O2.
    exact (conj O1 O2).
  Qed.

  Lemma hwritten_no_hook : hook = [] -> forall ops s, hwritten s ops = written ops /\ hxwritten s ops = xwritten ops.
  Proof.
    intros Hh. induction ops as [|o r IH]; intro s; [auto|]. cbn [Model.hwritten Model.hxwritten].
    destruct (IH (step s o)) as [-> ->]. unfold Model.wdata_at, Model.xdata_at. rewrite Hh. cbn [hook_w hook_x flat_map].
    destruct (fires s o); rewrite !app_nil_r; auto.
  Qed.

  Lemma quiet_pkts es : Forall quiet es -> pkts es = [].
  Proof. induction 1 as [|e r He _ IH]; [reflexivity|]. destruct e; cbn in *; try contradiction; exact IH. Qed.

  Lemma T_once rw ops o :
    let s := reach rw ops in
    closes (log s) = (if lclosed s then 1 else 0)%nat /\
    (lclosed s = true -> lclosed (step s o) = true /\ pkts (log (step s o)) = pkts (log s)).
  Proof.
    intros s. pose proof (Inv_reach rw ops) as I. fold s in I. split; [apply (i_cc _ _ _ _ _ I)|].
    intro Hc. destruct (step_seff s o) as [_ _ _ S4 (es & L & _ & Q & _) _]. split; [auto|].
    rewrite L. unfold pkts. rewrite filter_app. fold (pkts es). rewrite (quiet_pkts es (Q Hc)), app_nil_r. reflexivity.
  Qed.

  Lemma T_close_sent rw ops :
    let s := reach rw ops in closing s = true -> buf s = [] -> ext s = [] -> lclosed s = true.
  Proof. intros s. apply (i_cl _ _ _ _ _ (Inv_reach rw ops)). Qed.

  Lemma T_compliant rw ops d :
    let s := reach rw ops in
    lwl s + recvd (log s) = lws + adjusted (log s) /\
    (live s = true -> len d <= lmp -> recvd (log s) + len d <= lws + adjusted (log s) ->
     forall cb, 
     lclosed (recv_data s cb d) = lclosed s /\
     exists pre post, log (recv_data s cb d) = log s ++ pre ++ [cb d] ++ post /\
                 pkts pre = pre /\ closes pre = 0%nat /\ (pre = [] \/ exists n, pre = [PAdjust n]) /\
                 closes post = 0%nat /\ (post = [] \/ exists n, post = [PAdjust n])).
  Proof.
    intros s. pose proof (i_rw _ _ _ _ _ (Inv_reach rw ops)) as E. fold s in E. split; [exact E|].
    intros Hl H1 H2 cb. apply recv_accepts; auto. lia.
  Qed.

  Lemma T_replenish rw ops :
    let s := reach rw ops in 2 <= lws -> lclosed s = false -> 1 <= lwl s.
  Proof.
    intros s H2 Ho. pose proof (i_lwl _ _ _ _ _ (Inv_reach rw ops)) as H. fold s in H. specialize (H Ho).
    assert (1 <= lws / 2) by (apply N.div_le_lower_bound; lia). lia.
  Qed.

End P.
