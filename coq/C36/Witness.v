(** C36: concrete witnesses (vm_compute) and examples that the theorems' hypotheses are inhabited. *)
From Coq Require Import List NArith Bool Lia.
From C36 Require Import Model Basics.
Import ListNotations.
Local Open Scope N_scope.

(** local window 1: after one accepted byte the window is 0 for ever *)
Lemma window_1_stuck : exists rmp lws lmp rw ops,
  0 < rmp /\ 1 <= lws /\
  let s := run true [] None rmp lws lmp (init rw lws) ops in
  lclosed s = false /\ live s = true /\ lwl s = 0 /\ adjusted (log s) = 0 /\
  forall d, d <> [] -> overruns lmp s (RData d) = true.
Proof.
  exists 1, 1, 1, 0, [RData [7]]. split; [lia|]. split; [lia|]. cbv zeta.
  repeat split; try (vm_compute; reflexivity).
  intros d Hd. destruct d as [|x r]; [congruence|]. cbn [overruns]. 
  replace (lwl (run true [] None 1 1 1 (init 0 1) [RData [7]])) with 0 by (vm_compute; reflexivity).
  rewrite len_cons. destruct (N.ltb_spec 0 (1 + len r)); [reflexivity|lia].
Qed.

(** once CLOSE has been sent no routine sends data any more (for either variant of addWindowBytes) *)
Lemma closed_sends_nothing hold hook radj rmp lws lmp : forall more s, lclosed s = true ->
  lclosed (run hold hook radj rmp lws lmp s more) = true /\
  xbytes (log (run hold hook radj rmp lws lmp s more)) = xbytes (log s).
Proof.
  assert (Hcc : forall s, lclosed s = true -> lclosed (channel_closed s) = true /\ xbytes (log (channel_closed s)) = xbytes (log s)).
  { intros s H. unfold channel_closed. destruct s. cbn in *. destruct live; cbn; rewrite ?xbytes_app, ?app_nil_r; auto. }
  assert (Hsc : forall s, lclosed s = true -> send_close s = s) by (intros s H; unfold send_close; now rewrite H).
  assert (Hl : forall s, lclosed s = true -> lclosed (lose s) = true /\ xbytes (log (lose s)) = xbytes (log s)).
  { intros s H. unfold lose. destruct (_ && _); [rewrite Hsc|]; cbn; auto. }
  assert (Hfd : forall cs s, lclosed s = true -> fold_left send_data cs s = s).
  { induction cs; intros s H; cbn; [reflexivity|]. unfold send_data at 2. rewrite H. auto. }
  assert (Hfe : forall t cs s, lclosed s = true -> fold_left (send_ext t) cs s = s).
  { induction cs; intros s H; cbn; [reflexivity|]. unfold send_ext at 2. rewrite H. auto. }
  assert (Hend : forall (c : bool) T s0, lclosed T = true -> xbytes (log T) = xbytes (log s0) ->
            lclosed (if c then lose T else T) = true /\ xbytes (log (if c then lose T else T)) = xbytes (log s0)).
  { intros c T s0 HT HX. destruct c; [|auto]. destruct (Hl T HT) as [A B]. split; [exact A|]. rewrite B. exact HX. }
  assert (Hw : forall s d, lclosed s = true -> lclosed (write rmp s d) = true /\ xbytes (log (write rmp s d)) = xbytes (log s)).
  { intros s d H. unfold write. destruct (buf s); [|cbn; auto].
    rewrite Hfd by (destruct (rwl s <? len d); cbn; exact H).
    apply Hend; destruct (rwl s <? len d); cbn; rewrite ?xbytes_app, ?app_nil_r; auto. }
  assert (Hx : forall s t d, lclosed s = true -> lclosed (write_ext rmp s t d) = true /\ xbytes (log (write_ext rmp s t d)) = xbytes (log s)).
  { intros s t d H. unfold write_ext. destruct (ext s); [|cbn; auto].
    rewrite Hfe by (destruct (rwl s <? len d); cbn; exact H).
    apply Hend; destruct (rwl s <? len d); cbn; rewrite ?xbytes_app, ?app_nil_r; auto. }
  assert (Hxa : forall es s, lclosed s = true -> lclosed (write_ext_all rmp s es) = true /\ xbytes (log (write_ext_all rmp s es)) = xbytes (log s)).
  { induction es as [|[t d] r IH]; intros s H; [cbn; auto|]. cbn [write_ext_all fold_left fst snd].
    destruct (Hx s t d H) as [A B]. destruct (IH _ A) as [C D]. split; [exact C|]. unfold write_ext_all in D. rewrite D, B. reflexivity. }
  assert (Ha : forall s n, lclosed s = true -> lclosed (add_window hold hook rmp s n) = true /\ xbytes (log (add_window hold hook rmp s n)) = xbytes (log s)).
  { intros s n H. unfold add_window.
    set (s2 := if _ && _ then _ else _).
    assert (lclosed s2 = true /\ xbytes (log s2) = xbytes (log s)) as [H2 X2].
    { assert (Hh : forall hk t, lclosed t = true ->
                lclosed (fold_left (fun s h => match h with HWrite d => write rmp s d | HWriteExt t0 d => write_ext rmp s t0 d end) hk t) = true /\
                xbytes (log (fold_left (fun s h => match h with HWrite d => write rmp s d | HWriteExt t0 d => write_ext rmp s t0 d end) hk t)) = xbytes (log t)).
      { induction hk as [|h r IHh]; intros t Ht; [cbn; auto|]. cbn [fold_left].
        destruct h as [d|t0 d].
        - destruct (Hw t d Ht) as [A B]. destruct (IHh _ A) as [C D]. split; [exact C|]. rewrite D. exact B.
        - destruct (Hx t t0 d Ht) as [A B]. destruct (IHh _ A) as [C D]. split; [exact C|]. rewrite D. exact B. }
      unfold s2. destruct (_ && _); [|cbn; auto]. unfold run_hook.
      destruct (Hh hook (emit CbStart (set_writing true (set_rwl (rwl s + n) s))) H) as [A B].
      split; [exact A|]. rewrite B. cbn. rewrite xbytes_app, app_nil_r. reflexivity. }
    set (s3 := match buf s2 with [] => s2 | _ => _ end).
    assert (lclosed s3 = true /\ xbytes (log s3) = xbytes (log s)) as [H3 X3].
    { unfold s3. destruct (buf s2); [auto|]. destruct (Hw (set_buf [] s2) (n0 :: b) H2) as [A B]. split; [exact A|]. rewrite B. exact X2. }
    destruct (ext s3) eqn:E; [auto|]. destruct hold.
    - destruct (Hxa (p :: l) (set_closing false (set_ext [] s3)) H3) as [A B].
      destruct (closing s3).
      + destruct (Hl (set_closing true (write_ext_all rmp (set_closing false (set_ext [] s3)) (p :: l))) A) as [C D].
        split; [exact C|]. rewrite D. cbn [log set_closing]. rewrite B. exact X3.
      + split; [exact A|]. cbn [log set_closing]. rewrite B. exact X3.
    - destruct (Hxa (p :: l) (set_ext [] s3) H3) as [A B]. split; [exact A|]. rewrite B. exact X3. }
  induction more as [|o r IH]; intros s H; [cbn; auto|]. cbn [run fold_left].
  assert (lclosed (step hold hook radj rmp lws lmp s o) = true /\ xbytes (log (step hold hook radj rmp lws lmp s o)) = xbytes (log s)) as [A B].
  { destruct o; cbn [step]; auto.
    - unfold recv_adjust. destruct (live s); cbn [negb]; [auto|]. cbn. rewrite xbytes_app, app_nil_r. auto.
    - unfold recv_data. destruct (live s); cbn [negb]; [|cbn; rewrite xbytes_app, app_nil_r; auto].
      destruct (_ || _); [rewrite Hsc; auto|]. unfold adjust_window. cbn [lclosed set_lwl]. rewrite H.
      destruct radj, (_ <? _); cbn [lclosed emit set_lwl log]; rewrite ?H; cbn; rewrite xbytes_app, app_nil_r; auto.
    - unfold recv_data. destruct (live s); cbn [negb]; [|cbn; rewrite xbytes_app, app_nil_r; auto].
      destruct (_ || _); [rewrite Hsc; auto|]. unfold adjust_window. cbn [lclosed set_lwl]. rewrite H.
      destruct radj, (_ <? _); cbn [lclosed emit set_lwl log]; rewrite ?H; cbn; rewrite xbytes_app, app_nil_r; auto.
    - unfold recv_close. destruct (live s); cbn [negb]; [|cbn; rewrite xbytes_app, app_nil_r; auto].
      destruct (Hl s H) as [C D]. cbn [lclosed rclosed set_rclosed]. rewrite C. cbn [andb].
      destruct (Hcc (set_rclosed true (lose s)) C) as [E F]. split; [exact E|]. rewrite F. exact D.
    - unfold adjust_window. rewrite H. auto. }
  destruct (IH _ A) as [C D]. split; [exact C|]. unfold run in D. rewrite D. exact B.
Qed.

(** the pinned code: writeExtended 1 "a"; writeExtended 2 "b"; loseConnection; WINDOW_ADJUST 9
    sends  EXT(1,"a")  CLOSE  and never EXT(2,"b") *)
Lemma pinned_witness : exists rmp lws lmp rw ops o,
  0 < rmp /\
  let s := run false [] None rmp lws lmp (init rw lws) ops in
  let s' := step false [] None rmp lws lmp s o in
  lclosed s = false /\ lclosed s' = true /\ overruns lmp s o = false /\
  xbytes (log s') <> xwritten (ops ++ [o]) /\
  forall more, xbytes (log (run false [] None rmp lws lmp s' more)) = xbytes (log s').
Proof.
  exists 5, 4, 4, 0, [WriteExt 1 [97]; WriteExt 2 [98]; Lose], (RAdjust 9).
  split; [lia|]. cbv zeta. split; [vm_compute; reflexivity|]. split; [vm_compute; reflexivity|].
  split; [reflexivity|]. split; [vm_compute; discriminate|].
  intro more. apply closed_sends_nothing. vm_compute. reflexivity.
Qed.

(** the same history on the repaired machine: both entries, then CLOSE *)
Example repaired_flushes_both :
  pkts (log (run true [] None 5 4 4 (init 0 4) [WriteExt 1 [97]; WriteExt 2 [98]; Lose; RAdjust 9]))
  = [PExt 1 [97]; PExt 2 [98]; PClose].
Proof. vm_compute. reflexivity. Qed.

(** the hypotheses of close_only_after_buffers_empty are met by a non-trivial history: data buffered on
    both streams, close requested, window arriving in pieces; the last adjust triggers CLOSE *)
Example close_hypotheses_inhabited :
  let ops := [Write [1;2;3;4]; WriteExt 1 [5;6]; WriteExt 2 [7]; Write [8]; Lose; RAdjust 2; RData [9;9;9]] in
  let s := run true [] None 2 4 3 (init 1 4) ops in
  let s' := step true [] None 2 4 3 s (RAdjust 9) in
  lclosed s = false /\ buf s = [4;8] /\ ext s = [(1, [5;6]); (2, [7])] /\ closing s = true /\
  overruns 3 s (RAdjust 9) = false /\ lclosed s' = true /\
  pkts (log s') = [PData [1]; PData [2;3]; PAdjust 3; PData [4;8]; PExt 1 [5;6]; PExt 2 [7]; PClose].
Proof. vm_compute. repeat split; reflexivity. Qed.

(** re-entrant application: startWriting() writes "YZ" (normal) and "e" (extended) synchronously.  Backlog "bcd" with
    no window; WINDOW_ADJUST 6: the hook's normal data goes out BEHIND the normal backlog (the extended stream
    has no backlog, so its byte is sent at once) *)
Example hook_data_follows_backlog :
  let hook := [HWrite [89; 90]; HWriteExt 1 [101]] in
  pkts (log (run true hook None 4 8 8 (init 1 8) [Write [97; 98; 99; 100]; RAdjust 6]))
  = [PData [97]; PExt 1 [101]; PData [98; 99; 100; 89]; PData [90]].
Proof. vm_compute. reflexivity. Qed.
