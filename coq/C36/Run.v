(** C36: printers used by the correspondence check only. *)
From Coq Require Import List NArith Bool String.
From TwLib Require Import Show.
From C36 Require Import Model.
Import ListNotations.
Local Open Scope string_scope.

Definition show_ev (e : ev) : string :=
  match e with
  | PData d => "D" ++ show_hex d
  | PExt t d => "X" ++ show_N t ++ ":" ++ show_hex d
  | PClose => "C"
  | PAdjust n => "A" ++ show_N n
  | CbData d => "r" ++ show_hex d
  | CbExt t d => "e" ++ show_N t ++ ":" ++ show_hex d
  | CbClosed => "z"
  | CbStop => "-"
  | CbStart => "+"
  | KeyErr => "K"
  end.

Definition show_evs (l : list ev) : string :=
  match l with [] => "." | _ => String.concat "," (map show_ev l) end.

Definition clear (s : st) : st :=
  mk (buf s) (ext s) (rwl s) (closing s) (lclosed s) (rclosed s) (live s) (writing s) (lwl s) [].

Section R.
  Variables (hold : bool) (hook : list hop) (radj : option N) (rmp lws lmp : N).
  Fixpoint run_ops (s : st) (ops : list op) : list string * st :=
    match ops with
    | [] => ([], s)
    | o :: r => let s1 := step hold hook radj rmp lws lmp (clear s) o in
                let '(l, s2) := run_ops s1 r in (show_evs (log s1) :: l, s2)
    end.
End R.

(** case = (hold, hook, radj, (rw, rmp, lws, lmp), ops) *)
Definition run_show (c : bool * list hop * option N * (N * N * N * N) * list op) : string :=
  let '(hold, hook, radj, (rw, rmp, lws, lmp), ops) := c in
  let '(l, s) := run_ops hold hook radj rmp lws lmp (init rw lws) ops in
  String.concat " " l ++ " |rw=" ++ show_N (rwl s) ++ " lw=" ++ show_N (lwl s)
  ++ " lc=" ++ show_bool (lclosed s) ++ " rc=" ++ show_bool (rclosed s).
