(** C36: list/N facts about the slicing helpers and the readings of the ghost log. *)
From Coq Require Import List NArith Bool Lia.
From C36 Require Import Model.
Import ListNotations.
Local Open Scope N_scope.

Lemma len_nil {A} : len (@nil A) = 0. Proof. reflexivity. Qed.
Lemma len_cons {A} (x : A) l : len (x :: l) = 1 + len l.
Proof. unfold len. cbn [length]. lia. Qed.
Lemma len_app {A} (a b : list A) : len (a ++ b) = len a + len b.
Proof. unfold len. rewrite app_length. lia. Qed.
Lemma len_0 {A} (l : list A) : len l = 0 -> l = [].
Proof. destruct l; [reflexivity|]. rewrite len_cons. lia. Qed.
Lemma len_map {A B} (f : A -> B) l : len (map f l) = len l.
Proof. unfold len. now rewrite map_length. Qed.

Lemma take_drop {A} n (l : list A) : take n l ++ drop n l = l.
Proof.
  revert n. induction l as [|x r IH]; intro n; cbn; [reflexivity|].
  destruct (n =? 0); cbn; [reflexivity|]. now rewrite IH.
Qed.

Lemma len_take {A} n (l : list A) : len (take n l) = N.min n (len l).
Proof.
  revert n. induction l as [|x r IH]; intro n; cbn [take].
  - rewrite len_nil. lia.
  - destruct (N.eqb_spec n 0) as [->|Hn]; [rewrite len_nil; lia|].
    rewrite !len_cons, IH. lia.
Qed.

Lemma len_drop {A} n (l : list A) : len (drop n l) = len l - n.
Proof.
  revert n. induction l as [|x r IH]; intro n; cbn [drop].
  - rewrite len_nil. lia.
  - destruct (N.eqb_spec n 0) as [->|Hn]; [lia|]. rewrite len_cons, IH. lia.
Qed.

Lemma take_all {A} n (l : list A) : len l <= n -> take n l = l.
Proof.
  intro H. pose proof (take_drop n l) as E. pose proof (len_drop n l) as L.
  assert (drop n l = []) as D by (apply len_0; lia). rewrite D, app_nil_r in E. exact E.
Qed.

Lemma drop_nonnil {A} n (l : list A) : n < len l -> drop n l <> [].
Proof. intros H E. pose proof (len_drop n l) as L. rewrite E, len_nil in L. lia. Qed.

(** chunking *)
Lemma concat_chunks k d : 0 < k -> forall f, (length d <= f)%nat -> concat (chunks f k d) = d.
Proof.
  intros Hk f. revert d. induction f as [|f IH]; intros d Hf.
  - destruct d; [reflexivity|cbn in Hf; lia].
  - cbn [chunks]. destruct d as [|x r]; [reflexivity|]. cbn [concat].
    rewrite IH; [apply take_drop|].
    pose proof (len_drop k (x :: r)) as L. unfold len in L. cbn [length] in *. lia.
Qed.

Lemma chunks_ok k d : 0 < k -> forall f, Forall (fun c => 1 <= len c /\ len c <= k) (chunks f k d).
Proof.
  intros Hk f. revert d. induction f as [|f IH]; intro d; cbn [chunks]; [constructor|].
  destruct d as [|x r]; constructor; [|apply IH].
  rewrite len_take, len_cons. lia.
Qed.

(** readings of the log are monoid homomorphisms *)
Lemma dbytes_app a b : dbytes (a ++ b) = dbytes a ++ dbytes b. Proof. apply flat_map_app. Qed.
Lemma xbytes_app a b : xbytes (a ++ b) = xbytes a ++ xbytes b. Proof. apply flat_map_app. Qed.
Lemma delivered_app a b : delivered (a ++ b) = delivered a ++ delivered b. Proof. apply flat_map_app. Qed.
Lemma flatx_app a b : flatx (a ++ b) = flatx a ++ flatx b. Proof. apply flat_map_app. Qed.
Lemma sent_app a b : sent (a ++ b) = sent a + sent b.
Proof. induction a as [|e a IH]; cbn [sent app]; [lia|rewrite IH; lia]. Qed.
Lemma recvd_app a b : recvd (a ++ b) = recvd a + recvd b.
Proof. induction a as [|e a IH]; cbn [recvd app]; [lia|rewrite IH; lia]. Qed.
Lemma adjusted_app a b : adjusted (a ++ b) = adjusted a + adjusted b.
Proof. induction a as [|e a IH]; cbn [adjusted app]; [lia|rewrite IH; lia]. Qed.
Lemma closes_app a b : closes (a ++ b) = (closes a + closes b)%nat.
Proof. unfold closes. now rewrite filter_app, app_length. Qed.
Lemma granted_app a b : granted (a ++ b) = granted a + granted b.
Proof. induction a as [|e a IH]; cbn [granted app]; [lia|rewrite IH; lia]. Qed.
Lemma written_app a b : written (a ++ b) = written a ++ written b. Proof. apply flat_map_app. Qed.
Lemma xwritten_app a b : xwritten (a ++ b) = xwritten a ++ xwritten b. Proof. apply flat_map_app. Qed.

(** readings of a burst of data packets *)
Lemma dbytes_PData cs : dbytes (map PData cs) = concat cs.
Proof. induction cs as [|c r IH]; cbn; [reflexivity|]. unfold dbytes in IH. now rewrite IH. Qed.
Lemma dbytes_PExt t cs : dbytes (map (PExt t) cs) = [].
Proof. induction cs as [|c r IH]; cbn; [reflexivity|exact IH]. Qed.
Lemma xbytes_PData cs : xbytes (map PData cs) = [].
Proof. induction cs as [|c r IH]; cbn; [reflexivity|exact IH]. Qed.
Lemma xbytes_PExt t cs : xbytes (map (PExt t) cs) = map (pair t) (concat cs).
Proof. induction cs as [|c r IH]; cbn; [reflexivity|]. unfold xbytes in IH. now rewrite IH, map_app. Qed.
Lemma sent_PData cs : sent (map PData cs) = len (concat cs).
Proof. induction cs as [|c r IH]; cbn [map sent concat sent_ev]; [reflexivity|]. rewrite IH, len_app. lia. Qed.
Lemma sent_PExt t cs : sent (map (PExt t) cs) = len (concat cs).
Proof. induction cs as [|c r IH]; cbn [map sent concat sent_ev]; [reflexivity|]. rewrite IH, len_app. lia. Qed.
Lemma closes_PData cs : closes (map PData cs) = 0%nat.
Proof. induction cs as [|c r IH]; cbn; [reflexivity|exact IH]. Qed.
Lemma closes_PExt t cs : closes (map (PExt t) cs) = 0%nat.
Proof. induction cs as [|c r IH]; cbn; [reflexivity|exact IH]. Qed.
Lemma recvd_PData cs : recvd (map PData cs) = 0.
Proof. induction cs as [|c r IH]; cbn; [reflexivity|exact IH]. Qed.
Lemma recvd_PExt t cs : recvd (map (PExt t) cs) = 0.
Proof. induction cs as [|c r IH]; cbn; [reflexivity|exact IH]. Qed.
Lemma adjusted_PData cs : adjusted (map PData cs) = 0.
Proof. induction cs as [|c r IH]; cbn; [reflexivity|exact IH]. Qed.
Lemma adjusted_PExt t cs : adjusted (map (PExt t) cs) = 0.
Proof. induction cs as [|c r IH]; cbn; [reflexivity|exact IH]. Qed.
Lemma delivered_PData cs : delivered (map PData cs) = [].
Proof. induction cs as [|c r IH]; cbn; [reflexivity|exact IH]. Qed.
Lemma delivered_PExt t cs : delivered (map (PExt t) cs) = [].
Proof. induction cs as [|c r IH]; cbn; [reflexivity|exact IH]. Qed.
Lemma pkt_ok_PData rmp cs : Forall (fun c => 1 <= len c /\ len c <= rmp) cs -> Forall (pkt_ok rmp) (map PData cs).
Proof. induction 1; cbn; constructor; auto. Qed.
Lemma pkt_ok_PExt rmp t cs : Forall (fun c => 1 <= len c /\ len c <= rmp) cs -> Forall (pkt_ok rmp) (map (PExt t) cs).
Proof. induction 1; cbn; constructor; auto. Qed.

Lemma flatx_ext_add e t d : e <> [] -> flatx (ext_add e t d) = flatx e ++ map (pair t) d.
Proof.
  induction e as [|[t0 d0] r IH]; intro H; [congruence|].
  destruct r as [|y r'].
  - cbn [ext_add]. destruct (N.eqb_spec t0 t) as [->|Ht]; cbn; rewrite ?app_nil_r, ?map_app; reflexivity.
  - change (ext_add ((t0, d0) :: y :: r') t d) with ((t0, d0) :: ext_add (y :: r') t d).
    change (flatx ((t0, d0) :: ?l)) with (map (pair t0) d0 ++ flatx l).
    rewrite IH by congruence. cbn. now rewrite app_assoc.
Qed.

Lemma ext_add_nonnil e t d : ext_add e t d <> [].
Proof. destruct e as [|[t0 d0] [|y r]]; cbn; [congruence| |congruence]. destruct (t0 =? t); congruence. Qed.
