(** C36: SSH channel flow control (src/twisted/conch/ssh/channel.py, connection.py).

    One SSHChannel multiplexed over one SSHConnection, as a step machine.  The state holds the
    channel's send side (buf, extBuf, remoteWindowLeft, closing, areWriting), its receive side
    (localWindowLeft), the close flags kept by the connection (localClosed, remoteClosed, and
    whether the connection still knows the channel), and a ghost [log] of everything observable:
    the packets handed to transport.sendPacket and the callbacks invoked on the channel.

    Constants of a run: [rmp] = remoteMaxPacket, [lws] = localWindowSize, [lmp] = localMaxPacket.
    [hold] selects the behaviour of addWindowBytes while it re-writes the detached extBuf entries:
    [true]  = a requested close is held back until every detached entry has been re-written
              (fixes/C36-close-before-extbuf-flushed.patch);
    [false] = the code as pinned (writeExtended's "try again" loseConnection() sees the detached,
              hence empty, extBuf and sends CLOSE while later entries are still unwritten). *)
From Coq Require Import List NArith Bool.
Import ListNotations.
Local Open Scope N_scope.

Definition bytes := list N.

Inductive ev :=
| PData (d : bytes)            (* MSG_CHANNEL_DATA sent *)
| PExt (t : N) (d : bytes)     (* MSG_CHANNEL_EXTENDED_DATA sent *)
| PClose                       (* MSG_CHANNEL_CLOSE sent *)
| PAdjust (n : N)              (* MSG_CHANNEL_WINDOW_ADJUST sent *)
| CbData (d : bytes)           (* channel.dataReceived(d) *)
| CbExt (t : N) (d : bytes)    (* channel.extReceived(t, d) *)
| CbClosed                     (* channel.closed() *)
| CbStop                       (* channel.stopWriting() *)
| CbStart                      (* channel.startWriting() *)
| KeyErr.                      (* the connection no longer knows the channel: KeyError *)

Inductive op :=
| Write (d : bytes)            (* channel.write(d) *)
| WriteExt (t : N) (d : bytes) (* channel.writeExtended(t, d) *)
| Lose                         (* channel.loseConnection() *)
| RAdjust (n : N)              (* peer: MSG_CHANNEL_WINDOW_ADJUST *)
| RData (d : bytes)            (* peer: MSG_CHANNEL_DATA *)
| RExt (t : N) (d : bytes)     (* peer: MSG_CHANNEL_EXTENDED_DATA *)
| RClose                       (* peer: MSG_CHANNEL_CLOSE *)
| AppAdjust (n : N).           (* receiving application: conn.adjustWindow(channel, n) *)

(** what a channel subclass's startWriting() hook does synchronously (a push producer resuming inside the hook) *)
Inductive hop := HWrite (d : bytes) | HWriteExt (t : N) (d : bytes).

Record st := mk {
  buf : bytes; ext : list (N * bytes); rwl : N; closing : bool;
  lclosed : bool; rclosed : bool; live : bool; writing : bool; lwl : N; log : list ev }.

Definition set_buf v s := mk v (ext s) (rwl s) (closing s) (lclosed s) (rclosed s) (live s) (writing s) (lwl s) (log s).
Definition set_ext v s := mk (buf s) v (rwl s) (closing s) (lclosed s) (rclosed s) (live s) (writing s) (lwl s) (log s).
Definition set_rwl v s := mk (buf s) (ext s) v (closing s) (lclosed s) (rclosed s) (live s) (writing s) (lwl s) (log s).
Definition set_closing v s := mk (buf s) (ext s) (rwl s) v (lclosed s) (rclosed s) (live s) (writing s) (lwl s) (log s).
Definition set_lclosed v s := mk (buf s) (ext s) (rwl s) (closing s) v (rclosed s) (live s) (writing s) (lwl s) (log s).
Definition set_rclosed v s := mk (buf s) (ext s) (rwl s) (closing s) (lclosed s) v (live s) (writing s) (lwl s) (log s).
Definition set_live v s := mk (buf s) (ext s) (rwl s) (closing s) (lclosed s) (rclosed s) v (writing s) (lwl s) (log s).
Definition set_writing v s := mk (buf s) (ext s) (rwl s) (closing s) (lclosed s) (rclosed s) (live s) v (lwl s) (log s).
Definition set_lwl v s := mk (buf s) (ext s) (rwl s) (closing s) (lclosed s) (rclosed s) (live s) (writing s) v (log s).
Definition emit e s := mk (buf s) (ext s) (rwl s) (closing s) (lclosed s) (rclosed s) (live s) (writing s) (lwl s) (log s ++ [e]).
Definition emits es s := mk (buf s) (ext s) (rwl s) (closing s) (lclosed s) (rclosed s) (live s) (writing s) (lwl s) (log s ++ es).

(** Python slicing d[:n], d[n:] and len, with N counters (no unary numbers for window sizes). *)
Fixpoint take {A} (n : N) (l : list A) : list A :=
  match l with [] => [] | x :: r => if n =? 0 then [] else x :: take (N.pred n) r end.
Fixpoint drop {A} (n : N) (l : list A) : list A :=
  match l with [] => [] | x :: r => if n =? 0 then l else drop (N.pred n) r end.
Definition len {A} (l : list A) : N := N.of_nat (length l).
Definition is_nil {A} (l : list A) : bool := match l with [] => true | _ => false end.

(** d[0:k], d[k:2k], ... (range(0, len d, k) in write; the while/if pair in writeExtended).
    Fuel = length d is enough when k >= 1; with k = 0 the code raises ValueError / does not
    terminate, which every theorem excludes by 0 < rmp. *)
Fixpoint chunks (fuel : nat) (k : N) (d : bytes) : list bytes :=
  match fuel with
  | O => []
  | S f => match d with [] => [] | _ => take k d :: chunks f k (drop k d) end
  end.

(** extBuf[-1][0] == dataType ? extBuf[-1][1] += data : extBuf.append([dataType, data]) *)
Fixpoint ext_add (e : list (N * bytes)) (t : N) (d : bytes) : list (N * bytes) :=
  match e with
  | [] => [(t, d)]
  | [(t0, d0)] => if t0 =? t then [(t0, d0 ++ d)] else [(t0, d0); (t, d)]
  | x :: r => x :: ext_add r t d
  end.

Section Machine.
  (** [radj] = what the application does from inside dataReceived()/extReceived(): [Some n] = it calls
      conn.adjustWindow(channel, n) synchronously, [None] = nothing *)
  Variables (hold : bool) (hook : list hop) (radj : option N) (rmp lws lmp : N).

  (** SSHConnection.channelClosed / sendClose / sendData / sendExtendedData / adjustWindow *)
  Definition channel_closed (s : st) : st :=
    if live s then emit CbClosed (set_live false (set_rclosed true (set_lclosed true s))) else s.

  Definition send_close (s : st) : st :=
    if lclosed s then s
    else let s1 := set_lclosed true (emit PClose s) in
         if rclosed s1 then channel_closed s1 else s1.

  Definition send_data (s : st) (c : bytes) : st := if lclosed s then s else emit (PData c) s.
  Definition send_ext (t : N) (s : st) (c : bytes) : st := if lclosed s then s else emit (PExt t c) s.

  Definition adjust_window (s : st) (n : N) : st :=
    if lclosed s then s else set_lwl (lwl s + n) (emit (PAdjust n) s).

  (** SSHChannel.loseConnection *)
  Definition lose (s : st) : st :=
    let s1 := set_closing true s in
    if is_nil (buf s1) && is_nil (ext s1) then send_close s1 else s1.

  (** SSHChannel.write *)
  Definition write (s : st) (d : bytes) : st :=
    match buf s with
    | _ :: _ => set_buf (buf s ++ d) s
    | [] =>
      let over := rwl s <? len d in
      let d1 := if over then take (rwl s) d else d in
      let s1 := if over then set_writing false (set_buf (drop (rwl s) d) s) else s in
      let s2 := fold_left send_data (chunks (length d1) rmp d1) s1 in
      let s3 := set_rwl (rwl s2 - len d1) s2 in
      (* stopWriting() is called once the packets are out and the window is charged
         (fixes/C36-stopwriting-after-accounting.patch) *)
      let s4 := if over then emit CbStop s3 else s3 in
      if closing s4 && is_nil (buf s4) then lose s4 else s4
    end.

  (** SSHChannel.writeExtended *)
  Definition write_ext (s : st) (t : N) (d : bytes) : st :=
    match ext s with
    | _ :: _ => set_ext (ext_add (ext s) t d) s
    | [] =>
      let over := rwl s <? len d in
      let d1 := if over then take (rwl s) d else d in
      let s1 := if over then set_writing false (set_ext [(t, drop (rwl s) d)] s) else s in
      let s2 := fold_left (send_ext t) (chunks (length d1) rmp d1) s1 in
      let s3 := set_rwl (rwl s2 - len d1) s2 in
      let s4 := if over then emit CbStop s3 else s3 in
      if closing s4 then lose s4 else s4
    end.

  Definition write_ext_all (s : st) (es : list (N * bytes)) : st :=
    fold_left (fun s e => write_ext s (fst e) (snd e)) es s.

  (** the application's startWriting(): the writes of [hook], in order, made from INSIDE the hook *)
  Definition run_hook (s : st) : st :=
    fold_left (fun s h => match h with HWrite d => write s d | HWriteExt t d => write_ext s t d end) hook s.

  (** SSHChannel.addWindowBytes *)
  Definition add_window (s : st) (n : N) : st :=
    let s1 := set_rwl (rwl s + n) s in
    let s2 := if negb (writing s1) && negb (closing s1) then run_hook (emit CbStart (set_writing true s1)) else s1 in
    let s3 := match buf s2 with [] => s2 | b => write (set_buf [] s2) b end in
    match ext s3 with
    | [] => s3
    | b =>
      if hold then
        let c := closing s3 in
        let s4 := write_ext_all (set_closing false (set_ext [] s3)) b in
        let s5 := set_closing c s4 in
        if c then lose s5 else s5
      else write_ext_all (set_ext [] s3) b
    end.

  (** SSHConnection.ssh_CHANNEL_DATA / ssh_CHANNEL_EXTENDED_DATA ([cb] = which callback) *)
  Definition recv_data (s : st) (cb : bytes -> ev) (d : bytes) : st :=
    if negb (live s) then emit KeyErr s else
    let n := len d in
    if (lwl s <? n) || (lmp <? n) then send_close s else
    let s1 := set_lwl (lwl s - n) s in
    let s2 := if lwl s1 <? lws / 2 then adjust_window s1 (lws - lwl s1) else s1 in
    let s3 := emit (cb d) s2 in
    match radj with Some n => adjust_window s3 n | None => s3 end.

  (** SSHConnection.ssh_CHANNEL_WINDOW_ADJUST / ssh_CHANNEL_CLOSE (closeReceived = loseConnection) *)
  Definition recv_adjust (s : st) (n : N) : st :=
    if negb (live s) then emit KeyErr s else add_window s n.

  Definition recv_close (s : st) : st :=
    if negb (live s) then emit KeyErr s else
    let s1 := set_rclosed true (lose s) in
    if lclosed s1 && rclosed s1 then channel_closed s1 else s1.

  Definition step (s : st) (o : op) : st :=
    match o with
    | Write d => write s d
    | WriteExt t d => write_ext s t d
    | Lose => lose s
    | RAdjust n => recv_adjust s n
    | RData d => recv_data s CbData d
    | RExt t d => recv_data s (CbExt t) d
    | RClose => recv_close s
    | AppAdjust n => adjust_window s n
    end.

  Definition run (s : st) (ops : list op) : st := fold_left step ops s.
End Machine.

(** channel opened with remote window [rw]; local window = [lws] *)
Definition init (rw lws : N) : st := mk [] [] rw false false false true true lws [].

(** ---- readings of the ghost log and of the history (what the property talks about) ---- *)
Definition dbytes_ev (e : ev) : bytes := match e with PData d => d | _ => [] end.
Definition xbytes_ev (e : ev) : list (N * N) := match e with PExt t d => map (pair t) d | _ => [] end.
Definition dbytes (l : list ev) : bytes := flat_map dbytes_ev l.               (* normal data sent, in order *)
Definition xbytes (l : list ev) : list (N * N) := flat_map xbytes_ev l.        (* (type, byte) sent, in order *)
Definition flatx (e : list (N * bytes)) : list (N * N) := flat_map (fun p => map (pair (fst p)) (snd p)) e.

Definition sent_ev (e : ev) : N := match e with PData d | PExt _ d => len d | _ => 0 end.
Fixpoint sent (l : list ev) : N := match l with [] => 0 | e :: r => sent_ev e + sent r end.
Definition is_close (e : ev) : bool := match e with PClose => true | _ => false end.
Definition closes (l : list ev) : nat := length (filter is_close l).
Definition is_pkt (e : ev) : bool := match e with PData _ | PExt _ _ | PClose | PAdjust _ => true | _ => false end.
Definition pkts (l : list ev) : list ev := filter is_pkt l.   (* what went to transport.sendPacket *)

(** a CHANNEL_DATA / EXTENDED_DATA packet that overruns the advertised window or the max packet size *)
Definition overruns (lmp : N) (s : st) (o : op) : bool :=
  match o with RData d | RExt _ d => (lwl s <? len d) || (lmp <? len d) | _ => false end.

Definition pkt_ok (rmp : N) (e : ev) : Prop :=
  match e with PData d | PExt _ d => 1 <= len d /\ len d <= rmp | _ => True end.

Definition wdata (o : op) : bytes := match o with Write d => d | _ => [] end.
Definition xdata (o : op) : list (N * N) := match o with WriteExt t d => map (pair t) d | _ => [] end.
Definition grant (o : op) : N := match o with RAdjust n => n | _ => 0 end.
Definition written (ops : list op) : bytes := flat_map wdata ops.
Definition xwritten (ops : list op) : list (N * N) := flat_map xdata ops.
Fixpoint granted (ops : list op) : N := match ops with [] => 0 | o :: r => grant o + granted r end.

(** data handed to write() / writeExtended() from inside startWriting(): the hook runs in a WINDOW_ADJUST step
    exactly when the connection still knows the channel, the channel is not writing and no close is pending *)
Definition fires (s : st) (o : op) : bool :=
  match o with RAdjust _ => live s && negb (writing s) && negb (closing s) | _ => false end.
Definition hook_w (hook : list hop) : bytes := flat_map (fun h => match h with HWrite d => d | _ => [] end) hook.
Definition hook_x (hook : list hop) : list (N * N) :=
  flat_map (fun h => match h with HWriteExt t d => map (pair t) d | _ => [] end) hook.
Definition wdata_at (hook : list hop) (s : st) (o : op) : bytes := wdata o ++ (if fires s o then hook_w hook else []).
Definition xdata_at (hook : list hop) (s : st) (o : op) : list (N * N) :=
  xdata o ++ (if fires s o then hook_x hook else []).

Section Written.
  Variables (hold : bool) (hook : list hop) (radj : option N) (rmp lws lmp : N).
  (** everything handed to write() (resp. writeExtended()) along a history, in call order, including the calls made
      re-entrantly from startWriting() *)
  Fixpoint hwritten (s : st) (ops : list op) : bytes :=
    match ops with [] => [] | o :: r => wdata_at hook s o ++ hwritten (step hold hook radj rmp lws lmp s o) r end.
  Fixpoint hxwritten (s : st) (ops : list op) : list (N * N) :=
    match ops with [] => [] | o :: r => xdata_at hook s o ++ hxwritten (step hold hook radj rmp lws lmp s o) r end.
End Written.

(** receive side *)
Definition recvd_ev (e : ev) : N := match e with CbData d | CbExt _ d => len d | _ => 0 end.
Definition adj_ev (e : ev) : N := match e with PAdjust n => n | _ => 0 end.
Fixpoint recvd (l : list ev) : N := match l with [] => 0 | e :: r => recvd_ev e + recvd r end.
Fixpoint adjusted (l : list ev) : N := match l with [] => 0 | e :: r => adj_ev e + adjusted r end.
Definition delivered_ev (e : ev) : list (option N * bytes) :=
  match e with CbData d => [(None, d)] | CbExt t d => [(Some t, d)] | _ => [] end.
Definition delivered (l : list ev) := flat_map delivered_ev l.
