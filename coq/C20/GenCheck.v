(** C20: the token byte table regenerated from src/twisted/web/_abnf.py agrees with the model's [is_tchar]
    (HttpRespBytes) on every byte value, and above 255 the model accepts nothing. *)
From Coq Require Import List NArith Bool Lia.
From TwLib Require Import HttpRespBytes.
From C20 Require Import Gen.
Import ListNotations.
Local Open Scope N_scope.

Lemma istoken_table_is_tchar_on_bytes :
  forallb (fun c => Bool.eqb (is_tchar c) (existsb (N.eqb c) istoken_table)) (map N.of_nat (seq 0 256)) = true.
Proof. vm_compute. reflexivity. Qed.

Lemma tchar_is_a_byte c : is_tchar c = true -> c < 256.
Proof. unfold is_tchar, is_alpha, is_digit. cbn [existsb]. lia. Qed.

Lemma istoken_table_is_tchar c : is_tchar c = existsb (N.eqb c) istoken_table.
Proof.
  destruct (N.lt_ge_cases c 256) as [L|G].
  - pose proof istoken_table_is_tchar_on_bytes as A. rewrite forallb_forall in A.
    assert (I : In c (map N.of_nat (seq 0 256))).
    { rewrite <- (N2Nat.id c). apply in_map, in_seq. lia. }
    apply A in I. apply Bool.eqb_prop in I. exact I.
  - destruct (is_tchar c) eqn:E; [apply tchar_is_a_byte in E; lia|].
    symmetry. apply not_true_is_false. intro H. apply existsb_exists in H as (x & Hx & Ex). apply N.eqb_eq in Ex. subst x.
    assert (forallb (fun x => x <? 256) istoken_table = true) as B by (vm_compute; reflexivity).
    rewrite forallb_forall in B. apply B in Hx. lia.
Qed.

(** http.NO_BODY_CODES as regenerated from the source is exactly the model's [nobody_code] (204, 304) *)
From C20 Require Import Model.

Lemma no_body_codes_is_nobody_code c : nobody_code c = existsb (N.eqb c) no_body_codes.
Proof. unfold nobody_code, no_body_codes. cbn [existsb]. rewrite orb_false_r. reflexivity. Qed.
