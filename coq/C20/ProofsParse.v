(** C20 proofs, part 1: the Spec parser reads back what the emitter writes (lines, status line, chunks);
    sanitisation removes every CR / LF. *)
From Coq Require Import List NArith ZArith Bool Lia ZifyBool Arith.
From TwLib Require Import HttpRespBytes.
From C20 Require Import Model.
Import ListNotations.
Local Open Scope N_scope.

(** ---------- sanitisation ---------- *)

Lemma san_no_crlf_len : forall n v, (length v <= n)%nat -> no_crlf (san v) = true.
Proof.
  induction n as [|n IH]; intros v Hn.
  - destruct v; [reflexivity|cbn in Hn; lia].
  - destruct v as [|c r]; [reflexivity|]. cbn [san]. cbn [length] in Hn.
    destruct (c =? 13) eqn:E1.
    + destruct r as [|d r']; [reflexivity|]. cbn [length] in Hn.
      destruct (d =? 10) eqn:E2.
      * destruct r' as [|e r'']; [reflexivity|]. cbn [no_crlf forallb]. 
        change (forallb (fun c0 => negb (is_crlf_byte c0)) (san (e :: r''))) with (no_crlf (san (e :: r''))).
        rewrite IH by (cbn [length] in *; lia). reflexivity.
      * cbn [no_crlf forallb].
        change (forallb (fun c0 => negb (is_crlf_byte c0)) (san (d :: r'))) with (no_crlf (san (d :: r'))).
        rewrite IH by (cbn [length]; lia). reflexivity.
    + destruct (c =? 10) eqn:E2.
      * destruct r as [|d r']; [reflexivity|]. cbn [no_crlf forallb].
        change (forallb (fun c0 => negb (is_crlf_byte c0)) (san (d :: r'))) with (no_crlf (san (d :: r'))).
        rewrite IH by (cbn [length] in *; lia). reflexivity.
      * cbn [no_crlf forallb]. 
        change (forallb (fun c0 => negb (is_crlf_byte c0)) (san r)) with (no_crlf (san r)).
        rewrite IH by lia. unfold is_crlf_byte. rewrite E1, E2. reflexivity.
Qed.

Lemma san_no_crlf v : no_crlf (san v) = true.
Proof. apply (san_no_crlf_len (length v)). lia. Qed.

(** a value without CR / LF is left alone (so sanitising twice is harmless) *)
Lemma san_id v : no_crlf v = true -> san v = v.
Proof.
  induction v as [|c r IH]; [reflexivity|]. cbn [no_crlf forallb]. intro H.
  apply andb_true_iff in H as [Hc Hr]. unfold is_crlf_byte in Hc. cbn [san].
  destruct (c =? 13) eqn:E1; [discriminate|]. destruct (c =? 10) eqn:E2; [discriminate|].
  rewrite (IH Hr). reflexivity.
Qed.

Lemma san_idem v : san (san v) = san v.
Proof. apply san_id, san_no_crlf. Qed.

Lemma csan_clean v : forallb (fun c => negb (is_crlf_byte c) && negb (c =? 59)) (csan v) = true.
Proof.
  unfold csan. pose proof (san_no_crlf v) as H. unfold no_crlf in H.
  induction (san v) as [|c r IH]; [reflexivity|]. cbn [forallb map] in *.
  apply andb_true_iff in H as [Hc Hr]. rewrite (IH Hr). unfold is_crlf_byte in *.
  destruct (c =? 59) eqn:E; [reflexivity|]. rewrite Hc, E. reflexivity.
Qed.

(** ---------- field lines ---------- *)

Lemma token_not_colon k : forallb is_tchar k = true -> forallb not_colon k = true.
Proof. apply forallb_impl. intros c Hc. apply tchar_facts in Hc. unfold not_colon. lia. Qed.

Lemma is_token_tchars k : is_token k = true -> forallb is_tchar k = true /\ k <> [].
Proof. destruct k; [discriminate|]. intro H. split; [exact H|discriminate]. Qed.

Lemma parse_field_line_emit k v :
  is_token k = true -> parse_field_line (k ++ [58; 32] ++ v) = Some (k, trim_ows v).
Proof.
  intro Hk. destruct (is_token_tchars k Hk) as [Ht _]. unfold parse_field_line.
  cbn [app]. rewrite drop_while_app_stop, take_while_app_stop by (try apply token_not_colon; auto).
  rewrite Hk. rewrite trim_ows_sp. reflexivity.
Qed.

Definition line_ok (h : bytes * bytes) : Prop := is_token (fst h) = true /\ no_crlf (snd h) = true.

Lemma emit_line_no_crlf h : line_ok h -> no_crlf (fst h ++ [58; 32] ++ snd h) = true.
Proof.
  intros [Hk Hv]. destruct (is_token_tchars _ Hk) as [Ht _].
  rewrite !no_crlf_app, (token_no_crlf _ Ht), Hv. reflexivity.
Qed.

Lemma parse_fields_emit lines : Forall line_ok lines -> forall fuel rest, (length lines < fuel)%nat ->
  parse_fields fuel (flat_map emit_line lines ++ CRLF ++ rest) = Some (map trimv lines, rest).
Proof.
  induction 1 as [|h lines Hh Hl IH]; intros fuel rest Hf.
  - destruct fuel; [cbn in Hf; lia|]. reflexivity.
  - destruct fuel as [|f]; [cbn in Hf; lia|]. cbn [flat_map]. unfold emit_line at 1.
    replace ((fst h ++ [58; 32] ++ snd h ++ CRLF) ++ flat_map emit_line lines) with
        ((fst h ++ [58; 32] ++ snd h) ++ 13 :: 10 :: flat_map emit_line lines)
      by (unfold CRLF; rewrite <- !app_assoc; reflexivity).
    rewrite <- app_assoc. cbn [parse_fields].
    change ((13 :: 10 :: flat_map emit_line lines) ++ CRLF ++ rest) with
        (13 :: 10 :: (flat_map emit_line lines ++ CRLF ++ rest)).
    rewrite take_line_app by (apply emit_line_no_crlf, Hh).
    destruct Hh as [Hk Hv]. destruct (is_token_tchars _ Hk) as [_ Hne].
    destruct (fst h ++ [58; 32] ++ snd h) as [|x xs] eqn:E.
    { destruct (fst h); [contradiction|discriminate]. }
    rewrite <- E. rewrite parse_field_line_emit by exact Hk.
    rewrite IH by (cbn [length] in Hf; lia). reflexivity.
Qed.

Lemma lines_le_bytes lines : (length lines <= length (flat_map emit_line lines))%nat.
Proof.
  induction lines as [|h l IH]; [reflexivity|]. cbn [flat_map length]. rewrite app_length.
  unfold emit_line at 1. rewrite !app_length. cbn [length]. lia.
Qed.

(** ---------- status line ---------- *)

Lemma to_dec_no_crlf n : no_crlf (to_dec n) = true.
Proof. apply lhex_no_crlf, to_radix_chars. left; reflexivity. Qed.

Lemma parse_status_line_emit c code reason : 100 <= code <= 999 ->
  parse_status_line (version_bytes c ++ [32] ++ to_dec code ++ [32] ++ reason)
  = Some ((if ver11 c then 1 else 0), code, reason).
Proof.
  intro Hc. unfold parse_status_line, version_bytes. rewrite <- app_assoc, strip_prefix_app.
  pose proof (to_dec_three_digits code Hc) as H3.
  assert (Hd : of_dec (to_dec code) = Some code) by (apply of_radix_to_radix; left; reflexivity).
  destruct (to_dec code) as [|a [|b [|d [|e r]]]]; try discriminate H3.
  cbn [app skipn firstn length]. rewrite Hd.
  destruct (ver11 c); reflexivity.
Qed.

(** ---------- chunked bodies ---------- *)

Lemma lhex_not_semi l : forallb is_lhex l = true -> forallb not_semi l = true.
Proof. apply forallb_impl. intro c. unfold is_lhex, not_semi. lia. Qed.

Lemma parse_chunks_emit ws : forall fuel tail, (length (flat_map emit_chunk ws) < fuel)%nat ->
  parse_chunks fuel (flat_map emit_chunk ws ++ 48 :: 13 :: 10 :: tail) = Some (concat ws, tail).
Proof.
  induction ws as [|d ws IH]; intros fuel tail Hf.
  - destruct fuel; [cbn in Hf; lia|]. reflexivity.
  - cbn [flat_map concat]. destruct d as [|x d'].
    + cbn [emit_chunk app]. apply IH. exact Hf.
    + assert (Hec : emit_chunk (x :: d') = to_hex (lenN (x :: d')) ++ CRLF ++ (x :: d') ++ CRLF) by reflexivity.
      assert (Hnz : lenN (x :: d') =? 0 = false) by (unfold lenN; cbn [length]; lia).
      remember (x :: d') as d eqn:Ed. clear Ed x d'.
      destruct fuel as [|f]; [cbn in Hf; lia|].
      assert (Hh : forallb is_lhex (to_hex (lenN d)) = true) by (apply to_radix_chars; right; reflexivity).
      rewrite Hec.
      replace (((to_hex (lenN d) ++ CRLF ++ d ++ CRLF) ++ flat_map emit_chunk ws) ++ 48 :: 13 :: 10 :: tail)
        with (to_hex (lenN d) ++ 13 :: 10 :: (d ++ CRLF ++ (flat_map emit_chunk ws ++ 48 :: 13 :: 10 :: tail)))
        by (unfold CRLF; rewrite <- !app_assoc; reflexivity).
      cbn [parse_chunks]. rewrite take_line_app by (apply lhex_no_crlf, Hh).
      rewrite take_while_all by (apply lhex_not_semi, Hh).
      unfold of_hex, to_hex. rewrite of_radix_to_radix by (right; reflexivity).
      rewrite Hnz.
      rewrite take_N_app, strip_prefix_app.
      rewrite IH; [reflexivity|].
      cbn [flat_map] in Hf. rewrite app_length, Hec in Hf.
      unfold CRLF in Hf. rewrite !app_length in Hf. cbn [length] in Hf. lia.
Qed.

(** ---------- sanitisation is "each line break becomes one SP", up to a trailing blank ---------- *)

Lemma san_breaks_len : forall n v, (length v <= n)%nat -> breaks_to_sp v = san v \/ breaks_to_sp v = san v ++ [32].
Proof.
  induction n as [|n IH]; intros v Hn.
  - destruct v; [left; reflexivity|cbn in Hn; lia].
  - destruct v as [|c r]; [left; reflexivity|]. cbn [length] in Hn. cbn [breaks_to_sp san].
    destruct (c =? 13) eqn:E1.
    + destruct r as [|d r']; [right; reflexivity|]. cbn [length] in Hn. destruct (d =? 10) eqn:E2.
      * destruct r' as [|e r'']; [right; reflexivity|].
        destruct (IH (e :: r'')) as [H|H]; [cbn [length] in *; lia|left|right]; rewrite H; reflexivity.
      * destruct (IH (d :: r')) as [H|H]; [cbn [length]; lia|left|right]; rewrite H; reflexivity.
    + destruct (c =? 10) eqn:E2.
      * destruct r as [|d r']; [right; reflexivity|].
        destruct (IH (d :: r')) as [H|H]; [cbn [length] in *; lia|left|right]; rewrite H; reflexivity.
      * destruct (IH r) as [H|H]; [lia|left|right]; rewrite H; reflexivity.
Qed.

Lemma san_breaks v : breaks_to_sp v = san v \/ breaks_to_sp v = san v ++ [32].
Proof. apply (san_breaks_len (length v)). lia. Qed.

Lemma drop_ws_snoc l : drop_ws (l ++ [32]) = match drop_ws l with [] => [] | x => x ++ [32] end.
Proof.
  induction l as [|c l IH]; [reflexivity|]. cbn [app drop_ws]. destruct (is_ws c) eqn:E; [exact IH|reflexivity].
Qed.

Lemma trim_ows_snoc_sp l : trim_ows (l ++ [32]) = trim_ows l.
Proof.
  unfold trim_ows. rewrite drop_ws_snoc. destruct (drop_ws l) as [|x xs] eqn:E; [reflexivity|].
  rewrite rev_app_distr. reflexivity.
Qed.

Lemma san_is_breaks_to_sp_modulo_ows v : trim_ows (san v) = trim_ows (breaks_to_sp v).
Proof. destruct (san_breaks v) as [H|H]; rewrite H; [reflexivity|]. rewrite trim_ows_snoc_sp. reflexivity. Qed.
